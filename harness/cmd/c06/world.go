// C06 harness, part 1: the executor.
//
// A History (JSON, the replay format) fully determines a run.  It is executed
// on three REAL nodes of the working tree, each a core.BlockChain over its own
// memory database with its own staking module registered on its processor:
//
//	A (builder)   every block is assembled by the real miner worker
//	              (worker.commitNewWork -> commitTransactions -> EndBlock with
//	              isSeal=true -> commit -> engine.Seal -> postSeal) fed by a real
//	              core.TxPool; evidences sit in A's staking module.
//	B (importer)  receives the blocks in batches through BlockChain.InsertChain
//	              (Process with isSeal=false, ValidateState, WriteBlockWithState).
//	C (re-executor) imports one block at a time; before each import the block
//	              is executed several times on fresh state objects by
//	              StateProcessor.Process + BlockValidator.ValidateState, with
//	              and without warm caches; probe hooks around the staking hook
//	              snapshot the ledger right before and right after EndBlock.
package main

import (
	"bytes"
	"crypto/ecdsa"
	"encoding/binary"
	"encoding/hex"
	"fmt"
	"math/big"
	"os"
	"runtime/debug"
	"sort"
	"strings"
	"time"

	"github.com/youchainhq/go-youchain/bls"
	"github.com/youchainhq/go-youchain/common"
	"github.com/youchainhq/go-youchain/consensus"
	"github.com/youchainhq/go-youchain/consensus/solo"
	"github.com/youchainhq/go-youchain/core"
	"github.com/youchainhq/go-youchain/core/rawdb"
	"github.com/youchainhq/go-youchain/core/state"
	"github.com/youchainhq/go-youchain/core/types"
	"github.com/youchainhq/go-youchain/core/vm"
	"github.com/youchainhq/go-youchain/crypto"
	"github.com/youchainhq/go-youchain/event"
	"github.com/youchainhq/go-youchain/local"
	"github.com/youchainhq/go-youchain/logging"
	"github.com/youchainhq/go-youchain/miner"
	"github.com/youchainhq/go-youchain/params"
	"github.com/youchainhq/go-youchain/rlp"
	"github.com/youchainhq/go-youchain/staking"
	"github.com/youchainhq/go-youchain/youdb"
)

// ---- inputs ---------------------------------------------------------------

type Params struct {
	Freq             uint64    `json:"freq"`
	WithdrawDelay    uint64    `json:"withdraw_delay"`
	Retention        uint64    `json:"retention"`
	MaxRewardsPeriod uint64    `json:"max_rewards_period"`
	ExpelDS          uint64    `json:"expel_ds"`
	ExpelInactive    uint64    `json:"expel_inactive"`
	FracDS           uint64    `json:"frac_ds"`
	FracInactive     uint64    `json:"frac_inactive"`
	InactWait        uint64    `json:"inact_wait"`
	StakeLookBack    uint64    `json:"stake_look_back"`
	MaxExpired       uint64    `json:"max_expired"`
	MinStakes        [3]uint64 `json:"min_stakes"`
	MaxStakes        [3]uint64 `json:"max_stakes"`
	MinSelf          [3]uint64 `json:"min_self"`
	Ratio            [3]uint64 `json:"ratio"`
	MaxDlgVal        int       `json:"max_dlg_val"`
	MaxDlgDlg        int       `json:"max_dlg_dlg"`
	MinDlgTokens     string    `json:"min_dlg_tokens"`
	SubsidyThreshold uint64    `json:"subsidy_threshold"`
	SubsidyCoeff     uint8     `json:"subsidy_coeff"`
}

type GenesisVal struct {
	Key        int    `json:"key"`
	Operator   int    `json:"operator"`
	Coinbase   int    `json:"coinbase"`
	Role       uint8  `json:"role"`
	Token      string `json:"token"`
	Online     bool   `json:"online"`
	Accept     uint16 `json:"accept"`
	Commission uint16 `json:"commission"`
	Risk       uint16 `json:"risk"`
}

type TxIn struct {
	Kind       string `json:"kind"` // transfer call deploy create update deposit withdraw status settle dadd dsub dsettle bad badaction
	From       int    `json:"from"`
	NonceDelta int    `json:"nonce_delta,omitempty"`
	Gas        uint64 `json:"gas"`
	Price      uint64 `json:"price"`
	To         int    `json:"to,omitempty"`
	Value      string `json:"value,omitempty"`
	TxValue    string `json:"tx_value,omitempty"`
	Val        int    `json:"val,omitempty"`
	Operator   int    `json:"operator,omitempty"`
	Coinbase   int    `json:"coinbase,omitempty"`
	Recipient  int    `json:"recipient,omitempty"`
	Role       uint8  `json:"role,omitempty"`
	Status     uint8  `json:"status,omitempty"`
	Accept     uint16 `json:"accept,omitempty"`
	Commission uint16 `json:"commission,omitempty"`
	Risk       uint16 `json:"risk,omitempty"`
	Name       int    `json:"name,omitempty"`
	// > 0: the gas limit is min(head gas limit, gas limit of the block under
	// construction) - GasBelow + 1, i.e. 1 = the largest gas limit the pool admits
	GasBelow uint64 `json:"gas_below,omitempty"`
	Depth    uint64 `json:"depth,omitempty"` // kind "ctx": BLOCKHASH(NUMBER - depth)
}

// EvIn is one evidence reaching the builder before it seals the block.
type EvIn struct {
	Kind   string `json:"kind"`   // valid badsig badidx onesign samehash unknown cert
	Round  uint64 `json:"round"`  // absolute round the evidence talks about
	Signer int    `json:"signer"` // validator key index
	Rel    bool   `json:"rel,omitempty"` // Round is an offset to the parent height of the block being built
}

// ForkIn: a second builder imports the first At blocks of the main chain and
// builds its own branch on top; the two branches are then handed to further
// nodes in both orders.
type ForkIn struct {
	At         int       `json:"at"`
	Blocks     []BlockIn `json:"blocks"`
	Unprepared string    `json:"unprepared,omitempty"` // also try a node that holds the longer branch "stored" only / "raw"
}

type BlockIn struct {
	Proposer int    `json:"proposer"`
	Txs      []TxIn `json:"txs,omitempty"`
	Evs      []EvIn `json:"evs,omitempty"`
}

type History struct {
	What     string       `json:"what,omitempty"`
	Comment  string       `json:"comment,omitempty"`
	Params   Params       `json:"params"`
	Balances []string     `json:"balances"`
	Pool     string       `json:"pool"`
	NVKeys   int          `json:"nvkeys"`
	Vals     []GenesisVal `json:"vals"`
	Blocks   []BlockIn    `json:"blocks"`
	Batches  []int        `json:"batches,omitempty"` // sizes of the InsertChain batches on B (default: 1 each)
	// the plain chain_makers path (no staking module): transfers and calls only
	Plain bool `json:"plain,omitempty"`
	// second side-chain import on a node whose database is not prepared as node
	// D's: "stored" (fork blocks stored without state, no transaction lookup) or
	// "raw" (nothing stored)
	SideE string `json:"side_e,omitempty"`
	// number of blocks node D imports the ordinary way before the rest arrives as a fork
	SideFrom int `json:"side_from,omitempty"`
	// the restarted importer is reopened from its database after these many blocks
	Restarts []int `json:"restarts,omitempty"`
	Fork     *ForkIn `json:"fork,omitempty"`
	// gas limit of the genesis block (0 = 60 000 000); small values make blocks that
	// are full in gas-limit reservations cheap
	GasLimit uint64 `json:"gas_limit,omitempty"`
}

// ---- observations -----------------------------------------------------------

type LogObs struct {
	Addr   string   `json:"addr"`
	Topics []string `json:"topics"`
	Data   string   `json:"data"`
}
type RecObs struct {
	Status uint64   `json:"status"`
	Cum    uint64   `json:"cum"`
	Gas    uint64   `json:"gas"`
	Logs   []LogObs `json:"logs"`
}

// LedgerSnap is the projection of the state the EndBlock model talks about.
type VSnap struct {
	ID      int64
	Role    uint8
	Online  bool
	Token   *big.Int
	Stake   *big.Int
	Total   *big.Int // RewardsTotal
	Dist    *big.Int
	Expelled bool
}
type LedgerSnap struct {
	Pool     *big.Int
	Residue  *big.Int
	Counts   [3]uint64   // online validators per role (chancellor, senator, house)
	OnStake  [3]*big.Int // online stake per role
	RolePool [3]*big.Int // RewardsDistributable of each role statistic
	Vals     []VSnap     // in validator-index order (GetValidatorsForUpdate)
}

type EvObs struct {
	Type      int    // 1 = known type (doublesignv5), 0 = unknown
	NSigns    int
	Differ    bool   // some signature is for a hash different from the first one
	Round     uint64
	Verified  bool   // index valid in the look-back set and every signature verifies
	SignerID  int64  // id of the resolved signer (when verified)
	Exists    bool   // signer is a validator in the parent state
	PenaltyPos bool  // floor(token*fraction/100) > 0 in the parent state
	Confirmed bool   // observed: the evidence is in the block's slash data
	Pending   bool   // observed: the evidence stayed in the builder's pool
}

type BlockObs struct {
	Number      uint64   `json:"number"`
	Built       bool     `json:"built"`
	Crash       string   `json:"crash,omitempty"`
	Hash        string   `json:"hash"`
	Root        string   `json:"root"`
	ValRoot     string   `json:"val_root"`
	StakingRoot string   `json:"staking_root"`
	ReceiptHash string   `json:"receipt_hash"`
	Bloom       string   `json:"bloom"`
	GasUsed     uint64   `json:"gas_used"`
	GasRewards  string   `json:"gas_rewards"`
	Subsidy     string   `json:"subsidy"`
	SlashData   string   `json:"slash_data"`
	NTx         int      `json:"ntx"`
	TxGas       []uint64 `json:"tx_gas"`
	TxPrice     []uint64 `json:"tx_price"`
	PoolErrs    []string `json:"pool_errs,omitempty"`
	Recs        []RecObs `json:"recs"`
	ImportErr   string   `json:"import_err,omitempty"` // error of InsertChain on B for the batch ending here ("" = accepted)
	Imported    bool     `json:"imported"`
	ReexecDiff  []string `json:"reexec_diff,omitempty"`
	// not part of the digest:
	Before, After *LedgerSnap `json:"-"`
	Evs           []EvObs     `json:"-"`
	EndLogs       int         `json:"-"`
	EndTopics     []string    `json:"-"`
	ProposerID    int64       `json:"-"`
	ProposerRole  uint8       `json:"-"`
	HeadMovedDiff string      `json:"-"`
	TamperAccepted []string   `json:"-"`
	TamperRejected int        `json:"-"`
	CarriedDiff    []string   `json:"-"` // one StateDB carried across the blocks of a segment: differences to the fresh execution
	Incoherent     []string   `json:"-"` // object cache of the carried StateDB versus its own tries
	SideErr        string     `json:"-"` // error of the real side-chain import path (node D), reported on the first block
	SideSkipped    bool       `json:"-"`
	Fork           *ForkObs   `json:"-"`
	RestartErr     string     `json:"-"` // restarted importer: error / panic on this block
	Restarted      int        `json:"-"` // restarted importer was reopened from disk before this block (count on block 1)
	BlockGasLimit  uint64     `json:"-"`
	GasSteps       []GasStep  `json:"-"` // the candidates in the order the worker tried them
	FinalPool      uint64     `json:"-"`
	HasPool        bool       `json:"-"`
	SideEErr       string     `json:"-"`
	SideEMode      string     `json:"-"`
	SideLen        int        `json:"-"`
	Submitted      int        `json:"-"`
}

// ---- plumbing -----------------------------------------------------------------

const genesisTime = 4102444800 // far in the future: the worker's clock reading never exceeds the parent time

type fakeEngine struct {
	*solo.Solo
	coinbase common.Address
}

func (e *fakeEngine) GetValMainAddress() common.Address { return e.coinbase }
func (e *fakeEngine) Prepare(chain consensus.ChainReader, header *types.Header) error {
	return nil
}
func (e *fakeEngine) Seal(chain consensus.ChainReader, block *types.Block, stop <-chan struct{}) (*types.Block, error) {
	return block, nil
}

// uconEngine makes the fake engine satisfy consensus.Ucon so that the REAL
// side-chain import path (BlockChain.insertSidechain -> verifyAllSideChainBlocks:
// ONE StateDB carried across all blocks of the fork) can be driven: header
// verification answers ErrExistCanonical for the first header of the next
// InsertChain call when sideOnce is set, which is how insertChain enters that path.
type uconEngine struct {
	*fakeEngine
	sideOnce bool
}

func (e *uconEngine) HandleMsg(data []byte, receivedAt time.Time) error { return nil }
func (e *uconEngine) NewChainHead(block *types.Block)                  {}
func (e *uconEngine) GetLookBackBlockNumber(cp *params.CaravelParams, num *big.Int, lbType params.LookBackType) *big.Int {
	lb := uint64(2)
	if cp != nil && cp.StakeLookBack > 0 {
		lb = cp.StakeLookBack
	}
	if num.Uint64() > lb {
		return new(big.Int).SetUint64(num.Uint64() - lb)
	}
	return new(big.Int)
}
func (e *uconEngine) VerifySideChainHeader(cp *params.CaravelParams, seedHeader *types.Header, vldReader state.ValidatorReader, certHeader *types.Header, certVldReader state.ValidatorReader, block *types.Block, parents []*types.Block) error {
	return nil
}
func (e *uconEngine) VerifyAcHeader(chain consensus.ChainReader, acHeader *types.Header, verifiedAcParents []*types.Header) error {
	return nil
}
func (e *uconEngine) VerifyHeaders(chain consensus.ChainReader, headers []*types.Header, seals []bool) (chan<- struct{}, <-chan error) {
	abort := make(chan struct{}, 1)
	results := make(chan error, len(headers))
	for i := range headers {
		if i == 0 && e.sideOnce {
			e.sideOnce = false
			results <- consensus.ErrExistCanonical
		} else {
			results <- nil
		}
	}
	return abort, results
}

type backend struct {
	bc   *core.BlockChain
	pool *core.TxPool
}

func (b *backend) BlockChain() *core.BlockChain { return b.bc }
func (b *backend) TxPool() *core.TxPool         { return b.pool }

type Node struct {
	name string
	db   youdb.Database
	bc   *core.BlockChain
	stk  *staking.Staking
	eng  *fakeEngine
	ucon *uconEngine
	mux  *event.TypeMux
}

type probe struct {
	w      *World
	on     bool
	before *LedgerSnap
	after  *LedgerSnap
}

type World struct {
	h        *History
	yp       params.YouParams
	keys     []*ecdsa.PrivateKey
	addrs    []common.Address
	vkeys    []*ecdsa.PrivateKey
	vpub     [][]byte
	vmain    []common.Address
	blsSk    []bls.SecretKey
	blsPk    [][]byte
	contract []common.Address
	pool     common.Address
	penalty  common.Address
	uni      []common.Address
	ids      map[common.Address]int64
	A, B, C, D, E *Node
	forking       bool
	curGasLimit   uint64
	extra         []*Node
	be       *backend
	worker   *miner.VerifWorkerC06
	pr       *probe
	blocks   []*types.Block
}

var blsMgr = bls.NewBlsManager()

func detKey(tag byte, i int) *ecdsa.PrivateKey {
	b := crypto.Keccak256([]byte{tag, byte(i), 0x06, 0xc0})
	k, err := crypto.ToECDSA(b)
	if err != nil {
		panic(err)
	}
	return k
}

func detBls(i int) bls.SecretKey {
	for salt := 0; ; salt++ {
		b := crypto.Keccak256([]byte{'b', byte(i), byte(salt), 0x06})
		b[0] &= 0x0f // keep it below the group order
		sk, err := blsMgr.DecSecretKey(b)
		if err == nil && sk != nil {
			return sk
		}
	}
}

func bigS(s string) *big.Int {
	if s == "" {
		return new(big.Int)
	}
	v, ok := new(big.Int).SetString(s, 10)
	if !ok {
		panic("bad number " + s)
	}
	return v
}

type critPanic string

// GasStep: one candidate the worker tried (from its own log records).
type GasStep struct {
	Limit uint64
	Kind  int // 0 applied, 1 nonce, 2 no money for the gas, 3 refused by the pool, 4 intrinsic gas, 5 value transfer impossible, 9 other
	Used  uint64
	Err   string
}

type buildEvent struct {
	tx       string
	ok       bool
	gas      uint64
	err      error
	refunded bool
}

var (
	capture        *[]buildEvent
	lastRefundUsed uint64
	haveRefundUsed bool
)

func ctxVal(ctx []interface{}, key string) interface{} {
	for i := 0; i+1 < len(ctx); i += 2 {
		if k, ok := ctx[i].(string); ok && k == key {
			return ctx[i+1]
		}
	}
	return nil
}

func quietLogs() {
	logging.Root().SetHandler(logging.FuncHandler(func(r *logging.Record) error {
		if r.Lvl == logging.LvlCrit {
			panic(critPanic("CRIT: " + r.Msg))
		}
		if capture != nil {
			switch r.Msg {
			case "refundGas": // MessageContext.refundGas: gas used net of the refund counter = what the pool loses
				if g, ok := ctxVal(r.Ctx, "gasUsed").(uint64); ok {
					lastRefundUsed, haveRefundUsed = g, true
				}
			case "apply transaction Finalise": // StateProcessor.ApplyTransaction succeeded
				tx, _ := ctxVal(r.Ctx, "tx").(string)
				gas, _ := ctxVal(r.Ctx, "gas").(uint64)
				if haveRefundUsed {
					gas = lastRefundUsed
				}
				haveRefundUsed = false
				*capture = append(*capture, buildEvent{tx: tx, ok: true, gas: gas})
			case "commitTransaction: apply transition failed": // worker.commitTransaction
				tx, _ := ctxVal(r.Ctx, "tx").(string)
				err, _ := ctxVal(r.Ctx, "err").(error)
				ev := buildEvent{tx: tx, err: err}
				if haveRefundUsed { // the failure came after refundGas
					ev.gas, ev.refunded = lastRefundUsed, true
				}
				haveRefundUsed = false
				*capture = append(*capture, ev)
			}
		}
		return nil
	}))
}

var roles = []params.ValidatorRole{params.RoleChancellor, params.RoleSenator, params.RoleHouse}

func (p *Params) youParams(pool, penalty common.Address) params.YouParams {
	yp := params.Versions[params.YouV5].DeepCopy()
	yp.Version = params.YouV5
	yp.ApprovedUpgradeVersion = 0
	yp.StakeLookBack = p.StakeLookBack
	sp := &yp.StakingParams
	sp.RewardsPoolAddress = pool
	sp.PenaltyTo = penalty
	sp.SubsidyThreshold = p.SubsidyThreshold
	sp.SubsidyCoeff = p.SubsidyCoeff
	for i, r := range roles {
		sp.MinStakes[r] = p.MinStakes[i]
		sp.MaxStakes[r] = p.MaxStakes[i]
		sp.MinSelfStakes[r] = p.MinSelf[i]
		sp.RewardsDistRatio[r] = p.Ratio[i]
		sp.SignatureRequired[r] = false
	}
	sp.MaxRewardsPeriod = p.MaxRewardsPeriod
	sp.MaxEvidenceExpiredIn = p.MaxExpired
	sp.WithdrawDelay = p.WithdrawDelay
	sp.WithdrawRecordRetention = p.Retention
	sp.ExpelledRoundForDoubleSign = p.ExpelDS
	sp.ExpelledRoundForInactive = p.ExpelInactive
	sp.PenaltyFractionForDoubleSign = p.FracDS
	sp.PenaltyFractionForInactive = p.FracInactive
	sp.InactivityPenaltyWaitRounds = p.InactWait
	sp.StakingTrieFrequency = p.Freq
	sp.MaxDelegationForValidator = p.MaxDlgVal
	sp.MaxDelegationForDelegator = p.MaxDlgDlg
	sp.MinDelegationTokens = bigS(p.MinDlgTokens)
	return yp
}

var contractCodes = [][]byte{
	nil,                            // forwarder (filled in newWorld)
	{0x60, 0x00, 0x60, 0x00, 0xfd}, // reverter
	// toggler: if sload(0)==0 {sstore(0,1)} else {sstore(0,0)}
	{0x60, 0x00, 0x54, 0x15, 0x60, 0x0d, 0x57, 0x60, 0x00, 0x60, 0x00, 0x55, 0x00, 0x5b, 0x60, 0x01, 0x60, 0x00, 0x55, 0x00},
	// logger: LOG2(mem[0..32]=callvalue, topic1=caller, topic2=number)
	{0x34, 0x60, 0x00, 0x52, 0x43, 0x33, 0x60, 0x20, 0x60, 0x00, 0xa2, 0x00},
	// block-context reader (called by transactions of kind "ctx", calldata = depth d):
	// s[0]=BLOCKHASH(NUMBER-d) (also logged), s[1]=NUMBER, s[2]=COINBASE, s[3]=TIMESTAMP,
	// s[4]=GASLIMIT, s[5]=DIFFICULTY, s[6]=BLOCKHASH(NUMBER-1), s[7]=BLOCKHASH(NUMBER-256),
	// s[8]=BLOCKHASH(NUMBER-257) (out of range), s[9]=BLOCKHASH(NUMBER) (not an ancestor)
	{0x60, 0x00, 0x35, 0x43, 0x03, 0x40, 0x80, 0x60, 0x00, 0x52, 0x60, 0x00, 0x55,
		0x43, 0x60, 0x01, 0x55, 0x41, 0x60, 0x02, 0x55, 0x42, 0x60, 0x03, 0x55, 0x45, 0x60, 0x04, 0x55, 0x44, 0x60, 0x05, 0x55,
		0x60, 0x01, 0x43, 0x03, 0x40, 0x60, 0x06, 0x55,
		0x61, 0x01, 0x00, 0x43, 0x03, 0x40, 0x60, 0x07, 0x55,
		0x61, 0x01, 0x01, 0x43, 0x03, 0x40, 0x60, 0x08, 0x55,
		0x43, 0x40, 0x60, 0x09, 0x55,
		0x60, 0x20, 0x60, 0x00, 0xa0, 0x00},
}

const ctxContract = 4

// init code of a deployed contract: returns 1 byte of runtime code (STOP) and stores to slot 1
var deployCode = []byte{0x60, 0x07, 0x60, 0x01, 0x55, 0x60, 0x00, 0x60, 0x00, 0x53, 0x60, 0x01, 0x60, 0x00, 0xf3}

func newWorld(h *History) *World {
	w := &World{h: h}
	w.pool = common.BigToAddress(big.NewInt(0x1111111111))
	w.penalty = common.BigToAddress(big.NewInt(0x1111111112))
	w.yp = h.Params.youParams(w.pool, w.penalty)
	// every version in the table answers with the scaled-down V5 parameters
	vm := make(params.VersionsMap)
	for v := range params.Versions {
		vm[v] = params.Versions[v]
	}
	vm[params.YouV5] = w.yp
	params.Versions = vm

	for i := range h.Balances {
		k := detKey('a', i)
		w.keys = append(w.keys, k)
		w.addrs = append(w.addrs, crypto.PubkeyToAddress(k.PublicKey))
	}
	for i := 0; i < h.NVKeys; i++ {
		k := detKey('v', i)
		w.vkeys = append(w.vkeys, k)
		pub := crypto.CompressPubkey(&k.PublicKey)
		w.vpub = append(w.vpub, pub)
		w.vmain = append(w.vmain, state.PubToAddress(pub))
		sk := detBls(i)
		w.blsSk = append(w.blsSk, sk)
		pk, err := sk.PubKey()
		if err != nil {
			panic(err)
		}
		c := pk.Compress()
		w.blsPk = append(w.blsPk, c.Bytes())
	}
	for i := range contractCodes {
		w.contract = append(w.contract, common.BigToAddress(big.NewInt(int64(0xc0de00+i))))
	}
	w.uni = append(w.uni, common.Address{}, w.pool, w.penalty, params.StakingModuleAddress)
	w.uni = append(w.uni, w.addrs...)
	w.uni = append(w.uni, w.vmain...)
	w.uni = append(w.uni, w.contract...)
	sort.Slice(w.uni, func(i, j int) bool { return bytes.Compare(w.uni[i][:], w.uni[j][:]) < 0 })
	w.ids = map[common.Address]int64{}
	for i, a := range w.uni {
		w.ids[a] = int64(i)
	}
	w.pr = &probe{w: w}
	w.A = w.newNode("A", false)
	w.B = w.newNode("B", false)
	w.C = w.newNode("C", true)
	w.D = w.newNode("D", false)
	w.be = &backend{bc: w.A.bc}
	w.worker = miner.VerifNewWorkerC06(w.A.eng, w.be, w.A.mux)
	return w
}

func (w *World) id(a common.Address) int64 {
	if i, ok := w.ids[a]; ok {
		return i
	}
	return -1
}

func (w *World) acct(i int) common.Address {
	if i < 0 || i >= len(w.addrs) {
		return common.Address{}
	}
	return w.addrs[i]
}

func emptyHeaderFields(h *types.Header) {
	h.Extra, h.SlashData, h.Consensus, h.ChtRoot, h.BltRoot = []byte{}, []byte{}, []byte{}, []byte{}, []byte{}
	h.Signature, h.Validator, h.Certificate = []byte{}, []byte{}, []byte{}
}

func (w *World) genesisGasLimit() uint64 {
	if w.h.GasLimit > 0 {
		return w.h.GasLimit
	}
	return 60000000
}

func (w *World) writeGenesis(db youdb.Database) *types.Block {
	h := w.h
	sdb := state.NewDatabase(db)
	st, err := state.New(common.Hash{}, common.Hash{}, common.Hash{}, sdb)
	if err != nil {
		panic(err)
	}
	for i, b := range h.Balances {
		st.AddBalance(w.addrs[i], bigS(b))
	}
	fw := []byte{0x60, 0x00, 0x60, 0x00, 0x60, 0x00, 0x60, 0x00, 0x60, 0x02, 0x34, 0x04, 0x73}
	fw = append(fw, w.addrs[0][:]...)
	fw = append(fw, 0x5a, 0xf1, 0x00)
	for i, c := range contractCodes {
		if i == 0 {
			c = fw
		}
		st.SetCode(w.contract[i], c)
		st.SetNonce(w.contract[i], 1)
	}
	if !h.Plain {
		for _, gv := range h.Vals {
			tok := bigS(gv.Token)
			status := params.ValidatorOffline
			if gv.Online {
				status = params.ValidatorOnline
			}
			v := st.CreateValidator(fmt.Sprintf("g%d", gv.Key), w.addrs[gv.Operator], w.addrs[gv.Coinbase], params.ValidatorRole(gv.Role),
				w.vpub[gv.Key], w.blsPk[gv.Key], tok, params.YOUToStake(tok), gv.Accept, gv.Commission, gv.Risk, status)
			if v == nil {
				panic("duplicate genesis validator")
			}
		}
	}
	st.AddBalance(w.pool, bigS(h.Pool))
	root, valRoot, stakingRoot := st.IntermediateRoot(true)
	hdr := &types.Header{Number: big.NewInt(0), Root: root, ValRoot: valRoot, StakingRoot: stakingRoot, GasLimit: w.genesisGasLimit(),
		GasRewards: big.NewInt(0), Subsidy: big.NewInt(0), CurrVersion: params.YouV5, Time: genesisTime}
	emptyHeaderFields(hdr)
	if _, _, _, err := st.Commit(true); err != nil {
		panic(err)
	}
	for _, r := range []common.Hash{root, valRoot, stakingRoot} {
		if err := sdb.TrieDB().Commit(r, true); err != nil {
			panic(err)
		}
	}
	block := types.NewBlock(hdr, nil, nil)
	rawdb.WriteBlock(db, block)
	rawdb.WriteReceipts(db, block.Hash(), 0, nil)
	rawdb.WriteCanonicalHash(db, block.Hash(), 0)
	rawdb.WriteHeadBlockHash(db, block.Hash())
	rawdb.WriteHeadHeaderHash(db, block.Hash())
	rawdb.WriteNetworkId(db, block.Hash(), params.NetworkIdForTestCase)
	return block
}

func (w *World) newNode(name string, probes bool) *Node {
	return w.openNode(name, probes, youdb.NewMemDatabase(), true)
}

// openNode creates the chain objects (BlockChain, state database with its trie
// node cache, staking module) over a database; with genesis=false the database
// already holds a chain: a node restarted from disk.
func (w *World) openNode(name string, probes bool, db youdb.Database, genesis bool) *Node {
	n := &Node{name: name, db: db, mux: new(event.TypeMux)}
	if genesis {
		w.writeGenesis(n.db)
	}
	n.eng = &fakeEngine{Solo: solo.NewSolo()}
	var eng consensus.Engine = n.eng
	if name == "D" || name == "E" || strings.HasPrefix(name, "F") {
		n.ucon = &uconEngine{fakeEngine: n.eng}
		eng = n.ucon
	}
	bc, err := core.NewBlockChain(n.db, eng, n.mux, params.ArchiveNode, local.FakeDetailDB())
	if err != nil {
		panic(err)
	}
	n.bc = bc
	if !w.h.Plain {
		proc := bc.Processor().(*core.StateProcessor)
		if probes {
			proc.AddEndBlockHook("c06-probe-before", w.pr.hook(true))
		}
		n.stk = staking.NewStaking(nil)
		n.stk.Register(proc)
		staking.VerifSetChainC06(n.stk, bc)
		if probes {
			proc.AddEndBlockHook("c06-probe-after", w.pr.hook(false))
		}
	}
	return n
}

func (w *World) stop() {
	for _, n := range append([]*Node{w.A, w.B, w.C, w.D, w.E}, w.extra...) {
		if n != nil && n.bc != nil {
			n.bc.Stop()
		}
	}
}

// ---- probes (node C only) -------------------------------------------------------

func (p *probe) hook(before bool) core.BlockHookFn {
	return func(chain vm.ChainReader, header *types.Header, txs []*types.Transaction, db *state.StateDB, seal bool, rec local.DetailRecorder) (*types.Receipt, []byte, error) {
		if !p.on {
			return nil, nil, nil
		}
		s := p.w.snap(db)
		if before {
			p.before = s
		} else {
			p.after = s
		}
		return nil, nil, nil
	}
}

func (w *World) snap(db *state.StateDB) *LedgerSnap {
	s := &LedgerSnap{Pool: new(big.Int).Set(db.GetBalance(w.pool))}
	stat, err := db.GetValidatorsStat()
	if err != nil {
		panic(err)
	}
	s.Residue = new(big.Int).Set(stat.GetRewardResidue())
	for i, r := range roles {
		rs := stat.GetByRole(r)
		s.Counts[i] = rs.GetCount()
		s.OnStake[i] = new(big.Int).Set(rs.GetOnlineStake())
		s.RolePool[i] = new(big.Int).Set(rs.GetRewardsDistributable())
	}
	for _, v := range db.GetValidatorsForUpdate() {
		s.Vals = append(s.Vals, VSnap{ID: w.id(v.MainAddress()), Role: uint8(v.Role), Online: v.IsOnline(), Token: new(big.Int).Set(v.Token),
			Stake: new(big.Int).Set(v.Stake), Total: new(big.Int).Set(v.RewardsTotal), Dist: new(big.Int).Set(v.RewardsDistributable), Expelled: v.Expelled})
	}
	return s
}

// ---- transactions -----------------------------------------------------------------

func nameOf(n int) string {
	if n == 0 {
		return ""
	}
	return fmt.Sprintf("n%d", n)
}

func (w *World) buildTx(nonceOf func(common.Address) uint64, t *TxIn) *types.Transaction {
	if t.From < 0 || t.From >= len(w.addrs) {
		t.From = 0
	}
	from := w.addrs[t.From]
	nonce := uint64(int64(nonceOf(from)) + int64(t.NonceDelta))
	if t.GasBelow > 0 && w.curGasLimit >= t.GasBelow {
		t.Gas = w.curGasLimit - t.GasBelow + 1
	}
	price := new(big.Int).SetUint64(t.Price)
	var tx *types.Transaction
	stakingTx := func(action staking.ActionType, payload interface{}) *types.Transaction {
		bs, err := rlp.EncodeToBytes(payload)
		if err != nil {
			panic(err)
		}
		data, err := rlp.EncodeToBytes(&staking.Message{Action: action, Payload: bs})
		if err != nil {
			panic(err)
		}
		return types.NewTransaction(nonce, params.StakingModuleAddress, bigS(t.TxValue), t.Gas, price, data)
	}
	main := common.Address{}
	if t.Val >= 0 && t.Val < len(w.vmain) {
		main = w.vmain[t.Val]
	}
	switch t.Kind {
	case "transfer":
		tx = types.NewTransaction(nonce, w.acct(t.To), bigS(t.Value), t.Gas, price, nil)
	case "call":
		tx = types.NewTransaction(nonce, w.contract[t.To%len(w.contract)], bigS(t.Value), t.Gas, price, nil)
	case "ctx":
		data := common.BigToHash(new(big.Int).SetUint64(t.Depth)).Bytes()
		tx = types.NewTransaction(nonce, w.contract[ctxContract], new(big.Int), t.Gas, price, data)
	case "deploy":
		tx = types.NewContractCreation(nonce, bigS(t.Value), t.Gas, price, deployCode)
	case "create":
		var pub, bpk []byte
		if t.Val >= 0 && t.Val < len(w.vpub) {
			pub, bpk = w.vpub[t.Val], w.blsPk[t.Val]
		}
		tx = stakingTx(staking.ValidatorCreate, &staking.TxCreateValidator{Name: nameOf(t.Name), OperatorAddress: w.acct(t.Operator), Coinbase: w.acct(t.Coinbase),
			MainPubKey: pub, BlsPubKey: bpk, Value: bigS(t.Value), Nonce: nonce,
			CommissionRate: t.Commission, RiskObligation: t.Risk, AcceptDelegation: t.Accept, Role: params.ValidatorRole(t.Role)})
	case "update":
		tx = stakingTx(staking.ValidatorUpdate, &staking.TxUpdateValidator{Nonce: nonce, Name: nameOf(t.Name), MainAddress: main, OperatorAddress: w.acct(t.Operator),
			Coinbase: w.acct(t.Coinbase), CommissionRate: t.Commission, RiskObligation: t.Risk, AcceptDelegation: t.Accept})
	case "deposit":
		tx = stakingTx(staking.ValidatorDeposit, &staking.TxValidatorDeposit{MainAddress: main, Value: bigS(t.Value), Nonce: nonce})
	case "withdraw":
		tx = stakingTx(staking.ValidatorWithDraw, &staking.TxValidatorWithdraw{MainAddress: main, Recipient: w.acct(t.Recipient), Value: bigS(t.Value), Nonce: nonce})
	case "status":
		tx = stakingTx(staking.ValidatorChangeStatus, &staking.TxValidatorChangeStatus{MainAddress: main, Status: t.Status, Nonce: nonce})
	case "settle":
		tx = stakingTx(staking.ValidatorSettle, &staking.TxValidatorSettle{MainAddress: main})
	case "dadd":
		tx = stakingTx(staking.DelegationAdd, &staking.TxDelegation{Validator: main, Value: bigS(t.Value)})
	case "dsub":
		tx = stakingTx(staking.DelegationSub, &staking.TxDelegation{Validator: main, Value: bigS(t.Value)})
	case "dsettle":
		tx = stakingTx(staking.DelegationSettle, &staking.TxDelegationSettle{Validator: main})
	case "badaction":
		tx = stakingTx(staking.ActionType(0x7f), &staking.TxValidatorSettle{MainAddress: main})
	default: // "bad": bytes that are not a staking message
		tx = types.NewTransaction(nonce, params.StakingModuleAddress, bigS(t.TxValue), t.Gas, price, []byte{0xff, 0x00, byte(t.Name)})
	}
	signed, err := types.SignTx(tx, types.MakeSigner(nil), w.keys[t.From])
	if err != nil {
		panic(err)
	}
	return signed
}

// ---- evidences ----------------------------------------------------------------------

// makeEvidence builds a real double-sign evidence (BLS signatures over
// hash||round||index, the payload processDoubleSignV5 checks).
func (w *World) makeEvidence(e *EvIn) (staking.Evidence, EvObs) {
	obs := EvObs{Type: 1, Round: e.Round, SignerID: -1}
	signer := e.Signer
	if signer < 0 || signer >= len(w.vmain) {
		signer = 0
	}
	voteType := staking.Prevote
	if e.Kind == "cert" {
		voteType = staking.Certificate
	}
	// index of the signer in the look-back validator set of the evidence round
	idx := uint32(0)
	inSet := false
	if vr, err := w.A.bc.LookBackVldReaderForRound(e.Round, voteType == staking.Certificate); err == nil && vr != nil {
		for i, v := range vr.GetValidators().List() {
			if v.MainAddress() == w.vmain[signer] {
				idx, inSet = uint32(i), true
			}
		}
		if e.Kind == "badidx" {
			idx, inSet = uint32(vr.GetValidators().Len()+3), false
		}
	}
	sk := w.blsSk[signer]
	if e.Kind == "badsig" {
		sk = w.blsSk[(signer+1)%len(w.blsSk)]
	}
	roundIndex := uint32(1)
	buf := make([]byte, 4)
	binary.BigEndian.PutUint32(buf, roundIndex)
	roundbuf := append(new(big.Int).SetUint64(e.Round).Bytes(), buf...)
	var signs []*staking.SignInfo
	n := 2
	if e.Kind == "onesign" {
		n = 1
	}
	for k := 0; k < n; k++ {
		hsh := crypto.Keccak256Hash([]byte{byte(k + 1), byte(e.Round), byte(signer)})
		if e.Kind == "samehash" { // one vote listed twice: not an offence
			hsh = crypto.Keccak256Hash([]byte{1, byte(e.Round), byte(signer)})
		}
		payload := append(hsh.Bytes(), roundbuf...)
		sig := sk.Sign(payload).Compress()
		signs = append(signs, &staking.SignInfo{Hash: hsh, Sign: sig.Bytes()})
	}
	ev := staking.NewEvidence(staking.EvidenceDoubleSignV5{Round: e.Round, RoundIndex: roundIndex, SignerIdx: idx, VoteType: voteType, Signs: signs})
	if e.Kind == "unknown" {
		ev.Type = "c06-unknown"
		obs.Type = 0
	}
	obs.NSigns = n
	obs.Verified = inSet && e.Kind != "badsig" && e.Kind != "badidx"
	if obs.Verified {
		obs.SignerID = w.id(w.vmain[signer])
	}
	return ev, obs
}

// ---- running ---------------------------------------------------------------------------

func hx(b []byte) string { return hex.EncodeToString(b) }

func recObs(rs types.Receipts) []RecObs {
	out := []RecObs{}
	for _, r := range rs {
		o := RecObs{Status: r.Status, Cum: r.CumulativeGasUsed, Gas: r.GasUsed, Logs: []LogObs{}}
		for _, l := range r.Logs {
			lo := LogObs{Addr: hx(l.Address[:]), Data: hx(l.Data), Topics: []string{}}
			for _, t := range l.Topics {
				lo.Topics = append(lo.Topics, hx(t[:]))
			}
			o.Logs = append(o.Logs, lo)
		}
		out = append(out, o)
	}
	return out
}

func headerObs(o *BlockObs, b *types.Block) {
	h := b.Header()
	o.Hash, o.Root, o.ValRoot, o.StakingRoot = hx(b.Hash().Bytes()), hx(h.Root[:]), hx(h.ValRoot[:]), hx(h.StakingRoot[:])
	o.ReceiptHash, o.Bloom = hx(h.ReceiptHash[:]), hx(crypto.Keccak256(h.Bloom[:]))
	o.GasUsed, o.GasRewards, o.Subsidy, o.SlashData = h.GasUsed, h.GasRewards.String(), h.Subsidy.String(), hx(h.SlashData)
	o.NTx = len(b.Transactions())
	for _, tx := range b.Transactions() {
		o.TxPrice = append(o.TxPrice, tx.GasPrice().Uint64())
	}
}

// buildBlock assembles the next block on node A with the real worker.
func (w *World) buildBlock(b *BlockIn) (blk *types.Block, o *BlockObs) {
	parent := w.A.bc.CurrentBlock()
	o = &BlockObs{Number: parent.NumberU64() + 1, ProposerID: -1}
	defer func() {
		if r := recover(); r != nil {
			o.Crash = fmt.Sprint(r)
			if len(o.Crash) > 200 {
				o.Crash = o.Crash[:200]
			}
			// name the innermost staking function on the stack (outcome classes)
			for _, ln := range strings.Split(string(debug.Stack()), "\n") {
				if i := strings.Index(ln, "go-youchain/staking."); i >= 0 && !strings.Contains(ln, "EndBlock") {
					f := ln[i+len("go-youchain/staking."):]
					if j := strings.Index(f, "("); j > 0 {
						f = f[:j]
					}
					o.Crash += " @" + f
					break
				}
			}
			blk = nil
		}
	}()
	coinbase := common.Address{}
	if b.Proposer >= 0 && b.Proposer < len(w.vmain) {
		coinbase = w.vmain[b.Proposer]
	}
	w.A.eng.coinbase = coinbase
	o.ProposerID = w.id(coinbase)
	var pst *state.StateDB
	if !w.h.Plain {
		var err error
		pst, err = w.A.bc.StateAt(parent.Root(), parent.ValRoot(), parent.StakingRoot())
		if err != nil {
			panic(err)
		}
		if v := pst.GetValidatorByMainAddr(coinbase); v != nil {
			o.ProposerRole = uint8(v.Role)
		}
		// evidences reach the builder
		for i := range b.Evs {
			e := b.Evs[i]
			if e.Rel {
				e.Round, e.Rel = o.Number-1+e.Round, false
			}
			ev, eo := w.makeEvidence(&e)
			staking.VerifAddEvidenceC06(w.A.stk, ev)
			// evidences are gossiped: the importing nodes hold them in their pools too
			// (nothing on the import path may look at that pool)
			if !w.forking {
				staking.VerifAddEvidenceC06(w.B.stk, ev)
				staking.VerifAddEvidenceC06(w.C.stk, ev)
			}
			_ = eo
		}
	}
	// a fresh pool on the current head, filled synchronously
	cfg := core.DefaultTxPoolConfig
	cfg.Journal, cfg.NoLocals = "", true
	pool := core.NewTxPool(cfg, w.A.bc)
	defer pool.Stop()
	w.be.pool = pool
	o.Submitted = len(b.Txs)
	// the transaction pool admits gas limits up to the HEAD's gas limit; steered gas
	// limits are counted down from the smaller of that and the new block's limit
	o.BlockGasLimit = core.CalcGasLimit(parent)
	w.curGasLimit = o.BlockGasLimit
	if parent.GasLimit() < w.curGasLimit {
		w.curGasLimit = parent.GasLimit()
	}
	submitted := map[string]*types.Transaction{}
	for i := range b.Txs {
		ti := b.Txs[i]
		tx := w.buildTx(pool.Nonce, &ti)
		submitted[tx.Hash().String()] = tx
		errs := pool.AddRemotesSync([]*types.Transaction{tx})
		if errs[0] != nil {
			o.PoolErrs = append(o.PoolErrs, errs[0].Error())
		}
	}
	var pend []staking.Evidence
	if !w.h.Plain {
		pend = staking.VerifPendingEvidencesC06(w.A.stk)
	}
	var events []buildEvent
	capture, haveRefundUsed = &events, false
	blk = w.worker.Build()
	capture = nil
	o.FinalPool, o.HasPool = w.worker.LastGasPool()
	proc, _ := w.A.bc.Processor().(*core.StateProcessor)
	for _, e := range events {
		tx := submitted[e.tx]
		if tx == nil || proc == nil {
			o.HasPool = false // an event that cannot be matched: no gas case for this block
			break
		}
		st := GasStep{Limit: tx.Gas(), Used: e.gas}
		if !e.ok {
			igas, _ := proc.GetConverter(tx.To()).IntrinsicGas(tx.Data(), tx.To())
			switch {
			case e.err == core.ErrNonceTooLow || e.err == core.ErrNonceTooHigh:
				st.Kind = 1
			case e.err != nil && e.err.Error() == "insufficient balance to pay for gas":
				st.Kind = 2
			case e.err == core.ErrGasLimitReached:
				st.Kind = 3
			case e.err == vm.ErrOutOfGas:
				st.Kind = 4
			case e.err == vm.ErrInsufficientBalance:
				st.Kind, st.Used = 5, igas
				if e.refunded {
					st.Used = e.gas
				}
			default:
				st.Kind = 9
			}
			if e.err != nil {
				st.Err = e.err.Error()
			}
		}
		o.GasSteps = append(o.GasSteps, st)
	}
	if blk == nil {
		o.Crash = "worker produced no task"
		return nil, o
	}
	if w.A.bc.CurrentBlock().Hash() != blk.Hash() {
		o.Crash = "built block did not become the builder's head"
		return nil, o
	}
	o.Built = true
	headerObs(o, blk)
	recs := w.A.bc.GetReceiptsByHash(blk.Hash())
	o.Recs = recObs(recs)
	for i := range blk.Transactions() {
		if i < len(recs) {
			o.TxGas = append(o.TxGas, recs[i].GasUsed)
		}
	}
	if !w.h.Plain {
		w.observeEvidences(o, blk, pst, pend)
	}
	return blk, o
}

// observeEvidences classifies every evidence the builder's pool held before
// the block was sealed: confirmed (in slash data), pending (still pooled) or dropped.
func (w *World) observeEvidences(o *BlockObs, blk *types.Block, pst *state.StateDB, before []staking.Evidence) {
	var confirmed []staking.Evidence
	if len(blk.Header().SlashData) > 0 {
		if err := rlp.DecodeBytes(blk.Header().SlashData, &confirmed); err != nil {
			panic(err)
		}
	}
	after := staking.VerifPendingEvidencesC06(w.A.stk)
	count := func(list []staking.Evidence, e staking.Evidence) int {
		n := 0
		for _, x := range list {
			if x.Type == e.Type && bytes.Equal(x.Data, e.Data) {
				n++
			}
		}
		return n
	}
	frac := new(big.Int).SetUint64(w.yp.PenaltyFractionForDoubleSign)
	usedConf, usedPend := map[string]int{}, map[string]int{}
	for _, e := range before {
		eo := EvObs{SignerID: -1}
		if e.Type == staking.EvidenceTypeDoubleSignV5 {
			eo.Type = 1
		}
		var d staking.EvidenceDoubleSignV5
		if err := rlp.DecodeBytes(e.Data, &d); err == nil {
			eo.NSigns, eo.Round = len(d.Signs), d.Round
			for _, sg := range d.Signs {
				if sg.Hash != d.Signs[0].Hash {
					eo.Differ = true
				}
			}
			// independent re-verification with the bls package (the oracle's own reading)
			if vr, err := w.A.bc.LookBackVldReaderForRound(d.Round, d.VoteType == staking.Certificate); err == nil && vr != nil {
				if sv, ok := vr.GetValidators().GetByIndex(int(d.SignerIdx)); ok {
					if pk, err := blsMgr.DecPublicKey(sv.BlsPubKey); err == nil {
						buf := make([]byte, 4)
						binary.BigEndian.PutUint32(buf, d.RoundIndex)
						roundbuf := append(new(big.Int).SetUint64(d.Round).Bytes(), buf...)
						good := true
						for _, s := range d.Signs {
							sig, err := blsMgr.DecSignature(s.Sign)
							if err != nil || pk.Verify(append(s.Hash.Bytes(), roundbuf...), sig) != nil {
								good = false
							}
						}
						if good {
							eo.Verified = true
							eo.SignerID = w.id(sv.MainAddress())
							if cur := pst.GetValidatorByMainAddr(sv.MainAddress()); cur != nil {
								eo.Exists = true
								pen := new(big.Int).Mul(cur.Token, frac)
								pen.Div(pen, big.NewInt(100))
								eo.PenaltyPos = pen.Sign() > 0
							}
						}
					}
				}
			}
		}
		// identical evidences are told apart by their position: the k-th copy is
		// confirmed (pending) if the slash data (the pool) holds at least k copies
		key := e.Type + string(e.Data)
		if usedConf[key] < count(confirmed, e) {
			usedConf[key]++
			eo.Confirmed = true
		} else if usedPend[key] < count(after, e) {
			usedPend[key]++
			eo.Pending = true
		}
		o.Evs = append(o.Evs, eo)
	}
}

// reexec runs Process + ValidateState on a fresh state object of node n and
// returns a description of every difference to the block's own commitments.
func (w *World) reexec(n *Node, blk *types.Block, warm bool, probes bool) (diff []string, recs types.Receipts) {
	defer func() {
		if r := recover(); r != nil {
			diff = append(diff, fmt.Sprint("panic: ", r))
		}
	}()
	parent := n.bc.GetBlock(blk.ParentHash(), blk.NumberU64()-1)
	if parent == nil {
		return []string{"parent unknown"}, nil
	}
	yp, err := n.bc.VersionForRound(blk.NumberU64())
	if err != nil {
		return []string{err.Error()}, nil
	}
	sroot := core.StakingRootForNewBlock(yp.StakingTrieFrequency, parent.Header())
	st, err := n.bc.StateAt(parent.Root(), parent.ValRoot(), sroot)
	if err != nil {
		return []string{err.Error()}, nil
	}
	if warm && !w.h.Plain {
		// warm every lazily filled cache of the state object before executing
		st.GetValidators()
		st.GetValidatorsForUpdate()
		st.GetValidatorsStat()
		st.GetWithdrawQueue()
		for _, a := range w.uni {
			st.GetBalance(a)
		}
	}
	w.pr.on = probes
	w.pr.before, w.pr.after = nil, nil
	res, err := n.bc.Processor().Process(yp, blk, st, vm.LocalConfig{}, local.FakeRecorder())
	w.pr.on = false
	if err != nil {
		return []string{"process: " + err.Error()}, nil
	}
	if err := n.bc.Validator().ValidateState(blk, parent, st, res.Recs, res.UsedGas); err != nil {
		diff = append(diff, "validate: "+err.Error())
	}
	return diff, res.Recs
}

func sameRecs(a, b []RecObs) bool {
	if len(a) != len(b) {
		return false
	}
	for i := range a {
		if fmt.Sprint(a[i]) != fmt.Sprint(b[i]) {
			return false
		}
	}
	return true
}

// run executes the whole history.  reps = number of in-process re-executions
// of every block on node C.
func (w *World) run(reps int) []*BlockObs {
	return w.runWith(reps, func(i int) (*types.Block, *BlockObs) { return w.buildBlock(&w.h.Blocks[i]) })
}

func (w *World) runWith(reps int, produce func(i int) (*types.Block, *BlockObs)) []*BlockObs {
	var out []*BlockObs
	h := w.h
	batchIdx, inBatch := 0, 0
	batchSize := func() int {
		if batchIdx < len(h.Batches) && h.Batches[batchIdx] > 0 {
			return h.Batches[batchIdx]
		}
		return 1
	}
	var pending types.Blocks
	var pendingObs []*BlockObs
	flush := func() {
		if len(pending) == 0 {
			return
		}
		err := w.B.bc.InsertChain(pending)
		for i, o := range pendingObs {
			o.Imported = w.B.bc.HasBlockAndState(pending[i].Hash(), pending[i].NumberU64()) &&
				w.B.bc.GetBlockByNumber(pending[i].NumberU64()) != nil && w.B.bc.GetBlockByNumber(pending[i].NumberU64()).Hash() == pending[i].Hash()
			if err != nil && !o.Imported { // the batch's error belongs to its first block that did not get in
				o.ImportErr = err.Error()
			}
			if o.Imported {
				// the importer's own receipts must carry the builder's logs
				if rb := recObs(w.B.bc.GetReceiptsByHash(pending[i].Hash())); !sameRecs(rb, o.Recs) {
					o.ReexecDiff = append(o.ReexecDiff, "importer receipts differ from builder receipts")
				}
			}
		}
		pending, pendingObs = nil, nil
		batchIdx++
		inBatch = 0
	}
	for i := range h.Blocks {
		blk, o := produce(i)
		out = append(out, o)
		if blk == nil {
			break
		}
		w.blocks = append(w.blocks, blk)
		// node C: re-execute on fresh state objects, then import
		for k := 0; k < reps; k++ {
			diff, recs := w.reexec(w.C, blk, k%2 == 1, k == 0)
			for _, d := range diff {
				o.ReexecDiff = append(o.ReexecDiff, fmt.Sprintf("rep %d: %s", k, d))
			}
			if recs != nil && !sameRecs(recObs(recs), o.Recs) {
				o.ReexecDiff = append(o.ReexecDiff, fmt.Sprintf("rep %d: receipts/logs differ from the builder's", k))
			}
			if k == 0 {
				o.Before, o.After = w.pr.before, w.pr.after
			}
		}
		if len(o.ReexecDiff) == 0 {
			w.tamper(blk, o)
		}
		if err := w.C.bc.InsertChain(types.Blocks{blk}); err != nil {
			o.ReexecDiff = append(o.ReexecDiff, "node C import: "+err.Error())
		}
		if n := len(o.Recs); n > 0 && !h.Plain {
			last := o.Recs[n-1]
			o.EndLogs = len(last.Logs)
			for _, l := range last.Logs {
				if len(l.Topics) > 0 {
					o.EndTopics = append(o.EndTopics, l.Topics[0])
				}
			}
		}
		pending = append(pending, blk)
		pendingObs = append(pendingObs, o)
		inBatch++
		if inBatch >= batchSize() {
			flush()
		}
	}
	flush()
	// let asynchronous event posts drain before the databases go away
	time.Sleep(time.Millisecond)
	return out
}

// headMoved re-executes, after the whole chain is imported, every block on
// node C whose head is now past the block's parent (side-chain verification and
// any later re-execution do exactly this; regression for fix ec9154c).
func (w *World) headMoved(obs []*BlockObs) {
	for i, blk := range w.blocks {
		if i >= len(obs) || !obs[i].Imported || len(obs[i].ReexecDiff) > 0 {
			continue
		}
		if w.C.bc.CurrentBlock().NumberU64() == blk.NumberU64()-1 {
			continue
		}
		diff, _ := w.reexec(w.C, blk, false, false)
		if len(diff) > 0 {
			obs[i].HeadMovedDiff = diff[0]
		}
	}
}

// runPlain: the core/chain_makers.go builder (GenerateChain: ApplyTransaction,
// EndBlock(isSeal=true) on a processor without modules, FinalizeAndAssemble)
// against import on nodes B and C that have no staking module either.
func runPlain(h *History, reps int) []*BlockObs {
	w := newWorld(h)
	defer w.stop()
	proc := core.NewStateProcessor(nil, w.A.eng)
	signerNonce := func(b *core.BlockGen) func(common.Address) uint64 {
		return func(a common.Address) uint64 { return b.TxNonce(a) }
	}
	blocks, receipts := core.GenerateChain(w.A.bc.Genesis(), w.A.eng, w.A.db, len(h.Blocks), proc, func(i int, b *core.BlockGen) {
		for k := range h.Blocks[i].Txs {
			b.AddTx(w.buildTx(signerNonce(b), &h.Blocks[i].Txs[k]))
		}
	})
	obs := w.runWith(reps, func(i int) (*types.Block, *BlockObs) {
		o := &BlockObs{Number: uint64(i + 1), Built: true, ProposerID: -1}
		headerObs(o, blocks[i])
		o.Recs = recObs(receipts[i])
		for _, r := range receipts[i] {
			o.TxGas = append(o.TxGas, r.GasUsed)
		}
		return blocks[i], o
	})
	w.headMoved(obs)
	w.carried(obs)
	w.sideChains(obs)
	return obs
}

// tamper: the validator side of the agreement - a block whose header
// commitment differs from what its own execution yields must be refused by
// Process + ValidateState.  One commitment per block (chosen by the block
// number) is altered; Subsidy is not covered (nothing compares it).
func (w *World) tamper(blk *types.Block, o *BlockObs) {
	fields := []string{"root", "val_root", "staking_root", "receipt_hash", "bloom", "gas_used", "gas_rewards"}
	f := fields[int(blk.NumberU64())%len(fields)]
	h := blk.Header()
	switch f {
	case "root":
		h.Root[7] ^= 1
	case "val_root":
		h.ValRoot[7] ^= 1
	case "staking_root":
		h.StakingRoot[7] ^= 1
	case "receipt_hash":
		h.ReceiptHash[7] ^= 1
	case "bloom":
		h.Bloom[3] ^= 0x10
	case "gas_used":
		h.GasUsed++
	case "gas_rewards":
		h.GasRewards = new(big.Int).Add(h.GasRewards, big.NewInt(1))
	}
	diff, _ := w.reexec(w.C, blk.WithSeal(h), false, false)
	if len(diff) == 0 {
		o.TamperAccepted = append(o.TamperAccepted, f)
	} else {
		o.TamperRejected++
	}
}

// carried re-executes the imported chain on node C the way
// BlockChain.verifyAllSideChainBlocks does: ONE StateDB is opened on the parent
// of a segment and carried across all its blocks (ResetStakingTrieOnNewPeriod,
// Process, ValidateState; no fresh state.New in between).  The verdict must be
// the one of the fresh-per-block execution, and after every block the object
// cache of the carried StateDB must agree with its own tries.
func (w *World) carried(obs []*BlockObs) {
	i := 0
	for _, size := range append(append([]int{}, w.h.Batches...), len(w.blocks)) {
		if size <= 0 {
			size = 1
		}
		if i >= len(w.blocks) || i >= len(obs) || !obs[i].Imported {
			return
		}
		end := i + size
		if end > len(w.blocks) {
			end = len(w.blocks)
		}
		w.carrySegment(obs, i, end)
		i = end
	}
}

func (w *World) carrySegment(obs []*BlockObs, from, to int) {
	first := w.blocks[from]
	n := w.C
	parent := n.bc.GetBlock(first.ParentHash(), first.NumberU64()-1)
	if parent == nil {
		return
	}
	st, err := n.bc.StateAt(parent.Root(), parent.ValRoot(), parent.StakingRoot())
	if err != nil {
		obs[from].CarriedDiff = append(obs[from].CarriedDiff, err.Error())
		return
	}
	for k := from; k < to && k < len(obs); k++ {
		blk, o := w.blocks[k], obs[k]
		if !o.Imported || len(o.ReexecDiff) > 0 {
			return
		}
		stop := false
		func() {
			defer func() {
				if r := recover(); r != nil {
					o.CarriedDiff = append(o.CarriedDiff, fmt.Sprint("panic: ", r))
					stop = true
				}
			}()
			yp, err := n.bc.VersionForRound(blk.NumberU64())
			if err != nil {
				o.CarriedDiff = append(o.CarriedDiff, err.Error())
				stop = true
				return
			}
			core.ResetStakingTrieOnNewPeriod(yp.StakingTrieFrequency, blk.NumberU64(), st)
			res, err := n.bc.Processor().Process(yp, blk, st, vm.LocalConfig{}, local.FakeRecorder())
			if err != nil {
				o.CarriedDiff = append(o.CarriedDiff, "process: "+err.Error())
				stop = true
				return
			}
			if err := n.bc.Validator().ValidateState(blk, parent, st, res.Recs, res.UsedGas); err != nil {
				o.CarriedDiff = append(o.CarriedDiff, "validate: "+err.Error())
				stop = true
				return
			}
			if !sameRecs(recObs(res.Recs), o.Recs) {
				o.CarriedDiff = append(o.CarriedDiff, "receipts/logs differ from the builder's")
			}
			if !w.h.Plain {
				o.Incoherent = state.VerifStakingCacheIncoherentC06(st)
			}
		}()
		if stop {
			return
		}
		parent = blk
	}
}

// sideChain: a node still at genesis imports a prefix of the built chain the
// ordinary way and receives the rest through BlockChain.InsertChain with the
// first header answered ErrExistCanonical: the real insertSidechain /
// verifyAllSideChainBlocks path (ONE StateDB carried across the fork), then the
// re-import.  The split is moved forward until the look-back block of every
// evidence confirmed inside the fork lies on the canonical prefix (signer
// resolution reads the local canonical chain by number; with the shipped
// StakeLookBack of 128 a fork would have to be deeper than that to matter).
//
// mode "indexed": the fork's blocks are stored (without state) and indexed in
//                 the transaction lookup beforehand - node D, must succeed;
// mode "stored":  stored without state only (what a node really has after it
//                 saw the blocks once) - node E;
// mode "raw":     nothing stored - node E.
func (w *World) sideChain(obs []*BlockObs, node *Node, mode string) (res string, skipped bool, length int) {
	n := 0
	for n < len(w.blocks) && n < len(obs) && obs[n].Imported && len(obs[n].ReexecDiff) == 0 {
		n++
	}
	if n == 0 {
		return "", true, 0
	}
	k := w.h.SideFrom
	if k < 0 || k >= n {
		k = 0
	}
	// staking.EndBlock asks chain.VersionForRound(number), which reads the
	// canonical header 8 rounds back (protocolRoundBack): a fork deeper than that
	// cannot be verified by this path at all - keep the fork at 8 blocks or less
	if n-k > 8 {
		k = n - 8
	}
	lb := w.yp.StakeLookBack
	for moved := true; moved; {
		moved = false
		for i := k; i < n; i++ {
			if len(w.blocks[i].Header().SlashData) == 0 {
				continue
			}
			num := w.blocks[i].NumberU64()
			if num-1 > lb && num-1-lb > uint64(k) {
				k = int(num - 1 - lb)
				moved = true
			}
		}
	}
	if k >= n {
		return "", true, 0
	}
	defer func() {
		if r := recover(); r != nil {
			res = fmt.Sprint("panic: ", r)
			for _, ln := range strings.Split(string(debug.Stack()), "\n") {
				if i := strings.Index(ln, "go-youchain/staking."); i >= 0 && !strings.Contains(ln, "EndBlock") {
					f := ln[i+len("go-youchain/staking."):]
					if j := strings.Index(f, "("); j > 0 {
						f = f[:j]
					}
					res += " @" + f
					break
				}
			}
			if os.Getenv("C06_DEBUG") != "" {
				fmt.Fprintln(os.Stderr, string(debug.Stack()))
			}
			node.bc = nil // its wait group and chain mutex are stuck now: never Stop() it
		}
	}()
	if k > 0 {
		if err := node.bc.InsertChain(types.Blocks(w.blocks[:k])); err != nil {
			return "prefix: " + err.Error(), false, 0
		}
	}
	if mode != "raw" {
		for _, b := range w.blocks[k:n] {
			if err := node.bc.WriteBlockWithoutState(b); err != nil {
				return err.Error(), false, 0
			}
			if mode == "indexed" {
				rawdb.WriteTxLookupEntries(node.db, b)
			}
		}
	}
	node.ucon.sideOnce = true
	err := node.bc.InsertChain(types.Blocks(w.blocks[k:n]))
	if err != nil {
		return err.Error(), false, n - k
	}
	if node.bc.CurrentBlock().Hash() != w.blocks[n-1].Hash() {
		return fmt.Sprintf("side-chain import ended at block %d instead of %d", node.bc.CurrentBlock().NumberU64(), w.blocks[n-1].NumberU64()), false, n - k
	}
	return "", false, n - k
}

// sideChains runs the side-chain import on node D (indexed) and, when the
// history asks for it, on node E (stored or raw).
func (w *World) sideChains(obs []*BlockObs) {
	if len(obs) == 0 {
		return
	}
	obs[0].SideErr, obs[0].SideSkipped, obs[0].SideLen = w.sideChain(obs, w.D, "indexed")
	if obs[0].SideSkipped || obs[0].SideErr != "" || w.h.SideE == "" {
		return
	}
	w.E = w.newNode("E", false)
	obs[0].SideEErr, _, _ = w.sideChain(obs, w.E, w.h.SideE)
	obs[0].SideEMode = w.h.SideE
}

// ---- forks --------------------------------------------------------------------------

// ForkObs: what happened when two branches from a common ancestor were handed
// to other nodes in both orders.
type ForkObs struct {
	At, MainLen, AltLen int
	Skipped             string
	AltCrash            string
	Problems            []string // violations
	Unprepared          string   // error of the unprepared node ("" = accepted or not run)
	UnpreparedMode      string
	SideBlocks          int
	SiblingRuns         int
	Confirmed           int // evidences confirmed in the two branches
	StakingTxs          int
}

func stackFn(prefix string) string {
	for _, ln := range strings.Split(string(debug.Stack()), "\n") {
		if i := strings.Index(ln, "go-youchain/staking."); i >= 0 && !strings.Contains(ln, "EndBlock") {
			f := ln[i+len("go-youchain/staking."):]
			if j := strings.Index(f, "("); j > 0 {
				f = f[:j]
			}
			return prefix + " @" + f
		}
	}
	return prefix
}

// lookbackOK: the look-back block of every evidence confirmed in the branch
// lies at or below the fork point (signer resolution reads the canonical chain
// by number)
func (w *World) lookbackOK(branch []*types.Block, k int) bool {
	lb := w.yp.StakeLookBack
	for _, b := range branch {
		if len(b.Header().SlashData) == 0 {
			continue
		}
		if num := b.NumberU64(); num-1 > lb && num-1-lb > uint64(k) {
			return false
		}
	}
	return true
}

// sideImport hands a branch to a node through the side-chain path.
func (w *World) sideImport(node *Node, branch []*types.Block, mode string) (res string) {
	defer func() {
		if r := recover(); r != nil {
			res = stackFn(fmt.Sprint("panic: ", r))
			node.bc = nil
		}
	}()
	if mode != "raw" {
		for _, b := range branch {
			if err := node.bc.WriteBlockWithoutState(b); err != nil {
				return err.Error()
			}
			if mode == "indexed" {
				rawdb.WriteTxLookupEntries(node.db, b)
			}
		}
	}
	node.ucon.sideOnce = true
	if err := node.bc.InsertChain(types.Blocks(branch)); err != nil {
		return err.Error()
	}
	return ""
}

// onCanonical checks that the node's canonical chain ends with the branch, with
// state, and that its receipts carry the builder's statuses, gas and logs.
func (w *World) onCanonical(node *Node, branch []*types.Block, recs [][]RecObs, what string, fo *ForkObs) {
	if node.bc == nil {
		return
	}
	tip := branch[len(branch)-1]
	if node.bc.CurrentBlock().Hash() != tip.Hash() {
		fo.Problems = append(fo.Problems, fmt.Sprintf("%s: head is block %d, not the tip %d of the branch", what, node.bc.CurrentBlock().NumberU64(), tip.NumberU64()))
		return
	}
	for i, b := range branch {
		c := node.bc.GetBlockByNumber(b.NumberU64())
		if c == nil || c.Hash() != b.Hash() || !node.bc.HasBlockAndState(b.Hash(), b.NumberU64()) {
			fo.Problems = append(fo.Problems, fmt.Sprintf("%s: block %d of the branch is not canonical with state", what, b.NumberU64()))
			return
		}
		if !sameRecs(recObs(node.bc.GetReceiptsByHash(b.Hash())), recs[i]) {
			fo.Problems = append(fo.Problems, fmt.Sprintf("%s: receipts of block %d differ from the builder's", what, b.NumberU64()))
			return
		}
	}
}

func (w *World) forks(obs []*BlockObs) {
	f := w.h.Fork
	if f == nil || w.h.Plain || len(obs) == 0 {
		return
	}
	n := 0
	for n < len(w.blocks) && n < len(obs) && obs[n].Imported && len(obs[n].ReexecDiff) == 0 {
		n++
	}
	fo := &ForkObs{At: f.At}
	obs[0].Fork = fo
	k := f.At
	if k < 0 || k >= n || len(f.Blocks) == 0 {
		fo.Skipped = "fork point outside the built chain"
		return
	}
	// the second builder
	a2 := w.newNode("A2", false)
	w.extra = append(w.extra, a2)
	if k > 0 {
		if err := a2.bc.InsertChain(types.Blocks(w.blocks[:k])); err != nil {
			fo.Problems = append(fo.Problems, "second builder could not import the prefix: "+err.Error())
			return
		}
	}
	savedA, savedBe, savedWorker := w.A, w.be, w.worker
	w.A, w.be, w.forking = a2, &backend{bc: a2.bc}, true
	w.worker = miner.VerifNewWorkerC06(a2.eng, w.be, a2.mux)
	var alt []*types.Block
	var altRecs [][]RecObs
	for i := range f.Blocks {
		// the process executes the main-chain block with the number of the block the
		// second builder is about to assemble (a sibling with another ancestry)
		if k+i < n {
			if diff, _ := w.reexec(w.C, w.blocks[k+i], false, false); len(diff) > 0 {
				fo.Problems = append(fo.Problems, fmt.Sprintf("re-executing main-chain block %d before its sibling is built: %s", w.blocks[k+i].NumberU64(), diff[0]))
			}
		}
		blk, o := w.buildBlock(&f.Blocks[i])
		if blk == nil {
			fo.AltCrash = o.Crash
			break
		}
		alt = append(alt, blk)
		altRecs = append(altRecs, o.Recs)
		if o.SlashData != "" {
			fo.Confirmed++
		}
		fo.StakingTxs += o.NTx
	}
	w.A, w.be, w.worker, w.forking = savedA, savedBe, savedWorker, false
	// siblings executed alternately by one process: the same block on the same parent
	// state must give the same result whatever the process executed just before
	for i := 0; i < len(alt) && k+i < n; i++ {
		for _, st := range []struct {
			node *Node
			blk  *types.Block
			what string
		}{{w.C, w.blocks[k+i], "main-chain"}, {a2, alt[i], "second-branch"}, {w.C, w.blocks[k+i], "main-chain"}} {
			if diff, _ := w.reexec(st.node, st.blk, false, false); len(diff) > 0 {
				fo.Problems = append(fo.Problems, fmt.Sprintf("executing %s block %d right after its sibling: %s", st.what, st.blk.NumberU64(), diff[0]))
			}
			fo.SiblingRuns++
		}
	}
	mainB := w.blocks[k:n]
	var mainRecs [][]RecObs
	for i := k; i < n; i++ {
		mainRecs = append(mainRecs, obs[i].Recs)
		if obs[i].SlashData != "" {
			fo.Confirmed++
		}
	}
	if len(alt) == len(mainB) && len(mainB) >= 2 {
		mainB, mainRecs = mainB[:len(mainB)-1], mainRecs[:len(mainRecs)-1]
	}
	fo.MainLen, fo.AltLen = len(mainB), len(alt)
	if len(alt) == 0 || len(alt) == len(mainB) {
		fo.Skipped = "no two branches of different length"
		return
	}
	long, longRecs, short, shortRecs := mainB, mainRecs, alt, altRecs
	if len(alt) > len(mainB) {
		long, longRecs, short, shortRecs = alt, altRecs, mainB, mainRecs
	}
	if len(long) < 2 {
		fo.Skipped = "fork shallower than two blocks"
		return
	}
	if len(long) > 8 || !w.lookbackOK(long, k) || !w.lookbackOK(short, k) {
		fo.Skipped = "fork deeper than 8 blocks or an evidence look-back block inside the fork"
		return
	}
	prefix := types.Blocks(w.blocks[:k])
	imp := func(node *Node, bs []*types.Block, what string) bool {
		if len(bs) == 0 {
			return true
		}
		if err := node.bc.InsertChain(types.Blocks(bs)); err != nil {
			fo.Problems = append(fo.Problems, what+": "+err.Error())
			return false
		}
		return true
	}
	// F1: the shorter branch is canonical, the longer arrives as a side chain: verification, re-import, reorg
	f1 := w.newNode("F1", false)
	w.extra = append(w.extra, f1)
	if imp(f1, prefix, "F1 prefix") && imp(f1, short, "F1 ordinary import of the shorter branch") {
		w.onCanonical(f1, short, shortRecs, "F1 shorter branch", fo)
		if res := w.sideImport(f1, long, "indexed"); res != "" {
			fo.Problems = append(fo.Problems, "side first then reorg: the longer branch is refused by the side-chain path: "+res)
		} else {
			fo.SideBlocks += len(long)
			w.onCanonical(f1, long, longRecs, "side first then reorg", fo)
		}
	}
	// F2: the longer branch is imported directly, the shorter arrives as a side chain and stays one
	f2 := w.newNode("F2", false)
	w.extra = append(w.extra, f2)
	if imp(f2, prefix, "F2 prefix") && imp(f2, long, "canonical directly: ordinary import of the longer branch") {
		w.onCanonical(f2, long, longRecs, "canonical directly", fo)
		if res := w.sideImport(f2, short, "indexed"); res != "" {
			fo.Problems = append(fo.Problems, "canonical first: the shorter branch is refused by the side-chain verification: "+res)
		} else {
			fo.SideBlocks += len(short)
			w.onCanonical(f2, long, longRecs, "canonical first, after the side chain", fo)
		}
	}
	// F3: like F1 on a node whose database was not prepared
	if f.Unprepared != "" && len(fo.Problems) == 0 {
		f3 := w.newNode("F3", false)
		w.extra = append(w.extra, f3)
		fo.UnpreparedMode = f.Unprepared
		if imp(f3, prefix, "F3 prefix") && imp(f3, short, "F3 shorter branch") {
			fo.Unprepared = w.sideImport(f3, long, f.Unprepared)
			if fo.Unprepared == "" {
				w.onCanonical(f3, long, longRecs, "side first then reorg ("+f.Unprepared+")", fo)
			}
		}
	}
}

// restarted: an importer that is stopped and reopened from its database (new
// BlockChain, new state database and trie-node cache, new staking module: nothing
// in memory survives) at the block boundaries of h.Restarts must import what the
// never-restarted builder built.
func (w *World) restarted(obs []*BlockObs) {
	if w.h.Plain || len(w.h.Restarts) == 0 || len(obs) == 0 {
		return
	}
	at := map[int]bool{}
	for _, r := range w.h.Restarts {
		at[r] = true
	}
	node := w.newNode("R", false)
	defer func() {
		if node != nil && node.bc != nil {
			node.bc.Stop()
		}
	}()
	for i, blk := range w.blocks {
		if i >= len(obs) || !obs[i].Imported || len(obs[i].ReexecDiff) > 0 {
			return
		}
		if at[i] && i > 0 {
			node.bc.Stop()
			time.Sleep(time.Millisecond)
			node = w.openNode("R", false, node.db, false)
			obs[0].Restarted++
		}
		o := obs[i]
		func() {
			defer func() {
				if r := recover(); r != nil {
					o.RestartErr = stackFn(fmt.Sprint("panic: ", r))
					node.bc = nil
				}
			}()
			if err := node.bc.InsertChain(types.Blocks{blk}); err != nil {
				o.RestartErr = err.Error()
			} else if node.bc.CurrentBlock().Hash() != blk.Hash() || !sameRecs(recObs(node.bc.GetReceiptsByHash(blk.Hash())), o.Recs) {
				o.RestartErr = "head or receipts differ from the builder's"
			}
		}()
		if o.RestartErr != "" {
			return
		}
	}
}
