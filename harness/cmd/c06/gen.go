// C06 harness, part 2: history generator, property oracle, Coq case writer,
// fresh-process re-runs, replay.
package main

import (
	"crypto/sha256"
	"encoding/hex"
	"encoding/json"
	"fmt"
	"io/ioutil"
	"math/big"
	"os"
	"os/exec"
	"path/filepath"
	"sort"
	"strings"

	"github.com/youchainhq/go-youchain/common"
	"github.com/youchainhq/go-youchain/staking"
	"verif/harness/vf"
)

// Two classes were open findings of the original tree and are repaired in /repo
// (e1d256e: a zero-amount penalty did not reach the slash data; ec9154c:
// replaySlashing read the chain head).  Their witnesses stay in the corpus;
// a reappearance is an ordinary (unlisted) violation.  The same holds for the
// side-chain crash repaired by 599b875 (a fork of two or more blocks that were
// not stored yet panicked in checkAndUpgradeValidatorsToYouV5; corpus w3).

// open finding: see /verif/fixes/C06_side_chain_pending_txs_need_canonical_index.md
const findSidePendingTxs = "side-chain verification cannot resolve the pending staking transactions of earlier fork blocks (processPendingTxs reads the canonical transaction lookup): a fork containing a staking transaction and the period end is refused"

type Hit struct {
	What    string   `json:"what"`
	Block   uint64   `json:"block"`
	Detail  string   `json:"detail"`
	History *History `json:"history"`
}

// ---- generator ------------------------------------------------------------------

func randParams(r *vf.Rng) Params {
	p := Params{
		Freq:             []uint64{3, 4, 4, 5, 8}[r.Intn(5)],
		WithdrawDelay:    uint64(2 + r.Intn(5)),
		Retention:        uint64(2 + r.Intn(7)),
		MaxRewardsPeriod: uint64(1 + r.Intn(3)),
		ExpelDS:          uint64(3 + r.Intn(10)),
		ExpelInactive:    uint64(2 + r.Intn(5)),
		FracDS:           []uint64{1, 2, 2, 2, 2, 5, 50, 2, 2, 2, 2, 2, 5, 50, 2, 2, 2, 2, 2, 5, 50, 2, 2, 2, 0}[r.Intn(25)],
		FracInactive:     uint64(r.Intn(2)),
		InactWait:        uint64(2 + r.Intn(11)),
		StakeLookBack:    uint64(2 + r.Intn(3)),
		MaxExpired:       []uint64{1, 2, 5}[r.Intn(3)],
		MinStakes:        [3]uint64{10, 5, 2}, MaxStakes: [3]uint64{100, 60, 30}, MinSelf: [3]uint64{5, 5, 0},
		Ratio:            [3]uint64{uint64(1 + r.Intn(5)), uint64(1 + r.Intn(5)), uint64(1 + r.Intn(5))},
		MaxDlgVal:        3, MaxDlgDlg: 2, MinDlgTokens: "2" + YOU,
		SubsidyThreshold: []uint64{9000000000000000000, 15000000000000000000, 9000000000000000000, 1000, 0}[r.Intn(5)],
		SubsidyCoeff:     []uint8{1, 5, 5, 9}[r.Intn(4)],
	}
	if r.Chance(30) {
		p.InactWait = 1000 // no inactivity slashing in this history
	}
	return p
}

const nAcct = 6

// ctxTx: a call of the block-context reader (BLOCKHASH at a chosen depth, NUMBER,
// COINBASE, TIMESTAMP, GASLIMIT, DIFFICULTY stored and logged)
func ctxTx(r *vf.Rng, from int) TxIn {
	d := []uint64{1, 1, 1, 2, 2, 3, 4, 0, 255, 256, 257, uint64(1 + r.Intn(40))}[r.Intn(12)]
	return TxIn{Kind: "ctx", From: from, Depth: d, Gas: 400000, Price: uint64(16*(1+r.Intn(4)) + from)}
}

func randTx(r *vf.Rng, nv int) TxIn {
	from := r.Intn(nAcct)
	t := TxIn{From: from, Price: uint64(16*(1+r.Intn(4)) + from), Gas: 300000}
	val := r.Intn(nv)
	amt := func() string { return fmt.Sprintf("%d", 1+r.Intn(9)) + YOU }
	switch k := r.Intn(100); {
	case k < 18:
		t.Kind, t.To, t.Value, t.Gas = "transfer", r.Intn(nAcct), fmt.Sprintf("%d", r.Intn(1000)), 21000
		if r.Chance(10) {
			t.Value = "5000" + YOU // more than the balance: rejected by the pool
		}
	case k < 34:
		t.Kind, t.To, t.Value, t.Gas = "call", r.Intn(4), fmt.Sprintf("%d", r.Intn(500)), uint64(60000+r.Intn(60000))
		if r.Chance(10) {
			t.Gas = 21500 // runs out of gas inside the contract
		}
	case k < 38:
		t.Kind, t.Gas = "deploy", 200000
	case k < 48:
		t.Kind, t.Val, t.Operator, t.Coinbase, t.Gas = "create", val, from, r.Intn(nAcct), 2000000
		t.Role = uint8(1 + r.Intn(3))
		t.Value = fmt.Sprintf("%d", []int{2, 5, 6, 10, 12, 20}[r.Intn(6)]) + YOU
		t.Accept, t.Commission, t.Risk, t.Name = uint16(r.Intn(2)), uint16(r.Intn(3000)), uint16(r.Intn(10001)), 1+r.Intn(5)
	case k < 53:
		t.Kind, t.Val, t.Operator, t.Coinbase = "update", val, from, r.Intn(nAcct)
		t.Accept, t.Commission, t.Risk, t.Name = uint16(r.Intn(2)), uint16(r.Intn(3000)), uint16(r.Intn(10001)), r.Intn(5)
	case k < 61:
		t.Kind, t.Val, t.Value = "deposit", val, amt()
	case k < 70:
		t.Kind, t.Val, t.Recipient, t.Value = "withdraw", val, r.Intn(nAcct), amt()
		if r.Chance(25) {
			t.Value = "1000" + YOU // everything
		}
		if r.Chance(15) {
			t.Value = "4999999999999999990" // leaves dust behind
		}
	case k < 76:
		t.Kind, t.Val, t.Status = "status", val, uint8(r.Intn(2))
	case k < 80:
		t.Kind, t.Val = "settle", val
	case k < 90:
		t.Kind, t.Val, t.Value = "dadd", val, amt()
		if r.Chance(20) {
			t.Value = "200" + YOU // above every MaxStakes: fails with errStakesOverflow but is included
		}
	case k < 95:
		t.Kind, t.Val, t.Value = "dsub", val, amt()
	case k < 97:
		t.Kind, t.Val = "dsettle", val
	case k < 99:
		t.Kind, t.Name = "bad", r.Intn(200)
	default:
		t.Kind, t.Val = "badaction", val
	}
	if r.Chance(6) {
		t = ctxTx(r, from)
	}
	if r.Chance(3) {
		t.NonceDelta = 1 + r.Intn(2) // a gap: stays queued in the pool
	}
	if r.Chance(4) {
		// most of the balance: a second one in the same block passes the pool (which
		// checks every transaction against the head state) and fails in the worker
		t = TxIn{Kind: "transfer", From: from, To: (from + 1) % nAcct, Value: "600" + YOU, Gas: 21000, Price: uint64(16*(1+r.Intn(4)) + from)}
	}
	return t
}

func randHistory(r *vf.Rng, maxBlocks int) *History {
	h := &History{Params: randParams(r), NVKeys: 6}
	for i := 0; i < nAcct; i++ {
		h.Balances = append(h.Balances, "1000"+YOU)
	}
	if r.Chance(30) {
		h.Balances[nAcct-1] = "3" + YOU
	}
	h.Pool = []string{"100000" + YOU, "100000" + YOU, "7" + YOU, "0"}[r.Intn(4)]
	if r.Chance(12) {
		// the plain chain_makers path: no staking module
		h.Plain = true
		n := 2 + r.Intn(6)
		for i := 0; i < n; i++ {
			b := BlockIn{Proposer: -1}
			for k := r.Intn(4); k > 0; k-- {
				from := r.Intn(nAcct - 1)
				switch r.Intn(3) {
				case 0:
					b.Txs = append(b.Txs, TxIn{Kind: "transfer", From: from, To: r.Intn(nAcct), Value: fmt.Sprintf("%d", r.Intn(1000)), Gas: 21000, Price: uint64(16 + from)})
				case 1:
					b.Txs = append(b.Txs, TxIn{Kind: "call", From: from, To: r.Intn(4), Value: fmt.Sprintf("%d", r.Intn(500)), Gas: 120000, Price: uint64(16 + from)})
				default:
					b.Txs = append(b.Txs, TxIn{Kind: "deploy", From: from, Gas: 200000, Price: uint64(16 + from)})
				}
			}
			h.Blocks = append(h.Blocks, b)
		}
		h.Batches = []int{1 + r.Intn(3), 1 + r.Intn(3)}
		return h
	}
	ng := 2 + r.Intn(3)
	var present []int
	for i := 0; i < ng; i++ {
		role := uint8(1 + (i+r.Intn(2))%3)
		tok := map[uint8]int{1: 20, 2: 12, 3: 5}[role] + r.Intn(6)
		h.Vals = append(h.Vals, GenesisVal{Key: i, Operator: i % nAcct, Coinbase: (i + 1) % nAcct, Role: role, Token: fmt.Sprintf("%d", tok) + YOU,
			Online: !r.Chance(12), Accept: uint16(1 - r.Intn(4)/3), Commission: uint16(r.Intn(3000)), Risk: uint16(r.Intn(10001))})
		present = append(present, i)
	}
	h.Vals[0].Online = true
	h.Vals[1].Online = true
	nb := 3 + r.Heavy(maxBlocks)
	for i := 0; i < nb; i++ {
		b := BlockIn{Proposer: present[r.Intn(len(present))]}
		if r.Chance(70) {
			b.Proposer = 0
		}
		nt := r.Heavy(8)
		for k := 0; k < nt; k++ {
			t := randTx(r, h.NVKeys)
			// operators act on their own validators most of the time
			if r.Chance(75) {
				switch t.Kind {
				case "update", "deposit", "withdraw", "status", "settle":
					g := h.Vals[r.Intn(len(h.Vals))]
					t.Val, t.From = g.Key, g.Operator
					t.Price = uint64(16*(1+r.Intn(4)) + t.From)
					if t.Kind == "update" {
						t.Operator = g.Operator
					}
				case "dadd", "dsub", "dsettle":
					t.Val = h.Vals[r.Intn(len(h.Vals))].Key
				}
			}
			b.Txs = append(b.Txs, t)
			if t.Kind == "transfer" && t.Value == "600"+YOU {
				b.Txs = append(b.Txs, t)
			}
		}
		num := uint64(i + 1)
		if r.Chance(22) {
			ne := 1 + r.Intn(2)
			for k := 0; k < ne; k++ {
				e := EvIn{Kind: "valid", Signer: present[r.Intn(len(present))], Round: num - 1}
				switch x := r.Intn(100); {
				case x < 8:
					e.Kind = "badsig"
				case x < 13:
					e.Kind = "badidx"
				case x < 16:
					e.Kind = "onesign"
				case x < 19:
					e.Kind = "samehash"
				case x < 22:
					e.Kind = "unknown"
				case x < 25:
					e.Kind = "cert"
				}
				switch x := r.Intn(100); {
				case x < 10:
					e.Round = num // future
				case x < 15:
					e.Round = num + 1
				case x < 25 && num >= 2:
					e.Round = num - 2 // past, maybe still inside the expiry window
				case x < 30 && num > h.Params.MaxExpired+2:
					e.Round = num - h.Params.MaxExpired - 2 // expired
				}
				if r.Chance(10) {
					e.Signer = r.Intn(h.NVKeys) // maybe not a validator at all
				}
				b.Evs = append(b.Evs, e)
				if r.Chance(25) { // the same signer twice in one block
					b.Evs = append(b.Evs, e)
				}
			}
		}
		h.Blocks = append(h.Blocks, b)
	}
	// nearly full blocks: a small block gas limit; in some blocks a sender whose first
	// transaction spends most of its money and whose second one therefore fails in
	// the worker (no money for the gas it asks for, or for the value), followed by
	// cheaper transactions of other senders whose gas LIMITS are steered around what
	// is really left in the block (from "exactly the block limit" down to "fits")
	if r.Chance(40) {
		h.GasLimit = []uint64{1200000, 1500000, 2500000}[r.Intn(3)]
		drained := map[int]bool{}
		for i := 0; i < nb; i++ {
			if !r.Chance(45) {
				continue
			}
			a := r.Intn(nAcct - 1)
			if drained[a] {
				continue
			}
			drained[a] = true
			b := &h.Blocks[i]
			hi := uint64(16*6 + a)
			b.Txs = append(b.Txs, TxIn{Kind: "transfer", From: a, To: (a + 1) % nAcct, Value: "600" + YOU, Gas: 21000, Price: hi})
			switch r.Intn(3) {
			case 0: // cannot pay for its gas any more: 1 000 000 gas at 4.5e14
				b.Txs = append(b.Txs, TxIn{Kind: "call", From: a, To: 3, Gas: 1000000, Price: 450000000000000 + uint64(a)})
			case 1: // cannot pay the value any more
				b.Txs = append(b.Txs, TxIn{Kind: "transfer", From: a, To: (a + 2) % nAcct, Value: "600" + YOU, Gas: uint64(21000 + r.Intn(400000)), Price: hi})
			default: // both kinds
				b.Txs = append(b.Txs, TxIn{Kind: "transfer", From: a, To: (a + 2) % nAcct, Value: "600" + YOU, Gas: 300000, Price: hi})
				b.Txs = append(b.Txs, TxIn{Kind: "call", From: a, To: 3, Gas: 900000, Price: 450000000000000 + uint64(a), NonceDelta: 0})
			}
			for k := 1 + r.Intn(3); k > 0; k-- {
				c := (a + 1 + r.Intn(nAcct-2)) % (nAcct - 1)
				if c == a {
					continue
				}
				below := []uint64{1, 1, 1 + uint64(r.Intn(20999)), 21000, 21001, 21002, 1 + uint64(r.Intn(90000)), 1 + uint64(r.Intn(400000))}[r.Intn(8)]
				b.Txs = append(b.Txs, TxIn{Kind: "call", From: c, To: r.Intn(4), Value: fmt.Sprintf("%d", r.Intn(50)), Gas: 100000, GasBelow: below, Price: uint64(16*(1+r.Intn(3)) + c)})
			}
		}
	}
	// the pending-total scenario: inside one staking period a validator gets a
	// pending (0x0,V) record, then a delegation above MaxStakes (included as a
	// failed transaction), then, in a later block of the same period, further
	// staking transactions that read V's pending total
	if fq := int(h.Params.Freq); r.Chance(45) && fq >= 3 && nb >= 3 {
		var starts []int
		for s0 := 1; s0+2 <= nb; s0++ {
			if s0/fq == (s0+2)/fq {
				starts = append(starts, s0)
			}
		}
		if len(starts) > 0 {
			s0 := starts[r.Intn(len(starts))]
			g := &h.Vals[r.Intn(len(h.Vals))]
			g.Accept = 1
			mk := func(kind string, from int, value string) TxIn {
				return TxIn{Kind: kind, From: from, Val: g.Key, Value: value, Recipient: from, Gas: 300000, Price: uint64(16*(1+r.Intn(4)) + from)}
			}
			others := []int{}
			for a := 0; a < nAcct-1; a++ {
				others = append(others, a)
			}
			a1, a2, a3 := others[r.Intn(len(others))], others[r.Intn(len(others))], others[r.Intn(len(others))]
			first := mk("dadd", a1, "3"+YOU)
			if r.Chance(40) {
				first = mk("deposit", g.Operator, "2"+YOU)
			}
			h.Blocks[s0-1].Txs = append(h.Blocks[s0-1].Txs, first)
			over := mk("dadd", a2, "200"+YOU)
			if r.Chance(50) {
				h.Blocks[s0-1].Txs = append(h.Blocks[s0-1].Txs, over)
			} else {
				h.Blocks[s0].Txs = append(h.Blocks[s0].Txs, over)
			}
			later := []TxIn{mk("dadd", a3, "4"+YOU), mk("dsub", a1, "1"+YOU), mk("deposit", g.Operator, "3"+YOU), mk("withdraw", g.Operator, "1"+YOU)}
			h.Blocks[s0+1].Txs = append(h.Blocks[s0+1].Txs, later[r.Intn(len(later))])
			if r.Chance(50) {
				h.Blocks[s0+1].Txs = append(h.Blocks[s0+1].Txs, later[r.Intn(len(later))])
			}
		}
	}
	h.SideFrom = r.Intn(nb)
	if r.Chance(60) {
		h.SideFrom = 0
	}
	switch x := r.Intn(100); {
	case x < 20:
		h.SideE = "stored"
	case x < 26:
		h.SideE = "raw"
	}
	// a plain key account delegates; after the period end at which that took effect it
	// delegates to ANOTHER validator and reduces the first delegation; the restarted
	// importer is reopened from disk right after period ends and at random boundaries
	if fq := int(h.Params.Freq); nb > fq+1 && len(h.Vals) >= 2 {
		g1, g2 := &h.Vals[0], &h.Vals[1]
		g1.Accept, g2.Accept = 1, 1
		d := r.Intn(nAcct - 1)
		mk := func(kind string, g *GenesisVal, value string) TxIn {
			return TxIn{Kind: kind, From: d, Val: g.Key, Value: value, Gas: 300000, Price: uint64(16*(1+r.Intn(4)) + d)}
		}
		s1 := r.Intn(fq - 1)            // block index in the first period (numbers 1..fq-1)
		pe := (s1/fq+1)*fq - 2           // index of the period-end block (number+1 divisible by fq)
		if pe < s1 {
			pe = s1
		}
		if pe+1 < nb {
			h.Blocks[s1].Txs = append(h.Blocks[s1].Txs, mk("dadd", g1, "3"+YOU))
			s2 := pe + 1 + r.Intn(nb-pe-1)
			h.Blocks[s2].Txs = append(h.Blocks[s2].Txs, mk("dadd", g2, "2"+YOU))
			if s3 := s2 + r.Intn(nb-s2); r.Chance(60) {
				h.Blocks[s3].Txs = append(h.Blocks[s3].Txs, mk("dsub", g1, "1"+YOU))
			}
			h.Restarts = append(h.Restarts, pe+1)
		}
	}
	for i := 1; i < nb; i++ {
		if (uint64(i+1))%h.Params.Freq == 0 && r.Chance(50) { // block i (number i) ... reopen after a period end
			h.Restarts = append(h.Restarts, i)
		} else if r.Chance(8) {
			h.Restarts = append(h.Restarts, i)
		}
	}
	// two branches from a common ancestor: a second builder forks off a few blocks
	// before the end and builds 2-5 blocks of its own with staking transactions
	// and evidences
	if r.Chance(38) && nb >= 2 {
		f := &ForkIn{At: nb - 1 - r.Intn(min(5, nb))}
		if f.At < 0 {
			f.At = 0
		}
		na := 2 + r.Intn(4)
		for j := 0; j < na; j++ {
			b := BlockIn{Proposer: present[r.Intn(len(present))]}
			for k := 1 + r.Intn(3); k > 0; k-- {
				t := randTx(r, h.NVKeys)
				if r.Chance(70) {
					g := h.Vals[r.Intn(len(h.Vals))]
					switch r.Intn(4) {
					case 0:
						t = TxIn{Kind: "dadd", From: r.Intn(nAcct - 1), Val: g.Key, Value: fmt.Sprintf("%d", 2+r.Intn(5)) + YOU, Gas: 300000}
					case 1:
						t = TxIn{Kind: "deposit", From: g.Operator, Val: g.Key, Value: fmt.Sprintf("%d", 1+r.Intn(4)) + YOU, Gas: 300000}
					case 2:
						t = TxIn{Kind: "withdraw", From: g.Operator, Val: g.Key, Recipient: r.Intn(nAcct), Value: "1" + YOU, Gas: 300000}
					default:
						t = TxIn{Kind: "settle", From: g.Operator, Val: g.Key, Gas: 300000}
					}
					t.Price = uint64(16*(1+r.Intn(4)) + t.From)
				}
				b.Txs = append(b.Txs, t)
			}
			if uint64(j) <= h.Params.StakeLookBack && r.Chance(55) {
				e := EvIn{Kind: "valid", Signer: present[r.Intn(len(present))], Rel: true}
				if r.Chance(15) {
					e.Kind = []string{"badsig", "samehash", "onesign"}[r.Intn(3)]
				}
				b.Evs = append(b.Evs, e)
			}
			f.Blocks = append(f.Blocks, b)
		}
		switch x := r.Intn(100); {
		case x < 35:
			f.Unprepared = "stored"
		case x < 45:
			f.Unprepared = "raw"
		}
		// block-context readers in both branches at the same heights
		for j := 0; j < na || f.At+j < nb; j++ {
			if !r.Chance(75) {
				continue
			}
			t := ctxTx(r, r.Intn(nAcct-1))
			if r.Chance(60) {
				t.Depth = uint64(1 + r.Intn(j+1)) // reaches into the fork
			}
			if j < na {
				f.Blocks[j].Txs = append(f.Blocks[j].Txs, t)
			}
			if f.At+j < nb {
				h.Blocks[f.At+j].Txs = append(h.Blocks[f.At+j].Txs, t)
			}
		}
		h.Fork = f
		h.SideE = ""
	}
	for left := nb; left > 0; {
		k := 1 + r.Heavy(6)
		if k > left {
			k = left
		}
		h.Batches = append(h.Batches, k)
		left -= k
	}
	return h
}

// ---- running one history (staking path or plain chain_makers path) ----------------

func runHistory(h *History, reps int) (obs []*BlockObs, crashed string) {
	defer func() {
		if r := recover(); r != nil {
			crashed = fmt.Sprint(r)
		}
	}()
	if h.Plain {
		return runPlain(h, reps), ""
	}
	w := newWorld(h)
	defer w.stop()
	obs = w.run(reps)
	w.headMoved(obs)
	w.carried(obs)
	w.restarted(obs)
	if h.Fork != nil {
		w.forks(obs)
	} else {
		w.sideChains(obs)
	}
	return obs, ""
}

func digest(obs []*BlockObs) string {
	type proj struct {
		O    *BlockObs
		Evs  []EvObs
		Head string
		Carr []string
		Inc  []string
		Side string
		SideE string
		Fork  *ForkObs
		Rst   string
	}
	var ps []proj
	for _, o := range obs {
		c := *o
		c.ReexecDiff = nil
		ps = append(ps, proj{&c, o.Evs, o.HeadMovedDiff, o.CarriedDiff, o.Incoherent, o.SideErr, o.SideEErr, o.Fork, o.RestartErr})
	}
	b, _ := json.Marshal(ps)
	s := sha256.Sum256(b)
	return hex.EncodeToString(s[:])
}

// ---- oracle --------------------------------------------------------------------------

type verdicts struct {
	hits   []Hit
	known  []Hit
	counts map[string]int
}

func judge(h *History, obs []*BlockObs, crashed string, v *verdicts) {
	add := func(list *[]Hit, what string, o *BlockObs, detail string) {
		n := uint64(0)
		if o != nil {
			n = o.Number
		}
		if len(detail) > 400 {
			detail = detail[:400]
		}
		hc := *h
		hc.What = what
		*list = append(*list, Hit{What: what, Block: n, Detail: detail, History: &hc})
	}
	if crashed != "" {
		v.counts["harness_crash"]++
		add(&v.hits, "the run itself crashed outside block building", nil, crashed)
		return
	}
	for _, o := range obs {
		if !o.Built {
			if strings.Contains(o.Crash, "CRIT") {
				v.counts["builder_crit"]++
			} else if i := strings.LastIndex(o.Crash, " @"); i >= 0 {
				v.counts["builder_panic_in_"+o.Crash[i+2:]]++
			} else {
				v.counts["builder_crash"]++
			}
			if os.Getenv("C06_DEBUG") != "" {
				fmt.Fprintln(os.Stderr, "builder crash at block", o.Number, ":", o.Crash)
			}
			break
		}
		v.counts["blocks_built"]++
		for _, g := range o.GasSteps {
			v.counts[[]string{"worker_tx_applied", "worker_tx_nonce", "worker_tx_no_money_for_gas", "worker_tx_refused_by_pool", "worker_tx_intrinsic_gas", "worker_tx_value_transfer_impossible", "", "", "", "worker_tx_other_error"}[g.Kind]]++
		}
		if !h.Plain {
			v.counts["txs_submitted"] += o.Submitted
			v.counts["txs_refused_by_pool"] += len(o.PoolErrs)
			v.counts["txs_included"] += o.NTx
			v.counts["txs_skipped_by_worker_or_queued"] += o.Submitted - len(o.PoolErrs) - o.NTx
		}
		if o.NTx > 0 {
			v.counts["blocks_with_txs"]++
		}
		if o.SlashData != "" {
			v.counts["blocks_with_slash_data"]++
		}
		if !h.Plain && h.Params.Freq > 0 && (o.Number+1)%h.Params.Freq == 0 {
			v.counts["period_end_blocks"]++
		}
		if !o.Imported || o.ImportErr != "" {
			v.counts["import_rejected"]++
			add(&v.hits, "a block assembled by the builder was not accepted by the importing node", o, o.ImportErr)
			break // everything after a rejected block is unknown ancestry
		}
		v.counts["import_accepted"]++
		if len(o.ReexecDiff) > 0 {
			v.counts["reexec_differs"]++
			add(&v.hits, "re-executing the same block on the same parent state gave different results", o, strings.Join(o.ReexecDiff, "; "))
			break
		}
		for _, t := range o.TamperAccepted {
			v.counts["tamper_accepted"]++
			add(&v.hits, "a block whose header commitment was altered is still accepted by Process + ValidateState", o, "altered field: "+t)
		}
		v.counts["tamper_rejected"] += o.TamperRejected
		if o.RestartErr != "" {
			v.counts["restarted_importer_failed"]++
			what := "an importer restarted from disk does not accept a block the builder built"
			if strings.HasPrefix(o.RestartErr, "panic") {
				what = "importer crashed on a block the builder accepted (importer restarted from disk)"
			}
			add(&v.hits, what, o, o.RestartErr)
		}
		if o.Number == 1 && o.Restarted > 0 {
			v.counts["restarted_importer_histories"]++
			v.counts["importer_restarts"] += o.Restarted
		}
		if len(o.CarriedDiff) > 0 {
			v.counts["carried_statedb_differs"]++
			add(&v.hits, "executing consecutive blocks on ONE carried StateDB (as side-chain verification does) differs from executing each on a fresh StateDB", o, strings.Join(o.CarriedDiff, "; "))
		} else {
			v.counts["carried_statedb_identical"]++
		}
		if len(o.Incoherent) > 0 {
			v.counts["object_cache_incoherent"]++
			add(&v.hits, "after a block the StateDB's staking-record cache disagrees with its own staking trie", o, strings.Join(o.Incoherent, "; "))
		}
		if o.SideErr != "" {
			v.counts["side_chain_import_rejected"]++
			add(&v.hits, "the built chain is accepted block by block but refused by the side-chain import path (insertSidechain / verifyAllSideChainBlocks: one StateDB carried across the fork)", o, o.SideErr)
		} else if o.Number == 1 {
			if o.SideSkipped {
				v.counts["side_chain_skipped_lookback_inside_fork"]++
			} else {
				v.counts["side_chain_import_accepted"]++
				v.counts["side_chain_blocks"] += o.SideLen
			}
		}
		if fo := o.Fork; fo != nil {
			switch {
			case fo.Skipped != "":
				v.counts["fork_skipped"]++
			default:
				v.counts["fork_histories"]++
				v.counts["fork_side_chain_blocks"] += fo.SideBlocks
				v.counts["fork_sibling_executions"] += fo.SiblingRuns
				v.counts["fork_confirmed_evidences"] += fo.Confirmed
				v.counts["fork_alt_branch_txs"] += fo.StakingTxs
				if fo.AltCrash != "" {
					v.counts["fork_second_builder_crash"]++
				}
			}
			for _, p := range fo.Problems {
				v.counts["fork_problem"]++
				add(&v.hits, "two branches from a common ancestor: a block's execution depends on the node's pre-history, or the importing node does not end with the builder's longer branch, states and receipts", o, p)
			}
			if fo.UnpreparedMode != "" {
				switch {
				case fo.Unprepared == "":
					v.counts["fork_"+fo.UnpreparedMode+"_accepted"]++
				case !strings.HasPrefix(fo.Unprepared, "panic"):
					v.counts["finding_side_chain_pending_txs"]++
					add(&v.known, findSidePendingTxs, o, fo.Unprepared)
				default:
					add(&v.hits, "the side-chain import path panics on a node whose database is not prepared ("+fo.UnpreparedMode+")", o, fo.Unprepared)
				}
			}
		}
		// node E differs from node D only in what its database holds about the fork
		if o.SideEMode != "" {
			switch {
			case o.SideEErr == "":
				v.counts["side_chain_"+o.SideEMode+"_accepted"]++
			case !strings.HasPrefix(o.SideEErr, "panic"):
				// node D accepted the same fork: the databases differ only in the
				// transaction lookup entries of the fork's blocks
				v.counts["finding_side_chain_pending_txs"]++
				add(&v.known, findSidePendingTxs, o, o.SideEErr)
			default:
				v.counts["side_chain_"+o.SideEMode+"_rejected"]++
				add(&v.hits, "the side-chain import path fails on a node whose database is not prepared ("+o.SideEMode+")", o, o.SideEErr)
			}
		}
		if o.HeadMovedDiff != "" {
			v.counts["head_moved_differs"]++
			add(&v.hits, "re-executing a block on its own parent state depends on the position of the chain head", o, o.HeadMovedDiff)
		} else {
			v.counts["head_moved_identical"]++
		}
		// receipts: one per transaction plus the module receipt; cumulative gas ends at the header's gas used
		if !h.Plain {
			if len(o.Recs) != o.NTx+1 {
				add(&v.hits, "builder receipts are not one per transaction plus the module receipt", o, fmt.Sprint(len(o.Recs), " receipts for ", o.NTx, " txs"))
			} else if o.Recs[o.NTx].Cum != o.GasUsed {
				add(&v.hits, "module receipt's cumulative gas differs from the header's gas used", o, "")
			}
		}
		for _, e := range o.Evs {
			switch {
			case e.Confirmed:
				v.counts["evidence_confirmed"]++
				if !e.PenaltyPos {
					v.counts["evidence_confirmed_zero_amount"]++
				}
			case e.Pending:
				v.counts["evidence_pending"]++
			default:
				v.counts["evidence_dropped"]++
			}
		}
	}
}

// ---- Coq cases --------------------------------------------------------------------------

func zs(x *big.Int) string { return "(" + x.String() + ")" }
func zu(x uint64) string   { return fmt.Sprintf("%d", x) }
func prS(a [3]*big.Int) string {
	return fmt.Sprintf("(mkPR %s %s %s)", zs(a[0]), zs(a[1]), zs(a[2]))
}
func prU(a [3]uint64) string { return fmt.Sprintf("(mkPR %d %d %d)", a[0], a[1], a[2]) }

var (
	topicProposer = hex.EncodeToString(common.StringToHash(staking.LogTopicProposerRewards).Bytes())
	topicSlashing = hex.EncodeToString(common.StringToHash(staking.LogTopicSlashing).Bytes())
	topicRecover  = hex.EncodeToString(common.StringToHash(staking.LogTopicRecoverFromExpiredExpelling).Bytes())
)

func casesOf(h *History, o *BlockObs) (out []string, descs []interface{}) {
	if !o.Built {
		return
	}
	emit := func(s string, kind string) {
		out = append(out, s)
		descs = append(descs, map[string]interface{}{"kind": kind, "block": o.Number, "history": h})
	}
	// CBlock
	var txs, cum, st []string
	for i := 0; i < o.NTx && i < len(o.Recs) && i < len(o.TxGas) && i < len(o.TxPrice); i++ {
		txs = append(txs, fmt.Sprintf("(%d, %d, %s)", o.TxGas[i], o.TxPrice[i], vf.Bool(o.Recs[i].Status == 0)))
	}
	recs := o.Recs
	if h.Plain { // no module receipt on the plain path: the model appends one, mirror it
		recs = append(append([]RecObs{}, recs...), RecObs{Status: 1, Cum: o.GasUsed})
	}
	for _, r := range recs {
		cum = append(cum, zu(r.Cum))
		st = append(st, vf.Bool(r.Status == 1))
	}
	gasOK := !strings.Contains(o.ImportErr, "invalid gas")
	emit(fmt.Sprintf("CBlock %s %d %s %s %s %s", vf.List(txs), o.GasUsed, "("+o.GasRewards+")", vf.List(cum), vf.List(st), vf.Bool(gasOK)), "block")
	if h.Plain {
		return
	}
	// CGas: the worker's pool over the candidates it tried
	if o.HasPool && len(o.GasSteps) > 0 {
		var steps []string
		known := true
		for _, g := range o.GasSteps {
			if g.Kind == 9 {
				known = false
			}
			steps = append(steps, fmt.Sprintf("(%d, %d%%N, %d)", g.Limit, g.Kind, g.Used))
		}
		if known {
			emit(fmt.Sprintf("CGas %d %s %d", o.BlockGasLimit, vf.List(steps), o.FinalPool), "gas")
		}
	}
	// CEvid
	if len(o.Evs) > 0 {
		var es []string
		for _, e := range o.Evs {
			signer := "None"
			if e.Verified {
				signer = fmt.Sprintf("(Some %d%%N)", e.SignerID)
			}
			es = append(es, fmt.Sprintf("mkEvCase %s %d%%N %s %d%%N %s %s %s %s %s", vf.Bool(e.Type == 1), e.NSigns, vf.Bool(e.Differ), e.Round, signer,
				vf.Bool(e.Exists), vf.Bool(e.PenaltyPos), vf.Bool(e.Confirmed), vf.Bool(e.Pending)))
		}
		emit(fmt.Sprintf("CEvid %d%%N %d%%N %s", o.Number-1, h.Params.MaxExpired, vf.List(es)), "evidence")
	}
	// CRewards / CPeriod: only when nothing changed the statistics between the
	// probe and rewardsToPool (no slash data) ...
	if o.Before == nil || o.After == nil || o.SlashData != "" {
		return
	}
	b, a := o.Before, o.After
	propRew := new(big.Int)
	slashOrRecover := false
	if n := len(o.Recs); n > 0 {
		for _, l := range o.Recs[n-1].Logs {
			if len(l.Topics) == 0 {
				continue
			}
			switch l.Topics[0] {
			case topicProposer:
				bs, _ := hex.DecodeString(l.Data)
				propRew.SetBytes(bs)
			case topicSlashing, topicRecover:
				slashOrRecover = true
			}
		}
	}
	prole := uint8(0)
	for _, v := range b.Vals {
		if v.ID == o.ProposerID {
			prole = v.Role
		}
	}
	args := fmt.Sprintf("true %d %d %s %s %s (%s) %s %s %d%%N", h.Params.SubsidyThreshold, h.Params.SubsidyCoeff, prU(h.Params.Ratio), prU(b.Counts),
		zs(b.Pool), o.GasRewards, zs(b.Residue), prS(b.RolePool), prole)
	periodEnd := (o.Number+1)%h.Params.Freq == 0
	onTotal := new(big.Int)
	for _, s := range b.OnStake {
		onTotal.Add(onTotal, s)
	}
	if !periodEnd || onTotal.Sign() <= 0 {
		emit(fmt.Sprintf("CRewards %s (%s) %s %s %s", args, o.Subsidy, zs(propRew), prS(a.RolePool), zs(a.Residue)), "rewards")
		return
	}
	// ... and, at a period end, nothing changed a validator's status before the distribution
	if slashOrRecover {
		return
	}
	after := map[int64]VSnap{}
	for _, v := range a.Vals {
		after[v.ID] = v
	}
	var vals, rews []string
	for _, v := range b.Vals {
		av, ok := after[v.ID]
		if !ok {
			return
		}
		d := new(big.Int).Sub(av.Total, v.Total)
		if v.ID == o.ProposerID {
			d.Sub(d, propRew)
		}
		vals = append(vals, fmt.Sprintf("(%d%%N, %s, %s)", v.Role, vf.Bool(v.Online), zs(v.Stake)))
		rews = append(rews, zs(d))
	}
	emit(fmt.Sprintf("CPeriod %s (%s) %s %s %s %s %s %s", args, o.Subsidy, zs(propRew), zs(a.Residue), prS(b.OnStake), vf.List(vals), vf.List(rews), prS(a.RolePool)), "period")
	return
}

// ---- corpus ------------------------------------------------------------------------------

func loadCorpus(dir string) []*History {
	var out []*History
	files, _ := filepath.Glob(filepath.Join(dir, "*.json"))
	sort.Strings(files)
	for _, f := range files {
		b, err := ioutil.ReadFile(f)
		if err != nil {
			continue
		}
		var h History
		if json.Unmarshal(b, &h) == nil && len(h.Blocks) > 0 {
			h.Comment = "corpus:" + filepath.Base(f)
			out = append(out, &h)
		}
	}
	return out
}

// ---- gen -----------------------------------------------------------------------------------

func gen(seed uint64, n int, outDir, corpusDir string, procs int) {
	r := vf.NewRng(seed)
	res := vf.NewResult("C06", seed)
	v := &verdicts{counts: map[string]int{}}
	var cases []string
	var hist []*History
	var digests []string
	distinct := map[string]bool{}
	blocks := 0
	runOne := func(h *History) {
		obs, crashed := runHistory(h, 3)
		hist = append(hist, h)
		digests = append(digests, digest(obs))
		judge(h, obs, crashed, v)
		if h.Plain {
			v.counts["plain_histories"]++
		} else {
			v.counts["staking_histories"]++
		}
		for _, o := range obs {
			blocks++
			cs, ds := casesOf(h, o)
			for i, c := range cs {
				cases = append(cases, c)
				res.CaseDescs = append(res.CaseDescs, ds[i])
				kind := ds[i].(map[string]interface{})["kind"].(string)
				v.counts["case_"+kind]++
				if kind != "block" || o.NTx > 0 {
					distinct[c] = true
				}
			}
			if !o.Built {
				break
			}
		}
	}
	// the histories are fixed before anything runs (budget = planned blocks), so
	// that the fresh processes can re-run them while this process runs them
	var planned []*History
	nCorpus := 0
	for _, h := range loadCorpus(corpusDir) {
		planned = append(planned, h)
		nCorpus++
	}
	for pb := 0; pb < n; {
		h := randHistory(r, 40)
		planned = append(planned, h)
		pb += len(h.Blocks)
	}
	type childRes struct {
		out []byte
		err error
	}
	ch := make(chan childRes, procs+1)
	hf := filepath.Join(outDir, "histories.json")
	if procs > 0 {
		// fresh processes: Go seeds its map iteration per process
		b, _ := json.Marshal(planned)
		vf.WriteFile(hf, string(b))
		for p := 0; p < procs; p++ {
			go func() {
				cmd := exec.Command(os.Args[0], "exec", "-file", hf)
				cmd.Stderr = nil
				out, err := cmd.Output()
				ch <- childRes{out, err}
			}()
		}
	}
	for i, h := range planned {
		runOne(h)
		if i < nCorpus {
			v.counts["corpus"]++
		}
	}
	if procs > 0 {
		for p := 0; p < procs; p++ {
			cr := <-ch
			var ds []string
			if cr.err != nil || json.Unmarshal(cr.out, &ds) != nil || len(ds) != len(digests) {
				v.hits = append(v.hits, Hit{What: "a fresh process could not re-run the histories", Detail: fmt.Sprint(cr.err, " ", string(cr.out[:min(len(cr.out), 300)]))})
				continue
			}
			for i := range ds {
				if ds[i] != digests[i] {
					hc := *hist[i]
					hc.What = "the same history gave different blocks, receipts or logs in a fresh process"
					v.hits = append(v.hits, Hit{What: hc.What, History: &hc, Detail: "digest " + ds[i] + " vs " + digests[i]})
					v.counts["fresh_process_differs"]++
				} else {
					v.counts["fresh_process_identical"]++
				}
			}
		}
		os.Remove(hf)
	}
	var sb strings.Builder
	sb.WriteString("From VF.C06 Require Import Model.\nLocal Open Scope Z_scope.\nDefinition cases : list case := [\n")
	sb.WriteString(strings.Join(cases, ";\n"))
	sb.WriteString("].\nDefinition M := Eval vm_compute in mismatches cases.\nPrint M.\n")
	vf.WriteFile(filepath.Join(outDir, "Cases.v"), sb.String())
	res.Cases = len(cases)
	res.Distinct = len(distinct)
	res.Rule = "random histories (scaled-down YouV5 staking parameters, 2-4 genesis validators, up to ~40 blocks crossing several staking periods; transfers, contract calls, deployments, all nine staking actions, malformed staking payloads, nonce gaps; double-sign evidences with real BLS signatures: valid, wrong key, wrong index, one signature, unknown type, certificate kind, past/future/expired rounds, duplicates) built by the real miner worker on node A, imported in random batches by InsertChain on node B, executed 3x on fresh state objects (cold and warm caches, with and without probe hooks) on node C, and re-run from scratch in fresh processes; plus plain chain_makers chains. A case is one model-checked observation of one block (block accumulation, rewardsToPool, period-end distribution, evidence classification); non-trivial = every rewards/period/evidence case and every block case with transactions; distinct by full content"
	for k, c := range v.counts {
		res.Distribution[k] = c
	}
	for _, hgt := range v.hits {
		res.OracleHits = append(res.OracleHits, hgt)
	}
	// open findings go to the oracle hits under their stable key (the driver
	// matches them with known_findings.json); two witnesses per key are enough
	perKey := map[string]int{}
	for _, k := range v.known {
		res.Known = append(res.Known, map[string]interface{}{"what": k.What, "block": k.Block, "detail": k.Detail})
		if perKey[k.What] < 2 {
			perKey[k.What]++
			res.OracleHits = append(res.OracleHits, k)
		}
	}
	for i, h := range hist {
		if i < 3 {
			res.Samples = append(res.Samples, map[string]interface{}{"blocks": len(h.Blocks), "plain": h.Plain, "params": h.Params, "first_block": h.Blocks[0]})
		}
	}
	res.Extra["blocks"] = blocks
	res.Extra["histories"] = len(hist)
	res.Write(filepath.Join(outDir, "result.json"))
}

func min(a, b int) int {
	if a < b {
		return a
	}
	return b
}

// execChild re-runs every history of the file once and prints the digests.
func execChild(file string) {
	b, err := ioutil.ReadFile(file)
	if err != nil {
		fmt.Println(err)
		os.Exit(2)
	}
	var hs []*History
	if err := json.Unmarshal(b, &hs); err != nil {
		fmt.Println(err)
		os.Exit(2)
	}
	var ds []string
	for _, h := range hs {
		obs, _ := runHistory(h, 1)
		ds = append(ds, digest(obs))
	}
	out, _ := json.Marshal(ds)
	fmt.Println(string(out))
}

// replay re-runs one stored history (an oracle hit, a finding witness or a
// corpus file) and exits 1 if the property fails on it.
func replay(file string) {
	b, err := ioutil.ReadFile(file)
	if err != nil {
		fmt.Println(err)
		os.Exit(2)
	}
	var rp struct {
		History *History `json:"history"`
		Blocks  []BlockIn `json:"blocks"`
	}
	if err := json.Unmarshal(b, &rp); err != nil {
		fmt.Println(err)
		os.Exit(2)
	}
	h := rp.History
	if h == nil {
		h = &History{}
		if err := json.Unmarshal(b, h); err != nil || len(h.Blocks) == 0 {
			fmt.Println("no history in", file)
			os.Exit(2)
		}
	}
	obs, crashed := runHistory(h, 3)
	v := &verdicts{counts: map[string]int{}}
	judge(h, obs, crashed, v)
	d1 := digest(obs)
	obs2, _ := runHistory(h, 1)
	if d2 := digest(obs2); d1 != d2 {
		v.hits = append(v.hits, Hit{What: "the same history gave different blocks, receipts or logs on a second run"})
	}
	for _, o := range obs {
		fmt.Printf("block %d built=%v imported=%v err=%q txs=%d slash=%d bytes reexec=%v headmoved=%q carried=%v incoherent=%v side=%q sideE=%q fork=%+v\n", o.Number, o.Built, o.Imported, o.ImportErr, o.NTx, len(o.SlashData)/2, o.ReexecDiff, o.HeadMovedDiff, o.CarriedDiff, o.Incoherent, o.SideErr, o.SideEErr, o.Fork)
	}
	if len(v.hits) > 0 {
		fmt.Printf("ORACLE VIOLATION: %s (block %d): %s\n", v.hits[0].What, v.hits[0].Block, v.hits[0].Detail)
		os.Exit(1)
	}
	if len(v.known) > 0 {
		fmt.Printf("ORACLE VIOLATION (listed open finding): %s (block %d): %s\n", v.known[0].What, v.known[0].Block, v.known[0].Detail)
		os.Exit(1)
	}
	fmt.Println("property holds on this history")
}
