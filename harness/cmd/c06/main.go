// C06 harness: block execution is deterministic; builder and validator agree.
// Sub-commands: gen, replay, exec (child process re-running histories),
// ranges (translator: inventory of every map iteration on the execution path),
// smoke.
package main

import (
	"encoding/json"
	"flag"
	"fmt"
	"os"

	"github.com/youchainhq/go-youchain/params"
)

func main() {
	mode := ""
	if len(os.Args) > 1 {
		mode = os.Args[1]
		os.Args = append(os.Args[:1], os.Args[2:]...)
	}
	seed := flag.Uint64("seed", 1, "")
	n := flag.Int("n", 400, "")
	out := flag.String("out", ".", "")
	corpus := flag.String("corpus", "/verif/corpus/C06", "")
	file := flag.String("file", "", "")
	procs := flag.Int("procs", 2, "fresh child processes re-running every history")
	flag.Parse()
	params.InitNetworkId(params.NetworkIdForTestCase)
	quietLogs()
	switch mode {
	case "smoke":
		smoke()
	case "gen":
		gen(*seed, *n, *out, *corpus, *procs)
	case "exec":
		execChild(*file)
	case "replay":
		replay(*file)
	case "ranges":
		ranges(*out)
	default:
		fmt.Println("usage: c06 gen|replay|exec|ranges")
		os.Exit(2)
	}
}

const YOU = "000000000000000000"

func smokeHistory() *History {
	return &History{
		Params: Params{Freq: 4, WithdrawDelay: 2, Retention: 4, MaxRewardsPeriod: 2, ExpelDS: 6, ExpelInactive: 4, FracDS: 2, FracInactive: 1, InactWait: 9,
			StakeLookBack: 3, MaxExpired: 5,
			MinStakes: [3]uint64{10, 5, 2}, MaxStakes: [3]uint64{100, 60, 30}, MinSelf: [3]uint64{5, 5, 0}, Ratio: [3]uint64{3, 3, 4},
			MaxDlgVal: 3, MaxDlgDlg: 2, MinDlgTokens: "2" + YOU, SubsidyThreshold: 9000000000000000000, SubsidyCoeff: 5},
		Balances: []string{"1000" + YOU, "1000" + YOU, "1000" + YOU, "50" + YOU},
		Pool:     "100000" + YOU, NVKeys: 4,
		Vals: []GenesisVal{{Key: 0, Operator: 0, Coinbase: 0, Role: 1, Token: "20" + YOU, Online: true, Accept: 1, Commission: 1000, Risk: 500},
			{Key: 1, Operator: 1, Coinbase: 1, Role: 3, Token: "5" + YOU, Online: true, Accept: 1}},
		Blocks: []BlockIn{
			{Proposer: 0, Txs: []TxIn{{Kind: "transfer", From: 0, To: 1, Value: "5", Gas: 21000, Price: 16},
				{Kind: "dadd", From: 2, Val: 0, Value: "7" + YOU, Gas: 200000, Price: 18},
				{Kind: "create", From: 3, Val: 2, Operator: 3, Coinbase: 3, Role: 2, Value: "6" + YOU, Gas: 2000000, Price: 19, Accept: 1, Commission: 100, Risk: 10000, Name: 3}}},
			{Proposer: 0, Txs: []TxIn{{Kind: "call", From: 1, To: 2, Gas: 100000, Price: 17}, {Kind: "call", From: 0, To: 3, Value: "100", Gas: 100000, Price: 32}}},
			{Proposer: 0, Txs: []TxIn{{Kind: "call", From: 1, To: 2, Gas: 100000, Price: 17}, {Kind: "withdraw", From: 0, Val: 0, Recipient: 2, Value: "3" + YOU, Gas: 200000, Price: 16}}},
			{Proposer: 0}, {Proposer: 0, Evs: []EvIn{{Kind: "valid", Round: 4, Signer: 1}}}, {Proposer: 0}, {Proposer: 0}, {Proposer: 0}, {Proposer: 0},
		},
		Batches: []int{1, 2, 3, 3},
	}
}

func smoke() {
	w := newWorld(smokeHistory())
	obs := w.run(3)
	w.headMoved(obs)
	for _, o := range obs {
		b, _ := json.Marshal(o)
		fmt.Println(string(b))
		fmt.Printf("   evs=%+v endlogs=%d headmoved=%q\n", o.Evs, o.EndLogs, o.HeadMovedDiff)
		if o.Before != nil {
			fmt.Printf("   before pool=%v residue=%v counts=%v rolepool=%v\n", o.Before.Pool, o.Before.Residue, o.Before.Counts, o.Before.RolePool)
			fmt.Printf("   after  pool=%v residue=%v counts=%v rolepool=%v\n", o.After.Pool, o.After.Residue, o.After.Counts, o.After.RolePool)
		}
	}
	w.stop()
}
