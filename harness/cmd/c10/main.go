// C10 harness: drives the real core/state.StateDB of the working tree through
// histories of writes, Finalise / IntermediateRoot / Commit, Copy, reopening
// from the committed roots (state.New, NewVldReader) on several handles over
// one database; records what every call shows (for the in-Coq comparison with
// coq/C10/Model.v) and evaluates the property oracle on the implementation's
// own observations: reopened == live, equal content => equal roots, copy ==
// original and independent of it.
package main

import (
	"encoding/json"
	"flag"
	"fmt"
	"io/ioutil"
	"math/big"
	"os"
	"path/filepath"
	"sort"
	"strings"

	"github.com/youchainhq/go-youchain/common"
	"github.com/youchainhq/go-youchain/common/hexutil"
	"github.com/youchainhq/go-youchain/core/state"
	"github.com/youchainhq/go-youchain/crypto"
	"github.com/youchainhq/go-youchain/logging"
	"github.com/youchainhq/go-youchain/params"
	"github.com/youchainhq/go-youchain/youdb"
	"verif/harness/vf"
)

// ---- data -----------------------------------------------------------------

// Val is a validator record as the model sees it.
type Val struct {
	Id     uint64      `json:"id"`
	Role   uint64      `json:"role"`
	Status uint64      `json:"status"`
	Token  string      `json:"token"`
	Stake  string      `json:"stake"`
	Dlgs   [][3]string `json:"dlgs"` // delegator id, stake, token
	Rest   []string    `json:"rest"`
}

// Op is one call.  K selects it; H is the handle it acts on.
type Op struct {
	K    string   `json:"k"`
	H    uint64   `json:"h"`
	H2   uint64   `json:"h2,omitempty"`
	A    uint64   `json:"a,omitempty"`
	B    uint64   `json:"b,omitempty"`
	C    uint64   `json:"c,omitempty"`
	V    string   `json:"v,omitempty"` // big integer
	Neg  bool     `json:"neg,omitempty"`
	Del  bool     `json:"del,omitempty"`
	Some bool     `json:"some,omitempty"`
	Code []byte   `json:"code,omitempty"`
	Idx  []uint64 `json:"idx,omitempty"`
	Val  *Val     `json:"val,omitempty"`
	Rec  []string `json:"rec,omitempty"`
}

// Assert is one expectation of the property on the outputs of a history.
type Assert struct {
	Kind string `json:"kind"` // eqview | eqroots | reopen_ok
	I    int    `json:"i"`
	J    int    `json:"j"`
	Copy int    `json:"copy"` // index of the MCopy op this expectation depends on, -1 if none
	Why  string `json:"why"`
}

type History struct {
	Ops     []Op     `json:"ops"`
	Asserts []Assert `json:"asserts"`
	Comment string   `json:"comment,omitempty"`
}

// Obs is the tree the model's [obs] type mirrors.
type Obs struct {
	N *big.Int
	L []Obs
	IsL bool
}

func on(x uint64) Obs       { return Obs{N: new(big.Int).SetUint64(x)} }
func ob(x *big.Int) Obs     { return Obs{N: new(big.Int).Set(x)} }
func ol(xs ...Obs) Obs      { return Obs{L: xs, IsL: true} }
func onums(xs []uint64) Obs { o := Obs{IsL: true}; for _, x := range xs { o.L = append(o.L, on(x)) }; return o }
func (o Obs) Coq() string {
	if !o.IsL {
		return "ON " + o.N.String()
	}
	xs := make([]string, len(o.L))
	for i, c := range o.L {
		xs[i] = c.Coq()
	}
	return "OL [" + strings.Join(xs, "; ") + "]"
}
func (o Obs) String() string {
	if !o.IsL {
		return o.N.String()
	}
	xs := make([]string, len(o.L))
	for i, c := range o.L {
		xs[i] = c.String()
	}
	return "[" + strings.Join(xs, " ") + "]"
}

var (
	uAccts = []uint64{1, 2, 3, 4, 5, 6}
	uKeys  = []uint64{1, 2, 3}
	uVals  = []uint64{1, 2, 3, 4, 5}
	uDlg   = []uint64{0, 1, 2} // delegator side of staking-record keys (0 = zero address)
	two160 = new(big.Int).Lsh(big.NewInt(1), 160)
)

func addrOf(n uint64) common.Address { return common.BigToAddress(new(big.Int).SetUint64(n)) }
func hashOf(n uint64) common.Hash    { return common.BigToHash(new(big.Int).SetUint64(n)) }
func bigOf(s string) *big.Int {
	if s == "" {
		return new(big.Int)
	}
	b, ok := new(big.Int).SetString(s, 10)
	if !ok {
		panic("bad integer " + s)
	}
	return b
}
func u64Of(s string) uint64 { return bigOf(s).Uint64() }

var valKeys [][]byte
var valAddrs []common.Address
var valIdOf = map[common.Address]uint64{}

func initValidators() {
	type kv struct {
		pk []byte
		a  common.Address
	}
	var l []kv
	for i := int64(0); i < int64(len(uVals)); i++ {
		k, err := crypto.ToECDSA(common.BigToHash(big.NewInt(i + 7101)).Bytes())
		if err != nil {
			panic(err)
		}
		pk := crypto.CompressPubkey(&k.PublicKey)
		l = append(l, kv{pk, state.PubToAddress(pk)})
	}
	sort.Slice(l, func(i, j int) bool { return strings.Compare(string(l[i].a.Bytes()), string(l[j].a.Bytes())) < 0 })
	for i, x := range l {
		valKeys = append(valKeys, x.pk)
		valAddrs = append(valAddrs, x.a)
		valIdOf[x.a] = uint64(i + 1)
	}
}
func valAddr(id uint64) common.Address { return valAddrs[id-1] }
func idOfAddr(a common.Address) uint64 {
	if id, ok := valIdOf[a]; ok {
		return id
	}
	return a.Big().Uint64()
}

// ---- validator records <-> state.Validator ----------------------------------

// rest = operator, coinbase, expelled, expelExpired, lastInactive, selfToken,
// selfStake, rewardsDistributable, rewardsTotal, rewardsLastSettled,
// acceptDelegation, commissionRate, riskObligation, ext.version, ext.data,
// name, blsPubKey
func valRec(v *state.Validator) Val {
	r := Val{Id: idOfAddr(v.MainAddress()), Role: uint64(v.Role), Status: uint64(v.Status), Token: v.Token.String(), Stake: v.Stake.String()}
	for _, d := range v.Delegations {
		r.Dlgs = append(r.Dlgs, [3]string{d.Delegator.Big().String(), d.Stake.String(), d.Token.String()})
	}
	ex := uint64(0)
	if v.Expelled {
		ex = 1
	}
	u := func(x uint64) string { return fmt.Sprintf("%d", x) }
	r.Rest = []string{v.OperatorAddress.Big().String(), v.Coinbase.Big().String(), u(ex), u(v.ExpelExpired), u(v.LastInactive),
		v.SelfToken.String(), v.SelfStake.String(), v.RewardsDistributable.String(), v.RewardsTotal.String(), u(v.RewardsLastSettled),
		u(uint64(v.AcceptDelegation)), u(uint64(v.CommissionRate)), u(uint64(v.RiskObligation)), u(uint64(v.Ext.Version)),
		new(big.Int).SetBytes(v.Ext.Data).String(), new(big.Int).SetBytes([]byte(v.Name)).String(), new(big.Int).SetBytes(v.BlsPubKey).String()}
	return r
}

func bytesOfNum(s string) []byte {
	b := bigOf(s).Bytes()
	if len(b) == 0 {
		return nil
	}
	return b
}

// applyRec overwrites every encoded field of nv with the record.
func applyRec(nv *state.Validator, r *Val) {
	nv.Role = params.ValidatorRole(r.Role)
	nv.Status = uint8(r.Status)
	nv.Token = bigOf(r.Token)
	nv.Stake = bigOf(r.Stake)
	nv.Delegations = make(state.DelegationFroms, 0, len(r.Dlgs))
	for _, d := range r.Dlgs {
		nv.Delegations = append(nv.Delegations, &state.DelegationFrom{Delegator: common.BigToAddress(bigOf(d[0])), Stake: bigOf(d[1]), Token: bigOf(d[2])})
	}
	x := r.Rest
	nv.OperatorAddress = common.BigToAddress(bigOf(x[0]))
	nv.Coinbase = common.BigToAddress(bigOf(x[1]))
	nv.Expelled = u64Of(x[2]) == 1
	nv.ExpelExpired = u64Of(x[3])
	nv.LastInactive = u64Of(x[4])
	nv.SelfToken = bigOf(x[5])
	nv.SelfStake = bigOf(x[6])
	nv.RewardsDistributable = bigOf(x[7])
	nv.RewardsTotal = bigOf(x[8])
	nv.RewardsLastSettled = u64Of(x[9])
	nv.AcceptDelegation = uint16(u64Of(x[10]))
	nv.CommissionRate = uint16(u64Of(x[11]))
	nv.RiskObligation = uint16(u64Of(x[12]))
	nv.Ext.Version = uint8(u64Of(x[13]))
	nv.Ext.Data = hexutil.Bytes(bytesOfNum(x[14]))
	nv.Name = string(bytesOfNum(x[15]))
	nv.BlsPubKey = hexutil.Bytes(bytesOfNum(x[16]))
}

func valObs(r Val) Obs {
	var dl []Obs
	for _, d := range r.Dlgs {
		dl = append(dl, ol(ob(bigOf(d[0])), ob(bigOf(d[1])), ob(bigOf(d[2]))))
	}
	rest := Obs{IsL: true}
	for _, x := range r.Rest {
		rest.L = append(rest.L, ob(bigOf(x)))
	}
	return ol(on(r.Id), on(r.Role), on(r.Status), ob(bigOf(r.Token)), ob(bigOf(r.Stake)), Obs{L: dl, IsL: true}, rest)
}

func wrecOf(rec []string) *state.WithdrawRecord {
	return &state.WithdrawRecord{
		Operator: common.BigToAddress(bigOf(rec[0])), Delegator: common.BigToAddress(bigOf(rec[1])),
		Validator: common.BigToAddress(bigOf(rec[2])), Recipient: common.BigToAddress(bigOf(rec[3])),
		Nonce: u64Of(rec[4]), CreationHeight: u64Of(rec[5]), CompletionHeight: u64Of(rec[6]),
		InitialBalance: bigOf(rec[7]), FinalBalance: bigOf(rec[8]), Finished: uint8(u64Of(rec[9])), TxHash: common.BigToHash(bigOf(rec[10])),
	}
}
func wrecObs(r *state.WithdrawRecord) Obs {
	ib, fb := r.InitialBalance, r.FinalBalance
	if ib == nil {
		ib = new(big.Int)
	}
	if fb == nil {
		fb = new(big.Int)
	}
	return ol(ob(r.Operator.Big()), ob(r.Delegator.Big()), ob(r.Validator.Big()), ob(r.Recipient.Big()), on(r.Nonce), on(r.CreationHeight),
		on(r.CompletionHeight), ob(ib), ob(fb), on(uint64(r.Finished)), ob(r.TxHash.Big()))
}

// ---- the machine: several StateDBs over one database --------------------------

type copyInfo struct {
	MidTx        bool
	DirtyDlgs    bool
	PendingDirty bool
}

type env struct {
	disk   *youdb.MemDatabase
	db     state.Database
	hs     map[uint64]*state.StateDB
	last   map[uint64][3]common.Hash
	seen   [3]map[common.Hash]uint64
	copies map[int]copyInfo // op index -> state of the original when it was copied
	cold   []string         // cold-reopen failures (oracle only)
}

func newEnv() *env {
	disk := youdb.NewMemDatabase()
	db := state.NewDatabase(disk)
	st, err := state.New(common.Hash{}, common.Hash{}, common.Hash{}, db)
	if err != nil {
		panic(err)
	}
	e := &env{disk: disk, db: db, hs: map[uint64]*state.StateDB{0: st}, last: map[uint64][3]common.Hash{}, copies: map[int]copyInfo{}}
	for i := range e.seen {
		e.seen[i] = map[common.Hash]uint64{}
	}
	return e
}

func (e *env) showRoots(r [3]common.Hash) Obs {
	var ids []uint64
	for i := 0; i < 3; i++ {
		id, ok := e.seen[i][r[i]]
		if !ok {
			id = uint64(len(e.seen[i]))
			e.seen[i][r[i]] = id
		}
		ids = append(ids, id)
	}
	return onums(ids)
}

func guard(f func()) (panicked string) {
	defer func() {
		if r := recover(); r != nil {
			panicked = fmt.Sprint(r)
		}
	}()
	f()
	return ""
}

var panicObs = ol(on(0))

func valsPart(st interface {
	GetValidatorByMainAddr(common.Address) *state.Validator
}) Obs {
	o := Obs{IsL: true}
	for _, id := range uVals {
		v := st.GetValidatorByMainAddr(valAddr(id))
		if v == nil {
			o.L = append(o.L, ol())
		} else {
			o.L = append(o.L, valObs(valRec(v)))
		}
	}
	return o
}

func statObs(s *state.ValidatorsStat) Obs {
	o := Obs{IsL: true}
	item := func(k *state.ValKindStat) Obs {
		return ol(ob(k.GetOnlineStake()), ob(k.GetOnlineToken()), on(k.GetCount()), ob(k.GetOfflineStake()), ob(k.GetOfflineToken()),
			on(k.GetOfflineCount()), ob(k.GetRewardsResidue()), ob(k.GetRewardsDistributable()))
	}
	for _, k := range []params.ValidatorKind{params.KindValidator, params.KindChamber, params.KindHouse} {
		o.L = append(o.L, item(s.GetByKind(k)))
	}
	for _, r := range []params.ValidatorRole{params.RoleChancellor, params.RoleSenator, params.RoleHouse} {
		o.L = append(o.L, item(s.GetByRole(r)))
	}
	return o
}

func biNum(d, v common.Address) *big.Int {
	x := new(big.Int).Mul(d.Big(), two160)
	return x.Add(x, new(big.Int).SetUint64(idOfAddr(v)))
}

func pairsU() [][2]uint64 {
	var ps [][2]uint64
	for _, d := range uDlg {
		for _, v := range uVals {
			ps = append(ps, [2]uint64{d, v})
		}
	}
	return ps
}
func dlgAddr(d uint64) common.Address {
	if d == 0 {
		return common.Address{}
	}
	return addrOf(d)
}

// view reads everything the property speaks about from one StateDB.
func view(st *state.StateDB) Obs {
	accts := Obs{IsL: true}
	for _, a := range uAccts {
		addr := addrOf(a)
		if !st.Exist(addr) {
			accts.L = append(accts.L, ol())
			continue
		}
		var stor []Obs
		for _, k := range uKeys {
			stor = append(stor, ob(st.GetState(addr, hashOf(k)).Big()))
		}
		code := Obs{IsL: true}
		for _, c := range st.GetCode(addr) {
			code.L = append(code.L, on(uint64(c)))
		}
		dl := ol()
		if p := guard(func() {
			_, l, _ := st.VerifC10Delegations(addr)
			ids := Obs{IsL: true}
			for _, x := range l {
				ids.L = append(ids.L, on(idOfAddr(x)))
			}
			dl = ol(ids)
		}); p != "" {
			dl = ol()
		}
		accts.L = append(accts.L, ol(on(st.GetNonce(addr)), ob(st.GetBalance(addr)), code, Obs{L: stor, IsL: true}, ob(st.VerifC10DelegationBalance(addr)), dl))
	}
	idx := Obs{IsL: true}
	for _, a := range st.VerifC10Index() {
		idx.L = append(idx.L, on(idOfAddr(a)))
	}
	stat, _ := st.GetValidatorsStat()
	q := Obs{IsL: true}
	for _, r := range st.GetWithdrawQueue().Records {
		q.L = append(q.L, wrecObs(r))
	}
	mod := uint64(0)
	if st.ValidatorsModified() {
		mod = 1
	}
	vpart := ol(valsPart(st), idx, statObs(stat), q, on(mod))
	recs := Obs{IsL: true}
	for _, p := range pairsU() {
		r := st.GetStakingRecord(dlgAddr(p[0]), valAddr(p[1]))
		if r == nil {
			recs.L = append(recs.L, ol())
		} else {
			th := Obs{IsL: true}
			for _, h := range r.TxHashes {
				th.L = append(th.L, ob(h.Big()))
			}
			recs.L = append(recs.L, ol(ob(r.FinalValue), th))
		}
	}
	prel := Obs{IsL: true}
	for _, p := range st.VerifC10Prel() {
		prel.L = append(prel.L, ob(biNum(p[0], p[1])))
	}
	return ol(accts, vpart, ol(recs, prel))
}

func readerView(rd state.ValidatorReader) Obs {
	stat, _ := rd.GetValidatorsStat()
	return ol(valsPart(rd), statObs(stat))
}

// coldReopen flushes the three committed roots to the disk database and opens
// them through a fresh state database (no shared caches).
func (e *env) coldReopen(r [3]common.Hash) (*state.StateDB, error) {
	for _, h := range r {
		if h == (common.Hash{}) {
			continue
		}
		if err := e.db.TrieDB().Commit(h, false); err != nil {
			return nil, err
		}
	}
	return state.New(r[0], r[1], r[2], state.NewDatabase(e.disk))
}

// exec performs one op and returns what it shows.
func (e *env) exec(i int, o Op) Obs {
	st := e.hs[o.H]
	out := ol()
	switch o.K {
	case "commit":
		if st == nil {
			return out
		}
		var r [3]common.Hash
		var err error
		if p := guard(func() { r[0], r[1], r[2], err = st.Commit(o.Del) }); p != "" || err != nil {
			return panicObs
		}
		e.last[o.H] = r
		return e.showRoots(r)
	case "roots":
		if st == nil {
			return out
		}
		d := st.RawDumpRoots()
		return e.showRoots(d)
	case "copy":
		if st == nil {
			return out
		}
		ci := st.VerifC10CopyInfo()
		e.copies[i] = copyInfo{MidTx: len(ci.JournalDirty) > 0 || len(ci.ValJournal) > 0, DirtyDlgs: len(ci.DirtyDlgs) > 0, PendingDirty: len(ci.PendingDirty) > 0}
		if p := guard(func() { e.hs[o.H2] = st.Copy() }); p != "" {
			return panicObs
		}
		return out
	case "reopen":
		r, ok := e.last[o.H]
		if !ok {
			return out
		}
		ns, err := state.New(r[0], r[1], r[2], e.db)
		if err != nil {
			return ol(on(0))
		}
		e.hs[o.H2] = ns
		// oracle only: the same roots through the disk database
		cs, err := e.coldReopen(r)
		if err != nil {
			e.cold = append(e.cold, fmt.Sprintf("op %d: cold reopen failed: %v", i, err))
		} else {
			var a, b Obs
			if p := guard(func() { a, b = view(ns), view(cs) }); p != "" {
				e.cold = append(e.cold, fmt.Sprintf("op %d: panic reading reopened state: %s", i, p))
			} else if a.String() != b.String() {
				e.cold = append(e.cold, fmt.Sprintf("op %d: state reopened from disk differs from state reopened from the node cache: %s", i, diffObs(a, b)))
			}
		}
		return ol(on(1))
	case "reader":
		r, ok := e.last[o.H]
		if !ok {
			return out
		}
		rd, err := state.NewVldReader(r[1], e.db, true)
		if err != nil {
			return ol(on(0))
		}
		return readerView(rd)
	case "view":
		if st == nil {
			return out
		}
		var v Obs
		if p := guard(func() { v = view(st) }); p != "" {
			return panicObs
		}
		return v
	}
	if st == nil {
		return out
	}
	p := guard(func() {
		switch o.K {
		case "setbalance":
			st.SetBalance(addrOf(o.A), bigOf(o.V))
		case "addbalance":
			st.AddBalance(addrOf(o.A), bigOf(o.V))
		case "setnonce":
			st.SetNonce(addrOf(o.A), o.B)
		case "setcode":
			c := o.Code
			if c == nil {
				c = []byte{}
			}
			st.SetCode(addrOf(o.A), c)
		case "setstate":
			if st.Exist(addrOf(o.A)) {
				st.SetState(addrOf(o.A), hashOf(o.B), common.BigToHash(bigOf(o.V)))
			}
		case "suicide":
			st.Suicide(addrOf(o.A))
		case "create":
			st.CreateAccount(addrOf(o.A))
			st.AddBalance(addrOf(o.A), bigOf(o.V))
		case "upddelegator":
			amt := bigOf(o.V)
			if o.Neg {
				amt.Neg(amt)
			}
			st.UpdateDelegator(addrOf(o.A), valAddr(o.B), amt, o.Del)
		case "createval":
			tmp := state.NewValidator("", common.Address{}, common.Address{}, 1, valKeys[o.Val.Id-1], nil, new(big.Int), new(big.Int), 0, 0, 0, 0)
			applyRec(tmp, o.Val)
			st.CreateValidator(tmp.Name, tmp.OperatorAddress, tmp.Coinbase, tmp.Role, valKeys[o.Val.Id-1], tmp.BlsPubKey, tmp.Token, tmp.Stake, tmp.AcceptDelegation, tmp.CommissionRate, tmp.RiskObligation, tmp.Status)
		case "updateval":
			old := st.GetValidatorByMainAddr(valAddr(o.Val.Id))
			if old != nil {
				nv := old.DeepCopy()
				applyRec(nv, o.Val)
				st.UpdateValidator(nv, old)
			}
		case "removeval":
			st.GetValidatorByMainAddr(valAddr(o.A))
			st.RemoveValidator(valAddr(o.A))
		case "addrewards", "setresidue":
			s, _ := st.GetValidatorsStat()
			var k *state.ValKindStat
			if o.A < 3 {
				k = s.GetByKind(params.ValidatorKind(o.A))
			} else {
				k = s.GetByRole(params.ValidatorRole(o.A - 2))
			}
			if o.K == "addrewards" {
				k.AddRewards(bigOf(o.V))
			} else {
				k.SetRewardsResidue(bigOf(o.V))
			}
		case "addwithdraw":
			st.AddWithdrawRecord(wrecOf(o.Rec))
		case "removewithdraws":
			ix := make([]int, len(o.Idx))
			for j, x := range o.Idx {
				ix[j] = int(x)
			}
			st.RemoveWithdrawRecords(ix)
		case "listvals":
			l := Obs{IsL: true}
			for _, v := range st.GetValidatorsForUpdate() {
				l.L = append(l.L, on(idOfAddr(v.MainAddress())))
			}
			out = l
		case "addsrec":
			var nf *big.Int
			if o.Some {
				nf = bigOf(o.V)
			}
			tx := common.Hash{}
			if o.C != 0 {
				tx = hashOf(o.C)
			}
			st.AddStakingRecord(dlgAddr(o.A), valAddr(o.B), tx, nf)
		case "addprel":
			st.AddPendingRelationship(dlgAddr(o.A), valAddr(o.B))
		case "resetstk":
			st.ResetStakingTrie()
		case "finalise":
			st.Finalise(o.Del)
		case "iroot":
			a, b, c := st.IntermediateRoot(o.Del)
			out = e.showRoots([3]common.Hash{a, b, c})
		default:
			panic("unknown op " + o.K)
		}
	})
	if p != "" {
		return panicObs
	}
	return out
}

func diffObs(a, b Obs) string {
	var walk func(p string, a, b Obs) string
	walk = func(p string, a, b Obs) string {
		if a.IsL != b.IsL {
			return p + ": " + a.String() + " vs " + b.String()
		}
		if !a.IsL {
			if a.N.Cmp(b.N) != 0 {
				return p + ": " + a.String() + " vs " + b.String()
			}
			return ""
		}
		if len(a.L) != len(b.L) {
			return p + ": " + a.String() + " vs " + b.String()
		}
		for i := range a.L {
			if d := walk(fmt.Sprintf("%s.%d", p, i), a.L[i], b.L[i]); d != "" {
				return d
			}
		}
		return ""
	}
	return walk("", a, b)
}
