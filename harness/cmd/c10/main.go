// C10 harness: drives the real core/state.StateDB of the working tree through
// histories of writes, Finalise / IntermediateRoot / Commit, Copy, reopening
// from the committed roots (state.New, NewVldReader) on several handles over
// one database; records what every call shows (for the in-Coq comparison with
// coq/C10/Model.v) and evaluates the property oracle on the implementation's
// own observations: reopened == live, equal content => equal roots, copy ==
// original and independent of it.
package main

import (
	"encoding/json"
	"flag"
	"fmt"
	"io/ioutil"
	"math/big"
	"os"
	"path/filepath"
	"regexp"
	"sort"
	"strings"

	"github.com/youchainhq/go-youchain/common"
	"github.com/youchainhq/go-youchain/common/hexutil"
	"github.com/youchainhq/go-youchain/core/state"
	"github.com/youchainhq/go-youchain/crypto"
	"github.com/youchainhq/go-youchain/logging"
	"github.com/youchainhq/go-youchain/params"
	"github.com/youchainhq/go-youchain/youdb"
	"verif/harness/vf"
)

// ---- data -----------------------------------------------------------------

// Val is a validator record as the model sees it.
type Val struct {
	Id     uint64      `json:"id"`
	Role   uint64      `json:"role"`
	Status uint64      `json:"status"`
	Token  string      `json:"token"`
	Stake  string      `json:"stake"`
	Dlgs   [][3]string `json:"dlgs"` // delegator id, stake, token
	Rest   []string    `json:"rest"`
}

// Op is one call.  K selects it; H is the handle it acts on.
type Op struct {
	K    string   `json:"k"`
	H    uint64   `json:"h"`
	H2   uint64   `json:"h2,omitempty"`
	A    uint64   `json:"a,omitempty"`
	B    uint64   `json:"b,omitempty"`
	C    uint64   `json:"c,omitempty"`
	V    string   `json:"v,omitempty"` // big integer
	Neg  bool     `json:"neg,omitempty"`
	Del  bool     `json:"del,omitempty"`
	Some bool     `json:"some,omitempty"`
	Code []byte   `json:"code,omitempty"`
	Idx  []uint64 `json:"idx,omitempty"`
	Val  *Val     `json:"val,omitempty"`
	Rec  []string `json:"rec,omitempty"`
}

// Assert is one expectation of the property on the outputs of a history.
type Assert struct {
	Kind string `json:"kind"` // eqview | eqroots | reopen_ok
	I    int    `json:"i"`
	J    int    `json:"j"`
	Copy int    `json:"copy"` // index of the MCopy op this expectation depends on, -1 if none
	Why  string `json:"why"`
	Only string `json:"only,omitempty"` // "d1": only finding D1 (delegation list of a copy) may explain a failure
}

type History struct {
	Ops     []Op     `json:"ops"`
	Asserts []Assert `json:"asserts"`
	Comment string   `json:"comment,omitempty"`
}

// Obs is the tree the model's [obs] type mirrors.
type Obs struct {
	N *big.Int
	L []Obs
	IsL bool
}

func on(x uint64) Obs       { return Obs{N: new(big.Int).SetUint64(x)} }
func ob(x *big.Int) Obs     { return Obs{N: new(big.Int).Set(x)} }
func ol(xs ...Obs) Obs      { return Obs{L: xs, IsL: true} }
func onums(xs []uint64) Obs { o := Obs{IsL: true}; for _, x := range xs { o.L = append(o.L, on(x)) }; return o }
func (o Obs) Coq() string {
	if !o.IsL {
		return "ON " + o.N.String()
	}
	xs := make([]string, len(o.L))
	for i, c := range o.L {
		xs[i] = c.Coq()
	}
	return "OL [" + strings.Join(xs, "; ") + "]"
}
func (o Obs) String() string {
	if !o.IsL {
		return o.N.String()
	}
	xs := make([]string, len(o.L))
	for i, c := range o.L {
		xs[i] = c.String()
	}
	return "[" + strings.Join(xs, " ") + "]"
}

var (
	uAccts = []uint64{1, 2, 3, 4, 5, 6}
	uKeys  = []uint64{1, 2, 3}
	uVals  = []uint64{1, 2, 3, 4, 5}
	uDlg   = []uint64{0, 1, 2} // delegator side of staking-record keys (0 = zero address)
	two160 = new(big.Int).Lsh(big.NewInt(1), 160)
)

func addrOf(n uint64) common.Address { return common.BigToAddress(new(big.Int).SetUint64(n)) }
func hashOf(n uint64) common.Hash    { return common.BigToHash(new(big.Int).SetUint64(n)) }
func bigOf(s string) *big.Int {
	if s == "" {
		return new(big.Int)
	}
	b, ok := new(big.Int).SetString(s, 10)
	if !ok {
		panic("bad integer " + s)
	}
	return b
}
func u64Of(s string) uint64 { return bigOf(s).Uint64() }

var valKeys [][]byte
var valAddrs []common.Address
var valIdOf = map[common.Address]uint64{}

func initValidators() {
	type kv struct {
		pk []byte
		a  common.Address
	}
	var l []kv
	for i := int64(0); i < int64(len(uVals)); i++ {
		k, err := crypto.ToECDSA(common.BigToHash(big.NewInt(i + 7101)).Bytes())
		if err != nil {
			panic(err)
		}
		pk := crypto.CompressPubkey(&k.PublicKey)
		l = append(l, kv{pk, state.PubToAddress(pk)})
	}
	sort.Slice(l, func(i, j int) bool { return strings.Compare(string(l[i].a.Bytes()), string(l[j].a.Bytes())) < 0 })
	for i, x := range l {
		valKeys = append(valKeys, x.pk)
		valAddrs = append(valAddrs, x.a)
		valIdOf[x.a] = uint64(i + 1)
	}
}
func valAddr(id uint64) common.Address { return valAddrs[id-1] }
func idOfAddr(a common.Address) uint64 {
	if id, ok := valIdOf[a]; ok {
		return id
	}
	return a.Big().Uint64()
}

// ---- validator records <-> state.Validator ----------------------------------

// rest = operator, coinbase, expelled, expelExpired, lastInactive, selfToken,
// selfStake, rewardsDistributable, rewardsTotal, rewardsLastSettled,
// acceptDelegation, commissionRate, riskObligation, ext.version, ext.data,
// name, blsPubKey
func valRec(v *state.Validator) Val {
	r := Val{Id: idOfAddr(v.MainAddress()), Role: uint64(v.Role), Status: uint64(v.Status), Token: v.Token.String(), Stake: v.Stake.String()}
	for _, d := range v.Delegations {
		r.Dlgs = append(r.Dlgs, [3]string{d.Delegator.Big().String(), d.Stake.String(), d.Token.String()})
	}
	ex := uint64(0)
	if v.Expelled {
		ex = 1
	}
	u := func(x uint64) string { return fmt.Sprintf("%d", x) }
	r.Rest = []string{v.OperatorAddress.Big().String(), v.Coinbase.Big().String(), u(ex), u(v.ExpelExpired), u(v.LastInactive),
		v.SelfToken.String(), v.SelfStake.String(), v.RewardsDistributable.String(), v.RewardsTotal.String(), u(v.RewardsLastSettled),
		u(uint64(v.AcceptDelegation)), u(uint64(v.CommissionRate)), u(uint64(v.RiskObligation)), u(uint64(v.Ext.Version)),
		new(big.Int).SetBytes(v.Ext.Data).String(), new(big.Int).SetBytes([]byte(v.Name)).String(), new(big.Int).SetBytes(v.BlsPubKey).String()}
	return r
}

func bytesOfNum(s string) []byte {
	b := bigOf(s).Bytes()
	if len(b) == 0 {
		return nil
	}
	return b
}

// applyRec overwrites every encoded field of nv with the record.
func applyRec(nv *state.Validator, r *Val) {
	nv.Role = params.ValidatorRole(r.Role)
	nv.Status = uint8(r.Status)
	nv.Token = bigOf(r.Token)
	nv.Stake = bigOf(r.Stake)
	nv.Delegations = make(state.DelegationFroms, 0, len(r.Dlgs))
	for _, d := range r.Dlgs {
		nv.Delegations = append(nv.Delegations, &state.DelegationFrom{Delegator: common.BigToAddress(bigOf(d[0])), Stake: bigOf(d[1]), Token: bigOf(d[2])})
	}
	x := r.Rest
	nv.OperatorAddress = common.BigToAddress(bigOf(x[0]))
	nv.Coinbase = common.BigToAddress(bigOf(x[1]))
	nv.Expelled = u64Of(x[2]) == 1
	nv.ExpelExpired = u64Of(x[3])
	nv.LastInactive = u64Of(x[4])
	nv.SelfToken = bigOf(x[5])
	nv.SelfStake = bigOf(x[6])
	nv.RewardsDistributable = bigOf(x[7])
	nv.RewardsTotal = bigOf(x[8])
	nv.RewardsLastSettled = u64Of(x[9])
	nv.AcceptDelegation = uint16(u64Of(x[10]))
	nv.CommissionRate = uint16(u64Of(x[11]))
	nv.RiskObligation = uint16(u64Of(x[12]))
	nv.Ext.Version = uint8(u64Of(x[13]))
	nv.Ext.Data = hexutil.Bytes(bytesOfNum(x[14]))
	nv.Name = string(bytesOfNum(x[15]))
	nv.BlsPubKey = hexutil.Bytes(bytesOfNum(x[16]))
}

func valObs(r Val) Obs {
	var dl []Obs
	for _, d := range r.Dlgs {
		dl = append(dl, ol(ob(bigOf(d[0])), ob(bigOf(d[1])), ob(bigOf(d[2]))))
	}
	rest := Obs{IsL: true}
	for _, x := range r.Rest {
		rest.L = append(rest.L, ob(bigOf(x)))
	}
	return ol(on(r.Id), on(r.Role), on(r.Status), ob(bigOf(r.Token)), ob(bigOf(r.Stake)), Obs{L: dl, IsL: true}, rest)
}

func wrecOf(rec []string) *state.WithdrawRecord {
	return &state.WithdrawRecord{
		Operator: common.BigToAddress(bigOf(rec[0])), Delegator: common.BigToAddress(bigOf(rec[1])),
		Validator: common.BigToAddress(bigOf(rec[2])), Recipient: common.BigToAddress(bigOf(rec[3])),
		Nonce: u64Of(rec[4]), CreationHeight: u64Of(rec[5]), CompletionHeight: u64Of(rec[6]),
		InitialBalance: bigOf(rec[7]), FinalBalance: bigOf(rec[8]), Finished: uint8(u64Of(rec[9])), TxHash: common.BigToHash(bigOf(rec[10])),
	}
}
func wrecObs(r *state.WithdrawRecord) Obs {
	ib, fb := r.InitialBalance, r.FinalBalance
	if ib == nil {
		ib = new(big.Int)
	}
	if fb == nil {
		fb = new(big.Int)
	}
	return ol(ob(r.Operator.Big()), ob(r.Delegator.Big()), ob(r.Validator.Big()), ob(r.Recipient.Big()), on(r.Nonce), on(r.CreationHeight),
		on(r.CompletionHeight), ob(ib), ob(fb), on(uint64(r.Finished)), ob(r.TxHash.Big()))
}

// ---- the machine: several StateDBs over one database --------------------------

type copyInfo struct {
	MidTx        bool
	DirtyDlgs    bool
	PendingDirty bool
}

type env struct {
	disk   *youdb.MemDatabase
	db     state.Database
	hs     map[uint64]*state.StateDB
	last   map[uint64][3]common.Hash
	hist   map[uint64][][3]common.Hash // every Commit of a handle, oldest first
	seen   [3]map[common.Hash]uint64
	copies map[int]copyInfo // op index -> state of the original when it was copied
	cold   []string         // cold-reopen failures (oracle only)
}

func newEnv() *env {
	disk := youdb.NewMemDatabase()
	db := state.NewDatabase(disk)
	st, err := state.New(common.Hash{}, common.Hash{}, common.Hash{}, db)
	if err != nil {
		panic(err)
	}
	e := &env{disk: disk, db: db, hs: map[uint64]*state.StateDB{0: st}, last: map[uint64][3]common.Hash{}, hist: map[uint64][][3]common.Hash{}, copies: map[int]copyInfo{}}
	for i := range e.seen {
		e.seen[i] = map[common.Hash]uint64{}
	}
	return e
}

func (e *env) showRoots(r [3]common.Hash) Obs {
	var ids []uint64
	for i := 0; i < 3; i++ {
		id, ok := e.seen[i][r[i]]
		if !ok {
			id = uint64(len(e.seen[i]))
			e.seen[i][r[i]] = id
		}
		ids = append(ids, id)
	}
	return onums(ids)
}

func guard(f func()) (panicked string) {
	defer func() {
		if r := recover(); r != nil {
			panicked = fmt.Sprint(r)
		}
	}()
	f()
	return ""
}

var panicObs = ol(on(0))

func valsPart(st interface {
	GetValidatorByMainAddr(common.Address) *state.Validator
}) Obs {
	o := Obs{IsL: true}
	for _, id := range uVals {
		v := st.GetValidatorByMainAddr(valAddr(id))
		if v == nil {
			o.L = append(o.L, ol())
		} else {
			o.L = append(o.L, valObs(valRec(v)))
		}
	}
	return o
}

func statObs(s *state.ValidatorsStat) Obs {
	o := Obs{IsL: true}
	item := func(k *state.ValKindStat) Obs {
		return ol(ob(k.GetOnlineStake()), ob(k.GetOnlineToken()), on(k.GetCount()), ob(k.GetOfflineStake()), ob(k.GetOfflineToken()),
			on(k.GetOfflineCount()), ob(k.GetRewardsResidue()), ob(k.GetRewardsDistributable()))
	}
	for _, k := range []params.ValidatorKind{params.KindValidator, params.KindChamber, params.KindHouse} {
		o.L = append(o.L, item(s.GetByKind(k)))
	}
	for _, r := range []params.ValidatorRole{params.RoleChancellor, params.RoleSenator, params.RoleHouse} {
		o.L = append(o.L, item(s.GetByRole(r)))
	}
	return o
}

func biNum(d, v common.Address) *big.Int {
	x := new(big.Int).Mul(d.Big(), two160)
	return x.Add(x, new(big.Int).SetUint64(idOfAddr(v)))
}

func pairsU() [][2]uint64 {
	var ps [][2]uint64
	for _, d := range uDlg {
		for _, v := range uVals {
			ps = append(ps, [2]uint64{d, v})
		}
	}
	return ps
}
func dlgAddr(d uint64) common.Address {
	if d == 0 {
		return common.Address{}
	}
	return addrOf(d)
}

// view reads everything the property speaks about from one StateDB.
func view(st *state.StateDB) Obs {
	accts := Obs{IsL: true}
	for _, a := range uAccts {
		addr := addrOf(a)
		if !st.Exist(addr) {
			accts.L = append(accts.L, ol())
			continue
		}
		var stor []Obs
		for _, k := range uKeys {
			stor = append(stor, ob(st.GetState(addr, hashOf(k)).Big()))
		}
		code := Obs{IsL: true}
		for _, c := range st.GetCode(addr) {
			code.L = append(code.L, on(uint64(c)))
		}
		dl := ol()
		if p := guard(func() {
			_, l, _ := st.VerifC10Delegations(addr)
			ids := Obs{IsL: true}
			for _, x := range l {
				ids.L = append(ids.L, on(idOfAddr(x)))
			}
			dl = ol(ids)
		}); p != "" {
			dl = ol()
		}
		accts.L = append(accts.L, ol(on(st.GetNonce(addr)), ob(st.GetBalance(addr)), code, Obs{L: stor, IsL: true}, ob(st.VerifC10DelegationBalance(addr)), dl))
	}
	idx := Obs{IsL: true}
	for _, a := range st.VerifC10Index() {
		idx.L = append(idx.L, on(idOfAddr(a)))
	}
	stat, _ := st.GetValidatorsStat()
	q := Obs{IsL: true}
	for _, r := range st.GetWithdrawQueue().Records {
		q.L = append(q.L, wrecObs(r))
	}
	mod := uint64(0)
	if st.ValidatorsModified() {
		mod = 1
	}
	vpart := ol(valsPart(st), idx, statObs(stat), q, on(mod))
	recs := Obs{IsL: true}
	for _, p := range pairsU() {
		r := st.GetStakingRecord(dlgAddr(p[0]), valAddr(p[1]))
		if r == nil {
			recs.L = append(recs.L, ol())
		} else {
			th := Obs{IsL: true}
			for _, h := range r.TxHashes {
				th.L = append(th.L, ob(h.Big()))
			}
			recs.L = append(recs.L, ol(ob(r.FinalValue), th))
		}
	}
	prel := Obs{IsL: true}
	for _, p := range st.VerifC10Prel() {
		prel.L = append(prel.L, ob(biNum(p[0], p[1])))
	}
	return ol(accts, vpart, ol(recs, prel))
}

func readerView(rd state.ValidatorReader) Obs {
	stat, _ := rd.GetValidatorsStat()
	return ol(valsPart(rd), statObs(stat))
}

// coldReopen flushes the three committed roots to the disk database and opens
// them through a fresh state database (no shared caches).
func (e *env) coldReopen(r [3]common.Hash) (*state.StateDB, error) {
	for _, h := range r {
		if h == (common.Hash{}) {
			continue
		}
		if err := e.db.TrieDB().Commit(h, false); err != nil {
			return nil, err
		}
	}
	return state.New(r[0], r[1], r[2], state.NewDatabase(e.disk))
}

// exec performs one op and returns what it shows.
func (e *env) exec(i int, o Op) Obs {
	st := e.hs[o.H]
	out := ol()
	switch o.K {
	case "commit":
		if st == nil {
			return out
		}
		var r [3]common.Hash
		var err error
		if p := guard(func() { r[0], r[1], r[2], err = st.Commit(o.Del) }); p != "" || err != nil {
			return panicObs
		}
		e.last[o.H] = r
		e.hist[o.H] = append(e.hist[o.H], r)
		return e.showRoots(r)
	case "roots":
		if st == nil {
			return out
		}
		return e.showRoots(st.VerifC10Roots())
	case "copy":
		if st == nil {
			return out
		}
		ci := st.VerifC10CopyInfo()
		e.copies[i] = copyInfo{MidTx: len(ci.JournalDirty) > 0 || len(ci.ValJournal) > 0, DirtyDlgs: len(ci.DirtyDlgs) > 0, PendingDirty: len(ci.PendingDirty) > 0}
		if p := guard(func() { e.hs[o.H2] = st.Copy() }); p != "" {
			return panicObs
		}
		return out
	case "reopen", "reopenat":
		r, ok := e.last[o.H]
		if o.K == "reopenat" {
			ok = o.B < uint64(len(e.hist[o.H]))
			if ok {
				r = e.hist[o.H][o.B]
			}
		}
		if !ok {
			return out
		}
		ns, err := state.New(r[0], r[1], r[2], e.db)
		if err != nil {
			return ol(on(0))
		}
		e.hs[o.H2] = ns
		// oracle only: the same roots through the disk database
		cs, err := e.coldReopen(r)
		if err != nil {
			e.cold = append(e.cold, fmt.Sprintf("op %d: cold reopen failed: %v", i, err))
		} else {
			for _, ac := range uAccts {
				addr := addrOf(ac)
				if cs.Exist(addr) && cs.GetCodeHash(addr) != crypto.Keccak256Hash(nil) {
					if len(cs.GetCode(addr)) == 0 || cs.GetCodeSize(addr) != len(cs.GetCode(addr)) {
						e.cold = append(e.cold, fmt.Sprintf("op %d: the code hash of account %d names no code in the database", i, ac))
					}
				}
			}
			var a, b Obs
			if p := guard(func() { a, b = view(ns), view(cs) }); p != "" {
				e.cold = append(e.cold, fmt.Sprintf("op %d: panic reading reopened state: %s", i, p))
			} else if a.String() != b.String() {
				e.cold = append(e.cold, fmt.Sprintf("op %d: state reopened from disk differs from state reopened from the node cache: %s", i, diffObs(a, b)))
			}
		}
		return ol(on(1))
	case "reader":
		r, ok := e.last[o.H]
		if !ok {
			return out
		}
		rd, err := state.NewVldReader(r[1], e.db, true)
		if err != nil {
			return ol(on(0))
		}
		return readerView(rd)
	case "view":
		if st == nil {
			return out
		}
		var v Obs
		if p := guard(func() { v = view(st) }); p != "" {
			return panicObs
		}
		return v
	}
	if st == nil {
		return out
	}
	p := guard(func() {
		switch o.K {
		case "setbalance":
			st.SetBalance(addrOf(o.A), bigOf(o.V))
		case "addbalance":
			st.AddBalance(addrOf(o.A), bigOf(o.V))
		case "setnonce":
			st.SetNonce(addrOf(o.A), o.B)
		case "setcode":
			c := o.Code
			if c == nil {
				c = []byte{}
			}
			st.SetCode(addrOf(o.A), c)
		case "setstate":
			if st.Exist(addrOf(o.A)) {
				st.SetState(addrOf(o.A), hashOf(o.B), common.BigToHash(bigOf(o.V)))
			}
		case "suicide":
			st.Suicide(addrOf(o.A))
		case "create":
			st.CreateAccount(addrOf(o.A))
			st.SetNonce(addrOf(o.A), 1)
			st.AddBalance(addrOf(o.A), bigOf(o.V))
		case "upddelegator":
			amt := bigOf(o.V)
			if o.Neg {
				amt.Neg(amt)
			}
			st.UpdateDelegator(addrOf(o.A), valAddr(o.B), amt, o.Del)
		case "createval":
			tmp := state.NewValidator("", common.Address{}, common.Address{}, 1, valKeys[o.Val.Id-1], nil, new(big.Int), new(big.Int), 0, 0, 0, 0)
			applyRec(tmp, o.Val)
			st.CreateValidator(tmp.Name, tmp.OperatorAddress, tmp.Coinbase, tmp.Role, valKeys[o.Val.Id-1], tmp.BlsPubKey, tmp.Token, tmp.Stake, tmp.AcceptDelegation, tmp.CommissionRate, tmp.RiskObligation, tmp.Status)
		case "updateval":
			old := st.GetValidatorByMainAddr(valAddr(o.Val.Id))
			if old != nil {
				nv := old.DeepCopy()
				applyRec(nv, o.Val)
				st.UpdateValidator(nv, old)
			}
		case "removeval":
			st.GetValidatorByMainAddr(valAddr(o.A))
			st.RemoveValidator(valAddr(o.A))
		case "addrewards", "setresidue":
			s, _ := st.GetValidatorsStat()
			var k *state.ValKindStat
			if o.A < 3 {
				k = s.GetByKind(params.ValidatorKind(o.A))
			} else {
				k = s.GetByRole(params.ValidatorRole(o.A - 2))
			}
			if o.K == "addrewards" {
				k.AddRewards(bigOf(o.V))
			} else {
				k.SetRewardsResidue(bigOf(o.V))
			}
		case "addwithdraw":
			st.AddWithdrawRecord(wrecOf(o.Rec))
		case "removewithdraws":
			ix := make([]int, len(o.Idx))
			for j, x := range o.Idx {
				ix[j] = int(x)
			}
			st.RemoveWithdrawRecords(ix)
		case "editwd":
			// what staking/endblock.go and staking/slash.go do: edit a record of the live queue in place
			q := st.GetWithdrawQueue()
			if int(o.A) < len(q.Records) {
				rec := q.Records[o.A]
				if o.B == 9 {
					rec.Finished = uint8(u64Of(o.V))
				} else {
					rec.FinalBalance.Set(bigOf(o.V))
				}
			}
		case "listvals":
			l := Obs{IsL: true}
			for _, v := range st.GetValidatorsForUpdate() {
				l.L = append(l.L, on(idOfAddr(v.MainAddress())))
			}
			out = l
		case "addsrec":
			var nf *big.Int
			if o.Some {
				nf = bigOf(o.V)
			}
			tx := common.Hash{}
			if o.C != 0 {
				tx = hashOf(o.C)
			}
			st.AddStakingRecord(dlgAddr(o.A), valAddr(o.B), tx, nf)
		case "addprel":
			st.AddPendingRelationship(dlgAddr(o.A), valAddr(o.B))
		case "resetstk":
			st.ResetStakingTrie()
		case "finalise":
			st.Finalise(o.Del)
		case "iroot":
			a, b, c := st.IntermediateRoot(o.Del)
			out = e.showRoots([3]common.Hash{a, b, c})
		default:
			panic("unknown op " + o.K)
		}
	})
	if p != "" {
		return panicObs
	}
	return out
}

func diffObs(a, b Obs) string {
	var walk func(p string, a, b Obs) string
	walk = func(p string, a, b Obs) string {
		if a.IsL != b.IsL {
			return p + ": " + a.String() + " vs " + b.String()
		}
		if !a.IsL {
			if a.N.Cmp(b.N) != 0 {
				return p + ": " + a.String() + " vs " + b.String()
			}
			return ""
		}
		if len(a.L) != len(b.L) {
			return p + ": " + a.String() + " vs " + b.String()
		}
		for i := range a.L {
			if d := walk(fmt.Sprintf("%s.%d", p, i), a.L[i], b.L[i]); d != "" {
				return d
			}
		}
		return ""
	}
	return walk("", a, b)
}

// ---- Coq syntax ------------------------------------------------------------------

func nl(xs []string) string { return "[" + strings.Join(xs, "; ") + "]" }
func u64s(xs []uint64) string {
	ys := make([]string, len(xs))
	for i, x := range xs {
		ys[i] = fmt.Sprintf("%d", x)
	}
	return nl(ys)
}
func bstr(s string) string {
	if s == "" {
		return "0"
	}
	return s
}
func valCoq(v *Val) string {
	var dl []string
	for _, d := range v.Dlgs {
		dl = append(dl, fmt.Sprintf("(%s, %s, %s)", d[0], d[1], d[2]))
	}
	return fmt.Sprintf("(mkVal %d %d %d %s %s %s %s false)", v.Id, v.Role, v.Status, bstr(v.Token), bstr(v.Stake), nl(dl), nl(v.Rest))
}
func sopCoq(o Op) string {
	switch o.K {
	case "setbalance":
		return fmt.Sprintf("OSetBalance %d %s", o.A, bstr(o.V))
	case "addbalance":
		return fmt.Sprintf("OAddBalance %d %s", o.A, bstr(o.V))
	case "setnonce":
		return fmt.Sprintf("OSetNonce %d %d", o.A, o.B)
	case "setcode":
		xs := make([]uint64, len(o.Code))
		for i, c := range o.Code {
			xs[i] = uint64(c)
		}
		return fmt.Sprintf("OSetCode %d %s", o.A, u64s(xs))
	case "setstate":
		return fmt.Sprintf("OSetState %d %d %s", o.A, o.B, bstr(o.V))
	case "suicide":
		return fmt.Sprintf("OSuicide %d", o.A)
	case "create":
		return fmt.Sprintf("OCreate %d %s", o.A, bstr(o.V))
	case "upddelegator":
		return fmt.Sprintf("OUpdDelegator %d %d %s %s %s", o.A, o.B, vf.Bool(o.Neg), bstr(o.V), vf.Bool(o.Del))
	case "createval":
		return "OCreateVal " + valCoq(o.Val)
	case "updateval":
		return "OUpdateVal " + valCoq(o.Val)
	case "removeval":
		return fmt.Sprintf("ORemoveVal %d", o.A)
	case "addrewards":
		return fmt.Sprintf("OAddRewards %d %s", o.A, bstr(o.V))
	case "setresidue":
		return fmt.Sprintf("OSetResidue %d %s", o.A, bstr(o.V))
	case "addwithdraw":
		return "OAddWithdraw " + nl(o.Rec)
	case "removewithdraws":
		return "ORemoveWithdraws " + u64s(o.Idx)
	case "editwd":
		return fmt.Sprintf("OEditWithdraw %d %d %s", o.A, o.B, bstr(o.V))
	case "listvals":
		return "OListVals"
	case "addsrec":
		nf := "None"
		if o.Some {
			nf = "(Some " + bstr(o.V) + ")"
		}
		return fmt.Sprintf("OAddSRec %d %d %d %s", o.A, o.B, o.C, nf)
	case "addprel":
		return fmt.Sprintf("OAddPRel %d %d", o.A, o.B)
	case "resetstk":
		return "OResetStk"
	case "finalise":
		return "OFinalise " + vf.Bool(o.Del)
	case "iroot":
		return "OIRoot " + vf.Bool(o.Del)
	}
	panic("sopCoq " + o.K)
}
func mopCoq(o Op) string {
	switch o.K {
	case "commit":
		return fmt.Sprintf("MCommit %d %s", o.H, vf.Bool(o.Del))
	case "roots":
		return fmt.Sprintf("MRoots %d", o.H)
	case "copy":
		return fmt.Sprintf("MCopy %d %d", o.H, o.H2)
	case "reopen":
		return fmt.Sprintf("MReopen %d %d", o.H, o.H2)
	case "reopenat":
		return fmt.Sprintf("MReopenAt %d %d %d", o.H, o.B, o.H2)
	case "reader":
		return fmt.Sprintf("MReader %d", o.H)
	case "view":
		return fmt.Sprintf("MView %d", o.H)
	}
	return fmt.Sprintf("MS %d (%s)", o.H, sopCoq(o))
}

type flags struct{ KeepDlgs, DirtyAlways bool }

func universeCoq() string {
	var ps []string
	for _, p := range pairsU() {
		ps = append(ps, fmt.Sprintf("(%d, %d)", p[0], p[1]))
	}
	return fmt.Sprintf("mkU %s %s %s %s", u64s(uAccts), u64s(uKeys), u64s(uVals), nl(ps))
}

// ---- running a history and evaluating the property on it ------------------------------

var dlgsPath = regexp.MustCompile(`^\.0\.\d+\.5`)

const (
	keyD1 = "a copy loses the uncommitted delegation list of an account (stateObject.deepCopy drops delegations and dirtyDlgs)"
	keyD2 = "a copy taken between Finalise and IntermediateRoot is not marked dirty: committing the copy does not store code and storage (StateDB.Copy)"
)

type hit struct {
	What    string   `json:"what"`
	Detail  string   `json:"detail"`
	History *History `json:"history"`
}

type runResult struct {
	outs    [][]Obs
	hits    []hit
	skipped int // expectations not evaluated because the copy was taken inside a transaction
	checked map[string]int
}

func flat(outs [][]Obs) ([]Obs, []int) {
	var f []Obs
	pos := make([]int, len(outs))
	for i, o := range outs {
		pos[i] = len(f)
		f = append(f, o...)
	}
	return f, pos
}

func isPanic(o Obs) bool { return o.IsL && len(o.L) == 1 && !o.L[0].IsL && o.L[0].N.Sign() == 0 }

// execOp runs one op; "delegate" maps to two model ops (UpdateValidator, UpdateDelegator).
func execOp(e *env, i int, o *Op) []Obs {
	if o.K != "delegate" {
		return []Obs{e.exec(i, *o)}
	}
	st := e.hs[o.H]
	if st == nil {
		o.Some = false
		return nil
	}
	val := st.GetValidatorByMainAddr(valAddr(o.B))
	if val == nil {
		o.Some = false
		return nil
	}
	amt := bigOf(o.V)
	if o.Neg {
		amt.Neg(amt)
	}
	var nv *state.Validator
	var status params.CurdFlag
	var df *state.DelegationFrom
	p := guard(func() { nv, df, _, status = st.UpdateDelegation(addrOf(o.A), val, amt) })
	if p != "" {
		nv = st.GetValidatorByMainAddr(valAddr(o.B))
		r := valRec(nv)
		o.Val, o.Some, o.Del = &r, true, false
		return []Obs{ol(), panicObs}
	}
	if df == nil { // nothing happened
		o.Some = false
		return nil
	}
	r := valRec(nv)
	o.Val, o.Some, o.Del = &r, true, status == params.Delete
	return []Obs{ol(), ol()}
}

// content drops what is not content from a view: the validatorsStatModified flag
// (run-time state) and the raw in-memory validator index (bookkeeping: between
// flushes GetValidatorsForUpdate may shrink it to the persisted index and Copy
// re-adds dirty validators; after a flush it is the set of stored validators).
func content(v Obs) Obs {
	if len(v.L) != 3 || len(v.L[1].L) != 5 {
		return v
	}
	return ol(v.L[0], ol(v.L[1].L[0], v.L[1].L[2], v.L[1].L[3]), v.L[2])
}

// copyView: what a copy must share with its original: content plus the modified flag.
func copyView(v Obs) Obs {
	if len(v.L) != 3 || len(v.L[1].L) != 5 {
		return v
	}
	return ol(v.L[0], ol(v.L[1].L[0], v.L[1].L[2], v.L[1].L[3], v.L[1].L[4]), v.L[2])
}

func runHistory(h *History) *runResult {
	e := newEnv()
	res := &runResult{checked: map[string]int{}}
	origin := map[uint64]int{0: -1}
	lineage := func(hd uint64) copyInfo {
		if c, ok := origin[hd]; ok && c >= 0 {
			return e.copies[c]
		}
		return copyInfo{}
	}
	add := func(what, detail string) { res.hits = append(res.hits, hit{what, detail, h}) }
	attribute := func(ci copyInfo, generic, detail string) {
		switch {
		case ci.MidTx:
			res.skipped++
		case ci.DirtyDlgs:
			add(keyD1, detail)
		case ci.PendingDirty:
			add(keyD2, detail)
		default:
			add(generic, detail)
		}
	}
	lineageAt := make([]copyInfo, len(h.Ops))
	for i := range h.Ops {
		o := &h.Ops[i]
		lineageAt[i] = lineage(o.H)
		outs := execOp(e, i, o)
		res.outs = append(res.outs, outs)
		switch o.K {
		case "copy":
			ci := e.copies[i]
			pi := lineage(o.H)
			ci.MidTx, ci.DirtyDlgs, ci.PendingDirty = ci.MidTx || pi.MidTx, ci.DirtyDlgs || pi.DirtyDlgs, ci.PendingDirty || pi.PendingDirty
			e.copies[i] = ci
			origin[o.H2] = i
		case "reopen", "reopenat":
			if _, ok := e.last[o.H]; ok {
				origin[o.H2] = origin[o.H] // what the commit lost stays lost
			}
		}
		for _, out := range outs {
			if isPanic(out) {
				attribute(lineage(o.H), "a call panicked", fmt.Sprintf("op %d (%s) panicked", i, o.K))
			}
		}
	}
	for _, c := range e.cold {
		add("a committed state cannot be reopened from the disk database as it was", c)
	}
	f, pos := flat(res.outs)
	get := func(i int) Obs { return f[pos[i]] }
	// stated expectations
	for _, a := range h.Asserts {
		if a.I >= len(h.Ops) || a.J >= len(h.Ops) || len(res.outs[a.I]) == 0 || len(res.outs[a.J]) == 0 {
			continue
		}
		x, y := get(a.I), get(a.J)
		ci := copyInfo{}
		if a.Copy >= 0 {
			ci = e.copies[a.Copy]
		}
		res.checked[a.Kind]++
		switch a.Kind {
		case "eqview", "eqroots", "eqcontent", "eqcopy":
			if a.Kind == "eqcontent" {
				x, y = content(x), content(y)
			}
			if a.Kind == "eqcopy" {
				x, y = copyView(x), copyView(y)
			}
			if d := diffObs(x, y); d != "" {
				detail := fmt.Sprintf("outputs %d and %d differ at %s", a.I, a.J, d)
				if a.Only == "generic" {
					add(a.Why, detail)
				} else if a.Only == "d1" {
					// the other side's commit may store the list a defective copy lacks
					if ci.DirtyDlgs && dlgsPath.MatchString(d) {
						add(keyD1, detail)
					} else {
						add(a.Why, detail)
					}
				} else {
					attribute(ci, a.Why, detail)
				}
			}
		case "eqreader":
			// x = reader view, y = full view
			if len(y.L) == 3 {
				want := ol(y.L[1].L[0], y.L[1].L[2])
				if d := diffObs(x, want); d != "" {
					if a.Only == "generic" {
						add(a.Why, fmt.Sprintf("outputs %d and %d differ at %s", a.I, a.J, d))
					} else {
						attribute(ci, a.Why, fmt.Sprintf("outputs %d and %d differ at %s", a.I, a.J, d))
					}
				}
			}
		}
	}
	// equal content => equal roots, over every (flush, view) pair of the history
	type fp struct {
		roots string
		at    int
	}
	seen := map[string]fp{}
	for i := 0; i+1 < len(h.Ops); i++ {
		a, b := h.Ops[i], h.Ops[i+1]
		if (a.K == "iroot" || a.K == "commit") && b.K == "view" && a.H == b.H && len(res.outs[i]) == 1 && len(res.outs[i+1]) == 1 {
			v := get(i + 1)
			if len(v.L) != 3 || isPanic(get(i)) {
				continue
			}
			// a state descending from a copy the findings apply to does not show all it holds
			if li := lineageAt[i]; li.DirtyDlgs || li.PendingDirty {
				continue
			}
			key := content(v).String()
			r := get(i).String()
			if p, ok := seen[key]; ok {
				res.checked["content_roots"]++
				if p.roots != r {
					add("two states with equal content have different roots", fmt.Sprintf("flush at op %d and flush at op %d show the same content but roots %s vs %s", p.at, i, p.roots, r))
				}
			} else {
				seen[key] = fp{r, i}
			}
		}
	}
	return res
}

// ---- generator ----------------------------------------------------------------------------

type genr struct {
	r       *vf.Rng
	e       *env
	h       *History
	nextH   uint64
	noZero  bool           // no validator with zero token and stake (the flush deletes those: IntermediateRoot placement matters)
	removed map[uint64]int // RemoveValidator calls on a handle since its last flush
	origin  map[uint64]int
	res     *vf.Result
}

func newGen(r *vf.Rng, res *vf.Result) *genr {
	return &genr{r: r, e: newEnv(), h: &History{}, nextH: 1, removed: map[uint64]int{}, origin: map[uint64]int{0: -1}, res: res}
}

func (g *genr) do(o Op) int {
	i := len(g.h.Ops)
	g.h.Ops = append(g.h.Ops, o)
	execOp(g.e, i, &g.h.Ops[i])
	switch o.K {
	case "iroot", "commit":
		g.removed[o.H] = 0
	case "copy":
		g.removed[o.H2] = g.removed[o.H]
		g.origin[o.H2] = i
	case "reopen", "reopenat":
		g.removed[o.H2] = 0
		g.origin[o.H2] = g.origin[o.H]
	}
	g.res.Count("op_" + o.K)
	return i
}
func (g *genr) expect(kind string, i, j, cp int, why string) {
	g.h.Asserts = append(g.h.Asserts, Assert{Kind: kind, I: i, J: j, Copy: cp, Why: why})
}
func (g *genr) fresh() uint64 { x := g.nextH; g.nextH++; return x }

var unit = new(big.Int).Set(params.StakeUint)

func (g *genr) amt() string {
	switch g.r.Intn(12) {
	case 0:
		return "0"
	case 1:
		return "18446744073709551615"
	case 2:
		return "18446744073709551616"
	case 3:
		return new(big.Int).Lsh(big.NewInt(1), 255).String()
	case 4, 5:
		return new(big.Int).Mul(unit, big.NewInt(int64(1+g.r.Intn(5)))).String()
	case 6, 7, 8, 9:
		return fmt.Sprintf("%d", 1+g.r.Intn(3)) // small pool: the same value is written again and again
	default:
		return fmt.Sprintf("%d", 1+g.r.Intn(1000))
	}
}

// code: mostly from a small pool, so that an account gets byte-identical code twice
// in one commit window, A-B-A sequences, and several accounts the same code.
var codePool = [][]byte{{}, {1}, {2, 3}, {96, 0, 96, 0}}

func (g *genr) code() []byte {
	if g.r.Chance(80) {
		return codePool[g.r.Intn(len(codePool))]
	}
	return g.r.Bytes(g.r.Intn(4))
}
func (g *genr) acct() uint64 { return uAccts[g.r.Intn(len(uAccts))] }
func (g *genr) vid() uint64 {
	if g.r.Chance(70) {
		return uint64(1 + g.r.Intn(3))
	}
	return uVals[g.r.Intn(len(uVals))]
}

// bigInvalid: IsInvalid() looks at the low 64 bits only; such a validator is deleted
// by the flush although its token is subtracted from the statistics.  Together
// with a RemoveValidator'd validator (subtracted twice, clamped) the statistics
// would depend on Go's map order, so the generator keeps the two apart.
func bigInvalid(v *state.Validator) bool { return v != nil && v.IsInvalid() && (v.Token.Sign() != 0 || v.Stake.Sign() != 0) }

func (g *genr) anyBigInvalid(hd uint64) bool {
	st := g.e.hs[hd]
	for _, id := range uVals {
		if bigInvalid(st.GetValidatorByMainAddr(valAddr(id))) {
			return true
		}
	}
	return false
}

func (g *genr) newValRec(id uint64) *Val { return g.newValRecOn(0, id, false) }

func (g *genr) newValRecOn(hd, id uint64, noBig bool) *Val {
	stake := int64(g.r.Intn(6))
	tok := new(big.Int).Mul(unit, big.NewInt(stake))
	tok.Add(tok, big.NewInt(int64(g.r.Intn(3))))
	switch g.r.Intn(10) {
	case 0:
		if !g.noZero {
			tok, stake = new(big.Int), 0
		}
	case 1:
		if !noBig {
			tok, stake = new(big.Int).Lsh(big.NewInt(1), 64), 0 // Uint64() == 0
		}
	}
	if g.noZero && tok.Sign() == 0 && stake == 0 {
		tok = big.NewInt(1)
	}
	v := state.NewValidator(string([]byte{byte('a' + g.r.Intn(3))}), addrOf(g.acct()), addrOf(g.acct()), params.ValidatorRole(1+g.r.Intn(3)),
		valKeys[id-1], g.r.Bytes(g.r.Intn(3)), tok, big.NewInt(stake), uint16(g.r.Intn(2)), uint16(g.r.Intn(100)), uint16(g.r.Intn(100)), uint8(g.r.Intn(2)))
	r := valRec(v)
	return &r
}

// mutateVal returns a changed copy of the current record of validator id on handle hd.
func (g *genr) mutateVal(hd, id uint64) *Val {
	st := g.e.hs[hd]
	old := st.GetValidatorByMainAddr(valAddr(id))
	if old == nil {
		return g.newValRec(id)
	}
	if g.r.Chance(15) { // the identical record once more
		r := valRec(old)
		return &r
	}
	nv := old.DeepCopy()
	n := 1 + g.r.Intn(3)
	for i := 0; i < n; i++ {
		switch g.r.Intn(11) {
		case 0:
			nv.Status = 1 - nv.Status
		case 1:
			nv.Role = params.ValidatorRole(1 + g.r.Intn(3))
		case 2:
			k := big.NewInt(int64(1 + g.r.Intn(3)))
			nv.Stake.Add(nv.Stake, k)
			nv.Token.Add(nv.Token, new(big.Int).Mul(k, unit))
		case 3:
			if !g.noZero {
				nv.Token, nv.Stake = new(big.Int), new(big.Int)
			}
		case 4:
			nv.Expelled = !nv.Expelled
			nv.ExpelExpired = uint64(g.r.Intn(100))
		case 5:
			nv.AddTotalRewards(big.NewInt(int64(g.r.Intn(500))))
			nv.RewardsLastSettled = uint64(g.r.Intn(100))
		case 6:
			nv.UpdateLastActive(uint64(1 + g.r.Intn(100000)))
		case 7:
			nv.Coinbase = addrOf(g.acct())
			nv.CommissionRate = uint16(g.r.Intn(10000))
		case 8:
			nv.LastInactive = uint64(g.r.Intn(100))
		default:
			d := addrOf(uint64(1 + g.r.Intn(3)))
			k := int64(g.r.Intn(3))
			nv.UpdateDelegationFrom(&state.DelegationFrom{Delegator: d, Stake: big.NewInt(k), Token: new(big.Int).Mul(unit, big.NewInt(k))})
		}
	}
	r := valRec(nv)
	return &r
}

func (g *genr) wrec() []string {
	u := func(x int) string { return fmt.Sprintf("%d", x) }
	return []string{u(int(g.acct())), u(int(g.acct())), u(g.r.Intn(9)), u(int(g.acct())), u(g.r.Intn(50)), u(g.r.Intn(100)), u(g.r.Intn(200)),
		g.amt(), g.amt(), u(g.r.Intn(2)), u(g.r.Intn(1000))}
}

// write emits one random state-changing call on handle hd.
func (g *genr) write(hd uint64) {
	st := g.e.hs[hd]
	if st == nil {
		return
	}
	a := g.acct()
	switch k := g.r.Intn(100); {
	case k < 10:
		g.do(Op{K: "setbalance", H: hd, A: a, V: g.amt()})
	case k < 16:
		g.do(Op{K: "addbalance", H: hd, A: a, V: g.amt()})
	case k < 22:
		g.do(Op{K: "setnonce", H: hd, A: a, B: uint64(g.r.Intn(4))})
	case k < 28:
		c := g.code()
		g.do(Op{K: "setcode", H: hd, A: a, Code: c})
		if g.r.Chance(30) { // the same code once more, perhaps after a Finalise / IntermediateRoot, perhaps A-B-A
			switch g.r.Intn(4) {
			case 0:
				g.do(Op{K: "finalise", H: hd, Del: g.del()})
			case 1:
				g.do(Op{K: "iroot", H: hd, Del: g.del()})
			case 2:
				g.do(Op{K: "setcode", H: hd, A: a, Code: g.code()})
			}
			g.do(Op{K: "setcode", H: hd, A: a, Code: c})
		}
	case k < 42:
		v := "0"
		if g.r.Chance(70) {
			v = g.amt()
		}
		k := uKeys[g.r.Intn(len(uKeys))]
		g.do(Op{K: "setstate", H: hd, A: a, B: k, V: v})
		if g.r.Chance(20) { // A-B-A or the same value again, with or without a Finalise between
			if g.r.Bool() {
				g.do(Op{K: "setstate", H: hd, A: a, B: k, V: g.amt()})
			}
			if g.r.Chance(30) {
				g.do(Op{K: "finalise", H: hd, Del: g.del()})
			}
			g.do(Op{K: "setstate", H: hd, A: a, B: k, V: v})
		}
	case k < 45:
		g.do(Op{K: "suicide", H: hd, A: a})
	case k < 48:
		v := "0"
		if g.r.Bool() {
			v = g.amt()
		}
		g.do(Op{K: "create", H: hd, A: a, V: v})
	case k < 53:
		g.do(Op{K: "upddelegator", H: hd, A: a, B: g.vid(), Neg: false, V: fmt.Sprintf("%d", g.r.Intn(50)), Del: g.r.Chance(35)})
	case k < 61:
		d, id := uint64(1+g.r.Intn(3)), g.vid()
		amt := new(big.Int).Mul(unit, big.NewInt(int64(1+g.r.Intn(2))))
		neg := g.r.Chance(40)
		if neg { // only withdraw what is there: integers in the state stay non-negative
			ok := false
			if val := st.GetValidatorByMainAddr(valAddr(id)); val != nil {
				if df := val.GetDelegationFrom(addrOf(d)); df != nil && df.Token.Cmp(amt) >= 0 && val.Token.Cmp(amt) >= 0 &&
					val.Stake.Cmp(df.Stake) >= 0 && st.VerifC10DelegationBalance(addrOf(d)).Cmp(amt) >= 0 {
					ok = true
				}
			}
			neg = ok
		}
		g.do(Op{K: "delegate", H: hd, A: d, B: id, Neg: neg, V: amt.String()})
	case k < 69:
		id := g.vid()
		g.do(Op{K: "createval", H: hd, Val: g.newValRecOn(hd, id, g.removed[hd] > 0)})
	case k < 78:
		id := g.vid()
		g.do(Op{K: "updateval", H: hd, Val: g.mutateVal(hd, id)})
	case k < 80:
		if g.removed[hd] == 0 && !g.anyBigInvalid(hd) {
			g.removed[hd]++
			g.do(Op{K: "removeval", H: hd, A: g.vid()})
		}
	case k < 83:
		g.do(Op{K: "addrewards", H: hd, A: uint64(g.r.Intn(6)), V: g.amt()})
	case k < 85:
		g.do(Op{K: "setresidue", H: hd, A: uint64(g.r.Intn(6)), V: g.amt()})
	case k < 89:
		g.do(Op{K: "addwithdraw", H: hd, Rec: g.wrec()})
	case k < 91:
		n := len(st.GetWithdrawQueue().Records)
		if n > 0 && g.r.Chance(60) {
			g.editwd(hd, n)
			break
		}
		var idx []uint64
		for i := 0; i < n; i++ {
			if g.r.Chance(40) {
				idx = append(idx, uint64(i))
			}
		}
		g.do(Op{K: "removewithdraws", H: hd, Idx: idx})
	case k < 96:
		o := Op{K: "addsrec", H: hd, A: uDlg[g.r.Intn(len(uDlg))], B: g.vid(), C: uint64(g.r.Intn(4)), Some: g.r.Bool()}
		if o.Some {
			o.V = g.amt()
		}
		g.do(o)
	case k < 99:
		g.do(Op{K: "addprel", H: hd, A: uint64(1 + g.r.Intn(2)), B: g.vid()})
	default:
		g.do(Op{K: "resetstk", H: hd})
	}
}

// writeVal: a call that goes through the validator objects, the withdraw queue or the staking records
func (g *genr) writeVal(hd uint64) {
	st := g.e.hs[hd]
	if st == nil {
		return
	}
	id := uint64(1 + g.r.Intn(3))
	switch k := g.r.Intn(100); {
	case k < 20:
		if g.removed[hd] == 0 && !g.anyBigInvalid(hd) {
			g.removed[hd]++
			g.do(Op{K: "removeval", H: hd, A: id})
		}
	case k < 50:
		g.do(Op{K: "updateval", H: hd, Val: g.mutateVal(hd, id)})
	case k < 62:
		g.do(Op{K: "createval", H: hd, Val: g.newValRecOn(hd, id, g.removed[hd] > 0)})
	case k < 76:
		g.do(Op{K: "delegate", H: hd, A: uint64(1 + g.r.Intn(3)), B: id, V: new(big.Int).Mul(unit, big.NewInt(int64(1+g.r.Intn(2)))).String()})
	case k < 86:
		g.do(Op{K: "addwithdraw", H: hd, Rec: g.wrec()})
	case k < 92:
		n := len(st.GetWithdrawQueue().Records)
		if n > 0 && g.r.Chance(65) {
			g.editwd(hd, n)
			break
		}
		var idx []uint64
		for i := 0; i < n; i++ {
			if g.r.Chance(50) {
				idx = append(idx, uint64(i))
			}
		}
		g.do(Op{K: "removewithdraws", H: hd, Idx: idx})
	default:
		g.do(Op{K: "addsrec", H: hd, A: uDlg[g.r.Intn(len(uDlg))], B: id, C: uint64(1 + g.r.Intn(3)), Some: true, V: g.amt()})
	}
}

// editwd: the staking module's in-place edit of a queued withdraw record (Finished := 1, or a lower FinalBalance)
func (g *genr) editwd(hd uint64, n int) {
	i := uint64(g.r.Intn(n))
	if g.r.Bool() {
		g.do(Op{K: "editwd", H: hd, A: i, B: 9, V: fmt.Sprintf("%d", g.r.Intn(2))})
	} else {
		g.do(Op{K: "editwd", H: hd, A: i, B: 8, V: fmt.Sprintf("%d", g.r.Intn(4))})
	}
}

func (g *genr) del() bool { return !g.r.Chance(25) }

// commitReopen: Commit, read, reopen from the roots, read again; reopened == live.
func (g *genr) commitReopen(hd uint64) uint64 {
	g.do(Op{K: "commit", H: hd, Del: g.del()})
	i := g.do(Op{K: "view", H: hd})
	h2 := g.fresh()
	g.do(Op{K: "reopen", H: hd, H2: h2})
	j := g.do(Op{K: "view", H: h2})
	g.expect("eqcontent", i, j, g.origin[hd], "the state reopened from the committed roots differs from the live state")
	if g.r.Chance(50) {
		k := g.do(Op{K: "reader", H: hd})
		g.expect("eqreader", k, i, g.origin[hd], "the validator reader opened from the committed validator root differs from the live state")
	}
	return h2
}

func (g *genr) boundary(hd uint64) string {
	switch g.r.Intn(8) {
	case 0:
		return "midtx"
	case 1, 2, 3:
		g.do(Op{K: "finalise", H: hd, Del: g.del()})
		return "finalised"
	case 4, 5:
		g.do(Op{K: "iroot", H: hd, Del: g.del()})
		return "flushed"
	default:
		g.do(Op{K: "commit", H: hd, Del: g.del()})
		return "committed"
	}
}

func (g *genr) prefix(hd uint64, n int) {
	for i := 0; i < n; i++ {
		g.write(hd)
		switch g.r.Intn(14) {
		case 0:
			g.do(Op{K: "finalise", H: hd, Del: g.del()})
		case 1:
			g.do(Op{K: "iroot", H: hd, Del: g.del()})
			g.do(Op{K: "view", H: hd})
		case 2:
			g.do(Op{K: "listvals", H: hd})
		}
	}
}

// tWalk: random walk over a few handles.
func (g *genr) tWalk() {
	live := []uint64{0}
	steps := 8 + g.r.Heavy(90)
	for s := 0; s < steps; s++ {
		hd := live[g.r.Intn(len(live))]
		switch k := g.r.Intn(100); {
		case k < 68:
			g.write(hd)
		case k < 75:
			g.do(Op{K: "finalise", H: hd, Del: g.del()})
		case k < 82:
			g.do(Op{K: "iroot", H: hd, Del: g.del()})
			g.do(Op{K: "view", H: hd})
		case k < 88:
			h2 := g.commitReopen(hd)
			if len(live) < 4 {
				live = append(live, h2)
			}
		case k < 92:
			i := g.do(Op{K: "view", H: hd})
			h2 := g.fresh()
			c := g.do(Op{K: "copy", H: hd, H2: h2})
			j := g.do(Op{K: "view", H: h2})
			g.expect("eqcopy", i, j, c, "a copy differs from the original")
			if len(live) < 4 {
				live = append(live, h2)
			}
		case k < 95:
			g.do(Op{K: "view", H: hd})
		case k < 97:
			g.do(Op{K: "listvals", H: hd})
		default:
			g.do(Op{K: "roots", H: hd})
		}
	}
	g.commitReopen(live[g.r.Intn(len(live))])
}

type cell struct {
	final Op
	noise *Op
}

// tPerm: the same content written in two orders / groupings on two handles.
func (g *genr) tPerm() {
	for _, a := range []uint64{1, 2, 3, 4} {
		g.do(Op{K: "setbalance", H: 0, A: a, V: fmt.Sprintf("%d", 10+a)})
	}
	for id := uint64(1); id <= 2; id++ {
		g.do(Op{K: "createval", H: 0, Val: g.newValRec(id)})
	}
	g.prefix(0, g.r.Heavy(20))
	g.do(Op{K: "commit", H: 0, Del: true})
	var cells []cell
	n := 3 + g.r.Heavy(14)
	used := map[string]bool{}
	for len(cells) < n {
		var c cell
		a := uint64(1 + g.r.Intn(4))
		var key string
		switch g.r.Intn(9) {
		case 0:
			key = fmt.Sprint("bal", a)
			c.final = Op{K: "setbalance", A: a, V: fmt.Sprintf("%d", 1+g.r.Intn(1000))}
			if g.r.Bool() {
				c.noise = &Op{K: "setbalance", A: a, V: g.amt()}
			}
		case 1:
			key = fmt.Sprint("nonce", a)
			c.final = Op{K: "setnonce", A: a, B: uint64(1 + g.r.Intn(9))}
		case 2:
			key = fmt.Sprint("code", a)
			c.final = Op{K: "setcode", A: a, Code: codePool[1+g.r.Intn(len(codePool)-1)]}
			if g.r.Bool() {
				c.noise = &Op{K: "setcode", A: a, Code: g.code()}
			}
		case 3, 4, 5:
			k := uKeys[g.r.Intn(len(uKeys))]
			key = fmt.Sprint("st", a, k)
			v := "0"
			if g.r.Chance(75) {
				v = fmt.Sprintf("%d", 1+g.r.Intn(50))
			}
			c.final = Op{K: "setstate", A: a, B: k, V: v}
			if g.r.Chance(60) {
				c.noise = &Op{K: "setstate", A: a, B: k, V: fmt.Sprintf("%d", g.r.Intn(3))}
			}
		case 6:
			id := uint64(3 + g.r.Intn(3))
			key = fmt.Sprint("val", id)
			c.final = Op{K: "createval", Val: g.newValRec(id)}
		case 7:
			id := uint64(1 + g.r.Intn(2))
			key = fmt.Sprint("val", id)
			c.final = Op{K: "updateval", Val: g.mutateVal(0, id)}
		default:
			d, v := uDlg[g.r.Intn(len(uDlg))], g.vid()
			key = fmt.Sprint("rec", d, v)
			c.final = Op{K: "addsrec", A: d, B: v, C: uint64(1 + g.r.Intn(3)), Some: true, V: g.amt()}
		}
		if used[key] {
			continue
		}
		used[key] = true
		cells = append(cells, c)
	}
	build := func(hd uint64) {
		perm := make([]int, len(cells))
		for i := range perm {
			perm[i] = i
		}
		for i := len(perm) - 1; i > 0; i-- {
			j := g.r.Intn(i + 1)
			perm[i], perm[j] = perm[j], perm[i]
		}
		flushP := g.r.Intn(40)
		for _, ci := range perm {
			c := cells[ci]
			if c.noise != nil {
				o := *c.noise
				o.H = hd
				g.do(o)
				if g.r.Chance(flushP) {
					g.do(Op{K: "finalise", H: hd, Del: true})
				}
				if g.r.Chance(flushP / 2) {
					g.do(Op{K: "iroot", H: hd, Del: true})
				}
			}
			o := c.final
			o.H = hd
			g.do(o)
			if g.r.Chance(flushP) {
				g.do(Op{K: "finalise", H: hd, Del: true})
			}
			if g.r.Chance(flushP / 2) {
				g.do(Op{K: "iroot", H: hd, Del: true})
			}
		}
		if g.r.Bool() {
			g.do(Op{K: "iroot", H: hd, Del: true})
		} else {
			g.do(Op{K: "commit", H: hd, Del: true})
		}
		g.do(Op{K: "view", H: hd})
	}
	k := 2 + g.r.Intn(2)
	for i := 0; i < k; i++ {
		hd := g.fresh()
		g.do(Op{K: "reopen", H: 0, H2: hd})
		build(hd)
	}
}

// tCopy: copy at a chosen point, same suffix on both, commit both, reopen both.
func (g *genr) tCopy() {
	g.prefix(0, 4+g.r.Heavy(40))
	b := g.boundary(0)
	g.res.Count("copy_at_" + b)
	if g.r.Chance(40) {
		for i := 0; i < 1+g.r.Intn(4); i++ {
			g.write(0)
		}
		if g.r.Chance(70) {
			g.do(Op{K: "finalise", H: 0, Del: g.del()})
		}
	}
	i0 := g.do(Op{K: "view", H: 0})
	c := g.fresh()
	ci := g.do(Op{K: "copy", H: 0, H2: c})
	i1 := g.do(Op{K: "view", H: c})
	i2 := g.do(Op{K: "view", H: 0})
	g.expect("eqcopy", i0, i1, ci, "a copy differs from the original")
	g.expect("eqview", i0, i2, -1, "copying changed the original")
	// the same suffix on both
	start := len(g.h.Ops)
	n := g.r.Heavy(16)
	for i := 0; i < n; i++ {
		g.write(0)
		if g.r.Chance(10) {
			g.do(Op{K: "finalise", H: 0, Del: true})
		}
	}
	suffix := append([]Op{}, g.h.Ops[start:]...)
	for _, o := range suffix {
		o.H = c
		if o.K == "delegate" {
			o.Val, o.Some = nil, false
		}
		g.do(o)
	}
	de := g.del()
	var r0, v0, r1, v1 int
	if g.r.Bool() {
		r0 = g.do(Op{K: "commit", H: 0, Del: de})
		v0 = g.do(Op{K: "view", H: 0})
		r1 = g.do(Op{K: "commit", H: c, Del: de})
		v1 = g.do(Op{K: "view", H: c})
	} else { // the copy first: what it needs must not come from the original's commit
		r1 = g.do(Op{K: "commit", H: c, Del: de})
		v1 = g.do(Op{K: "view", H: c})
		h2 := g.fresh()
		g.do(Op{K: "reopen", H: c, H2: h2})
		j := g.do(Op{K: "view", H: h2})
		g.expect("eqcontent", v1, j, ci, "the state reopened from the committed roots differs from the live state")
		r0 = g.do(Op{K: "commit", H: 0, Del: de})
		v0 = g.do(Op{K: "view", H: 0})
	}
	g.expect("eqroots", r0, r1, ci, "a copy and its original, after the same calls, commit to different roots")
	g.expect("eqcopy", v0, v1, ci, "a copy and its original differ after the same calls")
	for _, hd := range []uint64{0, c} {
		h2 := g.fresh()
		g.do(Op{K: "reopen", H: hd, H2: h2})
		j := g.do(Op{K: "view", H: h2})
		vi := v0
		if hd == c {
			vi = v1
		}
		g.expect("eqcontent", vi, j, g.origin[hd], "the state reopened from the committed roots differs from the live state")
	}
}

// tIndep: writes to one side of a copy do not show on the other side.
func (g *genr) tIndep() {
	g.prefix(0, 4+g.r.Heavy(30))
	g.boundary(0)
	c := g.fresh()
	g.do(Op{K: "copy", H: 0, H2: c})
	a, b := uint64(0), c
	if g.r.Bool() {
		a, b = c, 0
	}
	i0 := g.do(Op{K: "view", H: a})
	n := 2 + g.r.Heavy(20)
	for i := 0; i < n; i++ {
		g.write(b)
		switch g.r.Intn(10) {
		case 0:
			g.do(Op{K: "finalise", H: b, Del: g.del()})
		case 1:
			g.do(Op{K: "iroot", H: b, Del: g.del()})
		case 2:
			g.do(Op{K: "commit", H: b, Del: g.del()})
		}
	}
	i1 := g.do(Op{K: "view", H: a})
	g.h.Asserts = append(g.h.Asserts, Assert{Kind: "eqview", I: i0, J: i1, Copy: g.origin[a], Why: "writes to one side of a copy show on the other side", Only: "d1"})
	g.commitReopen(a)
}

// tBoth: BOTH sides of a copy append to / remove from the delegation list of the same
// live delegator (whose slice has spare capacity), against twins that cannot alias:
// two states reopened from a commit of a third copy take the same calls.  Each side
// must show what its twin shows, commit to its twin's roots and reopen to the same.
func (g *genr) tBoth() {
	d := uint64(1 + g.r.Intn(2))
	wide := g.r.Chance(50)
	if wide {
		// a base with dirty validators, withdraw records, staking records ...
		g.prefix(0, 3+g.r.Heavy(24))
		for id := uint64(1); id <= 3; id++ {
			if g.r.Chance(70) {
				v := g.newValRecOn(0, id, true)
				if v.Token == "0" {
					v.Token, v.Stake = "1000000000000000000", "1"
					v.Rest[5], v.Rest[6] = v.Token, v.Stake
				}
				g.do(Op{K: "createval", H: 0, Val: v})
			}
		}
		if g.r.Bool() {
			g.do(Op{K: "addwithdraw", H: 0, Rec: g.wrec()})
		}
	}
	g.do(Op{K: "setbalance", H: 0, A: d, V: "1000"})
	if g.r.Bool() {
		g.do(Op{K: "setbalance", H: 0, A: 3 - d, V: "7"})
	}
	// a list with spare capacity: tail appends, possibly an undelegation
	base := []uint64{1, 2, 3}[:1+g.r.Intn(3)]
	if g.r.Chance(30) {
		base = []uint64{2, 1, 3}[:2+g.r.Intn(2)] // one insertion in the middle
	}
	for _, v := range base {
		g.do(Op{K: "upddelegator", H: 0, A: d, B: v, V: fmt.Sprintf("%d", 1+g.r.Intn(9))})
	}
	if g.r.Chance(50) && len(base) > 1 {
		g.do(Op{K: "upddelegator", H: 0, A: d, B: base[g.r.Intn(len(base))], V: "0", Del: true})
	}
	hd := uint64(0)
	if g.r.Chance(35) {
		// a list decoded from the database, loaded by a read, on an object made dirty again
		g.do(Op{K: "commit", H: 0, Del: true})
		hd = g.fresh()
		g.do(Op{K: "reopen", H: 0, H2: hd})
		g.do(Op{K: "view", H: hd})
		g.do(Op{K: "setnonce", H: hd, A: d, B: uint64(1 + g.r.Intn(5))})
	}
	// the copy is taken at a transaction boundary
	g.do(Op{K: "finalise", H: hd, Del: true})
	if g.r.Chance(30) {
		g.do(Op{K: "iroot", H: hd, Del: true})
	}
	// twins: reopened from the commit of a third copy, every object decoded afresh
	c0 := g.fresh()
	g.do(Op{K: "copy", H: hd, H2: c0})
	g.do(Op{K: "commit", H: c0, Del: true})
	t1, t2 := g.fresh(), g.fresh()
	g.do(Op{K: "reopen", H: c0, H2: t1})
	g.do(Op{K: "reopen", H: c0, H2: t2})
	twinsOk := false
	guard(func() {
		twinsOk = content(view(g.e.hs[hd])).String() == content(view(g.e.hs[t1])).String()
	})
	if !twinsOk {
		// the side holds something its next flush deletes (an empty validator or account written since
		// the last flush); the twins, reopened from a commit, do not: nothing to compare
		g.res.Count("both_twins_differ_at_start")
		return
	}
	c := g.fresh()
	ci := g.do(Op{K: "copy", H: hd, H2: c})
	// both sides write the same delegator; mostly validators above every entry
	sides := [][2]uint64{{hd, t1}, {c, t2}}
	hi := []uint64{4, 5}
	if g.r.Bool() {
		hi = []uint64{5, 4}
	}
	if wide {
		// any writes (validators, delegations through UpdateDelegation, withdraw queue, staking
		// records, accounts, storage, code), interleaved at random between the two sides; each
		// call goes to the side and to its twin
		g.res.Count("both_wide")
		for _, pr := range sides {
			g.removed[pr[1]] = g.removed[pr[0]]
		}
		m := 4 + g.r.Heavy(28)
		for i := 0; i < m; i++ {
			pr := sides[g.r.Intn(2)]
			start := len(g.h.Ops)
			if g.r.Chance(12) {
				g.do(Op{K: "finalise", H: pr[0], Del: true})
			} else if g.r.Chance(5) {
				g.do(Op{K: "iroot", H: pr[0], Del: true})
			} else if g.r.Chance(45) {
				g.writeVal(pr[0])
			} else {
				g.write(pr[0])
			}
			for _, o := range append([]Op{}, g.h.Ops[start:]...) {
				o.H = pr[1]
				if o.K == "delegate" {
					o.Val, o.Some = nil, false
				}
				g.do(o)
			}
		}
	}
	n := 1 + g.r.Intn(3)
	if wide {
		n = 0
	}
	for i := 0; i < n; i++ {
		for si, pr := range sides {
			var o Op
			switch {
			case i == 0:
				o = Op{K: "upddelegator", A: d, B: hi[si], V: fmt.Sprintf("%d", 1+g.r.Intn(9))}
			case g.r.Chance(40):
				o = Op{K: "upddelegator", A: d, B: uint64(1 + g.r.Intn(5)), V: "0", Del: true}
			default:
				o = Op{K: "upddelegator", A: d, B: uint64(1 + g.r.Intn(5)), V: fmt.Sprintf("%d", g.r.Intn(9))}
			}
			for _, h := range pr {
				o.H = h
				g.do(o)
			}
			if g.r.Chance(15) {
				for _, h := range pr {
					g.do(Op{K: "finalise", H: h, Del: true})
				}
			}
		}
	}
	both := func(kind, why string, mk func(h uint64) int) {
		for _, pr := range sides {
			i, j := mk(pr[0]), mk(pr[1])
			g.h.Asserts = append(g.h.Asserts, Assert{Kind: kind, I: i, J: j, Copy: ci, Why: why, Only: "generic"})
		}
	}
	both("eqcontent", "after writes to both sides of a copy a side shows content its own calls did not build",
		func(h uint64) int { return g.do(Op{K: "view", H: h}) })
	// commit both sides in either order, then the twins
	order := []uint64{hd, c}
	if g.r.Bool() {
		order = []uint64{c, hd}
	}
	rootsAt := map[uint64]int{}
	for _, h := range append(order, t1, t2) {
		rootsAt[h] = g.do(Op{K: "commit", H: h, Del: true})
	}
	both("eqroots", "after writes to both sides of a copy a side commits to other roots than the same calls on an unshared state",
		func(h uint64) int { return rootsAt[h] })
	both("eqcontent", "after writes to both sides of a copy the committed side shows content its own calls did not build",
		func(h uint64) int { return g.do(Op{K: "view", H: h}) })
	both("eqcontent", "after writes to both sides of a copy the reopened side differs from the same calls on an unshared state",
		func(h uint64) int {
			h2 := g.fresh()
			g.do(Op{K: "reopen", H: h, H2: h2})
			return g.do(Op{K: "view", H: h2})
		})
}

// tLong: one StateDB object lives across several Commits on the shared Database (its live
// tries sit in the Database's trie cache and keep changing); at random points ANY earlier
// committed root triple is reopened on the same Database and must show what the state
// showed at that commit (also through a brand-new Database over the same disk, see exec),
// and IntermediateRoot of the untouched reopened state must return the roots it was opened from.
func (g *genr) tLong() {
	type cm struct{ roots, view int }
	var commits []cm
	owners := []uint64{0}
	if g.r.Chance(30) {
		g.prefix(0, g.r.Heavy(12))
	}
	rounds := 2 + g.r.Intn(7)
	for rd := 0; rd < rounds; rd++ {
		n := 1 + g.r.Intn(5)
		for i := 0; i < n; i++ {
			if g.r.Chance(35) {
				g.writeVal(0)
			} else {
				g.write(0)
			}
			if g.r.Chance(10) {
				g.do(Op{K: "finalise", H: 0, Del: g.del()})
			}
		}
		if g.r.Chance(25) {
			g.do(Op{K: "iroot", H: 0, Del: g.del()}) // written into the live tries without a Commit
		}
		if rd == rounds-1 && g.r.Bool() {
			// leave the owner changed but uncommitted
			if g.r.Bool() {
				g.do(Op{K: "iroot", H: 0, Del: true})
			}
		} else {
			c := g.do(Op{K: "commit", H: 0, Del: g.del()})
			v := g.do(Op{K: "view", H: 0})
			commits = append(commits, cm{c, v})
		}
		if g.r.Chance(20) && len(owners) < 3 {
			// another StateDB commits through the same cache
			c := g.fresh()
			g.do(Op{K: "copy", H: 0, H2: c})
			g.write(c)
			g.do(Op{K: "commit", H: c, Del: true})
			owners = append(owners, c)
		}
		for len(commits) > 0 && g.r.Chance(60) {
			k := g.r.Intn(len(commits))
			if g.r.Chance(40) {
				k = len(commits) - 1 - g.r.Intn(minInt(len(commits), 3)) // recent ones are still cached
			}
			h2 := g.fresh()
			g.do(Op{K: "reopenat", H: 0, B: uint64(k), H2: h2})
			j := g.do(Op{K: "view", H: h2})
			g.h.Asserts = append(g.h.Asserts, Assert{Kind: "eqcontent", I: commits[k].view, J: j, Copy: -1,
				Why: "a committed state reopened later from its roots differs from what it was at that commit", Only: "generic"})
			ir := g.do(Op{K: "iroot", H: h2, Del: g.r.Bool()})
			g.h.Asserts = append(g.h.Asserts, Assert{Kind: "eqroots", I: commits[k].roots, J: ir, Copy: -1,
				Why: "IntermediateRoot of an untouched reopened state differs from the roots it was opened from", Only: "generic"})
			if k == len(commits)-1 && g.r.Bool() {
				rdr := g.do(Op{K: "reader", H: 0})
				g.h.Asserts = append(g.h.Asserts, Assert{Kind: "eqreader", I: rdr, J: commits[k].view, Copy: -1,
					Why: "the validator reader opened later from a committed validator root differs from the state at that commit", Only: "generic"})
			}
			if g.r.Chance(50) {
				break
			}
		}
	}
}

// tIR: IntermediateRoot is transparent where nothing is left to finalise.  Two StateDBs reopened
// from one commit take the same transactions (writes, then Finalise); the second one also runs
// IntermediateRoot right after some of the Finalise calls, right after state.New and twice in a
// row.  Final roots, content, and the states reopened after a Commit must agree.  Writes include
// the staking module's in-place edits of queued withdraw records and of the statistics.
// (Validators with zero token and stake are left out: the flush deletes those, so for them the
// code itself makes the placement matter.)
func (g *genr) tIR() {
	g.noZero = true
	g.prefix(0, 3+g.r.Heavy(20))
	if g.r.Chance(70) {
		g.do(Op{K: "addwithdraw", H: 0, Rec: g.wrec()})
		if g.r.Bool() {
			g.do(Op{K: "addwithdraw", H: 0, Rec: g.wrec()})
		}
	}
	g.do(Op{K: "commit", H: 0, Del: true})
	a, b := g.fresh(), g.fresh()
	g.do(Op{K: "reopen", H: 0, H2: a})
	g.do(Op{K: "reopen", H: 0, H2: b})
	extra := func() {
		g.do(Op{K: "iroot", H: b, Del: true})
		if g.r.Chance(25) {
			g.do(Op{K: "iroot", H: b, Del: g.r.Bool()})
		}
		g.res.Count("ir_extra_intermediate_root")
	}
	if g.r.Bool() {
		extra() // the sealing node's IntermediateRoot right after the state is made
	}
	txs := 1 + g.r.Heavy(10)
	for t := 0; t < txs; t++ {
		start := len(g.h.Ops)
		n := 1 + g.r.Intn(4)
		for i := 0; i < n; i++ {
			if g.r.Chance(45) {
				g.writeVal(a)
			} else {
				g.write(a)
			}
		}
		g.do(Op{K: "finalise", H: a, Del: true})
		for _, o := range append([]Op{}, g.h.Ops[start:]...) {
			o.H = b
			if o.K == "delegate" {
				o.Val, o.Some = nil, false
			}
			g.do(o)
		}
		if g.r.Chance(50) {
			extra()
		}
	}
	both := func(kind, why string, mk func(h uint64) int) {
		i, j := mk(a), mk(b)
		g.h.Asserts = append(g.h.Asserts, Assert{Kind: kind, I: i, J: j, Copy: -1, Why: why, Only: "generic"})
	}
	if g.r.Bool() {
		both("eqroots", "the roots depend on where IntermediateRoot was called", func(h uint64) int { return g.do(Op{K: "iroot", H: h, Del: true}) })
		both("eqcontent", "the content depends on where IntermediateRoot was called", func(h uint64) int { return g.do(Op{K: "view", H: h}) })
	}
	both("eqroots", "the committed roots depend on where IntermediateRoot was called", func(h uint64) int { return g.do(Op{K: "commit", H: h, Del: true}) })
	both("eqcontent", "the committed content depends on where IntermediateRoot was called", func(h uint64) int { return g.do(Op{K: "view", H: h}) })
	for _, h := range []uint64{a, b} {
		v := g.do(Op{K: "view", H: h})
		h2 := g.fresh()
		g.do(Op{K: "reopen", H: h, H2: h2})
		j := g.do(Op{K: "view", H: h2})
		g.h.Asserts = append(g.h.Asserts, Assert{Kind: "eqcontent", I: v, J: j, Copy: -1,
			Why: "the state reopened from the committed roots differs from the live state", Only: "generic"})
	}
}

func minInt(a, b int) int {
	if a < b {
		return a
	}
	return b
}

func genHistory(r *vf.Rng, res *vf.Result) *History {
	g := newGen(r, res)
	switch k := r.Intn(100); {
	case k < 24:
		g.h.Comment = "walk"
		g.tWalk()
	case k < 42:
		g.h.Comment = "perm"
		g.tPerm()
	case k < 60:
		g.h.Comment = "copy"
		g.tCopy()
	case k < 70:
		g.h.Comment = "indep"
		g.tIndep()
	case k < 82:
		g.h.Comment = "both"
		g.tBoth()
	case k < 92:
		g.h.Comment = "long"
		g.tLong()
	default:
		g.h.Comment = "ir"
		g.tIR()
	}
	res.Count("template_" + g.h.Comment)
	return g.h
}

// ---- main ------------------------------------------------------------------------------------

func repoDir() string {
	if d := os.Getenv("VERIF_REPO"); d != "" {
		return d
	}
	return "/repo"
}

func caseLines(f flags, h *History, outs [][]Obs) string {
	var ops, os_ []string
	for i, o := range h.Ops {
		if o.K == "delegate" {
			if !o.Some {
				continue
			}
			ops = append(ops, fmt.Sprintf("MS %d (OUpdateVal %s)", o.H, valCoq(o.Val)),
				fmt.Sprintf("MS %d (OUpdDelegator %d %d %s %s %s)", o.H, o.A, o.B, vf.Bool(o.Neg), bstr(o.V), vf.Bool(o.Del)))
		} else {
			ops = append(ops, mopCoq(o))
		}
		for _, x := range outs[i] {
			os_ = append(os_, x.Coq())
		}
	}
	return fmt.Sprintf("mkCase (mkCF %s %s) U\n [%s]\n [%s]", vf.Bool(f.KeepDlgs), vf.Bool(f.DirtyAlways), strings.Join(ops, ";\n  "), strings.Join(os_, ";\n  "))
}

func loadCorpus(dir string) []*History {
	var out []*History
	files, _ := filepath.Glob(filepath.Join(dir, "*.json"))
	sort.Strings(files)
	for _, f := range files {
		b, err := ioutil.ReadFile(f)
		if err != nil {
			continue
		}
		var h History
		if json.Unmarshal(b, &h) == nil && len(h.Ops) > 0 {
			h.Comment = "corpus:" + filepath.Base(f)
			out = append(out, &h)
		}
	}
	return out
}

func sameOuts(a, b [][]Obs) bool {
	if len(a) != len(b) {
		return false
	}
	for i := range a {
		if len(a[i]) != len(b[i]) {
			return false
		}
		for j := range a[i] {
			if a[i][j].String() != b[i][j].String() {
				return false
			}
		}
	}
	return true
}

func gen(seed uint64, n int, outDir, corpusDir string) {
	r := vf.NewRng(seed)
	res := vf.NewResult("C10", seed)
	fl := copyFlags(repoDir())
	res.Extra["copy_flags"] = fl
	var sb strings.Builder
	sb.WriteString("From VF.C10 Require Import Model.\nLocal Open Scope N_scope.\nDefinition U := " + universeCoq() + ".\nDefinition cases : list case := [\n")
	distinct := map[string]bool{}
	hitKeys := map[string]bool{}
	count := 0
	emit := func(h *History) {
		rr := runHistory(h)
		rr2 := runHistory(h)
		if !sameOuts(rr.outs, rr2.outs) {
			rr.hits = append(rr.hits, hit{"two runs of the same history show different results", "outputs differ between two executions", h})
		}
		if count > 0 {
			sb.WriteString(";\n")
		}
		line := caseLines(fl, h, rr.outs)
		sb.WriteString(line)
		count++
		flushes, structural := 0, 0
		for _, o := range h.Ops {
			switch o.K {
			case "iroot", "commit":
				flushes++
			case "copy", "reopen", "reopenat":
				structural++
			}
		}
		if flushes > 0 && structural > 0 {
			distinct[line] = true
		}
		for k, v := range rr.checked {
			res.Distribution["checked_"+k] += v
		}
		res.Distribution["skipped_copy_inside_transaction"] += rr.skipped
		for _, ht := range rr.hits {
			res.Count("hit")
			if !hitKeys[ht.What] || len(res.OracleHits) < 4 {
				res.OracleHits = append(res.OracleHits, ht)
			}
			hitKeys[ht.What] = true
		}
		res.CaseDescs = append(res.CaseDescs, h)
		if len(res.Samples) < 4 && len(h.Ops) < 40 {
			res.Samples = append(res.Samples, h)
		}
	}
	for _, h := range loadCorpus(corpusDir) {
		emit(h)
		res.Count("corpus")
	}
	for count < n {
		emit(genHistory(r, res))
	}
	sb.WriteString("].\nDefinition M := Eval vm_compute in mismatches cases.\nPrint M.\n")
	vf.WriteFile(filepath.Join(outDir, "Cases.v"), sb.String())
	res.Cases = count
	res.Distinct = len(distinct)
	res.Rule = "a case is one history over several StateDB handles sharing a database: random writes (accounts, storage, code, delegation lists, validators, statistics, withdraw queue, staking records, pending relationships; code, values and validator records mostly from small pools, so identical re-writes and A-B-A sequences inside one commit window are frequent) with Finalise/IntermediateRoot/Commit at random points and both deleteEmptyObjects flags; templates: random walk, the same cell writes permuted and regrouped on handles reopened from one commit, copy at a chosen point (inside a transaction, after Finalise, after IntermediateRoot, after Commit) followed by the same suffix on both sides, writes to one side of a copy, writes to BOTH sides of a copy, interleaved (appends/removals on the delegation list of one live delegator, or any writes: validators, delegations, withdraw queue, staking records, accounts), each side against an unshared twin reopened from a commit; one StateDB living across several Commits on the shared Database with ANY earlier committed roots reopened later (state.New and NewVldReader through the Database's trie cache, and through a new Database over the same disk) and IntermediateRoot of the reopened state; the same transactions on two reopened states with and without extra IntermediateRoot calls after Finalise (roots must not depend on the placement), with the staking module's in-place edits of queued withdraw records; every call's result (root numbers, full reads of all observed addresses) is compared with the model; non-trivial = has a flush and a copy or reopen; distinct by full history"
	res.Write(filepath.Join(outDir, "result.json"))
}

func replay(file string) {
	b, err := ioutil.ReadFile(file)
	if err != nil {
		fmt.Println(err)
		os.Exit(2)
	}
	var rp struct {
		History *History `json:"history"`
		Ops     []Op     `json:"ops"`
		Asserts []Assert `json:"asserts"`
	}
	if err := json.Unmarshal(b, &rp); err != nil {
		fmt.Println(err)
		os.Exit(2)
	}
	h := rp.History
	if h == nil {
		h = &History{Ops: rp.Ops, Asserts: rp.Asserts}
	}
	rr := runHistory(h)
	for i, o := range h.Ops {
		for _, x := range rr.outs[i] {
			s := x.String()
			if len(s) > 300 {
				s = s[:300] + "..."
			}
			fmt.Printf("%3d %-14s h=%d -> %s\n", i, o.K, o.H, s)
		}
	}
	if len(rr.hits) > 0 {
		for _, ht := range rr.hits {
			fmt.Println("ORACLE VIOLATION:", ht.What, "--", ht.Detail)
		}
		os.Exit(1)
	}
	fmt.Println("no violation")
}

func main() {
	mode := ""
	if len(os.Args) > 1 {
		mode = os.Args[1]
		os.Args = append(os.Args[:1], os.Args[2:]...)
	}
	seed := flag.Uint64("seed", 1, "")
	n := flag.Int("n", 100, "")
	out := flag.String("out", ".", "")
	corpus := flag.String("corpus", "/verif/corpus/C10", "")
	file := flag.String("file", "", "")
	flag.Parse()
	params.InitNetworkId(params.NetworkIdForTestCase)
	logging.Root().SetHandler(logging.DiscardHandler())
	initValidators()
	switch mode {
	case "gen":
		gen(*seed, *n, *out, *corpus)
	case "replay":
		replay(*file)
	case "copytable":
		copyTable(repoDir(), *out)
	default:
		fmt.Println("usage: c10 gen|replay|copytable")
		os.Exit(2)
	}
}
