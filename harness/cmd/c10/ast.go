// T5-ii: inventory, by go/ast, of how every field of the copied structs is
// treated by the copy functions of core/state.  Written to coq/gen/C10CopyTable.v;
// coq/C10/Bridge.v proves that every field is classified acceptable or belongs
// to a listed finding.
package main

import (
	"fmt"
	"go/ast"
	"go/parser"
	"go/token"
	"os"
	"path/filepath"
	"sort"
	"strings"

	"verif/harness/vf"
)

type copyFn struct {
	File, Recv, Name, Struct string
}

// the copy functions and the struct each of them rebuilds
var copyFns = []copyFn{
	{"statedb.go", "StateDB", "Copy", "StateDB"},
	{"state_object.go", "stateObject", "deepCopy", "stateObject"},
	{"validator.go", "Validator", "PartialCopy", "Validator"},
	{"validator.go", "ValKindStat", "DeepCopy", "ValKindStat"},
	{"validator.go", "ValidatorsStat", "DeepCopy", "ValidatorsStat"},
	{"validator.go", "WithdrawRecord", "DeepCopy", "WithdrawRecord"},
	{"validator.go", "WithdrawQueue", "DeepCopy", "WithdrawQueue"},
	{"delegation.go", "DelegationFrom", "DeepCopy", "DelegationFrom"},
	{"staking_record.go", "stakingRecord", "DeepCopy", "Record"},
	{"staking_record.go", "pendingRelationship", "DeepCopy", "pendingRelationship"},
}

func parseState(repo string) (*token.FileSet, map[string]*ast.File) {
	fset := token.NewFileSet()
	files := map[string]*ast.File{}
	for _, f := range []string{"statedb.go", "state_object.go", "validator.go", "delegation.go", "staking_record.go"} {
		af, err := parser.ParseFile(fset, filepath.Join(repo, "core/state", f), nil, 0)
		if err != nil {
			fmt.Fprintln(os.Stderr, "copytable: cannot parse", f, err)
			os.Exit(2)
		}
		files[f] = af
	}
	return fset, files
}

func findStruct(files map[string]*ast.File, name string) *ast.StructType {
	for _, f := range files {
		for _, d := range f.Decls {
			gd, ok := d.(*ast.GenDecl)
			if !ok {
				continue
			}
			for _, s := range gd.Specs {
				ts, ok := s.(*ast.TypeSpec)
				if ok && ts.Name.Name == name {
					if st, ok := ts.Type.(*ast.StructType); ok {
						return st
					}
				}
			}
		}
	}
	return nil
}

func findFunc(f *ast.File, recv, name string) *ast.FuncDecl {
	for _, d := range f.Decls {
		fd, ok := d.(*ast.FuncDecl)
		if !ok || fd.Name.Name != name || fd.Recv == nil || len(fd.Recv.List) != 1 {
			continue
		}
		t := fd.Recv.List[0].Type
		if s, ok := t.(*ast.StarExpr); ok {
			t = s.X
		}
		if id, ok := t.(*ast.Ident); ok && id.Name == recv {
			return fd
		}
	}
	return nil
}

func exprStr(e ast.Expr) string {
	switch x := e.(type) {
	case *ast.Ident:
		return x.Name
	case *ast.SelectorExpr:
		return exprStr(x.X) + "." + x.Sel.Name
	case *ast.StarExpr:
		return "*" + exprStr(x.X)
	case *ast.ArrayType:
		if x.Len == nil {
			return "[]" + exprStr(x.Elt)
		}
		return "[n]" + exprStr(x.Elt)
	case *ast.MapType:
		return "map[" + exprStr(x.Key) + "]" + exprStr(x.Value)
	case *ast.InterfaceType:
		return "interface"
	case *ast.FuncType:
		return "func"
	}
	return fmt.Sprintf("%T", e)
}

// kindOfType: 0 = plain value, 1 = reference (pointer, slice, map, interface, struct holding references)
func refType(t string) bool {
	if strings.HasPrefix(t, "*") || strings.HasPrefix(t, "[]") || strings.HasPrefix(t, "map[") {
		return true
	}
	switch t {
	case "Database", "Trie", "Code", "Storage", "hexutil.Bytes", "DelegationFroms", "common.SortedAddresses", "biAddresses",
		"sync.Map", "atomic.Value", "Account", "Extension", "error", "Record":
		return true
	}
	return false
}

// how a field of the copy is produced
const (
	clValue   = 1 // plain value copied
	clDeep    = 2 // reference rebuilt: DeepCopy / Copy / CopyTrie / new(big.Int).Set / make + element loop / getter returning a fresh integer
	clFresh   = 3 // reference initialised empty (cache, journal, map filled elsewhere in the function)
	clShared  = 4 // reference assigned from the source: both sides alias one object
	clMissing = 5 // never mentioned: zero value in the copy
	clElems   = 6 // new container whose elements are taken from the source (elements shared)
)

// freshLocals: identifiers a function binds (:=) to a freshly built value
// (make / new / composite literal / a DeepCopy result / a dereferenced copy).
var freshLocals = map[string]bool{}

func collectFreshLocals(body ast.Node) {
	freshLocals = map[string]bool{}
	ast.Inspect(body, func(n ast.Node) bool {
		as, ok := n.(*ast.AssignStmt)
		if !ok || as.Tok != token.DEFINE {
			return true
		}
		for i, l := range as.Lhs {
			id, ok := l.(*ast.Ident)
			if !ok || i >= len(as.Rhs) {
				continue
			}
			switch r := as.Rhs[i].(type) {
			case *ast.CallExpr:
				f := exprStr(r.Fun)
				if f == "make" || f == "new" || strings.HasSuffix(f, ".DeepCopy") || strings.HasSuffix(f, ".deepCopy") {
					freshLocals[id.Name] = true
				}
			case *ast.CompositeLit:
				freshLocals[id.Name] = true
			case *ast.StarExpr: // vCpy := *value
				freshLocals[id.Name] = true
			}
		}
		return true
	})
}

func classifyRHS(e ast.Expr) int {
	switch x := e.(type) {
	case *ast.Ident:
		if freshLocals[x.Name] {
			return clFresh
		}
		return clShared
	case *ast.CallExpr:
		s := exprStr(x.Fun)
		switch {
		case strings.HasSuffix(s, ".DeepCopy"), strings.HasSuffix(s, ".deepCopy"), strings.HasSuffix(s, ".Copy"), strings.HasSuffix(s, ".CopyTrie"),
			strings.HasSuffix(s, ".Set"), strings.HasPrefix(s, "v.Get"):
			return clDeep
		case s == "make", s == "newJournal", s == "NewValidatorIndex", s == "NewValidatorsStat", s == "newPendingRelationship", s == "new":
			return clFresh
		}
		return clShared
	case *ast.CompositeLit:
		return clFresh
	case *ast.UnaryExpr:
		if x.Op == token.AND {
			if _, ok := x.X.(*ast.Ident); ok {
				return clFresh // address of a local copy
			}
		}
		return classifyRHS(x.X)
	}
	return clShared
}

type fieldRow struct {
	Struct, Field, Type string
	Ref                 bool
	Class               int
}

// fieldsOf lists the fields of a struct (embedded Account of stateObject is
// expanded because newObject receives it by value).
func fieldsOf(files map[string]*ast.File, name string) [][2]string {
	st := findStruct(files, name)
	if st == nil {
		fmt.Fprintln(os.Stderr, "copytable: struct not found:", name)
		os.Exit(2)
	}
	var out [][2]string
	for _, f := range st.Fields.List {
		t := exprStr(f.Type)
		for _, n := range f.Names {
			out = append(out, [2]string{n.Name, t})
		}
	}
	return out
}

type seenT struct {
	direct     int  // best class of a direct initialisation / assignment / Store (0 = none)
	elem       bool // filled element by element
	elemCl     int  // best class of an element store
	elemShared bool // some element store takes the element from the source as it is
}

func better(a, b int) int { // deep beats fresh beats shared
	rank := map[int]int{0: 0, clShared: 1, clFresh: 2, clDeep: 3, clValue: 1}
	if rank[b] > rank[a] {
		return b
	}
	return a
}

// scan records how the statements of one function body produce each field.
func scan(body ast.Node, seen map[string]*seenT) {
	get := func(f string) *seenT {
		if seen[f] == nil {
			seen[f] = &seenT{}
		}
		return seen[f]
	}
	ast.Inspect(body, func(n ast.Node) bool {
		switch x := n.(type) {
		case *ast.KeyValueExpr:
			if id, ok := x.Key.(*ast.Ident); ok {
				s := get(id.Name)
				s.direct = better(s.direct, classifyRHS(x.Value))
			}
		case *ast.AssignStmt:
			for i, l := range x.Lhs {
				if i >= len(x.Rhs) {
					break
				}
				root, viaIndex := l, false
				for {
					if ix, ok := root.(*ast.IndexExpr); ok {
						root, viaIndex = ix.X, true
						continue
					}
					break
				}
				if sel, ok := root.(*ast.SelectorExpr); ok {
					s := get(sel.Sel.Name)
					cl := classifyRHS(x.Rhs[i])
					if viaIndex {
						s.elem = true
						s.elemCl = better(s.elemCl, cl)
						if cl == clShared {
							s.elemShared = true
						}
					} else {
						s.direct = better(s.direct, cl)
					}
				}
			}
		case *ast.ExprStmt:
			if c, ok := x.X.(*ast.CallExpr); ok {
				if sel, ok := c.Fun.(*ast.SelectorExpr); ok {
					if inner, ok := sel.X.(*ast.SelectorExpr); ok {
						s := get(inner.Sel.Name)
						switch sel.Sel.Name {
						case "Store":
							if len(c.Args) > 0 {
								cl := classifyRHS(c.Args[len(c.Args)-1])
								if len(c.Args) == 2 { // sync.Map: element-wise
									s.elem = true
									s.elemCl = better(s.elemCl, cl)
									if cl == clShared {
										s.elemShared = true
									}
								} else {
									s.direct = better(s.direct, cl)
								}
							}
						case "Set":
							s.direct = better(s.direct, clDeep)
						case "Add":
							s.elem = true
						}
					}
				}
			}
		}
		return true
	})
}

func inventory(repo string) []fieldRow {
	_, files := parseState(repo)
	var rows []fieldRow
	for _, cf := range copyFns {
		fd := findFunc(files[cf.File], cf.Recv, cf.Name)
		if fd == nil {
			fmt.Fprintln(os.Stderr, "copytable: function not found:", cf.Recv, cf.Name)
			os.Exit(2)
		}
		seen := map[string]*seenT{}
		switch cf.Name {
		case "PartialCopy":
			// NewValidator(...) builds the record: its literal says how each argument is stored
			for _, d := range files["validator.go"].Decls {
				if f, ok := d.(*ast.FuncDecl); ok && f.Name.Name == "NewValidator" {
					scan(f.Body, seen)
				}
			}
			collectFreshLocals(fd.Body)
			scan(fd.Body, seen)
			if dc := findFunc(files[cf.File], "Validator", "DeepCopy"); dc != nil { // DeepCopy = PartialCopy + the delegation list
				collectFreshLocals(dc.Body)
				scan(dc.Body, seen)
			} else {
				fmt.Fprintln(os.Stderr, "copytable: Validator.DeepCopy not found")
				os.Exit(2)
			}
		case "deepCopy":
			// newObject(db, so.address, so.data) stores its arguments and recomputes addrHash
			for _, f := range []string{"address", "data", "db", "addrHash"} {
				seen[f] = &seenT{direct: clShared}
			}
			collectFreshLocals(fd.Body)
			scan(fd.Body, seen)
		default:
			collectFreshLocals(fd.Body)
			scan(fd.Body, seen)
		}
		if cf.Recv == "WithdrawRecord" { // r := *u copies every field first
			for _, f := range fieldsOf(files, cf.Struct) {
				if seen[f[0]] == nil {
					seen[f[0]] = &seenT{direct: clShared}
				}
			}
		}
		for _, f := range fieldsOf(files, cf.Struct) {
			row := fieldRow{Struct: cf.Struct, Field: f[0], Type: f[1], Ref: refType(f[1])}
			s := seen[f[0]]
			switch {
			case s == nil:
				row.Class = clMissing
			case !row.Ref:
				row.Class = clValue
			case s.elem && s.elemShared:
				row.Class = clElems // at least one element is taken over as it is
			case s.direct == clDeep || (s.elem && s.elemCl == clDeep):
				row.Class = clDeep
			case s.direct == clFresh && s.elem && s.elemCl != clShared && s.elemCl != 0:
				row.Class = clDeep // new container filled element by element with rebuilt elements
			case s.direct == clFresh && s.elem:
				row.Class = clElems // new container, elements taken from the source
			case s.direct == clFresh:
				row.Class = clFresh
			case s.direct == 0 && s.elem:
				row.Class = clDeep
			default:
				row.Class = clShared
			}
			rows = append(rows, row)
		}
	}
	// structs copied by value: their plain fields are copied, their reference fields shared
	for _, st := range []string{"Account", "Extension"} {
		for _, f := range fieldsOf(files, st) {
			row := fieldRow{Struct: st, Field: f[0], Type: f[1], Ref: refType(f[1]) && f[1] != "ExtV1"}
			if f[1] == "common.Hash" || f[1] == "ExtV1" {
				row.Ref = false
			}
			if row.Ref {
				row.Class = clShared
			} else {
				row.Class = clValue
			}
			rows = append(rows, row)
		}
	}
	sort.SliceStable(rows, func(i, j int) bool { return rows[i].Struct < rows[j].Struct })
	return rows
}

// ---- in-place mutation inventory ---------------------------------------------------
// A field the copy shares with its original is harmless only while nobody writes
// the shared object in place.  For every shared field name the non-test sources of
// core/state and staking are searched for in-place writes through that field:
// append(X.F, ..) (may write the shared backing array), X.F[i] = .., X.F[i]++,
// copy(X.F.., ..), sort.*(X.F), and mutating big.Int methods on X.F.  For a rebuilt
// container with shared elements (class 6) the same patterns one index deeper.

type site struct{ Field, Func, What string }

var bigMutators = map[string]bool{"Add": true, "Sub": true, "Mul": true, "Div": true, "Mod": true, "Quo": true, "Rem": true,
	"Exp": true, "Neg": true, "Abs": true, "Set": true, "SetInt64": true, "SetUint64": true, "SetBytes": true, "SetString": true,
	"SetBit": true, "Lsh": true, "Rsh": true, "And": true, "Or": true, "Xor": true, "Not": true, "Sqrt": true, "QuoRem": true, "DivMod": true}

// baseField: the field name an expression denotes, after stripping `depth` index / slice levels.
func baseField(e ast.Expr, depth int) (string, bool) {
	for {
		switch x := e.(type) {
		case *ast.ParenExpr:
			e = x.X
			continue
		case *ast.SliceExpr:
			e = x.X
			continue
		case *ast.IndexExpr:
			if depth == 0 {
				return "", false
			}
			depth--
			e = x.X
			continue
		case *ast.SelectorExpr:
			if depth != 0 {
				return "", false
			}
			return x.Sel.Name, true
		}
		return "", false
	}
}

func inplaceSites(repo string, fields map[string]int) []site {
	var out []site
	fset := token.NewFileSet()
	for _, dir := range []string{"core/state", "staking"} {
		pkgs, err := parser.ParseDir(fset, filepath.Join(repo, dir), func(fi os.FileInfo) bool {
			n := fi.Name()
			return !strings.HasSuffix(n, "_test.go") && !strings.HasPrefix(n, "zz_verif")
		}, 0)
		if err != nil {
			fmt.Fprintln(os.Stderr, "copytable: cannot parse", dir, err)
			os.Exit(2)
		}
		for _, pkg := range pkgs {
			var names []string
			for n := range pkg.Files {
				names = append(names, n)
			}
			sort.Strings(names)
			for _, fn := range names {
				for _, d := range pkg.Files[fn].Decls {
					fd, ok := d.(*ast.FuncDecl)
					if !ok || fd.Body == nil {
						continue
					}
					fname := dir + ":" + fd.Name.Name
					hit := func(e ast.Expr, extra int, what string) {
						for f, depth := range fields {
							if name, ok := baseField(e, depth+extra); ok && name == f {
								out = append(out, site{f, fname, what})
							}
						}
					}
					ast.Inspect(fd.Body, func(n ast.Node) bool {
						switch x := n.(type) {
						case *ast.AssignStmt:
							for _, l := range x.Lhs {
								if ix, ok := l.(*ast.IndexExpr); ok {
									hit(ix.X, 0, "element assignment")
								}
								if st, ok := l.(*ast.StarExpr); ok { // *X.F = ..
									hit(st.X, 0, "store through the pointer")
								}
							}
						case *ast.IncDecStmt:
							if ix, ok := x.X.(*ast.IndexExpr); ok {
								hit(ix.X, 0, "element increment")
							}
						case *ast.CallExpr:
							fun := exprStr(x.Fun)
							switch {
							case fun == "append" && len(x.Args) > 0:
								hit(x.Args[0], 0, "append")
							case fun == "copy" && len(x.Args) > 0:
								hit(x.Args[0], 0, "copy into")
							case strings.HasPrefix(fun, "sort.") && len(x.Args) > 0:
								hit(x.Args[0], 0, "sort")
							default:
								if sel, ok := x.Fun.(*ast.SelectorExpr); ok && bigMutators[sel.Sel.Name] {
									hit(sel.X, 0, "big.Int "+sel.Sel.Name)
								}
							}
						}
						return true
					})
				}
			}
		}
	}
	sort.Slice(out, func(i, j int) bool {
		if out[i].Field != out[j].Field {
			return out[i].Field < out[j].Field
		}
		return out[i].Func+out[i].What < out[j].Func+out[j].What
	})
	return out
}

// copyFlags reads the two findings' code sites: does deepCopy carry the
// delegation cache, and is the dirty mark of Copy's third loop unconditional.
func copyFlags(repo string) flags {
	_, files := parseState(repo)
	var fl flags
	dc := findFunc(files["state_object.go"], "stateObject", "deepCopy")
	cp := findFunc(files["statedb.go"], "StateDB", "Copy")
	if dc == nil || cp == nil {
		fmt.Fprintln(os.Stderr, "copyflags: deepCopy / Copy not found")
		os.Exit(2)
	}
	got := map[string]bool{}
	ast.Inspect(dc.Body, func(n ast.Node) bool {
		if as, ok := n.(*ast.AssignStmt); ok {
			for _, l := range as.Lhs {
				if sel, ok := l.(*ast.SelectorExpr); ok {
					got[sel.Sel.Name] = true
				}
			}
		}
		return true
	})
	fl.KeepDlgs = got["delegations"] && got["dirtyDlgs"]
	ast.Inspect(cp.Body, func(n ast.Node) bool {
		rs, ok := n.(*ast.RangeStmt)
		if !ok {
			return true
		}
		if sel, ok := rs.X.(*ast.SelectorExpr); !ok || sel.Sel.Name != "stateObjectsDirty" {
			return true
		}
		for _, s := range rs.Body.List { // statements directly in the loop body
			if as, ok := s.(*ast.AssignStmt); ok {
				for _, l := range as.Lhs {
					if ix, ok := l.(*ast.IndexExpr); ok {
						if sel, ok := ix.X.(*ast.SelectorExpr); ok && sel.Sel.Name == "stateObjectsDirty" {
							fl.DirtyAlways = true
						}
					}
				}
			}
		}
		return true
	})
	return fl
}

// ---- live-object edit inventory ----------------------------------------------------------
// StateDB getters hand out pointers into live state (the withdraw queue, validator records,
// the statistics).  A caller that writes through such a pointer changes the state without any
// StateDB call; the change reaches the tries only because IntermediateRoot writes the queue,
// the statistics and every dirty validator from the live objects.  For every function of
// staking/ the identifiers bound to a getter result (directly, by range, by indexing, through
// pass-through accessors) are followed and every write through them is listed.

var liveGetters = map[string]bool{"GetWithdrawQueue": true, "GetValidatorByMainAddr": true, "GetValidatorsForUpdate": true,
	"GetValidators": true, "GetValidatorsStat": true, "GetStakingRecord": true, "GetDelegationsFrom": true}
var passThrough = map[string]bool{"List": true, "GetByKind": true, "GetByRole": true, "GetByIndex": true}
var objMutators = map[string]bool{"AddRewards": true, "SetRewardsResidue": true, "ResetRewards": true, "AddTotalRewards": true,
	"UpdateLastActive": true, "UpdateDelegationFrom": true, "AddVal": true, "SubVal": true, "Add": true, "Delete": true,
	"Insert": true, "RemoveRecords": true, "Remove": true}

type liveEdit struct {
	Func, Getter, Target, What string
	Updates                    bool // the function also calls UpdateValidator
}

// origin: the getter an expression's value comes from ("" if none)
func origin(e ast.Expr, live map[string]string) string {
	for {
		switch x := e.(type) {
		case *ast.ParenExpr:
			e = x.X
		case *ast.StarExpr:
			e = x.X
		case *ast.UnaryExpr:
			e = x.X
		case *ast.IndexExpr:
			e = x.X
		case *ast.SliceExpr:
			e = x.X
		case *ast.SelectorExpr:
			e = x.X
		case *ast.Ident:
			return live[x.Name]
		case *ast.CallExpr:
			sel, ok := x.Fun.(*ast.SelectorExpr)
			if !ok {
				return ""
			}
			if liveGetters[sel.Sel.Name] {
				return sel.Sel.Name
			}
			if passThrough[sel.Sel.Name] {
				e = sel.X
				continue
			}
			return ""
		default:
			return ""
		}
	}
}

func liveEdits(repo string) []liveEdit {
	var out []liveEdit
	fset := token.NewFileSet()
	pkgs, err := parser.ParseDir(fset, filepath.Join(repo, "staking"), func(fi os.FileInfo) bool {
		return !strings.HasSuffix(fi.Name(), "_test.go")
	}, 0)
	if err != nil {
		fmt.Fprintln(os.Stderr, "copytable: cannot parse staking", err)
		os.Exit(2)
	}
	for _, pkg := range pkgs {
		var names []string
		for n := range pkg.Files {
			names = append(names, n)
		}
		sort.Strings(names)
		for _, fn := range names {
			for _, d := range pkg.Files[fn].Decls {
				fd, ok := d.(*ast.FuncDecl)
				if !ok || fd.Body == nil {
					continue
				}
				live := map[string]string{}
				// two passes so that bindings made later in the text (loops) are seen
				for pass := 0; pass < 2; pass++ {
					ast.Inspect(fd.Body, func(n ast.Node) bool {
						switch x := n.(type) {
						case *ast.AssignStmt:
							if len(x.Rhs) >= 1 {
								for i, l := range x.Lhs {
									id, ok := l.(*ast.Ident)
									if !ok {
										continue
									}
									r := x.Rhs[0]
									if i < len(x.Rhs) {
										r = x.Rhs[i]
									}
									if i > 0 && len(x.Rhs) == 1 {
										continue // x, err := f(): only the first result is the object
									}
									if g := origin(r, live); g != "" {
										live[id.Name] = g
									}
								}
							}
						case *ast.RangeStmt:
							if g := origin(x.X, live); g != "" {
								if id, ok := x.Value.(*ast.Ident); ok {
									live[id.Name] = g
								}
							}
						}
						return true
					})
				}
				if len(live) == 0 {
					continue
				}
				fname := fd.Name.Name
				updates := false
				ast.Inspect(fd.Body, func(n ast.Node) bool {
					if c, ok := n.(*ast.CallExpr); ok {
						if sel, ok := c.Fun.(*ast.SelectorExpr); ok && sel.Sel.Name == "UpdateValidator" {
							updates = true
						}
					}
					return true
				})
				first := len(out)
				targetOf := func(e ast.Expr) string {
					// the field path below the live identifier
					var parts []string
					for {
						switch x := e.(type) {
						case *ast.SelectorExpr:
							parts = append([]string{x.Sel.Name}, parts...)
							e = x.X
							continue
						case *ast.IndexExpr:
							e = x.X
							continue
						case *ast.StarExpr:
							e = x.X
							continue
						case *ast.ParenExpr:
							e = x.X
							continue
						}
						break
					}
					return strings.Join(parts, ".")
				}
				ast.Inspect(fd.Body, func(n ast.Node) bool {
					switch x := n.(type) {
					case *ast.AssignStmt:
						if x.Tok == token.DEFINE {
							return true
						}
						for _, l := range x.Lhs {
							if _, isId := l.(*ast.Ident); isId {
								continue // rebinding the variable, not a write through it
							}
							if g := origin(l, live); g != "" {
								out = append(out, liveEdit{Func: fname, Getter: g, Target: targetOf(l), What: "assignment"})
							}
						}
					case *ast.IncDecStmt:
						if _, isId := x.X.(*ast.Ident); !isId {
							if g := origin(x.X, live); g != "" {
								out = append(out, liveEdit{Func: fname, Getter: g, Target: targetOf(x.X), What: "increment"})
							}
						}
					case *ast.CallExpr:
						sel, ok := x.Fun.(*ast.SelectorExpr)
						if !ok {
							return true
						}
						if g := origin(sel.X, live); g != "" {
							if _, recvIsCall := sel.X.(*ast.CallExpr); recvIsCall && !objMutators[sel.Sel.Name] {
								return true
							}
							t := targetOf(sel.X)
							switch {
							case bigMutators[sel.Sel.Name] && t != "":
								out = append(out, liveEdit{Func: fname, Getter: g, Target: t, What: "big.Int " + sel.Sel.Name})
							case objMutators[sel.Sel.Name]:
								what := sel.Sel.Name
								if t != "" {
									what = t + "." + what
								}
								out = append(out, liveEdit{Func: fname, Getter: g, Target: what, What: "method"})
							}
						}
					}
					return true
				})
				for i := first; i < len(out); i++ {
					out[i].Updates = updates
				}
			}
		}
	}
	sort.Slice(out, func(i, j int) bool {
		a, b := out[i], out[j]
		return a.Getter+a.Target+a.Func+a.What < b.Getter+b.Target+b.Func+b.What
	})
	// one row per (getter, target, function)
	var ded []liveEdit
	for i, e := range out {
		if i > 0 && e.Getter == out[i-1].Getter && e.Target == out[i-1].Target && e.Func == out[i-1].Func {
			continue
		}
		ded = append(ded, e)
	}
	return ded
}

func copyTable(repo, out string) {
	rows := inventory(repo)
	fl := copyFlags(repo)
	var sb strings.Builder
	sb.WriteString("(* GENERATED by harness/cmd/c10 copytable from core/state of the working tree. Do not edit. *)\n")
	sb.WriteString("From Coq Require Import List String NArith.\nImport ListNotations.\nLocal Open Scope string_scope.\n")
	sb.WriteString("(* struct, field, is a reference type, class: 1 value, 2 deep, 3 fresh, 4 shared, 5 missing, 6 new container with shared elements *)\n")
	sb.WriteString("Definition copy_table : list (string * string * bool * N) := [\n")
	for i, r := range rows {
		if i > 0 {
			sb.WriteString(";\n")
		}
		sb.WriteString(fmt.Sprintf("  (\"%s\", \"%s\", %s, %d%%N)", r.Struct, r.Field, vf.Bool(r.Ref), r.Class))
	}
	sb.WriteString("].\n")
	// numeric form for the aliasing layer: struct number, field number, class
	structNo := map[string]int{}
	var structs []string
	for _, r := range rows {
		if _, ok := structNo[r.Struct]; !ok {
			structNo[r.Struct] = len(structs)
			structs = append(structs, r.Struct)
		}
	}
	sb.WriteString("(* struct number, field number (position in copy_table), class *)\nDefinition copy_table_n : list (N * N * N) := [\n")
	for i, r := range rows {
		if i > 0 {
			sb.WriteString(";\n")
		}
		sb.WriteString(fmt.Sprintf("  (%d%%N, %d%%N, %d%%N)", structNo[r.Struct], i, r.Class))
	}
	sb.WriteString("].\n")
	// in-place writes through the fields the copy shares (depth 0) or whose elements it shares (depth 1)
	shared := map[string]int{}
	for _, r := range rows {
		if !r.Ref || r.Field == "db" {
			continue // the database handle (monotone store) and the back pointer to the owning StateDB
		}
		if r.Class == clShared {
			shared[r.Field] = 0
		}
		if r.Class == clElems {
			shared[r.Field] = 1
		}
	}
	sites := inplaceSites(repo, shared)
	sb.WriteString("(* in-place writes through a shared field: field, function, what *)\nDefinition inplace_sites : list (string * string * string) := [\n")
	for i, st := range sites {
		if i > 0 {
			sb.WriteString(";\n")
		}
		sb.WriteString(fmt.Sprintf("  (\"%s\", \"%s\", \"%s\")", st.Field, st.Func, st.What))
	}
	sb.WriteString("].\n")
	sb.WriteString("(* writes of the staking module through objects a StateDB getter handed out: getter, field or method, function, does the function also call UpdateValidator *)\nDefinition live_edits : list (string * string * string * bool) := [\n")
	for i, e := range liveEdits(repo) {
		if i > 0 {
			sb.WriteString(";\n")
		}
		sb.WriteString(fmt.Sprintf("  (\"%s\", \"%s\", \"%s\", %s)", e.Getter, e.Target, e.Func, vf.Bool(e.Updates)))
	}
	sb.WriteString("].\n")
	sb.WriteString(fmt.Sprintf("Definition deepcopy_keeps_delegations : bool := %s.\nDefinition copy_marks_dirty_always : bool := %s.\n", vf.Bool(fl.KeepDlgs), vf.Bool(fl.DirtyAlways)))
	vf.WriteIfChanged(out, sb.String())
}
