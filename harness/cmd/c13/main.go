// C13 harness: drives trie.Trie / trie.SecureTrie / trie.Database /
// trie.VerifyProof / types.DeriveSha of the working tree over generated
// histories, writes the histories with the implementation's observations as a
// Coq file for the model comparison, and evaluates the property oracle
// (reference map + an independent recursive Merkle-Patricia root + proof
// soundness/completeness + liveness of referenced roots) on the
// implementation's own observations.
package main

import (
	"bytes"
	"encoding/hex"
	"encoding/json"
	"flag"
	"fmt"
	"io/ioutil"
	"os"
	"os/exec"
	"path/filepath"
	"sort"
	"strings"

	"github.com/youchainhq/go-youchain/common"
	"github.com/youchainhq/go-youchain/core/types"
	"github.com/youchainhq/go-youchain/crypto"
	"github.com/youchainhq/go-youchain/trie"
	"github.com/youchainhq/go-youchain/youdb"
	"verif/harness/vf"
)

// ---- hex-encoded byte strings in JSON -------------------------------------

type hexb []byte

func (h hexb) MarshalText() ([]byte, error) { return []byte(hex.EncodeToString(h)), nil }
func (h *hexb) UnmarshalText(t []byte) error {
	b, err := hex.DecodeString(string(t))
	*h = b
	return err
}

// ---- history format (inputs only; replayable) -----------------------------

type Tamper struct {
	Mode   string `json:"mode"` // flip | drop | subst | foreign | extra
	Node   int    `json:"node"`
	Byte   int    `json:"byte"`
	Xor    int    `json:"xor"`
	AltKey hexb   `json:"alt_key,omitempty"`
	AltVal hexb   `json:"alt_val,omitempty"`
	// lying database mode (verifydb): flip | emptykey | truncate | junk
}

type Step struct {
	Kind   string  `json:"kind"` // update delete get hash iter nodeiter prove verify verifydb commit dbcommit reopen derive keccak
	K      hexb    `json:"k,omitempty"`
	V      hexb    `json:"v,omitempty"`
	From   int     `json:"from,omitempty"`
	Tamper *Tamper `json:"tamper,omitempty"`
	Items  []hexb  `json:"items,omitempty"`
	H      int     `json:"h,omitempty"` // handle the step is addressed to (0 = the original trie; "copy" creates the next one from H)
}

type History struct {
	Kind       string   `json:"hkind,omitempty"` // "" = trie history, "gc" = database schedule
	Secure     bool     `json:"secure"`
	CacheLimit int      `json:"cachelimit"`
	Steps      []Step   `json:"steps,omitempty"`
	Gc         []GcStep `json:"gc,omitempty"`
	Comment    string   `json:"comment,omitempty"`
}

type hit struct {
	What    string  `json:"what"`
	Detail  string  `json:"detail"`
	History History `json:"history"`
}

// ---- independent reference: the recursive Merkle-Patricia definition --------

func rlpLen(off byte, n int) []byte {
	if n < 56 {
		return []byte{off + byte(n)}
	}
	var be []byte
	for x := n; x > 0; x >>= 8 {
		be = append([]byte{byte(x)}, be...)
	}
	return append([]byte{off + 55 + byte(len(be))}, be...)
}
func rlpStr(b []byte) []byte {
	if len(b) == 1 && b[0] < 0x80 {
		return []byte{b[0]}
	}
	return append(rlpLen(0x80, len(b)), b...)
}
func rlpList(items ...[]byte) []byte {
	var body []byte
	for _, it := range items {
		body = append(body, it...)
	}
	return append(rlpLen(0xc0, len(body)), body...)
}

func toHex(key []byte) []byte {
	out := make([]byte, 0, 2*len(key)+1)
	for _, b := range key {
		out = append(out, b>>4, b&15)
	}
	return append(out, 16)
}

// hex-prefix encoding (yellow paper appendix C)
func hexPrefix(nibs []byte, leaf bool) []byte {
	flag := byte(0)
	if leaf {
		flag = 2
	}
	var out []byte
	if len(nibs)%2 == 1 {
		out = append(out, (flag+1)<<4|nibs[0])
		nibs = nibs[1:]
	} else {
		out = append(out, flag<<4)
	}
	for i := 0; i+1 < len(nibs); i += 2 {
		out = append(out, nibs[i]<<4|nibs[i+1])
	}
	return out
}

type refKV struct {
	hexkey []byte // with terminator
	val    []byte
}

type memo struct {
	pairs map[string][]byte
	order []string
}

func newMemo() *memo { return &memo{pairs: map[string][]byte{}} }
func (m *memo) hash(data []byte) []byte {
	if h, ok := m.pairs[string(data)]; ok {
		return h
	}
	h := crypto.Keccak256(data)
	m.pairs[string(data)] = h
	m.order = append(m.order, string(data))
	return h
}

// refNode returns the RLP encoding of the node for kvs (sorted, all sharing
// their first depth nibbles).
func refNode(kvs []refKV, depth int, m *memo) []byte {
	if len(kvs) == 1 {
		return rlpList(rlpStr(hexPrefix(kvs[0].hexkey[depth:len(kvs[0].hexkey)-1], true)), rlpStr(kvs[0].val))
	}
	a, b := kvs[0].hexkey, kvs[len(kvs)-1].hexkey
	lcp := depth
	for lcp < len(a) && lcp < len(b) && a[lcp] == b[lcp] {
		lcp++
	}
	if lcp > depth {
		return rlpList(rlpStr(hexPrefix(a[depth:lcp], false)), refRef(refNode(kvs, lcp, m), m))
	}
	items := make([][]byte, 17)
	for i := range items {
		items[i] = []byte{0x80}
	}
	for i := 0; i < len(kvs); {
		nib := kvs[i].hexkey[depth]
		j := i
		for j < len(kvs) && kvs[j].hexkey[depth] == nib {
			j++
		}
		if nib == 16 {
			items[16] = rlpStr(kvs[i].val)
		} else {
			items[nib] = refRef(refNode(kvs[i:j], depth+1, m), m)
		}
		i = j
	}
	return rlpList(items...)
}

func refRef(enc []byte, m *memo) []byte {
	if len(enc) < 32 {
		return enc
	}
	return rlpStr(m.hash(enc))
}

var emptyRoot = common.HexToHash("56e81f171bcc55a6ff8345e692c0f86e5b48e01b996cadc001622fb5e363b421")

func sortedRef(ref map[string][]byte) []refKV {
	var kvs []refKV
	for k, v := range ref {
		kvs = append(kvs, refKV{toHex([]byte(k)), v})
	}
	sort.Slice(kvs, func(i, j int) bool { return bytes.Compare(kvs[i].hexkey, kvs[j].hexkey) < 0 })
	return kvs
}

func refRoot(ref map[string][]byte, m *memo) common.Hash {
	if len(ref) == 0 {
		return emptyRoot
	}
	return common.BytesToHash(m.hash(refNode(sortedRef(ref), 0, m)))
}

// ---- running a trie history -----------------------------------------------

type anyTrie interface {
	TryGet(key []byte) ([]byte, error)
	TryUpdate(key, value []byte) error
	TryDelete(key []byte) error
	Hash() common.Hash
	Commit(onleaf trie.LeafCallback) (common.Hash, error)
	NodeIterator(start []byte) trie.NodeIterator
	Prove(key []byte, fromLevel uint, proofDb youdb.Putter) error
}

type recPutter struct{ blobs [][]byte }

func (p *recPutter) Put(k, v []byte) error {
	p.blobs = append(p.blobs, common.CopyBytes(v))
	return nil
}

type mapReader map[string][]byte

func (m mapReader) Get(k []byte) ([]byte, error) {
	if v, ok := m[string(k)]; ok {
		return v, nil
	}
	return nil, fmt.Errorf("not found")
}
func (m mapReader) Has(k []byte) (bool, error) { _, ok := m[string(k)]; return ok, nil }

const (
	rVal = iota
	rAbsent
	rErr
	rPanic
)

type vres struct {
	kind int
	val  []byte
}

func (v vres) coq() string {
	switch v.kind {
	case rVal:
		return "(VVal " + bl(v.val) + ")"
	case rAbsent:
		return "VAbsent"
	case rErr:
		return "VErr"
	}
	return "VPanic"
}
func (v vres) String() string {
	return []string{"value:", "absent", "error", "panic"}[v.kind] + hex.EncodeToString(v.val)
}
func (v vres) same(o vres) bool { return v.kind == o.kind && bytes.Equal(v.val, o.val) }

func verify(root common.Hash, key []byte, db trie.DatabaseReader) (r vres) {
	defer func() {
		if e := recover(); e != nil {
			r = vres{kind: rPanic}
		}
	}()
	val, _, err := trie.VerifyProof(root, key, db)
	if err != nil {
		return vres{kind: rErr}
	}
	if val == nil {
		return vres{kind: rAbsent}
	}
	return vres{kind: rVal, val: val}
}

func contentDb(proof [][]byte, m *memo) mapReader {
	db := mapReader{}
	for _, e := range proof {
		db[string(m.hash(e))] = e
	}
	return db
}

// Coq printers
func bl(b []byte) string {
	var sb strings.Builder
	fmt.Fprintf(&sb, "(B %d [", len(b))
	for i := 0; i < len(b); i += 7 {
		if i > 0 {
			sb.WriteByte(';')
		}
		j := i + 7
		if j > len(b) {
			j = len(b)
		}
		var w uint64
		for _, c := range b[i:j] {
			w = w<<8 | uint64(c)
		}
		fmt.Fprintf(&sb, "%d", w)
	}
	sb.WriteString("])")
	return sb.String()
}
func bll(bs [][]byte) string {
	xs := make([]string, len(bs))
	for i, b := range bs {
		xs[i] = bl(b)
	}
	return "[" + strings.Join(xs, ";") + "]"
}
func hashB(h common.Hash) []byte {
	if h == (common.Hash{}) {
		return nil
	}
	return h.Bytes()
}
func pairs(ps [][2][]byte) string {
	xs := make([]string, len(ps))
	for i, p := range ps {
		xs[i] = "(" + bl(p[0]) + "," + bl(p[1]) + ")"
	}
	return "[" + strings.Join(xs, ";") + "]"
}

type runner struct {
	h       *History
	secure  bool
	diskdb  *youdb.MemDatabase
	triedb  *trie.Database
	tr      anyTrie
	ref     map[string][]byte // trie key (after hashing for secure tries) -> value
	m       *memo
	ops     []string // Coq ops
	hits    []hit
	res     *vf.Result
	lastRoot common.Hash
	committed bool // the trie has not changed since the last Commit
	// handles (a trie and its copies): tr/ref/ops above are those of the current one
	trs  []anyTrie
	refs []map[string][]byte
	hops [][]string
}

// copyOf makes a second handle the way callers do: a struct copy of a Trie, Copy() of a SecureTrie.
func copyOf(t anyTrie) anyTrie {
	switch x := t.(type) {
	case *trie.Trie:
		c := *x
		return &c
	case *trie.SecureTrie:
		return x.Copy()
	}
	return t
}

// checkHandles compares every handle with its own reference map: root, every
// key, iteration.  It works on throw-away copies so that it leaves no cached
// hashes behind in the handles themselves.
func (r *runner) checkHandles(step int) {
	for hi, t := range r.trs {
		c := copyOf(t)
		ref := r.refs[hi]
		if got, want := c.Hash(), refRoot(ref, newMemo()); got != want {
			r.fail("a handle's root is not the root of its own content (copies are not independent)", fmt.Sprintf("after step %d handle %d: root %x, content has root %x", step, hi, got, want))
			return
		}
		if !r.secure {
			for k, v := range ref {
				got, err := c.TryGet([]byte(k))
				if err != nil || !bytes.Equal(got, v) {
					r.fail("a handle lost or changed a key it did not touch (copies are not independent)", fmt.Sprintf("after step %d handle %d key %x: got %x want %x err %v", step, hi, k, got, v, err))
					return
				}
			}
		}
		it := trie.NewIterator(copyOf(t).NodeIterator(nil))
		n := 0
		for it.Next() {
			if want, ok := ref[string(it.Key)]; !ok || !bytes.Equal(want, it.Value) {
				r.fail("a handle iterates a pair it does not hold (copies are not independent)", fmt.Sprintf("after step %d handle %d key %x", step, hi, it.Key))
				return
			}
			n++
		}
		if it.Err != nil || n != len(ref) {
			r.fail("a handle lost or changed a key it did not touch (copies are not independent)", fmt.Sprintf("after step %d handle %d: iteration gives %d of %d pairs, err %v", step, hi, n, len(ref), it.Err))
			return
		}
	}
}

func (r *runner) fail(what, detail string) {
	if r.res != nil {
		r.res.Count("oracle:" + what)
	}
	r.hits = append(r.hits, hit{What: what, Detail: detail, History: *r.h})
}

func (r *runner) count(c string) {
	if r.res != nil {
		r.res.Count(c)
	}
}

func (r *runner) tkey(k []byte) []byte {
	if r.secure {
		return r.m.hash(k)
	}
	return k
}

func (r *runner) open(root common.Hash) error {
	if r.secure {
		t, err := trie.NewSecure(root, r.triedb, uint16(r.h.CacheLimit))
		if err != nil {
			return err
		}
		r.tr = t
		return nil
	}
	t, err := trie.New(root, r.triedb)
	if err != nil {
		return err
	}
	t.SetCacheLimit(uint16(r.h.CacheLimit))
	r.tr = t
	return nil
}

// freshTrie builds an in-memory trie with the given content, inserted in the
// order given by perm (history independence is checked against it).
func freshTrie(kvs []refKV, keys [][]byte, rng *vf.Rng) *trie.Trie {
	t := new(trie.Trie)
	idx := make([]int, len(keys))
	for i := range idx {
		idx[i] = i
	}
	for i := len(idx) - 1; i > 0; i-- {
		j := rng.Intn(i + 1)
		idx[i], idx[j] = idx[j], idx[i]
	}
	for _, i := range idx {
		t.Update(keys[i], kvs[i].val)
	}
	return t
}

func refKeys(ref map[string][]byte) ([]refKV, [][]byte) {
	kvs := sortedRef(ref)
	keys := make([][]byte, len(kvs))
	for i, kv := range kvs {
		hk := kv.hexkey[:len(kv.hexkey)-1]
		k := make([]byte, len(hk)/2)
		for j := range k {
			k[j] = hk[2*j]<<4 | hk[2*j+1]
		}
		keys[i] = k
	}
	return kvs, keys
}

func anyPrefix(keys [][]byte) bool {
	for i := 0; i+1 < len(keys); i++ {
		// keys are sorted in hex-with-terminator order; check all pairs (small sets)
		for j := 0; j < len(keys); j++ {
			if i != j && bytes.HasPrefix(keys[j], keys[i]) {
				return true
			}
		}
	}
	if n := len(keys); n > 1 {
		for j := 0; j < n-1; j++ {
			if bytes.HasPrefix(keys[j], keys[n-1]) {
				return true
			}
		}
	}
	return false
}

func (r *runner) honestProof(t anyTrie, key []byte, from int) ([][]byte, error) {
	p := &recPutter{}
	err := t.Prove(key, uint(from), p)
	return p.blobs, err
}

func (r *runner) expected(key []byte) vres {
	if v, ok := r.ref[string(key)]; ok {
		return vres{kind: rVal, val: v}
	}
	return vres{kind: rAbsent}
}

// alteredTrie: the reference content with one key changed, as an in-memory trie
func (r *runner) alteredTrie(k, v []byte) *trie.Trie {
	t := new(trie.Trie)
	for key, val := range r.ref {
		t.Update([]byte(key), val)
	}
	t.Update(k, v)
	return t
}

func (r *runner) step(i int, s *Step, rng *vf.Rng) {
	switch s.Kind {
	case "update":
		k := r.tkey(s.K)
		old, had := r.ref[string(k)]
		if err := r.tr.TryUpdate(s.K, s.V); err != nil {
			r.fail("update returned an error", err.Error())
		}
		if len(s.V) == 0 {
			delete(r.ref, string(k))
			if had {
				r.count("op:update_empty_deletes")
			} else {
				r.count("op:update_empty_missing")
			}
		} else {
			r.ref[string(k)] = common.CopyBytes(s.V)
			switch {
			case !had:
				r.count("op:update_new")
			case bytes.Equal(old, s.V):
				r.count("op:update_same")
			default:
				r.count("op:update_overwrite")
			}
			switch {
			case len(s.V) >= 32:
				r.count("value:ge32")
			case len(s.V) == 1 && s.V[0] < 0x80:
				r.count("value:single_small_byte")
			}
		}
		r.committed = false
		r.ops = append(r.ops, fmt.Sprintf("OUpdate %s %s", bl(s.K), bl(s.V)))
	case "delete":
		k := r.tkey(s.K)
		if _, had := r.ref[string(k)]; had {
			r.count("op:delete_existing")
		} else {
			r.count("op:delete_missing")
		}
		if err := r.tr.TryDelete(s.K); err != nil {
			r.fail("delete returned an error", err.Error())
		}
		delete(r.ref, string(k))
		r.committed = false
		r.ops = append(r.ops, fmt.Sprintf("ODelete %s", bl(s.K)))
	case "get":
		v, err := r.tr.TryGet(s.K)
		if err != nil {
			r.fail("get returned an error", err.Error())
		}
		want, had := r.ref[string(r.tkey(s.K))]
		if had != (v != nil) || !bytes.Equal(v, want) {
			r.fail("lookup differs from the surviving key-value pairs", fmt.Sprintf("step %d key %x got %x want %x", i, s.K, v, want))
		}
		if had {
			r.count("op:get_hit")
			r.ops = append(r.ops, fmt.Sprintf("OGet %s (Some %s)", bl(s.K), bl(v)))
		} else {
			r.count("op:get_miss")
			r.ops = append(r.ops, fmt.Sprintf("OGet %s None", bl(s.K)))
		}
	case "hash":
		root := r.tr.Hash()
		r.count("op:hash")
		if want := refRoot(r.ref, r.m); root != want {
			r.fail("root is not the standard Merkle-Patricia root of the content", fmt.Sprintf("step %d got %x want %x", i, root, want))
		}
		kvs, keys := refKeys(r.ref)
		if fr := freshTrie(kvs, keys, rng).Hash(); fr != root {
			r.fail("root depends on history", fmt.Sprintf("step %d history root %x, fresh trie with the same content %x", i, root, fr))
		}
		r.ops = append(r.ops, fmt.Sprintf("OHash %s", bl(root.Bytes())))
	case "iter":
		refRoot(r.ref, r.m)
		it := trie.NewIterator(r.tr.NodeIterator(nil))
		var got [][2][]byte
		for it.Next() {
			got = append(got, [2][]byte{common.CopyBytes(it.Key), common.CopyBytes(it.Value)})
		}
		if it.Err != nil {
			r.fail("iteration returned an error", it.Err.Error())
		}
		kvs, keys := refKeys(r.ref)
		ok := len(got) == len(kvs)
		for j := 0; ok && j < len(got); j++ {
			ok = bytes.Equal(got[j][0], keys[j]) && bytes.Equal(got[j][1], kvs[j].val)
		}
		if !ok {
			r.fail("iteration differs from the surviving key-value pairs", fmt.Sprintf("step %d got %d pairs want %d", i, len(got), len(kvs)))
		}
		if !anyPrefix(keys) {
			r.count("iter:prefix_free")
			for j := 0; j+1 < len(got); j++ {
				if bytes.Compare(got[j][0], got[j+1][0]) >= 0 {
					r.fail("iteration is not in ascending key order", fmt.Sprintf("step %d", i))
				}
			}
		} else {
			r.count("iter:with_prefix_keys")
		}
		r.ops = append(r.ops, "OIter "+pairs(got))
	case "nodeiter":
		refRoot(r.ref, r.m)
		it := r.tr.NodeIterator(s.K)
		var es []string
		n := 0
		for it.Next(true) {
			blob := "None"
			if it.Leaf() {
				blob = "(Some " + bl(it.LeafBlob()) + ")"
			}
			es = append(es, fmt.Sprintf("(%s,%s,%s)", bl(it.Path()), bl(hashB(it.Hash())), blob))
			n++
		}
		if it.Error() != nil {
			r.fail("node iteration returned an error", it.Error().Error())
		}
		if len(s.K) == 0 {
			r.count("op:nodeiter")
		} else {
			r.count("op:nodeiter_seek")
		}
		r.ops = append(r.ops, fmt.Sprintf("ONodeIter %s [%s]", bl(s.K), strings.Join(es, ";")))
	case "prove":
		key := r.tkey(s.K)
		root := r.tr.Hash()
		refRoot(r.ref, r.m)
		proof, err := r.honestProof(r.tr, key, s.From)
		if err != nil {
			r.fail("prove returned an error", err.Error())
		}
		got := verify(root, key, contentDb(proof, r.m))
		if s.From == 0 && len(r.ref) > 0 {
			if want := r.expected(key); !got.same(want) {
				r.fail("an honest proof does not verify to the stored value / absence", fmt.Sprintf("step %d key %x got %v want %v", i, key, got, want))
			}
		}
		r.count("prove:" + []string{"value", "absent", "error", "panic"}[got.kind])
		r.ops = append(r.ops, fmt.Sprintf("OProve %s %d%%nat %s %s", bl(key), s.From, bll(proof), got.coq()))
	case "verify":
		key := r.tkey(s.K)
		root := r.tr.Hash()
		refRoot(r.ref, r.m)
		proof, _ := r.honestProof(r.tr, key, 0)
		if len(proof) == 0 {
			r.count("tamper:skipped_empty")
			return
		}
		tm := s.Tamper
		var tampered [][]byte
		for _, e := range proof {
			tampered = append(tampered, common.CopyBytes(e))
		}
		switch tm.Mode {
		case "flip":
			n := tampered[tm.Node%len(tampered)]
			n[tm.Byte%len(n)] ^= byte(tm.Xor | 1)
		case "drop":
			j := tm.Node % len(tampered)
			tampered = append(tampered[:j], tampered[j+1:]...)
		case "subst", "foreign", "extra":
			alt := r.alteredTrie(r.tkey(tm.AltKey), tm.AltVal)
			ap := &recPutter{}
			alt.Prove(key, 0, ap)
			switch tm.Mode {
			case "subst":
				if len(ap.blobs) > 0 {
					tampered[tm.Node%len(tampered)] = ap.blobs[tm.Node%len(ap.blobs)]
				}
			case "foreign":
				tampered = ap.blobs
			case "extra":
				tampered = append(tampered, ap.blobs...)
			}
		}
		got := verify(root, key, contentDb(tampered, r.m))
		want := r.expected(key)
		r.count("tamper:" + tm.Mode + ":" + []string{"value", "absent", "error", "panic"}[got.kind])
		if got.kind == rPanic {
			r.fail("VerifyProof panics on a tampered proof", fmt.Sprintf("step %d", i))
		} else if got.kind != rErr && len(r.ref) > 0 && !got.same(want) {
			r.fail("a tampered proof verifies to a different answer", fmt.Sprintf("step %d key %x got %v, trie holds %v", i, key, got, want))
		}
		r.ops = append(r.ops, fmt.Sprintf("OVerify %s %s %s %s", bl(root.Bytes()), bl(key), bll(tampered), got.coq()))
	case "verifydb":
		// a proof database that lies about its keys: correspondence only
		key := r.tkey(s.K)
		root := r.tr.Hash()
		refRoot(r.ref, r.m)
		proof, _ := r.honestProof(r.tr, key, 0)
		if len(proof) == 0 {
			return
		}
		tm := s.Tamper
		db := mapReader{}
		var order [][]byte
		for _, e := range proof {
			h := r.m.hash(e)
			db[string(h)] = common.CopyBytes(e)
			order = append(order, h)
		}
		tgt := order[tm.Node%len(order)]
		blob := db[string(tgt)]
		switch tm.Mode {
		case "flip":
			blob[tm.Byte%len(blob)] ^= byte(tm.Xor | 1)
		case "set":
			blob[tm.Byte%len(blob)] = byte(tm.Xor)
		case "truncate":
			blob = blob[:tm.Byte%len(blob)]
		case "emptykey":
			// a two-item list whose compact key is the empty string
			blob = append([]byte{0xc2, 0x80}, byte(tm.Xor))
		case "junk":
			blob = append([]byte{}, tm.AltVal...)
		}
		db[string(tgt)] = blob
		got := verify(root, key, db)
		r.count("lyingdb:" + tm.Mode + ":" + []string{"value", "absent", "error", "panic"}[got.kind])
		var ps [][2][]byte
		for _, h := range order {
			ps = append(ps, [2][]byte{h, db[string(h)]})
		}
		r.ops = append(r.ops, fmt.Sprintf("OVerifyDb %s %s %s %s", bl(root.Bytes()), bl(key), pairs(ps), got.coq()))
	case "commit":
		refRoot(r.ref, r.m)
		root, err := r.tr.Commit(nil)
		if err != nil {
			r.fail("commit returned an error", err.Error())
			return
		}
		r.lastRoot = root
		r.committed = true
		r.count("op:commit")
		if want := refRoot(r.ref, r.m); root != want {
			r.fail("root is not the standard Merkle-Patricia root of the content", fmt.Sprintf("step %d (commit) got %x want %x", i, root, want))
		}
		// everything the Database holds (memory and disk)
		seen := map[string][]byte{}
		for _, h := range r.triedb.Nodes() {
			b, _ := r.triedb.Node(h)
			seen[string(h.Bytes())] = b
		}
		for _, k := range r.diskdb.Keys() {
			if len(k) == 32 {
				b, _ := r.diskdb.Get(k)
				seen[string(k)] = b
			}
		}
		var hs []string
		for h := range seen {
			hs = append(hs, h)
		}
		sort.Strings(hs)
		var ps [][2][]byte
		for _, h := range hs {
			ps = append(ps, [2][]byte{[]byte(h), seen[h]})
		}
		r.ops = append(r.ops, fmt.Sprintf("OCommit %s %s", bl(root.Bytes()), pairs(ps)))
	case "dbcommit":
		if !r.committed || r.lastRoot == emptyRoot {
			return
		}
		if err := r.triedb.Commit(r.lastRoot, false); err != nil {
			r.fail("database commit returned an error", err.Error())
		}
		r.count("op:dbcommit")
		// the committed root must be readable through a fresh Database over the same disk
		if what := readCompletely(trie.NewDatabase(r.diskdb), r.lastRoot, r.ref); what != "" {
			r.fail("a committed root cannot be read back from disk", fmt.Sprintf("step %d root %x: %s", i, r.lastRoot, what))
		}
	case "reopen":
		if !r.committed {
			return
		}
		if err := r.open(r.lastRoot); err != nil {
			r.fail("committing and reopening loses nodes", fmt.Sprintf("step %d: %v", i, err))
			return
		}
		r.count("op:reopen")
		// the reopened trie must hold exactly the reference content
		it := trie.NewIterator(r.tr.NodeIterator(nil))
		n := 0
		for it.Next() {
			if want, ok := r.ref[string(it.Key)]; !ok || !bytes.Equal(want, it.Value) {
				r.fail("committing and reopening changes the content", fmt.Sprintf("step %d key %x", i, it.Key))
			}
			n++
		}
		if it.Err != nil || n != len(r.ref) {
			r.fail("committing and reopening loses content", fmt.Sprintf("step %d: %d of %d pairs, err %v", i, n, len(r.ref), it.Err))
		}
		r.ops = append(r.ops, "OReopen")
	case "derive":
		var raw [][]byte
		ref := map[string][]byte{}
		for j, it := range s.Items {
			raw = append(raw, it)
			k := rlpUint(uint64(j))
			if len(it) > 0 {
				ref[string(k)] = it
			} else {
				delete(ref, string(k))
			}
		}
		root := types.DeriveSha(blobList(raw))
		if want := refRoot(ref, r.m); root != want {
			r.fail("DeriveSha is not the standard Merkle-Patricia root of the list", fmt.Sprintf("step %d got %x want %x", i, root, want))
		}
		r.count("op:derive")
		r.ops = append(r.ops, fmt.Sprintf("ODerive %s %s", bll(raw), bl(root.Bytes())))
	case "keccak":
		h := crypto.Keccak256(s.K)
		r.count("op:keccak")
		r.ops = append(r.ops, fmt.Sprintf("OKeccak %s %s", bl(s.K), bl(h)))
	}
}

type blobList [][]byte

func (b blobList) Len() int            { return len(b) }
func (b blobList) GetRlp(i int) []byte { return b[i] }

func rlpUint(x uint64) []byte {
	if x == 0 {
		return []byte{0x80}
	}
	var be []byte
	for ; x > 0; x >>= 8 {
		be = append([]byte{byte(x)}, be...)
	}
	return rlpStr(be)
}

// runHistory executes a trie history on the implementation; returns the Coq
// case and the oracle hits.
func runHistory(h *History, res *vf.Result, seed uint64) (string, []hit) {
	r := &runner{h: h, secure: h.Secure, ref: map[string][]byte{}, m: newMemo(), res: res}
	r.diskdb = youdb.NewMemDatabase()
	r.triedb = trie.NewDatabase(r.diskdb)
	rng := vf.NewRng(mixSeed(seed ^ 0xabcdef))
	func() {
		defer func() {
			if e := recover(); e != nil {
				r.fail("the implementation panicked", fmt.Sprint(e))
			}
		}()
		if err := r.open(common.Hash{}); err != nil {
			r.fail("cannot open an empty trie", err.Error())
			return
		}
		r.trs, r.refs, r.hops = []anyTrie{r.tr}, []map[string][]byte{r.ref}, [][]string{nil}
		for i := range h.Steps {
			s := &h.Steps[i]
			hi := s.H
			if hi < 0 || hi >= len(r.trs) {
				hi = 0
			}
			if s.Kind == "copy" {
				r.trs = append(r.trs, copyOf(r.trs[hi]))
				nref := map[string][]byte{}
				for k, v := range r.refs[hi] {
					nref[k] = v
				}
				r.refs = append(r.refs, nref)
				// the model replays the source's updates for the new handle (value semantics)
				var log []string
				for _, o := range r.hops[hi] {
					if strings.HasPrefix(o, "OUpdate ") || strings.HasPrefix(o, "ODelete ") {
						log = append(log, o)
					}
				}
				r.hops = append(r.hops, log)
				r.count("op:copy")
			} else {
				r.tr, r.ref, r.ops = r.trs[hi], r.refs[hi], r.hops[hi]
				r.step(i, s, rng)
				r.trs[hi], r.hops[hi] = r.tr, r.ops
			}
			if len(r.trs) > 1 {
				r.checkHandles(i)
				if len(r.hits) > 0 {
					break
				}
			}
		}
	}()
	var tab []string
	for _, d := range r.m.order {
		tab = append(tab, "("+bl([]byte(d))+","+bl(r.m.pairs[d])+")")
	}
	all := r.ops
	if len(r.hops) > 0 {
		all = nil
		for hi, log := range r.hops {
			if hi > 0 {
				all = append(all, "OReset")
			}
			all = append(all, log...)
		}
	}
	return fmt.Sprintf("mkCase %s [%s] [%s] []", vf.Bool(h.Secure), strings.Join(tab, ";"), strings.Join(all, ";\n  ")), r.hits
}

// ---- generators -------------------------------------------------------------

type keyGen struct {
	pool [][]byte
}

func genPool(rng *vf.Rng) [][]byte {
	var pool [][]byte
	n := 2 + rng.Heavy(60)
	switch rng.Intn(6) {
	case 0: // short keys over a tiny alphabet: shared prefixes, prefix keys, the empty key
		alpha := []byte{0x00, 0x01, 0x10, 0x11, 0xf0, 0xff, 0x12}
		for i := 0; i < n; i++ {
			l := rng.Intn(4)
			k := make([]byte, l)
			for j := range k {
				k[j] = alpha[rng.Intn(len(alpha))]
			}
			pool = append(pool, k)
		}
	case 1: // chains: every key a prefix of the next
		base := rng.Bytes(1 + rng.Intn(6))
		for i := 0; i <= len(base) && i < n; i++ {
			pool = append(pool, append([]byte{}, base[:i]...))
		}
		for len(pool) < n {
			k := append([]byte{}, base[:rng.Intn(len(base)+1)]...)
			pool = append(pool, append(k, rng.Bytes(1+rng.Intn(2))...))
		}
	case 2: // 32-byte keys sharing long nibble prefixes
		base := rng.Bytes(32)
		for i := 0; i < n; i++ {
			k := append([]byte{}, base...)
			pos := rng.Intn(64)
			if rng.Chance(60) {
				pos = rng.Intn(6)
			}
			// change nibble pos and randomise the rest
			for j := pos/2 + 1; j < 32; j++ {
				k[j] = byte(rng.U64())
			}
			if pos%2 == 0 {
				k[pos/2] = byte(rng.U64())
			} else {
				k[pos/2] = k[pos/2]&0xf0 | byte(rng.Intn(16))
			}
			pool = append(pool, k)
		}
	case 3: // words
		words := []string{"do", "dog", "doge", "dogglesworth", "doe", "horse", "hors", "h", "", "dot", "ether", "eth"}
		for i := 0; i < n && i < len(words); i++ {
			pool = append(pool, []byte(words[rng.Intn(len(words))]))
		}
	case 4: // rlp(uint) keys as DeriveSha uses
		for i := 0; i < n; i++ {
			pool = append(pool, rlpUint(uint64(rng.Intn(300))))
		}
	default: // random short
		for i := 0; i < n; i++ {
			pool = append(pool, rng.Bytes(rng.Intn(5)))
		}
	}
	return pool
}

func genValue(rng *vf.Rng) []byte {
	switch rng.Intn(12) {
	case 0:
		return nil // deletes
	case 1:
		return []byte{byte(rng.Intn(128))} // single small byte: encodes as itself
	case 2:
		return []byte{byte(128 + rng.Intn(128))}
	case 3:
		return rng.Bytes(31 + rng.Intn(3)) // around the 32-byte embedding limit
	case 4:
		return rng.Bytes(54 + rng.Intn(4)) // around the long-string limit
	case 5:
		return rng.Bytes(60 + rng.Intn(140))
	case 6:
		return bytes.Repeat([]byte{byte(rng.Intn(4))}, 1+rng.Intn(40)) // equal values: identical subtrees
	default:
		return rng.Bytes(1 + rng.Intn(12))
	}
}

// genCopyHistory: a trie and its copies.  Keys share leading nibbles, the
// copies are taken before anything was hashed, and the copy then inserts under
// the same extension and deletes until branches below extensions collapse.
func genCopyHistory(rng *vf.Rng) History {
	h := History{Secure: rng.Chance(15)}
	pre := rng.Bytes(1 + rng.Intn(2))
	var pool [][]byte
	n := 3 + rng.Intn(5)
	for i := 0; i < n; i++ {
		k := append([]byte{}, pre...)
		switch rng.Intn(3) {
		case 0:
			k = append(k, byte(rng.Intn(4))<<4|byte(rng.Intn(4)))
		case 1:
			k = append(k, byte(rng.Intn(3))<<4, byte(rng.U64()))
		default:
			k[len(k)-1] = k[len(k)-1]&0xf0 | byte(rng.Intn(16))
			k = append(k, byte(rng.U64()))
		}
		pool = append(pool, k)
	}
	val := func() []byte {
		if rng.Chance(50) {
			return rng.Bytes(1 + rng.Intn(8))
		}
		return rng.Bytes(32 + rng.Intn(8))
	}
	first := 2 + rng.Intn(len(pool)-1)
	if first > len(pool) {
		first = len(pool)
	}
	for i := 0; i < first; i++ {
		h.Steps = append(h.Steps, Step{Kind: "update", K: pool[i], V: val()})
	}
	if rng.Chance(15) {
		h.Steps = append(h.Steps, Step{Kind: "hash"}) // sometimes hashed before the copy
	}
	h.Steps = append(h.Steps, Step{Kind: "copy", H: 0})
	handles := 2
	// on the copy: a key under the same extension, then delete what the original inserted
	for i := first; i < len(pool); i++ {
		h.Steps = append(h.Steps, Step{Kind: "update", K: pool[i], V: val(), H: 1})
	}
	order := rng.Intn(2)
	for j := 0; j < first; j++ {
		i := j
		if order == 1 {
			i = first - 1 - j
		}
		if rng.Chance(85) {
			h.Steps = append(h.Steps, Step{Kind: "delete", K: pool[i], H: 1})
		}
	}
	m := rng.Heavy(30)
	for i := 0; i < m; i++ {
		hd := rng.Intn(handles)
		k := pool[rng.Intn(len(pool))]
		switch x := rng.Intn(100); {
		case x < 35:
			h.Steps = append(h.Steps, Step{Kind: "update", K: k, V: val(), H: hd})
		case x < 70:
			h.Steps = append(h.Steps, Step{Kind: "delete", K: k, H: hd})
		case x < 80:
			h.Steps = append(h.Steps, Step{Kind: "get", K: k, H: hd})
		case x < 86:
			h.Steps = append(h.Steps, Step{Kind: "hash", H: hd})
		case x < 90:
			h.Steps = append(h.Steps, Step{Kind: "iter", H: hd})
		case x < 94:
			h.Steps = append(h.Steps, Step{Kind: "prove", K: k, H: hd})
		default:
			if handles < 4 {
				h.Steps = append(h.Steps, Step{Kind: "copy", H: hd})
				handles++
			}
		}
	}
	for hd := 0; hd < handles; hd++ {
		h.Steps = append(h.Steps, Step{Kind: "hash", H: hd}, Step{Kind: "iter", H: hd})
	}
	return h
}

func genHistory(rng *vf.Rng) History {
	if rng.Chance(18) {
		return genCopyHistory(rng)
	}
	h := History{Secure: rng.Chance(15)}
	if rng.Chance(50) {
		h.CacheLimit = rng.Intn(3)
	}
	pool := genPool(rng)
	if rng.Chance(25) {
		under, other := extPool(rng)
		pool = append(append(under, other), pool[:len(pool)/3]...)
	}
	key := func() []byte {
		if rng.Chance(4) {
			return rng.Bytes(rng.Intn(4))
		}
		return pool[rng.Intn(len(pool))]
	}
	n := 4 + rng.Heavy(90)
	live := 0
	for i := 0; i < n; i++ {
		x := rng.Intn(100)
		switch {
		case x < 34:
			h.Steps = append(h.Steps, Step{Kind: "update", K: key(), V: genValue(rng)})
			live++
		case x < 46:
			h.Steps = append(h.Steps, Step{Kind: "delete", K: key()})
		case x < 56:
			h.Steps = append(h.Steps, Step{Kind: "get", K: key()})
		case x < 66:
			h.Steps = append(h.Steps, Step{Kind: "hash"})
		case x < 71:
			h.Steps = append(h.Steps, Step{Kind: "iter"})
		case x < 74:
			st := Step{Kind: "nodeiter"}
			if rng.Chance(40) {
				st.K = key()
			}
			h.Steps = append(h.Steps, st)
		case x < 81:
			st := Step{Kind: "prove", K: key()}
			if rng.Chance(10) {
				st.From = 1 + rng.Intn(2)
			}
			h.Steps = append(h.Steps, st)
		case x < 89:
			modes := []string{"flip", "flip", "drop", "subst", "subst", "foreign", "extra"}
			tm := &Tamper{Mode: modes[rng.Intn(len(modes))], Node: rng.Intn(8), Byte: rng.Intn(600), Xor: rng.Intn(256), AltKey: key(), AltVal: genValue(rng)}
			if rng.Chance(50) {
				tm.AltKey = nil // filled below: alter the probed key itself
			}
			k := key()
			if tm.AltKey == nil {
				tm.AltKey = k
			}
			h.Steps = append(h.Steps, Step{Kind: "verify", K: k, Tamper: tm})
		case x < 92:
			modes := []string{"flip", "set", "set", "truncate", "emptykey", "junk"}
			tm := &Tamper{Mode: modes[rng.Intn(len(modes))], Node: rng.Intn(8), Byte: rng.Intn(40), Xor: rng.Intn(256), AltVal: rng.Bytes(rng.Intn(40))}
			if tm.Mode == "set" {
				tm.Xor = int(rng.Pick([]uint64{0x80, 0x00, 0xc0, 0xc1, 0xa0, 0xb8, 0xf8, 0x81, 0x20, 0x30, 0x10, 0x7f}))
				tm.Byte = rng.Intn(6)
			}
			h.Steps = append(h.Steps, Step{Kind: "verifydb", K: key(), Tamper: tm})
		case x < 97:
			h.Steps = append(h.Steps, Step{Kind: "commit"})
			if rng.Chance(30) {
				h.Steps = append(h.Steps, Step{Kind: "dbcommit"})
			}
			if rng.Chance(60) {
				h.Steps = append(h.Steps, Step{Kind: "reopen"})
				// work on the lazily loaded trie: deletes that collapse branches onto unloaded children
				if rng.Chance(70) {
					m := 1 + rng.Intn(4)
					for j := 0; j < m; j++ {
						if rng.Chance(75) {
							h.Steps = append(h.Steps, Step{Kind: "delete", K: key()})
						} else {
							h.Steps = append(h.Steps, Step{Kind: "update", K: key(), V: genValue(rng)})
						}
					}
					h.Steps = append(h.Steps, Step{Kind: "hash"})
				}
			}
		case x < 98:
			var items []hexb
			m := rng.Heavy(140)
			for j := 0; j < m; j++ {
				v := genValue(rng)
				if len(v) == 0 && rng.Chance(90) {
					v = rng.Bytes(1 + rng.Intn(50))
				}
				items = append(items, v)
			}
			h.Steps = append(h.Steps, Step{Kind: "derive", Items: items})
		default:
			sizes := []int{0, 1, 31, 32, 55, 135, 136, 137, 271, 272, 300, 532}
			h.Steps = append(h.Steps, Step{Kind: "keccak", K: rng.Bytes(sizes[rng.Intn(len(sizes))])})
		}
	}
	h.Steps = append(h.Steps, Step{Kind: "hash"}, Step{Kind: "iter"})
	return h
}

func loadCorpus(dir string) []History {
	var out []History
	files, _ := filepath.Glob(filepath.Join(dir, "*.json"))
	sort.Strings(files)
	for _, f := range files {
		b, err := ioutil.ReadFile(f)
		if err != nil {
			continue
		}
		var h History
		if json.Unmarshal(b, &h) == nil {
			h.Comment = "corpus:" + filepath.Base(f)
			out = append(out, h)
		}
	}
	return out
}

// execOut is what running one history yields.
type execOut struct {
	Case string         `json:"case"`
	Hits []hit          `json:"hits"`
	Dist map[string]int `json:"dist"`
}

type job struct {
	H    History `json:"h"`
	Seed uint64  `json:"seed"`
}

func execOne(j job) execOut {
	res := vf.NewResult("C13", j.Seed)
	var c string
	var hits []hit
	if j.H.Kind == "gc" {
		c, hits = runGc(&j.H, res)
	} else {
		c, hits = runHistory(&j.H, res, j.Seed)
	}
	return execOut{Case: c, Hits: hits, Dist: res.Distribution}
}

// execWorker runs jobs[from:to] of a job file in this process (a fatal runtime
// error of the implementation - stack overflow, concurrent map access - kills
// only this worker).
func execWorker(in string, from, to int, out string) {
	b, err := ioutil.ReadFile(in)
	if err != nil {
		fmt.Println(err)
		os.Exit(2)
	}
	var jobs []job
	if err := json.Unmarshal(b, &jobs); err != nil {
		fmt.Println(err)
		os.Exit(2)
	}
	var outs []execOut
	for _, j := range jobs[from:to] {
		outs = append(outs, execOne(j))
	}
	ob, _ := json.Marshal(outs)
	vf.WriteFile(out, string(ob))
}

// runJobs executes jobs[from:to] in a child process; on a crash the range is
// bisected until the crashing history is isolated.
func runJobs(self, jobFile string, jobs []job, from, to int, tmp string) []execOut {
	if from >= to {
		return nil
	}
	out := filepath.Join(tmp, fmt.Sprintf("part_%d_%d.json", from, to))
	cmd := exec.Command(self, "exec", "-file", jobFile, "-from", fmt.Sprint(from), "-to", fmt.Sprint(to), "-out", out)
	var stderr bytes.Buffer
	cmd.Stderr = &stderr
	cmd.Stdout = &stderr
	err := cmd.Run()
	if err == nil {
		if b, e := ioutil.ReadFile(out); e == nil {
			var outs []execOut
			if json.Unmarshal(b, &outs) == nil && len(outs) == to-from {
				os.Remove(out)
				return outs
			}
		}
	}
	if to-from == 1 {
		msg := stderr.String()
		if len(msg) > 600 {
			msg = msg[:600]
		}
		return []execOut{{Case: "mkCase false [] [] []", Dist: map[string]int{"oracle:the implementation crashed": 1},
			Hits: []hit{{What: "the implementation crashed (fatal runtime error)", Detail: msg, History: jobs[from].H}}}}
	}
	mid := (from + to) / 2
	return append(runJobs(self, jobFile, jobs, from, mid, tmp), runJobs(self, jobFile, jobs, mid, to, tmp)...)
}

// mixSeed decorrelates consecutive seeds (vf.Rng streams of seeds s and s+k are
// the same stream shifted by k steps).
func mixSeed(x uint64) uint64 {
	x ^= x >> 30
	x *= 0xBF58476D1CE4E5B9
	x ^= x >> 27
	x *= 0x94D049BB133111EB
	x ^= x >> 31
	return x
}

func gen(seed uint64, n int, outDir, corpusDir string) {
	rng := vf.NewRng(mixSeed(seed + 0x5bd1e995))
	res := vf.NewResult("C13", seed)
	var jobs []job
	for _, h := range loadCorpus(corpusDir) {
		res.Count("corpus")
		jobs = append(jobs, job{h, seed + uint64(len(jobs))})
	}
	for len(jobs) < n {
		if rng.Chance(22) {
			res.Count("history:gc")
			jobs = append(jobs, job{genGc(rng), seed + uint64(len(jobs))})
		} else {
			res.Count("history:trie")
			jobs = append(jobs, job{genHistory(rng), seed + uint64(len(jobs))})
		}
	}
	jb, _ := json.Marshal(jobs)
	jobFile := filepath.Join(outDir, "jobs.json")
	vf.WriteFile(jobFile, string(jb))
	self, err := os.Executable()
	if err != nil {
		self = os.Args[0]
	}
	outs := runJobs(self, jobFile, jobs, 0, len(jobs), outDir)
	os.Remove(jobFile)
	distinct := map[string]bool{}
	var sb strings.Builder
	sb.WriteString("From VF.C13 Require Import Model.\nFrom Coq Require Import Uint63.\nLocal Open Scope uint63_scope.\nDefinition cases : list case := [\n")
	for i, o := range outs {
		if i > 0 {
			sb.WriteString(";\n")
		}
		sb.WriteString(o.Case)
		h := jobs[i].H
		if len(h.Steps)+len(h.Gc) > 2 {
			distinct[o.Case] = true
		}
		for _, x := range o.Hits {
			res.OracleHits = append(res.OracleHits, x)
		}
		for k, v := range o.Dist {
			res.Distribution[k] += v
		}
		res.CaseDescs = append(res.CaseDescs, h)
		if len(res.Samples) < 4 && len(h.Steps)+len(h.Gc) < 12 {
			res.Samples = append(res.Samples, h)
		}
	}
	sb.WriteString("].\nDefinition M := Eval vm_compute in mismatches cases.\nPrint M.\n")
	vf.WriteFile(filepath.Join(outDir, "Cases.v"), sb.String())
	res.Cases = len(outs)
	res.Distinct = len(distinct)
	res.Rule = "a case is one history: either a trie history (update/delete/get/hash/iterate/node-iterate(+seek)/prove+verify/tampered verify/lying-db verify/commit/db-commit/reopen/DeriveSha/Keccak steps over a key pool with shared prefixes, prefix chains, the empty key, 32-byte keys, values of 0,1,31-33,54-57,60-200 bytes; plain or secure trie; cache limit 0-2; histories with copies: a second handle made by struct copy / SecureTrie.Copy before anything was hashed, later steps addressed to either handle, every handle checked against its own reference map after every step) or a database schedule (several tries committed into one Database, Reference/Dereference/Cap/Commit, every live root re-read after each step); every observation of the implementation is compared with the model inside Coq; distinct by full text, non-trivial = more than 2 steps"
	res.Write(filepath.Join(outDir, "result.json"))
}

// counters regenerates coq/gen/C13Counters.v: the declared widths of the
// reference counters of the node cache (trie/database.go: cachedNode.parents,
// values of cachedNode.children), read from the compiled working tree.
func counters(out string) {
	p, c := trie.VerifCounterBits()
	if p <= 0 || c <= 0 {
		fmt.Println("cannot determine the counter widths")
		os.Exit(2)
	}
	txt := fmt.Sprintf("(* GENERATED by harness/cmd/c13 from trie/database.go of the working tree. Do not edit. *)\nFrom Coq Require Import NArith.\nDefinition parents_bits : N := %d%%N.   (* cachedNode.parents *)\nDefinition children_bits : N := %d%%N.  (* values of cachedNode.children *)\n", p, c)
	vf.WriteIfChanged(out, txt)
}

func replay(file string) {
	b, err := ioutil.ReadFile(file)
	if err != nil {
		fmt.Println(err)
		os.Exit(2)
	}
	var rp struct {
		History *History `json:"history"`
	}
	var h History
	if json.Unmarshal(b, &rp) == nil && rp.History != nil {
		h = *rp.History
	} else if err := json.Unmarshal(b, &h); err != nil {
		fmt.Println(err)
		os.Exit(2)
	}
	var hits []hit
	if h.Kind == "gc" {
		_, hits = runGc(&h, nil)
	} else {
		_, hits = runHistory(&h, nil, 1)
	}
	fmt.Printf("replayed %d steps\n", len(h.Steps)+len(h.Gc))
	if len(hits) > 0 {
		fmt.Printf("ORACLE VIOLATION: %s (%s)\n", hits[0].What, hits[0].Detail)
		os.Exit(1)
	}
	fmt.Println("property holds on this history")
}

func main() {
	mode := ""
	if len(os.Args) > 1 {
		mode = os.Args[1]
		os.Args = append(os.Args[:1], os.Args[2:]...)
	}
	seed := flag.Uint64("seed", 1, "")
	n := flag.Int("n", 300, "")
	out := flag.String("out", ".", "")
	corpus := flag.String("corpus", "/verif/corpus/C13", "")
	file := flag.String("file", "", "")
	from := flag.Int("from", 0, "")
	to := flag.Int("to", 0, "")
	flag.Parse()
	switch mode {
	case "gen":
		gen(*seed, *n, *out, *corpus)
	case "replay":
		replay(*file)
	case "exec":
		execWorker(*file, *from, *to, *out)
	case "counters":
		counters(*out)
	default:
		fmt.Println("usage: c13 gen|replay")
		os.Exit(2)
	}
}
