package main

import (
	"bytes"
	"fmt"
	"sort"
	"strings"

	"github.com/youchainhq/go-youchain/common"
	"github.com/youchainhq/go-youchain/crypto"
	"github.com/youchainhq/go-youchain/trie"
	"github.com/youchainhq/go-youchain/youdb"
	"verif/harness/vf"
)

// GcStep is one step of a database schedule.
type GcStep struct {
	Kind  string `json:"kind"` // build ref deref cap commit refchild
	Base  int    `json:"base,omitempty"`  // build: index of the root to start from (-1 = empty trie)
	Root  int    `json:"root,omitempty"`  // ref/deref/commit/refchild: index into the list of built roots
	Limit int    `json:"limit,omitempty"` // cap: percentage of the current size to keep
	Ops   []Step `json:"ops,omitempty"`   // build: updates / deletes
	Node  int    `json:"node,omitempty"`  // refchild: index of the parent node in the flush-list
}

type gcRoot struct {
	hash    common.Hash
	content map[string][]byte
}

func copyMap(m map[string][]byte) map[string][]byte {
	out := map[string][]byte{}
	for k, v := range m {
		out[k] = v
	}
	return out
}


// readCompletely opens root on db and reads it through every access path:
// Get of every key, full iteration, and a Merkle proof for one key.  Returns
// a description of what is wrong, or "".
func readCompletely(db *trie.Database, root common.Hash, content map[string][]byte) string {
	t, err := trie.New(root, db)
	if err != nil {
		return fmt.Sprintf("open: %v", err)
	}
	keys := make([]string, 0, len(content))
	for k := range content {
		keys = append(keys, k)
	}
	sort.Strings(keys)
	for _, k := range keys {
		v, err := t.TryGet([]byte(k))
		if err != nil {
			return fmt.Sprintf("get %x: %v", k, err)
		}
		if !bytes.Equal(v, content[k]) {
			return fmt.Sprintf("get %x: got %x want %x", k, v, content[k])
		}
	}
	t2, err := trie.New(root, db)
	if err != nil {
		return fmt.Sprintf("open: %v", err)
	}
	it := trie.NewIterator(t2.NodeIterator(nil))
	n := 0
	for it.Next() {
		if want, ok := content[string(it.Key)]; !ok || !bytes.Equal(want, it.Value) {
			return fmt.Sprintf("iteration: unexpected pair at key %x", it.Key)
		}
		n++
	}
	if it.Err != nil || n != len(content) {
		return fmt.Sprintf("iteration: %d of %d pairs, err %v", n, len(content), it.Err)
	}
	if len(keys) > 0 {
		k := []byte(keys[len(keys)/2])
		t3, err := trie.New(root, db)
		if err != nil {
			return fmt.Sprintf("open: %v", err)
		}
		p := &recPutter{}
		if err := t3.Prove(k, 0, p); err != nil {
			return fmt.Sprintf("prove %x: %v", k, err)
		}
		pdb := mapReader{}
		for _, e := range p.blobs {
			pdb[string(crypto.Keccak256(e))] = e
		}
		if got := verify(root, k, pdb); got.kind != rVal || !bytes.Equal(got.val, content[string(k)]) {
			return fmt.Sprintf("proof for %x verifies to %v", k, got)
		}
	}
	return ""
}

func nPairs(ps []trie.VerifNode) string {
	xs := make([]string, len(ps))
	for i, p := range ps {
		xs[i] = fmt.Sprintf("(%s,%d%%N)", bl(p.Hash.Bytes()), p.Parents)
	}
	return "[" + strings.Join(xs, ";") + "]"
}

// runGc executes a database schedule; after every step each live root (meta
// reference count > 0, or committed to disk) must still read back its content.
func runGc(h *History, res *vf.Result) (string, []hit) {
	var hits []hit
	count := func(c string) {
		if res != nil {
			res.Count(c)
		}
	}
	fail := func(what, detail string) {
		count("oracle:" + what)
		hits = append(hits, hit{What: what, Detail: detail, History: *h})
	}
	diskdb := youdb.NewMemDatabase()
	triedb := trie.NewDatabase(diskdb)
	var roots []gcRoot
	refs := map[common.Hash]int{}     // meta references by the harness' own count
	onDisk := map[common.Hash]bool{}  // roots committed to disk
	var gops []string
	oracleOnly := false
	memo := newMemo()
	extEdges := map[common.Hash][]common.Hash{} // explicit references parent node -> child root
	// reachable collects the node hashes reachable from a root (implicit and explicit edges)
	var reachable func(root common.Hash, seen map[common.Hash]bool)
	reachable = func(root common.Hash, seen map[common.Hash]bool) {
		if seen[root] || root == emptyRoot || root == (common.Hash{}) {
			return
		}
		t, err := trie.New(root, triedb)
		if err != nil {
			return
		}
		it := t.NodeIterator(nil)
		for it.Next(true) {
			if h := it.Hash(); h != (common.Hash{}) && !seen[h] {
				seen[h] = true
				for _, c := range extEdges[h] {
					reachable(c, seen)
				}
			}
		}
	}

	observe := func() {
		fl, ok := triedb.VerifFlushList()
		if !ok {
			fail("the flush-list of the node cache is corrupt", "")
		}
		meta := triedb.VerifMetaChildren()
		var mk []string
		for k := range meta {
			mk = append(mk, string(k.Bytes()))
		}
		sort.Strings(mk)
		var ms []string
		for _, k := range mk {
			ms = append(ms, fmt.Sprintf("(%s,%d%%N)", bl([]byte(k)), meta[common.BytesToHash([]byte(k))]))
		}
		var dk [][]byte
		for _, k := range diskdb.Keys() {
			if len(k) == 32 {
				dk = append(dk, k)
			}
		}
		sort.Slice(dk, func(i, j int) bool { return bytes.Compare(dk[i], dk[j]) < 0 })
		gops = append(gops, fmt.Sprintf("GObserve %s [%s] %s", nPairs(fl), strings.Join(ms, ";"), bll(dk)))
	}
	checkLive := func(step int) {
		for _, r := range roots {
			if refs[r.hash] <= 0 && !onDisk[r.hash] {
				continue
			}
			if what := readCompletely(triedb, r.hash, r.content); what != "" {
				fail("a live root lost nodes", fmt.Sprintf("step %d root %x: %s", step, r.hash, what))
			}
		}
	}
	// every root committed to disk must be readable through a FRESH Database
	// over the same disk store (nothing may depend on nodes lingering in memory)
	checkDisk := func(step int) {
		for _, r := range roots {
			if !onDisk[r.hash] {
				continue
			}
			if what := readCompletely(trie.NewDatabase(diskdb), r.hash, r.content); what != "" {
				fail("a committed root cannot be read back from disk", fmt.Sprintf("step %d root %x: %s", step, r.hash, what))
			}
		}
	}
	func() {
		defer func() {
			if e := recover(); e != nil {
				fail("the implementation panicked", fmt.Sprint(e))
			}
		}()
		for i, s := range h.Gc {
			switch s.Kind {
			case "build":
				base := gcRoot{hash: common.Hash{}, content: map[string][]byte{}}
				if s.Base >= 0 && s.Base < len(roots) && (refs[roots[s.Base].hash] > 0 || onDisk[roots[s.Base].hash]) {
					base = roots[s.Base]
				}
				t, err := trie.New(base.hash, triedb)
				if err != nil {
					fail("a live root lost nodes", fmt.Sprintf("step %d open %x: %v", i, base.hash, err))
					continue
				}
				content := copyMap(base.content)
				for _, o := range s.Ops {
					if o.Kind == "delete" || len(o.V) == 0 {
						t.Delete(o.K)
						delete(content, string(o.K))
					} else {
						t.Update(o.K, o.V)
						content[string(o.K)] = o.V
					}
				}
				before, _ := triedb.VerifFlushList()
				root, err := t.Commit(nil)
				if err != nil {
					fail("commit returned an error", err.Error())
					continue
				}
				after, _ := triedb.VerifFlushList()
				// insertions append to the flush-list
				var ins [][2][]byte
				for _, n := range after[len(before):] {
					b, _ := triedb.Node(n.Hash)
					ins = append(ins, [2][]byte{n.Hash.Bytes(), b})
				}
				roots = append(roots, gcRoot{root, content})
				count("gc:build")
				if len(ins) == 0 {
					count("gc:build_inserts_nothing")
				}
				// Keccak memo for the model: the inserted blobs and the root blob
				for _, p := range ins {
					memo.hash(p[1])
				}
				if rb, err := triedb.Node(root); err == nil && rb != nil {
					memo.hash(rb)
				}
				var kops []string
				for _, o := range s.Ops {
					if o.Kind == "delete" {
						kops = append(kops, "KDelete "+bl(o.K))
					} else {
						kops = append(kops, fmt.Sprintf("KUpdate %s %s", bl(o.K), bl(o.V)))
					}
				}
				gops = append(gops, fmt.Sprintf("GBuild %s [%s] %s %s", bl(hashB(base.hash)), strings.Join(kops, ";"), bl(root.Bytes()), pairs(ins)))
				// reference it right away (the usage the state database follows)
				if root != emptyRoot {
					triedb.Reference(root, common.Hash{})
					refs[root]++
					gops = append(gops, fmt.Sprintf("GReference %s (B 0 [])", bl(root.Bytes())))
				}
			case "ref":
				if s.Root < len(roots) && refs[roots[s.Root].hash] > 0 {
					r := roots[s.Root].hash
					triedb.Reference(r, common.Hash{})
					refs[r]++
					count("gc:ref_again")
					gops = append(gops, fmt.Sprintf("GReference %s (B 0 [])", bl(r.Bytes())))
				}
			case "refmany":
				// many references to one root (only used by stored replay inputs)
				if s.Root < len(roots) && refs[roots[s.Root].hash] > 0 {
					r := roots[s.Root].hash
					for j := 0; j < s.Limit; j++ {
						triedb.Reference(r, common.Hash{})
						refs[r]++
					}
					oracleOnly = true // 65536 model steps would only slow the Coq run down; the oracle is what this input is for
				}
			case "deref":
				if s.Root < len(roots) && refs[roots[s.Root].hash] > 0 {
					r := roots[s.Root].hash
					triedb.Dereference(r)
					refs[r]--
					if refs[r] == 0 {
						count("gc:deref_last")
					} else {
						count("gc:deref")
					}
					gops = append(gops, fmt.Sprintf("GDereference %s", bl(r.Bytes())))
				}
			case "cap":
				sz, _ := triedb.Size()
				limit := uint64(sz) * uint64(s.Limit) / 100
				if err := triedb.Cap(common.StorageSize(limit)); err != nil {
					fail("cap returned an error", err.Error())
				}
				count("gc:cap")
				gops = append(gops, fmt.Sprintf("GCap %d%%N", limit))
			case "commit":
				if s.Root < len(roots) && refs[roots[s.Root].hash] > 0 && roots[s.Root].hash != emptyRoot {
					r := roots[s.Root].hash
					if err := triedb.Commit(r, false); err != nil {
						fail("database commit returned an error", err.Error())
					}
					onDisk[r] = true
					count("gc:commit")
					gops = append(gops, fmt.Sprintf("GCommit %s", bl(r.Bytes())))
					checkDisk(i)
				}
			case "refchild":
				// an explicit reference from a cached node to another root (account -> storage trie)
				fl, _ := triedb.VerifFlushList()
				if s.Root < len(roots) && refs[roots[s.Root].hash] > 0 && len(fl) > 0 {
					parent := fl[s.Node%len(fl)].Hash
					child := roots[s.Root].hash
					seen := map[common.Hash]bool{}
					reachable(child, seen)
					if parent != child && !seen[parent] {
						extEdges[parent] = append(extEdges[parent], child)
						triedb.Reference(child, parent)
						count("gc:refchild")
						gops = append(gops, fmt.Sprintf("GReference %s %s", bl(child.Bytes()), bl(parent.Bytes())))
					}
				}
			}
			observe()
			checkLive(i)
		}
		checkDisk(len(h.Gc))
	}()
	if oracleOnly {
		return "mkCase false [] [] []", hits
	}
	var tab []string
	for _, d := range memo.order {
		tab = append(tab, "("+bl([]byte(d))+","+bl(memo.pairs[d])+")")
	}
	return fmt.Sprintf("mkCase false [%s] [] [%s]", strings.Join(tab, ";"), strings.Join(gops, ";\n  ")), hits
}

// extPool: keys that share the nibble path [0] or a path ending in 1,0 in front
// of a branch, plus one key elsewhere (deleting it collapses the root onto that
// extension); with values >= 32 bytes the branch below is hashed separately.
func extPool(rng *vf.Rng) (under [][]byte, other []byte) {
	switch rng.Intn(4) {
	case 0: // first nibble 0: extension [0] over the branch
		for _, b := range []byte{0x01, 0x02, 0x0a, 0x0f} {
			if rng.Chance(70) {
				under = append(under, []byte{b})
			}
		}
		other = []byte{byte(0x10 + rng.Intn(0xe0))}
	case 1: // path 1,0
		for _, b := range []byte{0xaa, 0xbb, 0x01, 0xf0} {
			if rng.Chance(70) {
				under = append(under, []byte{0x10, b})
			}
		}
		other = []byte{byte(0x20 + rng.Intn(0xd0)), byte(rng.U64())}
	case 2: // longer path ending 1,0
		pre := byte(rng.Intn(256))
		for _, b := range []byte{0x11, 0x22, 0x3c, 0xd4} {
			if rng.Chance(70) {
				under = append(under, []byte{pre, 0x10, b})
			}
		}
		other = []byte{pre ^ 0x80, byte(rng.U64())}
	default: // ascii keys as in "P1","PA","a": 0x50 = nibbles 5,0
		under = [][]byte{[]byte("P1"), []byte("PA")}
		if rng.Chance(50) {
			under = append(under, []byte("Pz"))
		}
		other = []byte("a")
	}
	if len(under) == 0 {
		under = append(under, []byte{0x01})
	}
	for len(under) < 2 {
		last := append([]byte{}, under[0]...)
		last[len(last)-1] ^= byte(1 + rng.Intn(15)) // same leading nibbles, another last nibble
		under = append(under, last)
	}
	return
}

func bigValue(rng *vf.Rng) []byte { return rng.Bytes(32 + rng.Intn(24)) }

// genGcExt: state N holds the keys under the extension plus one other key,
// state N+1 deletes the other key (the root collapses to the extension), then
// the two roots are dereferenced / committed / capped in random order.
func genGcExt(rng *vf.Rng) History {
	h := History{Kind: "gc"}
	under, other := extPool(rng)
	var ops []Step
	for _, k := range under {
		ops = append(ops, Step{Kind: "update", K: k, V: bigValue(rng)})
	}
	withOther := rng.Chance(75)
	if withOther {
		ops = append(ops, Step{Kind: "update", K: other, V: bigValue(rng)})
	}
	h.Gc = append(h.Gc, GcStep{Kind: "build", Base: -1, Ops: ops})
	if withOther {
		h.Gc = append(h.Gc, GcStep{Kind: "build", Base: 0, Ops: []Step{{Kind: "delete", K: other}}})
	} else {
		h.Gc = append(h.Gc, GcStep{Kind: "build", Base: 0, Ops: []Step{{Kind: "update", K: under[0], V: bigValue(rng)}}})
	}
	tail := []GcStep{{Kind: "deref", Root: 0}, {Kind: "commit", Root: 1}}
	if rng.Chance(50) {
		tail[0], tail[1] = tail[1], tail[0]
	}
	if rng.Chance(40) {
		tail = append([]GcStep{{Kind: "cap", Limit: int(rng.Pick([]uint64{0, 30, 60}))}}, tail...)
	}
	if rng.Chance(40) {
		tail = append(tail, GcStep{Kind: "build", Base: 1, Ops: []Step{{Kind: "update", K: under[len(under)-1], V: bigValue(rng)}}}, GcStep{Kind: "commit", Root: 2}, GcStep{Kind: "deref", Root: 1})
	}
	if rng.Chance(30) {
		tail = append(tail, GcStep{Kind: "cap", Limit: 0})
	}
	h.Gc = append(h.Gc, tail...)
	return h
}

func genGc(rng *vf.Rng) History {
	if rng.Chance(30) {
		return genGcExt(rng)
	}
	h := History{Kind: "gc"}
	pool := genPool(rng)
	if rng.Chance(35) {
		under, other := extPool(rng)
		pool = append(append(under, other), pool[:len(pool)/3]...)
	}
	for len(pool) < 6 {
		pool = append(pool, rng.Bytes(1+rng.Intn(3)))
	}
	n := 3 + rng.Heavy(40)
	built := 0
	for i := 0; i < n; i++ {
		x := rng.Intn(100)
		switch {
		case x < 40 || built == 0:
			st := GcStep{Kind: "build", Base: -1}
			if built > 0 && rng.Chance(75) {
				st.Base = rng.Intn(built)
			}
			m := 1 + rng.Heavy(24)
			for j := 0; j < m; j++ {
				k := pool[rng.Intn(len(pool))]
				if rng.Chance(25) {
					st.Ops = append(st.Ops, Step{Kind: "delete", K: k})
				} else {
					v := genValue(rng)
					if rng.Chance(70) {
						v = rng.Bytes(32 + rng.Intn(8)) // large enough to be stored as separate nodes
					}
					st.Ops = append(st.Ops, Step{Kind: "update", K: k, V: v})
				}
			}
			h.Gc = append(h.Gc, st)
			built++
		case x < 48:
			h.Gc = append(h.Gc, GcStep{Kind: "ref", Root: rng.Intn(built)})
		case x < 72:
			h.Gc = append(h.Gc, GcStep{Kind: "deref", Root: rng.Intn(built)})
		case x < 84:
			h.Gc = append(h.Gc, GcStep{Kind: "cap", Limit: int(rng.Pick([]uint64{0, 10, 30, 50, 70, 90, 100}))})
		case x < 92:
			h.Gc = append(h.Gc, GcStep{Kind: "commit", Root: rng.Intn(built)})
		default:
			h.Gc = append(h.Gc, GcStep{Kind: "refchild", Root: rng.Intn(built), Node: rng.Intn(64)})
		}
	}
	return h
}
