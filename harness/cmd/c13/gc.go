package main

import "verif/harness/vf"

type GcStep struct {
	Kind string `json:"kind"`
}

func runGc(h *History, res *vf.Result) (string, []hit) { return "mkCase false [] []", nil }
func genGc(rng *vf.Rng) History                      { return genHistory(rng) }
