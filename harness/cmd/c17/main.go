// C17 harness: drives types.SignTx / types.Sender (field, network and
// signature mutations of signed transactions) and
// StateProcessor.ApplyTransaction sequences inside one gas pool against a real
// StateDB of the working tree.  It writes the cases (inputs + observed
// results) as a Coq file for the model comparison and evaluates the property
// oracle on the implementation's own observations.
package main

import (
	"crypto/ecdsa"
	"encoding/hex"
	"encoding/json"
	"flag"
	"fmt"
	"io/ioutil"
	"math/big"
	"os"
	"path/filepath"
	"sort"
	"strings"

	"github.com/youchainhq/go-youchain/common"
	"github.com/youchainhq/go-youchain/core"
	"github.com/youchainhq/go-youchain/core/state"
	"github.com/youchainhq/go-youchain/core/types"
	"github.com/youchainhq/go-youchain/core/vm"
	"github.com/youchainhq/go-youchain/crypto"
	"github.com/youchainhq/go-youchain/local"
	"github.com/youchainhq/go-youchain/logging"
	"github.com/youchainhq/go-youchain/params"
	"github.com/youchainhq/go-youchain/rlp"
	"github.com/youchainhq/go-youchain/staking"
	"github.com/youchainhq/go-youchain/youdb"
	"verif/harness/vf"
)

// ---------------------------------------------------------------------------
// keys (fixed, independent of the seed, so that replay files are self-contained)

const nKeys = 6

var keys []*ecdsa.PrivateKey
var keyAddr []common.Address

func initKeys() {
	for i := 0; i < nKeys+8; i++ {
		d := crypto.Keccak256([]byte(fmt.Sprintf("verif-c17-key-%d", i)))
		k, err := crypto.ToECDSA(d)
		if err != nil {
			panic(err)
		}
		keys = append(keys, k)
		keyAddr = append(keyAddr, crypto.PubkeyToAddress(k.PublicKey))
	}
}

var (
	secpN, _ = new(big.Int).SetString("fffffffffffffffffffffffffffffffebaaedce6af48a03bbfd25e8cd0364141", 16)
	two64    = new(big.Int).Lsh(big.NewInt(1), 64)
	two256   = new(big.Int).Lsh(big.NewInt(1), 256)
)

func bigS(s string) *big.Int {
	x, ok := new(big.Int).SetString(s, 10)
	if !ok {
		panic("bad number " + s)
	}
	return x
}

// ---------------------------------------------------------------------------
// transactions with arbitrary signature values (built through the wire format)

type TxSpec struct {
	Nonce uint64  `json:"nonce"`
	Price string  `json:"price"`
	Gas   uint64  `json:"gas"`
	To    *string `json:"to"` // hex, nil = creation
	Value string  `json:"value"`
	Data  string  `json:"data"` // hex
	V     string  `json:"v"`
	R     string  `json:"r"`
	S     string  `json:"s"`
}

type wireTx struct {
	Nonce   uint64
	Price   *big.Int
	Gas     uint64
	To      *common.Address `rlp:"nil"`
	Value   *big.Int
	Data    []byte
	V, R, S *big.Int
}

func (t TxSpec) to() *common.Address {
	if t.To == nil {
		return nil
	}
	a := common.HexToAddress(*t.To)
	return &a
}
func (t TxSpec) data() []byte {
	b, err := hex.DecodeString(t.Data)
	if err != nil {
		panic(err)
	}
	return b
}
func num(s string) *big.Int {
	if s == "" {
		return new(big.Int)
	}
	return bigS(s)
}

func (t TxSpec) build() *types.Transaction {
	w := wireTx{t.Nonce, num(t.Price), t.Gas, t.to(), num(t.Value), t.data(), num(t.V), num(t.R), num(t.S)}
	enc, err := rlp.EncodeToBytes(&w)
	if err != nil {
		panic(err)
	}
	tx := new(types.Transaction)
	if err := rlp.DecodeBytes(enc, tx); err != nil {
		panic(fmt.Sprintf("wire decode: %v", err))
	}
	return tx
}

func specOf(tx *types.Transaction) TxSpec {
	v, r, s := tx.RawSignatureValues()
	sp := TxSpec{Nonce: tx.Nonce(), Price: tx.GasPrice().String(), Gas: tx.Gas(), Value: tx.Value().String(),
		Data: hex.EncodeToString(tx.Data()), V: v.String(), R: r.String(), S: s.String()}
	if to := tx.To(); to != nil {
		h := to.Hex()
		sp.To = &h
	}
	return sp
}

func addrN(a common.Address) string { return new(big.Int).SetBytes(a[:]).String() }

// Coq numerals are expensive to parse (about 40us per digit); every number
// above 32 bits is written once, in hexadecimal, as a named constant at the top
// of Cases.v and referred to by name.
var (
	internNames = map[string]string{}
	internDefs  []string
)

func cqB(x *big.Int) string {
	if x.BitLen() <= 32 {
		return x.String()
	}
	k := x.Text(16)
	if n, ok := internNames[k]; ok {
		return n
	}
	n := fmt.Sprintf("z%d", len(internNames))
	internNames[k] = n
	internDefs = append(internDefs, fmt.Sprintf("Definition %s : N := 0x%s.", n, k))
	return n
}
func cq(dec string) string        { return cqB(num(dec)) }
func cqU(x uint64) string         { return cqB(new(big.Int).SetUint64(x)) }
func cqA(a common.Address) string { return cqB(new(big.Int).SetBytes(a[:])) }

func (t TxSpec) coq() string {
	to := "None"
	if t.To != nil {
		to = "(Some " + cqA(*t.to()) + ")"
	}
	return fmt.Sprintf("(mkTx %s %s %s %s %s %s %s %s %s)", cqU(t.Nonce), cq(t.Price), cqU(t.Gas), to, cq(t.Value), vf.ByteList(t.data()), cq(t.V), cq(t.R), cq(t.S))
}

// ---------------------------------------------------------------------------
// sender cases

type SenderCase struct {
	Kind   string `json:"kind"` // "sender"
	Class  string `json:"class"`
	Net    uint64 `json:"net"` // signer network id
	Tx     TxSpec `json:"tx"`
	Key    int    `json:"key"`     // key that produced the original signature
	SameAs bool   `json:"same_as"` // the property expects exactly the key holder
	// observations
	Hash string `json:"hash,omitempty"`
	Code int    `json:"code"`
	Addr string `json:"addr,omitempty"`
	RecV uint64 `json:"rec_v"`
	Rec  string `json:"rec,omitempty"` // "" = none
	What string `json:"what,omitempty"`
}

func senderCode(err error) int {
	switch err {
	case nil:
		return 0
	case types.ErrNotProtected:
		return 1
	case types.ErrInvalidNetworkId:
		return 2
	case types.ErrInvalidSig:
		return 3
	default:
		return 4
	}
}

// independent recovery: straight to the secp256k1 library
func recoverAddr(hash common.Hash, r, s *big.Int, v uint64) (common.Address, bool) {
	if r.Sign() < 0 || s.Sign() < 0 || r.BitLen() > 256 || s.BitLen() > 256 || v > 1 {
		return common.Address{}, false
	}
	sig := make([]byte, 65)
	rb, sb := r.Bytes(), s.Bytes()
	copy(sig[32-len(rb):32], rb)
	copy(sig[64-len(sb):64], sb)
	sig[64] = byte(v)
	pub, err := crypto.Ecrecover(hash[:], sig)
	if err != nil || len(pub) != 65 || pub[0] != 4 {
		return common.Address{}, false
	}
	return common.BytesToAddress(crypto.Keccak256(pub[1:])[12:]), true
}

func observeSender(c *SenderCase) {
	tx := c.Tx.build()
	signer := types.NewYouSigner(c.Net)
	h := signer.Hash(tx)
	c.Hash = new(big.Int).SetBytes(h[:]).String()
	a, err := types.Sender(signer, tx)
	c.Code = senderCode(err)
	c.Addr = ""
	if err == nil {
		c.Addr = addrN(a)
	}
	// which recovery does a correct verifier ask for
	V := num(c.Tx.V)
	vb := new(big.Int).Sub(V, new(big.Int).Mul(new(big.Int).SetUint64(c.Net), big.NewInt(2)))
	vb.Sub(vb, big.NewInt(8))
	c.RecV, c.Rec = 0, ""
	if vb.BitLen() <= 8 {
		v := uint64(byte(new(big.Int).Abs(vb).Uint64() - 27))
		c.RecV = v
		if ad, ok := recoverAddr(h, num(c.Tx.R), num(c.Tx.S), v); ok {
			c.Rec = addrN(ad)
		}
	}
	// property oracle
	c.What = ""
	want := addrN(keyAddr[c.Key])
	if c.SameAs {
		if c.Code != 0 || c.Addr != want {
			c.What = "sender of an untouched signed transaction is not the key holder"
		}
	} else if c.Code == 0 && c.Addr == want {
		c.What = "sender unchanged although " + c.Class
	}
	// the cache must not leak a sender across signers
	other := types.NewYouSigner(c.Net + 1)
	tx2 := c.Tx.build()
	types.Sender(other, tx2)
	a2, err2 := types.Sender(signer, tx2)
	if senderCode(err2) != c.Code || (err2 == nil && addrN(a2) != c.Addr) {
		c.What = "cached sender of another signer returned"
	}
	tx3 := c.Tx.build()
	types.Sender(signer, tx3)
	if a3, err3 := types.Sender(other, tx3); err3 == nil && c.Code == 0 && addrN(a3) == c.Addr && c.SameAs {
		c.What = "sender accepted under a different network id (cache)"
	}
}

func (c SenderCase) coq() string {
	rec := "None"
	if c.Rec != "" {
		rec = "(Some " + cq(c.Rec) + ")"
	}
	ad := "0"
	if c.Addr != "" {
		ad = cq(c.Addr)
	}
	return fmt.Sprintf("CSender %s %s %s %d %s %d %s", cqU(c.Net), c.Tx.coq(), cq(c.Hash), c.RecV, rec, c.Code, ad)
}

type SignCase struct {
	Kind string    `json:"kind"` // "sign"
	Net  uint64    `json:"net"`
	Tx   TxSpec    `json:"tx"`
	Key  int       `json:"key"`
	Hash string    `json:"hash"`
	Sig  [3]string `json:"sig"`
	Ok   bool      `json:"ok"`
	VRS  [3]string `json:"vrs"`
	What string    `json:"what,omitempty"`
}

func observeSign(c *SignCase) {
	tx := c.Tx.build()
	signer := types.NewYouSigner(c.Net)
	h := signer.Hash(tx)
	c.Hash = new(big.Int).SetBytes(h[:]).String()
	sig, err := crypto.Sign(h[:], keys[c.Key])
	if err != nil {
		panic(err)
	}
	c.Sig = [3]string{new(big.Int).SetBytes(sig[:32]).String(), new(big.Int).SetBytes(sig[32:64]).String(), fmt.Sprint(sig[64])}
	stx, err := types.SignTx(tx, signer, keys[c.Key])
	c.Ok = err == nil
	c.What = ""
	if err == nil {
		v, r, s := stx.RawSignatureValues()
		c.VRS = [3]string{v.String(), r.String(), s.String()}
		a, err := types.Sender(signer, stx)
		if err != nil || a != keyAddr[c.Key] {
			c.What = "sender of a freshly signed transaction is not the key holder"
		}
		if s.Cmp(new(big.Int).Rsh(secpN, 1)) > 0 {
			c.What = "SignTx produced a high-s signature"
		}
	} else if c.Net != 0 {
		c.What = "SignTx failed for a non-zero network id"
	}
}

func (c SignCase) coq() string {
	res := "None"
	if c.Ok {
		res = fmt.Sprintf("(Some (%s, %s, %s))", cq(c.VRS[0]), cq(c.VRS[1]), cq(c.VRS[2]))
	}
	return fmt.Sprintf("CSign %s %s %s (%s, %s, %s) %s", cqU(c.Net), c.Tx.coq(), cq(c.Hash), cq(c.Sig[0]), cq(c.Sig[1]), c.Sig[2], res)
}

// ---------------------------------------------------------------------------
// generators for the signing side

func randBig(r *vf.Rng) *big.Int {
	switch r.Intn(9) {
	case 0:
		return new(big.Int)
	case 1:
		return big.NewInt(1)
	case 2:
		return new(big.Int).SetUint64(^uint64(0))
	case 3:
		return new(big.Int).Lsh(big.NewInt(1), 255)
	case 4:
		return new(big.Int).Sub(two256, big.NewInt(1))
	case 5:
		return new(big.Int).SetBytes(r.Bytes(1 + r.Intn(40)))
	case 6:
		return big.NewInt(int64(r.Intn(300)))
	default:
		return new(big.Int).SetUint64(r.U64() >> uint(r.Intn(64)))
	}
}
func randU64(r *vf.Rng) uint64 {
	switch r.Intn(7) {
	case 0:
		return 0
	case 1:
		return 1
	case 2:
		return ^uint64(0)
	case 3:
		return 127 + uint64(r.Intn(3))
	case 4:
		return 255 + uint64(r.Intn(2))
	default:
		return r.U64() >> uint(r.Intn(64))
	}
}
func randData(r *vf.Rng) []byte {
	var n int
	switch r.Intn(10) {
	case 0:
		n = 0
	case 1:
		n = 1
	case 2:
		n = 54 + r.Intn(4) // around the 55/56 byte header switch
	case 3:
		n = r.Heavy(400)
	default:
		n = r.Intn(40)
	}
	b := r.Bytes(n)
	if n > 0 {
		switch r.Intn(6) {
		case 0:
			b[0] = 0
		case 1:
			b[0] = 0x7f
		case 2:
			b[0] = 0x80
		}
		if r.Chance(15) {
			for i := range b {
				if r.Bool() {
					b[i] = 0
				}
			}
		}
	}
	return b
}
func randTo(r *vf.Rng) *string {
	var a common.Address
	switch r.Intn(7) {
	case 0:
		return nil
	case 1:
		a = params.StakingModuleAddress
	case 2:
		a = common.Address{}
	case 3:
		a = common.BytesToAddress(r.Bytes(1 + r.Intn(3))) // leading zero bytes
	default:
		a = common.BytesToAddress(r.Bytes(20))
	}
	h := a.Hex()
	return &h
}

var netChoices = []uint64{1, 2, 3, 127, 128, 1 << 62, (1 << 63) - 18, (1 << 63) - 17, 1 << 63, ^uint64(0), ^uint64(0) - 1}

func randNet(r *vf.Rng) uint64 {
	switch r.Intn(4) {
	case 0:
		return params.NetworkIdForTestCase
	case 1:
		return netChoices[r.Intn(len(netChoices))]
	case 2:
		return uint64(1 + r.Intn(300))
	default:
		n := r.U64() >> uint(r.Intn(64))
		if n == 0 {
			n = 1
		}
		return n
	}
}

func randUnsigned(r *vf.Rng) TxSpec {
	return TxSpec{Nonce: randU64(r), Price: randBig(r).String(), Gas: randU64(r), To: randTo(r),
		Value: randBig(r).String(), Data: hex.EncodeToString(randData(r)), V: "0", R: "0", S: "0"}
}

func signSpec(t TxSpec, net uint64, key int) TxSpec {
	stx, err := types.SignTx(t.build(), types.NewYouSigner(net), keys[key])
	if err != nil {
		panic(err)
	}
	return specOf(stx)
}

func flipParity(V *big.Int) *big.Int {
	// V = 35 + 2 net + v: v = (V-35) mod 2
	d := new(big.Int).Sub(V, big.NewInt(35))
	if d.Bit(0) == 0 {
		return new(big.Int).Add(V, big.NewInt(1))
	}
	return new(big.Int).Sub(V, big.NewInt(1))
}

// arith returns a value different from x that an implementation working in
// fixed-width arithmetic may confuse with x: x + k*2^w, x with its low 64 (or
// low 8) bits kept and higher bits set, i.e. the same Uint64(), byte() or int
// conversion.  Never negative.
var arithWidths = []uint{8, 16, 32, 63, 64, 65, 66, 128, 256}

func arith(r *vf.Rng, x *big.Int) (*big.Int, string) {
	for {
		var y *big.Int
		var how string
		switch r.Intn(5) {
		case 0, 1:
			w := arithWidths[r.Intn(len(arithWidths))]
			k := []int64{1, 2, -1, 3}[r.Intn(4)]
			y = new(big.Int).Add(x, new(big.Int).Mul(big.NewInt(k), new(big.Int).Lsh(big.NewInt(1), w)))
			how = fmt.Sprintf("%+d*2^%d", k, w)
		case 2:
			hi := new(big.Int).SetBytes(r.Bytes(1 + r.Intn(24)))
			y = new(big.Int).Add(x, new(big.Int).Lsh(hi, 64)) // same low 64 bits
			how = "higher bits above 64"
		case 3:
			hi := new(big.Int).SetBytes(r.Bytes(1 + r.Intn(9)))
			y = new(big.Int).Add(x, new(big.Int).Lsh(hi, 8)) // same low byte
			how = "higher bits above 8"
		default:
			w := []uint{64, 65, 128}[r.Intn(3)]
			hi := new(big.Int).Lsh(big.NewInt(int64(1+r.Intn(1000))), w)
			y = new(big.Int).Add(x, hi)
			how = fmt.Sprintf("multiple of 2^%d", w)
		}
		if y.Sign() >= 0 && y.Cmp(x) != 0 {
			return y, how
		}
	}
}

// the same inside 64 bits (nonce, gas limit, network id of the signer)
func arithU64(r *vf.Rng, x uint64) (uint64, string) {
	for {
		w := []uint{8, 16, 32, 63, 31, 1}[r.Intn(6)]
		k := []uint64{1, 2, ^uint64(0), 3}[r.Intn(4)]
		y := x + k<<w
		if y != x {
			return y, fmt.Sprintf("%+d*2^%d mod 2^64", int64(k), w)
		}
	}
}

func genSender(r *vf.Rng) SenderCase {
	key := r.Intn(nKeys)
	net := randNet(r)
	base := signSpec(randUnsigned(r), net, key)
	c := SenderCase{Kind: "sender", Net: net, Tx: base, Key: key}
	switch k := r.Intn(27); {
	case k >= 20:
		// arithmetic families on one field, signature kept
		t := base
		var how string
		var y *big.Int
		switch f := r.Intn(11); {
		case f < 4: // V most often: it is not covered by the signing hash
			y, how = arith(r, num(t.V))
			t.V, c.Class = y.String(), "V was changed ("+how+")"
			if r.Chance(25) && y.Cmp(big.NewInt(35)) >= 0 {
				// and the signer runs on the low 64 bits of the network id this V names
				c.Net = new(big.Int).Rsh(new(big.Int).Sub(y, big.NewInt(35)), 1).Uint64()
			}
		case f == 4:
			y, how = arith(r, num(t.R))
			t.R, c.Class = y.String(), "r was changed ("+how+")"
		case f == 5:
			y, how = arith(r, num(t.S))
			t.S, c.Class = y.String(), "s was changed ("+how+")"
		case f == 6:
			y, how = arith(r, num(t.Price))
			t.Price, c.Class = y.String(), "the gas price was changed ("+how+")"
		case f == 7:
			y, how = arith(r, num(t.Value))
			t.Value, c.Class = y.String(), "the value was changed ("+how+")"
		case f == 8:
			t.Nonce, how = arithU64(r, t.Nonce)
			c.Class = "the nonce was changed (" + how + ")"
		case f == 9:
			t.Gas, how = arithU64(r, t.Gas)
			c.Class = "the gas limit was changed (" + how + ")"
		default:
			c.Net, how = arithU64(r, net)
			c.Class = "the signer has another network id (" + how + ")"
		}
		c.Tx = t
	case k < 3:
		c.Class, c.SameAs = "signed", true
	case k < 5:
		c.Class = "the signer has another network id"
		for c.Net == net {
			if r.Bool() {
				c.Net = net + uint64(1+r.Intn(2))
			} else {
				c.Net = randNet(r)
			}
		}
	case k < 13:
		// single-field mutation, signature kept
		t := base
		switch f := r.Intn(8); f {
		case 0:
			c.Class = "the nonce was changed"
			if r.Bool() {
				t.Nonce++
			} else {
				t.Nonce ^= 1 << uint(r.Intn(64))
			}
		case 1:
			c.Class = "the gas price was changed"
			p := num(t.Price)
			if r.Bool() || p.Sign() == 0 {
				p.Add(p, big.NewInt(1))
			} else {
				p.Sub(p, big.NewInt(1))
			}
			t.Price = p.String()
		case 2:
			c.Class = "the gas limit was changed"
			if r.Bool() {
				t.Gas++
			} else {
				t.Gas ^= 1 << uint(r.Intn(64))
			}
		case 3:
			c.Class = "the recipient was changed"
			switch {
			case t.To == nil:
				h := common.Address{}.Hex() // creation -> zero address
				if r.Bool() {
					h = common.BytesToAddress(r.Bytes(20)).Hex()
				}
				t.To = &h
			case r.Chance(30):
				t.To = nil
			default:
				a := *t.to()
				a[r.Intn(20)] ^= byte(1 << uint(r.Intn(8)))
				h := a.Hex()
				t.To = &h
			}
		case 4:
			c.Class = "the value was changed"
			p := num(t.Value)
			if r.Bool() || p.Sign() == 0 {
				p.Add(p, big.NewInt(1))
			} else {
				p.Sub(p, big.NewInt(1))
			}
			t.Value = p.String()
		default:
			c.Class = "the payload was changed"
			d := t.data()
			switch m := r.Intn(5); {
			case m == 0 || len(d) == 0:
				d = append(d, byte(r.Intn(256)))
			case m == 1:
				d = append([]byte{0}, d...) // leading zero byte
			case m == 2:
				d = d[:len(d)-1]
			case m == 3:
				d = d[1:]
			default:
				d = append([]byte{}, d...)
				d[r.Intn(len(d))] ^= byte(1 << uint(r.Intn(8)))
			}
			t.Data = hex.EncodeToString(d)
		}
		c.Tx = t
	case k < 15:
		c.Class = "the signature is the high-s twin"
		t := base
		t.S = new(big.Int).Sub(secpN, num(base.S)).String()
		t.V = flipParity(num(base.V)).String()
		c.Tx = t
	case k < 18:
		t := base
		V := num(base.V)
		switch r.Intn(8) {
		case 0:
			c.Class = "V was replaced by an unprotected value"
			t.V = fmt.Sprint(27 + r.Intn(2))
			if r.Bool() {
				c.Net = 0
			}
		case 1:
			c.Class = "the recovery bit was flipped"
			t.V = flipParity(V).String()
		case 2:
			c.Class = "V was moved by two"
			t.V = new(big.Int).Add(V, big.NewInt(2)).String()
			if r.Bool() {
				c.Net = net + 1
			}
		case 3:
			c.Class = "V was replaced by a value below 35"
			v := uint64(r.Intn(35))
			t.V = fmt.Sprint(v)
			c.Net = (v - 35) / 2 // the uint64 wrap of deriveNetworkId
		case 4:
			c.Class = "V was raised by 2^64"
			t.V = new(big.Int).Add(V, two64).String()
			if r.Bool() {
				c.Net = new(big.Int).Rsh(new(big.Int).Sub(num(t.V), big.NewInt(35)), 1).Uint64()
			}
		case 5:
			c.Class = "V was raised by 256"
			t.V = new(big.Int).Add(V, big.NewInt(256)).String()
		case 6:
			c.Class = "V was replaced by a random value"
			t.V = randBig(r).String()
			if r.Bool() && num(t.V).Cmp(big.NewInt(35)) >= 0 && num(t.V).BitLen() <= 65 {
				c.Net = new(big.Int).Rsh(new(big.Int).Sub(num(t.V), big.NewInt(35)), 1).Uint64()
			}
		default:
			c.Class = "V was lowered by two"
			t.V = new(big.Int).Sub(V, big.NewInt(2)).String()
			if num(t.V).Sign() < 0 {
				t.V = "0"
			}
			if r.Bool() && net > 0 {
				c.Net = net - 1
			}
		}
		c.Tx = t
	default:
		t := base
		switch r.Intn(7) {
		case 0:
			c.Class = "r is zero"
			t.R = "0"
		case 1:
			c.Class = "s is zero"
			t.S = "0"
		case 2:
			c.Class = "r is the group order or above"
			t.R = new(big.Int).Add(secpN, big.NewInt(int64(r.Intn(2)))).String()
		case 3:
			c.Class = "s is the group order or above"
			t.S = new(big.Int).Add(secpN, big.NewInt(int64(r.Intn(2)))).String()
		case 4:
			c.Class = "r has more than 256 bits"
			t.R = new(big.Int).Add(num(base.R), two256).String()
		case 5:
			c.Class = "s is just above half the group order"
			t.S = new(big.Int).Add(new(big.Int).Rsh(secpN, 1), big.NewInt(int64(1+r.Intn(2)))).String()
		default:
			c.Class = "r and s are random"
			t.R = new(big.Int).SetBytes(r.Bytes(32)).String()
			t.S = new(big.Int).Rsh(new(big.Int).SetBytes(r.Bytes(32)), 1).String()
		}
		c.Tx = t
	}
	return c
}

// ---------------------------------------------------------------------------
// ApplyTransaction sequences

type Acct struct {
	Addr  string `json:"addr"` // hex
	Nonce uint64 `json:"nonce"`
	Bal   string `json:"bal"`
	Kind  int    `json:"kind"`
	Slot  uint64 `json:"slot"`
}

var codes = map[int][]byte{
	1: {0x00},
	2: {0xfe},
	3: {0x60, 0x00, 0x60, 0x00, 0xfd},
	4: {0x60, 0x00, 0x60, 0x00, 0x55},
	5: {0x60, 0x01, 0x60, 0x00, 0x55},
}

type StkSpec struct {
	Mode    string `json:"mode"`
	Inner   string `json:"inner"`    // value inside the staking payload
	MainKey int    `json:"main_key"` // key whose public key names the validator
	Role    int    `json:"role,omitempty"`
	Status  int    `json:"status,omitempty"`
}

// ValSpec is a validator that exists before the block (state.CreateValidator)
type ValSpec struct {
	MainKey int    `json:"main_key"` // index into keys (>= nKeys+4)
	OpKey   int    `json:"op_key"`   // operator = key holder
	Role    int    `json:"role"`
	You     uint64 `json:"you"` // staked tokens in YOU (= stake units)
	Online  bool   `json:"online"`
	Accept  bool   `json:"accept"`
	// delegations in effect before the block (the state teDelegationAdd leaves)
	Delegs []DelegSpec `json:"delegs,omitempty"`
}

type DelegSpec struct {
	Key int    `json:"key"` // delegator = key holder
	You uint64 `json:"you"`
}

func mainAddrOf(key int) common.Address {
	return state.PubToAddress(crypto.CompressPubkey(&keys[key].PublicKey))
}

// staking modes that can end in success, and those whose success detains Inner
var stkCanSucceed = map[string]bool{"create": true, "create_role": true, "deposit": true, "withdraw": true,
	"update": true, "update_nothing": true, "status": true, "settle": true, "deleg_add": true, "deleg_sub": true, "deleg_settle": true}
var stkDetains = map[string]bool{"create": true, "create_role": true, "deposit": true, "deleg_add": true}

type MsgSpec struct {
	Key    int      `json:"key"`             // signing key
	BadSig bool     `json:"bad_sig"`         // signature made unusable (s := 0)
	VAdd   string   `json:"v_add,omitempty"` // added to V after signing: a transaction nobody signed
	Nonce  uint64   `json:"nonce"`
	Price  string   `json:"price"`
	Gas    uint64   `json:"gas"`
	To     *string  `json:"to"`
	Value  string   `json:"value"`
	Data   string   `json:"data"`
	Stk    *StkSpec `json:"stk,omitempty"`
	Replay int      `json:"replay_of,omitempty"` // 1+index of an earlier message re-submitted verbatim
}

type Obs struct {
	Addr  string `json:"addr"` // decimal
	Nonce uint64 `json:"nonce"`
	Bal   string `json:"bal"`
	Slot  uint64 `json:"slot"`
}

type StepObs struct {
	Code    int    `json:"code"` // 0 applied, else error enum
	Err     string `json:"err,omitempty"`
	GasUsed uint64 `json:"gas_used"`
	Failed  bool   `json:"failed"`
	Obs     []Obs  `json:"obs"`
	Pool    uint64 `json:"pool"`
	NewAddr string `json:"new_addr"`
	Decodes bool   `json:"stk_decodes"`
	Create  bool   `json:"stk_create"`
	HOk     bool   `json:"stk_ok"`
	Detain  string `json:"stk_detained"`
	HErr    string `json:"stk_err,omitempty"` // what the handler answered in the dry run
}

type ApplyCase struct {
	Kind    string    `json:"kind"` // "apply"
	Version uint64    `json:"version"`
	Accts   []Acct    `json:"accts"`
	Vals    []ValSpec `json:"vals,omitempty"`
	Pool    uint64    `json:"pool"`
	Msgs    []MsgSpec `json:"msgs"`
	// observations
	Steps   []StepObs `json:"steps,omitempty"`
	Final   []Obs     `json:"final,omitempty"`
	Used    uint64    `json:"used"`
	Rewards string    `json:"rewards,omitempty"`
	What    string    `json:"what,omitempty"`
	WhatAt  int       `json:"what_at,omitempty"`
}

type chainStub struct{ yp *params.YouParams }

func (c chainStub) VersionForRound(uint64) (*params.YouParams, error) { return c.yp, nil }
func (c chainStub) GetHeader(common.Hash, uint64) *types.Header       { return nil }

func applyCode(err error) int {
	if err == nil {
		return 0
	}
	switch err {
	case core.ErrNonceTooHigh:
		return 2
	case core.ErrNonceTooLow:
		return 3
	case core.ErrGasLimitReached:
		return 5
	case vm.ErrOutOfGas:
		return 6
	case vm.ErrInsufficientBalance:
		return 7
	case types.ErrInvalidSig, types.ErrNotProtected, types.ErrInvalidNetworkId:
		return 1
	}
	if err.Error() == "insufficient balance to pay for gas" {
		return 4
	}
	return 99
}

func newState(accts []Acct, vals []ValSpec) *state.StateDB {
	db := state.NewDatabase(youdb.NewMemDatabase())
	st, err := state.New(common.Hash{}, common.Hash{}, common.Hash{}, db)
	if err != nil {
		panic(err)
	}
	for _, a := range accts {
		ad := common.HexToAddress(a.Addr)
		st.SetNonce(ad, a.Nonce)
		st.SetBalance(ad, bigS(a.Bal))
		if a.Kind != 0 {
			st.SetCode(ad, codes[a.Kind])
		}
		if a.Slot != 0 {
			st.SetState(ad, common.Hash{}, common.BigToHash(new(big.Int).SetUint64(a.Slot)))
		}
	}
	for _, v := range vals {
		pub := crypto.CompressPubkey(&keys[v.MainKey].PublicKey)
		token := new(big.Int).Mul(new(big.Int).SetUint64(v.You), params.StakeUint)
		status, accept := params.ValidatorOffline, uint16(0)
		if v.Online {
			status = params.ValidatorOnline
		}
		if v.Accept {
			accept = params.AcceptDelegation
		}
		if st.CreateValidator(fmt.Sprintf("val%d", v.MainKey), keyAddr[v.OpKey], keyAddr[v.OpKey], params.ValidatorRole(v.Role),
			pub, pub, token, new(big.Int).SetUint64(v.You), accept, 0, 0, status) == nil {
			panic("cannot create validator")
		}
		for _, d := range v.Delegs {
			// the delegator's account must exist (UpdateDelegator silently skips a missing one)
			st.AddBalance(keyAddr[d.Key], new(big.Int))
			val := st.GetValidatorByMainAddr(mainAddrOf(v.MainKey))
			st.UpdateDelegation(keyAddr[d.Key], val, new(big.Int).Mul(new(big.Int).SetUint64(d.You), params.StakeUint))
		}
	}
	st.Finalise(true)
	root, valRoot, stakingRoot, err := st.Commit(false)
	if err != nil {
		panic(err)
	}
	st, err = state.New(root, valRoot, stakingRoot, db)
	if err != nil {
		panic(err)
	}
	return st
}

func observeAcct(st *state.StateDB, a common.Address) Obs {
	return Obs{addrN(a), st.GetNonce(a), st.GetBalance(a).String(), st.GetState(a, common.Hash{}).Big().Uint64()}
}

// builds the signed transaction of a message spec
func (m MsgSpec) tx(net uint64) *types.Transaction {
	sp := TxSpec{Nonce: m.Nonce, Price: m.Price, Gas: m.Gas, To: m.To, Value: m.Value, Data: m.Data, V: "0", R: "0", S: "0"}
	sp = signSpec(sp, net, m.Key)
	if m.BadSig {
		sp.S = "0"
	}
	if m.VAdd != "" {
		sp.V = new(big.Int).Add(num(sp.V), num(m.VAdd)).String()
	}
	return sp.build()
}

func stakingPayload(s *StkSpec, from common.Address, r *vf.Rng) []byte {
	mk := func(action staking.ActionType, v interface{}) []byte {
		bs, err := rlp.EncodeToBytes(v)
		if err != nil {
			panic(err)
		}
		out, err := rlp.EncodeToBytes(&staking.Message{Action: action, Payload: bs})
		if err != nil {
			panic(err)
		}
		return out
	}
	create := func(op common.Address) *staking.TxCreateValidator {
		return &staking.TxCreateValidator{Name: "v", OperatorAddress: op, Coinbase: op,
			MainPubKey: crypto.CompressPubkey(&keys[s.MainKey].PublicKey), BlsPubKey: []byte{1, 2, 3},
			Value: num(s.Inner), Nonce: 0, Role: params.RoleHouse}
	}
	target := mainAddrOf(s.MainKey)
	switch s.Mode {
	case "garbage":
		return r.Bytes(1 + r.Intn(20))
	case "empty":
		return nil
	case "unknown_action":
		return mk(staking.ActionType(200), []byte{1})
	case "create":
		return mk(staking.ValidatorCreate, create(from))
	case "create_bad_payload":
		out, _ := rlp.EncodeToBytes(&staking.Message{Action: staking.ValidatorCreate, Payload: []byte{0xc1, 0x01}})
		return out
	case "create_other_operator":
		return mk(staking.ValidatorCreate, create(common.BytesToAddress([]byte{9, 9, 9})))
	case "deposit_unknown":
		return mk(staking.ValidatorDeposit, &staking.TxValidatorDeposit{MainAddress: crypto.PubkeyToAddress(keys[s.MainKey].PublicKey), Value: num(s.Inner)})
	case "create_role":
		c := create(from)
		c.Role = params.ValidatorRole(s.Role)
		return mk(staking.ValidatorCreate, c)
	case "deposit":
		return mk(staking.ValidatorDeposit, &staking.TxValidatorDeposit{MainAddress: target, Value: num(s.Inner)})
	case "deposit_zero":
		return mk(staking.ValidatorDeposit, &staking.TxValidatorDeposit{MainAddress: target, Value: new(big.Int)})
	case "withdraw":
		return mk(staking.ValidatorWithDraw, &staking.TxValidatorWithdraw{MainAddress: target, Recipient: from, Value: num(s.Inner)})
	case "withdraw_no_recipient":
		return mk(staking.ValidatorWithDraw, &staking.TxValidatorWithdraw{MainAddress: target, Value: num(s.Inner)})
	case "update":
		return mk(staking.ValidatorUpdate, &staking.TxUpdateValidator{MainAddress: target, Name: "renamed", AcceptDelegation: 0xffff, CommissionRate: 0xffff, RiskObligation: 0xffff})
	case "update_nothing":
		return mk(staking.ValidatorUpdate, &staking.TxUpdateValidator{MainAddress: target, AcceptDelegation: 0xffff, CommissionRate: 0xffff, RiskObligation: 0xffff})
	case "status":
		return mk(staking.ValidatorChangeStatus, &staking.TxValidatorChangeStatus{MainAddress: target, Status: uint8(s.Status)})
	case "settle":
		return mk(staking.ValidatorSettle, &staking.TxValidatorSettle{MainAddress: target})
	case "deleg_add":
		return mk(staking.DelegationAdd, &staking.TxDelegation{Validator: target, Value: num(s.Inner)})
	case "deleg_sub":
		return mk(staking.DelegationSub, &staking.TxDelegation{Validator: target, Value: num(s.Inner)})
	case "deleg_settle":
		return mk(staking.DelegationSettle, &staking.TxDelegationSettle{Validator: target})
	}
	panic("mode " + s.Mode)
}

type env struct {
	st      *state.StateDB
	gp      *core.GasPool
	proc    *core.StateProcessor
	header  *types.Header
	cfg     *vm.Config
	chain   chainStub
	signer  types.Signer
	used    uint64
	rewards *big.Int
	tracked []common.Address
}

func newEnv(c *ApplyCase) *env {
	yp, ok := params.Versions[params.YouVersion(c.Version)]
	if !ok {
		panic("no such version")
	}
	e := &env{st: newState(c.Accts, c.Vals), chain: chainStub{&yp}, rewards: new(big.Int)}
	gp := core.GasPool(c.Pool)
	e.gp = &gp
	e.proc = core.NewStateProcessor(nil, nil)
	e.proc.AddTxConverter(params.StakingModuleAddress, &staking.TxConverter{})
	e.header = &types.Header{Number: big.NewInt(20), GasLimit: c.Pool, Time: 1000, Coinbase: common.BytesToAddress([]byte{0xcb}),
		GasRewards: new(big.Int), Subsidy: new(big.Int), CurrVersion: yp.Version}
	e.cfg = core.CombineVMConfig(&yp, vm.LocalConfig{})
	e.signer = types.NewYouSigner(params.NetworkId())
	for _, a := range c.Accts {
		e.tracked = append(e.tracked, common.HexToAddress(a.Addr))
	}
	return e
}

// step applies one message the way observeApply does, without observing
func (e *env) step(i int, m MsgSpec) {
	tx := m.tx(params.NetworkId())
	e.st.Prepare(tx.Hash(), common.Hash{}, i)
	snap := e.st.Snapshot()
	if _, _, err := e.proc.ApplyTransaction(tx, e.signer, e.st, e.chain, e.header, nil, &e.used, e.rewards, e.gp, e.cfg, local.FakeRecorder()); err != nil {
		e.st.RevertToSnapshot(snap)
	}
}

// dry run of the staking handler on a copy of the state, set up the way
// TxConverter.ApplyMessage calls it
func (e *env) stakeOracle(tx *types.Transaction, so *StepObs) {
	so.Detain = "0"
	var sm staking.Message
	if err := rlp.DecodeBytes(tx.Data(), &sm); err != nil {
		return
	}
	so.Decodes = true
	so.Create = sm.Action == staking.ValidatorCreate
	msg, err := tx.AsMessage(e.signer)
	if err != nil {
		return
	}
	cp := e.st.Copy()
	from := msg.From()
	cost := new(big.Int).Mul(new(big.Int).SetUint64(tx.Gas()), tx.GasPrice())
	if cp.GetBalance(from).Cmp(cost) < 0 {
		return
	}
	cp.SubBalance(from, cost)
	cp.SetNonce(from, cp.GetNonce(from)+1)
	before := cp.GetBalance(from)
	gp := core.GasPool(0)
	ctx := core.NewMsgContext(msg, cp, e.chain, e.header, e.header.Coinbase, &gp, e.cfg, local.FakeRecorder())
	if err := staking.VerifC17Handler(sm.Action)(ctx, sm.Payload); err == nil {
		so.HOk = true
		so.Detain = new(big.Int).Sub(before, cp.GetBalance(from)).String()
	} else {
		so.HErr = err.Error()
		if len(so.HErr) > 40 {
			so.HErr = so.HErr[:40]
		}
	}
}

func intrinsicOf(m MsgSpec) uint64 {
	var g uint64 = 21000
	if m.To == nil {
		g = 53000
	} else if common.HexToAddress(*m.To) == params.StakingModuleAddress {
		g = 100000
	}
	d, _ := hex.DecodeString(m.Data)
	for _, b := range d {
		if b == 0 {
			g += 4
		} else {
			g += 16
		}
	}
	return g
}

// runs the whole case on the implementation, records the observations and
// evaluates the property oracle on them
func observeApply(c *ApplyCase) {
	// hand-written corpus cases may leave the staking payload to be built here
	for i, m := range c.Msgs {
		if m.Stk != nil && m.Data == "" && m.Stk.Mode != "empty" && m.Stk.Mode != "garbage" {
			c.Msgs[i].Data = hex.EncodeToString(stakingPayload(m.Stk, keyAddr[m.Key], nil))
		}
	}
	e := newEnv(c)
	c.Steps, c.Final, c.What, c.WhatAt = nil, nil, "", 0
	applied := map[common.Hash]bool{}
	kinds := map[common.Address]int{}
	for _, a := range c.Accts {
		kinds[common.HexToAddress(a.Addr)] = a.Kind
	}
	flag := func(i int, what string) {
		if c.What == "" {
			c.What, c.WhatAt = what, i
		}
	}
	for i, m := range c.Msgs {
		tx := m.tx(params.NetworkId())
		from := keyAddr[m.Key]
		so := StepObs{NewAddr: addrN(crypto.CreateAddress(from, m.Nonce)), Detain: "0"}
		isStk := m.To != nil && common.HexToAddress(*m.To) == params.StakingModuleAddress
		if isStk {
			e.stakeOracle(tx, &so)
		}
		watch := []common.Address{from}
		if m.To != nil {
			watch = append(watch, common.HexToAddress(*m.To))
		} else {
			watch = append(watch, crypto.CreateAddress(from, m.Nonce))
		}
		all := append(append([]common.Address{}, e.tracked...), watch...)
		pre := map[common.Address]Obs{}
		for _, a := range all {
			pre[a] = observeAcct(e.st, a)
		}
		prePool, preUsed, preRewards := e.gp.Gas(), e.used, new(big.Int).Set(e.rewards)

		e.st.Prepare(tx.Hash(), common.Hash{}, i)
		snap := e.st.Snapshot()
		receipt, gas, err := e.proc.ApplyTransaction(tx, e.signer, e.st, e.chain, e.header, nil, &e.used, e.rewards, e.gp, e.cfg, local.FakeRecorder())
		so.Code = applyCode(err)
		if err != nil {
			so.Err = err.Error()
		} else {
			so.GasUsed = gas
			so.Failed = receipt.Status == types.ReceiptStatusFailed
		}
		for _, a := range watch {
			so.Obs = append(so.Obs, observeAcct(e.st, a))
		}
		so.Pool = e.gp.Gas()
		post := map[common.Address]Obs{}
		for _, a := range all {
			post[a] = observeAcct(e.st, a)
		}

		// ---- property oracle -------------------------------------------------
		price, value := num(m.Price), num(m.Value)
		switch {
		case so.Code == 99:
			flag(i, "unexpected error kind: "+so.Err)
		case so.Code >= 1 && so.Code <= 5:
			// refused up front: nothing changes
			for _, a := range all {
				if pre[a] != post[a] {
					flag(i, "a transaction refused up front changed an account")
				}
			}
			if so.Pool != prePool {
				flag(i, "a transaction refused up front changed the block gas pool")
			}
			if e.used != preUsed || e.rewards.Cmp(preRewards) != 0 {
				flag(i, "a transaction refused up front changed the used gas or the gas rewards")
			}
			// the reason given must be true (a refusal for a wrong reason keeps a valid transaction out)
			costPre := new(big.Int).Mul(new(big.Int).SetUint64(m.Gas), price)
			switch so.Code {
			case 1:
				if !m.BadSig && m.VAdd == "" {
					flag(i, "a correctly signed transaction was refused as unsigned")
				}
			case 2:
				if !(pre[from].Nonce < m.Nonce) {
					flag(i, "refused as nonce too high although it is not")
				}
			case 3:
				if !(pre[from].Nonce > m.Nonce) {
					flag(i, "refused as nonce too low although it is not")
				}
			case 4:
				if num(pre[from].Bal).Cmp(costPre) >= 0 {
					flag(i, "refused as unable to pay for gas although the balance covers it")
				}
			case 5:
				if prePool >= m.Gas {
					flag(i, "refused as block gas exhausted although the pool covers the gas limit")
				}
			}
		case so.Code == 0:
			if m.BadSig {
				flag(i, "a transaction with an invalid signature was applied")
			}
			if m.VAdd != "" {
				flag(i, "a transaction nobody signed (V rewritten after signing) was applied")
			}
			if applied[tx.Hash()] {
				flag(i, "the same transaction was applied twice")
			}
			applied[tx.Hash()] = true
			if pre[from].Nonce != m.Nonce {
				flag(i, "applied although the nonce is not the account's next nonce")
			}
			if post[from].Nonce != pre[from].Nonce+1 {
				flag(i, "an applied transaction did not raise the nonce by one")
			}
			cost := new(big.Int).Mul(new(big.Int).SetUint64(m.Gas), price)
			if num(pre[from].Bal).Cmp(cost) < 0 {
				flag(i, "applied although the balance cannot pay for the gas limit")
			}
			if prePool < m.Gas {
				flag(i, "applied although the block gas pool is below the gas limit")
			}
			if gas < intrinsicOf(m) || gas > m.Gas {
				flag(i, "gas used outside [intrinsic gas, gas limit]")
			}
			if !isStk && m.To != nil && kinds[watch[1]] == 0 && gas != intrinsicOf(m) {
				flag(i, "a plain transfer used gas other than the intrinsic gas")
			}
			// what the transaction moves out of the sender
			moved := new(big.Int)
			switch {
			case isStk:
				// a staking message detains the value written in its payload, once,
				// and only when it succeeds; the outer transaction value is never moved
				if !so.Failed && m.Stk != nil && stkDetains[m.Stk.Mode] {
					moved = num(m.Stk.Inner)
				}
				if !so.Failed && (m.Stk == nil || !stkCanSucceed[m.Stk.Mode]) {
					flag(i, "a staking message that cannot succeed was reported successful")
				}
				if post[watch[1]] != pre[watch[1]] {
					flag(i, "a staking message changed the staking module account")
				}
			case !so.Failed:
				to := watch[1]
				if to != from {
					moved = value
				}
			}
			charged := new(big.Int).Sub(num(pre[from].Bal), num(post[from].Bal))
			exact := new(big.Int).Add(moved, new(big.Int).Mul(new(big.Int).SetUint64(gas), price))
			if charged.Cmp(exact) != 0 {
				diff := new(big.Int).Sub(exact, charged)
				refundish := price.Sign() > 0 && diff.Sign() > 0 && new(big.Int).Mod(diff, price).Sign() == 0 &&
					new(big.Int).Div(diff, price).Cmp(new(big.Int).SetUint64(gas/2)) <= 0 &&
					m.To != nil && post[watch[1]].Slot != pre[watch[1]].Slot && post[watch[1]].Slot == 0
				switch {
				case refundish:
					flag(i, "refund-not-in-gas-used")
				case isStk && c.Version < 4 && so.Failed && charged.Cmp(exact) < 0:
					// protocol versions before YouV4: known, fixed by the YouV4 upgrade
				case isStk && so.Failed:
					flag(i, fmt.Sprintf("a failed staking message (%s) cost the sender %s besides its gas", m.Stk.Mode, new(big.Int).Neg(diff)))
				default:
					flag(i, fmt.Sprintf("sender charged %s, exact charge is %s", charged, exact))
				}
			}
			// supply over every account in sight: only the gas fee (and a detained
			// stake) leaves; a transferred value arrives at the recipient
			sumPre, sumPost := new(big.Int), new(big.Int)
			seenA := map[common.Address]bool{}
			for _, a := range all {
				if !seenA[a] {
					seenA[a] = true
					sumPre.Add(sumPre, num(pre[a].Bal))
					sumPost.Add(sumPost, num(post[a].Bal))
				}
			}
			drop := new(big.Int).Mul(new(big.Int).SetUint64(gas), price)
			if isStk {
				drop.Add(drop, moved)
			}
			if charged.Cmp(exact) == 0 && new(big.Int).Sub(sumPre, sumPost).Cmp(drop) != 0 {
				flag(i, "the balances in sight changed by something else than the gas fee and the detained stake")
			}
			if !isStk && !so.Failed && watch[1] != from {
				got := new(big.Int).Sub(num(post[watch[1]].Bal), num(pre[watch[1]].Bal))
				if got.Cmp(value) != 0 {
					flag(i, "recipient not credited with exactly the value")
				}
			}
			if so.Failed && !isStk && watch[1] != from && post[watch[1]].Bal != pre[watch[1]].Bal {
				flag(i, "a failed transaction moved value")
			}
			if e.used != preUsed+gas {
				flag(i, "used gas counter not advanced by the gas used")
			}
			if new(big.Int).Sub(e.rewards, preRewards).Cmp(new(big.Int).Mul(new(big.Int).SetUint64(gas), price)) != 0 {
				flag(i, "gas rewards not advanced by gas used times price")
			}
			if prePool-so.Pool > gas {
				flag(i, "block gas pool reduced by more than the gas used")
			}
			for _, a := range all {
				if a != from && a != watch[1] && pre[a] != post[a] {
					flag(i, "an account that is neither sender nor recipient changed")
				}
			}
		}
		if err != nil {
			e.st.RevertToSnapshot(snap)
		}
		c.Steps = append(c.Steps, so)
	}
	seen := map[common.Address]bool{}
	for i, m := range c.Msgs {
		as := []common.Address{keyAddr[m.Key]}
		if m.To != nil {
			as = append(as, common.HexToAddress(*m.To))
		} else {
			as = append(as, crypto.CreateAddress(keyAddr[m.Key], m.Nonce))
		}
		_ = i
		for _, a := range as {
			if !seen[a] {
				seen[a] = true
				c.Final = append(c.Final, observeAcct(e.st, a))
			}
		}
	}
	for _, a := range e.tracked {
		if !seen[a] {
			seen[a] = true
			c.Final = append(c.Final, observeAcct(e.st, a))
		}
	}
	c.Used, c.Rewards = e.used, e.rewards.String()
}

func obsCoq(o Obs) string {
	return fmt.Sprintf("(%s, %d, %s, %d)", cq(o.Addr), o.Nonce, cq(o.Bal), o.Slot)
}
func obsList(os []Obs) string {
	xs := make([]string, len(os))
	for i, o := range os {
		xs[i] = obsCoq(o)
	}
	return vf.List(xs)
}

func (c ApplyCase) coq() string {
	var st []string
	for _, a := range c.Accts {
		st = append(st, fmt.Sprintf("(%s, mkAcct %d %s %d %d)", cqA(common.HexToAddress(a.Addr)), a.Nonce, cq(a.Bal), a.Kind, a.Slot))
	}
	var steps []string
	for i, m := range c.Msgs {
		so := c.Steps[i]
		to := "None"
		if m.To != nil {
			to = "(Some " + cqA(common.HexToAddress(*m.To)) + ")"
		}
		d, _ := hex.DecodeString(m.Data)
		res := "None"
		if so.HOk {
			res = "(Some " + cq(so.Detain) + ")"
		}
		msg := fmt.Sprintf("(mkMsg %s %s %d %s %d %s %s %s %s (mkSO %s %s %s))", cqA(keyAddr[m.Key]), vf.Bool(!m.BadSig && m.VAdd == ""), m.Nonce, cq(m.Price), m.Gas, to, cq(m.Value), vf.ByteList(d), cq(so.NewAddr),
			vf.Bool(so.Decodes), vf.Bool(so.Create), res)
		steps = append(steps, fmt.Sprintf("mkStep %s %d %d %s %s %d", msg, so.Code, so.GasUsed, vf.Bool(so.Failed), obsList(so.Obs), so.Pool))
	}
	return fmt.Sprintf("CApply P %d %s %d\n  %s\n  %s %d %s", c.Version, vf.List(st), c.Pool, "["+strings.Join(steps, ";\n   ")+"]", obsList(c.Final), c.Used, cq(c.Rewards))
}

// ---- generator ------------------------------------------------------------

func contractAddr(kind int, i int) common.Address {
	return common.BytesToAddress([]byte{0xc0, 0xde, byte(kind), byte(i)})
}

var youUnit = bigS("1000000000000000000")

func genApply(r *vf.Rng) ApplyCase {
	c := ApplyCase{Kind: "apply"}
	c.Version = []uint64{3, 4, 5, 5, 5}[r.Intn(5)]
	switch r.Intn(4) {
	case 0:
		c.Pool = uint64(60000 + r.Intn(400000))
	case 1:
		c.Pool = uint64(1000000 + r.Intn(2000000))
	default:
		c.Pool = 8000000
	}
	// accounts: the key holders, a few plain recipients, the contracts
	for k := 0; k < nKeys; k++ {
		var bal *big.Int
		switch r.Intn(6) {
		case 0:
			bal = new(big.Int)
		case 1:
			bal = big.NewInt(int64(r.Intn(3000000)))
		case 2:
			bal = new(big.Int).Mul(big.NewInt(int64(21000+r.Intn(100000))), big.NewInt(int64(1+r.Intn(50))))
		default:
			bal = new(big.Int).Mul(youUnit, big.NewInt(int64(1+r.Intn(5000))))
		}
		n := uint64(0)
		if r.Chance(40) {
			n = uint64(r.Intn(5))
		}
		if bal.Sign() == 0 && n == 0 && r.Bool() {
			continue // the account does not exist at all
		}
		c.Accts = append(c.Accts, Acct{Addr: keyAddr[k].Hex(), Nonce: n, Bal: bal.String()})
	}
	plain := []common.Address{common.BytesToAddress([]byte{0xaa, 1}), common.BytesToAddress([]byte{0xaa, 2}), common.BytesToAddress(r.Bytes(20))}
	c.Accts = append(c.Accts, Acct{Addr: plain[0].Hex(), Bal: "5"})
	var contracts []common.Address
	for kind := 1; kind <= 5; kind++ {
		for i := 0; i < 1+r.Intn(2); i++ {
			a := Acct{Addr: contractAddr(kind, i).Hex(), Nonce: 1, Kind: kind, Bal: fmt.Sprint(r.Intn(3))}
			if kind == 4 && r.Chance(80) {
				a.Slot = uint64(1 + r.Intn(3))
			}
			if kind == 5 && r.Chance(25) {
				a.Slot = 1
			}
			c.Accts = append(c.Accts, a)
			contracts = append(contracts, contractAddr(kind, i))
		}
	}
	// validators that exist before the block, operated by key holders who can
	// afford deposits up to the role's MaxStakes
	focusKey, focusVal := -1, -1
	if r.Chance(45) {
		yp := params.Versions[params.YouVersion(c.Version)]
		if r.Chance(80) {
			c.Pool = 8000000 // room for several staking messages
		}
		for j := 0; j < 1+r.Intn(3); j++ {
			v := ValSpec{MainKey: nKeys + 4 + j, OpKey: r.Intn(nKeys), Online: r.Chance(75), Accept: r.Chance(90)}
			v.Role = []int{3, 3, 3, 3, 2, 2, 1}[r.Intn(7)]
			max := yp.MaxStakes[params.ValidatorRole(v.Role)]
			switch r.Intn(8) {
			case 0:
				v.You = max
			case 1:
				v.You = max - 1
			case 2:
				v.You = uint64(1 + r.Intn(99)) // below MinStakes
			default:
				v.You = max - []uint64{5000, 20000, 50000, 100000}[r.Intn(4)]
			}
			enrich := func(key int) {
				rich := new(big.Int).Mul(youUnit, big.NewInt(int64(100000+r.Intn(1900000)))).String()
				found := false
				for i := range c.Accts {
					if common.HexToAddress(c.Accts[i].Addr) == keyAddr[key] {
						c.Accts[i].Bal, found = rich, true
					}
				}
				if !found {
					c.Accts = append(c.Accts, Acct{Addr: keyAddr[key].Hex(), Bal: rich})
				}
			}
			if j == 0 && r.Chance(70) {
				// one (delegator, validator) pair the block keeps coming back to:
				// room below the threshold, delegation accepted, often a delegation
				// already in effect from an earlier period
				v.Accept = true
				v.You = max - []uint64{50000, 100000}[r.Intn(2)]
				focusKey, focusVal = r.Intn(nKeys), v.MainKey
				if r.Chance(65) {
					v.Delegs = append(v.Delegs, DelegSpec{Key: focusKey, You: uint64(10 + r.Intn(5000))})
				}
				if r.Chance(30) {
					v.Delegs = append(v.Delegs, DelegSpec{Key: (focusKey + 1) % nKeys, You: uint64(10 + r.Intn(500))})
				}
				enrich(focusKey)
			}
			c.Vals = append(c.Vals, v)
			enrich(v.OpKey)
		}
	}
	// nonces / balances at generation time, only to steer the generator
	nonce := map[int]uint64{}
	bal := map[int]*big.Int{}
	for k := 0; k < nKeys; k++ {
		bal[k] = new(big.Int)
	}
	for _, a := range c.Accts {
		for k := 0; k < nKeys; k++ {
			if common.HexToAddress(a.Addr) == keyAddr[k] {
				nonce[k], bal[k] = a.Nonce, bigS(a.Bal)
			}
		}
	}
	if r.Chance(12) {
		// a pre-existing account at a future creation address (collision)
		k := r.Intn(nKeys)
		c.Accts = append(c.Accts, Acct{Addr: crypto.CreateAddress(keyAddr[k], nonce[k]+uint64(r.Intn(2))).Hex(), Nonce: uint64(r.Intn(2)), Bal: "7", Kind: r.Intn(2)})
	}
	if r.Chance(10) {
		// pre-funded (but otherwise empty) future creation address
		k := r.Intn(nKeys)
		a := crypto.CreateAddress(keyAddr[k], nonce[k]).Hex()
		dup := false
		for _, x := range c.Accts {
			dup = dup || x.Addr == a
		}
		if !dup { // an address may be listed once only
			c.Accts = append(c.Accts, Acct{Addr: a, Bal: "9"})
		}
	}
	steps := 1 + r.Heavy(40)
	usedMain := 0
	var delegs [][2]int
	var delegAmt []string
	live := newEnv(&c) // the implementation itself tells the generator where the accounts stand
	for s := 0; s < steps; s++ {
		for k := 0; k < nKeys; k++ {
			nonce[k], bal[k] = live.st.GetNonce(keyAddr[k]), live.st.GetBalance(keyAddr[k])
		}
		if len(c.Msgs) > 0 && r.Chance(8) {
			j := r.Intn(len(c.Msgs))
			m := c.Msgs[j]
			m.Replay = j + 1
			c.Msgs = append(c.Msgs, m)
			live.step(len(c.Msgs)-1, m)
			continue
		}
		k := r.Intn(nKeys)
		if r.Chance(85) { // prefer an account that can pay
			for t := 0; t < 8 && bal[k].Cmp(big.NewInt(4000000000000000)) < 0; t++ {
				k = r.Intn(nKeys)
			}
		}
		m := MsgSpec{Key: k, Nonce: nonce[k]}
		switch r.Intn(14) {
		case 0:
			if m.Nonce > 0 {
				m.Nonce -= uint64(1 + r.Intn(int(m.Nonce)))
			} else {
				m.Nonce = 1
			}
		case 1:
			m.Nonce += uint64(1 + r.Intn(3))
		}
		m.BadSig = r.Chance(3)
		if r.Chance(4) {
			y, _ := arith(r, new(big.Int))
			m.VAdd = y.String()
		}
		// destination
		var to *common.Address
		kindOfTo := 0
		d := r.Intn(20)
		if len(c.Vals) > 0 && d >= 7 && r.Chance(45) {
			d = 3 // blocks with validators carry more staking messages
		}
		switch {
		case d < 3:
			to = nil
			m.Data = hex.EncodeToString([][]byte{{}, {0}, {0xfe}, codes[3], codes[4], codes[5], {}}[r.Intn(7)])
		case d < 7:
			a := params.StakingModuleAddress
			to = &a
			modes := []string{"garbage", "empty", "unknown_action", "create", "create", "create", "create_bad_payload", "create_other_operator", "deposit_unknown"}
			sk := &StkSpec{Mode: modes[r.Intn(len(modes))], MainKey: nKeys + usedMain%4}
			if sk.Mode == "create" && r.Chance(70) {
				usedMain++ // otherwise the same validator again: pending exists
			}
			switch r.Intn(4) {
			case 0:
				sk.Inner = fmt.Sprint(1 + r.Intn(1000))
			case 1:
				sk.Inner = new(big.Int).Add(bal[k], big.NewInt(int64(r.Intn(3)-1))).String() // around the whole balance
				if num(sk.Inner).Sign() <= 0 {
					sk.Inner = "1"
				}
			default:
				sk.Inner = new(big.Int).Mul(youUnit, big.NewInt(int64(1+r.Intn(300)))).String()
			}
			if len(c.Vals) > 0 && r.Chance(75) {
				// a message about an existing validator; every branch of the handlers:
				// wrong operator, bad value, thresholds (alone and together with the
				// earlier messages of this staking period), wrong status
				v := c.Vals[r.Intn(len(c.Vals))]
				if r.Chance(80) {
					k = v.OpKey
					m.Key, m.Nonce = k, nonce[k]
				}
				yp := params.Versions[params.YouVersion(c.Version)]
				max := new(big.Int).SetUint64(yp.MaxStakes[params.ValidatorRole(v.Role)])
				cur := live.st.GetStakingRecordValue(common.Address{}, mainAddrOf(v.MainKey))
				if cur.Sign() == 0 {
					cur = new(big.Int).Mul(youUnit, new(big.Int).SetUint64(v.You))
					if lv := live.st.GetValidatorByMainAddr(mainAddrOf(v.MainKey)); lv != nil {
						cur = new(big.Int).Set(lv.Token)
					}
				}
				gap := new(big.Int).Sub(max, new(big.Int).Div(cur, youUnit)) // YOU left below the threshold
				if gap.Sign() < 0 {
					gap = new(big.Int)
				}
				you := func(x *big.Int) string { return new(big.Int).Mul(youUnit, x).String() }
				var amount string
				switch r.Intn(9) {
				case 0:
					amount = "1"
				case 1:
					amount = you(big.NewInt(1))
				case 2:
					amount = you(gap) // exactly reaches the threshold
				case 3:
					amount = you(new(big.Int).Add(gap, big.NewInt(1))) // crosses it
				case 4:
					amount = you(new(big.Int).Add(new(big.Int).Rsh(gap, 1), big.NewInt(1))) // two of these cross it
				case 5:
					amount = you(big.NewInt(int64(10 + r.Intn(3) - 1))) // around MinDelegationTokens
				case 6:
					amount = new(big.Int).Add(bal[k], big.NewInt(int64(r.Intn(3)-1))).String() // around the whole balance
					if num(amount).Sign() <= 0 {
						amount = "1"
					}
				default:
					amount = you(big.NewInt(int64(1 + r.Intn(60000))))
				}
				vmodes := []string{"deposit", "deposit", "deposit", "deposit", "deposit_zero", "withdraw", "withdraw_no_recipient",
					"update", "update_nothing", "status", "settle", "deleg_add", "deleg_add", "deleg_add", "deleg_sub", "deleg_settle"}
				sk = &StkSpec{Mode: vmodes[r.Intn(len(vmodes))], MainKey: v.MainKey, Inner: amount, Status: r.Intn(2)}
				if sk.Mode == "deleg_add" && num(amount).Cmp(num(you(big.NewInt(10)))) < 0 && r.Chance(75) {
					amount = you(big.NewInt(int64(10 + r.Intn(2000))))
					sk.Inner = amount
				}
				if sk.Mode == "deleg_add" {
					delegs = append(delegs, [2]int{k, v.MainKey})
					delegAmt = append(delegAmt, amount)
				}
				if sk.Mode == "deleg_sub" && len(delegs) > 0 && r.Chance(80) {
					// take back (part of) a delegation made earlier in this period
					j := r.Intn(len(delegs))
					k = delegs[j][0]
					m.Key, m.Nonce, sk.MainKey = k, nonce[k], delegs[j][1]
					sk.Inner = delegAmt[j]
					if r.Bool() {
						sk.Inner = new(big.Int).Rsh(num(delegAmt[j]), 1).String()
					}
					if num(sk.Inner).Sign() == 0 {
						sk.Inner = "1"
					}
				}
				if focusKey >= 0 && r.Chance(45) {
					// the same delegator and validator again: add/add, add/sub, sub/add, settle,
					// with the operator's deposits of the other branch in between
					k = focusKey
					m.Key, m.Nonce = k, nonce[k]
					fm := []string{"deleg_add", "deleg_add", "deleg_add", "deleg_sub", "deleg_settle"}
					sk = &StkSpec{Mode: fm[r.Intn(len(fm))], MainKey: focusVal, Inner: you(big.NewInt(int64(10 + r.Intn(3000))))}
					if sk.Mode == "deleg_sub" && r.Bool() {
						sk.Inner = you(big.NewInt(int64(1 + r.Intn(20))))
					}
				}
				if r.Chance(6) {
					sk.MainKey = nKeys + 3 // no such validator
				}
			} else if r.Chance(25) {
				sk.Mode, sk.Role = "create_role", []int{1, 2, 3, 7}[r.Intn(4)]
				switch r.Intn(4) {
				case 0:
					sk.Inner = new(big.Int).Mul(youUnit, big.NewInt(int64(499+r.Intn(3)))).String() // around MinSelfStakes
				case 1:
					sk.Inner = new(big.Int).Mul(youUnit, big.NewInt(int64(150000+r.Intn(2)))).String() // around MaxStakes[house]
				}
			}
			m.Stk = sk
			m.Data = hex.EncodeToString(stakingPayload(sk, keyAddr[k], r))
		case d < 12:
			a := contracts[r.Intn(len(contracts))]
			to = &a
			for _, ac := range c.Accts {
				if common.HexToAddress(ac.Addr) == a {
					kindOfTo = ac.Kind
				}
			}
			if r.Chance(30) {
				m.Data = hex.EncodeToString(randData(r))
			}
		case d < 14:
			a := keyAddr[r.Intn(nKeys)] // possibly the sender itself
			to = &a
		default:
			a := plain[r.Intn(len(plain))]
			to = &a
			if r.Chance(30) {
				m.Data = hex.EncodeToString(randData(r))
			}
		}
		if to != nil {
			h := to.Hex()
			m.To = &h
		}
		ig := intrinsicOf(m)
		// gas limit around the interesting thresholds
		switch g := r.Intn(16); {
		case g == 0:
			m.Gas = ig - uint64(1+r.Intn(3))
		case g == 1:
			m.Gas = ig
		case g == 2:
			m.Gas = ig + uint64(r.Intn(8)) // PUSH / REVERT boundaries
		case g == 3:
			m.Gas = ig + 6 + 2300 + uint64(r.Intn(3)) - 1 // SSTORE sentry
		case g == 4:
			m.Gas = ig + 6 + []uint64{800, 5000, 20000}[r.Intn(3)] + uint64(r.Intn(3)) - 1
		case g == 5:
			m.Gas = ig + 900000 + uint64(r.Intn(3)) - 1 // validator creation gas
		case g == 6:
			m.Gas = uint64(r.Intn(int(ig) + 1))
		case g == 7:
			m.Gas = c.Pool + uint64(r.Intn(3)) - 1 // around the whole pool
		case g == 8 && m.Stk == nil:
			m.Gas = ig + uint64(r.Intn(40000))
		default:
			m.Gas = ig + 1000000 + uint64(r.Intn(100000))
			if m.Stk == nil && kindOfTo != 2 && r.Bool() {
				m.Gas = ig + 30000 + uint64(r.Intn(30000))
			}
		}
		// price
		var price *big.Int
		switch p := r.Intn(30); {
		case p == 0:
			price = new(big.Int)
		case p == 1:
			price = big.NewInt(1)
		case p <= 3 && m.Gas > 0:
			price = new(big.Int).Div(bal[k], new(big.Int).SetUint64(m.Gas)) // just affordable
			if r.Bool() {
				price.Add(price, big.NewInt(1)) // just not
			}
		case p == 4:
			price = new(big.Int).Mul(youUnit, big.NewInt(int64(1+r.Intn(1000))))
		default:
			price = big.NewInt(int64(1 + r.Intn(2000000000)))
		}
		m.Price = price.String()
		// value
		cost := new(big.Int).Mul(price, new(big.Int).SetUint64(m.Gas))
		rest := new(big.Int).Sub(bal[k], cost)
		var value *big.Int
		switch v := r.Intn(10); {
		case v < 3:
			value = new(big.Int)
		case v == 3 && rest.Sign() >= 0:
			value = new(big.Int).Add(rest, big.NewInt(int64(r.Intn(3)-1))) // around everything left after buying gas
			if value.Sign() < 0 {
				value = new(big.Int)
			}
		case v == 4 && rest.Sign() >= 0:
			// everything that is left once the unused gas is returned: exceeds what is there at call time
			value = new(big.Int).Add(rest, big.NewInt(int64(1+r.Intn(1000))))
		case v == 5:
			value = randBig(r)
		default:
			value = big.NewInt(int64(r.Intn(100000)))
		}
		m.Value = value.String()
		c.Msgs = append(c.Msgs, m)
		live.step(len(c.Msgs)-1, m)
	}
	return c
}

// ---------------------------------------------------------------------------

type anyCase struct {
	Kind string `json:"kind"`
}

func loadCorpus(dir string) []interface{} {
	var out []interface{}
	files, _ := filepath.Glob(filepath.Join(dir, "*.json"))
	sort.Strings(files)
	for _, f := range files {
		b, err := ioutil.ReadFile(f)
		if err != nil {
			continue
		}
		if c := decodeCase(b); c != nil {
			out = append(out, c)
		}
	}
	return out
}

func decodeCase(b []byte) interface{} {
	var k anyCase
	if json.Unmarshal(b, &k) != nil {
		return nil
	}
	switch k.Kind {
	case "sender":
		var c SenderCase
		if json.Unmarshal(b, &c) == nil {
			return &c
		}
	case "sign":
		var c SignCase
		if json.Unmarshal(b, &c) == nil {
			return &c
		}
	case "apply":
		var c ApplyCase
		if json.Unmarshal(b, &c) == nil {
			return &c
		}
	}
	return nil
}

type hit struct {
	What string      `json:"what"`
	Case interface{} `json:"case"`
}

func coqParams() string {
	st := "0x" + new(big.Int).SetBytes(params.StakingModuleAddress[:]).Text(16)
	return fmt.Sprintf("mkGP %d %d %d %d %d %d %d %d %d %d %d %d %s %d %d",
		params.TxGas, params.TxGasContractCreation, params.TxDataZeroGas, params.TxDataNonZeroGas,
		params.TxValidatorGas, params.TxValCreationGas, vm.GasFastestStep, params.SstoreSentryGas,
		params.SstoreNoopGas, params.SstoreInitGas, params.SstoreCleanGas, params.SstoreClearRefund, st,
		uint64(params.YouV4), uint64(params.YouV5))
}

func gen(seed uint64, n int, outDir, corpusDir string) {
	r := vf.NewRng(seed)
	res := vf.NewResult("C17", seed)
	var coq []string
	distinct := map[string]bool{}
	add := func(c interface{}) {
		var line, what string
		nontrivial := true
		switch x := c.(type) {
		case *SenderCase:
			observeSender(x)
			line, what = x.coq(), x.What
			res.Count("sender:" + strings.SplitN(x.Class, " (", 2)[0])
			res.Count(fmt.Sprintf("sender_result:%s", []string{"address", "not_protected", "invalid_network_id", "invalid_sig", "recover_failed"}[x.Code]))
		case *SignCase:
			observeSign(x)
			line, what = x.coq(), x.What
			if x.Ok {
				res.Count("signtx:ok")
			} else {
				res.Count("signtx:error")
			}
		case *ApplyCase:
			observeApply(x)
			line, what = x.coq(), x.What
			res.Count("apply_sequences")
			nontrivial = false
			for i, s := range x.Steps {
				res.Count("apply_steps")
				name := map[int]string{0: "applied", 1: "rejected_sender", 2: "rejected_nonce_too_high", 3: "rejected_nonce_too_low", 4: "rejected_insufficient_balance_for_gas", 5: "rejected_gas_limit_reached", 6: "error_intrinsic_gas_after_buygas", 7: "error_insufficient_balance_for_value_after_buygas", 99: "error_other"}[s.Code]
				if s.Code == 0 {
					nontrivial = true
					m := x.Msgs[i]
					switch {
					case m.To == nil:
						name += "_creation"
					case m.Stk != nil:
						name += "_staking_" + m.Stk.Mode
					default:
						name += "_call"
					}
					if s.Failed {
						name += "_failed"
					}
					if x.Msgs[i].Replay > 0 {
						name += "_REPLAYED"
					}
				}
				res.Count("step:" + name)
				if s.Code == 0 && s.Failed && s.HErr != "" && x.Msgs[i].Stk != nil {
					res.Count("handler_error:" + x.Msgs[i].Stk.Mode + ": " + s.HErr)
				}
				if x.Msgs[i].Replay > 0 {
					res.Count("step:replay_attempts")
				}
			}
			res.Count(fmt.Sprintf("apply_version:%d", x.Version))
		}
		coq = append(coq, line)
		if nontrivial {
			distinct[line] = true
		}
		res.CaseDescs = append(res.CaseDescs, c)
		if what != "" {
			res.OracleHits = append(res.OracleHits, hit{what, c})
			res.Count("oracle:" + what)
		}
	}
	for _, c := range loadCorpus(corpusDir) {
		add(c)
		res.Count("corpus")
	}
	for len(coq) < n {
		switch k := r.Intn(20); {
		case k < 9:
			c := genSender(r)
			add(&c)
		case k < 10:
			c := SignCase{Kind: "sign", Net: randNet(r), Tx: randUnsigned(r), Key: r.Intn(nKeys)}
			if r.Chance(15) {
				c.Net = 0
			}
			add(&c)
		default:
			c := genApply(r)
			add(&c)
		}
	}
	var sb strings.Builder
	sb.WriteString("From VF.Lib Require Import Keccak.\nFrom VF.C17 Require Import Model.\nLocal Open Scope N_scope.\n")
	sb.WriteString("Definition P : gparams := " + coqParams() + ".\n")
	sb.WriteString(strings.Join(internDefs, "\n") + "\n")
	sb.WriteString("Definition cases : list case := [\n")
	sb.WriteString(strings.Join(coq, ";\n"))
	sb.WriteString("].\nDefinition M := Eval vm_compute in mismatches keccak256 cases.\nPrint M.\n")
	vf.WriteFile(filepath.Join(outDir, "Cases.v"), sb.String())
	res.Cases = len(coq)
	res.Distinct = len(distinct)
	res.Rule = "three kinds of cases. sender: a random transaction (boundary nonces/prices/limits, creation / staking / zero / short recipients, payloads around the RLP length switches) signed with one of 6 keys for a random network id, then left alone, checked under another network id, or changed in exactly one field / V / r / s (high-s twin, flipped recovery bit, unprotected V, V below 35 with the wrapped network id, +2^64, r,s out of range), observed through types.Sender together with the signing hash; sign: types.SignTx output; apply: an account set (6 key holders with boundary balances, plain recipients, 5 kinds of small contracts, creation-address collisions; in 45% of the cases 1-3 validators that exist before the block, at or near MaxStakes/MinStakes of their role, operated by funded key holders, with delegations already in effect, and one (delegator, validator) pair that gets several delegation add/sub/settle messages per block), a block gas pool and 1-40 signed transactions all in one staking period (calls, creations, staking messages of every action - create, update, deposit, withdraw, change status, settle, delegation add/sub/settle - with amounts 1 wei, exactly reaching / crossing the role threshold alone or together with earlier messages, around MinDelegationTokens and the whole balance, wrong operator, unknown validator, bad payload; wrong nonces, limits around intrinsic gas / SSTORE thresholds / validator creation gas / the pool, prices and values around the balance, verbatim replays) run through StateProcessor.ApplyTransaction under protocol versions 3-5 with snapshot/revert on error like the miner; a case is non-trivial unless it is an apply sequence without any applied transaction; distinct by full input and observation"
	for i, c := range res.CaseDescs {
		if i%97 == 0 && len(res.Samples) < 6 {
			res.Samples = append(res.Samples, c)
		}
	}
	// keep result.json small: case descriptions are only needed for mismatching indexes
	res.Write(filepath.Join(outDir, "result.json"))
}

func tables(out string) {
	var sb strings.Builder
	sb.WriteString("(* GENERATED by harness/cmd/c17 from params / core/vm of the working tree. Do not edit. *)\nFrom VF.C17 Require Import Model.\nLocal Open Scope N_scope.\n")
	sb.WriteString("Definition real_params : gparams := " + coqParams() + ".\n")
	vf.WriteIfChanged(out, sb.String())
}

func replay(file string) {
	b, err := ioutil.ReadFile(file)
	if err != nil {
		fmt.Println(err)
		os.Exit(2)
	}
	var h struct {
		Case json.RawMessage `json:"case"`
	}
	raw := b
	if json.Unmarshal(b, &h) == nil && len(h.Case) > 0 {
		raw = h.Case
	}
	c := decodeCase(raw)
	what := ""
	switch x := c.(type) {
	case *SenderCase:
		observeSender(x)
		fmt.Printf("sender: class=%q net=%d code=%d addr=%s\n", x.Class, x.Net, x.Code, x.Addr)
		what = x.What
	case *SignCase:
		observeSign(x)
		fmt.Printf("sign: net=%d ok=%v vrs=%v\n", x.Net, x.Ok, x.VRS)
		what = x.What
	case *ApplyCase:
		observeApply(x)
		for i, s := range x.Steps {
			fmt.Printf("step %d: code=%d %s gasUsed=%d failed=%v pool=%d obs=%v\n", i, s.Code, s.Err, s.GasUsed, s.Failed, s.Pool, s.Obs)
		}
		what = x.What
		if what != "" {
			what = fmt.Sprintf("%s (step %d)", what, x.WhatAt)
		}
	default:
		fmt.Println("cannot read the case")
		os.Exit(2)
	}
	if what != "" {
		fmt.Println("ORACLE VIOLATION:", what)
		os.Exit(1)
	}
	fmt.Println("property holds on this input")
}

func main() {
	mode := ""
	if len(os.Args) > 1 {
		mode = os.Args[1]
		os.Args = append(os.Args[:1], os.Args[2:]...)
	}
	seed := flag.Uint64("seed", 1, "")
	n := flag.Int("n", 500, "")
	out := flag.String("out", ".", "")
	corpus := flag.String("corpus", "/verif/corpus/C17", "")
	file := flag.String("file", "", "")
	flag.Parse()
	logging.Root().SetHandler(logging.DiscardHandler())
	params.InitNetworkId(params.NetworkIdForTestCase)
	initKeys()
	switch mode {
	case "gen":
		gen(*seed, *n, *out, *corpus)
	case "tables":
		tables(*out)
	case "replay":
		replay(*file)
	default:
		fmt.Println("usage: c17 gen|tables|replay")
		os.Exit(2)
	}
}
