package main

// "probe": readers against head resets.  A few hundred accounts hold three
// pending transactions each (so that a reorg run takes a while); the chain head
// then moves 50-150 times between blocks that all carry the SAME state (child,
// same-height sibling, lower sibling), each move handed to the pool's scheduler
// as loop() does; meanwhile reader goroutines call the read side of the pool
// (Nonce, Stats, Pending, Content, Get, Status, Locals).  Nothing about any
// account changes, so every sequential history gives one answer only:
//   Nonce(a) = account nonce + 3 (top of the pending run + 1),
//   Stats() = (3 * accounts, 0), Pending()/Content() = the three transactions
//   of a in nonce order from the account nonce, nothing queued,
//   Get finds every transaction, Status says pending, Locals() is empty.
// A reader that sees anything else has looked into the middle of a critical
// section (e.g. the fresh, not yet re-seeded nonce tracker that reset installs).

import (
	"crypto/sha256"
	"encoding/json"
	"fmt"
	"math/big"
	"os"
	"sync"
	"sync/atomic"
	"time"

	"github.com/youchainhq/go-youchain/common"
	"github.com/youchainhq/go-youchain/core"
	"github.com/youchainhq/go-youchain/core/state"
	"github.com/youchainhq/go-youchain/core/types"
	"github.com/youchainhq/go-youchain/crypto"
	"github.com/youchainhq/go-youchain/event"
	"github.com/youchainhq/go-youchain/youdb"
)

type ProbeParams struct {
	Seed     uint64 `json:"seed"`
	Accounts int    `json:"accounts"`
	Resets   int    `json:"resets"`
	Readers  int    `json:"readers"`
}

type ProbeResult struct {
	Probe         ProbeParams `json:"probe"`
	Observations  int64       `json:"observations"`
	NonceCalls    int64       `json:"nonce_calls"`
	Disagreements int64       `json:"disagreements"`
	First         string      `json:"first_bad_observation"`
	Millis        int64       `json:"millis"`
}

const probePerAcct = 3

func runProbe(pp ProbeParams) ProbeResult {
	signer := types.MakeSigner(big.NewInt(0))
	addrs := make([]common.Address, pp.Accounts)
	txs := make([][]*types.Transaction, pp.Accounts)
	base := make([]uint64, pp.Accounts)
	st, _ := state.New(common.Hash{}, common.Hash{}, common.Hash{}, state.NewDatabase(youdb.NewMemDatabase()))
	for i := range addrs {
		h := sha256.Sum256([]byte(fmt.Sprintf("c20-probe-%d-%d", pp.Seed, i)))
		k := crypto.ToECDSAUnsafe(h[:])
		addrs[i] = crypto.PubkeyToAddress(k.PublicKey)
		base[i] = uint64(i % 4)
		st.SetNonce(addrs[i], base[i])
		st.SetBalance(addrs[i], new(big.Int).Lsh(big.NewInt(1), 80))
		for n := 0; n < probePerAcct; n++ {
			t, err := types.SignTx(types.NewTransaction(base[i]+uint64(n), common.Address{0xaa}, big.NewInt(0), 21000, big.NewInt(10), nil), signer, k)
			if err != nil {
				panic(err)
			}
			txs[i] = append(txs[i], t)
		}
	}
	var root common.Hash
	root[0] = 0xd1
	chain := &lockedChain{blocks: map[common.Hash]*types.Block{}, states: map[common.Hash]*state.StateDB{}, feed: new(event.Feed), proc: core.VerifTestProcessor()}
	chain.states[root] = st
	mkBlock := func(num int64, parent *types.Block, tag byte) *types.Block {
		h := &types.Header{Number: big.NewInt(num), GasLimit: 1000000, Root: root, Extra: []byte{tag}}
		if parent != nil {
			h.ParentHash = parent.Hash()
		}
		b := types.NewBlock(h, nil, nil)
		chain.blocks[b.Hash()] = b
		return b
	}
	g := mkBlock(0, nil, 0)
	a := mkBlock(1, g, 1)
	b := mkBlock(1, g, 2) // same-height sibling of a
	c := mkBlock(2, a, 3)
	d := mkBlock(2, b, 4)
	chain.head = g
	cfg := core.TxPoolConfig{Journal: "", Rejournal: time.Hour, PriceLimit: 1, PriceBump: 10, AccountSlots: 16, GlobalSlots: 1 << 20,
		AccountQueue: 64, GlobalQueue: 1 << 20, Lifetime: time.Hour}
	pool := core.NewTxPool(cfg, chain)
	defer pool.Stop()
	for i := range addrs {
		for _, err := range pool.AddRemotesSync(txs[i]) {
			if err != nil {
				panic(err)
			}
		}
	}
	res := ProbeResult{Probe: pp}
	var firstMu sync.Mutex
	bad := func(format string, args ...interface{}) {
		atomic.AddInt64(&res.Disagreements, 1)
		firstMu.Lock()
		if res.First == "" {
			res.First = fmt.Sprintf(format, args...)
		}
		firstMu.Unlock()
	}
	var resetsDone int64
	checkList := func(api string, i int, l types.Transactions) {
		if len(l) != probePerAcct {
			bad("%s hands out %d transactions for account %d (after %d resets); every sequential history gives %d", api, len(l), i, atomic.LoadInt64(&resetsDone), probePerAcct)
			return
		}
		for j, tx := range l {
			if tx.Nonce() != base[i]+uint64(j) {
				bad("%s: account %d position %d has nonce %d, want %d (gap-free from the account nonce %d)", api, i, j, tx.Nonce(), base[i]+uint64(j), base[i])
				return
			}
		}
	}
	var stop int32
	var wg sync.WaitGroup
	start := time.Now()
	for rd := 0; rd < pp.Readers; rd++ {
		wg.Add(1)
		go func(rd int) {
			defer wg.Done()
			for it := 0; atomic.LoadInt32(&stop) == 0; it++ {
				i := (it*7 + rd*13) % pp.Accounts
				// Reader 0 is the polling wallet: nonce queries only.  The other readers stay with ONE
				// call kind for the duration of a reset (a reader that mixes calls gets into step with
				// the reorg runs at its first call that takes the pool lock, and would then never look
				// at the pool while a run is in flight).
				kind := 0
				if rd > 0 {
					kind = (int(atomic.LoadInt64(&resetsDone)) + rd) % 6
				}
				switch kind {
				case 0:
					for k := 0; k < 32; k++ {
						j := (i + k) % pp.Accounts
						if got := pool.Nonce(addrs[j]); got != base[j]+probePerAcct {
							bad("Nonce(account %d) = %d while the account (nonce %d) has pending nonces %d..%d and nothing about it changed (reader %d, after %d of %d resets); only legal answer %d",
								j, got, base[j], base[j], base[j]+probePerAcct-1, rd, atomic.LoadInt64(&resetsDone), pp.Resets, base[j]+probePerAcct)
						}
					}
					atomic.AddInt64(&res.NonceCalls, 32)
					atomic.AddInt64(&res.Observations, 31)
				case 1:
					if p, q := pool.Stats(); p != probePerAcct*pp.Accounts || q != 0 {
						bad("Stats() = %d pending / %d queued, every sequential history gives %d / 0", p, q, probePerAcct*pp.Accounts)
					}
				case 2:
					if tx := pool.Get(txs[i][1].Hash()); tx == nil {
						bad("Get does not find the pending transaction of account %d nonce %d", i, base[i]+1)
					}
					for j, s := range pool.Status([]common.Hash{txs[i][0].Hash(), txs[i][2].Hash()}) {
						if s != core.TxStatusPending {
							bad("Status(tx %d of account %d) = %d, the transaction is pending in every sequential history", 2*j, i, s)
						}
					}
				case 3:
					if l := pool.Locals(); len(l) != 0 {
						bad("Locals() reports %d accounts, no local submission was ever made", len(l))
					}
				case 4:
					pend, _ := pool.Pending()
					if len(pend) != pp.Accounts {
						bad("Pending() reports %d accounts, want %d", len(pend), pp.Accounts)
					}
					checkList("Pending()", i, pend[addrs[i]])
				case 5:
					pend, queued := pool.Content()
					if len(queued) != 0 {
						bad("Content() reports %d accounts with queued transactions, want none", len(queued))
					}
					checkList("Content()", i, pend[addrs[i]])
				}
				atomic.AddInt64(&res.Observations, 1)
			}
		}(rd)
	}
	// head changes, all to the same state: child, sibling, lower sibling, back
	path := []*types.Block{a, c, b, d, a, b, g, a}
	cur := g
	for r := 0; r < pp.Resets; r++ {
		nw := path[r%len(path)]
		chain.mu.Lock()
		chain.head = nw
		chain.mu.Unlock()
		pool.VerifRequestReset(cur.Header(), nw.Header())
		cur = nw
		atomic.AddInt64(&resetsDone, 1)
	}
	atomic.StoreInt32(&stop, 1)
	wg.Wait()
	res.Millis = time.Since(start).Milliseconds()
	// sequential epilogue: the same answers with nobody else around
	for i := range addrs {
		if got := pool.Nonce(addrs[i]); got != base[i]+probePerAcct {
			bad("sequential: Nonce(account %d) = %d, want %d", i, got, base[i]+probePerAcct)
		}
	}
	if p, q := pool.Stats(); p != probePerAcct*pp.Accounts || q != 0 {
		bad("sequential: Stats() = %d/%d", p, q)
	}
	return res
}

func probeCmd(seed uint64, accounts, resets int) {
	res := runProbe(ProbeParams{Seed: seed, Accounts: accounts, Resets: resets, Readers: 2})
	b, _ := json.Marshal(res)
	fmt.Println(string(b))
	if res.Disagreements > 0 {
		fmt.Println("ORACLE VIOLATION: reader-saw-state-no-sequential-history-produces:", res.First)
		os.Exit(1)
	}
}

// replayProbe reruns the probe with the recorded parameters.  The overlap of a
// reader with a reorg run is up to the Go scheduler, so the probe is repeated
// and the hit rate reported.
func replayProbe(pp ProbeParams) {
	const tries = 5
	hits, first := 0, ""
	for t := 0; t < tries; t++ {
		res := runProbe(pp)
		b, _ := json.Marshal(res)
		fmt.Printf("probe run %d: %s\n", t+1, b)
		if res.Disagreements > 0 {
			hits++
			if first == "" {
				first = res.First
			}
		}
	}
	fmt.Printf("hit rate: %d of %d probe runs saw a reader observation that no sequential history produces\n", hits, tries)
	if hits > 0 {
		fmt.Println("ORACLE VIOLATION: reader-saw-state-no-sequential-history-produces:", first)
		os.Exit(1)
	}
	fmt.Println("no violation in", tries, "probe runs")
}
