package main

// "stress": concurrent use of one pool by submitters (p2p/RPC role), readers
// (miner/RPC role) and a chain that keeps producing heads, meant to be run
// from a binary built with -race.  Supporting evidence for the data-race
// clause only; the final state is checked with the sequential oracle.

import (
	"encoding/json"
	"fmt"
	"math/big"
	"os"
	"sync"
	"sync/atomic"
	"time"

	"github.com/youchainhq/go-youchain/common"
	"github.com/youchainhq/go-youchain/core"
	"github.com/youchainhq/go-youchain/core/state"
	"github.com/youchainhq/go-youchain/core/types"
	"github.com/youchainhq/go-youchain/event"
	"github.com/youchainhq/go-youchain/youdb"
	"verif/harness/vf"
)

type lockedChain struct {
	mu     sync.RWMutex
	blocks map[common.Hash]*types.Block
	states map[common.Hash]*state.StateDB
	head   *types.Block
	feed   *event.Feed
	proc   core.Processor
}

func (bc *lockedChain) Processor() core.Processor { return bc.proc }
func (bc *lockedChain) CurrentBlock() *types.Block {
	bc.mu.RLock()
	defer bc.mu.RUnlock()
	return bc.head
}
func (bc *lockedChain) GetBlock(hash common.Hash, number uint64) *types.Block {
	bc.mu.RLock()
	defer bc.mu.RUnlock()
	if b, ok := bc.blocks[hash]; ok && b.NumberU64() == number {
		return b
	}
	return nil
}
func (bc *lockedChain) StateAt(root, a, b common.Hash) (*state.StateDB, error) {
	bc.mu.RLock()
	defer bc.mu.RUnlock()
	if s, ok := bc.states[root]; ok {
		return s, nil
	}
	return nil, fmt.Errorf("state not available")
}
func (bc *lockedChain) SubscribeChainHeadEvent(ch chan<- core.ChainHeadEvent) event.Subscription {
	return bc.feed.Subscribe(ch)
}

func stress(seed uint64, millis int, outDir string, withUnlockedEntry bool) {
	const nacc = 4
	var addrs []common.Address
	for i := 0; i < nacc; i++ {
		addrs = append(addrs, keys[i].addr)
	}
	chain := &lockedChain{blocks: map[common.Hash]*types.Block{}, states: map[common.Hash]*state.StateDB{}, feed: new(event.Feed), proc: core.VerifTestProcessor()}
	nonces := make([]uint64, nacc) // account nonces on the head (owned by the head producer)
	mkState := func() *state.StateDB {
		s, _ := state.New(common.Hash{}, common.Hash{}, common.Hash{}, state.NewDatabase(youdb.NewMemDatabase()))
		for i, a := range addrs {
			s.SetNonce(a, nonces[i])
			s.SetBalance(a, big.NewInt(1000000000000))
		}
		return s
	}
	var blockNo int64
	mkBlock := func(parent *types.Block, txs []*types.Transaction) *types.Block {
		n := atomic.AddInt64(&blockNo, 1)
		var root common.Hash
		root[0] = 0xc0
		big.NewInt(n).FillBytes(root[16:])
		h := &types.Header{Number: big.NewInt(n), GasLimit: 1000000, Root: root}
		if parent != nil {
			h.ParentHash = parent.Hash()
		}
		b := types.NewBlock(h, txs, nil)
		chain.mu.Lock()
		chain.blocks[b.Hash()] = b
		chain.states[root] = mkState()
		chain.head = b
		chain.mu.Unlock()
		return b
	}
	mkBlock(nil, nil)
	cfg := core.TxPoolConfig{Journal: "", Rejournal: time.Hour, PriceLimit: 1, PriceBump: 10, AccountSlots: 4, GlobalSlots: 12,
		AccountQueue: 4, GlobalQueue: 8, Lifetime: time.Hour, Locals: []common.Address{addrs[3]}}
	pool := core.NewTxPool(cfg, chain)
	var seen sync.Map // hash -> struct{}
	stop := make(chan struct{})
	var wg sync.WaitGroup
	var counts [6]int64
	submit := func(id uint64) {
		defer wg.Done()
		r := vf.NewRng(seed*977 + id)
		for {
			select {
			case <-stop:
				return
			default:
			}
			a := r.Intn(nacc)
			n := pool.Nonce(addrs[a]) + uint64(r.Intn(4))
			if r.Chance(10) && n > 0 {
				n--
			}
			raw := types.NewTransaction(n, common.Address{0xaa}, big.NewInt(int64(r.Intn(3))), 21000, big.NewInt(int64(8*(1+r.Intn(12))+a)), nil)
			tx := keys[a].tx(raw)
			seen.Store(tx.Hash(), struct{}{})
			switch r.Intn(4) {
			case 0:
				pool.AddRemotesSync([]*types.Transaction{tx})
			case 1:
				if a == 3 {
					pool.AddLocal(tx)
				} else {
					pool.AddRemote(tx)
				}
			default:
				pool.AddRemotes([]*types.Transaction{tx})
			}
			atomic.AddInt64(&counts[0], 1)
		}
	}
	reader := func(id uint64) {
		defer wg.Done()
		r := vf.NewRng(seed*31 + id)
		for {
			select {
			case <-stop:
				return
			default:
			}
			switch r.Intn(7) {
			case 0:
				p, _ := pool.Pending()
				for a, l := range p {
					for i := 1; i < len(l); i++ {
						if l[i].Nonce() <= l[i-1].Nonce() {
							panic(fmt.Sprintf("Pending() of %x not sorted", a))
						}
					}
				}
			case 1:
				pool.Content()
			case 2:
				pool.Stats()
			case 3:
				var hs []common.Hash
				seen.Range(func(k, _ interface{}) bool { hs = append(hs, k.(common.Hash)); return len(hs) < 40 })
				pool.Status(hs)
				for _, h := range hs {
					pool.Get(h)
				}
			case 4:
				pool.Nonce(addrs[r.Intn(nacc)])
				if withUnlockedEntry {
					pool.TransactionsNumber() // the exported method that reads the views without pool.mu
				}
			case 5:
				pool.Locals()
				pool.GasPrice()
			case 6:
				if r.Chance(5) {
					pool.SetGasPrice(big.NewInt(int64(1 + r.Intn(20))))
				}
			}
			atomic.AddInt64(&counts[1], 1)
		}
	}
	miner := func() {
		defer wg.Done()
		for {
			select {
			case <-stop:
				return
			case <-time.After(3 * time.Millisecond):
			}
			// mine a prefix of what the pool reports as pending
			p, _ := pool.Pending()
			var txs []*types.Transaction
			for i, a := range addrs {
				for _, tx := range p[a] {
					if tx.Nonce() == nonces[i] && len(txs) < 6 {
						txs = append(txs, tx)
						nonces[i]++
					}
				}
			}
			b := mkBlock(chain.CurrentBlock(), txs)
			chain.feed.Send(core.ChainHeadEvent{Block: b})
			atomic.AddInt64(&counts[2], 1)
		}
	}
	for i := 0; i < 3; i++ {
		wg.Add(1)
		go submit(uint64(i))
	}
	for i := 0; i < 2; i++ {
		wg.Add(1)
		go reader(uint64(i))
	}
	wg.Add(1)
	go miner()
	time.Sleep(time.Duration(millis) * time.Millisecond)
	close(stop)
	wg.Wait()
	time.Sleep(50 * time.Millisecond)
	pool.VerifRequestReset(nil, chain.CurrentBlock().Header())
	// sequential oracle on the final views (structure only: the harness has no tx table here)
	s := pool.VerifSnapshot(addrs)
	what := ""
	inAll := map[common.Hash]bool{}
	for _, h := range s.All {
		inAll[h] = true
	}
	total := 0
	for i, a := range s.Accounts {
		for k, l := range []*core.VerifListView{a.Pending, a.Queue} {
			if l == nil {
				continue
			}
			total += len(l.Hashes)
			for _, h := range l.Hashes {
				if !inAll[h] {
					what = fmt.Sprintf("account %d view %d lists a tx missing from the lookup", i, k)
				}
			}
		}
		if a.Pending != nil {
			for j, n := range a.Pending.Nonces {
				if n != a.StateNonce+uint64(j) {
					what = fmt.Sprintf("account %d pending nonces %v from account nonce %d", i, a.Pending.Nonces, a.StateNonce)
				}
			}
			if a.Queue != nil && a.Queue.Nonces[0] <= a.Pending.Nonces[len(a.Pending.Nonces)-1] {
				what = fmt.Sprintf("account %d queued nonce below pending", i)
			}
		}
	}
	if total != len(s.All) {
		what = fmt.Sprintf("lookup %d != pending+queued %d", len(s.All), total)
	}
	pool.Stop()
	res := map[string]interface{}{"submissions": counts[0], "reads": counts[1], "heads": counts[2], "final_pooled": len(s.All), "oracle": what}
	b, _ := json.Marshal(res)
	fmt.Println(string(b))
	if outDir != "" {
		vf.WriteFile(outDir+"/stress.json", string(b))
	}
	if what != "" {
		fmt.Println("ORACLE VIOLATION:", what)
		os.Exit(1)
	}
}
