// C20 harness: drives the real core.TxPool of the working tree (public API plus
// the single-critical-section entry points of hooks/core/zz_verif_c20.go) with
// random operation sequences over a scripted chain, records the pool's views
// after every operation as a Coq file for the model comparison, and evaluates
// the property oracle on the implementation's own views.
package main

import (
	"crypto/sha256"
	"encoding/json"
	"flag"
	"fmt"
	"io/ioutil"
	"math/big"
	"os"
	"path/filepath"
	"sort"
	"strings"
	"sync"
	"time"

	"github.com/youchainhq/go-youchain/common"
	"github.com/youchainhq/go-youchain/core"
	"github.com/youchainhq/go-youchain/core/state"
	"github.com/youchainhq/go-youchain/core/types"
	"github.com/youchainhq/go-youchain/crypto"
	"github.com/youchainhq/go-youchain/event"
	"github.com/youchainhq/go-youchain/logging"
	"github.com/youchainhq/go-youchain/params"
	"github.com/youchainhq/go-youchain/youdb"
	"verif/harness/vf"
)

const KnownGap = "pending-gap-after-partial-reinject"

// ---- case format ------------------------------------------------------------

type Cfg struct {
	PriceLimit, PriceBump                                uint64
	AccountSlots, GlobalSlots, AccountQueue, GlobalQueue uint64
	NoLocals                                             bool
	Locals                                               []int
}
type Tx struct {
	ID                       int
	From                     int
	Sig                      bool
	Nonce, Price, Gas, Value uint64
	Data                     int // payload length (33000 = oversized)
	Intr                     uint64
	Big                      bool
}
type Acct struct{ Nonce, Balance uint64 }
type Block struct {
	ID, Parent int // Parent -1 = zero hash
	Num        uint64
	GasLimit   uint64
	StateOK    bool
	State      []Acct
	Txs        []int
}
type Op struct {
	K         string `json:"k"`
	Block     int    `json:"block,omitempty"` // K=block: index into Blocks
	Txs       []int  `json:"txs,omitempty"`
	Local     bool   `json:"local,omitempty"`
	Reset     bool   `json:"reset,omitempty"`
	Old       int    `json:"old"` // -1 = nil
	New       int    `json:"new"`
	Dirty     []int  `json:"dirty,omitempty"`
	HaveDirty bool   `json:"have_dirty,omitempty"`
	ViaLoop   bool   `json:"via_loop,omitempty"`
	Price     uint64 `json:"price,omitempty"`
	Expired   []int  `json:"expired,omitempty"`
	Tx        int    `json:"tx,omitempty"`
	Oob       bool   `json:"oob,omitempty"`
	Reqs      []Req  `json:"reqs,omitempty"` // K=burst: events handed to the scheduler while a run is in flight
}

// Req is one event of a burst: a head change (Reset), a remote submission
// (Txs; Dirty is filled in with what the pool reported dirty), or a promotion
// request for Dirty.
type Req struct {
	Reset bool  `json:"reset,omitempty"`
	Old   int   `json:"old"`
	New   int   `json:"new"`
	Dirty []int `json:"dirty,omitempty"`
	Txs   []int `json:"txs,omitempty"`
	Add   bool  `json:"add,omitempty"`
}

// merged: what the scheduler must make of a burst (independently of the Coq
// model): old head of the first reset, new head of the LAST one, union of the
// dirty sets - as a plain reorg op.
func (op *Op) merged() *Op {
	m := &Op{K: "reorg", Old: -1, New: -1, HaveDirty: true}
	seen := map[int]bool{}
	for _, r := range op.Reqs {
		if r.Reset {
			if !m.Reset {
				m.Reset, m.Old = true, r.Old
			}
			m.New = r.New
			continue
		}
		for _, a := range r.Dirty {
			if !seen[a] {
				seen[a] = true
				m.Dirty = append(m.Dirty, a)
			}
		}
		if r.Add {
			m.Txs = append(m.Txs, r.Txs...)
		}
	}
	return m
}
type Case struct {
	What    string  `json:"what,omitempty"`
	Comment string  `json:"comment,omitempty"`
	Cfg     Cfg     `json:"cfg"`
	NAccts  int     `json:"naccts"`
	Genesis int     `json:"genesis"`
	Txs     []Tx    `json:"txs"`
	Blocks  []Block `json:"blocks"`
	Ops     []Op    `json:"ops"`
}

// ---- observations -----------------------------------------------------------

type AcctObs struct {
	Pending, Queue []int
	Nonce          uint64
	Local          bool
}
type Obs struct {
	OutKind  int // 0 none, 1 errs, 2 pending
	Errs     []int
	PendView [][]int // [acct, ids...]
	Accts    []AcctObs
	All      []int
	Beats    []int
	GasPrice uint64
	Ord      []int
}

// ---- environment ------------------------------------------------------------

var keys [8]*struct {
	addr common.Address
	tx   func(*types.Transaction) *types.Transaction
}

func initKeys() {
	signer := types.MakeSigner(big.NewInt(0))
	for i := range keys {
		h := sha256.Sum256([]byte(fmt.Sprintf("c20-key-%d", i)))
		k := crypto.ToECDSAUnsafe(h[:])
		keys[i] = &struct {
			addr common.Address
			tx   func(*types.Transaction) *types.Transaction
		}{crypto.PubkeyToAddress(k.PublicKey), func(t *types.Transaction) *types.Transaction {
			s, err := types.SignTx(t, signer, k)
			if err != nil {
				panic(err)
			}
			return s
		}}
	}
}

type stubChain struct {
	mu     sync.Mutex // the pool's loop goroutine reads the head once at start-up
	blocks map[common.Hash]*types.Block
	states map[common.Hash]*state.StateDB
	head   *types.Block
	feed   *event.Feed
	proc   core.Processor
}

func (bc *stubChain) Processor() core.Processor { return bc.proc }
func (bc *stubChain) CurrentBlock() *types.Block {
	bc.mu.Lock()
	defer bc.mu.Unlock()
	return bc.head
}
func (bc *stubChain) setHead(b *types.Block) {
	bc.mu.Lock()
	bc.head = b
	bc.mu.Unlock()
}
func (bc *stubChain) GetBlock(hash common.Hash, number uint64) *types.Block {
	if b, ok := bc.blocks[hash]; ok && b.NumberU64() == number {
		return b
	}
	return nil
}
func (bc *stubChain) StateAt(root, a, b common.Hash) (*state.StateDB, error) {
	if s, ok := bc.states[root]; ok {
		return s, nil
	}
	return nil, fmt.Errorf("state not available")
}
func (bc *stubChain) SubscribeChainHeadEvent(ch chan<- core.ChainHeadEvent) event.Subscription {
	return bc.feed.Subscribe(ch)
}

type env struct {
	c      *Case
	pool   *core.TxPool
	chain  *stubChain
	txs    []*types.Transaction // by Tx.ID
	idOf   map[common.Hash]int  // tx hash -> id
	blocks []*types.Block       // by Block.ID
	addrs  []common.Address
	proc   core.Processor
}

func (e *env) buildTx(t *Tx) *types.Transaction {
	data := make([]byte, t.Data)
	for i := range data {
		if t.Data < 1000 {
			data[i] = 1
		}
	}
	raw := types.NewTransaction(t.Nonce, common.Address{0xaa}, new(big.Int).SetUint64(t.Value), t.Gas, new(big.Int).SetUint64(t.Price), data)
	if t.Sig {
		raw = keys[t.From].tx(raw)
	}
	to := raw.To()
	intr, err := e.proc.GetConverter(to).IntrinsicGas(raw.Data(), to)
	if err != nil {
		panic(err)
	}
	t.Intr = intr
	t.Big = raw.Size() > 32*1024
	return raw
}

func (e *env) ensureTxs() {
	for len(e.txs) < len(e.c.Txs) {
		t := &e.c.Txs[len(e.txs)]
		x := e.buildTx(t)
		e.txs = append(e.txs, x)
		e.idOf[x.Hash()] = t.ID
	}
}

func (e *env) buildBlock(b *Block) *types.Block {
	var root common.Hash
	root[0] = 0xb0
	big.NewInt(int64(b.ID + 1)).FillBytes(root[16:])
	h := &types.Header{Number: new(big.Int).SetUint64(b.Num), GasLimit: b.GasLimit, Root: root, Extra: []byte(fmt.Sprintf("b%d", b.ID))}
	if b.Parent >= 0 {
		h.ParentHash = e.blocks[b.Parent].Hash()
	}
	var txs []*types.Transaction
	for _, id := range b.Txs {
		txs = append(txs, e.txs[id])
	}
	blk := types.NewBlock(h, txs, nil)
	if b.StateOK {
		s, _ := state.New(common.Hash{}, common.Hash{}, common.Hash{}, state.NewDatabase(youdb.NewMemDatabase()))
		for i, a := range b.State {
			s.SetNonce(e.addrs[i], a.Nonce)
			s.SetBalance(e.addrs[i], new(big.Int).SetUint64(a.Balance))
		}
		e.chain.states[root] = s
	}
	return blk
}

func (e *env) ensureBlocks() {
	e.ensureTxs()
	for len(e.blocks) < len(e.c.Blocks) {
		e.blocks = append(e.blocks, e.buildBlock(&e.c.Blocks[len(e.blocks)]))
	}
}

func newEnv(c *Case) *env {
	e := &env{c: c, idOf: map[common.Hash]int{}, proc: core.VerifTestProcessor()}
	for i := 0; i < c.NAccts; i++ {
		e.addrs = append(e.addrs, keys[i].addr)
	}
	e.chain = &stubChain{blocks: map[common.Hash]*types.Block{}, states: map[common.Hash]*state.StateDB{}, feed: new(event.Feed), proc: e.proc}
	e.ensureBlocks()
	g := e.blocks[c.Genesis]
	e.chain.blocks[g.Hash()] = g
	e.chain.head = g
	cfg := core.TxPoolConfig{Journal: "", Rejournal: time.Hour, PriceLimit: c.Cfg.PriceLimit, PriceBump: c.Cfg.PriceBump,
		AccountSlots: c.Cfg.AccountSlots, GlobalSlots: c.Cfg.GlobalSlots, AccountQueue: c.Cfg.AccountQueue, GlobalQueue: c.Cfg.GlobalQueue,
		Lifetime: 1000 * time.Hour, NoLocals: c.Cfg.NoLocals}
	for _, i := range c.Cfg.Locals {
		cfg.Locals = append(cfg.Locals, e.addrs[i])
	}
	e.pool = core.NewTxPool(cfg, e.chain)
	return e
}

func (e *env) close() { e.pool.Stop() }

func errCode(err error) int {
	switch err {
	case nil:
		return 0
	case core.ErrOversizedData:
		return 1
	case core.ErrNegativeValue:
		return 2
	case core.ErrGasLimit:
		return 3
	case core.ErrInvalidSender:
		return 4
	case core.ErrUnderpriced:
		return 5
	case core.ErrNonceTooLow:
		return 6
	case core.ErrInsufficientFunds:
		return 7
	case core.ErrIntrinsicGas:
		return 8
	case core.ErrReplaceUnderpriced:
		return 10
	}
	if strings.HasPrefix(err.Error(), "know transaction") {
		return 9
	}
	return 11
}

var errNames = []string{"ok", "oversized", "negative", "gaslimit", "invalid_sender", "underpriced", "nonce_too_low", "insufficient_funds", "intrinsic_gas", "known", "replace_underpriced", "other"}

func (e *env) acctIdx(a common.Address) int {
	for i, x := range e.addrs {
		if x == a {
			return i
		}
	}
	return -1
}

func (e *env) ids(v *core.VerifListView) []int {
	if v == nil {
		return nil
	}
	out := make([]int, len(v.Hashes))
	for i, h := range v.Hashes {
		id, ok := e.idOf[h]
		if !ok {
			id = -1
		}
		out[i] = id
	}
	return out
}

// exec runs one op on the implementation and returns the observation and the
// raw snapshot.
func (e *env) exec(op *Op) (*Obs, *core.VerifSnapshot, []string) {
	e.ensureBlocks()
	ob := &Obs{}
	var apiIssues []string
	pick := func(ids []int) []*types.Transaction {
		out := make([]*types.Transaction, len(ids))
		for i, id := range ids {
			out[i] = e.txs[id]
		}
		return out
	}
	hdr := func(i int) *types.Header {
		if i < 0 {
			return nil
		}
		return e.blocks[i].Header()
	}
	switch op.K {
	case "block":
		b := e.blocks[op.Block]
		e.chain.blocks[b.Hash()] = b
	case "add":
		var errs []error
		if op.Local {
			errs = e.pool.AddLocals(pick(op.Txs))
		} else {
			errs = e.pool.AddRemotesSync(pick(op.Txs))
		}
		ob.OutKind = 1
		for _, er := range errs {
			ob.Errs = append(ob.Errs, errCode(er))
		}
	case "addlocked":
		errs, _ := e.pool.VerifAddLocked(pick(op.Txs), op.Local && !e.c.Cfg.NoLocals)
		ob.OutKind = 1
		for _, er := range errs {
			ob.Errs = append(ob.Errs, errCode(er))
		}
	case "reorg":
		if op.Reset {
			e.chain.setHead(e.blocks[op.New])
		}
		if op.Reset && op.ViaLoop && !op.HaveDirty {
			e.pool.VerifRequestReset(hdr(op.Old), hdr(op.New))
		} else {
			var d []common.Address
			for _, i := range op.Dirty {
				d = append(d, e.addrs[i])
			}
			e.pool.VerifReorg(op.Reset, hdr(op.Old), hdr(op.New), d, op.HaveDirty)
		}
	case "burst":
		reqs := make([]core.VerifReq, len(op.Reqs))
		for i, r := range op.Reqs {
			switch {
			case r.Reset:
				reqs[i] = core.VerifReq{Reset: true, Old: hdr(r.Old), New: hdr(r.New)}
			case r.Add:
				reqs[i] = core.VerifReq{Txs: pick(r.Txs)}
				if reqs[i].Txs == nil {
					reqs[i].Txs = []*types.Transaction{}
				}
			default:
				var d []common.Address
				for _, a := range r.Dirty {
					d = append(d, e.addrs[a])
				}
				reqs[i] = core.VerifReq{Dirty: d}
			}
		}
		_, dirties := e.pool.VerifCoalesced(reqs, func(i int) { e.chain.setHead(e.blocks[op.Reqs[i].New]) })
		for i, r := range op.Reqs {
			if r.Add {
				var d []int
				for _, a := range dirties[i] {
					d = append(d, e.acctIdx(a))
				}
				sort.Ints(d)
				op.Reqs[i].Dirty = d
			}
		}
	case "price":
		e.pool.SetGasPrice(new(big.Int).SetUint64(op.Price))
	case "evict":
		exp := map[common.Address]bool{}
		for _, i := range op.Expired {
			exp[e.addrs[i]] = true
		}
		e.pool.VerifEvict(func(a common.Address) bool { return exp[a] })
	case "remove":
		e.pool.VerifRemoveTx(e.txs[op.Tx].Hash(), op.Oob)
	case "pending":
		before := e.pool.VerifSnapshot(e.addrs)
		pend, _ := e.pool.Pending()
		ob.OutKind = 2
		for i, a := range e.addrs {
			l, ok := pend[a]
			if !ok {
				continue
			}
			row := []int{i}
			for _, tx := range l {
				id, ok := e.idOf[tx.Hash()]
				if !ok {
					id = -1
				}
				row = append(row, id)
			}
			ob.PendView = append(ob.PendView, row)
		}
		// API view == stored view
		for i, va := range before.Accounts {
			want := e.ids(va.Pending)
			var got []int
			for _, row := range ob.PendView {
				if row[0] == i {
					got = row[1:]
				}
			}
			if fmt.Sprint(want) != fmt.Sprint(got) && !(len(want) == 0 && len(got) == 0) {
				apiIssues = append(apiIssues, fmt.Sprintf("Pending() hands out %v for account %d but the pending list holds %v", got, i, want))
			}
		}
		if len(pend) != before.PendingKeys {
			apiIssues = append(apiIssues, "Pending() reports an account outside the known universe or misses one")
		}
	default:
		panic("unknown op " + op.K)
	}
	s := e.pool.VerifSnapshot(e.addrs)
	for _, va := range s.Accounts {
		ob.Accts = append(ob.Accts, AcctObs{e.ids(va.Pending), e.ids(va.Queue), va.PoolNonce, va.Local})
	}
	for _, h := range s.All {
		id, ok := e.idOf[h]
		if !ok {
			id = -1
		}
		ob.All = append(ob.All, id)
	}
	sort.Ints(ob.All)
	type bt struct {
		i int
		t time.Time
	}
	var bs []bt
	for i, va := range s.Accounts {
		if va.HasBeat {
			bs = append(bs, bt{i, va.Beat})
		}
	}
	sort.SliceStable(bs, func(i, j int) bool { return bs[i].t.Before(bs[j].t) })
	seen := map[int]bool{}
	for _, b := range bs {
		ob.Beats = append(ob.Beats, b.i)
		ob.Ord = append(ob.Ord, b.i)
		seen[b.i] = true
	}
	for i := range e.addrs {
		if !seen[i] {
			ob.Ord = append(ob.Ord, i)
		}
	}
	ob.GasPrice = s.GasPrice.Uint64()
	return ob, s, apiIssues
}

// expectReinject re-derives, from the chain the stub serves, the transactions a
// reset must offer to the pool again: those of the abandoned blocks that the new
// branch does not contain.  ok=false when the pool legitimately skips the walk
// (no old head, direct child, deep jump, unknown blocks, state unavailable).
func (e *env) expectReinject(op *Op) ([]int, bool) {
	if op.K == "burst" {
		op = op.merged()
	}
	if op.K != "reorg" || !op.Reset || op.Old < 0 || !e.c.Blocks[op.New].StateOK {
		return nil, false
	}
	old, nw := e.blocks[op.Old], e.blocks[op.New]
	if old.Hash() == nw.ParentHash() {
		return nil, false
	}
	on, nn := old.NumberU64(), nw.NumberU64()
	if (on > nn && on-nn > 64) || (nn > on && nn-on > 64) {
		return nil, false
	}
	rem, add := e.chain.GetBlock(old.Hash(), on), e.chain.GetBlock(nw.Hash(), nn)
	if rem == nil || add == nil {
		return nil, false
	}
	var discarded, included types.Transactions
	up := func(b *types.Block) *types.Block {
		if b.NumberU64() == 0 {
			return nil
		}
		return e.chain.GetBlock(b.ParentHash(), b.NumberU64()-1)
	}
	for rem.NumberU64() > add.NumberU64() {
		discarded = append(discarded, rem.Transactions()...)
		if rem = up(rem); rem == nil {
			return nil, false
		}
	}
	for add.NumberU64() > rem.NumberU64() {
		included = append(included, add.Transactions()...)
		if add = up(add); add == nil {
			return nil, false
		}
	}
	for rem.Hash() != add.Hash() {
		discarded = append(discarded, rem.Transactions()...)
		if rem = up(rem); rem == nil {
			return nil, false
		}
		included = append(included, add.Transactions()...)
		if add = up(add); add == nil {
			return nil, false
		}
	}
	inc := map[common.Hash]bool{}
	for _, tx := range included {
		inc[tx.Hash()] = true
	}
	var out []int
	for _, tx := range discarded {
		if !inc[tx.Hash()] {
			out = append(out, e.idOf[tx.Hash()])
		}
	}
	return out, true
}

// resetTakesEffect: does a reset old->new move the pool onto the state of new?
// Re-derived from the chain the stub serves: the state must be available, and the
// walk between the two heads - when the pool has to make it - must not run into
// a block the chain does not know.
func (e *env) resetTakesEffect(old, nw int) bool {
	if !e.c.Blocks[nw].StateOK {
		return false
	}
	if old < 0 || e.blocks[old].Hash() == e.blocks[nw].ParentHash() {
		return true
	}
	on, nn := e.blocks[old].NumberU64(), e.blocks[nw].NumberU64()
	if (on > nn && on-nn > 64) || (nn > on && nn-on > 64) {
		return true
	}
	_, ok := e.expectReinject(&Op{K: "reorg", Reset: true, Old: old, New: nw})
	return ok
}

// ---- property oracle --------------------------------------------------------

type oracle struct {
	e          *env
	prev       *core.VerifSnapshot
	gapKnown   map[int]bool // accounts whose pending list carries the known gap
	reinjected int          // re-injection clause: transactions that had to be (and were) pooled again
	dupTaint   bool         // a transaction has been seen twice in the price heap and the counter has not re-synchronised yet
	okLocal    map[int]bool // accounts entitled to local treatment: configured, or a local submission of theirs was accepted
	lowNonce   int          // observations "pool nonce below the account nonce" (no pending tx): not part of the property
}

// exempt: the account is treated as local by the pool AND is entitled to it.
// Every limit / price-floor / eviction clause applies to all other accounts.
func (o *oracle) exempt(i int, s *core.VerifSnapshot) bool {
	return s.Accounts[i].Local && o.okLocal[i]
}

func (o *oracle) nonLocalOver(s *core.VerifSnapshot, pending bool, lim uint64) bool {
	for i, a := range s.Accounts {
		l := a.Queue
		if pending {
			l = a.Pending
		}
		if !o.exempt(i, s) && l != nil && uint64(len(l.Hashes)) > lim {
			return true
		}
	}
	return false
}

// check states the property over the pool's own views after one op.
// Returns (what, detail) of the first violation.
func (o *oracle) check(op *Op, ob *Obs, s *core.VerifSnapshot, api []string) (string, string) {
	e := o.e
	defer func() { o.prev = s }()
	if op.K == "burst" {
		op = op.merged()
	}
	// 00. after every requested reset is done, the pool works on the LAST head delivered (a burst of
	// head changes that the scheduler coalesced counts as delivered in full): account nonces, balances
	// and the gas limit the pool validates against are those of that head.  All clauses below are
	// stated against the pool's state, so with this one they are stated against the chain's head.
	if op.K == "reorg" && op.Reset && e.resetTakesEffect(op.Old, op.New) {
		hb := e.c.Blocks[op.New]
		if s.MaxGas != hb.GasLimit {
			return "pool-on-stale-head", fmt.Sprintf("after the reset to block %d the pool validates against gas limit %d, the head has %d", op.New, s.MaxGas, hb.GasLimit)
		}
		for i, a := range s.Accounts {
			if a.StateNonce != hb.State[i].Nonce || a.Balance.Cmp(new(big.Int).SetUint64(hb.State[i].Balance)) != 0 {
				return "pool-on-stale-head", fmt.Sprintf("after the reset to block %d (the last head delivered) the pool sees account %d at nonce %d balance %v, the head has nonce %d balance %d",
					op.New, i, a.StateNonce, a.Balance, hb.State[i].Nonce, hb.State[i].Balance)
			}
		}
	}
	if len(api) > 0 {
		return "pending-api-differs-from-pending-view", api[0]
	}
	// 0. an account is local only if configured so or if a submission of it flagged local was accepted
	if o.okLocal == nil {
		o.okLocal = map[int]bool{}
		for _, i := range e.c.Cfg.Locals {
			o.okLocal[i] = true
		}
	}
	if (op.K == "add" || op.K == "addlocked") && op.Local && !e.c.Cfg.NoLocals && ob.OutKind == 1 {
		for j, id := range op.Txs {
			if ob.Errs[j] == 0 && e.c.Txs[id].Sig {
				o.okLocal[e.c.Txs[id].From] = true
			}
		}
	}
	for i, a := range s.Accounts {
		if a.Local && !o.okLocal[i] {
			return "local-without-accepted-local-submission", fmt.Sprintf("account %d is treated as local although it is not configured local and none of its local submissions was accepted", i)
		}
	}
	for _, addr := range e.pool.Locals() {
		if i := e.acctIdx(addr); i < 0 || !o.okLocal[i] {
			return "local-without-accepted-local-submission", fmt.Sprintf("Locals() reports account %d which never had a local submission accepted", i)
		}
	}
	// 0b. price floor and lifetime eviction for everybody who is not entitled to the exemption
	for i, a := range s.Accounts {
		if o.exempt(i, s) {
			continue
		}
		for _, l := range []*core.VerifListView{a.Pending, a.Queue} {
			if l == nil {
				continue
			}
			for _, h := range l.Hashes {
				if t := e.c.Txs[e.idOf[h]]; new(big.Int).SetUint64(t.Price).Cmp(s.GasPrice) < 0 {
					return "price-floor-violated", fmt.Sprintf("account %d (remote) keeps tx %d at price %d below the pool's gas price %v", i, t.ID, t.Price, s.GasPrice)
				}
			}
		}
	}
	if op.K == "evict" {
		for _, i := range op.Expired {
			if !o.exempt(i, s) && s.Accounts[i].Queue != nil {
				return "expired-queue-kept", fmt.Sprintf("account %d (remote) passed its lifetime but still queues %v", i, s.Accounts[i].Queue.Nonces)
			}
		}
	}
	// 1. all = pending (+) queue, disjoint
	inAll := map[common.Hash]bool{}
	for _, h := range s.All {
		inAll[h] = true
	}
	where := map[common.Hash]string{}
	pTotal, qTotal := 0, 0
	for i, a := range s.Accounts {
		for k, l := range []*core.VerifListView{a.Pending, a.Queue} {
			name := []string{"pending", "queue"}[k]
			if l == nil {
				continue
			}
			if len(l.Hashes) == 0 {
				return "empty-list-kept", fmt.Sprintf("account %d has an empty %s list in the map", i, name)
			}
			if l.IndexLen != len(l.Hashes) {
				return "nonce-index-out-of-step", fmt.Sprintf("account %d %s: heap has %d nonces, map has %d", i, name, l.IndexLen, len(l.Hashes))
			}
			// the nonce index is a min-heap (container/heap array layout) over exactly the keys of the item map:
			// Forward and Ready only ever look at its root
			inItems := map[uint64]bool{}
			for _, n := range l.Nonces {
				inItems[n] = true
			}
			seenIdx := map[uint64]bool{}
			for j, n := range l.Index {
				if !inItems[n] || seenIdx[n] {
					return "nonce-heap-corrupt", fmt.Sprintf("account %d %s: index %v is not the key set of the items %v", i, name, l.Index, l.Nonces)
				}
				seenIdx[n] = true
				if j > 0 && l.Index[(j-1)/2] > n {
					return "nonce-heap-corrupt", fmt.Sprintf("account %d %s: index %v violates the heap order at position %d (items %v)", i, name, l.Index, j, l.Nonces)
				}
			}
			if l.HasCache {
				if len(l.Cache) != len(l.Hashes) {
					return "flatten-cache-stale", fmt.Sprintf("account %d %s cache %d items vs %d", i, name, len(l.Cache), len(l.Hashes))
				}
				for j := range l.Cache {
					if l.Cache[j] != l.Hashes[j] {
						return "flatten-cache-stale", fmt.Sprintf("account %d %s cache differs at %d", i, name, j)
					}
				}
			}
			for j, h := range l.Hashes {
				if w, dup := where[h]; dup {
					return "tx-in-two-views", fmt.Sprintf("tx %d is in %s and in %s of account %d", e.idOf[h], w, name, i)
				}
				where[h] = fmt.Sprintf("%s of account %d", name, i)
				if !inAll[h] {
					return "listed-tx-missing-from-lookup", fmt.Sprintf("tx %d (%s of account %d) is not in the lookup", e.idOf[h], name, i)
				}
				id := e.idOf[h]
				t := e.c.Txs[id]
				if t.From != i || t.Nonce != l.Nonces[j] {
					return "tx-filed-under-wrong-key", fmt.Sprintf("tx %d (from %d nonce %d) filed under account %d nonce %d", id, t.From, t.Nonce, i, l.Nonces[j])
				}
				cost := new(big.Int).Mul(new(big.Int).SetUint64(t.Price), new(big.Int).SetUint64(t.Gas))
				cost.Add(cost, new(big.Int).SetUint64(t.Value))
				if cost.Cmp(a.Balance) > 0 {
					return "unaffordable-tx-kept", fmt.Sprintf("tx %d costs %v, balance of account %d is %v (%s)", id, cost, i, a.Balance, name)
				}
				if t.Gas > s.MaxGas {
					return "over-gas-limit-tx-kept", fmt.Sprintf("tx %d gas %d > block gas limit %d", id, t.Gas, s.MaxGas)
				}
			}
			if k == 0 {
				pTotal += len(l.Hashes)
			} else {
				qTotal += len(l.Hashes)
			}
		}
		// pending: gap-free from the account nonce
		if a.Pending != nil {
			gap := false
			for j, n := range a.Pending.Nonces {
				if n != a.StateNonce+uint64(j) {
					gap = true
				}
			}
			if gap && !o.gapKnown[i] {
				// classify: the listed finding is a reset that lowered the account nonce below the
				// lowest pending nonce and refilled the front only partially
				if op.K == "reorg" && op.Reset && a.Pending.Nonces[0] == a.StateNonce && o.prev != nil &&
					o.prev.Accounts[i].Pending != nil && a.StateNonce < o.prev.Accounts[i].Pending.Nonces[0] {
					o.gapKnown[i] = true
					return KnownGap, fmt.Sprintf("account %d: account nonce %d, pending nonces %v", i, a.StateNonce, a.Pending.Nonces)
				}
				return "pending-nonce-gap", fmt.Sprintf("account %d: account nonce %d, pending nonces %v", i, a.StateNonce, a.Pending.Nonces)
			}
			if !gap {
				delete(o.gapKnown, i)
			}
		} else {
			delete(o.gapKnown, i)
		}
		if o.gapKnown[i] {
			continue // the remaining per-account clauses are consequences of the same gap
		}
		if a.Pending != nil && a.Queue != nil {
			if a.Queue.Nonces[0] <= a.Pending.Nonces[len(a.Pending.Nonces)-1] {
				return "queued-not-above-pending", fmt.Sprintf("account %d: queued nonce %d, pending up to %d", i, a.Queue.Nonces[0], a.Pending.Nonces[len(a.Pending.Nonces)-1])
			}
		}
		if a.Queue != nil && a.Queue.Nonces[0] < a.StateNonce {
			return "queued-below-account-nonce", fmt.Sprintf("account %d: queued nonce %d, account nonce %d", i, a.Queue.Nonces[0], a.StateNonce)
		}
		// the pool's next nonce never runs ahead of the pending list
		if a.Pending != nil {
			want := a.Pending.Nonces[len(a.Pending.Nonces)-1] + 1
			if a.PoolNonce != want {
				return "pool-nonce-out-of-step", fmt.Sprintf("account %d: pool nonce %d, last pending nonce + 1 = %d", i, a.PoolNonce, want)
			}
		} else if a.PoolNonce > a.StateNonce {
			return "pool-nonce-out-of-step", fmt.Sprintf("account %d has no pending tx: pool nonce %d, account nonce %d", i, a.PoolNonce, a.StateNonce)
		} else if a.PoolNonce < a.StateNonce {
			o.lowNonce++
		}
	}
	// a queued transaction sitting exactly at the account nonce of an account without pending transactions
	// is promoted by the reorg run that looks at the account (every account after a reset, the submitters
	// after a submission) - unless the pool's own next nonce was pulled below the account nonce
	if op.K == "reorg" || op.K == "add" {
		look := map[int]bool{}
		switch {
		case op.K == "add":
			// only a submission that did not replace anything marks its account dirty
			for j, id := range op.Txs {
				t := e.c.Txs[id]
				if ob.OutKind != 1 || ob.Errs[j] != 0 || !t.Sig || o.prev == nil {
					continue
				}
				fresh := true
				for _, l := range []*core.VerifListView{o.prev.Accounts[t.From].Pending, o.prev.Accounts[t.From].Queue} {
					if l != nil {
						for _, n := range l.Nonces {
							fresh = fresh && n != t.Nonce
						}
					}
				}
				for j2, id2 := range op.Txs {
					if j2 != j && e.c.Txs[id2].From == t.From && e.c.Txs[id2].Nonce == t.Nonce {
						fresh = false
					}
				}
				if fresh {
					look[t.From] = true
				}
			}
		case op.Reset:
			for i := range s.Accounts {
				look[i] = true
			}
		case op.HaveDirty:
			for _, i := range op.Dirty {
				look[i] = true
			}
		}
		for i, a := range s.Accounts {
			if o.gapKnown[i] || !look[i] {
				continue
			}
			if a.Pending == nil && a.Queue != nil && a.Queue.Nonces[0] == a.StateNonce && a.PoolNonce >= a.StateNonce {
				return "executable-tx-left-queued", fmt.Sprintf("account %d: nonce %d is queued, the account nonce is %d and nothing is pending", i, a.Queue.Nonces[0], a.StateNonce)
			}
		}
	}
	if len(s.All) != pTotal+qTotal {
		return "lookup-count-differs", fmt.Sprintf("lookup holds %d, pending %d + queued %d", len(s.All), pTotal, qTotal)
	}
	if s.PendingKeys+s.QueueKeys != countLists(s) {
		return "account-outside-universe", "a list exists for an address the harness does not know"
	}
	// 2. price index covers the lookup
	if s.PricedLive < len(s.All) && !s.PricedDup {
		return "priced-misses-tx", fmt.Sprintf("price heap has %d live entries, lookup %d", s.PricedLive, len(s.All))
	}
	// A transaction that left the pool and came back before the heap was rebuilt sits in the heap twice
	// (upstream behaviour); both copies count as live, and once they are popped together the stale counter
	// is one too high until the next rebuild.  The count clause is suspended from the first sighting of such
	// a pair until heap and counter agree again.
	if s.PricedDup {
		o.dupTaint = true
	} else if s.PricedLen-s.Stales == len(s.All) {
		o.dupTaint = false
	}
	if !o.dupTaint && s.PricedLen-s.Stales != len(s.All) {
		return "priced-stale-count-off", fmt.Sprintf("heap %d - stales %d != lookup %d", s.PricedLen, s.Stales, len(s.All))
	}
	// 3. read-only API agrees
	p, q := e.pool.Stats()
	if p != pTotal || q != qTotal {
		return "stats-differ", fmt.Sprintf("Stats() = %d/%d, views hold %d/%d", p, q, pTotal, qTotal)
	}
	var hs []common.Hash
	for _, x := range e.txs {
		hs = append(hs, x.Hash())
	}
	for j, st := range e.pool.Status(hs) {
		w := where[hs[j]]
		switch {
		case st == core.TxStatusPending && !strings.HasPrefix(w, "pending"),
			st == core.TxStatusQueued && !strings.HasPrefix(w, "queue"),
			st == core.TxStatusUnknown && w != "":
			return "status-differs", fmt.Sprintf("Status(tx %d) = %d but the tx is in %q", j, st, w)
		}
	}
	// 3b. re-injection: a transaction of an abandoned block that is valid on the new head is pooled
	// after the reset, unless the pool had a stated reason to refuse it.  Checked where no limit can
	// interfere (default-sized pool) and where no other transaction competes for the same nonce.
	if ids, ok := e.expectReinject(op); ok && e.c.Cfg.GlobalSlots >= 4096 && o.prev != nil {
		seen := map[[2]uint64]int{}
		for _, id := range ids {
			t := e.c.Txs[id]
			seen[[2]uint64{uint64(t.From), t.Nonce}]++
		}
		for _, id := range op.Txs { // submissions made during a burst compete as well
			t := e.c.Txs[id]
			seen[[2]uint64{uint64(t.From), t.Nonce}] += 2
		}
		for _, id := range ids {
			t := e.c.Txs[id]
			if !t.Sig || t.Big || t.From >= len(s.Accounts) || seen[[2]uint64{uint64(t.From), t.Nonce}] > 1 {
				continue
			}
			a := s.Accounts[t.From]
			cost := new(big.Int).Mul(new(big.Int).SetUint64(t.Price), new(big.Int).SetUint64(t.Gas))
			cost.Add(cost, new(big.Int).SetUint64(t.Value))
			admissible := t.Gas <= s.MaxGas && (a.Local || new(big.Int).SetUint64(t.Price).Cmp(s.GasPrice) >= 0) &&
				t.Nonce >= a.StateNonce && cost.Cmp(a.Balance) <= 0 && t.Gas >= t.Intr
			competitor := false
			for _, l := range []*core.VerifListView{o.prev.Accounts[t.From].Pending, o.prev.Accounts[t.From].Queue} {
				if l != nil {
					for j, n := range l.Nonces {
						if n == t.Nonce && e.idOf[l.Hashes[j]] != id {
							competitor = true
						}
					}
				}
			}
			if admissible && !competitor && !inAll[e.txs[id].Hash()] {
				return "reinjection-missed", fmt.Sprintf("tx %d (account %d nonce %d) of the abandoned branch is valid on the new head but is not pooled after the reset", id, t.From, t.Nonce)
			}
			if admissible && !competitor {
				o.reinjected++
			}
		}
	}
	// 4. limits after a reorg run
	if op.K == "add" || op.K == "reorg" {
		c := e.c.Cfg
		if uint64(pTotal) > c.GlobalSlots && o.nonLocalOver(s, true, c.AccountSlots) {
			return "pending-limit-exceeded", fmt.Sprintf("%d pending > GlobalSlots %d while a remote account holds more than AccountSlots %d", pTotal, c.GlobalSlots, c.AccountSlots)
		}
		if uint64(qTotal) > c.GlobalQueue && o.nonLocalOver(s, false, 0) {
			return "queue-limit-exceeded", fmt.Sprintf("%d queued > GlobalQueue %d while remote accounts still queue", qTotal, c.GlobalQueue)
		}
	}
	if op.K == "add" && ob.OutKind == 1 {
		for j, id := range op.Txs {
			t := e.c.Txs[id]
			if ob.Errs[j] == 0 && t.Sig {
				a := s.Accounts[t.From]
				if !o.exempt(t.From, s) && a.Queue != nil && uint64(len(a.Queue.Hashes)) > e.c.Cfg.AccountQueue && o.prev != nil &&
					(o.prev.Accounts[t.From].Queue == nil || len(o.prev.Accounts[t.From].Queue.Hashes) <= len(a.Queue.Hashes)) &&
					o.prev.Accounts[t.From].Queue != nil && uint64(len(o.prev.Accounts[t.From].Queue.Hashes)) <= e.c.Cfg.AccountQueue {
					return "account-queue-limit-exceeded", fmt.Sprintf("account %d queues %d > AccountQueue %d after a submission", t.From, len(a.Queue.Hashes), e.c.Cfg.AccountQueue)
				}
			}
		}
	}
	return "", ""
}

func countLists(s *core.VerifSnapshot) int {
	n := 0
	for _, a := range s.Accounts {
		if a.Pending != nil {
			n++
		}
		if a.Queue != nil {
			n++
		}
	}
	return n
}

// ---- Coq printers -----------------------------------------------------------

func nl(xs []int) string {
	ss := make([]string, len(xs))
	for i, x := range xs {
		ss[i] = fmt.Sprint(x)
	}
	return "[" + strings.Join(ss, ";") + "]"
}
func tl(xs []int) string {
	ss := make([]string, len(xs))
	for i, x := range xs {
		ss[i] = fmt.Sprintf("t %d", x)
	}
	return "[" + strings.Join(ss, ";") + "]"
}
func cfgCoq(c Cfg) string {
	return fmt.Sprintf("(mkCfg %d %d %d %d %d %d %s %s %s)", c.PriceLimit, c.PriceBump, c.AccountSlots, c.GlobalSlots, c.AccountQueue, c.GlobalQueue, vf.Bool(c.NoLocals), nl(c.Locals), vf.Bool(gapFixed))
}

// gapFixed: does the working tree already demote everything above the first
// missing pending nonce (fixes/C20_pending_gap_after_partial_reinject.diff)?
// Decided by running the witness of the finding once per process.
var gapFixed bool

const gapWitness = `{"cfg":{"PriceLimit":1,"PriceBump":10,"AccountSlots":64,"GlobalSlots":4096,"AccountQueue":256,"GlobalQueue":1024,"NoLocals":false,"Locals":[]},
"naccts":1,"genesis":0,
"txs":[{"ID":0,"From":0,"Sig":true,"Nonce":3,"Price":8,"Gas":21000,"Value":100},{"ID":1,"From":0,"Sig":true,"Nonce":4,"Price":8,"Gas":21000,"Value":5000000},
{"ID":2,"From":0,"Sig":true,"Nonce":5,"Price":8,"Gas":21000,"Value":100},{"ID":3,"From":0,"Sig":true,"Nonce":6,"Price":8,"Gas":21000,"Value":100}],
"blocks":[{"ID":0,"Parent":-1,"Num":0,"GasLimit":100000,"StateOK":true,"State":[{"Nonce":3,"Balance":10000000}]},
{"ID":1,"Parent":0,"Num":1,"GasLimit":100000,"StateOK":true,"State":[{"Nonce":5,"Balance":4000000}],"Txs":[0,1]},
{"ID":2,"Parent":0,"Num":1,"GasLimit":100000,"StateOK":true,"State":[{"Nonce":3,"Balance":1000000}]}],
"ops":[{"k":"block","block":1,"old":-1},{"k":"reorg","reset":true,"old":0,"new":1,"via_loop":true},{"k":"add","txs":[2,3],"old":-1},
{"k":"block","block":2,"old":-1},{"k":"reorg","reset":true,"old":1,"new":2,"via_loop":true}]}`

func detectGapFix() {
	c := &Case{}
	if err := json.Unmarshal([]byte(gapWitness), c); err != nil {
		panic(err)
	}
	rr := runCase(c)
	last := rr.obs[len(rr.obs)-1]
	gapFixed = len(last.Accts[0].Pending) == 1 && len(last.Accts[0].Queue) == 2
}
func txCoq(t Tx) string {
	return fmt.Sprintf("mkTx %d %d %s %d %d %d %d %s %d", t.ID, t.From, vf.Bool(t.Sig), t.Nonce, t.Price, t.Gas, t.Value, vf.Bool(t.Big), t.Intr)
}
func parentID(b *Block) int {
	if b.Parent < 0 {
		return 999999
	}
	return b.Parent
}
func hdrCoq(b *Block) string {
	st := "None"
	if b.StateOK {
		var xs []string
		for i, a := range b.State {
			xs = append(xs, fmt.Sprintf("(%d,(%d,%d))", i, a.Nonce, a.Balance))
		}
		st = "(Some " + vf.List(xs) + ")"
	}
	return fmt.Sprintf("(mkHdr %d %d %d %d %s)", b.ID, parentID(b), b.Num, b.GasLimit, st)
}
func blockCoq(b *Block) string { return fmt.Sprintf("(mkBlock %s %s)", hdrCoq(b), tl(b.Txs)) }

func opCoq(c *Case, op *Op, ord []int) string {
	switch op.K {
	case "block":
		return "OBlock " + blockCoq(&c.Blocks[op.Block])
	case "add":
		return fmt.Sprintf("OAdd %s %s %s", tl(op.Txs), vf.Bool(op.Local), nl(ord))
	case "addlocked":
		return fmt.Sprintf("OAddLocked %s %s", tl(op.Txs), vf.Bool(op.Local))
	case "reorg":
		rs := "None"
		if op.Reset {
			old := "None"
			if op.Old >= 0 {
				old = "(Some " + hdrCoq(&c.Blocks[op.Old]) + ")"
			}
			rs = fmt.Sprintf("(Some (%s, %s))", old, hdrCoq(&c.Blocks[op.New]))
		}
		d := "None"
		if op.HaveDirty {
			d = "(Some " + nl(op.Dirty) + ")"
		}
		return fmt.Sprintf("OReorg %s %s %s", rs, d, nl(ord))
	case "burst":
		// the submissions happen under the lock the harness holds; then the run that was in flight
		// (nothing to promote) gets the lock; then the run for everything the scheduler merged
		var steps, reqs []string
		reqs = append(reqs, "RPromote []")
		for _, r := range op.Reqs {
			switch {
			case r.Reset:
				old := "None"
				if r.Old >= 0 {
					old = "(Some " + hdrCoq(&c.Blocks[r.Old]) + ")"
				}
				reqs = append(reqs, fmt.Sprintf("RReset %s %s", old, hdrCoq(&c.Blocks[r.New])))
			case r.Add:
				steps = append(steps, fmt.Sprintf("OAddLocked %s false", tl(r.Txs)))
				reqs = append(reqs, "RPromote "+nl(r.Dirty))
			default:
				reqs = append(reqs, "RPromote "+nl(r.Dirty))
			}
		}
		rl := vf.List(reqs)
		steps = append(steps, fmt.Sprintf("OReorg None (Some []) %s", nl(ord)))
		steps = append(steps, fmt.Sprintf("OReorg (s_reset (merge_all %s)) (s_dirty (merge_all %s)) %s", rl, rl, nl(ord)))
		return strings.Join(steps, "; ")
	case "price":
		return fmt.Sprintf("OSetPrice %d", op.Price)
	case "evict":
		return "OEvict " + nl(op.Expired)
	case "remove":
		return fmt.Sprintf("ORemove %d", op.Tx)
	case "pending":
		return "OPending"
	}
	panic("op")
}
func obsCoq(ob *Obs) string {
	out := "OutNone"
	switch ob.OutKind {
	case 1:
		out = "(OutErrs " + nl(ob.Errs) + ")"
	case 2:
		var xs []string
		for _, row := range ob.PendView {
			xs = append(xs, fmt.Sprintf("(%d,%s)", row[0], nl(row[1:])))
		}
		out = "(OutPending " + vf.List(xs) + ")"
	}
	var as []string
	for _, a := range ob.Accts {
		as = append(as, fmt.Sprintf("mkAO %s %s %d %s", nl(a.Pending), nl(a.Queue), a.Nonce, vf.Bool(a.Local)))
	}
	return fmt.Sprintf("mkObs %s %s %s %s %d", out, vf.List(as), nl(ob.All), nl(ob.Beats), ob.GasPrice)
}

func caseCoq(c *Case, obs []*Obs) string {
	var sb strings.Builder
	var ts []string
	for _, t := range c.Txs {
		ts = append(ts, txCoq(t))
	}
	sb.WriteString("(let T := " + vf.List(ts) + " in\n let t := fun i => nth (N.to_nat i) T (mkTx 0 0 false 0 0 0 0 false 0) in\n")
	sb.WriteString(fmt.Sprintf(" mkCase %s %d%%nat %s [\n", cfgCoq(c.Cfg), c.NAccts, blockCoq(&c.Blocks[c.Genesis])))
	for i := range obs {
		if i > 0 {
			sb.WriteString(";\n")
		}
		sb.WriteString("  ([" + opCoq(c, &c.Ops[i], obs[i].Ord) + "], " + obsCoq(obs[i]) + ")")
	}
	sb.WriteString("])")
	return sb.String()
}

// ---- generator --------------------------------------------------------------

type gen struct {
	r     *vf.Rng
	c     *Case
	e     *env
	txKey map[string]int
	head  int // current head block
	last  *core.VerifSnapshot
	forky bool // newBlock: prefer siblings of the head and branches from its ancestors
}

func (g *gen) mkTx(from int, sig bool, nonce, price, gas, value uint64, data int) int {
	k := fmt.Sprint(from, sig, nonce, price, gas, value, data)
	if id, ok := g.txKey[k]; ok {
		return id
	}
	id := len(g.c.Txs)
	g.c.Txs = append(g.c.Txs, Tx{ID: id, From: from, Sig: sig, Nonce: nonce, Price: price, Gas: gas, Value: value, Data: data})
	g.txKey[k] = id
	g.e.ensureTxs()
	return id
}

func (g *gen) price(acct int, k uint64) uint64 { return 8*k + uint64(acct) }

var balances = []uint64{0, 2000000, 5000000, 20000000, 20000000, 1000000000, 1000000000, 1000000000}

func (g *gen) randTx() int {
	r := g.r
	if len(g.c.Txs) > 0 && r.Chance(8) {
		return r.Intn(len(g.c.Txs)) // resubmission of something seen before
	}
	a := r.Intn(g.c.NAccts)
	va := g.last.Accounts[a]
	next := va.PoolNonce
	var nonce uint64
	var k uint64 = uint64(1 + r.Intn(12))
	switch x := r.Intn(100); {
	case x < 54:
		nonce = next
	case x < 66:
		nonce = next + uint64(1+r.Intn(3))
	case x < 82: // replacement of something pooled
		var have []uint64
		var prices []uint64
		for _, l := range []*core.VerifListView{va.Pending, va.Queue} {
			if l != nil {
				for j, n := range l.Nonces {
					have = append(have, n)
					prices = append(prices, g.c.Txs[g.e.idOf[l.Hashes[j]]].Price)
				}
			}
		}
		if len(have) == 0 {
			nonce = next
		} else {
			j := r.Intn(len(have))
			nonce = have[j]
			old := prices[j] / 8
			switch r.Intn(4) {
			case 0:
				k = old // same price
			case 1:
				k = old + 1 // tiny bump (below the percentage for most)
			case 2:
				k = old + old*g.c.Cfg.PriceBump/100 + uint64(r.Intn(2)) // around the threshold
			default:
				k = old*2 + 1
			}
			if k == 0 {
				k = 1
			}
		}
	case x < 88:
		if va.StateNonce > 0 {
			nonce = uint64(r.Intn(int(va.StateNonce)))
		}
	default:
		nonce = uint64(r.Intn(10))
	}
	if r.Chance(6) {
		k = 0 // below any price limit
	}
	gas := r.Pick([]uint64{21000, 21000, 21000, 21000, 21000, 21000, 30000, 30000, 50000, 100000, 20000, 200000, 40000})
	value := r.Pick([]uint64{0, 0, 100, 100, 100, 1, 1000000, 4000000, 30000000})
	data, sig := 0, true
	switch x := r.Intn(100); {
	case x < 2:
		data, gas = 33000, 1000000
	case x < 4:
		sig = false
	case x < 8:
		data = 10
	}
	return g.mkTx(a, sig, nonce, g.price(a, k), gas, value, data)
}

func (g *gen) newBlock() (int, bool) {
	r := g.r
	c := g.c
	parent := g.head
	kind := r.Intn(100)
	if g.forky && kind < 90 {
		kind = 30 + kind*2/3 // 1/3 extend, 2/3 sibling or lower branch
	}
	switch {
	case kind < 62: // extend the head
	case kind < 90: // fork from an ancestor (1-3 back) or a sibling
		for back := 1 + r.Intn(3); back > 0 && c.Blocks[parent].Parent >= 0; back-- {
			parent = c.Blocks[parent].Parent
		}
	default:
		parent = r.Intn(len(c.Blocks))
	}
	pb := c.Blocks[parent]
	b := Block{ID: len(c.Blocks), Parent: parent, Num: pb.Num + 1, GasLimit: pb.GasLimit, StateOK: !r.Chance(3)}
	if r.Chance(12) {
		b.GasLimit = r.Pick([]uint64{40000, 100000, 1000000, 25000})
	}
	if r.Chance(4) {
		b.Num = pb.Num + 70 + uint64(r.Intn(10)) // far away: the pool must skip the reorg walk
	}
	st := append([]Acct{}, pb.State...)
	if !pb.StateOK {
		st = append([]Acct{}, c.Blocks[c.Genesis].State...)
	}
	// transactions mined in this block
	for a := 0; a < c.NAccts; a++ {
		if !r.Chance(45) {
			continue
		}
		var cand []int
		va := g.last.Accounts[a]
		src := r.Intn(10)
		switch {
		case src < 6 && va.Pending != nil:
			cand = g.e.ids(va.Pending)
		case src < 8: // whatever was mined on the branch being abandoned
			for x := g.head; x >= 0 && x != parent && len(cand) < 8; x = c.Blocks[x].Parent {
				for _, id := range c.Blocks[x].Txs {
					if c.Txs[id].From == a {
						cand = append(cand, id)
					}
				}
			}
			sort.Slice(cand, func(i, j int) bool { return c.Txs[cand[i]].Nonce < c.Txs[cand[j]].Nonce })
		default: // a transaction the pool never saw
			cand = []int{g.mkTx(a, true, st[a].Nonce, g.price(a, uint64(1+r.Intn(12))), 21000, uint64(r.Intn(3)), 0)}
		}
		take := 1 + r.Intn(3)
		for _, id := range cand {
			t := c.Txs[id]
			if take == 0 || t.Nonce != st[a].Nonce {
				if t.Nonce < st[a].Nonce {
					continue
				}
				break
			}
			b.Txs = append(b.Txs, id)
			st[a].Nonce++
			cost := t.Value + t.Price*t.Gas
			if st[a].Balance >= cost {
				st[a].Balance -= cost
			} else {
				st[a].Balance = 0
			}
			take--
		}
	}
	lower := parent != g.head && r.Chance(40) // the other branch spent the money elsewhere
	for a := 0; a < c.NAccts; a++ {
		if lower && r.Chance(50) {
			st[a].Balance = r.Pick([]uint64{600000, 1000000, 2000000})
		}
		if r.Chance(12) {
			st[a].Balance = r.Pick(balances)
		}
		if r.Chance(5) {
			st[a].Nonce = uint64(r.Intn(8))
		}
	}
	b.State = st
	c.Blocks = append(c.Blocks, b)
	g.e.ensureBlocks()
	return b.ID, !r.Chance(4) // registered with the chain?
}

func (g *gen) registered(id int, more []Op) bool {
	if id == g.c.Genesis {
		return true
	}
	for _, op := range append(append([]Op{}, g.c.Ops...), more...) {
		if op.K == "block" && op.Block == id {
			return true
		}
	}
	return false
}

// burstOps: 2-4 events reach the scheduler while a run is in flight and none is
// awaited: head changes to new blocks (children, same-height siblings, branches
// ending lower), roll-backs to an ancestor (SetHead), remote submissions and
// promotion requests in between.  The scheduler has to merge them into one run.
func (g *gen) burstOps() []Op {
	r, c := g.r, g.c
	var ops []Op
	var reqs []Req
	n := 2 + r.Intn(3)
	resets := 0
	for i := 0; i < n; i++ {
		x := r.Intn(100)
		if i == n-1 && resets < 2 && r.Chance(80) {
			x = 0
		}
		switch {
		case x < 68:
			cur := g.head
			nb := -1
			if r.Chance(22) { // roll back to an ancestor the chain still serves
				a := c.Blocks[cur].Parent
				if a >= 0 && r.Chance(40) && c.Blocks[a].Parent >= 0 {
					a = c.Blocks[a].Parent
				}
				if a >= 0 && g.registered(a, ops) {
					nb = a
				}
			}
			if nb < 0 {
				g.forky = true
				nb, _ = g.newBlock()
				g.forky = false
				ops = append(ops, Op{K: "block", Block: nb, Old: -1})
			}
			reqs = append(reqs, Req{Reset: true, Old: cur, New: nb})
			g.head = nb
			resets++
		case x < 86:
			q := Req{Add: true}
			for k := 1 + r.Intn(3); k > 0; k-- {
				q.Txs = append(q.Txs, g.randTx())
			}
			reqs = append(reqs, q)
		default:
			reqs = append(reqs, Req{Dirty: subset(r, c.NAccts, 50)})
		}
	}
	return append(ops, Op{K: "burst", Old: -1, Reqs: reqs})
}

// heapScenario: an account queues 3-5 gapped transactions submitted in shuffled
// nonce order with differing costs; a head then lowers the balance so that
// exactly one of them (lowest, middle or highest nonce) is dropped by
// promoteExecutables; a later head raises the account nonce into the queued
// range; finally the missing nonce may be supplied.  txSortedMap.Forward and
// Ready only look at the root of the nonce heap, so this is where a heap whose
// array order is wrong shows.
func (g *gen) heapScenario() []Op {
	r, c := g.r, g.c
	a := r.Intn(c.NAccts)
	va := g.last.Accounts[a]
	if va.Pending != nil || va.Queue != nil || va.Local {
		return nil
	}
	blk := func(parent int, mod func(st []Acct)) int {
		pb := c.Blocks[parent]
		b := Block{ID: len(c.Blocks), Parent: parent, Num: pb.Num + 1, GasLimit: 100000, StateOK: true}
		st := append([]Acct{}, pb.State...)
		if !pb.StateOK {
			st = append([]Acct{}, c.Blocks[c.Genesis].State...)
		}
		mod(st)
		b.State = st
		c.Blocks = append(c.Blocks, b)
		g.e.ensureBlocks()
		return b.ID
	}
	var ops []Op
	head := g.head
	step := func(nb int) {
		ops = append(ops, Op{K: "block", Block: nb, Old: -1}, Op{K: "reorg", Reset: true, Old: head, New: nb, ViaLoop: r.Bool()})
		head = nb
	}
	var s uint64
	step(blk(head, func(st []Acct) { st[a].Balance = 1000000000; s = st[a].Nonce }))
	k := 3 + r.Intn(3)
	offs := []uint64{}
	for len(offs) < k {
		o := uint64(1 + r.Intn(8))
		dup := false
		for _, x := range offs {
			dup = dup || x == o
		}
		if !dup {
			offs = append(offs, o)
		}
	}
	sorted := append([]uint64{}, offs...)
	sort.Slice(sorted, func(i, j int) bool { return sorted[i] < sorted[j] })
	victim := sorted[[]int{0, k / 2, k - 1}[r.Intn(3)]]
	if r.Chance(60) {
		victim = sorted[0]
	}
	price := g.price(a, 2)
	if g.last.GasPrice.Uint64() > price {
		price = g.price(a, 1+g.last.GasPrice.Uint64()/8)
	}
	for i, o := range offs { // submission order = shuffled nonce order
		value := uint64(100000 * (i + 1))
		if o == victim {
			value = 50000000
		}
		ops = append(ops, Op{K: "add", Old: -1, Txs: []int{g.mkTx(a, true, s+o, price, 21000, value, 0)}})
	}
	step(blk(head, func(st []Acct) { st[a].Balance = 20000000 })) // only the victim becomes unaffordable
	rest := []uint64{}
	for _, o := range sorted {
		if o != victim {
			rest = append(rest, o)
		}
	}
	target := s + rest[r.Intn(len(rest))] + uint64(r.Intn(2)) // onto a queued nonce, or just above it
	step(blk(head, func(st []Acct) { st[a].Nonce = target }))
	if r.Chance(60) {
		ops = append(ops, Op{K: "add", Old: -1, Txs: []int{g.mkTx(a, true, target, price, 21000, 7, 0)}})
	}
	g.head = head
	return ops
}

// localsScenario: a remote account with a pooled transaction receives a LOCAL
// submission that the pool must refuse (replacement without the price bump,
// stale nonce, insufficient funds, over the gas limit, oversized); afterwards
// the account is put under every kind of pressure that local accounts are
// exempt from: more gapped transactions than AccountQueue, a raised gas
// price, an expired lifetime, a burst that overflows the global limits.
func (g *gen) localsScenario() []Op {
	r, c := g.r, g.c
	if c.Cfg.NoLocals {
		return nil
	}
	a := r.Intn(c.NAccts)
	va := g.last.Accounts[a]
	if va.Pending != nil || va.Queue != nil || va.Local {
		return nil
	}
	for _, i := range c.Cfg.Locals {
		if i == a {
			return nil
		}
	}
	pb := c.Blocks[g.head]
	b := Block{ID: len(c.Blocks), Parent: g.head, Num: pb.Num + 1, GasLimit: 100000, StateOK: true}
	st := append([]Acct{}, pb.State...)
	if !pb.StateOK {
		st = append([]Acct{}, c.Blocks[c.Genesis].State...)
	}
	st[a].Balance = 1000000000
	s := st[a].Nonce
	b.State = st
	c.Blocks = append(c.Blocks, b)
	g.e.ensureBlocks()
	ops := []Op{{K: "block", Block: b.ID, Old: -1}, {K: "reorg", Reset: true, Old: g.head, New: b.ID, ViaLoop: r.Bool()}}
	g.head = b.ID
	k := 2 + g.last.GasPrice.Uint64()/8
	price := g.price(a, k)
	ops = append(ops, Op{K: "add", Old: -1, Txs: []int{g.mkTx(a, true, s, price, 21000, 1, 0)}}) // remote, becomes pending
	var bad int
	switch r.Intn(5) {
	case 0, 1: // replacement without the required bump
		bad = g.mkTx(a, true, s, price, 21000, 2, 0)
	case 2: // insufficient funds
		bad = g.mkTx(a, true, s+1, price, 21000, 5000000000, 0)
	case 3: // over the block gas limit
		bad = g.mkTx(a, true, s+1, price, 200000, 1, 0)
	default: // oversized
		bad = g.mkTx(a, true, s+1, price, 1000000, 1, 33000)
	}
	ops = append(ops, Op{K: "add", Old: -1, Local: true, Txs: []int{bad}})
	if s > 0 && r.Chance(30) { // and a stale one
		ops = append(ops, Op{K: "add", Old: -1, Local: true, Txs: []int{g.mkTx(a, true, s-1, price, 21000, 3, 0)}})
	}
	// pressure
	order := []int{0, 1, 2, 3}
	for i := range order {
		j := r.Intn(i + 1)
		order[i], order[j] = order[j], order[i]
	}
	for _, kind := range order[:1+r.Intn(3)] {
		switch kind {
		case 0: // per-account queue overflow (gapped, one by one)
			for i := uint64(0); i < c.Cfg.AccountQueue+2 && i < 12; i++ {
				ops = append(ops, Op{K: "add", Old: -1, Txs: []int{g.mkTx(a, true, s+3+i, price, 21000, 4+i, 0)}})
			}
		case 1: // the floor moves above the account's prices
			ops = append(ops, Op{K: "price", Old: -1, Price: price + 8})
		case 2: // lifetime
			ops = append(ops, Op{K: "add", Old: -1, Txs: []int{g.mkTx(a, true, s+2, price, 21000, 9, 0)}}, Op{K: "evict", Old: -1, Expired: []int{a}})
		case 3: // global overflow: a burst of consecutive nonces
			var txs []int
			for i := uint64(1); i <= c.Cfg.GlobalSlots+2 && i <= 12; i++ {
				txs = append(txs, g.mkTx(a, true, s+i, price, 21000, 20+i, 0))
			}
			ops = append(ops, Op{K: "add", Old: -1, Txs: txs})
		}
	}
	return ops
}

func subset(r *vf.Rng, n int, p int) []int {
	out := []int{}
	for i := 0; i < n; i++ {
		if r.Chance(p) {
			out = append(out, i)
		}
	}
	return out
}

// nextOps chooses the next op(s).
func (g *gen) nextOps() []Op {
	r := g.r
	c := g.c
	switch x := r.Intn(100); {
	case x < 44:
		n := 1
		if r.Chance(30) {
			n = 2 + r.Intn(3)
		}
		op := Op{K: "add", Old: -1, Local: r.Chance(12)}
		if r.Chance(15) {
			op.K = "addlocked"
		}
		for i := 0; i < n; i++ {
			op.Txs = append(op.Txs, g.randTx())
		}
		if r.Chance(18) { // a burst of consecutive nonces from one account
			a := r.Intn(c.NAccts)
			op.Txs = nil
			start := g.last.Accounts[a].PoolNonce + uint64(r.Intn(2))*uint64(r.Intn(3))
			n = 2 + r.Intn(5)
			for i := 0; i < n; i++ {
				op.Txs = append(op.Txs, g.mkTx(a, true, start+uint64(i), g.price(a, uint64(1+r.Intn(12))), 21000, uint64(r.Intn(2)*100), 0))
			}
		}
		if n > 1 && r.Chance(30) { // dependent nonces submitted out of order
			op.Txs[0], op.Txs[n-1] = op.Txs[n-1], op.Txs[0]
		}
		return []Op{op}
	case x < 52:
		return []Op{{K: "reorg", Old: -1, Dirty: subset(r, c.NAccts, 60), HaveDirty: !r.Chance(20)}}
	case x < 58:
		return g.burstOps()
	case x < 76:
		nb, reg := g.newBlock()
		var ops []Op
		if reg {
			ops = append(ops, Op{K: "block", Block: nb, Old: -1})
		}
		ro := Op{K: "reorg", Reset: true, Old: g.head, New: nb, ViaLoop: r.Chance(50)}
		if r.Chance(6) {
			ro.Old = -1
		}
		if r.Chance(5) {
			ro.Old = r.Intn(len(c.Blocks))
		}
		if !ro.ViaLoop || r.Chance(20) {
			ro.Dirty, ro.HaveDirty = subset(r, c.NAccts, 50), r.Chance(50)
		}
		if !reg {
			// an unknown new head would make the pool dereference nil unless the walk is skipped
			ob := ro.Old
			if ob >= 0 && ob != c.Blocks[nb].Parent {
				ro.Old = c.Blocks[nb].Parent
			}
			if c.Blocks[nb].Parent < 0 {
				ro.Old = -1
			}
		}
		g.head = nb
		return append(ops, ro)
	case x < 80:
		return []Op{{K: "price", Old: -1, Price: r.Pick([]uint64{1, 8, 17, 30, 50, 9, 1})}}
	case x < 85:
		return []Op{{K: "evict", Old: -1, Expired: subset(r, c.NAccts, 50)}}
	case x < 91:
		op := Op{K: "remove", Old: -1, Oob: true} // outofbound=false is only legal right after a heap pop
		ids := g.allIDs()
		if len(ids) > 0 && !r.Chance(10) {
			op.Tx = ids[r.Intn(len(ids))]
		} else if len(c.Txs) > 0 {
			op.Tx = r.Intn(len(c.Txs))
		} else {
			return nil
		}
		return []Op{op}
	default:
		return []Op{{K: "pending", Old: -1}}
	}
}

func (g *gen) allIDs() []int {
	var out []int
	for _, h := range g.last.All {
		out = append(out, g.e.idOf[h])
	}
	sort.Ints(out)
	return out
}

func randCfg(r *vf.Rng, n int) Cfg {
	c := Cfg{PriceLimit: r.Pick([]uint64{1, 1, 9, 17}), PriceBump: r.Pick([]uint64{10, 10, 50, 1, 100})}
	if r.Chance(25) {
		c.AccountSlots, c.GlobalSlots, c.AccountQueue, c.GlobalQueue = 64, 4096, 256, 1024
	} else {
		c.AccountSlots = uint64(1 + r.Intn(3))
		c.GlobalSlots = uint64(1 + r.Intn(8))
		c.AccountQueue = uint64(1 + r.Intn(4))
		c.GlobalQueue = uint64(1 + r.Intn(7))
	}
	if r.Chance(18) { // room for the nonce-heap scenario
		c.AccountQueue, c.GlobalQueue = uint64(6+r.Intn(3)), uint64(12+r.Intn(8))
	}
	c.NoLocals = r.Chance(10)
	c.Locals = []int{}
	if r.Chance(20) {
		c.Locals = append(c.Locals, r.Intn(n))
	}
	return c
}

type runResult struct {
	reinj  int
	obs    []*Obs
	what   string
	where  int
	detail string
}

// runCase executes a case on a fresh pool; stops the oracle at its first hit
// (the run continues so that the correspondence covers the whole history).
func runCase(c *Case) (res runResult) {
	e := newEnv(c)
	defer e.close()
	o := &oracle{e: e, gapKnown: map[int]bool{}}
	o.prev = e.pool.VerifSnapshot(e.addrs)
	res.where = -1
	for i := range c.Ops {
		ob, s, api := e.exec(&c.Ops[i])
		res.obs = append(res.obs, ob)
		what, detail := o.check(&c.Ops[i], ob, s, api)
		if what != "" && (res.what == "" || (res.what == KnownGap && what != KnownGap)) {
			res.what, res.where, res.detail = what, i, detail
		}
	}
	res.reinj = o.reinjected
	return
}

func generate(r *vf.Rng) (*Case, runResult) {
	n := 2 + r.Intn(4)
	c := &Case{NAccts: n, Cfg: randCfg(r, n)}
	gb := Block{ID: 0, Parent: -1, Num: uint64(r.Intn(3)), GasLimit: r.Pick([]uint64{100000, 100000, 1000000, 40000}), StateOK: true}
	for i := 0; i < n; i++ {
		gb.State = append(gb.State, Acct{uint64(r.Intn(4)), r.Pick(balances)})
	}
	c.Blocks = []Block{gb}
	e := newEnv(c)
	defer e.close()
	g := &gen{r: r, c: c, e: e, txKey: map[string]int{}}
	o := &oracle{e: e, gapKnown: map[int]bool{}}
	g.last = e.pool.VerifSnapshot(e.addrs)
	o.prev = g.last
	var res runResult
	res.where = -1
	steps := 6 + r.Heavy(140)
	localsAt := -1
	if r.Chance(25) {
		localsAt = r.Intn(steps)
	}
	scenarioAt := -1
	if c.Cfg.AccountQueue >= 6 {
		scenarioAt = r.Intn(steps)
	}
	for len(c.Ops) < steps {
		next := g.nextOps()
		if scenarioAt >= 0 && len(c.Ops) >= scenarioAt {
			scenarioAt = -1
			if sc := g.heapScenario(); sc != nil {
				next = sc
			}
		}
		if localsAt >= 0 && len(c.Ops) >= localsAt {
			localsAt = -1
			if sc := g.localsScenario(); sc != nil {
				next = sc
			}
		}
		for _, op := range next {
			op := op
			c.Ops = append(c.Ops, op)
			ob, s, api := e.exec(&c.Ops[len(c.Ops)-1])
			res.obs = append(res.obs, ob)
			g.last = s
			what, detail := o.check(&c.Ops[len(c.Ops)-1], ob, s, api)
			if what != "" && (res.what == "" || (res.what == KnownGap && what != KnownGap)) {
				res.what, res.where, res.detail = what, len(c.Ops)-1, detail
			}
		}
	}
	res.reinj = o.reinjected
	return c, res
}

func loadCorpus(dir string) []*Case {
	var out []*Case
	files, _ := filepath.Glob(filepath.Join(dir, "*.json"))
	sort.Strings(files)
	for _, f := range files {
		b, err := ioutil.ReadFile(f)
		if err != nil {
			continue
		}
		c := &Case{}
		if json.Unmarshal(b, c) == nil && len(c.Blocks) > 0 {
			c.Comment = "corpus:" + filepath.Base(f)
			out = append(out, c)
		}
	}
	return out
}

func classify(res *vf.Result, c *Case, rr runResult) {
	res.Distribution["reinjection_clause_checked_txs"] += rr.reinj
	for i, op := range c.Ops {
		k := op.K
		if k == "reorg" && op.Reset {
			k = "reset"
			if op.Old >= 0 && c.Blocks[op.New].Parent != op.Old {
				k = "reset_reorg"
			}
		}
		res.Count("op_" + k)
		if k == "burst" {
			var nums []uint64
			adds := false
			for _, q := range op.Reqs {
				if q.Reset {
					nums = append(nums, c.Blocks[q.New].Num)
				}
				adds = adds || q.Add
			}
			if len(nums) >= 2 {
				res.Count("burst_merged_resets")
				switch l, p := nums[len(nums)-1], nums[len(nums)-2]; {
				case l == p:
					res.Count("burst_last_head_same_height")
				case l < p:
					res.Count("burst_last_head_lower")
				default:
					res.Count("burst_last_head_higher")
				}
			}
			if adds {
				res.Count("burst_with_submissions")
			}
		}
		ob := rr.obs[i]
		if ob.OutKind == 1 {
			for j, e := range ob.Errs {
				res.Count("add_" + errNames[e])
				if e == 0 && op.Local && !c.Cfg.NoLocals {
					res.Count("add_local_ok")
				}
				_ = j
			}
		}
		if i > 0 {
			pv, cu := rr.obs[i-1], ob
			pq, cq, pp, cp := 0, 0, 0, 0
			for a := range cu.Accts {
				pq += len(pv.Accts[a].Queue)
				cq += len(cu.Accts[a].Queue)
				pp += len(pv.Accts[a].Pending)
				cp += len(cu.Accts[a].Pending)
				if len(cu.Accts[a].Pending) > len(pv.Accts[a].Pending) && len(cu.Accts[a].Queue) < len(pv.Accts[a].Queue) {
					res.Count("promotion")
				}
				if len(cu.Accts[a].Pending) < len(pv.Accts[a].Pending) && len(cu.Accts[a].Queue) > len(pv.Accts[a].Queue) {
					res.Count("demotion")
				}
			}
			if len(cu.All) < len(pv.All) {
				switch op.K {
				case "add", "addlocked":
					res.Count("drop_on_add(discard/limits)")
				case "reorg", "burst":
					res.Count("drop_on_reorg")
				case "evict":
					res.Count("drop_on_evict")
				case "price":
					res.Count("drop_on_reprice")
				}
			}
		}
	}
}

func doGen(seed uint64, n int, outDir, corpusDir string) {
	r := vf.NewRng(seed)
	res := vf.NewResult("C20", seed)
	var sb strings.Builder
	sb.WriteString("From VF.C20 Require Import Model.\nLocal Open Scope N_scope.\nDefinition cases : list case := [\n")
	distinct := map[string]bool{}
	count := 0
	emit := func(c *Case, rr runResult) {
		if count > 0 {
			sb.WriteString(";\n")
		}
		s := caseCoq(c, rr.obs)
		sb.WriteString(s)
		nonTrivial := false
		for _, ob := range rr.obs {
			if len(ob.All) > 0 {
				nonTrivial = true
			}
		}
		if nonTrivial {
			distinct[s] = true
		}
		classify(res, c, rr)
		res.CaseDescs = append(res.CaseDescs, c)
		if len(res.Samples) < 4 && len(c.Ops) < 12 {
			res.Samples = append(res.Samples, c)
		}
		if rr.what != "" {
			h := *c
			h.Ops = c.Ops[:rr.where+1]
			h.What = rr.what
			h.Comment = rr.detail
			res.OracleHits = append(res.OracleHits, h)
			res.Count("oracle_" + rr.what)
		}
		res.Extra["steps"] = asInt(res.Extra["steps"]) + len(c.Ops)
		count++
	}
	for _, c := range loadCorpus(corpusDir) {
		emit(c, runCase(c))
		res.Count("corpus")
	}
	for count < n {
		c, rr := generate(r)
		emit(c, rr)
	}
	sb.WriteString("].\nDefinition M := Eval vm_compute in mismatches cases.\nPrint M.\n")
	vf.WriteFile(filepath.Join(outDir, "Cases.v"), sb.String())
	res.Cases = count
	res.Distinct = len(distinct)
	res.Extra["gap_repair_present_in_tree"] = gapFixed
	res.Rule = "one case = one operation history (4-95 critical sections) on a fresh pool with 2-5 accounts, random limits (75% tiny: 1-8 slots) and a scripted chain; ops: sync/async-half submissions of 1-4 txs (next nonce, gapped, replacing around the price-bump threshold, stale, unaffordable, over gas limit, oversized, unsigned, resubmitted; local or remote), runReorg with arbitrary dirty sets, new blocks extending or forking the chain (mined pool txs, txs of the abandoned branch, foreign txs; balance/nonce jumps; deep and unknown heads; state unavailable) followed by a reset, bursts of 2-4 events (head changes to children / same-height siblings / lower branches / roll-backs to an ancestor, remote submissions, promotion requests) handed to the real scheduler while a run is in flight so that it must merge them - after which the pool must be on the LAST head delivered -, re-pricing, lifetime eviction, single removals, Pending(); after every op the pool's views (pending/queued ids per account, pool nonce, locals, lookup, heartbeat order, gas price, returned errors) are compared with the model inside Coq; non-trivial = the pool was non-empty at some point; distinct by full history"
	res.Write(filepath.Join(outDir, "result.json"))
}

func asInt(x interface{}) int {
	if v, ok := x.(int); ok {
		return v
	}
	return 0
}

func replay(file string) {
	b, err := ioutil.ReadFile(file)
	if err != nil {
		fmt.Println(err)
		os.Exit(2)
	}
	var pr struct {
		Probe *ProbeParams `json:"probe"`
	}
	if json.Unmarshal(b, &pr) == nil && pr.Probe != nil && pr.Probe.Accounts > 0 {
		replayProbe(*pr.Probe)
		return
	}
	c := &Case{}
	if err := json.Unmarshal(b, c); err != nil || len(c.Blocks) == 0 {
		fmt.Println("not a C20 case:", err)
		os.Exit(2)
	}
	rr := runCase(c)
	for i, ob := range rr.obs {
		j, _ := json.Marshal(ob)
		fmt.Printf("op %d %s -> %s\n", i, c.Ops[i].K, j)
	}
	if rr.what != "" {
		fmt.Printf("ORACLE VIOLATION: %s at op %d: %s\n", rr.what, rr.where, rr.detail)
		os.Exit(1)
	}
	fmt.Println("no violation on this history")
}

func main() {
	mode := ""
	if len(os.Args) > 1 {
		mode = os.Args[1]
		os.Args = append(os.Args[:1], os.Args[2:]...)
	}
	seed := flag.Uint64("seed", 1, "")
	n := flag.Int("n", 200, "")
	out := flag.String("out", ".", "")
	corpus := flag.String("corpus", "/verif/corpus/C20", "")
	file := flag.String("file", "", "")
	resets := flag.Int("resets", 100, "")
	flag.Parse()
	params.InitNetworkId(params.NetworkIdForTestCase)
	logging.Root().SetHandler(logging.DiscardHandler())
	core.VerifSetEvictionInterval(1000 * time.Hour)
	initKeys()
	if mode != "stress" && mode != "locks" && mode != "readers" && mode != "probe" {
		detectGapFix()
	}
	switch mode {
	case "gen":
		doGen(*seed, *n, *out, *corpus)
	case "replay":
		replay(*file)
	case "locks":
		locksCmd(*out)
	case "readers":
		readers(*seed, *n, *out)
	case "probe":
		probeCmd(*seed, *n, *resets)
	case "stress":
		stress(*seed, *n, *out, *file == "with-TransactionsNumber")
	default:
		fmt.Println("usage: c20 gen|replay|locks|stress|readers|probe")
		os.Exit(2)
	}
}
