package main

// Translator "locks" (T5-iii of DESIGN.md): inventory, by go/ast, of every
// method of core.TxPool: which shared fields does its body touch and which
// pool methods does it call while the body itself does NOT hold pool.mu, and
// which under the lock; is it exported / started as a goroutine.  Written as
// a Coq table; coq/C20/Bridge.v checks the lock discipline on it.  Also
// fingerprints the eviction branch of TxPool.loop, whose body
// hooks/core/zz_verif_c20.go has to replicate.

import (
	"bytes"
	"fmt"
	"go/ast"
	"go/parser"
	"go/printer"
	"go/token"
	"os"
	"path/filepath"
	"sort"
	"strings"

	"verif/harness/vf"
)

// fields of TxPool that are written after construction or point to
// structures without their own lock (all/txLookup, txFeed, scope and the
// channels synchronise themselves; config, chain, signer, router, journal
// are set once before the pool is shared)
var sharedFields = map[string]bool{"pending": true, "queue": true, "beats": true, "priced": true,
	"currentState": true, "pendingNonces": true, "currentMaxGas": true, "locals": true, "gasPrice": true}

// request merging of scheduleReorgLoop as the model's sched_merge states it: the
// first reset request is kept, a later one replaces its new head unconditionally;
// promotion requests are united
const schedResetExpected = `if reset == nil { reset = req } else { reset.newHead = req.newHead } launchNextRun = true pool.reorgDoneCh <- nextDone`
const schedPromoteExpected = `if dirtyAccounts == nil { dirtyAccounts = req } else { dirtyAccounts.merge(req) } launchNextRun = true pool.reorgDoneCh <- nextDone`

const evictExpected = `pool.mu.Lock() for addr := range pool.queue { if pool.locals.contains(addr) { continue } if time.Since(pool.beats[addr]) > pool.config.Lifetime { for _, tx := range pool.queue[addr].Flatten() { pool.removeTx(tx.Hash(), true) } } } pool.mu.Unlock()`

type method struct {
	name           string
	fieldsUnlocked map[string]bool
	fieldsLocked   map[string]bool
	callsUnlocked  map[string]bool
	callsLocked    map[string]bool
}

func coqStr(s string) string { return "\"" + s + "\"" }
func coqStrs(m map[string]bool) string {
	var xs []string
	for k := range m {
		xs = append(xs, coqStr(k))
	}
	sort.Strings(xs)
	return "[" + strings.Join(xs, "; ") + "]"
}

type scanner struct {
	fset  *token.FileSet
	recv  string
	fn    string
	m     *method
	evict *string
	sched map[string]string
	// read-locked regions (pool.mu.RLock held, not Lock)
	read      bool
	hasRead   bool
	callsRead map[string]bool
	writeRead bool
}

func (s *scanner) isMu(e ast.Expr, names ...string) bool {
	ce, ok := e.(*ast.CallExpr)
	if !ok {
		return false
	}
	se, ok := ce.Fun.(*ast.SelectorExpr)
	if !ok {
		return false
	}
	inner, ok := se.X.(*ast.SelectorExpr)
	if !ok {
		return false
	}
	id, ok := inner.X.(*ast.Ident)
	if !ok || id.Name != s.recv || inner.Sel.Name != "mu" {
		return false
	}
	for _, n := range names {
		if se.Sel.Name == n {
			return true
		}
	}
	return false
}

func (s *scanner) visit(n ast.Node, held bool) {
	ast.Inspect(n, func(x ast.Node) bool {
		switch y := x.(type) {
		case *ast.BlockStmt:
			s.walk(y.List, held)
			return false
		case *ast.CaseClause:
			for _, e := range y.List {
				s.visit(e, held)
			}
			s.walk(y.Body, held)
			return false
		case *ast.CommClause:
			if s.fn == "loop" && y.Comm != nil {
				var b bytes.Buffer
				printer.Fprint(&b, s.fset, y.Comm)
				if strings.Contains(b.String(), "evict.C") {
					var body bytes.Buffer
					for _, st := range y.Body {
						printer.Fprint(&body, s.fset, st)
						body.WriteString(" ")
					}
					*s.evict = strings.Join(strings.Fields(body.String()), " ")
				}
			}
			if s.fn == "scheduleReorgLoop" && y.Comm != nil && s.sched != nil {
				var b bytes.Buffer
				printer.Fprint(&b, s.fset, y.Comm)
				for _, ch := range []string{"reqResetCh", "reqPromoteCh"} {
					if strings.Contains(b.String(), "pool."+ch) {
						var body bytes.Buffer
						for _, st := range y.Body {
							printer.Fprint(&body, s.fset, st)
							body.WriteString(" ")
						}
						s.sched[ch] = strings.Join(strings.Fields(body.String()), " ")
					}
				}
			}
			if y.Comm != nil {
				s.visit(y.Comm, held)
			}
			s.walk(y.Body, held)
			return false
		case *ast.GoStmt:
			return false // a spawn is not a call made under the caller's lock
		case *ast.CallExpr:
			if s.read {
				switch f := y.Fun.(type) {
				case *ast.SelectorExpr:
					s.callsRead[f.Sel.Name] = true
				case *ast.Ident:
					s.callsRead[f.Name] = true
				}
			}
			if se, ok := y.Fun.(*ast.SelectorExpr); ok {
				if id, ok := se.X.(*ast.Ident); ok && id.Name == s.recv {
					if held {
						s.m.callsLocked[se.Sel.Name] = true
					} else {
						s.m.callsUnlocked[se.Sel.Name] = true
					}
				}
			}
		case *ast.SelectorExpr:
			if id, ok := y.X.(*ast.Ident); ok && id.Name == s.recv && sharedFields[y.Sel.Name] {
				if held {
					s.m.fieldsLocked[y.Sel.Name] = true
				} else {
					s.m.fieldsUnlocked[y.Sel.Name] = true
				}
			}
		}
		return true
	})
}

func (s *scanner) walk(list []ast.Stmt, held bool) {
	read := s.read
	defer func() { s.read = read }()
	for _, st := range list {
		if es, ok := st.(*ast.ExprStmt); ok {
			if s.isMu(es.X, "Lock") {
				held, s.read = true, false
				continue
			}
			if s.isMu(es.X, "RLock") {
				held, s.read, s.hasRead = true, true, true
				continue
			}
			if s.isMu(es.X, "Unlock", "RUnlock") {
				held, s.read = false, false
				continue
			}
		}
		if s.read && directWrite(st, s.recv) {
			s.writeRead = true
		}
		if ds, ok := st.(*ast.DeferStmt); ok && s.isMu(ds.Call, "Unlock", "RUnlock") {
			continue
		}
		s.visit(st, held)
	}
}

// rootIdent strips selectors, indexes, stars, parens, & and single-argument
// conversions and returns the identifier an expression is rooted at.
func rootIdent(e ast.Expr) (string, bool) {
	depth := 0
	for {
		switch x := e.(type) {
		case *ast.Ident:
			return x.Name, depth > 0
		case *ast.SelectorExpr:
			e = x.X
		case *ast.IndexExpr:
			e = x.X
		case *ast.StarExpr:
			e = x.X
		case *ast.ParenExpr:
			e = x.X
			continue
		case *ast.UnaryExpr:
			e = x.X
			continue
		case *ast.CallExpr:
			if len(x.Args) != 1 {
				return "", false
			}
			e = x.Args[0] // conversion such as types.TxByNonce(m.cache)
			continue
		default:
			return "", false
		}
		depth++
	}
}

var mutators = map[string]bool{"heap.Push": true, "heap.Pop": true, "heap.Init": true, "heap.Remove": true, "heap.Fix": true,
	"sort.Sort": true, "sort.Stable": true, "sort.Slice": true}

// directWrite: does the node assign to / delete from / re-order something that
// hangs off the receiver (a field, a map entry, the slice behind it)?
func directWrite(n ast.Node, recv string) bool {
	found := false
	rooted := func(e ast.Expr, needPath bool) bool {
		id, path := rootIdent(e)
		return id == recv && (path || !needPath)
	}
	ast.Inspect(n, func(x ast.Node) bool {
		switch y := x.(type) {
		case *ast.FuncLit:
			return true
		case *ast.AssignStmt:
			for _, l := range y.Lhs {
				if rooted(l, true) {
					found = true
				}
			}
		case *ast.IncDecStmt:
			if rooted(y.X, true) {
				found = true
			}
		case *ast.CallExpr:
			if id, ok := y.Fun.(*ast.Ident); ok && id.Name == "delete" && len(y.Args) > 0 && rooted(y.Args[0], true) {
				found = true
			}
			if se, ok := y.Fun.(*ast.SelectorExpr); ok {
				if pk, ok := se.X.(*ast.Ident); ok && mutators[pk.Name+"."+se.Sel.Name] && len(y.Args) > 0 && rooted(y.Args[0], false) {
					found = true
				}
			}
		}
		return true
	})
	return found
}

// funcInfo: per bare method/function name (merged over the receiver types of
// the three files, i.e. calls are resolved by name - an over-approximation):
// does some definition write its receiver's state without holding the
// receiver's own lock, and which names does it call.
type funcInfo struct {
	writes bool
	calls  map[string]bool
	defs   []string
}

func writeTable(repo string) map[string]*funcInfo {
	out := map[string]*funcInfo{}
	for _, file := range []string{"tx_pool.go", "tx_list.go", "tx_noncer.go"} {
		fset := token.NewFileSet()
		f, err := parser.ParseFile(fset, filepath.Join(repo, "core", file), nil, 0)
		if err != nil {
			fmt.Println("cannot parse", file, ":", err)
			os.Exit(1)
		}
		for _, d := range f.Decls {
			fd, ok := d.(*ast.FuncDecl)
			if !ok || fd.Body == nil {
				continue
			}
			recv, typ := "", ""
			if fd.Recv != nil && len(fd.Recv.List) == 1 && len(fd.Recv.List[0].Names) == 1 {
				recv = fd.Recv.List[0].Names[0].Name
				t := fd.Recv.List[0].Type
				if st, ok := t.(*ast.StarExpr); ok {
					t = st.X
				}
				if id, ok := t.(*ast.Ident); ok {
					typ = id.Name
				}
			}
			info := out[fd.Name.Name]
			if info == nil {
				info = &funcInfo{calls: map[string]bool{}}
				out[fd.Name.Name] = info
			}
			info.defs = append(info.defs, typ+"."+fd.Name.Name)
			// a type with its own mutex (txLookup, txNoncer) synchronises its methods itself
			selfLocked := false
			ast.Inspect(fd.Body, func(n ast.Node) bool {
				if ce, ok := n.(*ast.CallExpr); ok {
					if se, ok := ce.Fun.(*ast.SelectorExpr); ok && (se.Sel.Name == "Lock" || se.Sel.Name == "RLock") {
						if in, ok := se.X.(*ast.SelectorExpr); ok && in.Sel.Name == "lock" {
							if id, ok := in.X.(*ast.Ident); ok && id.Name == recv {
								selfLocked = true
							}
						}
					}
				}
				return true
			})
			if selfLocked || recv == "" {
				continue
			}
			if directWrite(fd.Body, recv) {
				info.writes = true
			}
			ast.Inspect(fd.Body, func(n ast.Node) bool {
				if ce, ok := n.(*ast.CallExpr); ok {
					switch f := ce.Fun.(type) {
					case *ast.SelectorExpr:
						info.calls[f.Sel.Name] = true
					case *ast.Ident:
						info.calls[f.Name] = true
					}
				}
				return true
			})
		}
	}
	return out
}

func locksCmd(out string) {
	repo := os.Getenv("VERIF_REPO")
	if repo == "" {
		repo = "/repo"
	}
	fset := token.NewFileSet()
	f, err := parser.ParseFile(fset, filepath.Join(repo, "core", "tx_pool.go"), nil, 0)
	if err != nil {
		fmt.Println("cannot parse tx_pool.go:", err)
		os.Exit(1)
	}
	var ms []*method
	type readRegion struct {
		name  string
		write bool
		calls map[string]bool
	}
	var regions []readRegion
	goEntry := map[string]bool{}
	evict := ""
	sched := map[string]string{}
	for _, d := range f.Decls {
		fd, ok := d.(*ast.FuncDecl)
		if !ok || fd.Body == nil {
			continue
		}
		recv := ""
		if fd.Recv != nil && len(fd.Recv.List) == 1 {
			if st, ok := fd.Recv.List[0].Type.(*ast.StarExpr); ok {
				if id, ok := st.X.(*ast.Ident); ok && id.Name == "TxPool" && len(fd.Recv.List[0].Names) == 1 {
					recv = fd.Recv.List[0].Names[0].Name
				}
			}
		}
		ast.Inspect(fd.Body, func(n ast.Node) bool {
			if g, ok := n.(*ast.GoStmt); ok {
				if se, ok := g.Call.Fun.(*ast.SelectorExpr); ok {
					goEntry[se.Sel.Name] = true
				}
			}
			return true
		})
		if recv == "" {
			continue
		}
		m := &method{name: fd.Name.Name, fieldsUnlocked: map[string]bool{}, fieldsLocked: map[string]bool{}, callsUnlocked: map[string]bool{}, callsLocked: map[string]bool{}}
		sc := &scanner{fset: fset, recv: recv, fn: fd.Name.Name, m: m, evict: &evict, sched: sched, callsRead: map[string]bool{}}
		sc.walk(fd.Body.List, false)
		ms = append(ms, m)
		if sc.hasRead {
			regions = append(regions, readRegion{fd.Name.Name, sc.writeRead, sc.callsRead})
		}
	}
	if len(ms) < 20 {
		fmt.Println("lock inventory: found only", len(ms), "TxPool methods - source layout not understood")
		os.Exit(1)
	}
	sort.Slice(ms, func(i, j int) bool { return ms[i].name < ms[j].name })
	var sb strings.Builder
	sb.WriteString("(* GENERATED by `c20 locks` from core/tx_pool.go of the working tree. Do not edit. *)\n")
	sb.WriteString("From Coq Require Import List String Bool.\nImport ListNotations.\nOpen Scope string_scope.\n")
	sb.WriteString("(* name, exported, started with go, shared fields touched while the body does not hold pool.mu,\n   pool methods called while it does not hold pool.mu, fields touched under the lock, methods called under the lock *)\n")
	sb.WriteString("Definition c20_methods : list (string * bool * bool * list string * list string * list string * list string) := [\n")
	for i, m := range ms {
		sep := ";"
		if i == len(ms)-1 {
			sep = ""
		}
		sb.WriteString(fmt.Sprintf("  (%s, %s, %s, %s, %s, %s, %s)%s\n", coqStr(m.name), vf.Bool(ast.IsExported(m.name)), vf.Bool(goEntry[m.name]),
			coqStrs(m.fieldsUnlocked), coqStrs(m.callsUnlocked), coqStrs(m.fieldsLocked), coqStrs(m.callsLocked), sep))
	}
	sb.WriteString("].\n")
	// write analysis (tx_pool.go, tx_list.go, tx_noncer.go) and the regions that hold only the read lock
	wt := writeTable(repo)
	var names []string
	for n := range wt {
		names = append(names, n)
	}
	sort.Strings(names)
	sb.WriteString("(* per method/function name of tx_pool.go, tx_list.go, tx_noncer.go (calls are resolved by name, merged over\n   the receiver types): does a definition write state hanging off its receiver (field assignment, map write/delete,\n   heap or sort operation - lazy caches included) without holding the receiver's own lock; names it calls *)\n")
	sb.WriteString("Definition c20_funcs : list (string * bool * list string) := [\n")
	for i, n := range names {
		sep := ";"
		if i == len(names)-1 {
			sep = ""
		}
		known := map[string]bool{}
		for c := range wt[n].calls {
			if _, ok := wt[c]; ok {
				known[c] = true
			}
		}
		sb.WriteString(fmt.Sprintf("  (%s, %s, %s)%s (* %s *)\n", coqStr(n), vf.Bool(wt[n].writes), coqStrs(known), sep, strings.Join(wt[n].defs, ", ")))
	}
	sb.WriteString("].\n")
	sort.Slice(regions, func(i, j int) bool { return regions[i].name < regions[j].name })
	sb.WriteString("(* TxPool methods with a region that holds pool.mu.RLock only: writes a pool field directly there, names called there *)\n")
	sb.WriteString("Definition c20_read_regions : list (string * bool * list string) := [\n")
	for i, r := range regions {
		sep := ";"
		if i == len(regions)-1 {
			sep = ""
		}
		known := map[string]bool{}
		for c := range r.calls {
			if _, ok := wt[c]; ok {
				known[c] = true
			}
		}
		sb.WriteString(fmt.Sprintf("  (%s, %s, %s)%s\n", coqStr(r.name), vf.Bool(r.write), coqStrs(known), sep))
	}
	sb.WriteString("].\n")
	sb.WriteString(fmt.Sprintf("(* body of the eviction branch of TxPool.loop, as found: %s *)\n", strings.ReplaceAll(evict, "*)", "* )")))
	sb.WriteString("Definition c20_evict_branch_as_modelled : bool := " + vf.Bool(evict == evictExpected) + ".\n")
	sb.WriteString(fmt.Sprintf("(* request merging in scheduleReorgLoop, as found:\n   reset:   %s\n   promote: %s *)\n",
		strings.ReplaceAll(sched["reqResetCh"], "*)", "* )"), strings.ReplaceAll(sched["reqPromoteCh"], "*)", "* )")))
	sb.WriteString("Definition c20_sched_merge_as_modelled : bool := " + vf.Bool(sched["reqResetCh"] == schedResetExpected && sched["reqPromoteCh"] == schedPromoteExpected) + ".\n")
	vf.WriteIfChanged(out, sb.String())
}
