package main

// Translator "locks" (T5-iii of DESIGN.md): inventory, by go/ast, of every
// method of core.TxPool: which shared fields does its body touch and which
// pool methods does it call while the body itself does NOT hold pool.mu, and
// which under the lock; is it exported / started as a goroutine.  Written as
// a Coq table; coq/C20/Bridge.v checks the lock discipline on it.  Also
// fingerprints the eviction branch of TxPool.loop, whose body
// hooks/core/zz_verif_c20.go has to replicate.

import (
	"bytes"
	"fmt"
	"go/ast"
	"go/parser"
	"go/printer"
	"go/token"
	"os"
	"path/filepath"
	"sort"
	"strings"

	"verif/harness/vf"
)

// fields of TxPool that are written after construction or point to
// structures without their own lock (all/txLookup, txFeed, scope and the
// channels synchronise themselves; config, chain, signer, router, journal
// are set once before the pool is shared)
var sharedFields = map[string]bool{"pending": true, "queue": true, "beats": true, "priced": true,
	"currentState": true, "pendingNonces": true, "currentMaxGas": true, "locals": true, "gasPrice": true}

const evictExpected = `pool.mu.Lock() for addr := range pool.queue { if pool.locals.contains(addr) { continue } if time.Since(pool.beats[addr]) > pool.config.Lifetime { for _, tx := range pool.queue[addr].Flatten() { pool.removeTx(tx.Hash(), true) } } } pool.mu.Unlock()`

type method struct {
	name           string
	fieldsUnlocked map[string]bool
	fieldsLocked   map[string]bool
	callsUnlocked  map[string]bool
	callsLocked    map[string]bool
}

func coqStr(s string) string { return "\"" + s + "\"" }
func coqStrs(m map[string]bool) string {
	var xs []string
	for k := range m {
		xs = append(xs, coqStr(k))
	}
	sort.Strings(xs)
	return "[" + strings.Join(xs, "; ") + "]"
}

type scanner struct {
	fset  *token.FileSet
	recv  string
	fn    string
	m     *method
	evict *string
}

func (s *scanner) isMu(e ast.Expr, names ...string) bool {
	ce, ok := e.(*ast.CallExpr)
	if !ok {
		return false
	}
	se, ok := ce.Fun.(*ast.SelectorExpr)
	if !ok {
		return false
	}
	inner, ok := se.X.(*ast.SelectorExpr)
	if !ok {
		return false
	}
	id, ok := inner.X.(*ast.Ident)
	if !ok || id.Name != s.recv || inner.Sel.Name != "mu" {
		return false
	}
	for _, n := range names {
		if se.Sel.Name == n {
			return true
		}
	}
	return false
}

func (s *scanner) visit(n ast.Node, held bool) {
	ast.Inspect(n, func(x ast.Node) bool {
		switch y := x.(type) {
		case *ast.BlockStmt:
			s.walk(y.List, held)
			return false
		case *ast.CaseClause:
			for _, e := range y.List {
				s.visit(e, held)
			}
			s.walk(y.Body, held)
			return false
		case *ast.CommClause:
			if s.fn == "loop" && y.Comm != nil {
				var b bytes.Buffer
				printer.Fprint(&b, s.fset, y.Comm)
				if strings.Contains(b.String(), "evict.C") {
					var body bytes.Buffer
					for _, st := range y.Body {
						printer.Fprint(&body, s.fset, st)
						body.WriteString(" ")
					}
					*s.evict = strings.Join(strings.Fields(body.String()), " ")
				}
			}
			if y.Comm != nil {
				s.visit(y.Comm, held)
			}
			s.walk(y.Body, held)
			return false
		case *ast.GoStmt:
			return false // a spawn is not a call made under the caller's lock
		case *ast.CallExpr:
			if se, ok := y.Fun.(*ast.SelectorExpr); ok {
				if id, ok := se.X.(*ast.Ident); ok && id.Name == s.recv {
					if held {
						s.m.callsLocked[se.Sel.Name] = true
					} else {
						s.m.callsUnlocked[se.Sel.Name] = true
					}
				}
			}
		case *ast.SelectorExpr:
			if id, ok := y.X.(*ast.Ident); ok && id.Name == s.recv && sharedFields[y.Sel.Name] {
				if held {
					s.m.fieldsLocked[y.Sel.Name] = true
				} else {
					s.m.fieldsUnlocked[y.Sel.Name] = true
				}
			}
		}
		return true
	})
}

func (s *scanner) walk(list []ast.Stmt, held bool) {
	for _, st := range list {
		if es, ok := st.(*ast.ExprStmt); ok {
			if s.isMu(es.X, "Lock", "RLock") {
				held = true
				continue
			}
			if s.isMu(es.X, "Unlock", "RUnlock") {
				held = false
				continue
			}
		}
		if ds, ok := st.(*ast.DeferStmt); ok && s.isMu(ds.Call, "Unlock", "RUnlock") {
			continue
		}
		s.visit(st, held)
	}
}

func locksCmd(out string) {
	repo := os.Getenv("VERIF_REPO")
	if repo == "" {
		repo = "/repo"
	}
	fset := token.NewFileSet()
	f, err := parser.ParseFile(fset, filepath.Join(repo, "core", "tx_pool.go"), nil, 0)
	if err != nil {
		fmt.Println("cannot parse tx_pool.go:", err)
		os.Exit(1)
	}
	var ms []*method
	goEntry := map[string]bool{}
	evict := ""
	for _, d := range f.Decls {
		fd, ok := d.(*ast.FuncDecl)
		if !ok || fd.Body == nil {
			continue
		}
		recv := ""
		if fd.Recv != nil && len(fd.Recv.List) == 1 {
			if st, ok := fd.Recv.List[0].Type.(*ast.StarExpr); ok {
				if id, ok := st.X.(*ast.Ident); ok && id.Name == "TxPool" && len(fd.Recv.List[0].Names) == 1 {
					recv = fd.Recv.List[0].Names[0].Name
				}
			}
		}
		ast.Inspect(fd.Body, func(n ast.Node) bool {
			if g, ok := n.(*ast.GoStmt); ok {
				if se, ok := g.Call.Fun.(*ast.SelectorExpr); ok {
					goEntry[se.Sel.Name] = true
				}
			}
			return true
		})
		if recv == "" {
			continue
		}
		m := &method{name: fd.Name.Name, fieldsUnlocked: map[string]bool{}, fieldsLocked: map[string]bool{}, callsUnlocked: map[string]bool{}, callsLocked: map[string]bool{}}
		sc := &scanner{fset: fset, recv: recv, fn: fd.Name.Name, m: m, evict: &evict}
		sc.walk(fd.Body.List, false)
		ms = append(ms, m)
	}
	if len(ms) < 20 {
		fmt.Println("lock inventory: found only", len(ms), "TxPool methods - source layout not understood")
		os.Exit(1)
	}
	sort.Slice(ms, func(i, j int) bool { return ms[i].name < ms[j].name })
	var sb strings.Builder
	sb.WriteString("(* GENERATED by `c20 locks` from core/tx_pool.go of the working tree. Do not edit. *)\n")
	sb.WriteString("From Coq Require Import List String Bool.\nImport ListNotations.\nOpen Scope string_scope.\n")
	sb.WriteString("(* name, exported, started with go, shared fields touched while the body does not hold pool.mu,\n   pool methods called while it does not hold pool.mu, fields touched under the lock, methods called under the lock *)\n")
	sb.WriteString("Definition c20_methods : list (string * bool * bool * list string * list string * list string * list string) := [\n")
	for i, m := range ms {
		sep := ";"
		if i == len(ms)-1 {
			sep = ""
		}
		sb.WriteString(fmt.Sprintf("  (%s, %s, %s, %s, %s, %s, %s)%s\n", coqStr(m.name), vf.Bool(ast.IsExported(m.name)), vf.Bool(goEntry[m.name]),
			coqStrs(m.fieldsUnlocked), coqStrs(m.callsUnlocked), coqStrs(m.fieldsLocked), coqStrs(m.callsLocked), sep))
	}
	sb.WriteString("].\n")
	sb.WriteString(fmt.Sprintf("(* body of the eviction branch of TxPool.loop, as found: %s *)\n", strings.ReplaceAll(evict, "*)", "* )")))
	sb.WriteString("Definition c20_evict_branch_as_modelled : bool := " + vf.Bool(evict == evictExpected) + ".\n")
	vf.WriteIfChanged(out, sb.String())
}
