package main

// "readers": concurrent-readers scenario.  Pending lists are made COLD (their
// Flatten cache dropped) by replacing a pending transaction in the first
// critical section of addTxs, or by a SetGasPrice that drops an underpriced
// pending transaction; then several goroutines call Pending() at the same
// moment.  Every result must equal the sequential view (the stored items in
// nonce order).  A Pending() that only holds a shared lock builds the lazy
// cache concurrently and hands out truncated / duplicated / unordered runs.

import (
	"encoding/json"
	"fmt"
	"math/big"
	"os"
	"sync"
	"time"

	"github.com/youchainhq/go-youchain/common"
	"github.com/youchainhq/go-youchain/core"
	"github.com/youchainhq/go-youchain/core/state"
	"github.com/youchainhq/go-youchain/core/types"
	"github.com/youchainhq/go-youchain/event"
	"github.com/youchainhq/go-youchain/youdb"
	"verif/harness/vf"
)

func readers(seed uint64, rounds int, outDir string) {
	const nacc, perAcct, nreaders = 4, 160, 8
	r := vf.NewRng(seed)
	var addrs []common.Address
	for i := 0; i < nacc; i++ {
		addrs = append(addrs, keys[i].addr)
	}
	chain := &lockedChain{blocks: map[common.Hash]*types.Block{}, states: map[common.Hash]*state.StateDB{}, feed: new(event.Feed), proc: core.VerifTestProcessor()}
	st, _ := state.New(common.Hash{}, common.Hash{}, common.Hash{}, state.NewDatabase(youdb.NewMemDatabase()))
	for _, a := range addrs {
		st.SetBalance(a, new(big.Int).Lsh(big.NewInt(1), 80))
	}
	var root common.Hash
	root[0] = 0xd0
	g := types.NewBlock(&types.Header{Number: big.NewInt(0), GasLimit: 1000000, Root: root}, nil, nil)
	chain.blocks[g.Hash()], chain.states[root], chain.head = g, st, g
	cfg := core.TxPoolConfig{Journal: "", Rejournal: time.Hour, PriceLimit: 1, PriceBump: 1, AccountSlots: 4096, GlobalSlots: 16384,
		AccountQueue: 64, GlobalQueue: 1024, Lifetime: time.Hour}
	pool := core.NewTxPool(cfg, chain)
	defer pool.Stop()
	mk := func(a int, nonce uint64, price int64) *types.Transaction {
		return keys[a].tx(types.NewTransaction(nonce, common.Address{0xaa}, big.NewInt(0), 21000, big.NewInt(price), nil))
	}
	price := make([]map[uint64]int64, nacc)
	for a := 0; a < nacc; a++ {
		price[a] = map[uint64]int64{}
		var txs []*types.Transaction
		for n := 0; n < perAcct; n++ {
			// account 0 is the cheap one, and within an account the price falls with the nonce
			base := int64(4000000)
			if a == 0 {
				base = 1000000
			}
			price[a][uint64(n)] = base - int64(64*n) + int64(a)
			txs = append(txs, mk(a, uint64(n), price[a][uint64(n)]))
		}
		for _, err := range pool.AddRemotesSync(txs) {
			if err != nil {
				panic(err)
			}
		}
	}
	what, calls, reprices := "", 0, 0
	for round := 0; round < rounds && what == ""; round++ {
		cur := pool.VerifSnapshot(addrs)
		// make the caches cold
		if round%5 == 4 && reprices < 6 && cur.Accounts[0].Pending != nil && len(cur.Accounts[0].Pending.Nonces) > 20 {
			// re-pricing: the floor goes just above the cheapest pending tx of account 0 (its highest nonce
			// unless a replacement made another one cheaper); removeTx drops the list's cache
			min := int64(-1)
			for _, n := range cur.Accounts[0].Pending.Nonces {
				if p := price[0][n]; min < 0 || p < min {
					min = p
				}
			}
			pool.SetGasPrice(big.NewInt(min + 1))
			reprices++
		} else {
			for a := 0; a < nacc; a++ {
				if cur.Accounts[a].Pending == nil {
					continue
				}
				ns := cur.Accounts[a].Pending.Nonces
				n := ns[r.Intn(len(ns))]
				p := price[a][n]*102/100 + 8
				p = p - p%8 + int64(a)
				price[a][n] = p
				if errs, _ := pool.VerifAddLocked([]*types.Transaction{mk(a, n, p)}, false); errs[0] != nil {
					panic(fmt.Sprint("replacement refused: ", errs[0]))
				}
			}
		}
		snap := pool.VerifSnapshot(addrs)
		cold := 0
		for _, va := range snap.Accounts {
			if va.Pending != nil && !va.Pending.HasCache {
				cold++
			}
		}
		if cold == 0 {
			what = "scenario broken: no cold pending list before the concurrent readers"
			break
		}
		// the parallel readers
		results := make([]map[common.Address]types.Transactions, nreaders)
		var start, done sync.WaitGroup
		start.Add(1)
		for i := 0; i < nreaders; i++ {
			done.Add(1)
			go func(i int) {
				defer done.Done()
				start.Wait()
				results[i], _ = pool.Pending()
			}(i)
		}
		start.Done()
		done.Wait()
		calls += nreaders
		for i, res := range results {
			for ai, va := range snap.Accounts {
				got := res[va.Addr]
				want := 0
				if va.Pending != nil {
					want = len(va.Pending.Hashes)
				}
				if len(got) != want {
					what = fmt.Sprintf("round %d reader %d: Pending() hands out %d transactions for account %d, the pending list holds %d", round, i, len(got), ai, want)
					break
				}
				for j, tx := range got {
					if tx == nil || tx.Hash() != va.Pending.Hashes[j] {
						what = fmt.Sprintf("round %d reader %d: Pending() of account %d differs from the stored list at position %d (nonce order / duplicates)", round, i, ai, j)
						break
					}
				}
				if what != "" {
					break
				}
			}
			if what != "" {
				break
			}
		}
		// a reorg run in between, as in normal operation
		if what == "" && round%3 == 2 {
			pool.VerifReorg(false, nil, nil, addrs, true)
		}
	}
	res := map[string]interface{}{"rounds": rounds, "parallel_pending_calls": calls, "readers": nreaders, "oracle": what}
	b, _ := json.Marshal(res)
	fmt.Println(string(b))
	if outDir != "" {
		vf.WriteFile(outDir+"/readers.json", string(b))
	}
	if what != "" {
		fmt.Println("ORACLE VIOLATION: pending-api-differs-under-concurrent-readers:", what)
		os.Exit(1)
	}
}
