// C09 harness: drives the real core/state.StateDB of the working tree through
// histories of account mutations, validator mutations, snapshots, reverts and
// finalisations; records what every call returns and what the state looks like
// afterwards (for the in-Coq comparison with coq/C09/Model.v) and evaluates the
// property oracle "a revert to a valid snapshot does not fail and restores
// every observable" on the implementation's own observations.
package main

import (
	"encoding/json"
	"flag"
	"fmt"
	"io/ioutil"
	"math/big"
	"os"
	"path/filepath"
	"sort"
	"strings"

	"github.com/youchainhq/go-youchain/common"
	"github.com/youchainhq/go-youchain/core/state"
	"github.com/youchainhq/go-youchain/core/types"
	"github.com/youchainhq/go-youchain/crypto"
	"github.com/youchainhq/go-youchain/logging"
	"github.com/youchainhq/go-youchain/params"
	"github.com/youchainhq/go-youchain/youdb"
	"verif/harness/vf"
)

// ---- histories -----------------------------------------------------------

// Op is one API call.  K selects the call, the other fields are its arguments
// (see exec and opCoq for the meaning per kind).
type Op struct {
	K    string `json:"k"`
	A    uint64 `json:"a,omitempty"`
	B    uint64 `json:"b,omitempty"`
	C    uint64 `json:"c,omitempty"`
	V    string `json:"v,omitempty"` // big integer (decimal)
	W    string `json:"w,omitempty"` // second big integer
	P    uint64 `json:"p,omitempty"`
	Code []byte `json:"code,omitempty"`
	Del  bool   `json:"del,omitempty"`
	Idx  []int  `json:"idx,omitempty"`
	Lazy bool   `json:"lazy,omitempty"` // reopen without reading the validators (implementation-only histories)
	Inp  bool   `json:"inp,omitempty"`  // updval with the in-place convention of the staking module (same call for the model)
}

type History struct {
	Ops     []Op   `json:"ops"`
	Comment string `json:"comment,omitempty"`
}

var (
	uAddr = []uint64{1, 2, 3, 4, 5, 6}
	uKey  = []uint64{1, 2, 3}
	uTh   = []uint64{1, 2, 3}
	uPre  = []uint64{1, 2}
	uVal  = []uint64{1, 2, 3, 4}
	uDlg  = []uint64{501, 502, 503} // delegator accounts of the implementation-only histories
)

// richAddrs: the accounts the oracle looks at
func richAddrs() []uint64 { return append(append([]uint64{}, uAddr...), uDlg...) }

// delegationView: what an account's delegation list looks like from outside
func (e *env) delegationView(n uint64) string {
	st, a := e.st, addrOf(n)
	if !st.Exist(a) {
		return "absent"
	}
	db, dl, ok := st.VerifC09Delegations(a)
	s := fmt.Sprintf("dlg=%v/%s/%x cnt=%d", ok, db, dl, st.GetCountOfDelegateTo(a))
	func() {
		defer func() {
			if r := recover(); r != nil {
				s += fmt.Sprint(" GetDelegationsFrom panics: ", r)
			}
		}()
		tos, err := st.GetDelegationsFrom(a)
		if err != nil {
			s += " from=error"
			return
		}
		for _, t := range tos {
			s += fmt.Sprintf(" to=%x/%s/%s", t.Validator, t.Stake, t.Token)
		}
	}()
	if ok, d := st.VerifC09DelegationsConsistent(a); !ok {
		s += " INCONSISTENT " + d
	}
	return s
}

func addrOf(n uint64) common.Address { return common.BigToAddress(new(big.Int).SetUint64(n)) }
func hashOf(n uint64) common.Hash    { return common.BigToHash(new(big.Int).SetUint64(n)) }
func bigOf(s string) *big.Int {
	if s == "" {
		return new(big.Int)
	}
	b, ok := new(big.Int).SetString(s, 10)
	if !ok {
		panic("bad integer " + s)
	}
	return b
}

// the four validator identities, ordered by main address so that the model's
// numbering 1..4 preserves the byte order of the addresses
var valKeys [][]byte
var valAddrs []common.Address

func initValidators() {
	type kv struct {
		pk []byte
		a  common.Address
	}
	var l []kv
	for i := int64(0); i < 4; i++ {
		k, err := crypto.ToECDSA(common.BigToHash(big.NewInt(i + 7001)).Bytes())
		if err != nil {
			panic(err)
		}
		pk := crypto.CompressPubkey(&k.PublicKey)
		l = append(l, kv{pk, state.PubToAddress(pk)})
	}
	sort.Slice(l, func(i, j int) bool { return strings.Compare(string(l[i].a.Bytes()), string(l[j].a.Bytes())) < 0 })
	valKeys, valAddrs = nil, nil
	for _, x := range l {
		valKeys = append(valKeys, x.pk)
		valAddrs = append(valAddrs, x.a)
	}
}
func valAddr(id uint64) common.Address {
	if id >= 1 && id <= 4 {
		return valAddrs[id-1]
	}
	return addrOf(9000 + id)
}

type env struct {
	db state.Database
	st *state.StateDB
}

func newEnv() *env {
	db := state.NewDatabase(youdb.NewMemDatabase())
	st, err := state.New(common.Hash{}, common.Hash{}, common.Hash{}, db)
	if err != nil {
		panic(err)
	}
	return &env{db: db, st: st}
}

// exec performs one call; ret is the call's return value as the model reports it.
func (e *env) exec(o Op) (ret int64, panicked bool, panicMsg string) {
	defer func() {
		if r := recover(); r != nil {
			panicked, panicMsg = true, fmt.Sprint(r)
		}
	}()
	st := e.st
	switch o.K {
	case "addbal":
		st.AddBalance(addrOf(o.A), bigOf(o.V))
	case "subbal":
		st.SubBalance(addrOf(o.A), bigOf(o.V))
	case "setbal":
		st.SetBalance(addrOf(o.A), bigOf(o.V))
	case "setnonce":
		st.SetNonce(addrOf(o.A), o.B)
	case "setcode":
		st.SetCode(addrOf(o.A), append([]byte{}, o.Code...))
	case "setstate":
		st.SetState(addrOf(o.A), hashOf(o.B), common.BigToHash(bigOf(o.V)))
	case "suicide":
		if st.Suicide(addrOf(o.A)) {
			ret = 1
		}
	case "createacct":
		st.CreateAccount(addrOf(o.A))
	case "addlog":
		st.AddLog(&types.Log{Address: addrOf(o.A), Data: []byte{byte(o.A)}})
	case "addpre":
		st.AddPreimage(hashOf(o.A), []byte{byte(o.B)})
	case "addrefund":
		st.AddRefund(o.A)
	case "subrefund":
		st.SubRefund(o.A)
	case "upddlg":
		st.UpdateDelegator(addrOf(o.A), addrOf(o.B), bigOf(o.V), o.Del)
	case "prepare":
		st.Prepare(hashOf(o.A), common.Hash{}, int(o.B))
	case "createval":
		i := o.A
		if i < 1 || i > 4 {
			panic("validator id")
		}
		v := st.CreateValidator("v", addrOf(1000+i), addrOf(1000+i), params.ValidatorRole(o.B), valKeys[i-1], valKeys[i-1],
			bigOf(o.W), bigOf(o.V), params.AcceptDelegation, 2000, 1000, uint8(o.C))
		if v != nil {
			ret = 1
		}
	case "updval":
		old := st.GetValidatorByMainAddr(valAddr(o.A))
		if old != nil && o.Inp {
			// the staking module's convention: copy the stored record, write the stored record itself,
			// UpdateValidator(stored, copy) - journal entries that point at the stored object see the writes
			stored := old
			cp := stored.PartialCopy()
			stored.Role = params.ValidatorRole(o.B)
			stored.Status = uint8(o.C)
			stored.Stake.Set(bigOf(o.V))
			stored.Token.Set(bigOf(o.W))
			stored.RewardsLastSettled = o.P
			if st.UpdateValidator(stored, cp) {
				ret = 1
			}
		} else if old != nil {
			nv := old.PartialCopy()
			nv.Role = params.ValidatorRole(o.B)
			nv.Status = uint8(o.C)
			nv.Stake = bigOf(o.V)
			nv.Token = bigOf(o.W)
			nv.RewardsLastSettled = o.P
			if st.UpdateValidator(nv, old) {
				ret = 1
			}
		}
	case "rmval":
		if st.RemoveValidator(valAddr(o.A)) {
			ret = 1
		}
	case "getval":
		if st.GetValidatorByMainAddr(valAddr(o.A)) != nil {
			ret = 1
		}
	case "addwd":
		if st.AddWithdrawRecord(&state.WithdrawRecord{Operator: addrOf(o.A), Nonce: o.B, CompletionHeight: o.P,
			Validator: valAddr(1), InitialBalance: big.NewInt(1), FinalBalance: big.NewInt(1)}) {
			ret = 1
		}
	case "rmwd":
		if st.RemoveWithdrawRecords(append([]int{}, o.Idx...)) {
			ret = 1
		}
	case "updvalinplace": // implementation-only: the caller pattern of rewardsToPool (mutate the live record, journal a copy)
		v := st.GetValidatorByMainAddr(valAddr(o.A))
		if v != nil {
			old := v.PartialCopy()
			v.AddTotalRewards(new(big.Int).SetUint64(o.B))
			v.UpdateLastActive(o.C)
			if st.UpdateValidator(v, old) {
				ret = 1
			}
		}
	case "upddelegation": // implementation-only (the value model cannot express the shared slice)
		v := st.GetValidatorByMainAddr(valAddr(o.A))
		if v != nil {
			tok := new(big.Int).Mul(bigOf(o.V), params.StakeUint)
			st.UpdateDelegation(addrOf(o.B), v, tok)
			ret = 1
		}
	case "snapshot":
		ret = int64(st.Snapshot())
	case "revert":
		st.RevertToSnapshot(int(int64(o.A)))
	case "finalise":
		st.Finalise(o.Del)
	case "iroot":
		st.IntermediateRoot(o.Del)
	case "reopen":
		root, valRoot, stakingRoot, err := st.Commit(o.Del)
		if err != nil {
			panic(err)
		}
		nst, err := state.New(root, valRoot, stakingRoot, e.db)
		if err != nil {
			panic(err)
		}
		e.st = nst
		if !o.Lazy {
			for _, id := range uVal {
				nst.GetValidatorByMainAddr(valAddr(id))
			}
		}
	default:
		panic("unknown op " + o.K)
	}
	return
}

func zs(b *big.Int) string { return b.String() }
func us(u uint64) string   { return new(big.Int).SetUint64(u).String() }
func bs(b bool) string {
	if b {
		return "1"
	}
	return "0"
}

// ---- observation (must mirror obs_* of Model.v exactly) --------------------

func (e *env) obsAcct(n uint64) []string {
	st, a := e.st, addrOf(n)
	if !st.Exist(a) {
		out := []string{"0", bs(st.Empty(a)), zs(st.GetBalance(a)), us(st.GetNonce(a)), us(uint64(len(st.GetCode(a)))), bs(st.HasSuicided(a)), "0", "0"}
		for _, k := range uKey {
			out = append(out, zs(st.GetState(a, hashOf(k)).Big()), zs(st.GetCommittedState(a, hashOf(k)).Big()))
		}
		return out
	}
	out := []string{"1", bs(st.Empty(a)), zs(st.GetBalance(a)), us(st.GetNonce(a))}
	code := st.GetCode(a)
	out = append(out, us(uint64(len(code))))
	for _, c := range code {
		out = append(out, us(uint64(c)))
	}
	out = append(out, bs(st.HasSuicided(a)))
	db, dl, _ := st.VerifC09Delegations(a)
	out = append(out, zs(db), us(uint64(len(dl))))
	for _, d := range dl {
		out = append(out, zs(d.Big()))
	}
	for _, k := range uKey {
		out = append(out, zs(st.GetState(a, hashOf(k)).Big()), zs(st.GetCommittedState(a, hashOf(k)).Big()))
	}
	return out
}

func (e *env) obsAcctInt(in state.VerifC09Internals, n uint64) []string {
	a := addrOf(n)
	return []string{us(uint64(in.Dirties[a])), bs(in.Pending[a]), bs(in.ObjDirty[a])}
}

func (e *env) obsAMisc(in state.VerifC09Internals) []string {
	st := e.st
	out := []string{us(st.GetRefund()), us(uint64(in.LogSize)), us(uint64(in.JournalLen))}
	for _, th := range uTh {
		ls := st.GetLogs(hashOf(th))
		out = append(out, us(uint64(len(ls))))
		for _, l := range ls {
			out = append(out, zs(l.Address.Big()), us(uint64(l.TxIndex)), us(uint64(l.Index)))
		}
	}
	pre := st.Preimages()
	for _, h := range uPre {
		if p, ok := pre[hashOf(h)]; ok && len(p) > 0 {
			out = append(out, "1", us(uint64(p[0])))
		} else if ok {
			out = append(out, "1", "0")
		} else {
			out = append(out, "0", "0")
		}
	}
	return out
}

func (e *env) obsASide(in state.VerifC09Internals) []string {
	var out []string
	for _, n := range uAddr {
		out = append(out, e.obsAcct(n)...)
		out = append(out, e.obsAcctInt(in, n)...)
	}
	return append(out, e.obsAMisc(in)...)
}

func obsBucket(b *state.ValKindStat) []string {
	return []string{zs(b.GetOnlineStake()), zs(b.GetOnlineToken()), us(b.GetCount()), zs(b.GetOfflineStake()), zs(b.GetOfflineToken()), us(b.GetOfflineCount())}
}

func (e *env) obsVSide(in state.VerifC09Internals) []string {
	st := e.st
	var out []string
	for _, id := range uVal {
		a := valAddr(id)
		v, live, del := st.VerifC09PeekValidator(a)
		if v == nil {
			out = append(out, "0", "0", "0", "0", "0", "0")
		} else {
			out = append(out, "1", us(uint64(v.Role)), us(uint64(v.Status)), zs(v.Stake), zs(v.Token), us(v.RewardsLastSettled))
		}
		if live {
			out = append(out, "1", bs(del))
		} else {
			out = append(out, "0", "0")
		}
		out = append(out, bs(in.Index[a]), us(uint64(in.ValDirties[a])), bs(in.ValObjDirty[a]))
	}
	stat, err := st.GetValidatorsStat()
	if err != nil {
		panic(err)
	}
	for _, k := range []params.ValidatorKind{params.KindValidator, params.KindChamber, params.KindHouse} {
		out = append(out, obsBucket(stat.GetByKind(k))...)
	}
	for _, r := range []params.ValidatorRole{params.RoleChancellor, params.RoleSenator, params.RoleHouse} {
		out = append(out, obsBucket(stat.GetByRole(r))...)
	}
	out = append(out, bs(in.StatModified))
	q := st.GetWithdrawQueue()
	out = append(out, us(uint64(len(q.Records))))
	for _, r := range q.Records {
		out = append(out, zs(r.Operator.Big()), us(r.Nonce), us(r.CompletionHeight))
	}
	return append(out, us(uint64(in.ValJournalLen)))
}

func obsRevs(l [][2]int) []string {
	out := []string{us(uint64(len(l)))}
	for _, r := range l {
		out = append(out, us(uint64(r[0])), us(uint64(r[1])))
	}
	return out
}

func (e *env) obsFull() []string {
	in := e.st.VerifC09Internals()
	out := e.obsASide(in)
	out = append(out, e.obsVSide(in)...)
	out = append(out, obsRevs(in.Revs)...)
	out = append(out, obsRevs(in.ValRevs)...)
	return append(out, us(uint64(in.NextRevisionId)))
}

// cks mirrors Model.cks / ck_mix: h := (33 h + mix x) mod 2^61 over the observation.
func cks(obs []string) string {
	const M = uint64(2305843009213693951)
	mask := new(big.Int).SetUint64(M)
	h := uint64(len(obs))
	for _, x := range obs {
		b, ok := new(big.Int).SetString(x, 10)
		if !ok {
			panic("bad observation " + x)
		}
		a := new(big.Int).Abs(b)
		var mix uint64
		for _, w := range []uint64{1, 3, 5, 7, 11} {
			limb := new(big.Int).And(a, mask).Uint64()
			mix += w * limb // wraps mod 2^64, which is compatible with the final mask of 61 bits
			a.Rsh(a, 61)
		}
		if b.Sign() < 0 {
			mix += 13
		}
		h = (h<<5 + h + mix) & M
	}
	return fmt.Sprintf("0x%x", h)
}

func (e *env) obsAfter(o Op) []string {
	return e.obsFull()
}

// ---- the property oracle (independent of the Coq model) -------------------

// rich is everything a user of the StateDB can see, in comparable form.
type rich struct {
	Accounts   []string
	Misc       string
	Validators []string
	Index      string
	Stat       string
	Queue      string
	Root       string
	ValRoot    string
	StakeRoot  string
	Internals  string // bookkeeping that decides future behaviour: log counter, journal lengths, dirty counters
}

func (e *env) rich() rich {
	st := e.st
	var r rich
	for _, n := range richAddrs() {
		a := addrOf(n)
		s := fmt.Sprintf("exist=%v empty=%v bal=%s nonce=%d code=%x codehash=%x codesize=%d suicided=%v", st.Exist(a), st.Empty(a), st.GetBalance(a), st.GetNonce(a),
			st.GetCode(a), st.GetCodeHash(a), st.GetCodeSize(a), st.HasSuicided(a))
		s += " " + e.delegationView(n)
		for _, k := range uKey {
			s += fmt.Sprintf(" %d:%x/%x", k, st.GetState(a, hashOf(k)), st.GetCommittedState(a, hashOf(k)))
		}
		r.Accounts = append(r.Accounts, s)
	}
	m := fmt.Sprintf("refund=%d", st.GetRefund())
	for _, th := range uTh {
		b, _ := json.Marshal(st.GetLogs(hashOf(th)))
		m += fmt.Sprintf(" logs%d=%s", th, b)
	}
	pre := st.Preimages()
	var pk []string
	for h, p := range pre {
		pk = append(pk, fmt.Sprintf("%x=%x", h, p))
	}
	sort.Strings(pk)
	r.Misc = m + " pre=" + strings.Join(pk, ",")
	for _, id := range uVal {
		v, _, _ := st.VerifC09PeekValidator(valAddr(id))
		if v == nil {
			r.Validators = append(r.Validators, "nil")
		} else {
			b, err := safeDump(v)
			if err != "" {
				r.Validators = append(r.Validators, "dump panics: "+err)
			} else {
				r.Validators = append(r.Validators, b)
			}
		}
	}
	in := st.VerifC09Internals()
	var ix []string
	for a := range in.Index {
		ix = append(ix, fmt.Sprintf("%x", a))
	}
	sort.Strings(ix)
	r.Index = strings.Join(ix, ",")
	stat, _ := st.GetValidatorsStat()
	b, _ := json.Marshal(stat.Dump())
	r.Stat = string(b)
	b, _ = json.Marshal(st.GetWithdrawQueue().Records)
	r.Queue = string(b)
	r.Root, r.ValRoot, r.StakeRoot = rootsOfCopy(st)
	var ds []string
	for a, n := range in.Dirties {
		ds = append(ds, fmt.Sprintf("%x:%d", a, n))
	}
	for a, n := range in.ValDirties {
		ds = append(ds, fmt.Sprintf("v%x:%d", a, n))
	}
	for a := range in.Pending {
		ds = append(ds, fmt.Sprintf("p%x", a))
	}
	for a := range in.ObjDirty {
		ds = append(ds, fmt.Sprintf("d%x", a))
	}
	for a := range in.ValObjDirty {
		ds = append(ds, fmt.Sprintf("vd%x", a))
	}
	sort.Strings(ds)
	r.Internals = fmt.Sprintf("logSize=%d journal=%d valJournal=%d %s", in.LogSize, in.JournalLen, in.ValJournalLen, strings.Join(ds, ","))
	return r
}

// rootsOfCopy: the roots the state would get if the block ended here.
func rootsOfCopy(st *state.StateDB) (a, b, c string) {
	defer func() {
		if r := recover(); r != nil {
			a = "Copy/IntermediateRoot panics: " + fmt.Sprint(r)
			b, c = a, a
		}
	}()
	cp := st.Copy()
	r1, r2, r3 := cp.IntermediateRoot(true)
	return r1.Hex(), r2.Hex(), r3.Hex()
}

func safeDump(v *state.Validator) (out string, perr string) {
	defer func() {
		if r := recover(); r != nil {
			perr = fmt.Sprint(r)
		}
	}()
	b, _ := json.Marshal(v.Dump())
	return string(b), ""
}

// diff names the components of two rich observations that differ, each with a
// tag (acct, misc, val, index, stat, queue, root, valroot, stakeroot, book).
type diffItem struct{ tag, text string }

func (a rich) diff(b rich) []diffItem {
	var d []diffItem
	add := func(tag, text string) { d = append(d, diffItem{tag, text}) }
	for i := range a.Accounts {
		if a.Accounts[i] != b.Accounts[i] {
			add("acct", fmt.Sprintf("account %d: %s  ->  %s", richAddrs()[i], a.Accounts[i], b.Accounts[i]))
		}
	}
	if a.Misc != b.Misc {
		add("misc", "refund/logs/preimages: "+a.Misc+"  ->  "+b.Misc)
	}
	for i := range a.Validators {
		if a.Validators[i] != b.Validators[i] {
			add("val", fmt.Sprintf("validator %d: %s  ->  %s", uVal[i], a.Validators[i], b.Validators[i]))
		}
	}
	if a.Index != b.Index {
		add("index", "validator index: "+a.Index+"  ->  "+b.Index)
	}
	if a.Stat != b.Stat {
		add("stat", "validator statistics: "+a.Stat+"  ->  "+b.Stat)
	}
	if a.Queue != b.Queue {
		add("queue", "withdraw queue: "+a.Queue+"  ->  "+b.Queue)
	}
	if a.Root != b.Root {
		add("root", "state root: "+a.Root+"  ->  "+b.Root)
	}
	if a.ValRoot != b.ValRoot {
		add("valroot", "validator root: "+a.ValRoot+"  ->  "+b.ValRoot)
	}
	if a.StakeRoot != b.StakeRoot {
		add("stakeroot", "staking root: "+a.StakeRoot+"  ->  "+b.StakeRoot)
	}
	if a.Internals != b.Internals {
		add("book", "bookkeeping: "+a.Internals+"  ->  "+b.Internals)
	}
	return d
}

// The two listed defects of the validator journal (see /verif/fixes) and the
// designed RIPEMD exception of journal.go are recognised by what a history
// does, and excuse only the components they are known to disturb.
const (
	keyRemoveValidator   = "revert does not restore a validator removed with RemoveValidator (validatorDeleteChange keeps the deleted flag and does not restore the statistics)"
	keyWithdrawOrder     = "revert re-appends withdraw records removed with RemoveWithdrawRecords at the end of the queue instead of their old positions"
	keyDelegationAlias   = "revert does not restore a validator's delegation list after UpdateDelegation (PartialCopy shares the Delegations slice that UpdateDelegationFrom edits in place)"
	keyCreateOverRemoved = "revert of a CreateValidator that replaced a removed validator wipes the address: the removed record and its index entry are not put back (validatorCreateChange)"
	keyStatSaturation    = "a revert across UpdateValidator / RemoveValidator does not restore the statistics when they do not cover the record (saturating subtraction in ValKindStat after RemoveValidator was counted twice)"
	keyRevertFails       = "reverting to a valid snapshot panics"
	keyNotRestored       = "state after RevertToSnapshot differs from the state at Snapshot"
)

type snapRec struct {
	id      int64
	obs     rich
	rmval   bool // a RemoveValidator happened since (and is not yet reverted past)
	rmwd    bool
	ripemd  bool // the RIPEMD precompile was touched while empty
	dlg     bool // an UpdateDelegation happened since
	crdel   bool // a CreateValidator replaced a deleted record of the live map since
	statbad bool // a validator call met statistics that do not cover its record
	opIndex int
}

type oracle struct {
	stack []*snapRec
	hits  []map[string]interface{}
	// RemoveValidator took effect somewhere in this history: the removal is counted a second time by
	// IntermediateRoot (or a second RemoveValidator), after which the saturating statistics depend on
	// the order in which Go iterates validatorObjectsDirty, so even the validator root of one state is
	// not a function of the state any more
	tainted bool
}

func (o *oracle) mark(f func(*snapRec)) {
	for _, s := range o.stack {
		f(s)
	}
}

// before is called before a call is made, after when it has returned.
func (o *oracle) step(e *env, h []Op, i int, op Op, ret int64, panicked bool, msg string, preEmptyRipemd, preDeletedLive bool) (class string) {
	switch op.K {
	case "snapshot":
		if !panicked {
			o.stack = append(o.stack, &snapRec{id: ret, obs: e.rich(), opIndex: i})
		}
	case "rmval":
		if ret == 1 {
			o.tainted = true
			o.mark(func(s *snapRec) { s.rmval = true })
		}
	case "rmwd":
		if !panicked && len(op.Idx) > 0 {
			o.mark(func(s *snapRec) { s.rmwd = true })
		}
	case "upddelegation":
		if ret == 1 {
			o.mark(func(s *snapRec) { s.dlg = true })
		}
	case "createval":
		if ret == 1 && preDeletedLive {
			o.mark(func(s *snapRec) { s.crdel = true })
		}
	case "addbal":
		if op.A == 3 && bigOf(op.V).Sign() == 0 && preEmptyRipemd {
			o.mark(func(s *snapRec) { s.ripemd = true })
		}
	case "finalise", "iroot", "reopen":
		o.stack = nil
	case "revert":
		pos := -1
		for j, s := range o.stack {
			if s.id == int64(op.A) {
				pos = j
			}
		}
		if pos < 0 {
			if panicked {
				return "revert_invalid_id_panics"
			}
			return "revert_invalid_id_accepted"
		}
		rec := o.stack[pos]
		o.stack = o.stack[:pos]
		if panicked {
			o.hit(keyRevertFails, msg, h, i)
			return "revert_valid_PANIC"
		}
		now := e.rich()
		d := rec.obs.diff(now)
		var rest, all []string
		used := map[string][]string{}
		in := func(tag string, tags ...string) bool {
			for _, t := range tags {
				if t == tag {
					return true
				}
			}
			return false
		}
		for _, it := range d {
			x := it.text
			all = append(all, x)
			copyPanic := strings.Contains(x, "Copy/IntermediateRoot panics")
			switch {
			case rec.ripemd && in(it.tag, "root", "book"):
				used["ripemd"] = append(used["ripemd"], x)
			case rec.crdel && (in(it.tag, "val", "index", "stat", "valroot", "book") || copyPanic):
				used["crdel"] = append(used["crdel"], x)
			case rec.statbad && in(it.tag, "stat", "valroot"):
				used["statbad"] = append(used["statbad"], x)
			case o.tainted && !rec.rmval && (in(it.tag, "val", "index", "stat", "valroot", "book") || copyPanic):
				// aftermath of an earlier RemoveValidator: double-counted removal with saturating (and
				// iteration-order dependent) statistics, a wiped live entry that lets the trie record show
				// through, an index that lost a validator the trie still has
				used["statbad"] = append(used["statbad"], x)
			case rec.rmval && (in(it.tag, "val", "stat", "index", "valroot") || copyPanic):
				used["rmval"] = append(used["rmval"], x)
			case rec.rmwd && in(it.tag, "queue", "valroot"):
				used["rmwd"] = append(used["rmwd"], x)
			case rec.dlg && (in(it.tag, "val", "valroot") || copyPanic):
				used["dlg"] = append(used["dlg"], x)
			default:
				rest = append(rest, x)
			}
		}
		switch {
		case len(rest) > 0:
			o.hit(keyNotRestored, strings.Join(rest, " | "), h, i)
			return "revert_valid_NOT_RESTORED"
		case len(used["crdel"]) > 0:
			o.hit(keyCreateOverRemoved, strings.Join(all, " | "), h, i)
			return "revert_valid_known_create_over_removed"
		case len(used["statbad"]) > 0:
			o.hit(keyStatSaturation, strings.Join(all, " | "), h, i)
			return "revert_valid_known_statistics_saturation"
		case len(used["rmval"]) > 0:
			o.hit(keyRemoveValidator, strings.Join(all, " | "), h, i)
			return "revert_valid_known_remove_validator"
		case len(used["rmwd"]) > 0:
			o.hit(keyWithdrawOrder, strings.Join(all, " | "), h, i)
			return "revert_valid_known_withdraw_order"
		case len(used["dlg"]) > 0:
			o.hit(keyDelegationAlias, strings.Join(all, " | "), h, i)
			return "revert_valid_known_delegation_alias"
		case len(d) > 0:
			return "revert_valid_ripemd_exception"
		}
		return "revert_valid_restored"
	}
	return ""
}

func (o *oracle) hit(what, detail string, h []Op, i int) {
	if len(o.hits) >= 3 { // one history: the first findings are enough (later ones are usually consequences)
		return
	}
	o.hits = append(o.hits, map[string]interface{}{"what": what, "detail": detail, "ops": h[:i+1], "at": i})
}

// valCond evaluates, on the state before a validator call, the side condition
// under which theorem C09_revert_restores_* covers the call (create_ok /
// update_ok / get_ok / remove_ok of coq/C09/ProofsV.v); "" = not a validator call.
func valCond(e *env, o Op) string {
	st := e.st
	statOK := func() bool {
		stat, err := st.GetValidatorsStat()
		if err != nil {
			return false
		}
		for _, b := range []*state.ValKindStat{stat.GetByKind(params.KindValidator), stat.GetByKind(params.KindChamber), stat.GetByKind(params.KindHouse),
			stat.GetByRole(params.RoleChancellor), stat.GetByRole(params.RoleSenator), stat.GetByRole(params.RoleHouse)} {
			if b.GetOnlineStake().Sign() < 0 || b.GetOnlineToken().Sign() < 0 || b.GetOfflineStake().Sign() < 0 || b.GetOfflineToken().Sign() < 0 {
				return false
			}
		}
		return true
	}
	covers := func(v *state.Validator) bool {
		stat, _ := st.GetValidatorsStat()
		kind, ok := params.KindOfRole(v.Role)
		if !ok {
			return true
		}
		for _, b := range []*state.ValKindStat{stat.GetByKind(params.KindValidator), stat.GetByKind(kind), stat.GetByRole(v.Role)} {
			s, t := b.GetOnlineStake(), b.GetOnlineToken()
			if v.Status != params.ValidatorOnline {
				s, t = b.GetOfflineStake(), b.GetOfflineToken()
			}
			if v.Stake.Cmp(s) > 0 || v.Token.Cmp(t) > 0 {
				return false
			}
		}
		return true
	}
	switch o.K {
	case "createval", "updval", "getval", "rmval":
	default:
		return ""
	}
	a := valAddr(o.A)
	v, live, del := st.VerifC09PeekValidator(a)
	in := st.VerifC09Internals()
	switch o.K {
	case "createval":
		switch {
		case live && !del:
			return "ok"
		case live && del:
			if fixedCreate {
				return "ok"
			}
			return "fail:create over a deleted live record"
		case v != nil:
			return "fail:lazy load"
		case in.Index[a] && !fixedCreate:
			return "fail:address already in index"
		case !statOK():
			return "fail:negative statistics"
		}
		return "ok"
	case "updval", "rmval":
		switch {
		case live && del:
			if o.K == "rmval" && !fixedRemove {
				return "fail:remove of an already deleted record"
			}
			return "ok"
		case !live && v != nil:
			return "fail:lazy load"
		case !live:
			return "ok"
		case !in.Index[a]:
			return "fail:not in index"
		case !statOK():
			return "fail:negative statistics"
		case !covers(v):
			return "fail:statistics do not cover the record"
		}
		return "ok"
	case "getval":
		if !live && v != nil {
			return "fail:lazy load"
		}
		return "ok"
	}
	return ""
}

// runHistory executes a history on a fresh StateDB.  It returns the recorded
// trace (per call: return value and observation, or ["-1"] for a panic), the
// oracle's findings and the outcome classes reached.
var keepFull bool

func runHistory(h []Op, withOracle bool) (trace [][]string, or *oracle, classes []string, executed []Op) {
	e := newEnv()
	or = &oracle{}
	for i, op := range h {
		pre, preDel := false, false
		if op.K == "addbal" && op.A == 3 {
			pre = e.st.Empty(addrOf(3))
		}
		if op.K == "createval" && op.A >= 1 && op.A <= 4 {
			_, live, del := e.st.VerifC09PeekValidator(valAddr(op.A))
			preDel = live && del
		}
		if withOracle && len(or.stack) > 0 {
			if c := valCond(e, op); c != "" {
				classes = append(classes, "side_condition_"+op.K+":"+c)
				if strings.HasPrefix(c, "fail:statistics") || strings.HasPrefix(c, "fail:negative") || strings.HasPrefix(c, "fail:remove of an already") {
					or.mark(func(s *snapRec) { s.statbad = true })
				}
			}
		}
		var beforeReopen []string
		if withOracle && op.K == "reopen" {
			for _, n := range richAddrs() {
				beforeReopen = append(beforeReopen, e.delegationView(n))
			}
		}
		ret, panicked, msg := e.exec(op)
		executed = append(executed, op)
		if withOracle && !panicked {
			for k, n := range richAddrs() {
				if ok, d := e.st.VerifC09DelegationsConsistent(addrOf(n)); !ok {
					or.hit("an account's delegation list does not hash to its DelegationsHash", fmt.Sprintf("account %d after call %d: %s", n, i, d), h, i)
					classes = append(classes, "delegation_list_INCONSISTENT")
					break
				}
				if beforeReopen != nil && e.st.Exist(addrOf(n)) {
					if now := e.delegationView(n); beforeReopen[k] != "absent" && now != beforeReopen[k] {
						or.hit("an account's delegation list changed across Commit + reopen", fmt.Sprintf("account %d: %s  ->  %s", n, beforeReopen[k], now), h, i)
						classes = append(classes, "delegation_list_CHANGED_BY_COMMIT")
						break
					}
				}
			}
		}
		if withOracle {
			if c := or.step(e, h, i, op, ret, panicked, msg, pre, preDel); c != "" {
				classes = append(classes, c)
			}
		}
		if panicked {
			trace = append(trace, []string{"-1"})
			classes = append(classes, "panic:"+op.K)
			return
		}
		if withOracle {
			for _, n := range uAddr {
				if !e.st.VerifC09StorageCached(addrOf(n)) {
					or.hit("a slot with a dirty or pending value has no cached committed value (originStorage): the model's merge of originStorage and the storage trie is not sound any more", fmt.Sprintf("account %d after call %d", n, i), h, i)
					classes = append(classes, "storage_cache_assumption_BROKEN")
					break
				}
			}
		}
		rec := []string{fmt.Sprint(ret)}
		func() {
			defer func() {
				if r := recover(); r != nil {
					b, _ := json.Marshal(History{Ops: h[:i+1]})
					fmt.Fprintf(os.Stderr, "observation panicked after call %d: %v\nhistory: %s\n", i, r, b)
					panic(r)
				}
			}()
			full := append(rec, e.obsAfter(op)...)
			if keepFull {
				rec = full
			} else {
				rec = []string{cks(full)}
			}
		}()
		trace = append(trace, rec)
	}
	return
}

// ---- generation ------------------------------------------------------------

var bigVals = []string{"0", "1", "2", "5", "100", "18446744073709551615", "18446744073709551616",
	"57896044618658097711785492504343953926634992332820282019728792003956564819968",
	"115792089237316195423570985008687907853269984665640564039457584007913129639935"}

type gen struct {
	r     *vf.Rng
	e     *env // shadow execution, so that arguments can depend on the state
	ops   []Op
	stack []int64 // ids the generator believes valid
	stale []int64
	dead  bool
	dlg   bool     // oracle-only histories may call UpdateDelegation
	tomb  []uint64 // accounts self-destructed and then funded (tombstones with a balance after Finalise)
}

func (g *gen) emit(o Op) {
	if g.dead {
		return
	}
	ret, panicked, _ := g.e.exec(o)
	g.ops = append(g.ops, o)
	if panicked {
		g.dead = true
		return
	}
	switch o.K {
	case "snapshot":
		g.stack = append(g.stack, ret)
	case "revert":
		for j, id := range g.stack {
			if id == int64(o.A) {
				g.stale = append(g.stale, g.stack[j:]...)
				g.stack = g.stack[:j]
				break
			}
		}
	case "finalise", "iroot", "reopen":
		g.stale = append(g.stale, g.stack...)
		g.stack = nil
	}
}

func (g *gen) addr() uint64 {
	if g.r.Chance(6) {
		return 3
	}
	return []uint64{1, 2, 4, 5, 6}[g.r.Intn(5)]
}
func (g *gen) amount() string {
	switch g.r.Intn(6) {
	case 0:
		return "0"
	case 1:
		return bigVals[g.r.Intn(len(bigVals))]
	default:
		return fmt.Sprint(1 + g.r.Intn(9))
	}
}

func (g *gen) accountOp() {
	r := g.r
	a := g.addr()
	switch r.Intn(18) {
	case 17:
		// value sent to a contract after its SELFDESTRUCT in the same transaction: Finalise leaves a
		// deleted object that still holds a balance; a later CreateAccount / GetOrNewStateObject must
		// not hand that balance to the new account (fix af1e035)
		if !g.e.st.Exist(addrOf(a)) {
			g.emit(Op{K: "setnonce", A: a, B: 1})
		}
		g.emit(Op{K: "suicide", A: a})
		g.emit(Op{K: "addbal", A: a, V: fmt.Sprint(1 + r.Intn(9))})
		g.tomb = append(g.tomb, a)
	case 0, 1, 2:
		g.emit(Op{K: "addbal", A: a, V: g.amount()})
	case 3:
		// never below zero (CanTransfer guards every real subtraction; a negative balance cannot be RLP-encoded)
		v := bigOf(g.amount())
		if cur := g.e.st.GetBalance(addrOf(a)); v.Cmp(cur) > 0 {
			v = new(big.Int).Set(cur)
			if r.Bool() && v.Sign() > 0 {
				v.Sub(v, big.NewInt(1))
			}
		}
		g.emit(Op{K: "subbal", A: a, V: v.String()})
	case 4:
		g.emit(Op{K: "setbal", A: a, V: g.amount()})
	case 5, 6:
		g.emit(Op{K: "setnonce", A: a, B: uint64(r.Intn(4))})
	case 7:
		n := r.Intn(4)
		g.emit(Op{K: "setcode", A: a, Code: r.Bytes(n)})
	case 8, 9, 10:
		v := fmt.Sprint(r.Intn(4))
		if r.Chance(10) {
			v = bigVals[r.Intn(len(bigVals))]
		}
		g.emit(Op{K: "setstate", A: a, B: uKey[r.Intn(3)], V: v})
	case 11:
		g.emit(Op{K: "suicide", A: a})
	case 12:
		// as in evm.create / evm.Call, CreateAccount is always followed by a change of the new object
		// (resetObjectChange alone does not mark the address dirty, exactly as upstream)
		if len(g.tomb) > 0 && r.Chance(60) {
			a = g.tomb[r.Intn(len(g.tomb))]
		}
		g.emit(Op{K: "createacct", A: a})
		if r.Bool() {
			g.emit(Op{K: "setnonce", A: a, B: 1})
		} else {
			// a zero amount would only touch an EMPTY new object; with a carried-over balance it would
			// leave the re-created account unmarked, and Commit then never stores the replaced object's
			// storage trie (a Commit-level loss outside this property)
			v := g.amount()
			if v == "0" {
				v = "1"
			}
			g.emit(Op{K: "addbal", A: a, V: v})
		}
	case 13:
		g.emit(Op{K: "addlog", A: uint64(1 + r.Intn(5))})
	case 14:
		g.emit(Op{K: "addpre", A: uPre[r.Intn(2)], B: uint64(1 + r.Intn(5))})
	case 15:
		if r.Bool() {
			g.emit(Op{K: "addrefund", A: uint64(r.Intn(5))})
		} else {
			cur := g.e.st.GetRefund()
			x := uint64(r.Intn(int(cur) + 1))
			if r.Chance(4) {
				x = cur + 1
			}
			g.emit(Op{K: "subrefund", A: x})
		}
	case 16:
		d := big.NewInt(int64(r.Intn(7) - 3))
		if cur, _, ok := g.e.st.VerifC09Delegations(addrOf(a)); ok && new(big.Int).Add(cur, d).Sign() < 0 {
			d = new(big.Int).Neg(cur)
		} else if !ok && d.Sign() < 0 {
			d = new(big.Int)
		}
		g.emit(Op{K: "upddlg", A: a, B: uint64(201 + r.Intn(3)), V: d.String(), Del: r.Chance(35)})
	}
}

// delegated: whole stake units d has delegated to v (0 if the list is damaged and cannot be read)
func delegated(v *state.Validator, d common.Address) (have int64) {
	defer func() {
		if recover() != nil {
			have = 0
		}
	}()
	if df := v.GetDelegationFrom(d); df != nil {
		have = new(big.Int).Div(df.Token, params.StakeUint).Int64()
	}
	return
}

func (g *gen) stakeTok() (string, string) {
	r := g.r
	stake := fmt.Sprint(r.Intn(20))
	tok := fmt.Sprint(r.Intn(50))
	switch r.Intn(12) {
	case 0:
		stake, tok = "0", "0"
	case 1:
		tok = "18446744073709551616" // low 64 bits zero
		stake = "0"
	case 2:
		tok = "1000000000000000000000"
	}
	return stake, tok
}

func (g *gen) validatorOp(findings bool) {
	r := g.r
	id := uVal[r.Intn(4)]
	if g.dlg && r.Chance(10) {
		g.emit(Op{K: "updvalinplace", A: id, B: uint64(r.Intn(5)), C: uint64(1 + r.Intn(9))})
		return
	}
	if g.dlg && r.Chance(45) {
		// never take out more than the delegation holds (the staking handlers check the amount);
		// often the whole delegation (status Delete: the entry leaves both lists)
		d := uint64(501 + r.Intn(3))
		amount := int64(r.Intn(5) - 2)
		if v := g.e.st.GetValidatorByMainAddr(valAddr(id)); v != nil {
			have := delegated(v, addrOf(d))
			if have > 0 && r.Chance(40) {
				amount = -have
			}
			if amount < 0 && -amount > have {
				amount = -have
			}
		}
		g.emit(Op{K: "upddelegation", A: id, B: d, V: fmt.Sprint(amount)})
		return
	}
	k := r.Intn(14)
	switch {
	case k < 4:
		s, t := g.stakeTok()
		g.emit(Op{K: "createval", A: id, B: uint64(1 + r.Intn(3)), C: uint64(r.Intn(2)), V: s, W: t})
	case k < 9:
		s, t := g.stakeTok()
		if g.dlg {
			// with delegations around, stake and token stay what the delegations add up to
			if v := g.e.st.GetValidatorByMainAddr(valAddr(id)); v != nil {
				s, t = v.Stake.String(), v.Token.String()
			}
		}
		g.emit(Op{K: "updval", A: id, B: uint64(1 + r.Intn(3)), C: uint64(r.Intn(2)), V: s, W: t, P: uint64(r.Intn(6)), Inp: r.Bool()})
	case k < 10:
		g.emit(Op{K: "getval", A: id})
	case k < 12:
		g.emit(Op{K: "addwd", A: uint64(1 + r.Intn(3)), B: uint64(r.Intn(3)), P: uint64(r.Intn(9))})
	case k < 13:
		if !findings {
			g.emit(Op{K: "getval", A: id})
			return
		}
		g.emit(Op{K: "rmval", A: id})
	default:
		if !findings {
			g.emit(Op{K: "addwd", A: uint64(1 + r.Intn(3)), B: uint64(r.Intn(3)), P: uint64(r.Intn(9))})
			return
		}
		n := g.e.st.GetWithdrawQueue().Len()
		var idx []int
		for i := 0; i < n; i++ {
			if r.Chance(40) {
				idx = append(idx, i)
			}
		}
		if r.Chance(30) { // unordered
			for i := range idx {
				j := r.Intn(i + 1)
				idx[i], idx[j] = idx[j], idx[i]
			}
		}
		if r.Chance(3) {
			idx = append(idx, n+r.Intn(2))
		}
		g.emit(Op{K: "rmwd", Idx: idx})
	}
}

func (g *gen) revert() {
	r := g.r
	switch {
	case len(g.stack) > 0 && r.Chance(96):
		// mostly the innermost frame, sometimes an outer one
		j := len(g.stack) - 1
		if r.Chance(25) {
			j = r.Intn(len(g.stack))
		}
		g.emit(Op{K: "revert", A: uint64(g.stack[j])})
	case len(g.stale) > 0 && r.Chance(70):
		g.emit(Op{K: "revert", A: uint64(g.stale[r.Intn(len(g.stale))])})
	default:
		g.emit(Op{K: "revert", A: uint64(r.Intn(40))})
	}
}

// frame mimics one EVM call frame: snapshot, work, nested frames, revert or keep.
func (g *gen) frame(depth int, valShare int, findings bool) {
	if g.dead || len(g.ops) > 400 {
		return
	}
	r := g.r
	g.emit(Op{K: "snapshot"})
	my := int64(-1)
	if len(g.stack) > 0 {
		my = g.stack[len(g.stack)-1]
	}
	n := 1 + r.Heavy(10)
	for i := 0; i < n; i++ {
		switch {
		case depth < 12 && r.Chance(22):
			g.frame(depth+1, valShare, findings)
		case r.Chance(valShare):
			g.validatorOp(findings)
		default:
			g.accountOp()
		}
	}
	if r.Chance(45) && my >= 0 {
		g.emit(Op{K: "revert", A: uint64(my)})
	}
}

// storageBlock: a few contracts, some with storage committed by a previous block, one created in
// the block; then ONE block of transactions that only Finalise in between (no IntermediateRoot /
// Commit), each writing a few slots inside nested frames.  Values come from a tiny pool per slot
// that always holds the slot's committed value, zero and everything written to it earlier in the
// block, so that "write the committed value back in a later transaction, snapshot, write, revert"
// (dirty over pending over origin) happens often.
func (g *gen) storageBlock() {
	r := g.r
	type slot struct{ a, k uint64 }
	old := []uint64{1, 2}
	slots := []slot{}
	pool := map[slot][]string{}
	for _, a := range old {
		g.emit(Op{K: "setnonce", A: a, B: 1})
		for _, k := range uKey[:2] {
			sl := slot{a, k}
			slots = append(slots, sl)
			v := "0"
			if r.Chance(60) {
				v = fmt.Sprint(1 + r.Intn(3))
				g.emit(Op{K: "setstate", A: a, B: k, V: v})
			}
			pool[sl] = []string{v, "0"}
		}
	}
	g.emit(Op{K: "reopen", Del: true}) // the previous block is committed
	fresh := uint64(4)
	for _, k := range uKey[:2] {
		sl := slot{fresh, k}
		slots = append(slots, sl)
		pool[sl] = []string{"0", "0"}
	}
	store := func() {
		sl := slots[r.Intn(len(slots))]
		p := pool[sl]
		var v string
		switch {
		case r.Chance(35):
			v = p[0] // the value the block started with
		case r.Chance(75):
			v = p[r.Intn(len(p))]
		default:
			v = fmt.Sprint(1 + r.Intn(3))
		}
		pool[sl] = append(pool[sl], v)
		g.emit(Op{K: "setstate", A: sl.a, B: sl.k, V: v})
	}
	var frame func(depth int)
	frame = func(depth int) {
		if g.dead {
			return
		}
		g.emit(Op{K: "snapshot"})
		my := int64(-1)
		if len(g.stack) > 0 {
			my = g.stack[len(g.stack)-1]
		}
		n := 1 + r.Intn(3)
		for i := 0; i < n; i++ {
			if depth < 3 && r.Chance(25) {
				frame(depth + 1)
			} else {
				store()
			}
		}
		if r.Chance(60) && my >= 0 {
			g.emit(Op{K: "revert", A: uint64(my)})
		}
	}
	txs := 2 + r.Intn(5)
	for t := 0; t < txs && !g.dead; t++ {
		g.emit(Op{K: "prepare", A: uTh[r.Intn(3)], B: uint64(t)})
		g.emit(Op{K: "snapshot"})
		outer := int64(-1)
		if len(g.stack) > 0 {
			outer = g.stack[len(g.stack)-1]
		}
		if t == 0 {
			g.emit(Op{K: "setnonce", A: fresh, B: 1}) // a contract created in this block
		}
		for i, n := 0, 1+r.Intn(3); i < n; i++ {
			store()
		}
		for i, n := 0, 1+r.Intn(2); i < n; i++ {
			frame(1)
		}
		if r.Chance(10) && outer >= 0 {
			g.emit(Op{K: "revert", A: uint64(outer)})
		}
		g.emit(Op{K: "finalise", Del: true})
	}
}

// delegationBlock (modelled: account side through UpdateDelegator): accounts with 2-4 delegations made
// in earlier finalised transactions (some committed by a previous block); then transactions whose
// frames withdraw completely (delete) or partly at every position of the sorted list, add new
// targets in front, in the middle and at the end, nested, mostly reverted; then Commit + reopen.
func (g *gen) delegationBlock() {
	r := g.r
	accts := []uint64{1, 2, 4}
	targets := []uint64{201, 202, 203, 204, 205}
	for _, a := range accts {
		g.emit(Op{K: "addbal", A: a, V: "50"})
	}
	build := func(a uint64) {
		n := 2 + r.Intn(3)
		perm := append([]uint64{}, targets...)
		for i := range perm {
			j := r.Intn(i + 1)
			perm[i], perm[j] = perm[j], perm[i]
		}
		for _, t := range perm[:n] {
			g.emit(Op{K: "upddlg", A: a, B: t, V: fmt.Sprint(1 + r.Intn(4))})
		}
	}
	build(accts[0])
	g.emit(Op{K: "finalise", Del: true})
	if r.Chance(60) {
		g.emit(Op{K: "reopen", Del: true})
	}
	build(accts[1])
	g.emit(Op{K: "finalise", Del: true})
	build(accts[2])
	g.emit(Op{K: "finalise", Del: true})
	change := func() {
		a := accts[r.Intn(len(accts))]
		bal, list, ok := g.e.st.VerifC09Delegations(addrOf(a))
		if !ok {
			return
		}
		have := bal.Int64()
		switch {
		case len(list) > 0 && r.Chance(55): // withdraw, completely or partly, at a chosen position
			t := list[r.Intn(len(list))].Big().Uint64()
			amt := int64(0)
			if have > 0 {
				amt = 1 + int64(r.Intn(int(have)))
			}
			g.emit(Op{K: "upddlg", A: a, B: t, V: fmt.Sprint(-amt), Del: r.Chance(65)})
		default: // delegate to a (possibly new) target
			g.emit(Op{K: "upddlg", A: a, B: targets[r.Intn(len(targets))], V: fmt.Sprint(1 + r.Intn(3))})
		}
	}
	var frame func(depth int)
	frame = func(depth int) {
		if g.dead {
			return
		}
		g.emit(Op{K: "snapshot"})
		my := int64(-1)
		if len(g.stack) > 0 {
			my = g.stack[len(g.stack)-1]
		}
		for i, n := 0, 1+r.Intn(3); i < n; i++ {
			if depth < 3 && r.Chance(25) {
				frame(depth + 1)
			} else {
				change()
			}
		}
		if r.Chance(65) && my >= 0 {
			g.emit(Op{K: "revert", A: uint64(my)})
		}
	}
	for t, txs := 0, 2+r.Intn(4); t < txs && !g.dead; t++ {
		g.emit(Op{K: "prepare", A: uTh[r.Intn(3)], B: uint64(t)})
		g.emit(Op{K: "snapshot"})
		if r.Bool() {
			change()
		}
		for i, n := 0, 1+r.Intn(2); i < n; i++ {
			frame(1)
		}
		g.emit(Op{K: "finalise", Del: true})
		if r.Chance(20) {
			g.emit(Op{K: "reopen", Del: true})
		}
	}
}

func genHistory(r *vf.Rng, style int, dlg bool) []Op {
	g := &gen{r: r, e: newEnv(), dlg: dlg}
	findings := r.Chance(12)
	valShare := []int{0, 15, 35, 70}[r.Intn(4)]
	if dlg {
		valShare = 60
		// validators with some delegations, finalised, so that later calls update or remove existing entries
		for _, d := range uDlg {
			g.emit(Op{K: "addbal", A: d, V: "100"}) // the delegator accounts exist
		}
		for id := uint64(1); id <= 4; id++ {
			g.emit(Op{K: "createval", A: id, B: uint64(1 + r.Intn(3)), C: 1, V: "10", W: "1000"})
			for _, d := range uDlg {
				if r.Chance(70) {
					g.emit(Op{K: "upddelegation", A: id, B: d, V: fmt.Sprint(1 + r.Intn(3))})
				}
			}
			if id == 2 && r.Bool() {
				g.emit(Op{K: "reopen", Del: true, Lazy: r.Bool()}) // some delegations come from a committed block
			}
		}
		g.emit(Op{K: "finalise", Del: true})
	}
	switch style {
	case 0: // a block: transactions with nested frames, finalised one by one
		txs := 1 + r.Heavy(8)
		for t := 0; t < txs && !g.dead; t++ {
			g.emit(Op{K: "prepare", A: uTh[r.Intn(3)], B: uint64(t)})
			g.emit(Op{K: "snapshot"}) // the miner's per-transaction snapshot
			outer := int64(-1)
			if len(g.stack) > 0 {
				outer = g.stack[len(g.stack)-1]
			}
			g.accountOp()
			calls := 1 + r.Intn(3)
			for c := 0; c < calls; c++ {
				g.frame(1, valShare, findings)
			}
			if r.Chance(15) && outer >= 0 {
				g.emit(Op{K: "revert", A: uint64(outer)})
			}
			switch r.Intn(10) {
			case 0:
				g.emit(Op{K: "iroot", Del: r.Chance(80)})
			case 1:
				g.emit(Op{K: "reopen", Del: r.Chance(80), Lazy: g.dlg && r.Bool()})
			default:
				g.emit(Op{K: "finalise", Del: r.Chance(85)})
			}
		}
	case 2:
		g.storageBlock()
	case 3:
		g.delegationBlock()
	default: // op soup
		n := 4 + r.Heavy(120)
		for i := 0; i < n && !g.dead; i++ {
			switch x := r.Intn(100); {
			case x < 14:
				g.emit(Op{K: "snapshot"})
			case x < 26:
				if len(g.stack) == 0 && r.Chance(85) {
					g.accountOp()
				} else {
					g.revert()
				}
			case x < 31:
				g.emit(Op{K: "finalise", Del: r.Chance(80)})
			case x < 33:
				g.emit(Op{K: "iroot", Del: r.Chance(80)})
			case x < 35:
				g.emit(Op{K: "reopen", Del: r.Chance(80), Lazy: g.dlg && r.Bool()})
			case x < 37:
				g.emit(Op{K: "prepare", A: uTh[r.Intn(3)], B: uint64(r.Intn(4))})
			case x < 37+valShare*60/100:
				g.validatorOp(findings)
			default:
				g.accountOp()
			}
		}
	}
	if !g.dead {
		// close the block and look at what was written
		if r.Chance(70) {
			g.emit(Op{K: "reopen", Del: r.Chance(80), Lazy: g.dlg && r.Bool()})
		} else {
			g.emit(Op{K: "iroot", Del: r.Chance(80)})
		}
	}
	return g.ops
}

// ---- exhaustive small scope (thorough tier) --------------------------------

// symbols of the small-scope alphabet; reverts are resolved against the ids
// that are valid at that point of the sequence
var smallAlphabet = []string{"store1", "store0", "pay", "kill", "snap", "revin", "revout", "fin", "val"}

func (g *gen) symbol(sym string) {
	switch sym {
	case "store1":
		g.emit(Op{K: "setstate", A: 1, B: 1, V: "1"})
	case "store0":
		g.emit(Op{K: "setstate", A: 1, B: 1, V: "0"})
	case "pay":
		g.emit(Op{K: "addbal", A: 1, V: "1"})
	case "kill":
		g.emit(Op{K: "suicide", A: 1})
	case "snap":
		g.emit(Op{K: "snapshot"})
	case "revin":
		if len(g.stack) > 0 {
			g.emit(Op{K: "revert", A: uint64(g.stack[len(g.stack)-1])})
		} else {
			g.emit(Op{K: "revert", A: 0})
		}
	case "revout":
		if len(g.stack) > 0 {
			g.emit(Op{K: "revert", A: uint64(g.stack[0])})
		} else if len(g.stale) > 0 {
			g.emit(Op{K: "revert", A: uint64(g.stale[0])})
		} else {
			g.emit(Op{K: "revert", A: 1})
		}
	case "fin":
		g.emit(Op{K: "finalise", Del: true})
	case "vcreate":
		g.emit(Op{K: "createval", A: 1, B: 1, C: 1, V: "3", W: "30"})
	case "vcopy", "vinS", "vinT", "vinR", "vinI":
		// update of validator 1: with a fresh copy, or in place changing stake+token / status / role / an ignored field
		role, status, stake, token, pay := uint64(1), uint64(1), int64(3), int64(30), uint64(0)
		if v := g.e.st.GetValidatorByMainAddr(valAddr(1)); v != nil {
			role, status, stake, token, pay = uint64(v.Role), uint64(v.Status), v.Stake.Int64(), v.Token.Int64(), v.RewardsLastSettled
		}
		switch sym {
		case "vcopy":
			stake, token = stake+1, token+10
		case "vinS":
			stake, token = stake+2, token+20
		case "vinT":
			status = 1 - status
		case "vinR":
			role = role%3 + 1
		case "vinI":
			pay++
		}
		g.emit(Op{K: "updval", A: 1, B: role, C: status, V: fmt.Sprint(stake), W: fmt.Sprint(token), P: pay, Inp: sym != "vcopy"})
	case "vremove":
		g.emit(Op{K: "rmval", A: 1})
	case "vdlg": // implementation-only
		g.emit(Op{K: "upddelegation", A: 1, B: 501, V: "1"})
	case "vwd":
		g.emit(Op{K: "addwd", A: 1, B: uint64(len(g.ops) % 3), P: 4})
	case "vrmwd":
		g.emit(Op{K: "rmwd", Idx: []int{0}})
	case "val":
		if g.e.st.GetValidatorByMainAddr(valAddr(1)) == nil {
			g.emit(Op{K: "createval", A: 1, B: 1, C: 1, V: "3", W: "30"})
		} else {
			g.emit(Op{K: "updval", A: 1, B: 2, C: 0, V: "4", W: "40", P: 1})
		}
	}
}

// one validator: every journal entry kind that points at a live object (create, update, delete,
// withdraw add / remove) against the copy and the in-place caller convention
var validatorAlphabet = []string{"vcreate", "vcopy", "vinS", "vinT", "vinR", "vinI", "vremove", "snap", "revin", "revout"}

// randomSeq: one random sequence of the given length over alphabet, after a fixed prefix
func randomSeq(r *vf.Rng, prefix, alphabet []string, n int) []Op {
	g := &gen{e: newEnv()}
	for _, s := range prefix {
		g.symbol(s)
	}
	for i := 0; i < n && !g.dead; i++ {
		sym := alphabet[r.Intn(len(alphabet))]
		if (sym == "revin" || sym == "revout") && len(g.stack) == 0 {
			sym = "snap"
		}
		g.symbol(sym)
	}
	return g.ops
}

// exhaustive calls f with every sequence over alphabet of length 1..maxLen.
func exhaustive(alphabet []string, maxLen int, f func([]Op)) {
	var rec func(prefix []string)
	rec = func(prefix []string) {
		if len(prefix) > 0 {
			g := &gen{e: newEnv()}
			for _, s := range prefix {
				g.symbol(s)
			}
			f(g.ops)
			if g.dead {
				return // every extension would stop at the same panic
			}
		}
		if len(prefix) == maxLen {
			return
		}
		for _, s := range alphabet {
			rec(append(append([]string{}, prefix...), s))
		}
	}
	rec(nil)
}

// ---- Coq printing ----------------------------------------------------------

func zc(s string) string {
	if s == "" {
		s = "0"
	}
	return "(" + s + ")%Z"
}
func bc(b bool) string {
	if b {
		return "true"
	}
	return "false"
}

func opCoq(o Op) string {
	switch o.K {
	case "addbal":
		return fmt.Sprintf("OAddBalance %d %s", o.A, zc(o.V))
	case "subbal":
		return fmt.Sprintf("OSubBalance %d %s", o.A, zc(o.V))
	case "setbal":
		return fmt.Sprintf("OSetBalance %d %s", o.A, zc(o.V))
	case "setnonce":
		return fmt.Sprintf("OSetNonce %d %d", o.A, o.B)
	case "setcode":
		xs := make([]string, len(o.Code))
		for i, c := range o.Code {
			xs[i] = fmt.Sprint(c)
		}
		return fmt.Sprintf("OSetCode %d [%s]", o.A, strings.Join(xs, ";"))
	case "setstate":
		v := o.V
		if v == "" {
			v = "0"
		}
		return fmt.Sprintf("OSetState %d %d %s", o.A, o.B, v)
	case "suicide":
		return fmt.Sprintf("OSuicide %d", o.A)
	case "createacct":
		return fmt.Sprintf("OCreateAccount %d", o.A)
	case "addlog":
		return fmt.Sprintf("OAddLog %d", o.A)
	case "addpre":
		return fmt.Sprintf("OAddPreimage %d %d", o.A, o.B)
	case "addrefund":
		return fmt.Sprintf("OAddRefund %d", o.A)
	case "subrefund":
		return fmt.Sprintf("OSubRefund %d", o.A)
	case "upddlg":
		return fmt.Sprintf("OUpdateDelegator %d %d %s %s", o.A, o.B, zc(o.V), bc(o.Del))
	case "prepare":
		return fmt.Sprintf("OPrepare %d %d", o.A, o.B)
	case "createval":
		return fmt.Sprintf("OCreateValidator %d %d %d %s %s", o.A, o.B, o.C, zc(o.V), zc(o.W))
	case "updval":
		return fmt.Sprintf("OUpdateVal %d %d %d %s %s %d", o.A, o.B, o.C, zc(o.V), zc(o.W), o.P)
	case "rmval":
		return fmt.Sprintf("ORemoveValidator %d", o.A)
	case "getval":
		return fmt.Sprintf("OGetValidator %d", o.A)
	case "addwd":
		return fmt.Sprintf("OAddWithdraw (mkW %d %d %d)", o.A, o.B, o.P)
	case "rmwd":
		xs := make([]string, len(o.Idx))
		for i, c := range o.Idx {
			xs[i] = fmt.Sprintf("%d%%nat", c)
		}
		return fmt.Sprintf("ORemoveWithdraws [%s]", strings.Join(xs, ";"))
	case "snapshot":
		return "OSnapshot"
	case "revert":
		return fmt.Sprintf("ORevert %d", o.A)
	case "finalise":
		return "OFinalise " + bc(o.Del)
	case "iroot":
		return "OIntermediateRoot " + bc(o.Del)
	case "reopen":
		return "OReopen " + bc(o.Del)
	}
	panic("opCoq " + o.K)
}

// treeFixed reports whether the tree under test carries the repair of the two
// modelled validator-journal reverts (fixes/C09_validator_journal_reverts.diff):
// a revert across RemoveValidator gives the validator back, and a revert across
// RemoveWithdrawRecords gives the queue back in its old order.
func treeFixed() (rmval, wdorder, create, remove bool) {
	e := newEnv()
	e.exec(Op{K: "createval", A: 1, B: 1, C: 1, V: "10", W: "1000"})
	e.exec(Op{K: "finalise", Del: true})
	id, _, _ := e.exec(Op{K: "snapshot"})
	e.exec(Op{K: "rmval", A: 1})
	e.exec(Op{K: "revert", A: uint64(id)})
	rmval = e.st.GetValidatorByMainAddr(valAddr(1)) != nil
	e = newEnv()
	for i := uint64(0); i < 3; i++ {
		e.exec(Op{K: "addwd", A: i + 1, B: i, P: i})
	}
	e.exec(Op{K: "finalise", Del: true})
	id, _, _ = e.exec(Op{K: "snapshot"})
	e.exec(Op{K: "rmwd", Idx: []int{0}})
	e.exec(Op{K: "revert", A: uint64(id)})
	q := e.st.GetWithdrawQueue().Records
	wdorder = len(q) == 3 && q[0].Nonce == 0 && q[1].Nonce == 1 && q[2].Nonce == 2
	// fixes/C09_validator_create_revert.diff: the revert of a CreateValidator that replaced a removed
	// validator puts the removed record and its index entry back
	e = newEnv()
	e.exec(Op{K: "createval", A: 1, B: 1, C: 1, V: "9", W: "13"})
	e.exec(Op{K: "rmval", A: 1})
	id, _, _ = e.exec(Op{K: "snapshot"})
	e.exec(Op{K: "createval", A: 1, B: 3, V: "7", W: "70"})
	e.exec(Op{K: "revert", A: uint64(id)})
	create = e.st.VerifC09PeekLive(valAddr(1))
	// fix 464c034: RemoveValidator drops the index entry at once and refuses a removed record
	e = newEnv()
	e.exec(Op{K: "createval", A: 1, B: 1, C: 1, V: "9", W: "13"})
	e.exec(Op{K: "rmval", A: 1})
	again, _, _ := e.exec(Op{K: "rmval", A: 1})
	remove = !e.st.VerifC09Internals().Index[valAddr(1)] && again == 0
	return
}

var fixedFlag, fixedCreate, fixedRemove bool

func caseCoq(ops []Op, trace [][]string) string {
	var sb strings.Builder
	sb.WriteString("mkCase (mkFx " + bc(fixedFlag) + " " + bc(fixedCreate) + " " + bc(fixedRemove) + ") [")
	for i, o := range ops {
		if i > 0 {
			sb.WriteString("; ")
		}
		sb.WriteString(opCoq(o))
	}
	sb.WriteString("]\n [")
	for i, t := range trace {
		if i > 0 {
			sb.WriteString(";")
		}
		sb.WriteString(strings.Join(t, ";"))
	}
	sb.WriteString("]%Z")
	return sb.String()
}

// valid checks that a stored history only uses what exec and opCoq understand.
func valid(h []Op) bool {
	for _, o := range h {
		switch o.K {
		case "createval":
			if o.A < 1 || o.A > 4 {
				return false
			}
		case "revert":
			if o.A > 1<<40 {
				return false
			}
		}
	}
	return true
}

func implOnly(h []Op) bool {
	for _, o := range h {
		if o.K == "upddelegation" || o.K == "updvalinplace" || o.Lazy {
			return true
		}
	}
	return false
}

func loadCorpus(dir string) []History {
	var out []History
	files, _ := filepath.Glob(filepath.Join(dir, "*.json"))
	sort.Strings(files)
	for _, f := range files {
		b, err := ioutil.ReadFile(f)
		if err != nil {
			continue
		}
		var h History
		if json.Unmarshal(b, &h) == nil && len(h.Ops) > 0 && valid(h.Ops) {
			h.Comment = "corpus:" + filepath.Base(f)
			out = append(out, h)
		}
	}
	return out
}

func opsKey(ops []Op) string {
	b, _ := json.Marshal(ops)
	return string(b)
}

func doGen(seed uint64, n int, outDir, corpusDir, tier string) {
	// vf.NewRng(seed+1) is vf.NewRng(seed) advanced by one draw (the shards of one run use seeds
	// 7919 apart); start from a mixed value so that the streams of different seeds do not overlap
	r := vf.NewRng(vf.NewRng(seed).U64())
	res := vf.NewResult("C09", seed)
	fa, fb, fc, fr := treeFixed()
	fixedFlag, fixedCreate, fixedRemove = fa, fc, fr
	res.Extra["tree_has_remove_once_repair"] = fr
	res.Extra["tree_has_remove_validator_repair"] = fa
	res.Extra["tree_has_withdraw_order_repair"] = fb
	res.Extra["tree_has_create_revert_repair"] = fc
	if fa != fb {
		res.Count("tree_partially_repaired")
	}
	var sb strings.Builder
	sb.WriteString("From VF.C09 Require Import Model.\nLocal Open Scope N_scope.\nDefinition cases : list case := [\n")
	distinct := map[string]bool{}
	count := 0
	maxDepth := 0
	add := func(h History) {
		trace, or, classes, executed := runHistory(h.Ops, true)
		if count > 0 {
			sb.WriteString(";\n")
		}
		sb.WriteString(caseCoq(executed, trace))
		count++
		hasRevert := false
		for _, c := range classes {
			res.Count(c)
			if strings.HasPrefix(c, "revert_valid") {
				hasRevert = true
			}
		}
		_ = hasRevert
		if hasRevert {
			distinct[opsKey(executed)] = true
		}
		depth, cur := 0, 0
		for _, o := range executed {
			res.Count("op:" + o.K)
			switch o.K {
			case "snapshot":
				cur++
				if cur > depth {
					depth = cur
				}
			case "finalise", "iroot", "reopen":
				cur = 0
			}
		}
		if depth > maxDepth {
			maxDepth = depth
		}
		for _, hit := range or.hits {
			res.OracleHits = append(res.OracleHits, hit)
		}
		res.CaseDescs = append(res.CaseDescs, History{Ops: executed, Comment: h.Comment})
		if len(res.Samples) < 4 && hasRevert && len(executed) < 25 {
			res.Samples = append(res.Samples, History{Ops: executed, Comment: h.Comment})
		}
	}
	oracleOnly := func(h []Op, tag string) {
		_, or, classes, _ := runHistory(h, true)
		res.Count(tag + "_history")
		for _, c := range classes {
			if strings.HasPrefix(c, "revert_") {
				res.Count(tag + ":" + c)
			}
		}
		for _, hit := range or.hits {
			res.OracleHits = append(res.OracleHits, hit)
		}
	}
	for _, h := range loadCorpus(corpusDir) {
		res.Count("corpus")
		if implOnly(h.Ops) {
			oracleOnly(h.Ops, "oracle_only")
			continue
		}
		add(h)
	}
	if tier == "thorough" && len(loadCorpus(corpusDir)) > 0 { // first shard of a thorough run
		before := count
		exhaustive(smallAlphabet, 4, func(ops []Op) { add(History{Ops: ops, Comment: "exhaustive"}) })
		exhaustive([]string{"store1", "snap", "revin", "revout", "fin", "val"}, 5, func(ops []Op) { add(History{Ops: ops, Comment: "exhaustive"}) })
		// storage layers: dirty over pending (earlier transactions) over origin
		exhaustive([]string{"store1", "store0", "snap", "revin", "fin"}, 6, func(ops []Op) { add(History{Ops: ops, Comment: "exhaustive"}) })
		// one validator, modelled: all sequences up to length 4
		exhaustive(validatorAlphabet, 4, func(ops []Op) { add(History{Ops: ops, Comment: "exhaustive"}) })
		res.Extra["exhaustive_small_scope_histories"] = count - before
		n += count - before
		// ... and on the implementation only (oracle): up to length 5 including delegation updates and the
		// withdraw queue, and length 6 of the form snapshot; create; four more
		full := append(append([]string{}, validatorAlphabet...), "vdlg", "vwd", "vrmwd")
		k := 0
		exhaustive(full, 5, func(ops []Op) { oracleOnly(ops, "small_scope"); k++ })
		var rec func(prefix []string)
		rec = func(prefix []string) {
			if len(prefix) == 6 {
				g := &gen{e: newEnv()}
				for _, s := range prefix {
					g.symbol(s)
				}
				oracleOnly(g.ops, "small_scope")
				k++
				return
			}
			for _, s := range validatorAlphabet {
				rec(append(append([]string{}, prefix...), s))
			}
		}
		rec([]string{"snap", "vcreate"})
		res.Extra["exhaustive_validator_oracle_histories"] = k
	} else if len(loadCorpus(corpusDir)) > 0 || tier != "thorough" {
		// a random sample of the same small scopes in every other run
		for i := 0; i < n/12; i++ {
			add(History{Ops: randomSeq(r, []string{"snap"}, validatorAlphabet, 6), Comment: "small-scope sample"})
		}
		full := append(append([]string{}, validatorAlphabet...), "vdlg", "vwd", "vrmwd")
		for i := 0; i < n/2; i++ {
			oracleOnly(randomSeq(r, []string{"snap"}, full, 7), "small_scope")
		}
	}
	for count < n {
		style := 0
		switch x := r.Intn(100); {
		case x < 25:
			style = 1
		case x < 45:
			style = 2
		case x < 62:
			style = 3
		}
		add(History{Ops: genHistory(r, style, false)})
	}
	// implementation-only histories with UpdateDelegation (oracle only, not part of the model comparison)
	for i := 0; i < n/10+1; i++ {
		oracleOnly(genHistory(r, r.Intn(2), true), "oracle_only")
	}
	sb.WriteString("].\nDefinition M := Eval vm_compute in mismatches cases.\nPrint M.\n")
	vf.WriteFile(filepath.Join(outDir, "Cases.v"), sb.String())
	res.Cases = count
	res.Distinct = len(distinct)
	res.Extra["max_snapshot_depth"] = maxDepth
	res.Rule = "histories of StateDB calls on a fresh in-memory state: blocks of transactions (Prepare, per-transaction snapshot, nested call frames with snapshot/revert to depth 12, Finalise / IntermediateRoot / Commit+reopen between transactions) and unstructured op soups; account, storage, code, log, preimage, refund, delegation, validator and withdraw-queue mutations over 6 accounts (one is the RIPEMD precompile), 3 storage keys, 4 validators, boundary integers; reverts to valid, stale and unknown ids; every call's return value and the state read back after it are compared with the model; a case is one history; non-trivial = at least one revert to a valid snapshot; distinct by the full call list"
	res.Write(filepath.Join(outDir, "result.json"))
}

func doReplay(file string) {
	b, err := ioutil.ReadFile(file)
	if err != nil {
		fmt.Println(err)
		os.Exit(2)
	}
	var h History
	if err := json.Unmarshal(b, &h); err != nil || len(h.Ops) == 0 {
		fmt.Println("no history in", file, err)
		os.Exit(2)
	}
	_, or, classes, executed := runHistory(h.Ops, true)
	fmt.Printf("executed %d of %d calls; classes: %v\n", len(executed), len(h.Ops), classes)
	if len(or.hits) > 0 {
		fmt.Printf("ORACLE VIOLATION: %v: %v\n", or.hits[0]["what"], or.hits[0]["detail"])
		os.Exit(1)
	}
	fmt.Println("property holds on this history")
}

func main() {
	mode := ""
	if len(os.Args) > 1 {
		mode = os.Args[1]
		os.Args = append(os.Args[:1], os.Args[2:]...)
	}
	seed := flag.Uint64("seed", 1, "")
	n := flag.Int("n", 300, "")
	out := flag.String("out", ".", "")
	corpus := flag.String("corpus", "/verif/corpus/C09", "")
	file := flag.String("file", "", "")
	tier := flag.String("tier", "quick", "")
	flag.Parse()
	logging.Root().SetHandler(logging.DiscardHandler())
	params.InitNetworkId(params.NetworkIdForTestCase)
	initValidators()
	switch mode {
	case "gen":
		doGen(*seed, *n, *out, *corpus, *tier)
	case "replay":
		doReplay(*file)
	case "explain": // prints the full observation after every call, and the Coq term to evaluate in the model
		keepFull = true
		b, err := ioutil.ReadFile(*file)
		if err != nil {
			panic(err)
		}
		var h History
		if err := json.Unmarshal(b, &h); err != nil {
			panic(err)
		}
		trace, _, _, executed := runHistory(h.Ops, false)
		for i, t := range trace {
			fmt.Printf("%d %s\n  [%s]\n", i, opCoq(executed[i]), strings.Join(t, ";"))
		}
		var xs []string
		for _, o := range executed {
			xs = append(xs, opCoq(o))
		}
		fa, _, fc, fr := treeFixed()
		fmt.Printf("From VF.C09 Require Import Model.\nLocal Open Scope N_scope.\nEval vm_compute in trace_full (mkFx %s %s %s) [%s] init.\n", bc(fa), bc(fc), bc(fr), strings.Join(xs, "; "))
	default:
		fmt.Println("usage: c09 gen|replay")
		os.Exit(2)
	}
}
