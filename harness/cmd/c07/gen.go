// C07 harness, part 3: history generator (adaptive: every block is generated
// from the implementation's own dump of the previous block, so most
// transactions are valid; boundary amounts and malformed inputs are injected),
// the property oracle, and the gen / replay commands.
package main

import (
	"encoding/json"
	"fmt"
	"io/ioutil"
	"math/big"
	"os"
	"path/filepath"
	"sort"
	"strings"

	"verif/harness/vf"
)

// you is the stake unit of the history being generated (params.StakeUint is a
// package variable: most histories run with a unit of 10^6 LU so that the Coq
// numerals stay short, some with the real 10^18)
var you = new(big.Int).Exp(big.NewInt(10), big.NewInt(18), nil)

func youN(n int64) *big.Int { return new(big.Int).Mul(big.NewInt(n), you) }
func setUnit(s string) {
	you = bigS(s)
	if you.Sign() <= 0 {
		you = new(big.Int).Exp(big.NewInt(10), big.NewInt(18), nil)
	}
}

func randParams(r *vf.Rng) Params {
	unit := "1000000"
	if r.Chance(8) {
		unit = "1000000000000000000"
	}
	setUnit(unit)
	p := Params{Unit: unit, Freq: uint64(4 + r.Intn(5)), WithdrawDelay: uint64(1 + r.Intn(9)), Retention: uint64(1 + r.Intn(10)),
		MaxRewardsPeriod: uint64(1 + r.Intn(3)), ExpelDS: uint64(3 + r.Intn(20)), ExpelInactive: uint64(2 + r.Intn(10)),
		FracDS: r.Pick([]uint64{2, 2, 2, 2, 10, 50}), FracInactive: r.Pick([]uint64{0, 1, 1, 1, 1, 10}), InactWait: uint64(3 + r.Intn(8) + 20*r.Intn(3)),
		MinStakes: [3]uint64{10, 5, 2}, MaxStakes: [3]uint64{uint64(14 + r.Intn(40)), uint64(9 + r.Intn(30)), uint64(5 + r.Intn(20))},
		MinSelf: [3]uint64{uint64(r.Intn(8)), uint64(r.Intn(6)), 0}, Ratio: [3]uint64{3, 3, 4},
		MaxDlgVal: 2 + r.Intn(3), MaxDlgDlg: 1 + r.Intn(3), MinDlgTokens: youN(int64(1 + r.Intn(3))).String(),
		SubsidyThreshold: youN(9).Uint64(), SubsidyCoeff: 5}
	if r.Chance(15) {
		p.MaxStakes[r.Intn(3)] = 0 // no upper bound
	}
	if r.Chance(10) {
		p.Ratio = [3]uint64{uint64(1 + r.Intn(5)), uint64(1 + r.Intn(5)), uint64(1 + r.Intn(5))}
	}
	if r.Chance(10) {
		p.SubsidyThreshold = r.Pick([]uint64{0, 1000, youN(15).Uint64()})
		p.SubsidyCoeff = uint8(1 + r.Intn(9))
	}
	return p
}

func randRate(r *vf.Rng) uint16 {
	return uint16(r.Pick([]uint64{0, 0, 1, 100, 1000, 2500, 5000, 9999, 10000, uint64(r.Intn(10001))}))
}

func newHistory(r *vf.Rng) *History {
	h := &History{Params: randParams(r)}
	na := 4 + r.Intn(4)
	for i := 0; i < na; i++ {
		h.Balances = append(h.Balances, youN(int64(20+r.Intn(400))).String())
	}
	if r.Chance(10) {
		h.Balances[na-1] = big.NewInt(int64(r.Intn(5000000))).String() // a nearly empty account
	}
	h.Pool = youN(int64(r.Pick([]uint64{0, 3, 20, 100000}))).String()
	h.NVKeys = 3 + r.Intn(4)
	ng := 2 + r.Intn(h.NVKeys-1)
	for k := 0; k < ng; k++ {
		role := uint8(1 + r.Intn(3))
		if k == 0 {
			role = uint8(1 + r.Intn(2)) // the anchor is a chamber validator
		}
		min := int64(h.Params.MinStakes[role-1])
		tok := youN(min + int64(r.Intn(12)))
		if r.Chance(25) {
			tok.Add(tok, big.NewInt(int64(r.Intn(999999)))) // not a whole number of stake units
		}
		gv := GenesisVal{Key: k, Operator: k % na, Coinbase: r.Intn(na), Role: role, Token: tok.String(), Online: k == 0 || r.Chance(80),
			Accept: uint16(r.Pick([]uint64{1, 1, 1, 0})), Commission: randRate(r), Risk: randRate(r)}
		if r.Chance(20) {
			gv.Dist = big.NewInt(int64(1 + r.Intn(400000))).String()
		}
		h.Vals = append(h.Vals, gv)
	}
	if bigS(h.Pool).Sign() == 0 {
		for i := range h.Vals {
			h.Vals[i].Dist = ""
		}
	}
	return h
}

// amount near something interesting for the kind of transaction
func pickAmount(r *vf.Rng, base *big.Int, unitStep bool) *big.Int {
	x := new(big.Int).Set(base)
	switch r.Intn(8) {
	case 0:
		x.Add(x, big.NewInt(1))
	case 1:
		if x.Sign() > 0 {
			x.Sub(x, big.NewInt(1))
		}
	case 2:
		x.Add(x, you)
	case 3:
		if x.Cmp(you) >= 0 {
			x.Sub(x, you)
		}
	case 4:
		x = youN(int64(1 + r.Intn(30)))
	case 5:
		x.Add(x, big.NewInt(int64(r.Intn(1000000))))
	}
	if unitStep && r.Chance(50) {
		x.Div(x, you)
		x.Mul(x, you)
	}
	if x.Sign() <= 0 && !r.Chance(5) {
		x = youN(1)
	}
	if x.Sign() < 0 { // a negative amount cannot be RLP-encoded by any client
		x = new(big.Int)
	}
	return x
}

func (w *World) keyOfVal(id int64) int {
	for k, a := range w.vmain {
		if w.ids[a] == id {
			return k
		}
	}
	return -1
}
func (w *World) acctOfID(id int64) int {
	for k, a := range w.addrs {
		if w.ids[a] == id {
			return k
		}
	}
	return -1
}

// nextBlock generates the inputs of the block after the observed state o.
func (w *World) nextBlock(r *vf.Rng, o *Obs, num uint64) BlockIn {
	p := &w.h.Params
	b := BlockIn{}
	// proposer: an existing online chamber validator if there is one
	var cands, all []int
	for i := range o.Vals {
		k := w.keyOfVal(o.Vals[i].Addr)
		all = append(all, k)
		if o.Vals[i].Status == 1 && o.Vals[i].Role != 3 {
			cands = append(cands, k)
		}
	}
	switch {
	case r.Chance(1) && num > 6:
		b.Proposer = w.h.NVKeys - 1 // possibly not a validator: logging.Crit
	case len(cands) > 0 && !r.Chance(4):
		b.Proposer = cands[0]
		if r.Chance(35) {
			b.Proposer = cands[r.Intn(len(cands))]
		}
	case len(all) > 0:
		b.Proposer = all[r.Intn(len(all))]
	}
	ntx := r.Heavy(10)
	if r.Chance(30) {
		ntx = 0
	}
	na := len(w.addrs)
	for i := 0; i < ntx; i++ {
		prices := []uint64{0, 1, 1, 1, 2, 7, 50}
		if you.BitLen() > 40 {
			prices = []uint64{0, 1, 2, 7, 1000, 1000000000, 50000000000000}
		}
		t := TxIn{From: r.Intn(na), Gas: 200000, Price: r.Pick(prices)}
		var ov *OVal
		if len(o.Vals) > 0 && !r.Chance(8) {
			ov = &o.Vals[r.Intn(len(o.Vals))]
			t.Val = w.keyOfVal(ov.Addr)
		} else {
			t.Val = r.Intn(w.h.NVKeys)
			for i := range o.Vals {
				if w.keyOfVal(o.Vals[i].Addr) == t.Val {
					ov = &o.Vals[i]
				}
			}
		}
		anchor := w.ids[w.vmain[0]]
		if ov != nil && ov.Addr == anchor && len(o.Vals) > 1 && !r.Chance(25) {
			// leave the anchor validator alone most of the time so that chains get long
			ov = &o.Vals[r.Intn(len(o.Vals))]
			t.Val = w.keyOfVal(ov.Addr)
		}
		asOperator := func() {
			if ov != nil && !r.Chance(6) {
				if a := w.acctOfID(ov.Operator); a >= 0 {
					t.From = a
				}
			}
		}
		role := 1
		if ov != nil {
			role = int(ov.Role)
		}
		switch k := r.Intn(100); {
		case k < 12:
			t.Kind, t.Gas, t.To = "transfer", 21000, r.Intn(na)
			t.Value = pickAmount(r, big.NewInt(int64(r.Intn(1000))), false).String()
			if r.Chance(5) {
				t.Value = youN(100000).String() // more than anybody has
			}
		case k < 20:
			t.Kind, t.Gas, t.To = "call", 100000, r.Intn(len(contractCodes))
			if r.Chance(50) {
				t.Value = big.NewInt(int64(r.Intn(100000))).String()
			}
		case k < 30:
			t.Kind = "create"
			t.Gas = 2000000
			t.Val = r.Intn(w.h.NVKeys)
			for tries := 0; tries < 4 && r.Chance(80); tries++ { // prefer a key that is not a validator yet
				used := false
				for i := range o.Vals {
					if w.keyOfVal(o.Vals[i].Addr) == t.Val {
						used = true
					}
				}
				if !used {
					break
				}
				t.Val = r.Intn(w.h.NVKeys)
			}
			t.Operator, t.Coinbase, t.Role = t.From, r.Intn(na), uint8(1+r.Intn(3))
			if r.Chance(5) {
				t.Operator = r.Intn(na)
			}
			t.Value = pickAmount(r, youN(int64(p.MinSelf[t.Role-1]+uint64(r.Intn(12)))), true).String()
			t.Accept, t.Commission, t.Risk, t.Name = uint16(r.Pick([]uint64{1, 1, 0, 2})), randRate(r), randRate(r), 1+r.Intn(5)
			if r.Chance(5) {
				t.Gas = 950000 // not enough for the creation surcharge
			}
		case k < 35:
			t.Kind = "update"
			asOperator()
			t.Name, t.Operator, t.Coinbase = r.Intn(4), -1, -1
			if r.Chance(30) {
				t.Operator = r.Intn(na)
			}
			if r.Chance(40) {
				t.Coinbase = r.Intn(na)
			}
			t.Accept = uint16(r.Pick([]uint64{65535, 255, 0, 1, 1}))
			t.Commission, t.Risk = 65535, 65535
			if r.Chance(50) {
				t.Commission = randRate(r)
			}
			if r.Chance(50) {
				t.Risk = randRate(r)
			}
			if r.Chance(4) {
				t.Risk = 10001
			}
		case k < 45:
			t.Kind = "deposit"
			asOperator()
			room := youN(3)
			if ov != nil && p.MaxStakes[role-1] > 0 {
				room = new(big.Int).Sub(youN(int64(p.MaxStakes[role-1])), ov.Token)
			}
			t.Value = pickAmount(r, room, true).String()
			if r.Chance(50) {
				t.Value = youN(int64(1 + r.Intn(6))).String()
			}
		case k < 57:
			t.Kind = "withdraw"
			asOperator()
			t.Recipient = r.Intn(na)
			if r.Chance(3) {
				t.Recipient = -1
			}
			self := youN(5)
			if ov != nil {
				self = ov.SelfToken
			}
			switch r.Intn(4) {
			case 0:
				t.Value = pickAmount(r, self, false).String() // everything (+-1)
			case 1:
				keep := youN(int64(p.MinSelf[role-1]))
				t.Value = pickAmount(r, new(big.Int).Sub(self, keep), true).String() // down to the self-stake minimum
			default:
				t.Value = youN(int64(1 + r.Intn(5))).String()
			}
		case k < 64:
			t.Kind = "status"
			asOperator()
			t.Status = uint8(r.Intn(2))
			if ov != nil && r.Chance(70) {
				t.Status = uint8(1 - ov.Status)
			}
			if r.Chance(3) {
				t.Status = 2
			}
		case k < 68:
			t.Kind = "settle"
			asOperator()
		case k < 82:
			t.Kind = "dadd"
			min := bigS(p.MinDlgTokens)
			t.Value = pickAmount(r, min, true).String()
			if r.Chance(40) {
				t.Value = youN(int64(1 + r.Intn(20))).String()
			}
		case k < 92:
			t.Kind = "dsub"
			for i := range o.Vals { // prefer a validator that has delegations
				if len(o.Vals[i].Dlgs) > 0 && r.Chance(70) {
					ov = &o.Vals[i]
					t.Val = w.keyOfVal(ov.Addr)
					break
				}
			}
			t.Value = youN(int64(1 + r.Intn(6))).String()
			if ov != nil && len(ov.Dlgs) > 0 {
				d := ov.Dlgs[r.Intn(len(ov.Dlgs))]
				if a := w.acctOfID(d.Addr); a >= 0 && !r.Chance(10) {
					t.From = a
				}
				if r.Chance(60) {
					t.Value = pickAmount(r, d.Token, false).String()
				}
			}
		case k < 95:
			t.Kind = "dsettle"
			if ov != nil && len(ov.Dlgs) > 0 {
				if a := w.acctOfID(ov.Dlgs[r.Intn(len(ov.Dlgs))].Addr); a >= 0 {
					t.From = a
				}
			}
		case k < 98:
			t.Kind, t.Name = "bad", r.Intn(200)
		default:
			t.Kind = "badaction"
		}
		if t.Kind != "transfer" && t.Kind != "call" && r.Chance(5) {
			t.TxValue = big.NewInt(int64(1 + r.Intn(1000))).String() // ignored by the module
		}
		switch r.Intn(40) {
		case 0:
			t.NonceDelta = 1
		case 1:
			t.NonceDelta = -1
		case 2:
			t.Gas = 20999
		case 3:
			t.Gas = 100000 // below the intrinsic gas of a staking message with payload
		}
		b.Txs = append(b.Txs, t) // the nonce is the sender's nonce at execution time plus NonceDelta
	}
	// scripted boundary scenarios on a validator that has delegations or is close to its maximum
	if r.Chance(18) && len(o.Vals) > 0 {
		ov := &o.Vals[r.Intn(len(o.Vals))]
		for i := range o.Vals {
			if len(o.Vals[i].Dlgs) > 0 && r.Chance(60) {
				ov = &o.Vals[i]
			}
		}
		if ov.Addr == w.ids[w.vmain[0]] && len(o.Vals) > 1 && !r.Chance(20) {
			ov = &o.Vals[(r.Intn(len(o.Vals)-1)+1)%len(o.Vals)]
		}
		vk := w.keyOfVal(ov.Addr)
		op := w.acctOfID(ov.Operator)
		max := youN(int64(p.MaxStakes[ov.Role-1]))
		room := new(big.Int).Sub(max, ov.Token)
		if op >= 0 && room.Sign() > 0 {
			switch r.Intn(5) {
			case 0: // withdraw a little, then deposit / delegate up to the maximum computed from the understated pending total
				b.Txs = append(b.Txs, TxIn{Kind: "withdraw", From: op, Val: vk, Recipient: op, Value: youN(1).String(), Gas: 200000, Price: 1})
				b.Txs = append(b.Txs, TxIn{Kind: "deposit", From: op, Val: vk, Value: new(big.Int).Add(room, youN(int64(1+r.Intn(2)))).String(), Gas: 200000, Price: 1})
			case 1:
				b.Txs = append(b.Txs, TxIn{Kind: "withdraw", From: op, Val: vk, Recipient: op, Value: youN(1).String(), Gas: 200000, Price: 0})
				b.Txs = append(b.Txs, TxIn{Kind: "dadd", From: r.Intn(na), Val: vk, Value: new(big.Int).Add(room, youN(int64(r.Intn(3)))).String(), Gas: 200000, Price: 1})
			case 2: // two unbinds of the same delegation in one period
				if len(ov.Dlgs) > 0 {
					d := ov.Dlgs[r.Intn(len(ov.Dlgs))]
					if a := w.acctOfID(d.Addr); a >= 0 {
						b.Txs = append(b.Txs, TxIn{Kind: "dsub", From: a, Val: vk, Value: d.Token.String(), Gas: 200000, Price: 1})
						b.Txs = append(b.Txs, TxIn{Kind: "dsub", From: a, Val: vk, Value: youN(1).String(), Gas: 200000, Price: 1})
					}
				}
			case 4: // ask to go online (or offline) and let the delegations leave in the same period
				b.Txs = append(b.Txs, TxIn{Kind: "status", From: op, Val: vk, Status: uint8(1 - ov.Status), Gas: 200000, Price: 1})
				for _, d := range ov.Dlgs {
					if a := w.acctOfID(d.Addr); a >= 0 {
						b.Txs = append(b.Txs, TxIn{Kind: "dsub", From: a, Val: vk, Value: d.Token.String(), Gas: 200000, Price: 1})
					}
				}
			case 3: // stop accepting while delegations are pending
				b.Txs = append(b.Txs, TxIn{Kind: "update", From: op, Val: vk, Operator: -1, Coinbase: -1, Accept: 0, Commission: 65535, Risk: 65535})
				b.Txs = append(b.Txs, TxIn{Kind: "dadd", From: r.Intn(na), Val: vk, Value: bigS(p.MinDlgTokens).String(), Gas: 200000, Price: 1})
			}
		}
	}
	if r.Chance(5) && len(all) > 0 {
		ne := 1 + r.Intn(2)
		for i := 0; i < ne; i++ {
			e := EvIn{Signer: all[r.Intn(len(all))], Round: num - 1}
			if len(o.Recs) > 0 && r.Chance(60) { // a validator that has pending transactions (activation then meets an expelled validator)
				if k := w.keyOfVal(o.Recs[r.Intn(len(o.Recs))].V); k >= 0 {
					e.Signer = k
				}
			}
			if e.Signer == 0 && !r.Chance(15) {
				e.Signer = all[len(all)-1]
			}
			switch r.Intn(6) {
			case 0:
				e.Round = num + uint64(r.Intn(3)) // future: stays pending
			case 1:
				if num > 3 {
					e.Round = num - 2 - uint64(r.Intn(2)) // old
				}
			case 2:
				e.Signer = r.Intn(w.h.NVKeys) // possibly not a validator
			case 3:
				e.SameHash = r.Chance(50) // one vote listed twice: must not be punished
			}
			b.Evs = append(b.Evs, e)
		}
	}
	return b
}

// ---- oracle -----------------------------------------------------------------------

const (
	whatDropped = "a staking period ended with no online stake: distributeRewards returned 'empty stake', the pending transactions never took effect and their detained deposits vanish with the staking trie"
	whatRefund = "gas refund credited to the sender is also counted in the block's gas rewards (supply grows by refund*price)"
	whatDust   = "a validator deleted at the end of a block takes its undistributed rewards residue with it (supply shrinks by the residue)"
)

type Hit struct {
	What    string   `json:"what"`
	Block   uint64   `json:"block"`
	Delta   string   `json:"delta"`
	History *History `json:"history"`
}

// oracleStep compares the supply of two consecutive dumps.  On the last block
// of a period every pending record must have taken effect (activated or
// refunded), so pending deposits no longer count there.
func (w *World) oracleStep(prev, cur *BlockOut, prevSupply *big.Int, res *vf.Result) (hits []Hit, supply *big.Int) {
	o := cur.Obs
	supply = new(big.Int).Set(o.Supply)
	if (cur.Number+1)%w.h.Params.Freq == 0 {
		supply = w.supplyWithoutRecords(o)
	}
	delta := new(big.Int).Sub(supply, prevSupply)
	minted := new(big.Int)
	for i := range cur.Txs {
		if cur.Txs[i].Included && cur.Txs[i].Refund > 0 {
			minted.Add(minted, new(big.Int).Mul(new(big.Int).SetUint64(cur.Txs[i].Refund), w.priceOf(cur, i)))
		}
	}
	if minted.Sign() > 0 {
		hits = append(hits, Hit{What: whatRefund, Block: cur.Number, Delta: minted.String()})
	}
	rest := new(big.Int).Sub(delta, minted)
	if rest.Sign() != 0 {
		gone := false
		if prev != nil && prev.Obs != nil {
			now := map[int64]bool{}
			for i := range o.Vals {
				now[o.Vals[i].Addr] = true
			}
			for i := range prev.Obs.Vals {
				if !now[prev.Obs.Vals[i].Addr] {
					gone = true
				}
			}
		}
		pendingSum := new(big.Int).Sub(o.Supply, w.supplyWithoutRecords(o))
		periodEnd := (cur.Number+1)%w.h.Params.Freq == 0
		if periodEnd && o.Kinds[0].OnStake.Sign() == 0 && pendingSum.Sign() > 0 && new(big.Int).Neg(rest).Cmp(pendingSum) == 0 {
			hits = append(hits, Hit{What: whatDropped, Block: cur.Number, Delta: rest.String()})
		} else if gone && rest.Sign() < 0 && rest.CmpAbs(big.NewInt(1000000)) < 0 {
			hits = append(hits, Hit{What: whatDust, Block: cur.Number, Delta: rest.String()})
		} else {
			hits = append(hits, Hit{What: fmt.Sprintf("supply changed at a block boundary (minted/burnt outside the listed classes)"), Block: cur.Number, Delta: rest.String()})
		}
	}
	// a withdrawal is paid at most once: an older record that is unfinished now was unfinished before
	if prev != nil && prev.Obs != nil {
		type key struct {
			op, val, dl int64
			cr          uint64
			init        string
		}
		unf := map[key]int{}
		for _, q := range prev.Obs.Queue {
			if q.Finished == 0 {
				unf[key{q.Operator, q.Validator, q.Delegator, q.Creation, q.Initial.String()}]++
			}
		}
		for _, q := range o.Queue {
			if q.Finished == 0 && q.Creation < cur.Number {
				k := key{q.Operator, q.Validator, q.Delegator, q.Creation, q.Initial.String()}
				if unf[k] == 0 {
					hits = append(hits, Hit{What: "a finished withdrawal became unfinished again", Block: cur.Number})
				} else {
					unf[k]--
				}
			}
		}
	}
	return
}

func (w *World) priceOf(cur *BlockOut, i int) *big.Int {
	return new(big.Int).SetUint64(cur.Txs[i].Price)
}

func (w *World) supplyWithoutRecords(o *Obs) *big.Int {
	s := new(big.Int)
	for _, b := range o.Bal {
		s.Add(s, b)
	}
	for i := range o.Vals {
		s.Add(s, o.Vals[i].Token)
		s.Add(s, o.Vals[i].Dist)
	}
	for i := range o.Roles {
		s.Add(s, o.Roles[i].Rewards)
	}
	s.Add(s, o.Kinds[0].Residue)
	for _, q := range o.Queue {
		if q.Finished == 0 {
			s.Add(s, q.Final)
		}
	}
	return s
}

// ---- running a history ------------------------------------------------------------

type Run struct {
	W      *World
	Gen    *Obs
	Outs   []*BlockOut
	Hits   []Hit
	Blocks int
}

// runHistory executes a stored history; extend generates `more` further blocks adaptively.
func runHistory(h *History, r *vf.Rng, more int, res *vf.Result) *Run {
	w := newWorld(h)
	run := &Run{W: w}
	run.Gen = w.dump(w.parent.Header())
	supply := new(big.Int).Set(run.Gen.Supply)
	var prev *BlockOut
	lastObs := run.Gen
	total := len(h.Blocks) + more
	for i := 0; i < total; i++ {
		if i >= len(h.Blocks) {
			h.Blocks = append(h.Blocks, w.nextBlock(r, lastObs, uint64(i+1)))
		}
		b := &h.Blocks[i]
		out := w.runBlock(b)
		for len(out.Txs) < len(b.Txs) {
			out.Txs = append(out.Txs, TxOut{ID: -1})
		}
		run.Outs = append(run.Outs, out)
		if res != nil {
			classify(w, b, out, prev, res)
		}
		if out.Crashed != "" {
			h.Blocks = h.Blocks[:i+1]
			if strings.HasPrefix(out.Crashed, "dberr") { // e.g. a record that cannot be RLP-encoded (regression of b5e8f5d)
				run.Hits = append(run.Hits, Hit{What: "state database error: " + out.Crashed, Block: out.Number})
			}
			break
		}
		hits, s := w.oracleStep(prev, out, supply, res)
		// pending deposits are back in the count once the next period starts (they were consumed)
		supply = s
		run.Hits = append(run.Hits, hits...)
		prev = out
		lastObs = out.Obs
	}
	run.Blocks = len(run.Outs)
	return run
}

func classify(w *World, b *BlockIn, out *BlockOut, prev *BlockOut, res *vf.Result) {
	if out.Crashed != "" {
		c := out.Crashed
		if i := strings.Index(c, ":"); i > 0 && strings.HasPrefix(c, "CRIT") {
			c = "crit"
		} else if strings.HasPrefix(c, "dberr") {
			c = "dberr"
		} else if strings.Contains(c, "division by zero") {
			c = "div0"
		} else if strings.Contains(c, "nil pointer") {
			c = "nilptr"
		} else {
			c = "other"
		}
		if i := strings.Index(out.Crashed, " @"); i > 0 {
			c += "_in_" + strings.Trim(out.Crashed[i+2:], "*(). ")
		}
		res.Count("block_crash_" + c)
		return
	}
	res.Count("block")
	for _, t := range out.Topics {
		switch t {
		case "deposit_failed", "delegation_add_failed", "delegation_sub_failed", "change_status_failed", "withdraw_effect", "delegation_sub_effect", "slashing", "recover_from_expired_expelling":
			res.Count("endblock_" + t)
		}
	}
	if (out.Number+1)%w.h.Params.Freq == 0 {
		res.Count("block_period_end")
	}
	for i := range b.Txs {
		o := &out.Txs[i]
		switch {
		case !o.Included:
			res.Count("tx_rejected_" + strings.SplitN(o.Err, ":", 2)[0])
		case o.Failed:
			res.Count("tx_" + b.Txs[i].Kind + "_failed")
		default:
			res.Count("tx_" + b.Txs[i].Kind + "_ok")
		}
		if o.Refund > 0 {
			res.Count("tx_with_gas_refund")
		}
	}
	if len(out.Pool) > 0 {
		res.Count("block_with_evidence_pool")
	}
	if prev != nil && prev.Obs != nil {
		pen := w.ids[w.penalty]
		if out.Obs.Bal[pen].Cmp(prev.Obs.Bal[pen]) > 0 {
			res.Count("penalty_collected")
		}
		if len(out.Obs.Vals) < len(prev.Obs.Vals) {
			res.Count("validator_deleted")
		}
		if len(out.Obs.Vals) > len(prev.Obs.Vals) {
			res.Count("validator_created")
		}
		fin := func(o *Obs) (n, paid int) {
			for _, q := range o.Queue {
				if q.Finished == 1 {
					n++
				}
			}
			return
		}
		a, _ := fin(prev.Obs)
		c, _ := fin(out.Obs)
		if c > a {
			res.Count("withdrawal_paid_or_written_off")
		}
		if len(out.Obs.Queue) > len(prev.Obs.Queue) {
			res.Count("withdrawal_queued")
		}
		nd := func(o *Obs) (n int) {
			for i := range o.Vals {
				n += len(o.Vals[i].Dlgs)
			}
			return
		}
		if nd(out.Obs) > nd(prev.Obs) {
			res.Count("delegation_activated")
		}
		for i := range out.Obs.Vals {
			v := &out.Obs.Vals[i]
			for j := range prev.Obs.Vals {
				u := &prev.Obs.Vals[j]
				if u.Addr == v.Addr {
					if v.LastSettled > u.LastSettled {
						res.Count("validator_settled")
					}
					if v.Expelled && !u.Expelled {
						res.Count("validator_expelled")
					}
					if !v.Expelled && u.Expelled {
						res.Count("validator_recovered")
					}
					if v.Status == 0 && u.Status == 1 && !v.Expelled {
						res.Count("validator_went_offline")
					}
				}
			}
		}
	}
	if out.Subsidy != nil && out.Subsidy.Sign() > 0 {
		res.Count("block_with_subsidy")
	}
}

func (run *Run) caseCoq() string {
	w := run.W
	var bs []string
	for i, o := range run.Outs {
		bs = append(bs, w.blockCoq(&w.h.Blocks[i], o))
	}
	return fmt.Sprintf("mkCase %s\n %s %d\n [%s]", w.paramsCoq(), genesisCoq(run.Gen), len(w.uni), strings.Join(bs, ";\n"))
}

func loadCorpus(dir string) []*History {
	var out []*History
	files, _ := filepath.Glob(filepath.Join(dir, "*.json"))
	sort.Strings(files)
	for _, f := range files {
		b, err := ioutil.ReadFile(f)
		if err != nil {
			continue
		}
		var h History
		if json.Unmarshal(b, &h) == nil && len(h.Balances) > 0 {
			if h.Comment == "" {
				h.Comment = "corpus:" + filepath.Base(f)
			}
			out = append(out, &h)
		}
	}
	return out
}

func gen(seed uint64, n int, outDir, corpusDir string) {
	r := vf.NewRng(seed)
	res := vf.NewResult("C07", seed)
	var cases []string
	blocks := 0
	addRun := func(run *Run, h *History) {
		cases = append(cases, run.caseCoq())
		blocks += run.Blocks
		for _, ht := range run.Hits {
			ht.History = h
			res.OracleHits = append(res.OracleHits, ht)
		}
		res.CaseDescs = append(res.CaseDescs, h)
		if len(res.Samples) < 2 {
			res.Samples = append(res.Samples, map[string]interface{}{"params": h.Params, "blocks": len(h.Blocks), "first_blocks": h.Blocks[:min(3, len(h.Blocks))]})
		}
	}
	for _, h := range loadCorpus(corpusDir) {
		run := runHistory(h, r, 0, res)
		if again := runHistory(h, r, 0, nil); !sameOutcome(run, again) {
			run.Hits = append(run.Hits, Hit{What: "two executions of the same history end in different states (nondeterministic block execution)", Block: uint64(run.Blocks)})
		}
		addRun(run, h)
		res.Count("corpus")
	}
	for len(cases) < n {
		h := newHistory(r)
		periods := 3 + r.Heavy(20)
		if r.Chance(15) {
			periods = 8 + r.Intn(6)
		}
		run := runHistory(h, r, int(h.Params.Freq)*periods, res)
		addRun(run, h)
		res.Count("history")
	}
	var sb strings.Builder
	sb.WriteString("From VF.C07 Require Import Model.\nLocal Open Scope Z_scope.\nDefinition cases : list case := [\n")
	sb.WriteString(strings.Join(cases, ";\n"))
	sb.WriteString("].\nDefinition M := Eval vm_compute in mismatches cases.\nPrint M.\n")
	vf.WriteFile(filepath.Join(outDir, "Cases.v"), sb.String())
	res.Cases = len(cases)
	res.Distinct = blocks
	res.Extra["block_transitions"] = blocks
	res.Rule = "a case is one chain: random version-5 parameter table (period 4-8, small stake thresholds, any commission/risk rates), random genesis, then 2-16 staking periods of blocks generated adaptively from the implementation's previous dump (transfers, contract calls incl. one that earns a gas refund, all nine staking messages with boundary amounts, wrong nonces/gas/operators, malformed payloads, double-sign evidences current/future/old, any proposer); after every block the committed state is re-opened and compared field by field with the model state; distinct = number of block transitions executed"
	res.Write(filepath.Join(outDir, "result.json"))
}

// sameOutcome compares the last dumps (or crash messages) of two runs of one history.
func sameOutcome(a, b *Run) bool {
	if a.Blocks != b.Blocks || a.Blocks == 0 {
		return a.Blocks == b.Blocks
	}
	x, y := a.Outs[a.Blocks-1], b.Outs[b.Blocks-1]
	if (x.Crashed == "") != (y.Crashed == "") {
		return false
	}
	if x.Crashed != "" {
		return true
	}
	return obsCoq(x.Obs) == obsCoq(y.Obs)
}

func min(a, b int) int {
	if a < b {
		return a
	}
	return b
}

func replay(file string) {
	b, err := ioutil.ReadFile(file)
	if err != nil {
		fmt.Println(err)
		os.Exit(2)
	}
	var rp struct {
		History *History `json:"history"`
	}
	var h *History
	if json.Unmarshal(b, &rp) == nil && rp.History != nil {
		h = rp.History
	} else {
		h = &History{}
		if err := json.Unmarshal(b, h); err != nil || len(h.Balances) == 0 {
			fmt.Println("not a C07 history")
			os.Exit(2)
		}
	}
	run := runHistory(h, vf.NewRng(1), 0, nil)
	if again := runHistory(h, vf.NewRng(1), 0, nil); !sameOutcome(run, again) {
		run.Hits = append(run.Hits, Hit{What: "two executions of the same history end in different states (nondeterministic block execution)", Block: uint64(run.Blocks)})
	}
	for _, o := range run.Outs {
		if o.Crashed != "" {
			fmt.Printf("block %d: implementation stopped: %s\n", o.Number, o.Crashed)
		} else {
			fmt.Printf("block %d: supply %s\n", o.Number, o.Obs.Supply)
			if os.Getenv("C07_TRACE") != "" {
				vb, _ := json.Marshal(o.Obs)
				tb, _ := json.Marshal(o.Txs)
				fmt.Printf("   txs %s\n   obs %s\n   topics %v\n", tb, vb, o.Topics)
			}
		}
	}
	bad := false
	for _, ht := range run.Hits {
		fmt.Printf("ORACLE VIOLATION: %s (block %d, delta %s)\n", ht.What, ht.Block, ht.Delta)
		bad = true
	}
	if bad {
		os.Exit(1)
	}
	fmt.Println("supply constant over", run.Blocks, "blocks")
}
