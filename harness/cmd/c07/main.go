package main

import (
	"encoding/json"
	"flag"
	"fmt"
	"os"
	"math/big"

	"github.com/youchainhq/go-youchain/params"
)

func main() {
	mode := ""
	if len(os.Args) > 1 {
		mode = os.Args[1]
		os.Args = append(os.Args[:1], os.Args[2:]...)
	}
	seed := flag.Uint64("seed", 1, "")
	n := flag.Int("n", 40, "")
	out := flag.String("out", ".", "")
	corpus := flag.String("corpus", "/verif/corpus/C07", "")
	file := flag.String("file", "", "")
	flag.Parse()
	params.InitNetworkId(params.NetworkIdForTestCase)
	quietLogs()
	switch mode {
	case "smoke":
		smoke()
	case "gen":
		gen(*seed, *n, *out, *corpus)
	case "replay":
		replay(*file)
	default:
		fmt.Println("usage: c07 gen|replay")
		os.Exit(2)
	}
}

const YOU = "000000000000000000"

func smoke() {
	h := &History{
		Params: Params{Unit: "1000000000000000000", Freq: 4, WithdrawDelay: 2, Retention: 4, MaxRewardsPeriod: 2, ExpelDS: 6, ExpelInactive: 4, FracDS: 2, FracInactive: 1, InactWait: 5,
			MinStakes: [3]uint64{10, 5, 2}, MaxStakes: [3]uint64{100, 60, 30}, MinSelf: [3]uint64{5, 5, 0}, Ratio: [3]uint64{3, 3, 4},
			MaxDlgVal: 3, MaxDlgDlg: 2, MinDlgTokens: "2" + YOU, SubsidyThreshold: 9000000000000000000, SubsidyCoeff: 5},
		Balances: []string{"1000" + YOU, "1000" + YOU, "1000" + YOU, "50" + YOU},
		Pool:     "100000" + YOU, NVKeys: 4,
		Vals: []GenesisVal{{Key: 0, Operator: 0, Coinbase: 0, Role: 1, Token: "20" + YOU, Online: true, Accept: 1, Commission: 1000, Risk: 500},
			{Key: 1, Operator: 1, Coinbase: 1, Role: 3, Token: "5" + YOU, Online: true, Accept: 1}},
		Blocks: []BlockIn{
			{Proposer: 0, Txs: []TxIn{{Kind: "transfer", From: 0, To: 1, Value: "5", Gas: 21000, Price: 10},
				{Kind: "dadd", From: 2, Val: 0, Value: "7" + YOU, Gas: 200000, Price: 3},
				{Kind: "create", From: 3, Val: 2, Operator: 3, Coinbase: 3, Role: 2, Value: "6" + YOU, Gas: 2000000, Price: 1, Accept: 1, Commission: 100, Risk: 10000, Name: 3}}},
			{Proposer: 0, Txs: []TxIn{{Kind: "call", From: 1, To: 2, Gas: 100000, Price: 7}, {Kind: "call", From: 1, To: 0, Value: "100", Gas: 100000, Price: 7}}},
			{Proposer: 0, Txs: []TxIn{{Kind: "call", From: 1, To: 2, Gas: 100000, Price: 7}, {Kind: "withdraw", From: 0, Val: 0, Recipient: 2, Value: "3" + YOU, Gas: 200000, Price: 1}}},
			{Proposer: 0}, {Proposer: 0, Evs: []EvIn{{Round: 4, Signer: 0}}}, {Proposer: 0}, {Proposer: 0}, {Proposer: 0}, {Proposer: 0},
		},
	}
	w := newWorld(h)
	g := w.dump(w.parent.Header())
	fmt.Println("genesis supply", g.Supply)
	for i := range h.Blocks {
		o := w.runBlock(&h.Blocks[i])
		b, _ := json.Marshal(o.Txs)
		if o.Crashed != "" {
			fmt.Println("block", o.Number, "CRASH", o.Crashed)
			break
		}
		fmt.Println("block", o.Number, "supply", o.Obs.Supply, "diff", new(big.Int).Sub(o.Obs.Supply, g.Supply), "subsidy", o.Subsidy, "gasrew", o.GasRew, string(b))
		vb, _ := json.Marshal(o.Obs.Vals)
		fmt.Println("   vals", string(vb))
		qb, _ := json.Marshal(o.Obs.Queue)
		rb, _ := json.Marshal(o.Obs.Recs)
		fmt.Println("   queue", string(qb), "recs", string(rb), "pool", o.Pool)
	}
}
