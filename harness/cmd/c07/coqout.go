// C07 harness, part 2: printing inputs and observations as Coq terms of
// VF.C07.Model (Z_scope: plain decimal numerals, negatives in parentheses).
package main

import (
	"fmt"
	"math/big"
	"sort"
	"strings"

	"github.com/youchainhq/go-youchain/params"
)

func zb(x *big.Int) string {
	if x == nil {
		return "0"
	}
	if x.Sign() < 0 {
		return "(" + x.String() + ")"
	}
	return x.String()
}
func zi(x int64) string {
	if x < 0 {
		return fmt.Sprintf("(%d)", x)
	}
	return fmt.Sprintf("%d", x)
}
func zu(x uint64) string { return fmt.Sprintf("%d", x) }
func lst(xs []string) string { return "[" + strings.Join(xs, "; ") + "]" }
func bl(b bool) string {
	if b {
		return "true"
	}
	return "false"
}

func (w *World) paramsCoq() string {
	p := &w.h.Params
	l3 := func(a [3]uint64) string { return fmt.Sprintf("[%d; %d; %d]", a[0], a[1], a[2]) }
	var ord []string
	for _, k := range w.order {
		ord = append(ord, fmt.Sprintf("(%d, %d)", k[0], k[1]))
	}
	return fmt.Sprintf("(mkParams %d %s %s %s %s %d %d %d %d %d %d %d %d %d %d %d %d %d %d %s %s %d %d %d %s)",
		p.Freq, l3(p.MinStakes), l3(p.MaxStakes), l3(p.MinSelf), l3(p.Ratio), w.ids[w.pool], p.SubsidyThreshold, p.SubsidyCoeff,
		p.MaxRewardsPeriod, p.WithdrawDelay, p.Retention, p.ExpelDS, p.ExpelInactive, w.ids[w.penalty], p.FracDS, p.FracInactive, p.InactWait,
		p.MaxDlgVal, p.MaxDlgDlg, bigS(p.MinDlgTokens).String(), params.StakeUint.String(), params.CommissionRateBase, params.TxValCreationGas,
		w.ids[params.StakingModuleAddress], lst(ord))
}

func valCoq(v *OVal) string {
	var ds []string
	for _, d := range v.Dlgs {
		ds = append(ds, fmt.Sprintf("mkDlg %d %s %s", d.Addr, zb(d.Stake), zb(d.Token)))
	}
	return fmt.Sprintf("mkVal %d %s %s %s %d %d %s %d %d %s %s %s %s %s %s %d %d %d %d %s %d",
		v.Addr, zi(v.Name), zi(v.Operator), zi(v.Coinbase), v.Role, v.Status, bl(v.Expelled), v.ExpelExpired, v.LastInactive,
		zb(v.Token), zb(v.Stake), zb(v.SelfToken), zb(v.SelfStake), zb(v.Dist), zb(v.Total), v.LastSettled,
		v.Accept, v.Commission, v.Risk, lst(ds), v.LastActive)
}
func statCoq(k *OStat) string {
	return fmt.Sprintf("(mkK %s %s %d %s %s %d %s %s)", zb(k.OnStake), zb(k.OnToken), k.OnCount, zb(k.OffStake), zb(k.OffToken), k.OffCount, zb(k.Residue), zb(k.Rewards))
}
func vstatCoq(o *Obs) string {
	return fmt.Sprintf("(mkStat %s %s %s %s %s %s)", statCoq(&o.Roles[0]), statCoq(&o.Roles[1]), statCoq(&o.Roles[2]), statCoq(&o.Kinds[0]), statCoq(&o.Kinds[1]), statCoq(&o.Kinds[2]))
}
func wCoq(r *OW) string {
	return fmt.Sprintf("mkW %s %s %s %s %d %d %s %s %d", zi(r.Operator), zi(r.Delegator), zi(r.Validator), zi(r.Recipient), r.Creation, r.Completion, zb(r.Initial), zb(r.Final), r.Finished)
}

func obsCoq(o *Obs) string {
	var bal, non, adl, vals, q, recs, prel []string
	for i := range o.Bal {
		bal = append(bal, zb(o.Bal[i]))
		non = append(non, zu(o.Nonce[i]))
		var ds []string
		for _, d := range o.ADlgs[i] {
			ds = append(ds, zi(d))
		}
		adl = append(adl, lst(ds))
	}
	for i := range o.Vals {
		vals = append(vals, valCoq(&o.Vals[i]))
	}
	for i := range o.Queue {
		q = append(q, wCoq(&o.Queue[i]))
	}
	for _, r := range o.Recs {
		var ts []string
		for _, t := range r.Txs {
			ts = append(ts, zi(t))
		}
		recs = append(recs, fmt.Sprintf("(%d, %d, %s, %s)", r.D, r.V, zb(r.Final), lst(ts)))
	}
	for _, k := range o.PRel {
		prel = append(prel, fmt.Sprintf("(%d, %d)", k[0], k[1]))
	}
	return fmt.Sprintf("(mkObs %s %s %s\n %s\n %s %s %s %s)", lst(bal), lst(non), lst(adl), lst(vals), vstatCoq(o), lst(q), lst(recs), lst(prel))
}

// genesisCoq prints the genesis ledger as a model state.
func genesisCoq(o *Obs) string {
	var bal, non, vals []string
	for i := range o.Bal {
		if o.Bal[i].Sign() != 0 {
			bal = append(bal, fmt.Sprintf("(%d, %s)", i, zb(o.Bal[i])))
		}
		if o.Nonce[i] != 0 {
			non = append(non, fmt.Sprintf("(%d, %d)", i, o.Nonce[i]))
		}
	}
	for i := range o.Vals {
		vals = append(vals, valCoq(&o.Vals[i]))
	}
	return fmt.Sprintf("(mkState 0 %s %s [] %s %s [] [] [] [] 0 0 0 0 0 0)", lst(bal), lst(non), lst(vals), vstatCoq(o))
}

func (w *World) vid(k int) int64 {
	if k >= 0 && k < len(w.vmain) {
		return w.ids[w.vmain[k]]
	}
	return 0
}
func (w *World) aid(k int) int64 {
	if k >= 0 && k < len(w.addrs) {
		return w.ids[w.addrs[k]]
	}
	return 0
}

func (w *World) actionCoq(t *TxIn) string {
	v := bigS(t.Value)
	switch t.Kind {
	case "create":
		main := w.vid(t.Val)
		return fmt.Sprintf("(ACreate (mkCreate %d %d %d %d %d %s %d %d %d))", t.Name, w.aid(t.Operator), w.aid(t.Coinbase), main, t.Role, zb(v), t.Accept, t.Commission, t.Risk)
	case "update":
		return fmt.Sprintf("(AUpdate (mkUpdate %d %d %d %d %d %d %d))", w.vid(t.Val), t.Name, w.aid(t.Operator), w.aid(t.Coinbase), t.Accept, t.Commission, t.Risk)
	case "deposit":
		return fmt.Sprintf("(ADeposit %d %s)", w.vid(t.Val), zb(v))
	case "withdraw":
		return fmt.Sprintf("(AWithdraw %d %d %s)", w.vid(t.Val), w.aid(t.Recipient), zb(v))
	case "status":
		return fmt.Sprintf("(AStatus %d %d)", w.vid(t.Val), t.Status)
	case "settle":
		return fmt.Sprintf("(ASettle %d)", w.vid(t.Val))
	case "dadd":
		return fmt.Sprintf("(ADlgAdd %d %s)", w.vid(t.Val), zb(v))
	case "dsub":
		return fmt.Sprintf("(ADlgSub %d %s)", w.vid(t.Val), zb(v))
	case "dsettle":
		return fmt.Sprintf("(ADlgSettle %d)", w.vid(t.Val))
	}
	return "ABad"
}

func (w *World) txCoq(t *TxIn, o *TxOut) string {
	var body string
	switch t.Kind {
	case "transfer":
		body = fmt.Sprintf("(TxTransfer %d %s)", w.aid(t.To), zb(bigS(t.Value)))
	case "call":
		var keys []int64
		for k := range o.Effects {
			keys = append(keys, k)
		}
		sort.Slice(keys, func(i, j int) bool { return keys[i] < keys[j] })
		var es []string
		for _, k := range keys {
			es = append(es, fmt.Sprintf("(%d, %s)", k, zb(o.Effects[k])))
		}
		body = fmt.Sprintf("(TxCall %d %s %d %d %s)", w.ids[w.contract[t.To]], zb(bigS(t.Value)), o.Used, o.Refund, lst(es))
	default:
		body = "(TxStake " + w.actionCoq(t) + ")"
	}
	return fmt.Sprintf("mkTx %s %d %d %d %d %d %s", zi(o.ID), w.aid(t.From), o.Nonce, t.Gas, t.Price, o.IGas, body)
}

func (w *World) blockCoq(b *BlockIn, o *BlockOut) string {
	var txs, evs []string
	for i := range b.Txs {
		txs = append(txs, w.txCoq(&b.Txs[i], &o.Txs[i]))
	}
	for _, e := range o.Pool {
		evs = append(evs, fmt.Sprintf("(%d, %s, %s)", e[0], zi(e[1]), bl(e[2] == 1)))
	}
	ob := "None"
	if o.Crashed == "" && o.Obs != nil {
		ob = "(Some " + obsCoq(o.Obs) + ")"
	}
	return fmt.Sprintf("(mkBlock %d %s %s,\n %s)", w.vid(b.Proposer), lst(txs), lst(evs), ob)
}
