// C07 harness, part 1: the executor.  It drives the REAL implementation of the
// working tree block by block the way miner/worker.go does: state.New on the
// parent's roots (with core.StakingRootForNewBlock), StateProcessor.
// ApplyTransaction for every transaction (snapshot + revert on error, as
// commitTransaction does), StateProcessor.EndBlock with the real
// staking.EndBlock hook on the sealing path, IntermediateRoot(true) + Commit,
// and stores the block so that processPendingTxs finds the pending
// transactions on disk.  After every block the committed state is re-opened
// from its roots and dumped (accounts, validators, statistics, withdraw queue,
// staking records) in a canonical form.
package main

import (
	"bytes"
	"crypto/ecdsa"
	"fmt"
	"math/big"
	"runtime/debug"
	"sort"
	"strings"

	"github.com/youchainhq/go-youchain/common"
	"github.com/youchainhq/go-youchain/core"
	"github.com/youchainhq/go-youchain/core/rawdb"
	"github.com/youchainhq/go-youchain/core/state"
	"github.com/youchainhq/go-youchain/core/types"
	"github.com/youchainhq/go-youchain/core/vm"
	"github.com/youchainhq/go-youchain/crypto"
	"github.com/youchainhq/go-youchain/local"
	"github.com/youchainhq/go-youchain/logging"
	"github.com/youchainhq/go-youchain/params"
	"github.com/youchainhq/go-youchain/rlp"
	"github.com/youchainhq/go-youchain/staking"
	"github.com/youchainhq/go-youchain/youdb"
)

// ---- inputs (a History fully determines a run; it is the replay format) ----

type Params struct {
	Unit             string    `json:"unit"` // params.StakeUint for this history
	Freq             uint64    `json:"freq"`
	WithdrawDelay    uint64    `json:"withdraw_delay"`
	Retention        uint64    `json:"retention"`
	MaxRewardsPeriod uint64    `json:"max_rewards_period"`
	ExpelDS          uint64    `json:"expel_ds"`
	ExpelInactive    uint64    `json:"expel_inactive"`
	FracDS           uint64    `json:"frac_ds"`
	FracInactive     uint64    `json:"frac_inactive"`
	InactWait        uint64    `json:"inact_wait"`
	MinStakes        [3]uint64 `json:"min_stakes"`
	MaxStakes        [3]uint64 `json:"max_stakes"`
	MinSelf          [3]uint64 `json:"min_self"`
	Ratio            [3]uint64 `json:"ratio"`
	MaxDlgVal        int       `json:"max_dlg_val"`
	MaxDlgDlg        int       `json:"max_dlg_dlg"`
	MinDlgTokens     string    `json:"min_dlg_tokens"`
	SubsidyThreshold uint64    `json:"subsidy_threshold"`
	SubsidyCoeff     uint8     `json:"subsidy_coeff"`
}

type GenesisVal struct {
	Key        int    `json:"key"` // validator key index
	Operator   int    `json:"operator"`
	Coinbase   int    `json:"coinbase"`
	Role       uint8  `json:"role"`
	Token      string `json:"token"`
	Online     bool   `json:"online"`
	Accept     uint16 `json:"accept"`
	Commission uint16 `json:"commission"`
	Risk       uint16 `json:"risk"`
	Dist       string `json:"dist,omitempty"` // initial RewardsDistributable (taken from the pool account's genesis balance)
}

type TxIn struct {
	Kind       string `json:"kind"` // transfer call create update deposit withdraw status settle dadd dsub dsettle bad badaction
	From       int    `json:"from"`
	NonceDelta int    `json:"nonce_delta,omitempty"`
	Gas        uint64 `json:"gas"`
	Price      uint64 `json:"price"`
	To         int    `json:"to,omitempty"`    // transfer: account index; call: contract index
	Value      string `json:"value,omitempty"` // transfer/call: tx value; staking: the action's value
	TxValue    string `json:"tx_value,omitempty"`
	Val        int    `json:"val,omitempty"` // validator key index
	Operator   int    `json:"operator,omitempty"`
	Coinbase   int    `json:"coinbase,omitempty"`
	Recipient  int    `json:"recipient,omitempty"`
	Role       uint8  `json:"role,omitempty"`
	Status     uint8  `json:"status,omitempty"`
	Accept     uint16 `json:"accept,omitempty"`
	Commission uint16 `json:"commission,omitempty"`
	Risk       uint16 `json:"risk,omitempty"`
	Name       int    `json:"name,omitempty"`
}

type EvIn struct {
	Round    uint64 `json:"round"`
	Signer   int    `json:"signer"`              // validator key index
	SameHash bool   `json:"same_hash,omitempty"` // both signatures are for one hash: no offence
}

type BlockIn struct {
	Proposer int    `json:"proposer"` // validator key index
	Txs      []TxIn `json:"txs"`
	Evs      []EvIn `json:"evs,omitempty"` // evidences that reach the node before this block is sealed
}

type History struct {
	Comment  string       `json:"comment,omitempty"`
	Params   Params       `json:"params"`
	Balances []string     `json:"balances"` // one per account
	Pool     string       `json:"pool"`     // balance of the rewards pool account
	NVKeys   int          `json:"nvkeys"`
	Vals     []GenesisVal `json:"vals"`
	Blocks   []BlockIn    `json:"blocks"`
}

// ---- observations -------------------------------------------------------------

type ODlg struct{ Addr int64; Stake, Token *big.Int }
type OVal struct {
	Addr, Name, Operator, Coinbase    int64
	Role, Status                      int64
	Expelled                          bool
	ExpelExpired, LastInactive        uint64
	Token, Stake, SelfToken, SelfStake *big.Int
	Dist, Total                       *big.Int
	LastSettled                       uint64
	Accept, Commission, Risk          int64
	Dlgs                              []ODlg
	LastActive                        uint64
}
type OStat struct {
	OnStake, OnToken   *big.Int
	OnCount            uint64
	OffStake, OffToken *big.Int
	OffCount           uint64
	Residue, Rewards   *big.Int
}
type OW struct {
	Operator, Delegator, Validator, Recipient int64
	Creation, Completion                      uint64
	Initial, Final                            *big.Int
	Finished                                  int64
}
type ORec struct {
	D, V  int64
	Final *big.Int
	Txs   []int64
}
type Obs struct {
	Bal    []*big.Int
	Nonce  []uint64
	ADlgs  [][]int64
	Vals   []OVal
	Roles  [3]OStat
	Kinds  [3]OStat
	Queue  []OW
	Recs   []ORec
	PRel   [][2]int64
	Supply *big.Int // oracle: the sum over this dump
}

// TxOut is what the implementation did with one submitted transaction.
type TxOut struct {
	ID       int64
	Included bool
	Err      string // error class when not included
	Nonce    uint64
	IGas     uint64
	Used     uint64
	Failed   bool
	Price    uint64
	Refund   uint64           // (gas returned to the sender) - (gas limit - gas used), in gas units
	Effects  map[int64]*big.Int // call: balance deltas not explained by gas
}

type BlockOut struct {
	Topics  []string
	Number  uint64
	Crashed string
	Txs     []TxOut
	Pool    [][3]int64 // evidence pool seen by EndBlock: (round, signer id, 1 = different hashes)
	Obs     *Obs
	Subsidy *big.Int
	GasRew  *big.Int
}

// ---- world ----------------------------------------------------------------------

type stubChain struct {
	yp      *params.YouParams
	headers map[common.Hash]*types.Header
	head    *types.Header
}

func (c *stubChain) VersionForRound(uint64) (*params.YouParams, error) { return c.yp, nil }
func (c *stubChain) GetHeader(h common.Hash, n uint64) *types.Header    { return c.headers[h] }
func (c *stubChain) GetHeaderByHash(h common.Hash) *types.Header        { return c.headers[h] }
func (c *stubChain) GetBlock(common.Hash, uint64) *types.Block          { return nil }
func (c *stubChain) CurrentHeader() *types.Header                       { return c.head }

var (
	contractCodes = [][]byte{
		nil, // forwarder, filled in newWorld (needs the target address)
		{0x60, 0x00, 0x60, 0x00, 0xfd}, // reverter: PUSH1 0 PUSH1 0 REVERT
		// toggler: if sload(0)==0 {sstore(0,1)} else {sstore(0,0)}  (the clearing call earns a gas refund)
		{0x60, 0x00, 0x54, 0x15, 0x60, 0x0d, 0x57, 0x60, 0x00, 0x60, 0x00, 0x55, 0x00, 0x5b, 0x60, 0x01, 0x60, 0x00, 0x55, 0x00},
	}
)

type World struct {
	h        *History
	yp       *params.YouParams
	db       youdb.Database
	sdb      state.Database
	proc     *core.StateProcessor
	stk      *staking.Staking
	bc       *core.BlockChain
	chain    *stubChain
	keys     []*ecdsa.PrivateKey
	addrs    []common.Address
	vkeys    []*ecdsa.PrivateKey
	vpub     [][]byte
	vmain    []common.Address
	contract []common.Address
	pool     common.Address
	penalty  common.Address
	uni      []common.Address // sorted universe
	ids      map[common.Address]int64
	parent   *types.Block
	txids    map[common.Hash]int64
	ntx      int64
	order    [][2]int64 // iteration order of the staking trie over all (delegator, validator) pairs
}

func detKey(tag byte, i int) *ecdsa.PrivateKey {
	b := crypto.Keccak256([]byte{tag, byte(i), 0x07, 0xc0})
	k, err := crypto.ToECDSA(b)
	if err != nil {
		panic(err)
	}
	return k
}

func bigS(s string) *big.Int {
	if s == "" {
		return new(big.Int)
	}
	v, ok := new(big.Int).SetString(s, 10)
	if !ok {
		panic("bad number " + s)
	}
	return v
}

func quietLogs() {
	logging.Root().SetHandler(logging.FuncHandler(func(r *logging.Record) error {
		if r.Lvl == logging.LvlCrit {
			panic("CRIT: " + r.Msg) // logging.Crit would os.Exit(1); the harness turns it into a recoverable crash
		}
		return nil
	}))
}

func (p *Params) youParams(pool, penalty common.Address) *params.YouParams {
	base := params.Versions[params.YouV5].DeepCopy()
	yp := &base
	yp.Version = params.YouV5
	sp := &yp.StakingParams
	sp.RewardsPoolAddress = pool
	sp.PenaltyTo = penalty
	sp.SubsidyThreshold = p.SubsidyThreshold
	sp.SubsidyCoeff = p.SubsidyCoeff
	roles := []params.ValidatorRole{params.RoleChancellor, params.RoleSenator, params.RoleHouse}
	for i, r := range roles {
		sp.MinStakes[r] = p.MinStakes[i]
		sp.MaxStakes[r] = p.MaxStakes[i]
		sp.MinSelfStakes[r] = p.MinSelf[i]
		sp.RewardsDistRatio[r] = p.Ratio[i]
		sp.SignatureRequired[r] = false
	}
	sp.MaxRewardsPeriod = p.MaxRewardsPeriod
	sp.WithdrawDelay = p.WithdrawDelay
	sp.WithdrawRecordRetention = p.Retention
	sp.ExpelledRoundForDoubleSign = p.ExpelDS
	sp.ExpelledRoundForInactive = p.ExpelInactive
	sp.PenaltyFractionForDoubleSign = p.FracDS
	sp.PenaltyFractionForInactive = p.FracInactive
	sp.InactivityPenaltyWaitRounds = p.InactWait
	sp.StakingTrieFrequency = p.Freq
	sp.MaxDelegationForValidator = p.MaxDlgVal
	sp.MaxDelegationForDelegator = p.MaxDlgDlg
	sp.MinDelegationTokens = bigS(p.MinDlgTokens)
	return yp
}

func newWorld(h *History) *World {
	w := &World{h: h, txids: map[common.Hash]int64{}}
	if h.Params.Unit == "" {
		h.Params.Unit = "1000000000000000000"
	}
	params.StakeUint = bigS(h.Params.Unit)
	setUnit(h.Params.Unit)
	w.pool = common.BigToAddress(big.NewInt(0x1111111111))
	w.penalty = common.BigToAddress(big.NewInt(0x1111111112))
	w.yp = h.Params.youParams(w.pool, w.penalty)
	for i := range h.Balances {
		k := detKey('a', i)
		w.keys = append(w.keys, k)
		w.addrs = append(w.addrs, crypto.PubkeyToAddress(k.PublicKey))
	}
	for i := 0; i < h.NVKeys; i++ {
		k := detKey('v', i)
		w.vkeys = append(w.vkeys, k)
		pub := crypto.CompressPubkey(&k.PublicKey)
		w.vpub = append(w.vpub, pub)
		w.vmain = append(w.vmain, state.PubToAddress(pub))
	}
	for i := range contractCodes {
		w.contract = append(w.contract, common.BigToAddress(big.NewInt(int64(0xc0de00+i))))
	}
	// universe, sorted bytewise: id 0 is the zero address
	w.uni = append(w.uni, common.Address{}, w.pool, w.penalty, params.StakingModuleAddress)
	w.uni = append(w.uni, w.addrs...)
	w.uni = append(w.uni, w.vmain...)
	w.uni = append(w.uni, w.contract...)
	sort.Slice(w.uni, func(i, j int) bool { return bytes.Compare(w.uni[i][:], w.uni[j][:]) < 0 })
	w.ids = map[common.Address]int64{}
	for i, a := range w.uni {
		w.ids[a] = int64(i)
	}
	// staking-trie iteration order over every possible record key
	type kh struct {
		k [2]int64
		h []byte
	}
	var khs []kh
	ds := append([]common.Address{{}}, w.addrs...)
	for _, d := range ds {
		for _, v := range w.vmain {
			khs = append(khs, kh{[2]int64{w.ids[d], w.ids[v]}, crypto.Keccak256(append(append([]byte{}, d[:]...), v[:]...))})
		}
	}
	sort.Slice(khs, func(i, j int) bool { return bytes.Compare(khs[i].h, khs[j].h) < 0 })
	for _, x := range khs {
		w.order = append(w.order, x.k)
	}

	w.db = youdb.NewMemDatabase()
	w.sdb = state.NewDatabase(w.db)
	w.chain = &stubChain{yp: w.yp, headers: map[common.Hash]*types.Header{}}
	w.proc = core.NewStateProcessor(nil, nil)
	w.stk = staking.NewStaking(nil)
	w.stk.Register(w.proc)

	// genesis
	st, err := state.New(common.Hash{}, common.Hash{}, common.Hash{}, w.sdb)
	if err != nil {
		panic(err)
	}
	for i, b := range h.Balances {
		st.AddBalance(w.addrs[i], bigS(b))
	}
	pool := bigS(h.Pool)
	// forwarder: sends half of the call value on to account 0
	fw := []byte{0x60, 0x00, 0x60, 0x00, 0x60, 0x00, 0x60, 0x00, 0x60, 0x02, 0x34, 0x04, 0x73}
	fw = append(fw, w.addrs[0][:]...)
	fw = append(fw, 0x5a, 0xf1, 0x00)
	for i, c := range contractCodes {
		if i == 0 {
			c = fw
		}
		st.SetCode(w.contract[i], c)
		st.SetNonce(w.contract[i], 1)
	}
	for _, gv := range h.Vals {
		tok := bigS(gv.Token)
		status := params.ValidatorOffline
		if gv.Online {
			status = params.ValidatorOnline
		}
		v := st.CreateValidator(fmt.Sprintf("g%d", gv.Key), w.addrs[gv.Operator], w.addrs[gv.Coinbase], params.ValidatorRole(gv.Role),
			w.vpub[gv.Key], []byte{0xb1, byte(gv.Key)}, tok, params.YOUToStake(tok), gv.Accept, gv.Commission, gv.Risk, status)
		if v == nil {
			panic("duplicate genesis validator")
		}
		if d := bigS(gv.Dist); d.Sign() > 0 {
			old := v.PartialCopy()
			v.AddTotalRewards(d)
			st.UpdateValidator(v, old)
			pool.Sub(pool, d)
		}
		if gv.Online {
			old := v.PartialCopy()
			v.UpdateLastActive(0)
			st.UpdateValidator(v, old)
		}
	}
	if pool.Sign() < 0 {
		panic("pool too small for initial distributable amounts")
	}
	st.AddBalance(w.pool, pool)
	root, valRoot, stakingRoot, err := st.Commit(false)
	if err != nil {
		panic(err)
	}
	w.commitTries(root, valRoot, stakingRoot)
	hdr := &types.Header{Number: big.NewInt(0), Root: root, ValRoot: valRoot, StakingRoot: stakingRoot, GasLimit: 1 << 40,
		GasRewards: big.NewInt(0), Subsidy: big.NewInt(0), CurrVersion: params.YouV5, Time: 10,
		Extra: []byte{}, SlashData: []byte{}, Consensus: []byte{}, ChtRoot: []byte{}, BltRoot: []byte{}, Signature: []byte{}, Validator: []byte{}, Certificate: []byte{}}
	w.parent = types.NewBlock(hdr, nil, nil)
	w.storeBlock(w.parent)
	w.bc = core.VerifStubChainC07(w.parent.Header())
	staking.VerifSetChainC07(w.stk, w.bc)
	return w
}

func (w *World) commitTries(roots ...common.Hash) {
	for _, r := range roots {
		if r == (common.Hash{}) {
			continue
		}
		if err := w.sdb.TrieDB().Commit(r, false); err != nil {
			panic(err)
		}
	}
}

func (w *World) storeBlock(b *types.Block) {
	rawdb.WriteBlock(w.db, b)
	rawdb.WriteCanonicalHash(w.db, b.Hash(), b.NumberU64())
	rawdb.WriteTxLookupEntries(w.db, b)
	hd := b.Header()
	w.chain.headers[b.Hash()] = hd
	w.chain.head = hd
}

func (w *World) id(a common.Address) int64 {
	if i, ok := w.ids[a]; ok {
		return i
	}
	return -1
}

func nameOf(n int) string {
	if n == 0 {
		return ""
	}
	return fmt.Sprintf("n%d", n)
}
func nameID(s string) int64 {
	if s == "" {
		return 0
	}
	var k int64
	if _, err := fmt.Sscanf(s, "n%d", &k); err == nil {
		return k
	}
	if _, err := fmt.Sscanf(s, "g%d", &k); err == nil {
		return 1000 + k
	}
	return -1
}

func (w *World) acct(i int) common.Address {
	if i < 0 || i >= len(w.addrs) {
		return common.Address{}
	}
	return w.addrs[i]
}

// buildTx encodes one submitted transaction; the nonce is the sender's current
// nonce plus NonceDelta.
func (w *World) buildTx(st *state.StateDB, t *TxIn) *types.Transaction {
	from := w.addrs[t.From]
	nonce := uint64(int64(st.GetNonce(from)) + int64(t.NonceDelta))
	price := new(big.Int).SetUint64(t.Price)
	var tx *types.Transaction
	stakingTx := func(action staking.ActionType, payload interface{}) *types.Transaction {
		bs, err := rlp.EncodeToBytes(payload)
		if err != nil {
			panic(err)
		}
		data, err := rlp.EncodeToBytes(&staking.Message{Action: action, Payload: bs})
		if err != nil {
			panic(err)
		}
		return types.NewTransaction(nonce, params.StakingModuleAddress, bigS(t.TxValue), t.Gas, price, data)
	}
	main := common.Address{}
	if t.Val >= 0 && t.Val < len(w.vmain) {
		main = w.vmain[t.Val]
	}
	switch t.Kind {
	case "transfer":
		tx = types.NewTransaction(nonce, w.acct(t.To), bigS(t.Value), t.Gas, price, nil)
	case "call":
		tx = types.NewTransaction(nonce, w.contract[t.To], bigS(t.Value), t.Gas, price, nil)
	case "create":
		var pub []byte
		if t.Val >= 0 && t.Val < len(w.vpub) {
			pub = w.vpub[t.Val]
		}
		tx = stakingTx(staking.ValidatorCreate, &staking.TxCreateValidator{Name: nameOf(t.Name), OperatorAddress: w.acct(t.Operator), Coinbase: w.acct(t.Coinbase),
			MainPubKey: pub, BlsPubKey: []byte{0xb1, byte(t.Val)}, Value: bigS(t.Value), Nonce: nonce,
			CommissionRate: t.Commission, RiskObligation: t.Risk, AcceptDelegation: t.Accept, Role: params.ValidatorRole(t.Role)})
	case "update":
		tx = stakingTx(staking.ValidatorUpdate, &staking.TxUpdateValidator{Nonce: nonce, Name: nameOf(t.Name), MainAddress: main, OperatorAddress: w.acct(t.Operator),
			Coinbase: w.acct(t.Coinbase), CommissionRate: t.Commission, RiskObligation: t.Risk, AcceptDelegation: t.Accept})
	case "deposit":
		tx = stakingTx(staking.ValidatorDeposit, &staking.TxValidatorDeposit{MainAddress: main, Value: bigS(t.Value), Nonce: nonce})
	case "withdraw":
		tx = stakingTx(staking.ValidatorWithDraw, &staking.TxValidatorWithdraw{MainAddress: main, Recipient: w.acct(t.Recipient), Value: bigS(t.Value), Nonce: nonce})
	case "status":
		tx = stakingTx(staking.ValidatorChangeStatus, &staking.TxValidatorChangeStatus{MainAddress: main, Status: t.Status, Nonce: nonce})
	case "settle":
		tx = stakingTx(staking.ValidatorSettle, &staking.TxValidatorSettle{MainAddress: main})
	case "dadd":
		tx = stakingTx(staking.DelegationAdd, &staking.TxDelegation{Validator: main, Value: bigS(t.Value)})
	case "dsub":
		tx = stakingTx(staking.DelegationSub, &staking.TxDelegation{Validator: main, Value: bigS(t.Value)})
	case "dsettle":
		tx = stakingTx(staking.DelegationSettle, &staking.TxDelegationSettle{Validator: main})
	case "badaction":
		tx = stakingTx(staking.ActionType(0x7f), &staking.TxValidatorSettle{MainAddress: main})
	default: // "bad": bytes that are not a staking message
		tx = types.NewTransaction(nonce, params.StakingModuleAddress, bigS(t.TxValue), t.Gas, price, []byte{0xff, 0x00, byte(t.Name)})
	}
	signed, err := types.SignTx(tx, types.MakeSigner(nil), w.keys[t.From])
	if err != nil {
		panic(err)
	}
	return signed
}

func errClass(err error) string {
	switch err {
	case core.ErrNonceTooHigh:
		return "nonce_too_high"
	case core.ErrNonceTooLow:
		return "nonce_too_low"
	case vm.ErrOutOfGas:
		return "intrinsic_gas"
	case vm.ErrInsufficientBalance:
		return "insufficient_value"
	case core.ErrGasLimitReached:
		return "gas_pool"
	}
	if err.Error() == "insufficient balance to pay for gas" {
		return "insufficient_gas_money"
	}
	return "other:" + err.Error()
}

// runBlock executes one block on the implementation.
func (w *World) runBlock(b *BlockIn) (out *BlockOut) {
	parent := w.parent.Header()
	num := parent.Number.Uint64() + 1
	out = &BlockOut{Number: num}
	defer func() {
		if r := recover(); r != nil {
			out.Crashed = fmt.Sprint(r)
			if len(out.Crashed) > 160 {
				out.Crashed = out.Crashed[:160]
			}
			// name the innermost staking function on the stack (for the outcome classes)
			for _, ln := range strings.Split(string(debug.Stack()), "\n") {
				if i := strings.Index(ln, "go-youchain/staking."); i >= 0 && !strings.Contains(ln, "EndBlock") {
					f := ln[i+len("go-youchain/staking."):]
					if j := strings.Index(f, "("); j > 0 {
						f = f[:j]
					}
					out.Crashed += " @" + f
					break
				}
			}
		}
	}()
	stakingRoot := core.StakingRootForNewBlock(w.yp.StakingTrieFrequency, parent)
	st, err := state.New(parent.Root, parent.ValRoot, stakingRoot, w.sdb)
	if err != nil {
		panic(err)
	}
	coinbase := common.Address{}
	if b.Proposer >= 0 && b.Proposer < len(w.vmain) {
		coinbase = w.vmain[b.Proposer]
	}
	header := &types.Header{ParentHash: w.parent.Hash(), Coinbase: coinbase, Number: new(big.Int).SetUint64(num), GasLimit: 1 << 40,
		GasRewards: big.NewInt(0), Subsidy: big.NewInt(0), CurrVersion: params.YouV5, Time: parent.Time + 10,
		Extra: []byte{}, SlashData: []byte{}, Consensus: []byte{}, ChtRoot: []byte{}, BltRoot: []byte{}, Signature: []byte{}, Validator: []byte{}, Certificate: []byte{}}
	st.IntermediateRoot(true)
	gp := new(core.GasPool).AddGas(header.GasLimit)
	cfg := core.CombineVMConfig(w.yp, vm.LocalConfig{})
	signer := types.MakeSigner(header.Number)
	var txs []*types.Transaction
	var receipts []*types.Receipt
	for i := range b.Txs {
		t := &b.Txs[i]
		tx := w.buildTx(st, t)
		id := w.ntx
		w.ntx++
		if _, seen := w.txids[tx.Hash()]; !seen { // a byte-identical resubmission keeps the id of the first one
			w.txids[tx.Hash()] = id
		}
		to := TxOut{ID: id, Nonce: tx.Nonce(), Price: t.Price}
		conv := w.proc.GetConverter(tx.To())
		to.IGas, _ = conv.IntrinsicGas(tx.Data(), tx.To())
		before := w.balances(st)
		gasRewBefore := new(big.Int).Set(header.GasRewards)
		snap := st.Snapshot()
		st.Prepare(tx.Hash(), common.Hash{}, len(txs))
		receipt, gas, err := w.proc.ApplyTransaction(tx, signer, st, w.chain, header, &coinbase, &header.GasUsed, header.GasRewards, gp, cfg, local.FakeRecorder())
		if err != nil {
			st.RevertToSnapshot(snap)
			to.Err = errClass(err)
			out.Txs = append(out.Txs, to)
			continue
		}
		to.Included = true
		to.Used = gas
		to.Failed = receipt.Status == types.ReceiptStatusFailed
		// what the sender got back beyond (limit - used) * price, in gas units; balance deltas not explained by gas
		after := w.balances(st)
		price := new(big.Int).SetUint64(t.Price)
		paid := new(big.Int).Sub(header.GasRewards, gasRewBefore) // used * price
		to.Effects = map[int64]*big.Int{}
		fromID := w.ids[w.addrs[t.From]]
		for j := range after {
			d := new(big.Int).Sub(after[j], before[j])
			if int64(j) == fromID {
				d.Add(d, paid)
			}
			if d.Sign() != 0 {
				to.Effects[int64(j)] = d
			}
		}
		if t.Kind == "call" || t.Kind == "transfer" {
			// separate the refund-counter part (a multiple of the price credited to the sender on top of the value flow)
			sum := new(big.Int)
			for _, d := range to.Effects {
				sum.Add(sum, d)
			}
			if sum.Sign() != 0 && price.Sign() > 0 {
				q, r := new(big.Int).QuoRem(sum, price, new(big.Int))
				if r.Sign() == 0 && q.Sign() > 0 && q.IsUint64() {
					to.Refund = q.Uint64()
					e := to.Effects[fromID]
					e.Sub(e, sum)
					if e.Sign() == 0 {
						delete(to.Effects, fromID)
					}
				}
			}
		}
		txs = append(txs, tx)
		receipts = append(receipts, receipt)
		out.Txs = append(out.Txs, to)
	}
	out.GasRew = new(big.Int).Set(header.GasRewards)

	// evidences reach the node; the sealing path of EndBlock processes the pool
	if len(b.Evs) > 0 {
		rounds, signers, differ := staking.VerifEvidenceRoundsC07(w.stk)
		var evs []staking.Evidence
		for i := range rounds {
			evs = append(evs, staking.VerifDoubleSignC07(rounds[i], signers[i], differ[i]))
		}
		for _, e := range b.Evs {
			a := common.Address{}
			if e.Signer >= 0 && e.Signer < len(w.vmain) {
				a = w.vmain[e.Signer]
			}
			evs = append(evs, staking.VerifDoubleSignC07(e.Round, a, !e.SameHash))
		}
		staking.VerifSetEvidencesC07(w.stk, evs)
	}
	rounds, signers, differ := staking.VerifEvidenceRoundsC07(w.stk)
	for i := range rounds {
		d := int64(0)
		if differ[i] {
			d = 1
		}
		out.Pool = append(out.Pool, [3]int64{int64(rounds[i]), w.id(signers[i]), d})
	}
	// the stub BlockChain's head stays at genesis on purpose: since ec9154c the evidences of a block are
	// judged against header.Number-1, and a regression to the chain head would show as a disagreement
	w.chain.head = parent

	recs, _, _ := w.proc.EndBlock(w.chain, header, txs, st, true, local.FakeRecorder())
	for _, r := range recs {
		if r != nil {
			receipts = append(receipts, r)
			for _, l := range r.Logs { // outcome classes of the end-of-block code, by log topic
				if len(l.Topics) > 0 {
					out.Topics = append(out.Topics, strings.TrimLeft(string(l.Topics[0].Bytes()), "\x00"))
				}
			}
		}
	}
	out.Subsidy = new(big.Int).Set(header.Subsidy)
	header.Root, header.ValRoot, header.StakingRoot = st.IntermediateRoot(true)
	if err := st.Error(); err != nil {
		// e.g. "rlp: cannot encode negative *big.Int" from updateStakingTrie: the tries of this block are unreliable
		panic("dberr: " + err.Error())
	}
	block := types.NewBlock(header, txs, receipts)
	root, valRoot, sRoot, err := st.Commit(true)
	if err != nil {
		panic(err)
	}
	w.commitTries(root, valRoot, sRoot)
	w.storeBlock(block)
	w.parent = block
	out.Obs = w.dump(block.Header())
	return out
}

func (w *World) balances(st *state.StateDB) []*big.Int {
	out := make([]*big.Int, len(w.uni))
	for i, a := range w.uni {
		out[i] = new(big.Int).Set(st.GetBalance(a))
	}
	return out
}

func statOf(d state.DumpValidatorsStatItem) OStat {
	return OStat{bigS(d.OnlineStake), bigS(d.OnlineToken), d.OnlineCount, bigS(d.OfflineStake), bigS(d.OfflineToken), d.OfflineCount, bigS(d.RewardsResidue), bigS(d.RewardsDistributable)}
}

// dump re-opens the committed state of a block and reads everything the
// property talks about.
func (w *World) dump(h *types.Header) *Obs {
	st, err := state.New(h.Root, h.ValRoot, h.StakingRoot, w.sdb)
	if err != nil {
		panic(err)
	}
	o := &Obs{Supply: new(big.Int)}
	o.Bal = w.balances(st)
	for _, b := range o.Bal {
		o.Supply.Add(o.Supply, b)
	}
	for _, a := range w.uni {
		o.Nonce = append(o.Nonce, st.GetNonce(a))
		ds := []int64{}
		for _, v := range state.VerifDelegationsOfC07(st, a) {
			ds = append(ds, w.id(v))
		}
		o.ADlgs = append(o.ADlgs, ds)
	}
	vals := st.GetValidators().List()
	for _, v := range vals {
		ov := OVal{Addr: w.id(v.MainAddress()), Name: nameID(v.Name), Operator: w.id(v.OperatorAddress), Coinbase: w.id(v.Coinbase),
			Role: int64(v.Role), Status: int64(v.Status), Expelled: v.Expelled, ExpelExpired: v.ExpelExpired, LastInactive: v.LastInactive,
			Token: v.Token, Stake: v.Stake, SelfToken: v.SelfToken, SelfStake: v.SelfStake, Dist: v.RewardsDistributable, Total: v.RewardsTotal,
			LastSettled: v.RewardsLastSettled, Accept: int64(v.AcceptDelegation), Commission: int64(v.CommissionRate), Risk: int64(v.RiskObligation),
			LastActive: v.LastActive()}
		for _, d := range v.Delegations {
			ov.Dlgs = append(ov.Dlgs, ODlg{w.id(d.Delegator), d.Stake, d.Token})
		}
		o.Vals = append(o.Vals, ov)
		o.Supply.Add(o.Supply, v.Token)
		o.Supply.Add(o.Supply, v.RewardsDistributable)
	}
	sort.Slice(o.Vals, func(i, j int) bool { return o.Vals[i].Addr < o.Vals[j].Addr })
	stat, err := st.GetValidatorsStat()
	if err != nil {
		panic(err)
	}
	sd := stat.Dump()
	for i, r := range []params.ValidatorRole{params.RoleChancellor, params.RoleSenator, params.RoleHouse} {
		o.Roles[i] = statOf(sd.Roles[r])
		o.Supply.Add(o.Supply, o.Roles[i].Rewards)
	}
	for i, k := range []params.ValidatorKind{params.KindValidator, params.KindChamber, params.KindHouse} {
		o.Kinds[i] = statOf(sd.Kinds[k])
	}
	o.Supply.Add(o.Supply, o.Kinds[0].Residue)
	for _, r := range st.GetWithdrawQueue().Records {
		o.Queue = append(o.Queue, OW{w.id(r.Operator), w.id(r.Delegator), w.id(r.Validator), w.id(r.Recipient), r.CreationHeight, r.CompletionHeight,
			new(big.Int).Set(r.InitialBalance), new(big.Int).Set(r.FinalBalance), int64(r.Finished)})
		if r.Finished == 0 {
			o.Supply.Add(o.Supply, r.FinalBalance)
		}
	}
	// staking records of the current period: value still detained = the value of every pending create/deposit/delegation-add
	err = st.ForEachStakingRecord(func(d, v common.Address, rec *state.Record) error {
		or := ORec{D: w.id(d), V: w.id(v), Final: new(big.Int).Set(rec.FinalValue)}
		for _, hsh := range rec.TxHashes {
			id, ok := w.txids[hsh]
			if !ok {
				id = -1
			}
			or.Txs = append(or.Txs, id)
			tx, _, _, _ := rawdb.ReadTransaction(w.db, hsh)
			if tx != nil {
				o.Supply.Add(o.Supply, detained(tx))
			}
		}
		o.Recs = append(o.Recs, or)
		return nil
	})
	if err != nil {
		panic(err)
	}
	sort.Slice(o.Recs, func(i, j int) bool {
		if o.Recs[i].D != o.Recs[j].D {
			return o.Recs[i].D < o.Recs[j].D
		}
		return o.Recs[i].V < o.Recs[j].V
	})
	for _, k := range w.order {
		if st.PendingRelationshipExist(w.uni[k[0]], w.uni[k[1]]) {
			o.PRel = append(o.PRel, k)
		}
	}
	sort.Slice(o.PRel, func(i, j int) bool {
		if o.PRel[i][0] != o.PRel[j][0] {
			return o.PRel[i][0] < o.PRel[j][0]
		}
		return o.PRel[i][1] < o.PRel[j][1]
	})
	return o
}

// detained is the amount a pending staking transaction took out of its
// sender's balance at submission (the oracle's own reading of the payload).
func detained(tx *types.Transaction) *big.Int {
	var msg staking.Message
	if rlp.DecodeBytes(tx.Data(), &msg) != nil {
		return new(big.Int)
	}
	switch msg.Action {
	case staking.ValidatorCreate:
		var p staking.TxCreateValidator
		if rlp.DecodeBytes(msg.Payload, &p) == nil && p.Value != nil {
			return p.Value
		}
	case staking.ValidatorDeposit:
		var p staking.TxValidatorDeposit
		if rlp.DecodeBytes(msg.Payload, &p) == nil && p.Value != nil {
			return p.Value
		}
	case staking.DelegationAdd:
		var p staking.TxDelegation
		if rlp.DecodeBytes(msg.Payload, &p) == nil && p.Value != nil {
			return p.Value
		}
	}
	return new(big.Int)
}
