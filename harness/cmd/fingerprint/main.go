// fingerprint prints a normalised-AST hash for Go functions: comments and calls
// to the logging package are stripped, so that harmless edits to logs/comments
// do not register.  Usage: fingerprint <repo root> <file.go:Func|file.go:Recv.Method> ...
// Output: one line "<spec> <sha256-prefix>" (or "<spec> MISSING").
package main

import (
	"bytes"
	"crypto/sha256"
	"fmt"
	"go/ast"
	"go/parser"
	"go/printer"
	"go/token"
	"os"
	"path/filepath"
	"strings"
)

func recvName(fd *ast.FuncDecl) string {
	if fd.Recv == nil || len(fd.Recv.List) == 0 {
		return ""
	}
	t := fd.Recv.List[0].Type
	if s, ok := t.(*ast.StarExpr); ok {
		t = s.X
	}
	if id, ok := t.(*ast.Ident); ok {
		return id.Name
	}
	return ""
}

func isLogCall(s ast.Stmt) bool {
	es, ok := s.(*ast.ExprStmt)
	if !ok {
		return false
	}
	c, ok := es.X.(*ast.CallExpr)
	if !ok {
		return false
	}
	sel, ok := c.Fun.(*ast.SelectorExpr)
	if !ok {
		return false
	}
	id, ok := sel.X.(*ast.Ident)
	if !ok {
		return false
	}
	if id.Name != "logging" && id.Name != "log" {
		return false
	}
	switch sel.Sel.Name {
	case "Crit", "Critf": // these exit the process: behaviour, keep them
		return false
	}
	return true
}

func strip(n ast.Node) {
	ast.Inspect(n, func(x ast.Node) bool {
		switch b := x.(type) {
		case *ast.BlockStmt:
			var out []ast.Stmt
			for _, s := range b.List {
				if !isLogCall(s) {
					out = append(out, s)
				}
			}
			b.List = out
		case *ast.CaseClause:
			var out []ast.Stmt
			for _, s := range b.Body {
				if !isLogCall(s) {
					out = append(out, s)
				}
			}
			b.Body = out
		}
		return true
	})
}

func main() {
	root := os.Args[1]
	cache := map[string]*ast.File{}
	for _, spec := range os.Args[2:] {
		parts := strings.SplitN(spec, ":", 2)
		file, fn := parts[0], parts[1]
		f, ok := cache[file]
		if !ok {
			fset := token.NewFileSet()
			var err error
			f, err = parser.ParseFile(fset, filepath.Join(root, file), nil, 0)
			if err != nil {
				fmt.Printf("%s MISSING\n", spec)
				continue
			}
			cache[file] = f
		}
		found := false
		for _, d := range f.Decls {
			fd, ok := d.(*ast.FuncDecl)
			if !ok {
				continue
			}
			name := fd.Name.Name
			if r := recvName(fd); r != "" {
				name = r + "." + name
			}
			if name != fn {
				continue
			}
			strip(fd)
			var buf bytes.Buffer
			printer.Fprint(&buf, token.NewFileSet(), fd)
			fmt.Printf("%s %x\n", spec, sha256.Sum256(buf.Bytes()))
			found = true
		}
		if !found {
			fmt.Printf("%s MISSING\n", spec)
		}
	}
}
