// Launch campaign: the REAL launchTrieSync, trieFetcher goroutine, runTrieSync,
// trieSync.run / loop, FetchVldTrie / fetchStakingTrie / syncState + Wait, with
// stub peers.  Histories: completion with an honest peer; cancel before the
// launch with the fetcher idle or busy; cancel during the launch; cancel in the
// middle of a sync; quit while queued; new cycle and re-launch on the database
// left behind; root already complete locally.  The select in launchTrieSync is
// racy, so every cancelled-launch history is repeated.
//
// Oracle (clause "completion is reported only when every node reachable from
// the root is present"): whenever an entry point returns nil / done closes with
// err == nil, the whole trie under the requested root is readable locally; the
// database is closed after every history.  The outcome is also checked in Coq
// against the launch machine (ZLaunch).
package main

import (
	"fmt"
	"math/big"
	"strings"
	"sync"
	"sync/atomic"
	"time"

	"github.com/youchainhq/go-youchain/common"
	"github.com/youchainhq/go-youchain/core"
	"github.com/youchainhq/go-youchain/core/types"
	"github.com/youchainhq/go-youchain/you/downloader"
	"github.com/youchainhq/go-youchain/youdb"
	"verif/harness/vf"
)

// stubPeer answers node-data requests from the source.
type stubPeer struct {
	id    string
	l     *downloader.VerifC19Launcher
	src   *Src
	limit int32 // answer this many requests, then stay silent (-1 = all)
	seen  int32
	lack  map[common.Hash]bool // nodes this peer does not have: it answers, but without them
	more  []*Src               // further sources this peer can answer from
	bad   common.Hash          // the first badN replies containing this node carry it altered but decodable
	badN  int32
}

func (p *stubPeer) Head() (common.Hash, *big.Int)                                { return common.Hash{}, new(big.Int) }
func (p *stubPeer) Origin() *big.Int                                             { return new(big.Int) }
func (p *stubPeer) RequestHeadersByHash(common.Hash, int, int, bool, bool) error { return nil }
func (p *stubPeer) RequestHeadersByNumber(uint64, int, int, bool, bool) error    { return nil }
func (p *stubPeer) RequestBodies([]common.Hash) error                            { return nil }
func (p *stubPeer) RequestReceipts([]common.Hash) error                          { return nil }
func (p *stubPeer) RequestNodeData(kind types.TrieKind, hashes []common.Hash) error {
	n := atomic.AddInt32(&p.seen, 1)
	lim := atomic.LoadInt32(&p.limit)
	if lim >= 0 && n > lim {
		return nil
	}
	blobs := [][]byte{} // a real (non-nil) packet even when it carries nothing
	for _, h := range hashes {
		if p.lack[h] {
			continue
		}
		if b, err := p.src.db.Get(h[:]); err == nil {
			if h == p.bad && atomic.AddInt32(&p.badN, -1) >= 0 {
				if c := softCorrupt(p.src, h, b); c != nil {
					b = c
				}
			}
			blobs = append(blobs, b)
			continue
		}
		for _, s := range p.more {
			if b, err := s.db.Get(h[:]); err == nil {
				blobs = append(blobs, b)
				break
			}
		}
	}
	return p.l.DeliverNodeData(p.id, blobs)
}

type launchHit struct {
	What   string   `json:"what"`
	Detail string   `json:"detail"`
	Launch string   `json:"launch"` // history name (replay key)
	Entry  string   `json:"entry"`
	Source *CaseIn  `json:"source"`
	Steps  []string `json:"steps"`
}

type launchOut struct {
	done bool
	err  error
}

func errClass(err error) int {
	switch {
	case err == nil:
		return 0
	case err == downloader.VerifC19ErrCancelTrieFetch:
		return 1
	case err == downloader.VerifC19ErrCanceled:
		return 2
	default:
		return 3
	}
}

type launchEnv struct {
	src     *Src
	in      *CaseIn
	dst     *youdb.MemDatabase
	l       *downloader.VerifC19Launcher
	peer    *stubPeer
	fetcher bool
	quit    bool
	cancel  bool
	steps   []string
	mu      sync.Mutex
}

func newLaunchEnv(in *CaseIn, src *Src, dst *youdb.MemDatabase) *launchEnv {
	e := &launchEnv{src: src, in: in, dst: dst}
	e.l = downloader.VerifC19NewLauncher(dst)
	return e
}

func (e *launchEnv) log(s string) { e.mu.Lock(); e.steps = append(e.steps, s); e.mu.Unlock() }
func (e *launchEnv) startFetcher() {
	if !e.fetcher {
		e.l.StartFetcher()
		e.fetcher = true
		e.log("fetcher available")
	}
}
func (e *launchEnv) addPeer(limit int) {
	e.peer = &stubPeer{id: "stub", l: e.l, src: e.src, limit: int32(limit)}
	e.l.RegisterPeer("stub", e.peer)
	e.log(fmt.Sprintf("peer registered (answers %d requests; -1 = all)", limit))
}
func (e *launchEnv) addPeerLacking(id string, lack ...common.Hash) {
	m := map[common.Hash]bool{}
	for _, h := range lack {
		m[h] = true
	}
	e.l.RegisterPeer(id, &stubPeer{id: id, l: e.l, src: e.src, limit: -1, lack: m})
	if len(lack) == 0 {
		e.log("honest peer " + id + " registered")
	} else {
		e.log(fmt.Sprintf("peer %s registered: answers every request, but never has node %x", id, lack[0][:6]))
	}
}
func (e *launchEnv) doCancel() { e.l.Cancel(); e.cancel = true; e.log("Cancel()") }
func (e *launchEnv) doQuit()   { e.l.Quit(); e.quit = true; e.log("quitCh closed") }
func (e *launchEnv) newCycle() {
	e.l.NewCycle()
	e.cancel = false
	e.log("new sync cycle (cancelCh re-created)")
}

// launch starts the entry point in a goroutine and returns the channel of its outcome
// plus, for syncState, a way to read Pending() afterwards.
func (e *launchEnv) launch(entry string) (chan error, *int32) {
	res := make(chan error, 1)
	pend := new(int32)
	*pend = -1
	e.log("launch " + entry)
	go func() {
		switch entry {
		case "FetchVldTrie":
			res <- e.l.FetchVldTrie(e.src.root)
		case "fetchStakingTrie":
			res <- e.l.FetchStakingTrie(e.src.root)
		case "fetchCht":
			res <- e.l.FetchCht(e.src.root)
		case "fetchBlt":
			res <- e.l.FetchBlt(e.src.root)
		default: // syncState + Wait
			t := e.l.SyncState(e.src.root)
			err := t.Wait()
			atomic.StoreInt32(pend, int32(t.Pending()))
			res <- err
		}
	}()
	return res, pend
}

func wait(res chan error, d time.Duration) launchOut {
	select {
	case err := <-res:
		return launchOut{true, err}
	case <-time.After(d):
		return launchOut{false, nil}
	}
}

const tick = 3 * time.Millisecond

type launchCampaign struct {
	res  *vf.Result
	coq  []string
	hits []interface{}
}

// judge applies the oracle to one outcome and emits the ZLaunch observation.
func (c *launchCampaign) judge(name, entry string, e *launchEnv, out launchOut, pend *int32, expectTermination bool) {
	c.judgeX(name, entry, e, out, pend, expectTermination, "")
}

// expect: "" nothing beyond the oracle, "error" = the history must end with the
// error of process, "nil" = it must complete
func (c *launchCampaign) judgeX(name, entry string, e *launchEnv, out launchOut, pend *int32, expectTermination bool, expect string) {
	r := &runner{in: e.in, src: e.src, dst: e.dst, it: newInterner(), res: &runResult{classes: map[string]int{}}}
	complete := r.compareContent() == ""
	class := "launch_" + name + "_"
	switch {
	case !out.done:
		class += "notdone"
	default:
		class += fmt.Sprintf("err%d", errClass(out.err))
	}
	c.res.Count(class)
	c.res.Count("launch_histories")
	hit := func(what, detail string) {
		c.hits = append(c.hits, launchHit{what, detail, name, entry, e.in, append([]string{}, e.steps...)})
		c.res.Count("oracle_" + what)
	}
	if out.done && out.err == nil && !complete {
		hit("completion-reported-for-incomplete-trie",
			fmt.Sprintf("%s returned nil in history '%s' but the trie under the requested root is not readable locally: %s", entry, name, r.compareContent()))
	}
	if expect == "error" && out.done && errClass(out.err) != 3 {
		hit("process-error-not-reported", fmt.Sprintf("%s in history '%s' ended with %v; process() had to fail (a node nobody has / an invalid node) and the sync must report that error", entry, name, out.err))
	}
	if expect == "nil" && out.done && out.err != nil {
		hit("sync-with-an-honest-peer-failed", fmt.Sprintf("%s in history '%s' ended with %v although one peer has every node", entry, name, out.err))
	}
	if !out.done && expectTermination {
		hit("launch-history-did-not-terminate", fmt.Sprintf("%s in history '%s' did not return within 10s", entry, name))
	}
	r.checkDb("after launch history " + name)
	if r.res.what != "" && !r.res.known {
		hit(r.res.what, r.res.detail)
	}
	// explanation of the outcome as events of the launch machine
	pending0 := complete
	if p := atomic.LoadInt32(pend); p >= 0 {
		pending0 = p == 0
	}
	var wit []string
	code := 0
	if out.done {
		code = errClass(out.err)
		switch code {
		case 0:
			wit = []string{"AHandover", "AGuardFalse false"}
		case 1:
			wit = []string{"AQuit"}
		case 2:
			wit = []string{"AHandover", "ACancelSeen"}
		default:
			wit = []string{"AHandover", "AGuardFalse true"}
		}
	}
	c.coq = append(c.coq, fmt.Sprintf("ZLaunch %s %s %s %s [%s] %s %d", vf.Bool(e.fetcher), vf.Bool(e.quit), vf.Bool(e.cancel),
		vf.Bool(pending0), strings.Join(wit, ";"), vf.Bool(out.done), code))
}

func launchSources() []*CaseIn {
	var entries [][2]string
	for i := 0; i < 40; i++ {
		k := fmt.Sprintf("%016x", uint64(i)*0x0101010101010101)
		entries = append(entries, [2]string{k, hx([]byte(fmt.Sprintf("some-long-enough-value-to-be-hashed-%03d", i)))})
	}
	var stor [][2]string
	for j := 0; j < 12; j++ {
		stor = append(stor, [2]string{fmt.Sprintf("%064x", 0x1000+j*0x01010101), "a0" + fmt.Sprintf("%064x", j+1)})
	}
	accs := []AccIn{
		{Key: fmt.Sprintf("%064x", 0x11), Nonce: 1, Code: "6060604052" + strings.Repeat("11", 40), Storage: stor},
		{Key: fmt.Sprintf("%064x", 0x2222), Nonce: 2, Deleg: "de01"},
		{Key: fmt.Sprintf("%064x", 0x333333), Nonce: 3},
	}
	return []*CaseIn{{Mode: "trie", Entries: entries}, {Mode: "state", Accounts: accs}}
}

// one named history; returns nothing, records through judge
// sources holding something process() must reject
func oddLaunchSources() []*CaseIn {
	var stor [][2]string
	for j := 0; j < 6; j++ {
		stor = append(stor, [2]string{fmt.Sprintf("%064x", 0x2000+j*0x01010101), "a0" + fmt.Sprintf("%064x", j+7)})
	}
	k := func(b string) string { return strings.Repeat(b, 32) } // spread keys: leaves are hashed nodes of their own
	return []*CaseIn{
		// a storage root whose blob is not a trie node: decodeNode fails on the delivered bytes
		{Mode: "state", Accounts: []AccIn{
			{Key: k("11"), Nonce: 1, Code: "6060604052" + strings.Repeat("22", 40), Storage: stor},
			{Key: k("22"), Nonce: 2, RootBlob: "0102030405060708090a0b0c0d0e0f"},
			{Key: k("33"), Nonce: 3}}},
		// a leaf that is not an account: the state-sync callback fails
		{Mode: "state", Accounts: []AccIn{
			{Key: k("11"), Nonce: 1, Storage: stor},
			{Key: k("22"), Nonce: 2, RawLeaf: "c3010203"},
			{Key: k("33"), Nonce: 3, Deleg: "de02"}}},
	}
}

func (c *launchCampaign) history(name, entry string, in *CaseIn, dst *youdb.MemDatabase) *youdb.MemDatabase {
	src := buildSource(in)
	if dst == nil {
		dst = youdb.NewMemDatabase()
	}
	e := newLaunchEnv(in, src, dst)
	defer e.l.Quit()
	long := 10 * time.Second
	switch name {
	case "honest":
		e.startFetcher()
		e.addPeer(-1)
		res, pend := e.launch(entry)
		c.judge(name, entry, e, wait(res, long), pend, true)
	case "cancel_before_launch_fetcher_idle":
		e.startFetcher()
		e.addPeer(-1)
		e.doCancel()
		res, pend := e.launch(entry)
		c.judge(name, entry, e, wait(res, long), pend, true)
	case "cancel_before_launch_fetcher_busy":
		e.addPeer(-1)
		e.doCancel()
		res, pend := e.launch(entry)
		time.Sleep(tick)
		e.startFetcher()
		c.judge(name, entry, e, wait(res, long), pend, true)
	case "cancel_during_launch_fetcher_busy":
		e.addPeer(-1)
		res, pend := e.launch(entry)
		time.Sleep(tick)
		e.doCancel()
		time.Sleep(tick)
		e.startFetcher()
		c.judge(name, entry, e, wait(res, long), pend, true)
	case "cancel_with_previous_trie_running":
		// the fetcher is busy with a trie nobody answers; a second launch queues behind it
		e.startFetcher()
		e.addPeer(0)
		res1, pend1 := e.launch(entry)
		time.Sleep(tick)
		res2, pend2 := e.launch(entry)
		time.Sleep(tick)
		e.doCancel()
		c.judge(name+"_first", entry, e, wait(res1, long), pend1, true)
		c.judge(name+"_second", entry, e, wait(res2, long), pend2, true)
	case "cancel_mid_sync_then_new_cycle":
		e.startFetcher()
		e.addPeer(2)
		res, pend := e.launch(entry)
		for i := 0; i < 400 && atomic.LoadInt32(&e.peer.seen) < 3; i++ {
			time.Sleep(time.Millisecond)
		}
		e.doCancel()
		c.judge("cancel_mid_sync", entry, e, wait(res, long), pend, true)
		// restart of the cycle on the database left behind, honest peer this time
		e.newCycle()
		atomic.StoreInt32(&e.peer.limit, -1)
		res, pend = e.launch(entry)
		c.judge("relaunch_after_cancel", entry, e, wait(res, long), pend, true)
	case "lack_node_single_peer", "lack_node_all_peers", "lack_root_all_peers", "lack_node_one_of_three":
		// peers that answer every request with a real packet which never contains one node
		x := src.root
		if name != "lack_root_all_peers" {
			for i := range src.all {
				if h := src.all[(len(src.all)/2+i)%len(src.all)]; h != src.root {
					x = h
					break
				}
			}
		}
		e.startFetcher()
		switch name {
		case "lack_node_single_peer":
			e.addPeerLacking("p0", x)
		case "lack_node_one_of_three":
			e.addPeerLacking("p0", x)
			e.addPeerLacking("p1")
			e.addPeerLacking("p2", x)
		default:
			e.addPeerLacking("p0", x)
			e.addPeerLacking("p1", x)
			e.addPeerLacking("p2", x)
		}
		res, pend := e.launch(entry)
		expect := "error"
		if name == "lack_node_one_of_three" {
			expect = "nil"
		}
		c.judgeX(name, entry, e, wait(res, long), pend, true, expect)
	case "full_reply_with_altered_leaf":
		// an otherwise honest peer: its first two replies that contain one particular
		// leaf (or code blob) carry it with one byte changed - same length of reply,
		// still decodable; afterwards it answers correctly
		var x common.Hash
		for _, h := range src.all {
			if b, _ := src.db.Get(h[:]); softCorrupt(src, h, b) != nil {
				x = h
				if h[0]&1 == 1 {
					break
				}
			}
		}
		e.startFetcher()
		e.l.RegisterPeer("p0", &stubPeer{id: "p0", l: e.l, src: e.src, limit: -1, bad: x, badN: 2})
		e.log(fmt.Sprintf("peer p0 registered: full-length replies, the first two containing node %x carry it with one byte altered", x[:6]))
		res, pend := e.launch(entry)
		c.judgeX(name, entry, e, wait(res, long), pend, true, "nil")
	case "invalid_node_honest_peers":
		// the source itself holds something process must reject (a storage root that is
		// not a trie node, a leaf that is not an account): "invalid trie node"
		e.startFetcher()
		e.addPeerLacking("p0")
		e.addPeerLacking("p1")
		res, pend := e.launch(entry)
		c.judgeX(name, entry, e, wait(res, long), pend, true, "error")
	case "quit_while_queued":
		e.addPeer(-1)
		res, pend := e.launch(entry)
		time.Sleep(tick)
		e.doQuit()
		c.judge(name, entry, e, wait(res, long), pend, true)
	case "root_already_local_cancelled":
		for _, h := range src.all {
			b, _ := src.db.Get(h[:])
			dst.Put(h[:], b)
		}
		e.log("database already holds the whole trie")
		e.startFetcher()
		e.doCancel()
		res, pend := e.launch(entry)
		c.judge(name, entry, e, wait(res, long), pend, true)
	}
	return dst
}

// ---- several syncs of different kinds on ONE downloader ---------------------------
// core.BlockChain.TrieBackingDb: state / validator / staking tries live in the plain
// chain database, the CHT and the BLT in prefixed tables.  Oracle: a sync that
// returns nil left its whole trie readable from the namespace the chain reads that
// kind from, and wrote nothing outside that namespace.

func namespaceOf(entry string) string {
	switch entry {
	case "fetchCht":
		return downloader.VerifC19ChtPrefix
	case "fetchBlt":
		return downloader.VerifC19BltPrefix
	}
	return ""
}

// view of one namespace of the database as a database of its own
func namespaceView(db *youdb.MemDatabase, prefix string) *youdb.MemDatabase {
	v := youdb.NewMemDatabase()
	for _, k := range db.Keys() {
		if prefix == "" {
			if len(k) == common.HashLength {
				b, _ := db.Get(k)
				v.Put(k, b)
			}
		} else if strings.HasPrefix(string(k), prefix) && len(k) == len(prefix)+common.HashLength {
			b, _ := db.Get(k)
			v.Put(k[len(prefix):], b)
		}
	}
	return v
}

func multiKindSource(tag int) *CaseIn {
	var entries [][2]string
	for i := 0; i < 24; i++ {
		k := fmt.Sprintf("%016x", uint64(i+1)*0x0101010101010101+uint64(tag))
		entries = append(entries, [2]string{k, hx([]byte(fmt.Sprintf("value-%d-long-enough-to-be-a-hashed-node-%03d", tag, i)))})
	}
	return &CaseIn{Mode: "trie", Entries: entries}
}

var multiKindOrders = [][]string{
	{"FetchVldTrie", "fetchCht"},
	{"fetchCht", "FetchVldTrie"},
	{"fetchStakingTrie", "fetchBlt"},
	{"fetchBlt", "fetchCht", "syncState+Wait", "fetchBlt"},
}

func (c *launchCampaign) multiKind(order []string) {
	if downloader.VerifC19ChtPrefix != core.ChtTablePrefix || downloader.VerifC19BltPrefix != core.BloomTrieTablePrefix {
		panic("translator: the table prefixes of the hook's TrieBackingDb differ from core.ChtTablePrefix / core.BloomTrieTablePrefix")
	}
	name := "multi_kind_" + strings.Join(order, "_then_")
	dst := youdb.NewMemDatabase()
	var srcs []*Src
	var ins []*CaseIn
	for i, entry := range order {
		in := multiKindSource(i + 1)
		if entry == "syncState+Wait" {
			in = launchSources()[1]
		}
		ins = append(ins, in)
		srcs = append(srcs, buildSource(in))
	}
	e := newLaunchEnv(ins[0], srcs[0], dst)
	defer e.l.Quit()
	e.startFetcher()
	e.l.RegisterPeer("p0", &stubPeer{id: "p0", l: e.l, src: srcs[0], limit: -1, more: srcs[1:]})
	e.log("honest peer p0 registered on ONE downloader; syncs: " + strings.Join(order, ", "))
	for i, entry := range order {
		before := map[string]bool{}
		for _, k := range dst.Keys() {
			before[string(k)] = true
		}
		e.src, e.in = srcs[i], ins[i]
		res, pend := e.launch(entry)
		out := wait(res, 10*time.Second)
		ns := namespaceOf(entry)
		// nothing written outside the namespace of this kind
		for _, k := range dst.Keys() {
			if before[string(k)] || string(k) == "TrieSync" {
				continue
			}
			ok := len(k) == common.HashLength
			if ns != "" {
				ok = strings.HasPrefix(string(k), ns) && len(k) == len(ns)+common.HashLength
			}
			if !ok {
				c.hits = append(c.hits, launchHit{"written-outside-the-namespace-of-the-trie-kind",
					fmt.Sprintf("sync %d (%s) of history '%s' wrote key %x, which is not in the database the chain reads that kind from (prefix %q)", i+1, entry, name, k, ns),
					name, entry, ins[i], append([]string{}, e.steps...)})
				c.res.Count("oracle_written-outside-the-namespace-of-the-trie-kind")
				break
			}
		}
		// the usual oracle, on the namespace the chain reads this kind from
		view := &launchEnv{src: srcs[i], in: ins[i], dst: namespaceView(dst, ns), l: e.l, fetcher: e.fetcher, quit: e.quit, cancel: e.cancel, steps: e.steps}
		c.judgeX(name, entry, view, out, pend, true, "nil")
	}
}

var launchHistories = []struct {
	name string
	reps int
	odd  bool // runs on the sources whose content process() must reject
}{
	{"full_reply_with_altered_leaf", 2, false},
	{"lack_node_single_peer", 2, false},
	{"lack_node_all_peers", 2, false},
	{"lack_root_all_peers", 1, false},
	{"lack_node_one_of_three", 2, false},
	{"invalid_node_honest_peers", 2, true},
	{"honest", 1, false},
	{"cancel_before_launch_fetcher_idle", 12, false},
	{"cancel_before_launch_fetcher_busy", 4, false},
	{"cancel_during_launch_fetcher_busy", 4, false},
	{"cancel_with_previous_trie_running", 3, false},
	{"cancel_mid_sync_then_new_cycle", 1, false},
	{"quit_while_queued", 1, false},
	{"root_already_local_cancelled", 1, false},
}

func entryFor(in *CaseIn, k int) string {
	if in.Mode == "state" {
		return "syncState+Wait"
	}
	if k%2 == 0 {
		return "FetchVldTrie"
	}
	return "fetchStakingTrie"
}

// runLaunchCampaign runs every history on both sources; only selects one history
// when name != "" (replay).
func runLaunchCampaign(res *vf.Result, only, onlyEntry string, onlySrc *CaseIn) *launchCampaign {
	c := &launchCampaign{res: res}
	type srcT struct {
		in  *CaseIn
		odd bool
	}
	var srcs []srcT
	for _, in := range launchSources() {
		srcs = append(srcs, srcT{in, false})
	}
	for _, in := range oddLaunchSources() {
		srcs = append(srcs, srcT{in, true})
	}
	if onlySrc != nil {
		srcs = []srcT{{onlySrc, false}}
	}
	k := 0
	for _, sr := range srcs {
		in := sr.in
		for _, h := range launchHistories {
			if only != "" && !strings.HasPrefix(only, h.name) {
				continue
			}
			if onlySrc == nil && h.odd != sr.odd {
				continue
			}
			reps := h.reps
			if only != "" && reps < 8 {
				reps = 8
			}
			if h.name == "multi_kind" {
				continue
			}
			for i := 0; i < reps; i++ {
				entry := entryFor(in, k)
				if onlyEntry != "" {
					entry = onlyEntry
				}
				k++
				c.history(h.name, entry, in, nil)
			}
		}
	}
	if only == "" || strings.HasPrefix(only, "multi_kind") {
		for _, order := range multiKindOrders {
			if only != "" && only != "multi_kind_"+strings.Join(order, "_then_") {
				continue
			}
			c.multiKind(order)
		}
	}
	return c
}

// the Coq case carrying the launch observations (tables empty, root irrelevant)
func (c *launchCampaign) coqCase() string {
	return fmt.Sprintf("mkCase [] [] [] %d 1 false []\n [%s]", youdb.IdealBatchSize, strings.Join(c.coq, ";\n  "))
}
