// C19 harness: drives the real trie.NewSync / state.NewStateSync (and the
// downloader's processNodeData, which hashes each delivered blob) of the
// working tree against source tries built with the real trie package, under
// scripted responders (any order, batching, duplicates, late / never /
// corrupted answers, failing writers, restarts on the partially filled
// database).  It writes every case (Keccak and decodeNode tables, script,
// observed results and scheduler dumps) as a Coq file for the model
// comparison, and evaluates the property oracle on the implementation's own
// observations: the destination database is hash-consistent and closed at
// every interruption point, wrong data changes nothing, and Pending()==0
// implies that the real trie package reads the identical content back.
package main

import (
	"bytes"
	"encoding/hex"
	"encoding/json"
	"errors"
	"flag"
	"fmt"
	"io/ioutil"
	"math/big"
	"os"
	"path/filepath"
	"reflect"
	"sort"
	"strings"

	"github.com/youchainhq/go-youchain/common"
	"github.com/youchainhq/go-youchain/core/state"
	"github.com/youchainhq/go-youchain/crypto"
	"github.com/youchainhq/go-youchain/logging"
	"github.com/youchainhq/go-youchain/rlp"
	"github.com/youchainhq/go-youchain/trie"
	"github.com/youchainhq/go-youchain/you/downloader"
	"github.com/youchainhq/go-youchain/youdb"
	"verif/harness/vf"
)

// KnownClash is the stable key of the listed finding (fixes/C19_*.md).
const KnownClash = "raw-entry-satisfies-trie-node-request"

// ---- case description (JSON: corpus, replay) -----------------------------

type AccIn struct {
	Key           string      `json:"key"`
	Nonce         uint64      `json:"nonce"`
	Storage       [][2]string `json:"storage,omitempty"`
	Code          string      `json:"code,omitempty"`
	CodeFromNode  []int       `json:"code_from_node,omitempty"` // [account j < i, k]: code := blob of the k-th hashed node of j's storage trie
	CodeHashRaw   *string     `json:"code_hash_raw,omitempty"`  // overrides the CodeHash field bytes
	Deleg         string      `json:"deleg,omitempty"`          // delegations blob (stored under its hash)
	DelegFromNode []int       `json:"deleg_from_node,omitempty"`
	DelegRaw      *string     `json:"deleg_raw,omitempty"`    // overrides the DelegationsHash field bytes
	RawLeaf       string      `json:"raw_leaf,omitempty"`     // leaf value that is not an account
	RootOfCode    *int        `json:"root_of_code,omitempty"` // storage root := hash of account j's code (not a trie node)
	RootBlob      string      `json:"root_blob,omitempty"`    // storage root := hash of this blob (stored in the source, not a trie node)
}

type SOp struct {
	Op    string   `json:"op"` // missing deliver batch commit restart revive finish
	N     int      `json:"n,omitempty"`
	Pick  int      `json:"pick,omitempty"`
	Picks []int    `json:"picks,omitempty"`
	How   string   `json:"how,omitempty"`
	Hows  []string `json:"hows,omitempty"`
	Batch bool     `json:"batch,omitempty"`
	Peer  int      `json:"peer,omitempty"`
	Force bool     `json:"force,omitempty"`
}

type CaseIn struct {
	Comment  string      `json:"comment,omitempty"`
	What     string      `json:"what,omitempty"`
	Detail   string      `json:"detail,omitempty"`
	Mode     string      `json:"mode"` // trie | state
	Entries  [][2]string `json:"entries,omitempty"`
	Accounts []AccIn     `json:"accounts,omitempty"`
	Pre      []int       `json:"pre,omitempty"`
	Caller   bool        `json:"caller,omitempty"` // drive the sync through trieSync (fillTasks / process / commit)
	Peers    int         `json:"peers,omitempty"`
	Script   []SOp       `json:"script"`
}

func unhex(s string) []byte {
	b, err := hex.DecodeString(s)
	if err != nil {
		panic(err)
	}
	return b
}

// ---- source ------------------------------------------------------------------

type accInfo struct {
	key     []byte
	leaf    []byte
	isAcct  bool
	root    common.Hash
	storage map[string][]byte
	code    []byte
	codeH   common.Hash
	hasCode bool
	deleg   []byte
	delegH  common.Hash
	hasDel  bool
	rootOdd bool // the storage root is not a trie
}

type Src struct {
	db         *youdb.MemDatabase
	tdb        *trie.Database
	root       common.Hash
	state      bool
	need       map[common.Hash][]common.Hash // entries that must be present whenever the key is present
	nodes      map[common.Hash]bool          // hashes of trie nodes
	raws       map[common.Hash]bool          // hashes requested as raw entries
	content    map[string][]byte             // trie mode
	accs       []*accInfo
	wellFormed bool // every leaf is an account with 32-byte code hash; honest sync must finish
	all        []common.Hash
}

func (s *Src) clash(h common.Hash) bool { return s.raws[h] && s.nodes[h] && len(s.need[h]) > 0 }
func (s *Src) hasClash() bool {
	for h := range s.raws {
		if s.clash(h) {
			return true
		}
	}
	return false
}

func hashedNodes(tdb *trie.Database, root common.Hash) []common.Hash {
	var out []common.Hash
	if root == trie.VerifC19EmptyRoot {
		return out
	}
	if blob, _ := tdb.DiskDB().Get(root[:]); len(blob) > 0 {
		if n, err := trie.VerifC19Decode(root[:], blob); err != nil || n == nil {
			return out
		}
	}
	t, err := trie.New(root, tdb)
	if err != nil {
		return out
	}
	it := t.NodeIterator(nil)
	for it.Next(true) {
		if it.Hash() != (common.Hash{}) {
			out = append(out, it.Hash())
		}
	}
	return out
}

func buildTrie(tdb *trie.Database, entries [][2][]byte) (common.Hash, map[string][]byte) {
	t, _ := trie.New(common.Hash{}, tdb)
	content := map[string][]byte{}
	for _, e := range entries {
		if len(e[1]) == 0 {
			continue
		}
		t.Update(e[0], e[1])
		content[string(e[0])] = e[1]
	}
	root, err := t.Commit(nil)
	if err != nil {
		panic(err)
	}
	if root != trie.VerifC19EmptyRoot {
		if err := tdb.Commit(root, false); err != nil {
			panic(err)
		}
	}
	return root, content
}

func (s *Src) walk(root common.Hash, isState bool, seen map[common.Hash]bool) {
	if root == trie.VerifC19EmptyRoot || seen[root] {
		return
	}
	seen[root] = true
	if !isState {
		// a storage root that is absent from the source or is not a trie node (odd sources)
		blob, _ := s.db.Get(root[:])
		if n, err := trie.VerifC19Decode(root[:], blob); err != nil || n == nil {
			s.wellFormed = false
			return
		}
	}
	t, err := trie.New(root, s.tdb)
	if err != nil {
		panic(fmt.Sprintf("source trie %x: %v", root, err))
	}
	it := t.NodeIterator(nil)
	for it.Next(true) {
		if h := it.Hash(); h != (common.Hash{}) {
			s.nodes[h] = true
			if p := it.Parent(); p != (common.Hash{}) {
				s.need[p] = append(s.need[p], h)
			}
		}
		if it.Leaf() && isState {
			var obj state.Account
			if rlp.Decode(bytes.NewReader(it.LeafBlob()), &obj) != nil {
				continue
			}
			p := it.Parent()
			if obj.Root != trie.VerifC19EmptyRoot {
				s.need[p] = append(s.need[p], obj.Root)
				s.walk(obj.Root, false, seen)
			}
			if ch := common.BytesToHash(obj.CodeHash); ch != trie.VerifC19EmptyState {
				s.need[p] = append(s.need[p], ch)
				s.raws[ch] = true
			}
			if len(obj.DelegationsHash) == common.HashLength {
				if dh := common.BytesToHash(obj.DelegationsHash); dh != trie.VerifC19EmptyState {
					s.need[p] = append(s.need[p], dh)
					s.raws[dh] = true
				}
			}
		}
	}
	if it.Error() != nil {
		panic(fmt.Sprintf("source walk: %v", it.Error()))
	}
}

func buildSource(in *CaseIn) *Src {
	s := &Src{db: youdb.NewMemDatabase(), need: map[common.Hash][]common.Hash{}, nodes: map[common.Hash]bool{}, raws: map[common.Hash]bool{}, wellFormed: true}
	s.tdb = trie.NewDatabase(s.db)
	if in.Mode == "trie" {
		var es [][2][]byte
		for _, e := range in.Entries {
			es = append(es, [2][]byte{unhex(e[0]), unhex(e[1])})
		}
		s.root, s.content = buildTrie(s.tdb, es)
	} else {
		s.state = true
		var leaves [][2][]byte
		for i, a := range in.Accounts {
			ai := &accInfo{key: unhex(a.Key)}
			var es [][2][]byte
			for _, e := range a.Storage {
				es = append(es, [2][]byte{unhex(e[0]), unhex(e[1])})
			}
			ai.root, ai.storage = buildTrie(s.tdb, es)
			fromNode := func(sel []int) []byte {
				if len(sel) != 2 || sel[0] < 0 || sel[0] >= i || s.accs[sel[0]].rootOdd {
					return nil
				}
				hs := hashedNodes(s.tdb, s.accs[sel[0]].root)
				if len(hs) == 0 {
					return nil
				}
				k := sel[1] % len(hs)
				if k < 0 {
					k = -k
				}
				b, _ := s.db.Get(hs[k][:])
				return b
			}
			ai.code = unhex(a.Code)
			if b := fromNode(a.CodeFromNode); b != nil {
				ai.code = b
			}
			codeHash := crypto.Keccak256(nil)
			if len(ai.code) > 0 {
				codeHash = crypto.Keccak256(ai.code)
				s.db.Put(codeHash, ai.code)
				ai.hasCode = true
			}
			if a.CodeHashRaw != nil {
				codeHash = unhex(*a.CodeHashRaw)
				ai.hasCode = false
				if len(codeHash) != 32 {
					s.wellFormed = false
				}
			}
			ai.codeH = common.BytesToHash(codeHash)
			var delegHash []byte
			ai.deleg = unhex(a.Deleg)
			if b := fromNode(a.DelegFromNode); b != nil {
				ai.deleg = b
			}
			if len(ai.deleg) > 0 {
				delegHash = crypto.Keccak256(ai.deleg)
				s.db.Put(delegHash, ai.deleg)
				ai.hasDel = true
			}
			if a.DelegRaw != nil {
				delegHash = unhex(*a.DelegRaw)
				ai.hasDel = false
			}
			ai.delegH = common.BytesToHash(delegHash)
			if a.RootBlob != "" {
				blob := unhex(a.RootBlob)
				ai.root = crypto.Keccak256Hash(blob)
				s.db.Put(ai.root[:], blob)
				ai.storage = nil
				ai.rootOdd = true
				s.wellFormed = false
			}
			if a.RootOfCode != nil && *a.RootOfCode >= 0 && *a.RootOfCode < i && s.accs[*a.RootOfCode].hasCode {
				ai.root = s.accs[*a.RootOfCode].codeH
				ai.storage = nil
				ai.rootOdd = true
				s.wellFormed = false
			}
			if a.RawLeaf != "" {
				ai.leaf = unhex(a.RawLeaf)
				var obj state.Account
				if rlp.Decode(bytes.NewReader(ai.leaf), &obj) != nil {
					s.wellFormed = false
				} else {
					s.wellFormed = false // arbitrary account bytes may point anywhere
				}
			} else {
				acc := state.Account{Nonce: a.Nonce, Balance: new(big.Int).SetUint64(a.Nonce * 7), Root: ai.root, CodeHash: codeHash,
					DelegationBalance: big.NewInt(int64(len(ai.deleg))), DelegationsHash: delegHash}
				b, err := rlp.EncodeToBytes(&acc)
				if err != nil {
					panic(err)
				}
				ai.leaf = b
				ai.isAcct = true
			}
			s.accs = append(s.accs, ai)
			leaves = append(leaves, [2][]byte{ai.key, ai.leaf})
		}
		s.root, s.content = buildTrie(s.tdb, leaves)
	}
	s.walk(s.root, s.state, map[common.Hash]bool{})
	// weird hash fields that nothing in the source can answer
	for h := range s.raws {
		if ok, _ := s.db.Has(h[:]); !ok {
			s.wellFormed = false
		}
	}
	for _, k := range s.db.Keys() {
		s.all = append(s.all, common.BytesToHash(k))
	}
	sort.Slice(s.all, func(i, j int) bool { return bytes.Compare(s.all[i][:], s.all[j][:]) < 0 })
	return s
}

// closure of a source entry (everything the oracle says it needs)
func (s *Src) closure(h common.Hash, out map[common.Hash]bool) {
	if out[h] {
		return
	}
	if ok, _ := s.db.Has(h[:]); !ok {
		return
	}
	out[h] = true
	for _, c := range s.need[h] {
		s.closure(c, out)
	}
}

// ---- interning / Coq printing -------------------------------------------------

type interner struct {
	hid   map[common.Hash]int
	bid   map[string]int
	blobs [][]byte
	bh    []int // blob id -> hash id
}

func newInterner() *interner {
	it := &interner{hid: map[common.Hash]int{}, bid: map[string]int{}}
	it.hid[common.Hash{}] = 0
	it.hid[trie.VerifC19EmptyRoot] = 1
	it.hid[trie.VerifC19EmptyState] = 2
	return it
}
func (it *interner) H(h common.Hash) int {
	if id, ok := it.hid[h]; ok {
		return id
	}
	id := len(it.hid)
	it.hid[h] = id
	return id
}
func (it *interner) B(b []byte) int {
	if id, ok := it.bid[string(b)]; ok {
		return id
	}
	id := len(it.blobs)
	it.bid[string(b)] = id
	it.blobs = append(it.blobs, append([]byte{}, b...))
	it.bh = append(it.bh, it.H(crypto.Keccak256Hash(b)))
	return id
}

func (it *interner) nodeview(b []byte) (string, bool) {
	h := crypto.Keccak256(b)
	n, err := trie.VerifC19Decode(h, b)
	if err != nil || n == nil {
		return "", false
	}
	var kids []string
	val := "None"
	seenVal := false
	for _, c := range n.Children {
		switch c.Kind {
		case 0:
			if seenVal {
				panic("translator: a hash child follows the value child; the model's nodeview does not cover this")
			}
			kids = append(kids, fmt.Sprint(it.H(c.Hash)))
		case 1:
			if seenVal {
				panic("translator: two value children in one node; the model's nodeview does not cover this")
			}
			seenVal = true
			var obj state.Account
			if rlp.Decode(bytes.NewReader(c.Value), &obj) != nil {
				val = "(Some PErr)"
			} else {
				val = fmt.Sprintf("(Some (PAcct (mkAcct %d %d %d %d)))", it.H(obj.Root), it.H(common.BytesToHash(obj.CodeHash)),
					len(obj.DelegationsHash), it.H(common.BytesToHash(obj.DelegationsHash)))
			}
		}
	}
	inc := 1
	if n.Short {
		inc = n.KeyLen
	}
	return fmt.Sprintf("mkNode [%s] %d %s", strings.Join(kids, ";"), inc, val), true
}

func (it *interner) tables() (string, string, string) {
	var hs, ds, ls []string
	for id := 0; id < len(it.blobs); id++ { // nodeview may intern new hashes but no new blobs
		hs = append(hs, fmt.Sprintf("(%d,%d)", id, it.bh[id]))
		ls = append(ls, fmt.Sprintf("(%d,%d)", id, len(it.blobs[id])))
		if nv, ok := it.nodeview(it.blobs[id]); ok {
			ds = append(ds, fmt.Sprintf("(%d,%s)", id, nv))
		}
	}
	return "[" + strings.Join(hs, ";") + "]", "[" + strings.Join(ds, ";") + "]", "[" + strings.Join(ls, ";") + "]"
}

// ---- failing writer ------------------------------------------------------------

type limitPutter struct {
	db   youdb.Putter
	left int
}

var errWrite = errors.New("injected write failure")

func (p *limitPutter) Put(k, v []byte) error {
	if p.left == 0 {
		return errWrite
	}
	p.left--
	return p.db.Put(k, v)
}

// ---- running a case ----------------------------------------------------------------

type runResult struct {
	coq        string
	what       string // first oracle violation ("" = none)
	detail     string
	known      bool // the violation is the listed finding class
	classes    map[string]int
	steps      int
	nontrivial bool
}

func errCode(err error, blob []byte) int {
	switch {
	case err == nil:
		return 0
	case err == trie.ErrNotRequested:
		return 1
	case err == trie.ErrAlreadyProcessed:
		return 2
	}
	// a decodeNode error or an error of the leaf callback
	if n, derr := trie.VerifC19Decode(crypto.Keccak256(blob), blob); derr != nil || n == nil {
		return 3
	}
	return 4
}

type runner struct {
	in          *CaseIn
	src         *Src
	it          *interner
	dst         *youdb.MemDatabase
	sched       *trie.Sync
	ts          *downloader.VerifC19TrieSync
	ops         []string
	res         *runResult
	pool        []common.Hash
	dropped     []common.Hash
	outstanding map[common.Hash]bool // popped by Missing and not yet answered successfully
	dumpEvery   int
	sinceDump   int
	cs          *callerState
}

func (r *runner) newSync() {
	if r.src.state {
		r.sched = state.NewStateSync(r.src.root, r.dst)
	} else {
		r.sched = trie.NewSync(r.src.root, r.dst, nil)
	}
	r.ts = downloader.VerifC19NewTrieSync(r.sched)
	r.pool, r.dropped = nil, nil
	r.outstanding = map[common.Hash]bool{}
	if r.in.Caller {
		r.newCaller()
	}
}

func (r *runner) fail(what, detail string, known bool) {
	if r.res.what == "" || (r.res.known && !known) {
		r.res.what, r.res.detail, r.res.known = what, detail, known
	}
}

type dumpT struct {
	Reqs  []trie.VerifC19Req
	Order []common.Hash
}

func (r *runner) dump() dumpT {
	a, b := r.sched.VerifC19Dump()
	return dumpT{a, b}
}

func (r *runner) storeCoq(db *youdb.MemDatabase) string {
	keys := db.Keys()
	sort.Slice(keys, func(i, j int) bool { return bytes.Compare(keys[i], keys[j]) < 0 })
	var xs []string
	for _, k := range keys {
		if len(k) != common.HashLength {
			continue // rawdb.WriteFastTrieProgress's marker, written by trieSync.updateStats
		}
		v, _ := db.Get(k)
		xs = append(xs, fmt.Sprintf("(%d,%d)", r.it.H(common.BytesToHash(k)), r.it.B(v)))
	}
	return "[" + strings.Join(xs, ";") + "]"
}

func (r *runner) emitDump() {
	d := r.dump()
	var rs []string
	for _, q := range d.Reqs {
		var ps []string
		for _, p := range q.Parents {
			ps = append(ps, fmt.Sprint(r.it.H(p)))
		}
		rs = append(rs, fmt.Sprintf("mkDreq %d %s %s %s %d %s [%s]", r.it.H(q.Hash), vf.Bool(q.Raw), vf.Bool(q.HasData), vf.Bool(q.HasCb), q.Depth, vf.Z(int64(q.Deps)), strings.Join(ps, ";")))
	}
	var os []string
	for _, h := range d.Order {
		os = append(os, fmt.Sprint(r.it.H(h)))
	}
	r.ops = append(r.ops, fmt.Sprintf("XDump [%s] [%s] %s", strings.Join(rs, ";"), strings.Join(os, ";"), r.storeCoq(r.dst)))
}

func (r *runner) after() {
	r.ops = append(r.ops, fmt.Sprintf("XPending %d", r.sched.Pending()))
	r.sinceDump++
	if r.sinceDump >= r.dumpEvery {
		r.sinceDump = 0
		r.emitDump()
	}
	r.res.steps++
}

// oracle: hash consistency + closedness of the destination database
func (r *runner) checkDb(when string) {
	for _, k := range r.dst.Keys() {
		if len(k) != common.HashLength {
			continue
		}
		v, _ := r.dst.Get(k)
		h := common.BytesToHash(k)
		if crypto.Keccak256Hash(v) != h {
			r.fail("db-entry-does-not-hash-to-its-key", fmt.Sprintf("%s: key %x", when, k), false)
			return
		}
		for _, c := range r.src.need[h] {
			if ok, _ := r.dst.Has(c[:]); !ok {
				if r.src.clash(h) {
					r.fail(KnownClash, fmt.Sprintf("%s: %x was fetched as a raw entry (contract code / delegations) and is also a trie node; its child %x is absent", when, h[:6], c[:6]), true)
				} else {
					r.fail("db-not-closed", fmt.Sprintf("%s: entry %x present without %x", when, h[:6], c[:6]), false)
				}
			}
		}
	}
	// independent: if the root is present the real trie package walks everything
	if ok, _ := r.dst.Has(r.src.root[:]); ok && r.res.what == "" {
		if msg := r.compareContent(); msg != "" {
			r.fail("root-present-but-trie-not-readable", when+": "+msg, false)
		}
	}
}

func readTrie(db *youdb.MemDatabase, root common.Hash) (map[string][]byte, error) {
	out := map[string][]byte{}
	if root == trie.VerifC19EmptyRoot {
		return out, nil
	}
	t, err := trie.New(root, trie.NewDatabase(db))
	if err != nil {
		return nil, err
	}
	it := t.NodeIterator(nil)
	for it.Next(true) {
		if it.Leaf() {
			out[string(it.LeafKey())] = append([]byte{}, it.LeafBlob()...)
		}
	}
	return out, it.Error()
}

// compareContent reads the destination with the real trie package and compares
// with what the source was built from.
func (r *runner) compareContent() string {
	got, err := readTrie(r.dst, r.src.root)
	if err != nil {
		return fmt.Sprintf("main trie: %v", err)
	}
	if !reflect.DeepEqual(got, r.src.content) {
		return "main trie content differs"
	}
	for i, a := range r.src.accs {
		if !a.isAcct {
			continue
		}
		if a.rootOdd {
			if c, _ := r.dst.Get(a.root[:]); !bytes.Equal(c, r.srcBlob(a.root)) {
				return fmt.Sprintf("account %d odd storage root entry missing or different", i)
			}
			continue
		}
		st, err := readTrie(r.dst, a.root)
		if err != nil {
			return fmt.Sprintf("account %d storage: %v", i, err)
		}
		if !reflect.DeepEqual(st, a.storage) {
			return fmt.Sprintf("account %d storage content differs", i)
		}
		if a.hasCode {
			if c, _ := r.dst.Get(a.codeH[:]); !bytes.Equal(c, a.code) {
				return fmt.Sprintf("account %d code missing or different", i)
			}
		}
		if a.hasDel {
			if c, _ := r.dst.Get(a.delegH[:]); !bytes.Equal(c, a.deleg) {
				return fmt.Sprintf("account %d delegations blob missing or different", i)
			}
		}
	}
	return ""
}

// oracle at completion: Pending()==0 and everything flushed
func (r *runner) checkComplete(when string) {
	if r.sched.Pending() != 0 {
		return
	}
	_, order := r.sched.VerifC19Dump()
	if len(order) != 0 {
		return
	}
	r.res.classes["completed"]++
	if r.res.what != "" {
		return
	}
	if msg := r.compareContent(); msg != "" {
		if r.src.hasClash() {
			r.fail(KnownClash, when+": sync reports completion but "+msg, true)
		} else {
			r.fail("complete-but-content-differs", when+": "+msg, false)
		}
	}
}

func (r *runner) pendingSet() map[common.Hash]bool {
	m := map[common.Hash]bool{}
	for _, q := range r.dump().Reqs {
		m[q.Hash] = true
	}
	return m
}

func (r *runner) deliverBlob(blob []byte, class string) error {
	before := r.dump()
	pend := r.pendingSet()
	hash := crypto.Keccak256Hash(blob)
	// through trieSync.process -> processNodeData; the outcome of Sync.Process is read
	// back from process()'s counters and from the growth of the membatch
	_, order0 := r.sched.VerifC19Dump()
	n, dup, unexp, err := r.ts.ProcessNodeData(blob)
	_, order1 := r.sched.VerifC19Dump()
	committed := len(order1) > len(order0)
	h := hash
	switch {
	case err != nil:
	case n == 1:
	case dup == 1:
		err = trie.ErrAlreadyProcessed
	case unexp == 1:
		err = trie.ErrNotRequested
	default:
		panic("process() neither delivered, nor counted, nor failed")
	}
	bid := r.it.B(blob)
	r.ops = append(r.ops, fmt.Sprintf("XDeliver %d %d %s %d", bid, r.it.H(h), vf.Bool(committed), errCode(err, blob)))
	if err == nil || err == trie.ErrAlreadyProcessed {
		delete(r.outstanding, hash)
	}
	r.res.classes["deliver_"+class]++
	r.res.classes[fmt.Sprintf("deliver_err%d", errCode(err, blob))]++
	if !pend[hash] {
		// data that does not hash to anything requested must be rejected and change nothing
		if err == nil {
			r.fail("unrequested-data-accepted", fmt.Sprintf("blob with hash %x was accepted although nothing requested it", hash[:6]), false)
		} else if !reflect.DeepEqual(before, r.dump()) {
			r.fail("rejected-data-changed-state", fmt.Sprintf("blob with hash %x was rejected (%v) but the scheduler state changed", hash[:6], err), false)
		}
	}
	r.after()
	return err
}

func corrupt(how string, blob []byte, pick int) []byte {
	b := append([]byte{}, blob...)
	switch how {
	case "flip":
		if len(b) == 0 {
			return []byte{1}
		}
		i := pick % len(b)
		if i < 0 {
			i = -i
		}
		b[i] ^= byte(1 << uint(pick%8&7))
		if bytes.Equal(b, blob) {
			b[i] ^= 1
		}
		return b
	case "trunc":
		if len(b) <= 1 {
			return append(b, 0)
		}
		return b[:len(b)-1]
	default: // junk
		return crypto.Keccak256(append([]byte("junk"), byte(pick), byte(pick>>8)))
	}
}

func idx(p, n int) int {
	if n == 0 {
		return 0
	}
	p %= n
	if p < 0 {
		p += n
	}
	return p
}

func (r *runner) srcBlob(h common.Hash) []byte {
	b, err := r.src.db.Get(h[:])
	if err != nil {
		return nil
	}
	return b
}

func (r *runner) commit(lim int, batch bool) {
	var written int
	var err error
	limS := "None"
	if batch {
		b := r.dst.NewBatch()
		written, err = r.sched.Commit(b)
		if err == nil {
			err = b.Write()
		}
		r.res.classes["commit_batch"]++
	} else if lim >= 0 {
		written, err = r.sched.Commit(&limitPutter{r.dst, lim})
		limS = fmt.Sprintf("(Some %d)", lim)
		if err != nil {
			r.res.classes["commit_failed_midway"]++
		} else {
			r.res.classes["commit_full"]++
		}
	} else {
		written, err = r.sched.Commit(r.dst)
		r.res.classes["commit_full"]++
	}
	r.ops = append(r.ops, fmt.Sprintf("XCommit %s %d %s", limS, written, vf.Bool(err != nil)))
	r.after()
	r.checkDb("after commit")
	r.checkComplete("after commit")
}

func (r *runner) exec(o SOp) {
	if r.in.Caller && r.execCaller(o) {
		return
	}
	switch o.Op {
	case "missing":
		got := r.sched.Missing(o.N)
		var xs []string
		for _, h := range got {
			xs = append(xs, fmt.Sprint(r.it.H(h)))
		}
		r.pool = append(r.pool, got...)
		for _, h := range got {
			r.outstanding[h] = true
		}
		r.ops = append(r.ops, fmt.Sprintf("XMissing %d [%s]", o.N, strings.Join(xs, ";")))
		r.res.classes["missing"]++
		r.after()
	case "deliver":
		switch o.How {
		case "unasked":
			if len(r.src.all) == 0 {
				return
			}
			h := r.src.all[idx(o.Pick, len(r.src.all))]
			r.deliverBlob(r.srcBlob(h), "unasked")
			return
		case "junk":
			r.deliverBlob(corrupt("junk", nil, o.Pick), "junk")
			return
		}
		if len(r.pool) == 0 {
			return
		}
		i := idx(o.Pick, len(r.pool))
		h := r.pool[i]
		blob := r.srcBlob(h)
		switch o.How {
		case "drop":
			r.pool = append(r.pool[:i], r.pool[i+1:]...)
			r.dropped = append(r.dropped, h)
			r.res.classes["never_answered"]++
		case "flip", "trunc":
			if blob == nil {
				return
			}
			r.deliverBlob(corrupt(o.How, blob, o.Pick), "corrupted")
		case "dup":
			if blob == nil {
				return
			}
			r.deliverBlob(blob, "dup")
		default:
			r.pool = append(r.pool[:i], r.pool[i+1:]...)
			if blob == nil {
				r.res.classes["unanswerable"]++
				return
			}
			r.deliverBlob(blob, "ok")
		}
	case "batch":
		var items []trie.SyncResult
		var xs []string
		var take []int
		taken := map[int]bool{}
		for j, p := range o.Picks {
			how := "ok"
			if j < len(o.Hows) {
				how = o.Hows[j]
			}
			var h common.Hash
			if how == "unasked" || len(r.pool) == 0 {
				if len(r.src.all) == 0 {
					continue
				}
				h = r.src.all[idx(p, len(r.src.all))]
			} else {
				i := idx(p, len(r.pool))
				if how != "dup" {
					// distinct pool entries unless a duplicate is wanted
					for n := 0; n < len(r.pool) && taken[i]; n++ {
						i = (i + 1) % len(r.pool)
					}
					if taken[i] {
						continue
					}
					taken[i] = true
					take = append(take, i)
				}
				h = r.pool[i]
			}
			blob := r.srcBlob(h)
			if blob == nil {
				continue
			}
			items = append(items, trie.SyncResult{Hash: h, Data: blob})
			xs = append(xs, fmt.Sprintf("(%d,%d)", r.it.H(h), r.it.B(blob)))
		}
		sort.Sort(sort.Reverse(sort.IntSlice(take)))
		last := -1
		for _, i := range take {
			if i != last && i < len(r.pool) {
				r.pool = append(r.pool[:i], r.pool[i+1:]...)
			}
			last = i
		}
		if len(items) == 0 {
			return
		}
		committed, index, err := r.sched.Process(items)
		var bad []byte
		if err != nil {
			bad = items[index].Data
		}
		r.ops = append(r.ops, fmt.Sprintf("XProcess [%s] %s %d %d", strings.Join(xs, ";"), vf.Bool(committed), index, errCode(err, bad)))
		for j, it := range items {
			if err == nil || j < index {
				delete(r.outstanding, it.Hash)
			}
		}
		r.res.classes["batch"]++
		r.res.classes[fmt.Sprintf("batch_err%d", errCode(err, bad))]++
		r.after()
	case "commit":
		r.commit(o.N, o.Batch)
	case "restart":
		// the process dies: the membatch is lost, a new sync starts on the database as it is
		r.checkDb("at restart")
		r.newSync()
		r.ops = append(r.ops, "XRestart")
		r.res.classes["restart"]++
		r.after()
		r.checkComplete("after restart")
	case "revive":
		r.pool = append(r.pool, r.dropped...)
		r.dropped = nil
	case "finish":
		// an honest responder answers everything that is asked, in the asked order
		r.pool = append(r.pool, r.dropped...)
		r.dropped = nil
		for round := 0; round < 4*len(r.src.all)+20; round++ {
			got := r.sched.Missing(o.N)
			var xs []string
			for _, h := range got {
				xs = append(xs, fmt.Sprint(r.it.H(h)))
			}
			r.ops = append(r.ops, fmt.Sprintf("XMissing %d [%s]", o.N, strings.Join(xs, ";")))
			r.after()
			for _, h := range got {
				r.outstanding[h] = true
			}
			r.pool = nil
			for h := range r.outstanding {
				r.pool = append(r.pool, h)
			}
			sort.Slice(r.pool, func(i, j int) bool { return bytes.Compare(r.pool[i][:], r.pool[j][:]) < 0 })
			if len(r.pool) == 0 {
				break
			}
			if r.sched.Pending() == 0 {
				r.pool = nil
				break
			}
			progress := false
			todo := r.pool
			r.pool = nil
			for _, h := range todo {
				blob := r.srcBlob(h)
				if blob == nil {
					delete(r.outstanding, h)
					continue
				}
				err := r.deliverBlob(blob, "ok")
				if err == nil {
					progress = true
				} else if err == trie.ErrNotRequested {
					delete(r.outstanding, h)
				}
			}
			r.commit(-1, round%2 == 1)
			// stale queue entries (answered before they were asked for) do not count as a stall
			if !progress && len(got) == 0 {
				break
			}
		}
		if r.sched.Pending() > 0 {
			r.res.classes["finish_incomplete"]++
			if r.src.wellFormed && !r.src.hasClash() {
				r.fail("honest-sync-stalls", fmt.Sprintf("all requests answered honestly, %d still pending", r.sched.Pending()), false)
			}
		}
	}
}

func runCase(in *CaseIn) (res *runResult) {
	res = &runResult{classes: map[string]int{}}
	r := &runner{in: in, src: buildSource(in), it: newInterner(), dst: youdb.NewMemDatabase(), res: res}
	// preload closed parts of the source (a database left by an earlier, interrupted sync)
	pre := map[common.Hash]bool{}
	for _, p := range in.Pre {
		if len(r.src.all) > 0 {
			one := map[common.Hash]bool{}
			r.src.closure(r.src.all[idx(p, len(r.src.all))], one)
			ok := true
			for h := range one { // odd sources: something the entry needs does not exist anywhere
				for _, c := range r.src.need[h] {
					if !one[c] {
						ok = false
					}
				}
			}
			if ok {
				for h := range one {
					pre[h] = true
				}
			}
		}
	}
	for h := range pre {
		b, _ := r.src.db.Get(h[:])
		r.dst.Put(h[:], b)
	}
	if len(pre) > 0 {
		res.classes["preloaded_db"]++
	}
	db0 := r.storeCoq(r.dst)
	r.dumpEvery = 1
	if len(r.src.all) > 40 {
		r.dumpEvery = 6
	}
	if len(r.src.all) > 150 {
		r.dumpEvery = 25
	}
	r.newSync()
	r.checkDb("initial database")
	r.ops = append(r.ops, fmt.Sprintf("XPending %d", r.sched.Pending()))
	r.checkComplete("at start")
	for _, o := range in.Script {
		r.exec(o)
	}
	r.emitDump()
	// interruption at the very end: what is on disk must be closed
	r.checkDb("at end")
	res.nontrivial = len(r.src.all) > 1 && res.steps > 3
	if r.src.hasClash() {
		res.classes["source_with_raw_node_clash"]++
	}
	if r.src.state {
		res.classes["state_sync"]++
	} else {
		res.classes["trie_sync"]++
	}
	if !r.src.wellFormed {
		res.classes["source_with_odd_leaves"]++
	}
	// every source blob goes into the tables (deliveries of unasked ones, AddSubTrie checks)
	for _, h := range r.src.all {
		r.it.B(r.srcBlob(h))
	}
	hs, ds, ls := r.it.tables()
	res.coq = fmt.Sprintf("mkCase %s\n %s\n %s %d\n %d %s %s\n [%s]", hs, ds, ls, youdb.IdealBatchSize, r.it.H(r.src.root), vf.Bool(r.src.state), db0, strings.Join(r.ops, ";\n  "))
	if in.Caller {
		res.classes["campaign_caller"]++
	} else {
		res.classes["campaign_sync"]++
	}
	return res
}

// ---- generation ---------------------------------------------------------------------

func hx(b []byte) string { return hex.EncodeToString(b) }

func genEntries(r *vf.Rng, n int) [][2]string {
	var es [][2]string
	style := r.Intn(4)
	for i := 0; i < n; i++ {
		var k []byte
		switch style {
		case 0: // hashed keys
			k = crypto.Keccak256([]byte{byte(i), byte(i >> 8), byte(r.Intn(256))})
		case 1: // short keys over a tiny alphabet: shared prefixes, keys that are prefixes of others
			k = make([]byte, 1+r.Intn(4))
			for j := range k {
				k[j] = byte(r.Pick([]uint64{0x00, 0x01, 0x10, 0x11, 0xf0, 0xff}))
			}
		case 2: // fixed length, long common prefix
			k = append([]byte{0xaa, 0xbb, 0xcc}, byte(r.Intn(4)), byte(r.Intn(16)), byte(r.Intn(256)))
		default:
			k = r.Bytes(1 + r.Intn(33))
		}
		vl := 1 + r.Intn(8)
		if r.Chance(50) {
			vl = 30 + r.Intn(40)
		}
		v := r.Bytes(vl)
		if r.Chance(15) { // repeated values -> identical leaves
			v = bytes.Repeat([]byte{0x5a}, 33)
		}
		es = append(es, [2]string{hx(k), hx(v)})
	}
	if n > 0 && r.Chance(25) { // twin subtrees: the same suffixes and values under two prefixes
		m := 1 + r.Intn(6)
		for i := 0; i < m; i++ {
			suf := r.Bytes(3)
			v := r.Bytes(33 + r.Intn(8))
			es = append(es, [2]string{hx(append([]byte{0x12}, suf...)), hx(v)})
			es = append(es, [2]string{hx(append([]byte{0x13}, suf...)), hx(v)})
		}
	}
	return es
}

func genStorage(r *vf.Rng, n int) [][2]string {
	var es [][2]string
	for i := 0; i < n; i++ {
		k := crypto.Keccak256([]byte{byte(i), byte(r.Intn(3))})
		v, _ := rlp.EncodeToBytes(bytes.TrimLeft(r.Bytes(1+r.Intn(32)), "\x00"))
		if len(v) == 0 || (len(v) == 1 && v[0] == 0x80) {
			v = []byte{1}
		}
		es = append(es, [2]string{hx(k), hx(v)})
	}
	return es
}

func genCase(r *vf.Rng) *CaseIn {
	in := &CaseIn{}
	if r.Chance(45) {
		in.Mode = "trie"
		n := r.Heavy(220)
		if r.Chance(5) {
			n = 0
		}
		in.Entries = genEntries(r, n)
	} else {
		in.Mode = "state"
		n := 1 + r.Heavy(40)
		if r.Chance(4) {
			n = 0
		}
		var stor [][][2]string
		for i := 0; i < n; i++ {
			a := AccIn{Key: hx(crypto.Keccak256([]byte{byte(i), 7})), Nonce: uint64(r.Intn(1000))}
			if r.Chance(45) {
				if len(stor) > 0 && r.Chance(25) {
					a.Storage = stor[r.Intn(len(stor))] // shared storage root
				} else {
					a.Storage = genStorage(r, 1+r.Heavy(60))
				}
			}
			stor = append(stor, a.Storage)
			if r.Chance(40) {
				if r.Chance(30) {
					a.Code = hx([]byte{0x60, 0x60, byte(r.Intn(3))}) // shared code
				} else {
					a.Code = hx(r.Bytes(1 + r.Intn(50)))
				}
			}
			if r.Chance(30) {
				if r.Chance(20) {
					a.Deleg = hx([]byte{0xde, byte(r.Intn(2))})
				} else {
					a.Deleg = hx(r.Bytes(1 + r.Intn(40)))
				}
			}
			if r.Chance(4) { // DelegationsHash of another length: ignored by the callback
				s := hx(r.Bytes(int(r.Pick([]uint64{1, 20, 31, 33}))))
				a.DelegRaw = &s
			}
			if r.Chance(2) { // delegations hash = hash of the empty string
				s := hx(crypto.Keccak256(nil))
				a.DelegRaw = &s
			}
			if r.Chance(2) { // odd CodeHash field
				s := hx(r.Bytes(int(r.Pick([]uint64{0, 20, 32}))))
				a.CodeHashRaw = &s
			}
			if i > 0 && r.Chance(2) { // storage root pointing at a code blob: the node request gets undecodable data
				j := r.Intn(i)
				a.RootOfCode = &j
			}
			if r.Chance(2) { // a leaf that is not an account: the callback fails
				a.RawLeaf = hx(r.Bytes(1 + r.Intn(40)))
			}
			in.Accounts = append(in.Accounts, a)
		}
		if n >= 2 && r.Chance(4) { // finding class: contract code (or delegations blob) equal to a trie node
			i := 1 + r.Intn(n-1)
			j := r.Intn(i)
			if len(in.Accounts[j].Storage) == 0 {
				in.Accounts[j].Storage = genStorage(r, 20+r.Intn(30))
			}
			if r.Chance(75) {
				in.Accounts[i].CodeFromNode = []int{j, r.Intn(3)}
				in.Accounts[i].CodeHashRaw = nil
			} else {
				in.Accounts[i].DelegFromNode = []int{j, r.Intn(3)}
				in.Accounts[i].DelegRaw = nil
			}
			in.Accounts[i].RawLeaf = ""
		}
	}
	if r.Chance(12) {
		for i := 0; i < 1+r.Intn(3); i++ {
			in.Pre = append(in.Pre, r.Intn(1<<20))
		}
	}
	if r.Chance(28) { // separate campaign class: through the downloader's request bookkeeping
		in.Caller = true
		in.Peers = 1 + r.Intn(4)
		if in.Mode == "state" && len(in.Accounts) > 0 && r.Chance(35) {
			// code large enough for bytesUncommitted to cross youdb.IdealBatchSize
			for k := 0; k < 1+r.Intn(2); k++ {
				a := &in.Accounts[r.Intn(len(in.Accounts))]
				if a.CodeFromNode == nil && a.CodeHashRaw == nil {
					a.Code = hx(r.Bytes(40000 + r.Intn(90000)))
				}
			}
		}
		in.Script = genCallerScript(r)
		return in
	}
	steps := 2 + r.Heavy(160)
	for s := 0; s < steps; s++ {
		x := r.Intn(100)
		if (s == 0 || in.Script[len(in.Script)-1].Op == "restart") && r.Chance(75) {
			x = 0 // usually ask before answering
		}
		switch {
		case x < 22:
			in.Script = append(in.Script, SOp{Op: "missing", N: int(r.Pick([]uint64{0, 1, 1, 2, 3, 5, 16, 384}))})
		case x < 70:
			y := r.Intn(100)
			how := "ok"
			switch {
			case y < 58:
			case y < 68:
				how = "dup"
			case y < 75:
				how = "drop"
			case y < 81:
				how = "flip"
			case y < 84:
				how = "trunc"
			case y < 88:
				how = "junk"
			default:
				how = "unasked"
			}
			in.Script = append(in.Script, SOp{Op: "deliver", Pick: r.Intn(1 << 20), How: how})
		case x < 78:
			o := SOp{Op: "batch"}
			for k := 0; k < 2+r.Intn(6); k++ {
				o.Picks = append(o.Picks, r.Intn(1<<20))
				h := "ok"
				if r.Chance(8) {
					h = "dup"
				} else if r.Chance(6) {
					h = "unasked"
				}
				o.Hows = append(o.Hows, h)
			}
			in.Script = append(in.Script, o)
		case x < 91:
			o := SOp{Op: "commit", N: -1}
			if r.Chance(40) {
				o.N = r.Intn(4)
			} else if r.Chance(20) {
				o.Batch = true
			}
			in.Script = append(in.Script, o)
			if o.N >= 0 && r.Chance(40) { // the process dies right after the failed write
				in.Script = append(in.Script, SOp{Op: "restart"})
			}
		case x < 95:
			in.Script = append(in.Script, SOp{Op: "restart"})
		default:
			in.Script = append(in.Script, SOp{Op: "revive"})
		}
	}
	if r.Chance(70) {
		in.Script = append(in.Script, SOp{Op: "finish", N: int(r.Pick([]uint64{0, 1, 3, 16, 384}))})
		if r.Chance(30) { // a sync started again on the completed database has nothing to do
			in.Script = append(in.Script, SOp{Op: "restart"}, SOp{Op: "finish", N: 0})
		}
	}
	return in
}

func loadCorpus(dir string) []*CaseIn {
	var out []*CaseIn
	files, _ := filepath.Glob(filepath.Join(dir, "*.json"))
	sort.Strings(files)
	for _, f := range files {
		b, err := ioutil.ReadFile(f)
		if err != nil {
			continue
		}
		c := &CaseIn{}
		if json.Unmarshal(b, c) == nil && c.Mode != "" {
			c.Comment = "corpus:" + filepath.Base(f)
			out = append(out, c)
		}
	}
	return out
}

func gen(seed uint64, n int, outDir, corpusDir string) {
	// shards use seeds a fixed distance apart and splitmix streams of nearby seeds
	// are shifted copies of each other: start from a hashed seed instead
	r := vf.NewRng(seed)
	r = vf.NewRng(r.U64() ^ (seed * 0xD1342543DE82EF95))
	res := vf.NewResult("C19", seed)
	var sb strings.Builder
	sb.WriteString("From VF.C19 Require Import Model.\nLocal Open Scope N_scope.\nDefinition cases : list case := [\n")
	distinct := map[string]bool{}
	count := 0
	steps := 0
	emit := func(c *CaseIn) {
		rr := runCase(c)
		if count > 0 {
			sb.WriteString(";\n")
		}
		sb.WriteString(rr.coq)
		if rr.nontrivial {
			distinct[rr.coq] = true
		}
		for k, v := range rr.classes {
			res.Distribution[k] += v
		}
		steps += rr.steps
		res.CaseDescs = append(res.CaseDescs, c)
		if len(res.Samples) < 3 && len(c.Script) < 8 && len(c.Entries)+len(c.Accounts) < 6 {
			res.Samples = append(res.Samples, c)
		}
		if rr.what != "" {
			h := *c
			h.What = rr.what
			h.Detail = rr.detail
			res.OracleHits = append(res.OracleHits, h)
			res.Count("oracle_" + rr.what)
		}
		count++
	}
	// separate campaign class: the real launch / fetcher / loop code with stub peers
	lc := runLaunchCampaign(res, "", "", nil)
	sb.WriteString(lc.coqCase())
	res.CaseDescs = append(res.CaseDescs, map[string]string{"campaign": "launch histories"})
	res.OracleHits = append(res.OracleHits, lc.hits...)
	count++
	for _, c := range loadCorpus(corpusDir) {
		emit(c)
		res.Count("corpus")
	}
	for count < n {
		emit(genCase(r))
	}
	sb.WriteString("].\nDefinition M := Eval vm_compute in mismatches cases.\nPrint M.\n")
	vf.WriteFile(filepath.Join(outDir, "Cases.v"), sb.String())
	res.Cases = count
	res.Distinct = len(distinct)
	res.Extra["steps"] = steps
	res.Rule = "a case = one source (plain trie with hashed / short / prefix-sharing / twin-subtree keys and embedded or hashed leaves, or a state trie whose accounts carry shared or own storage tries, code, delegation blobs, odd hash fields or non-account leaves; 4% with code equal to a trie node = the listed finding class) + optional closed pre-filled database + a responder script of 2-160 steps (Missing with several batch limits; deliveries through processNodeData in any order: correct, twice, dropped, late, bit-flipped, truncated, junk, unasked; Process batches with duplicates and unasked items; Commit to the database, through a batch, or through a writer failing after k puts; restart on the database as it is; an honest run to completion); every step records the implementation's return values and Pending(), every 1-25 steps the full scheduler dump and database; non-trivial = source with more than one entry and more than three executed steps; distinct by full case text"
	res.Write(filepath.Join(outDir, "result.json"))
}

func replay(file string) {
	b, err := ioutil.ReadFile(file)
	if err != nil {
		fmt.Println(err)
		os.Exit(2)
	}
	var lh launchHit
	if json.Unmarshal(b, &lh) == nil && lh.Launch != "" {
		res := vf.NewResult("C19", 0)
		lc := runLaunchCampaign(res, lh.Launch, lh.Entry, lh.Source)
		fmt.Printf("launch history %s via %s, repeated: %v\n", lh.Launch, lh.Entry, res.Distribution)
		if len(lc.hits) > 0 {
			h := lc.hits[0].(launchHit)
			fmt.Printf("ORACLE VIOLATION: %s: %s\n  history: %s\n", h.What, h.Detail, strings.Join(h.Steps, "; "))
			os.Exit(1)
		}
		fmt.Println("no violation")
		return
	}
	c := &CaseIn{}
	if err := json.Unmarshal(b, c); err != nil || c.Mode == "" {
		fmt.Println("not a C19 case:", err)
		os.Exit(2)
	}
	rr := runCase(c)
	if os.Getenv("C19_VERBOSE") != "" {
		fmt.Println(rr.coq)
	}
	fmt.Printf("steps=%d classes=%v\n", rr.steps, rr.classes)
	if rr.what != "" {
		fmt.Printf("ORACLE VIOLATION: %s: %s\n", rr.what, rr.detail)
		os.Exit(1)
	}
	fmt.Println("no violation")
}

func main() {
	mode := ""
	if len(os.Args) > 1 {
		mode = os.Args[1]
		os.Args = append(os.Args[:1], os.Args[2:]...)
	}
	seed := flag.Uint64("seed", 1, "")
	n := flag.Int("n", 100, "")
	out := flag.String("out", ".", "")
	corpus := flag.String("corpus", "/verif/corpus/C19", "")
	file := flag.String("file", "", "")
	flag.Parse()
	logging.Root().SetHandler(logging.DiscardHandler()) // trieSync.updateStats logs every commit
	switch mode {
	case "gen":
		gen(*seed, *n, *out, *corpus)
	case "replay":
		replay(*file)
	default:
		fmt.Println("usage: c19 gen|replay")
		os.Exit(2)
	}
}
