// Caller campaign: the request bookkeeping of you/downloader/triesync.go
// (trieSync.fillTasks / process / commit, run for real through the hook) under
// scripted peers; runTrieSync's dispatcher (one active request per peer, FIFO of
// finished requests) is played by the harness and checked against the model.
package main

import (
	"bytes"
	"fmt"
	"sort"
	"strings"

	"github.com/youchainhq/go-youchain/common"
	"github.com/youchainhq/go-youchain/crypto"
	"github.com/youchainhq/go-youchain/trie"
	"github.com/youchainhq/go-youchain/you/downloader"
	"github.com/youchainhq/go-youchain/youdb"
	"verif/harness/vf"
)

type actReq struct {
	req   *downloader.VerifC19Req
	items []common.Hash
}

type finReq struct {
	req     *actReq
	peer    int
	resp    [][]byte // nil = timed out / dropped
	dropped bool
}

type callerState struct {
	cl       *downloader.VerifC19Caller
	npeers   int
	active   map[int]*actReq
	finished []finReq
	aborted  bool
}

func pid(i int) string { return fmt.Sprintf("p%d", i) }

func peerNum(id string) int {
	var n int
	fmt.Sscanf(id, "p%d", &n)
	return n
}

func (r *runner) peerIDs() []string {
	var ids []string
	for i := 0; i < r.cs.npeers; i++ {
		ids = append(ids, pid(i))
	}
	return ids
}

func (r *runner) newCaller() {
	n := r.in.Peers
	if n < 1 {
		n = 1
	}
	if r.cs != nil && r.cs.npeers > 0 {
		n = r.cs.npeers
	}
	r.cs = &callerState{npeers: n, active: map[int]*actReq{}}
	r.cs.cl = downloader.VerifC19NewCaller(r.sched, r.dst, r.src.state, r.peerIDs())
}

func (r *runner) callerRunning() bool { return !r.cs.aborted && r.sched.Pending() > 0 }

func (r *runner) hashList(hs []common.Hash) string {
	var xs []string
	for _, h := range hs {
		xs = append(xs, fmt.Sprint(r.it.H(h)))
	}
	return "[" + strings.Join(xs, ";") + "]"
}

func (r *runner) blobList(bs [][]byte) string {
	var xs []string
	for _, b := range bs {
		xs = append(xs, fmt.Sprint(r.it.B(b)))
	}
	return "[" + strings.Join(xs, ";") + "]"
}

func (r *runner) emitTasks() {
	t := r.cs.cl.Tasks()
	var hs []common.Hash
	for h := range t {
		hs = append(hs, h)
	}
	sort.Slice(hs, func(i, j int) bool { return bytes.Compare(hs[i][:], hs[j][:]) < 0 })
	var xs []string
	for _, h := range hs {
		var ps []string
		for _, id := range t[h] {
			ps = append(ps, fmt.Sprint(peerNum(id)))
		}
		xs = append(xs, fmt.Sprintf("(%d,[%s])", r.it.H(h), strings.Join(ps, ";")))
	}
	num, byt := r.cs.cl.Counters()
	r.ops = append(r.ops, fmt.Sprintf("YTasks [%s] %d %d", strings.Join(xs, ";"), num, byt))
}

func contains(a []string, s string) bool {
	for _, x := range a {
		if x == s {
			return true
		}
	}
	return false
}

func (r *runner) cAssign(peer, n int) {
	if !r.callerRunning() {
		return
	}
	before := r.cs.cl.Tasks()
	req := r.cs.cl.FillTasks(pid(peer), n)
	items := req.Items()
	after := r.cs.cl.Tasks()
	gotSet := map[common.Hash]bool{}
	for h := range after {
		if _, ok := before[h]; !ok {
			gotSet[h] = true
		}
	}
	for _, h := range items {
		if _, ok := before[h]; !ok {
			gotSet[h] = true
		}
	}
	var got []common.Hash
	for h := range gotSet {
		got = append(got, h)
	}
	sort.Slice(got, func(i, j int) bool { return bytes.Compare(got[i][:], got[j][:]) < 0 })
	r.ops = append(r.ops, fmt.Sprintf("YAssign %d %d %s %s", peer, n, r.hashList(got), r.hashList(items)))
	r.res.classes["caller_assign"]++
	// oracle: a task is never handed to a peer that already tried it, and never more than asked for
	if len(items) > n {
		r.fail("assigned-more-than-capacity", fmt.Sprintf("peer %d asked for %d got %d", peer, n, len(items)), false)
	}
	for _, h := range items {
		if contains(before[h], pid(peer)) {
			r.fail("task-reassigned-to-a-peer-that-tried-it", fmt.Sprintf("peer %d task %x", peer, h[:6]), false)
		}
	}
	if len(items) > 0 {
		if old := r.cs.active[peer]; old != nil {
			r.cs.finished = append(r.cs.finished, finReq{old, peer, nil, true})
			r.res.classes["caller_busy_peer_overwritten"]++
		}
		r.cs.active[peer] = &actReq{req, items}
	} else {
		r.res.classes["caller_assign_empty"]++
	}
	r.emitTasks()
	r.after()
}

// softCorrupt returns the blob with a byte flipped where it stays acceptable to
// everything but the hash: the tail of a leaf value, or anywhere in a raw entry
// (code / delegations); nil if this entry is not of that kind.
func softCorrupt(src *Src, h common.Hash, blob []byte) []byte {
	if len(blob) == 0 {
		return nil
	}
	b := append([]byte{}, blob...)
	b[len(b)-1] ^= 0x01
	if src.raws[h] && !src.nodes[h] {
		return b
	}
	n, err := trie.VerifC19Decode(h[:], blob)
	if err != nil || n == nil || !n.Short || len(n.Children) != 1 || n.Children[0].Kind != 1 {
		return nil
	}
	if m, err := trie.VerifC19Decode(h[:], b); err != nil || m == nil {
		return nil
	}
	return b
}

func (r *runner) cPack(peer int, how string, pick int) {
	a := r.cs.active[peer]
	var blobs [][]byte
	if a == nil {
		// unsolicited packet: runTrieSync drops it
		if len(r.src.all) == 0 {
			return
		}
		for k := 0; k < 1+pick%3; k++ {
			if b := r.srcBlob(r.src.all[idx(pick+k*7, len(r.src.all))]); b != nil {
				blobs = append(blobs, b)
			}
		}
		r.ops = append(r.ops, fmt.Sprintf("YPack %d %s", peer, r.blobList(blobs)))
		r.res.classes["caller_pack_unsolicited"]++
		return
	}
	blobs = [][]byte{}
	flipped := false
	for i, h := range a.items {
		b := r.srcBlob(h)
		if b == nil {
			continue
		}
		switch how {
		case "partial":
			if (i+pick)%2 == 0 {
				continue
			}
			blobs = append(blobs, b)
		case "empty":
		case "corrupt":
			if i == idx(pick, len(a.items)) {
				blobs = append(blobs, corrupt("flip", b, pick))
			} else {
				blobs = append(blobs, b)
			}
		case "leafflip": // a full-length reply, one leaf value / raw entry altered, still decodable
			if c := softCorrupt(r.src, h, b); c != nil && !flipped {
				blobs = append(blobs, c)
				flipped = true
			} else {
				blobs = append(blobs, b)
			}
		case "substitute": // a full-length reply, one blob replaced by another valid node of the source
			if i == idx(pick, len(a.items)) && len(r.src.all) > 0 {
				if o := r.srcBlob(r.src.all[idx(pick/3, len(r.src.all))]); o != nil {
					b = o
				}
			}
			blobs = append(blobs, b)
		case "twice":
			blobs = append(blobs, b, b)
		default:
			blobs = append(blobs, b)
		}
	}
	switch how {
	case "extra":
		blobs = append(blobs, corrupt("junk", nil, pick))
		if len(r.src.all) > 0 {
			if b := r.srcBlob(r.src.all[idx(pick, len(r.src.all))]); b != nil {
				blobs = append(blobs, b)
			}
		}
	case "reversed":
		for i, j := 0, len(blobs)-1; i < j; i, j = i+1, j-1 {
			blobs[i], blobs[j] = blobs[j], blobs[i]
		}
	}
	r.ops = append(r.ops, fmt.Sprintf("YPack %d %s", peer, r.blobList(blobs)))
	r.res.classes["caller_pack_"+how]++
	r.cs.finished = append(r.cs.finished, finReq{a, peer, blobs, false})
	delete(r.cs.active, peer)
}

func (r *runner) cLose(peer int, dropped bool) {
	if dropped {
		r.ops = append(r.ops, fmt.Sprintf("YDrop %d", peer))
	} else {
		r.ops = append(r.ops, fmt.Sprintf("YTimeout %d", peer))
	}
	a := r.cs.active[peer]
	if a == nil {
		return
	}
	if dropped {
		r.res.classes["caller_peer_dropped"]++
	} else {
		r.res.classes["caller_timeout"]++
	}
	r.cs.finished = append(r.cs.finished, finReq{a, peer, nil, dropped})
	delete(r.cs.active, peer)
}

func (r *runner) cNext() {
	np := r.cs.cl.NumPeers()
	if !r.callerRunning() || len(r.cs.finished) == 0 {
		r.ops = append(r.ops, fmt.Sprintf("YNext %d false 0 0", np))
		return
	}
	f := r.cs.finished[0]
	r.cs.finished = r.cs.finished[1:]
	succ, err := r.cs.cl.Process(f.req.req, f.resp, f.dropped)
	code := 0
	if err != nil {
		switch {
		case strings.Contains(err.Error(), "invalid trie node"):
			code = 1
		case strings.Contains(err.Error(), "failed with all peers"):
			code = 2
		default:
			code = 9
		}
		r.cs.aborted = true
	}
	r.ops = append(r.ops, fmt.Sprintf("YNext %d true %d %d", np, succ, code))
	r.res.classes[fmt.Sprintf("caller_process_err%d", code)]++
	if err == nil {
		// oracle: a task that was not answered is back in the queue, and the peer may be
		// asked again unless it answered with an explicitly empty packet
		answered := map[common.Hash]bool{}
		for _, b := range f.resp {
			answered[crypto.Keccak256Hash(b)] = true
		}
		tasks := r.cs.cl.Tasks()
		for _, h := range f.req.items {
			if answered[h] {
				continue
			}
			att, ok := tasks[h]
			if !ok {
				r.fail("unanswered-request-lost", fmt.Sprintf("task %x assigned to peer %d was not answered and is no longer queued", h[:6], f.peer), false)
			} else if (f.resp == nil || len(f.resp) > 0) && contains(att, pid(f.peer)) {
				r.fail("unanswered-request-not-retryable", fmt.Sprintf("task %x still marks peer %d as tried", h[:6], f.peer), false)
			}
		}
		r.emitTasks()
	}
	r.checkMem("after process")
	r.after()
}

// every membatch entry hashes to its key (only blobs whose hash was requested get in)
func (r *runner) checkMem(when string) {
	_, order := r.sched.VerifC19Dump()
	for _, h := range order {
		b, ok := r.sched.VerifC19MemGet(h)
		if !ok || crypto.Keccak256Hash(b) != h {
			r.fail("membatch-entry-does-not-hash-to-its-key", fmt.Sprintf("%s: %x", when, h[:6]), false)
		}
	}
}

func (r *runner) cCommit(force bool) {
	if err := r.cs.cl.Commit(force); err != nil {
		r.fail("caller-commit-error", err.Error(), false)
	}
	r.ops = append(r.ops, fmt.Sprintf("YCommit %s", vf.Bool(force)))
	if force {
		r.res.classes["caller_commit_forced"]++
	} else {
		r.res.classes["caller_commit_loop"]++
	}
	if !r.cs.aborted { // after an aborting error of process the task bookkeeping is unspecified (map iteration order)
		r.emitTasks()
	}
	r.after()
	r.checkDb("after the downloader's commit")
	r.checkComplete("after the downloader's commit")
}

// the loop ends (cancel, error, completion): deferred commit(true)
func (r *runner) cCancel() {
	r.cCommit(true)
	if _, order := r.sched.VerifC19Dump(); len(order) != 0 {
		r.fail("cancel-left-membatch", fmt.Sprintf("%d entries not flushed by commit(true)", len(order)), false)
	}
	r.res.classes["caller_cancel"]++
}

func (r *runner) activePeers() []int {
	var ps []int
	for p := range r.cs.active {
		ps = append(ps, p)
	}
	sort.Ints(ps)
	return ps
}

// honest peers: everything in flight is answered, then a peer that has not been
// used by the script (id 5) is asked until nothing is pending
func (r *runner) cFinish(n int) {
	for _, q := range r.activePeers() {
		r.cPack(q, "honest", 0)
	}
	for len(r.cs.finished) > 0 && r.callerRunning() {
		r.cNext()
	}
	for round := 0; round < 4*len(r.src.all)+20 && r.callerRunning(); round++ {
		r.cAssign(5, n)
		progressed := r.cs.active[5] != nil
		if progressed {
			r.cPack(5, "honest", 0)
		}
		for len(r.cs.finished) > 0 && r.callerRunning() {
			r.cNext()
		}
		r.cCommit(false)
		if !progressed {
			break
		}
	}
	r.cCancel()
	if r.sched.Pending() > 0 {
		r.res.classes["caller_finish_incomplete"]++
		if r.src.wellFormed && !r.src.hasClash() && !r.cs.aborted {
			r.fail("honest-sync-stalls", fmt.Sprintf("downloader loop with honest peers: %d still pending", r.sched.Pending()), false)
		}
	}
}

func (r *runner) execCaller(o SOp) bool {
	switch o.Op {
	case "assign":
		r.cAssign(idx(o.Peer, 6), o.N)
	case "pack":
		p := idx(o.Peer, 6)
		if ps := r.activePeers(); len(ps) > 0 && o.Pick%5 != 0 {
			p = ps[idx(o.Peer, len(ps))] // usually a peer that was asked something
		}
		r.cPack(p, o.How, o.Pick)
	case "timeout", "drop":
		p := idx(o.Peer, 6)
		if ps := r.activePeers(); len(ps) > 0 && o.Pick%4 != 0 {
			p = ps[idx(o.Peer, len(ps))]
		}
		r.cLose(p, o.Op == "drop")
	case "next":
		r.cNext()
	case "ccommit":
		r.cCommit(o.Force)
	case "cancel":
		r.cCancel()
	case "peers":
		n := 1 + idx(o.N, 4)
		r.cs.npeers = n
		r.cs.cl.SetPeers(r.peerIDs())
		r.res.classes["caller_peerset_changed"]++
	case "cfinish":
		r.cFinish(o.N)
	default:
		return false
	}
	return true
}

func genCallerScript(r *vf.Rng) []SOp {
	var sc []SOp
	steps := 2 + r.Heavy(140)
	for s := 0; s < steps; s++ {
		x := r.Intn(100)
		peer := r.Intn(5)
		switch {
		case x < 36:
			sc = append(sc, SOp{Op: "assign", Peer: peer, N: int(r.Pick([]uint64{0, 1, 2, 3, 3, 8, 16, 384}))})
			if r.Chance(60) { // the assigned peer answers, not always well
				how := []string{"honest", "honest", "partial", "empty", "corrupt", "extra", "twice", "reversed", "leafflip", "leafflip", "leafflip", "substitute"}[r.Intn(12)]
				sc = append(sc, SOp{Op: "pack", Peer: peer, How: how, Pick: 5 * r.Intn(1<<12)})
				if r.Chance(70) {
					sc = append(sc, SOp{Op: "next"})
				}
			}
		case x < 60:
			y := r.Intn(100)
			how := "honest"
			switch {
			case y < 40:
			case y < 55:
				how = "partial"
			case y < 67:
				how = "empty"
			case y < 77:
				how = "corrupt"
			case y < 86:
				how = "extra"
			case y < 90:
				how = "twice"
			case y < 94:
				how = "leafflip"
			case y < 97:
				how = "substitute"
			default:
				how = "reversed"
			}
			sc = append(sc, SOp{Op: "pack", Peer: peer, How: how, Pick: r.Intn(1 << 16)})
			if r.Chance(60) {
				sc = append(sc, SOp{Op: "next"})
			}
		case x < 78:
			sc = append(sc, SOp{Op: "next"})
		case x < 84:
			sc = append(sc, SOp{Op: "timeout", Peer: peer, Pick: r.Intn(1 << 16)})
		case x < 88:
			sc = append(sc, SOp{Op: "drop", Peer: peer, Pick: r.Intn(1 << 16)})
		case x < 93:
			sc = append(sc, SOp{Op: "ccommit", Force: r.Chance(30)})
		case x < 96:
			sc = append(sc, SOp{Op: "cancel"})
			if r.Chance(70) {
				sc = append(sc, SOp{Op: "restart"})
			}
		default:
			sc = append(sc, SOp{Op: "peers", N: r.Intn(4)})
		}
	}
	if r.Chance(75) {
		sc = append(sc, SOp{Op: "cfinish", N: int(r.Pick([]uint64{1, 2, 3, 16, 384}))})
	} else {
		sc = append(sc, SOp{Op: "cancel"})
	}
	return sc
}

var _ = youdb.IdealBatchSize
