// Independent reference verifier for the secp256k1 VRF and owner-side proof forging,
// taken over from harness/cmd/c04 (build-C04): strict decoding of the VRF point
// (65 bytes, tag 0x04, coordinates below the field prime, on the curve), the group
// level discrete-log-equality check through crypto.S256() and the package's exported
// H1/H2, and proofs as the OWNER of a key can build them over non-canonical encodings.
// C01 uses the reference as the ground truth for "valid sortition proof" (oracle and
// the model's VRF table); the library's ProofToHash is only compared with it.
package main

import (
	"bytes"
	"crypto/ecdsa"
	"crypto/elliptic"
	"crypto/sha256"
	"fmt"
	"math/big"

	"github.com/youchainhq/go-youchain/crypto"
	secp256k1VRF "github.com/youchainhq/go-youchain/crypto/vrf/secp256k1"
)

var errRef = fmt.Errorf("invalid VRF proof")

// challenge: H2(G, H, pk, vrfData, U, V)
func vrfChallenge(pub *ecdsa.PublicKey, hx, hy *big.Int, vrfData []byte, ux, uy, vx, vy *big.Int) *big.Int {
	c := crypto.S256()
	var b bytes.Buffer
	b.Write(elliptic.Marshal(c, c.Params().Gx, c.Params().Gy))
	b.Write(elliptic.Marshal(c, hx, hy))
	b.Write(elliptic.Marshal(c, pub.X, pub.Y))
	b.Write(vrfData)
	b.Write(elliptic.Marshal(c, ux, uy))
	b.Write(elliptic.Marshal(c, vx, vy))
	return secp256k1VRF.H2(b.Bytes())
}

// refDecode: the accepted encodings of the VRF point: 65 bytes, tag 4,
// coordinates below the field prime, on the curve.  raw x, y and IsOnCurve(x,y)
// are reported whatever the tag is.
func refDecode(d []byte) (x, y *big.Int, onCurve, ok bool) {
	c := crypto.S256()
	if len(d) != 65 {
		return nil, nil, false, false
	}
	x, y = new(big.Int).SetBytes(d[1:33]), new(big.Int).SetBytes(d[33:65])
	func() {
		defer func() { recover() }()
		onCurve = c.IsOnCurve(x, y)
	}()
	ok = d[0] == 4 && x.Cmp(c.Params().P) < 0 && y.Cmp(c.Params().P) < 0 && onCurve
	return
}

// refDleq: the group-level check s == H2(G, H, pk, vrfData, [t]G+[s]pk, [t]H+[s](x,y))
func refDleq(pub *ecdsa.PublicKey, m, sB, tB []byte, x, y *big.Int, vrfData []byte) (ok bool) {
	defer func() {
		if recover() != nil {
			ok = false
		}
	}()
	c := crypto.S256()
	tGx, tGy := c.ScalarBaseMult(tB)
	ksGx, ksGy := c.ScalarMult(pub.X, pub.Y, sB)
	ux, uy := c.Add(tGx, tGy, ksGx, ksGy)
	hx, hy := secp256k1VRF.H1(m)
	tHx, tHy := c.ScalarMult(hx, hy, tB)
	sHx, sHy := c.ScalarMult(x, y, sB)
	vx, vy := c.Add(tHx, tHy, sHx, sHy)
	h2 := vrfChallenge(pub, hx, hy, vrfData, ux, uy, vx, vy)
	return new(big.Int).SetBytes(sB).Cmp(h2) == 0
}

// refP2H: ProofToHash as the VRF defines it (independent of the implementation's parsing)
func refP2H(pub *ecdsa.PublicKey, m, proof []byte) (out [32]byte, err error) {
	if pub == nil || len(proof) != 129 {
		return out, errRef
	}
	d := proof[64:129]
	x, y, _, ok := refDecode(d)
	if !ok || !refDleq(pub, m, proof[0:32], proof[32:64], x, y, d) {
		return out, errRef
	}
	return sha256.Sum256(d), nil
}

// forgeProof: what the OWNER of the key can build: s and t are computed the way
// Evaluate does (fixed nonce from arg), over whatever point encoding the
// variant puts into the proof.
func forgeProof(k *ecdsa.PrivateKey, m []byte, variant string, arg int64) []byte {
	c := crypto.S256()
	P, N := c.Params().P, c.Params().N
	r := new(big.Int).Add(big.NewInt(0x5eed0000), big.NewInt(arg%100000+1))
	hx, hy := secp256k1VRF.H1(m)
	px, py := c.ScalarMult(hx, hy, k.D.Bytes()) // the genuine point [k]H1(m)
	vrfData := elliptic.Marshal(c, px, py)
	switch variant {
	case "forge_tag": // same point, another tag byte
		tags := []byte{0, 1, 2, 3, 5, 6, 7, 0x40, 0x84, 0xff, byte(arg)}
		vrfData[0] = tags[int(arg>>8)%len(tags)]
		if vrfData[0] == 4 {
			vrfData[0] = 6
		}
	case "forge_tagbyte": // same point, leading byte = arg
		vrfData[0] = byte(arg)
	case "forge_point": // another curve point: [k+1]H
		k1 := new(big.Int).Add(k.D, big.NewInt(1+arg%5))
		qx, qy := c.ScalarMult(hx, hy, k1.Bytes())
		vrfData = elliptic.Marshal(c, qx, qy)
	case "forge_negy": // the negated point
		vrfData = elliptic.Marshal(c, px, new(big.Int).Sub(P, py))
	case "forge_xgep": // a small point with X written as X + p (non-canonical coordinate)
		for x0 := int64(1); x0 < 200; x0++ {
			x := big.NewInt(x0)
			rhs := new(big.Int).Exp(x, big.NewInt(3), P)
			rhs.Add(rhs, big.NewInt(7)).Mod(rhs, P)
			if y := new(big.Int).ModSqrt(rhs, P); y != nil {
				xb := new(big.Int).Add(x, P).Bytes()
				yb := y.Bytes()
				vrfData = make([]byte, 65)
				vrfData[0] = 4
				copy(vrfData[33-len(xb):33], xb)
				copy(vrfData[65-len(yb):65], yb)
				break
			}
		}
	}
	rGx, rGy := c.ScalarBaseMult(r.Bytes())
	rHx, rHy := c.ScalarMult(hx, hy, r.Bytes())
	sv := vrfChallenge(&k.PublicKey, hx, hy, vrfData, rGx, rGy, rHx, rHy)
	tv := new(big.Int).Sub(r, new(big.Int).Mul(sv, k.D))
	tv.Mod(tv, N)
	out := make([]byte, 129)
	copy(out[32-len(sv.Bytes()):32], sv.Bytes())
	copy(out[64-len(tv.Bytes()):64], tv.Bytes())
	copy(out[64:], vrfData)
	switch variant {
	case "forge_trailing":
		out = append(out, byte(arg))
	case "forge_leadzero":
		out = append([]byte{0}, out...)
	case "forge_tplusn": // t + n has the same effect as t; only possible if it fits 32 bytes
		if tn := new(big.Int).Add(tv, N); tn.BitLen() <= 256 {
			copy(out[32:64], make([]byte, 32))
			copy(out[64-len(tn.Bytes()):64], tn.Bytes())
		}
	case "forge_flip":
		out[int(arg>>4)%129] ^= 1 << uint(arg%8)
	}
	return out
}
