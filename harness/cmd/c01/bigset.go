// Large look-back sets and duplicates at a distance: a vote container may name any validator of
// the look-back set any number of times.  The verifier resolves every entry (RecoverSignerInfo goes
// through LRU caches of decoded keys) before it decides whether the entry counts; whatever those
// caches hold or have evicted, a validator counts once per container.  Sets here have more members
// than any cache on the path has slots, and copies of one vote are separated by 1 .. 2*capacity
// other entries.
package main

import (
	"encoding/json"
	"fmt"
	"os"
	"sort"
	"time"

	"github.com/youchainhq/go-youchain/consensus/ucon"
	"verif/harness/vf"
)

func cacheCapacity() int {
	cs := ucon.VerifC01CacheSizes(nil)
	m := cs[0]
	for _, c := range cs {
		if c > m {
			m = c
		}
	}
	return m
}

// bigDup: an honest header over a small committee inside a look-back set of more than `capacity`
// validators (the rest house / offline: they need no proofs or signatures), whose precommit (and
// certificate) container repeats one member's vote k times with filler entries in between.
func (g *gen) bigDup(res *vf.Result) Case {
	r := g.r
	capN := cacheCapacity()
	// an honest header that is one vote short of the quorum (every third one: any generated header)
	var c Case
	g.plain = g.bigNo%3 != 2
	for try := 0; try < 40; try++ {
		c = g.one(&vf.Result{Distribution: map[string]int{}})
		ok := len(c.H.Val.Votes) >= 1 && !c.H.Val.Bad && c.H.Val.Agg.Kind == 0 && !c.H.Cons.Nil && c.H.ParentBad == 0
		for _, v := range c.H.Val.Votes {
			if v.Proof.Kind != 0 || int(v.Idx) >= len(c.LB.Vals) {
				ok = false
			}
		}
		if ok && g.plain && c.H.Cons.SubUsers == 0 {
			ok = false // the proposer must hold a seat, otherwise nothing else matters
		}
		if ok {
			break
		}
	}
	if g.plain {
		// keep the heavy votes, drop light ones until the weight is below the quorum: then two copies of
		// the heaviest kept vote would reach it
		trim := func(lb LBS, u *UVS, seed int, step uint32, thr uint64, pos bool) bool {
			all := honestVotes(lb, chamberTotal(lb), seed, step, u.RoundIndex, thr, true)
			sort.Slice(all, func(i, j int) bool { return all[i].Votes > all[j].Votes })
			sum, q := uint64(0), quorumOf(thr, pos)
			for _, v := range all {
				sum += uint64(v.Votes)
			}
			for len(all) > 1 && sum >= q {
				sum -= uint64(all[len(all)-1].Votes)
				all = all[:len(all)-1]
			}
			if sum < q && len(all) > 0 && sum+uint64(all[0].Votes) >= q {
				u.Votes = all
				u.Agg = aggOf(lb, all, c.H.Cons.Round, u.RoundIndex)
				return true
			}
			return false
		}
		for try := 0; try < 40 && !trim(c.LB, &c.H.Val, c.SeedH.Seed, stepPrecommit, c.CP.VT, true); try++ {
			g.plain = true
			c = g.one(&vf.Result{Distribution: map[string]int{}})
		}
		if c.H.Number%32768 == 0 {
			if cvt, ok := verCVT(&c, c.CertH.Version); ok {
				trim(c.CertLB, &c.H.Cert, c.CertH.Seed, stepCertificate, cvt, false)
			}
		}
	}
	g.plain = false
	distances := []int{capN + 1, 1, capN, capN + 37, capN - 1, 2, 2 * capN}
	fixedDist := distances[g.bigNo%len(distances)]
	g.bigNo++
	nFill := capN + 1 + r.Intn(40)
	t0 := time.Now()
	ensureKeys(nKeys + nFill)
	if os.Getenv("C01_TIMING") != "" {
		fmt.Fprintln(os.Stderr, "ensureKeys", time.Since(t0))
	}
	sameSets := fmt.Sprint(c.LB) == fmt.Sprint(c.CertLB)
	grow := func(lb *LBS, votes []VoteS) []int {
		old := append([]ValS{}, lb.Vals...)
		for i := 0; i < nFill; i++ {
			v := ValS{Key: nKeys + i, Bls: nKeys + i, Role: 3, Status: 1, Stake: 0}
			if i%3 == 1 {
				v.Role, v.Status = 2, 0 // an offline senator
			}
			lb.Vals = append(lb.Vals, v)
		}
		buildLB(lb) // canonical order
		pos := map[int]int{}
		for i, v := range lb.Vals {
			pos[v.Key] = i
		}
		for i := range votes {
			if int(votes[i].Idx) < len(old) {
				votes[i].Idx = uint32(pos[old[votes[i].Idx].Key])
			}
		}
		var fill []int
		for i, v := range lb.Vals {
			if v.Key >= nKeys {
				fill = append(fill, i)
			}
		}
		return fill
	}
	fill := grow(&c.LB, c.H.Val.Votes)
	certFill := fill
	if sameSets {
		old := c.CertLB
		c.CertLB = c.LB
		pos := map[int]int{}
		for i, v := range c.LB.Vals {
			pos[v.Key] = i
		}
		for i := range c.H.Cert.Votes {
			if int(c.H.Cert.Votes[i].Idx) < len(old.Vals) {
				c.H.Cert.Votes[i].Idx = uint32(pos[old.Vals[c.H.Cert.Votes[i].Idx].Key])
			}
		}
	} else {
		certFill = grow(&c.CertLB, c.H.Cert.Votes)
	}
	dup := func(lb LBS, u *UVS, fill []int, tag string) {
		if len(u.Votes) == 0 || u.Agg.Kind != 0 {
			return
		}
		// the heaviest vote is the one worth repeating
		bi := 0
		for i, v := range u.Votes {
			if v.Votes > u.Votes[bi].Votes {
				bi = i
			}
		}
		x := u.Votes[bi]
		// as many copies as a verifier counting every copy would need to see the quorum (2..4)
		sum, q := uint64(0), quorumOf(c.CP.VT, true)
		if tag == "certificate_repeated" {
			cvt, _ := verCVT(&c, c.CertH.Version)
			q = quorumOf(cvt, false)
		}
		for _, v := range u.Votes {
			sum += uint64(v.Votes)
		}
		k := 2
		for k < 4 && sum+uint64(k-1)*uint64(x.Votes) < q {
			k++
		}
		dist := fixedDist
		rest := append(append([]VoteS{}, u.Votes[:bi]...), u.Votes[bi+1:]...)
		var out []VoteS
		out = append(out, rest...)
		next := r.Intn(len(fill))
		for copyNo := 0; copyNo < k; copyNo++ {
			out = append(out, x)
			if copyNo == k-1 {
				break
			}
			for j := 0; j < dist-1; j++ { // dist-1 entries naming other validators in between
				out = append(out, VoteS{Idx: uint32(fill[next%len(fill)]), Votes: 0, Proof: ProofS{Kind: 3}})
				next++
			}
		}
		u.Votes = out
		// the aggregate carries the repeated signature as often as the vote is listed (what a verifier that
		// counted every copy would ask for) - or once
		if r.Chance(75) && int(x.Idx) < len(lb.Vals) {
			for copyNo := 1; copyNo < k; copyNo++ {
				u.Agg.Parts = append(u.Agg.Parts, PartS{Key: lb.Vals[x.Idx].Bls, Round: c.H.Cons.Round, Index: u.RoundIndex})
			}
		}
		res.Count(fmt.Sprintf("big:%s_k%d_distance_%s", tag, k, distName(dist, capN)))
	}
	dup(c.LB, &c.H.Val, fill, "precommit_repeated")
	if c.H.Number%32768 == 0 && r.Chance(70) {
		dup(c.CertLB, &c.H.Cert, certFill, "certificate_repeated")
	}
	res.Count("big:look_back_set_larger_than_every_cache")
	return c
}

func distName(d, capN int) string {
	switch d {
	case capN - 1:
		return "capacity-1"
	case capN:
		return "capacity"
	case capN + 1:
		return "capacity+1"
	case 2 * capN:
		return "2*capacity"
	}
	return fmt.Sprint(d)
}

// rekeyed: the same main address carries different BLS keys at different look-back heights (the
// staking module lets a validator withdraw completely and be created again under the same main key
// with another BLS key).  Three headers verified one after the other by the same Server:
//  1. the old set, everybody votes (accepted; whatever the verifier keeps about the members is from here)
//  2. the new set (member D re-registered with a new BLS key), D's share still made by the OLD key:
//     D's vote is bound to this block only by that share, the registered key did not sign -> D counts
//     for nothing, the aggregate does not verify
//  3. the new set, D's share made by the NEW key (honest; must be accepted)
func (g *gen) rekeyed(res *vf.Result) []Case {
	r := g.r
	var a Case
	g.plain, g.plainAll = true, true
	for try := 0; try < 60; try++ {
		a = g.one(&vf.Result{Distribution: map[string]int{}})
		ok := len(a.H.Val.Votes) >= 2 && a.H.Cons.SubUsers > 0 && a.H.Number%32768 != 0
		for _, v := range a.H.Val.Votes {
			if v.Proof.Kind != 0 || int(v.Idx) >= len(a.LB.Vals) || a.LB.Vals[v.Idx].Bls != a.LB.Vals[v.Idx].Key {
				ok = false
			}
		}
		if ok {
			break
		}
	}
	g.plain, g.plainAll = false, false
	a.Comment = "history:1 old validator set, every member votes"
	// D: the heaviest voter that is not the proposer; its new BLS key: one no member of the set uses
	di, dw := -1, uint32(0)
	for i, v := range a.H.Val.Votes {
		if a.LB.Vals[v.Idx].Key != a.H.Cons.Signer && v.Votes >= dw {
			di, dw = i, v.Votes
		}
	}
	if di < 0 {
		di = 0
	}
	used := map[int]bool{}
	for _, v := range a.LB.Vals {
		used[v.Key], used[v.Bls] = true, true
	}
	newBls := 0
	for used[newBls] {
		newBls++
	}
	clone := func(c Case) Case {
		d := c
		d.LB.Vals = append([]ValS{}, c.LB.Vals...)
		d.CertLB.Vals = append([]ValS{}, c.CertLB.Vals...)
		d.H.Val.Votes = append([]VoteS{}, c.H.Val.Votes...)
		d.H.Val.Agg.Parts = append([]PartS{}, c.H.Val.Agg.Parts...)
		return d
	}
	didx := int(a.H.Val.Votes[di].Idx)
	b := clone(a)
	b.LB.Vals[didx].Bls = newBls
	b.Comment = fmt.Sprintf("history:2 validator %d registered again under the same main key with BLS key %d; its share is still made by the old BLS key %d", didx, newBls, a.LB.Vals[didx].Bls)
	c := clone(b)
	for i := range c.H.Val.Agg.Parts {
		if c.H.Val.Agg.Parts[i].Key == a.LB.Vals[didx].Bls {
			c.H.Val.Agg.Parts[i].Key = newBls
		}
	}
	c.Comment = "history:3 the re-registered validator signs with its new BLS key"
	_ = r
	b.Before = []Case{a}
	c.Before = []Case{a, b}
	c.Before[1].Before = nil
	res.Count("history:same_main_key_other_bls_key")
	return []Case{a, b, c}
}

func cloneH(h HCase) HCase {
	b, err := json.Marshal(h)
	if err != nil {
		panic(err)
	}
	var out HCase
	if err := json.Unmarshal(b, &out); err != nil {
		panic(err)
	}
	return out
}

// forked: a reorganisation under a long-lived verifier.
//  1. chain O: an honest header at height n, verified with the seal flag (accepted)
//  2. fork N: the block at the stake look-back height of n is ANOTHER block whose validator set is the
//     older one (the heaviest voter not yet entitled / offline / house / a fraction of its stake); the
//     header at height n is the one voted by O's validators -> below the quorum on N, must be rejected
//  3. fork N again, header proposed and voted by N's own validators (honest; accepted when N has a quorum)
func (g *gen) forked(res *vf.Result) []HCase {
	var a HCase
	found := false
	g.hplain = true
	for try := 0; try < 40 && !found; try++ {
		a = g.hcase(&vf.Result{Distribution: map[string]int{}})
		if a.Kind != "header" || len(a.C.H.Val.Votes) < 2 {
			continue
		}
		p := cloneH(a)
		aged := server
		server, _ = ucon.NewVRFServer(nil)
		observeH(&p)
		server = aged
		found = p.Verdict == 0
	}
	g.hplain = false
	if !found {
		return nil
	}
	n := a.C.H.Number
	stakeN := lbnum(n, a.YVers[0].StakeLB)
	si := -1
	for i, e := range a.Chain {
		if e.Num == stakeN && e.VR == 0 {
			si = i
		}
	}
	if si < 0 || stakeN == 0 {
		return nil
	}
	a.Comment = "history:1 chain O, honest header"
	older := g.olderSet(a.C.LB, a.C.H.Val.Votes)
	b := cloneH(a)
	b.Chain[si].VR, b.Chain[si].Tag = 3, 1
	b.Readers = append(b.Readers, ReaderS{VR: 3, LB: older})
	b.Comment = fmt.Sprintf("history:2 fork N: another block at the stake look-back height %d with the older validator set; the header is the one voted by chain O's validators", stakeN)
	b.Before = []HCase{cloneH(a)}
	out := []HCase{a, b}
	// 3. the honest header of fork N
	c := cloneH(b)
	c.Before = []HCase{cloneH(a)}
	c.Chain[si].VR = 0
	c.C.LB = older
	buildLB(&c.C.LB)
	total := chamberTotal(c.C.LB)
	idx := c.C.H.Val.RoundIndex
	votes := honestVotes(c.C.LB, total, c.C.SeedH.Seed, stepPrecommit, idx, c.C.CP.VT, true)
	okProp := false
	for _, v := range c.C.LB.Vals {
		if !v.MainBad && v.Key == c.C.H.Cons.Signer && isMember(v) {
			if j, pan := seatsOf(honestProof(c.C.H.Cons.Proof).hash, v.Stake, c.C.CP.PT, total); !pan && j > 0 {
				c.C.H.Cons.PrioJ, c.C.H.Cons.SubUsers = j, uint32(j)
				okProp = true
			}
		}
	}
	if okProp && len(votes) > 0 && c.C.H.Number%32768 != 0 {
		c.C.H.Val.Votes = votes
		c.C.H.Val.Agg = aggOf(c.C.LB, votes, c.C.H.Cons.Round, idx)
		c.Comment = "history:3 fork N, header proposed and voted by fork N's own validators"
		out = append(out, c)
	}
	res.Count("history:fork_with_another_validator_set_at_the_look_back_height")
	return out
}
