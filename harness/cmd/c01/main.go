// C01 harness: drives the real header verifier of consensus/ucon
// ((*Server).VerifySideChainHeader -> verifyConsensusFieldMain -> verifyVotes)
// of the working tree over honestly built and forged headers.  Validator sets
// carry real secp256k1 (VRF) and BLS keys, sortition proofs are real VRF
// proofs, aggregate signatures are real BLS aggregates.  Every case is written
// (inputs projected to identifiers + oracle tables + observed verdict) to
// Cases.v for the in-Coq comparison with coq/C01/Model.v, and the property
// oracle (an independent executable statement of C01) is evaluated on the
// implementation's own verdicts.
package main

import (
	"bytes"
	"crypto/ecdsa"
	"crypto/sha256"
	"encoding/hex"
	"encoding/json"
	"flag"
	"fmt"
	"io/ioutil"
	"math/big"
	"os"
	"path/filepath"
	"runtime/debug"
	"sort"
	"strings"
	"time"

	"github.com/youchainhq/go-youchain/bls"
	"github.com/youchainhq/go-youchain/common"
	"github.com/youchainhq/go-youchain/consensus/ucon"
	"github.com/youchainhq/go-youchain/core"
	"github.com/youchainhq/go-youchain/core/state"
	"github.com/youchainhq/go-youchain/core/types"
	"github.com/youchainhq/go-youchain/crypto"
	"github.com/youchainhq/go-youchain/crypto/vrf"
	secp256k1VRF "github.com/youchainhq/go-youchain/crypto/vrf/secp256k1"
	"github.com/youchainhq/go-youchain/logging"
	"github.com/youchainhq/go-youchain/params"
	"github.com/youchainhq/go-youchain/rlp"
	"verif/harness/vf"
)

// ---- keys -------------------------------------------------------------------

type keyPair struct {
	sk     *ecdsa.PrivateKey
	vrfSk  vrf.PrivateKey
	pub    []byte // compressed main public key
	addr   common.Address
	blsSk  bls.SecretKey
	blsPk  bls.PublicKey
	blsPub []byte
}

const nKeys = 24

var (
	keys   []*keyPair
	blsMgr = bls.NewBlsManager()
)

func initKeys() { ensureKeys(nKeys) }

var keyCtr = 0

// ensureKeys grows the deterministic key pool to n keys (large look-back sets need thousands of
// validators with distinct, decodable main and BLS public keys)
func ensureKeys(n int) {
	for ; len(keys) < n; keyCtr++ {
		i := keyCtr
		d := crypto.Keccak256([]byte(fmt.Sprintf("verif-c01-main-%d", i)))
		sk, err := crypto.ToECDSA(d)
		if err != nil {
			continue
		}
		vsk, err := secp256k1VRF.NewVRFSigner(sk)
		if err != nil {
			continue
		}
		if len(keys) >= nKeys {
			// filler validators never sign: their BLS public key is the previous one plus a fixed key
			// (a point addition instead of a scalar multiplication), distinct and decodable
			prev := keys[len(keys)-1].blsPk
			bpk, err := blsMgr.AggregatePublic([]bls.PublicKey{prev, keys[0].blsPk})
			if err != nil {
				panic(err)
			}
			cp := bpk.Compress()
			keys = append(keys, &keyPair{sk: sk, vrfSk: vsk, pub: crypto.CompressPubkey(&sk.PublicKey),
				addr: crypto.PubkeyToAddress(sk.PublicKey), blsPk: bpk, blsPub: cp[:]})
			continue
		}
		b := crypto.Keccak256([]byte(fmt.Sprintf("verif-c01-bls-%d", i)))
		b[0] &= 0x3f
		bsk, err := blsMgr.DecSecretKey(b)
		if err != nil {
			continue
		}
		bpk, err := bsk.PubKey()
		if err != nil {
			continue
		}
		cp := bpk.Compress()
		kp := &keyPair{sk: sk, vrfSk: vsk, pub: crypto.CompressPubkey(&sk.PublicKey),
			addr: crypto.PubkeyToAddress(sk.PublicKey), blsSk: bsk, blsPk: bpk, blsPub: cp[:]}
		keys = append(keys, kp)
	}
}

// ---- case description (JSON; also the replay format) ------------------------

type ValS struct {
	Key     int    `json:"key"`
	Bls     int    `json:"bls"`
	MainBad bool   `json:"main_bad,omitempty"`
	BlsBad  bool   `json:"bls_bad,omitempty"`
	BadForm int    `json:"bad_form,omitempty"` // shape of the undecodable key bytes (see malformedMain / malformedBls)
	Role    uint8  `json:"role"`
	Status  uint8  `json:"status"`
	Stake   uint64 `json:"stake"`
}
type LBS struct {
	Vals      []ValS `json:"vals"`
	Phantom   uint64 `json:"phantom,omitempty"`    // extra online chamber stake present only in the statistic
	ZeroTotal bool   `json:"zero_total,omitempty"` // statistic left empty
}
type ProofS struct {
	Kind  int    `json:"kind"`          // 0 honest VRF proof, 1 truncated, 2 random bytes of the right length, 3 empty, 4-11 scalar out of range, 12-19 built by the key's OWNER over a non-canonical encoding (see forgedVariant)
	Tag   int    `json:"tag,omitempty"` // 12: the leading byte of the point encoding; 13-19: the variant's argument
	Key   int    `json:"key"`
	Seed  int    `json:"seed"`
	Role  uint32 `json:"role"`
	Index uint32 `json:"index"`
}
type VoteS struct {
	Idx   uint32 `json:"idx"`
	Votes uint32 `json:"votes"`
	Proof ProofS `json:"proof"`
}
type PartS struct {
	Key       int    `json:"key"`
	OtherHash bool   `json:"other_hash,omitempty"`
	Round     uint64 `json:"round"`
	Index     uint32 `json:"index"`
}
type AggS struct {
	Kind  int     `json:"kind"` // 0 aggregate of Parts (empty = point at infinity), 1 wrong length, 2 48 bytes that do not decode, 3 empty byte string
	Parts []PartS `json:"parts"`
}
type UVS struct {
	Bad        bool    `json:"bad,omitempty"` // field does not decode
	RoundIndex uint32  `json:"round_index"`
	Votes      []VoteS `json:"votes"`
	Agg        AggS    `json:"agg"`
}
type ConsS struct {
	Nil        bool   `json:"nil,omitempty"`
	Round      uint64 `json:"round"`
	RoundIndex uint32 `json:"round_index"`
	Proof      ProofS `json:"proof"`
	PrioBad    bool   `json:"prio_bad,omitempty"` // priority is an unrelated hash
	PrioJ      int64  `json:"prio_j"`             // else computePriority(hash of Proof, PrioJ)
	SubUsers   uint32 `json:"sub_users"`
	Signer     int    `json:"signer"` // key id; -1 signature of a wrong length; -2 signature by a key outside every set
	PT         uint64 `json:"pt"`
	VT         uint64 `json:"vt"`
	CVT        uint64 `json:"cvt"`
}
type SealS struct { // header.Signature
	Kind int `json:"kind"` // 0 signature of Key over this header's hash, 1 missing, 2 wrong length, 3 signature of Key over another header's hash, 4 65 bytes that are no signature
	Key  int `json:"key"`  // key id; -2 a key outside every set
}
type HdrS struct {
	Number    uint64 `json:"number"`
	Seal      *SealS `json:"seal,omitempty"` // nil: sealed by the key that signed the consensus data (the honest sealing path)
	Cons      ConsS  `json:"cons"`
	Val       UVS    `json:"val"`
	Cert      UVS    `json:"cert"`
	ParentBad int    `json:"parent_bad,omitempty"` // 0 ok, 1 no parents, 2 parent number off, 3 parent hash off
}
type LBH struct { // a look-back header (seed / certificate seed)
	ConsNil bool   `json:"cons_nil,omitempty"`
	Seed    int    `json:"seed"`
	CVT     uint64 `json:"cvt"`
	Version uint64 `json:"version"`
}
type CPS struct {
	PT  uint64 `json:"pt"`
	VT  uint64 `json:"vt"`
	CVT uint64 `json:"cvt"`
}
type VerS struct {
	V  uint64 `json:"v"`
	CP CPS    `json:"cp"`
}
type Case struct {
	Comment string `json:"comment,omitempty"`
	Variant string `json:"variant,omitempty"` // "" / "asis" or "fixed": which model variant the case is compared with
	CP      CPS    `json:"cp"`
	Vers    []VerS `json:"vers"`
	SeedH   LBH    `json:"seed_h"`
	LB      LBS    `json:"lb"`
	CertH   LBH    `json:"cert_h"`
	CertLB  LBS    `json:"cert_lb"`
	H       HdrS   `json:"h"`
	Verdict int    `json:"verdict"`
	Err     string `json:"err,omitempty"`
	Before  []Case `json:"before,omitempty"` // headers the same Server verified earlier (replay runs them first)

	ext *hdrExt // set by the header-path cases: frame fields of the header under verification
}

type hdrExt struct {
	parentHash common.Hash
	time       uint64
	mixBad     bool
	cht        bool
}

// ---- world construction -----------------------------------------------------

func seedHash(id int) common.Hash {
	return crypto.Keccak256Hash([]byte(fmt.Sprintf("verif-c01-seed-%d", id)))
}

type proofKey struct {
	key, seed   int
	role, index uint32
}
type proofVal struct {
	hash  common.Hash
	proof []byte
}

var proofCache = map[proofKey]proofVal{}

func honestProof(p ProofS) proofVal {
	k := proofKey{p.Key, p.Seed, p.Role, p.Index}
	if v, ok := proofCache[k]; ok {
		return v
	}
	h, pr := keys[p.Key].vrfSk.Evaluate(ucon.MakeM(seedHash(p.Seed), p.Role, p.Index))
	v := proofVal{common.Hash(h), pr}
	proofCache[k] = v
	return v
}

func proofBytes(p ProofS) []byte {
	switch p.Kind {
	case 0:
		return honestProof(p).proof
	case 1:
		b := honestProof(p).proof
		return b[:len(b)-1]
	case 2:
		return junkProof(p)
	case 3:
		return []byte{}
	}
	if v := forgedVariant(p.Kind); v != "" {
		return forgeProof(keys[p.Key].sk, ucon.MakeM(seedHash(p.Seed), p.Role, p.Index), v, int64(p.Tag))
	}
	// 4..11: a genuine proof (valid VRF point) whose scalar s (bytes 0..31) or t (bytes 32..63)
	// is out of range: 0, the group order n, n+1, 2^256-1
	b := append([]byte{}, honestProof(p).proof...)
	order := crypto.S256().Params().N
	var val []byte
	switch (p.Kind - 4) % 4 {
	case 0:
		val = make([]byte, 32)
	case 1:
		val = order.Bytes()
	case 2:
		val = new(big.Int).Add(order, big.NewInt(1)).Bytes()
	default:
		val = bytes.Repeat([]byte{0xff}, 32)
	}
	off := 0
	if p.Kind >= 8 {
		off = 32
	}
	copy(b[off:off+32], val)
	return b
}

// forgedVariant: proofs the owner of the key builds (s, t computed over whatever encoding is
// put into the proof).  12 genuine point under another leading byte, 13 another point, 14 the
// negated point, 15 a coordinate written as x+p, 16 t+n, 17 a trailing byte, 18 a leading zero
// byte, 19 another nonce (a VALID proof: same output as the honest one)
func forgedVariant(kind int) string {
	switch kind {
	case 12:
		return "forge_tagbyte"
	case 13:
		return "forge_point"
	case 14:
		return "forge_negy"
	case 15:
		return "forge_xgep"
	case 16:
		return "forge_tplusn"
	case 17:
		return "forge_trailing"
	case 18:
		return "forge_leadzero"
	case 19:
		return "forge_nonce"
	}
	return ""
}

// malformedKind: a proof form out of all non-genuine ones (1..19)
func malformedKind(r *vf.Rng) int { return 1 + r.Intn(19) }

func msgOf(seed int, role, index uint32) []byte { return ucon.MakeM(seedHash(seed), role, index) }

// refHash: the independent reference verifier's answer for these proof bytes under key k
type refKey struct {
	key   int
	msg   string
	proof string
}

var refCache = map[refKey]*common.Hash{}

func refHash(key int, seed int, role, index uint32, pb []byte) (common.Hash, bool) {
	if key < 0 || key >= len(keys) {
		return common.Hash{}, false
	}
	m := msgOf(seed, role, index)
	ck := refKey{key, string(m), string(pb)}
	if v, ok := refCache[ck]; ok {
		if v == nil {
			return common.Hash{}, false
		}
		return *v, true
	}
	out, err := refP2H(&keys[key].sk.PublicKey, m, pb)
	if err != nil {
		refCache[ck] = nil
		return common.Hash{}, false
	}
	h := common.Hash(out)
	refCache[ck] = &h
	return h, true
}

// libHash: the library's ProofToHash on the same input (panic = error)
func libHash(key int, seed int, role, index uint32, pb []byte) (h common.Hash, ok bool) {
	defer func() {
		if r := recover(); r != nil {
			ok = false
		}
	}()
	pk, err := secp256k1VRF.NewVRFVerifier(&keys[key].sk.PublicKey)
	if err != nil {
		return h, false
	}
	out, err := pk.ProofToHash(msgOf(seed, role, index), pb)
	if err != nil {
		return h, false
	}
	return common.Hash(out), true
}

// lenientHash: what a verifier that does not insist on the canonical encoding would output
func lenientHash(pb []byte) common.Hash {
	if len(pb) != 129 {
		return common.Hash{}
	}
	return common.Hash(sha256.Sum256(pb[64:129]))
}

const whatHistory = "C01-verdict-depends-on-process-history"

const whatVrfDiffers = "C01-library-VRF-verifier-differs-from-the-reference"

// credentialDiffers: library vs reference on one credential, for the key and message it was made for
func credentialDiffers(p ProofS) bool {
	if p.Kind != 0 && forgedVariant(p.Kind) == "" {
		return false
	}
	pb := proofBytes(p)
	rh, rok := refHash(p.Key, p.Seed, p.Role, p.Index, pb)
	lh, lok := libHash(p.Key, p.Seed, p.Role, p.Index, pb)
	return rok != lok || (rok && rh != lh)
}

func anyCredentialDiffers(c *Case) bool {
	if !c.H.Cons.Nil && credentialDiffers(c.H.Cons.Proof) {
		return true
	}
	for _, v := range c.H.Val.Votes {
		if credentialDiffers(v.Proof) {
			return true
		}
	}
	for _, v := range c.H.Cert.Votes {
		if credentialDiffers(v.Proof) {
			return true
		}
	}
	return false
}

// proofCrashes asks the VRF library itself whether ProofToHash panics on these bytes
var crashCache = map[string]bool{}

func proofCrashes(pb []byte) (crashed bool) {
	if v, ok := crashCache[string(pb)]; ok {
		return v
	}
	defer func() {
		if r := recover(); r != nil {
			crashed = true
		}
		crashCache[string(pb)] = crashed
	}()
	pk, err := secp256k1VRF.NewVRFVerifier(&keys[0].sk.PublicKey)
	if err != nil {
		panic(err)
	}
	pk.ProofToHash(ucon.MakeM(seedHash(1), 1, 1), pb)
	return false
}

func junkProof(p ProofS) []byte {
	// right length (129), bytes that are not a proof
	a := crypto.Keccak512([]byte(fmt.Sprintf("junkA-%d-%d-%d-%d", p.Key, p.Seed, p.Role, p.Index)))
	b := crypto.Keccak512([]byte(fmt.Sprintf("junkB-%d-%d-%d-%d", p.Key, p.Seed, p.Role, p.Index)))
	out := append(append([]byte{}, a...), b...)
	out = append(out, 0x04)
	out[64] = 0x04
	return out[:129]
}

type vldStub struct {
	vals   *state.Validators
	stat   *state.ValidatorsStat
	byAddr map[common.Address]*state.Validator
}

func (s *vldStub) GetValidatorsStat() (*state.ValidatorsStat, error) { return s.stat, nil }
func (s *vldStub) GetValidatorByMainAddr(a common.Address) *state.Validator {
	return s.byAddr[a]
}
func (s *vldStub) GetValidators() *state.Validators { return s.vals }

func badBytes(tag string, i, n int) []byte {
	b := crypto.Keccak512([]byte(fmt.Sprintf("%s-%d", tag, i)))
	for len(b) < n {
		b = append(b, b...)
	}
	return b[:n]
}

// malformedMain / malformedBls: key bytes a registration could have stored that do not decode.
// Every form is checked against the decoder itself; a form that happens to decode falls back
// to the plain wrong-length form.
func malformedMain(form, salt int) []byte {
	var b []byte
	switch form % 5 {
	case 1:
		b = []byte{}
	case 2: // right length, invalid prefix
		b = append([]byte{0x05}, badBytes("badmain33", salt, 32)...)
	case 3: // uncompressed form, not on the curve
		b = append([]byte{0x04}, badBytes("badmain65", salt, 64)...)
	case 4: // compressed form, x >= p
		b = append([]byte{0x02}, bytes.Repeat([]byte{0xff}, 32)...)
	default:
		b = badBytes("badmain", salt, 20)
	}
	ok := false
	switch len(b) {
	case 33:
		_, err := crypto.DecompressPubkey(b)
		ok = err == nil
	case 65:
		_, err := crypto.UnmarshalPubkey(b)
		ok = err == nil
	}
	if ok {
		return badBytes("badmain", salt, 20)
	}
	return b
}

func malformedBls(form, salt int) []byte {
	var b []byte
	switch form % 4 {
	case 1:
		b = []byte{}
	case 2:
		b = bytes.Repeat([]byte{0xff}, 96)
	case 3:
		b = make([]byte, 96)
	default:
		b = badBytes("badbls", salt, 95)
	}
	if len(b) == 96 {
		if _, err := blsMgr.DecPublicKey(b); err == nil {
			return badBytes("badbls", salt, 95)
		}
	}
	return b
}

// buildLB builds the reader and rewrites lb.Vals into the order of
// state.Validators (stake-descending), which is the order voter indexes use.
func buildLB(lb *LBS) (*vldStub, uint64) {
	for _, s := range lb.Vals {
		if s.Key >= len(keys) || s.Bls >= len(keys) {
			m := s.Key
			if s.Bls > m {
				m = s.Bls
			}
			ensureKeys(m + 1)
		}
	}
	type pair struct {
		v *state.Validator
		s ValS
	}
	var list []*state.Validator
	back := map[*state.Validator]ValS{}
	for i, s := range lb.Vals {
		mainPub := keys[s.Key].pub
		if s.MainBad {
			mainPub = malformedMain(s.BadForm, s.Key*100+i)
		}
		blsPub := keys[s.Bls].blsPub
		if s.BlsBad {
			blsPub = malformedBls(s.BadForm, s.Bls*100+i)
		}
		st := new(big.Int).SetUint64(s.Stake)
		v := state.NewValidator(fmt.Sprintf("v%d", i), common.Address{}, common.Address{}, params.ValidatorRole(s.Role),
			mainPub, blsPub, st, st, 0, 0, 0, s.Status)
		list = append(list, v)
		back[v] = s
	}
	vals := state.NewValidators(list)
	stub := &vldStub{vals: vals, stat: state.NewValidatorsStat(), byAddr: map[common.Address]*state.Validator{}}
	sorted := make([]ValS, 0, len(lb.Vals))
	for _, v := range vals.List() {
		s := back[v]
		sorted = append(sorted, s)
		if !s.MainBad {
			if _, dup := stub.byAddr[v.MainAddress()]; !dup {
				stub.byAddr[v.MainAddress()] = v
			}
		}
		if !lb.ZeroTotal {
			stub.stat.Kinds[params.KindValidator].AddVal(v)
			if k, ok := params.KindOfRole(v.Role); ok {
				stub.stat.Kinds[k].AddVal(v)
			}
		}
	}
	lb.Vals = sorted
	if lb.Phantom > 0 && !lb.ZeroTotal {
		st := new(big.Int).SetUint64(lb.Phantom)
		ph := state.NewValidator("phantom", common.Address{}, common.Address{}, params.RoleSenator, nil, nil, st, st, 0, 0, 0, params.ValidatorOnline)
		stub.stat.Kinds[params.KindChamber].AddVal(ph)
	}
	return stub, stub.stat.GetStakeByKind(params.KindChamber).Uint64()
}

func payloadBytes(hash common.Hash, round uint64, index uint32) []byte {
	ib := []byte{byte(index >> 24), byte(index >> 16), byte(index >> 8), byte(index)}
	return append(hash.Bytes(), append(new(big.Int).SetUint64(round).Bytes(), ib...)...)
}

var otherHash = crypto.Keccak256Hash([]byte("verif-c01-some-other-block"))

func buildAgg(a AggS, hash common.Hash) []byte {
	switch a.Kind {
	case 1:
		return badBytes("aggshort", len(a.Parts), 47)
	case 2:
		b := make([]byte, 48)
		for i := range b {
			b[i] = 0xff
		}
		return b
	case 3:
		return []byte{}
	}
	var sigs []bls.Signature
	for _, p := range a.Parts {
		h := hash
		if p.OtherHash {
			h = otherHash
		}
		sigs = append(sigs, keys[p.Key].blsSk.Sign(payloadBytes(h, p.Round, p.Index)))
	}
	if len(sigs) == 0 {
		// the neutral element: compressed point at infinity
		b := make([]byte, 48)
		b[0] = 0xc0
		return b
	}
	s, err := blsMgr.Aggregate(sigs)
	if err != nil {
		panic(err)
	}
	c := s.Compress()
	return c[:]
}

func buildVotes(vs []VoteS) []ucon.SingleVote {
	out := make([]ucon.SingleVote, 0, len(vs))
	for _, v := range vs {
		out = append(out, ucon.SingleVote{VoterIdx: v.Idx, Votes: v.Votes, Proof: proofBytes(v.Proof)})
	}
	return out
}

var outsiderKey *ecdsa.PrivateKey

func lbHeader(h LBH, number uint64) *types.Header {
	hd := &types.Header{Number: new(big.Int).SetUint64(number), CurrVersion: params.YouVersion(h.Version), MixDigest: types.UConMixHash,
		Subsidy: new(big.Int), GasRewards: new(big.Int)}
	if h.ConsNil {
		return hd
	}
	cd := &ucon.BlockConsensusData{Round: new(big.Int).SetUint64(number), RoundIndex: 1, Seed: seedHash(h.Seed), CertValThreshold: h.CVT,
		SortitionProof: []byte{}, Signature: []byte{}}
	b, err := rlp.EncodeToBytes(cd)
	if err != nil {
		panic(err)
	}
	hd.Consensus = b
	return hd
}

type built struct {
	lb, certlb       *vldStub
	total, certTotal uint64
	seedH, certH     *types.Header
	header, parent   *types.Header
	hash             common.Hash
	prio             common.Hash
	signerKey        *ecdsa.PublicKey // what GetPublicKey() returns (nil = error)
	sealKey          *ecdsa.PublicKey // what crypto.SigToPub(header hash, header.Signature) returns (nil = error)
}

func skOf(id int) *ecdsa.PrivateKey {
	if id < 0 || id >= len(keys) {
		return outsiderKey
	}
	return keys[id].sk
}

func installVersions(c *Case) {
	m := make(params.VersionsMap)
	for _, v := range c.Vers {
		yp := params.YouParams{Version: params.YouVersion(v.V)}
		yp.ProposerThreshold, yp.ValidatorThreshold, yp.CertValThreshold = v.CP.PT, v.CP.VT, v.CP.CVT
		yp.EnableBls = true
		yp.StakeLookBack, yp.SeedLookBack = 16, 8
		m[yp.Version] = yp
	}
	params.Versions = m
}

func build(c *Case) *built {
	b := &built{}
	b.lb, b.total = buildLB(&c.LB)
	b.certlb, b.certTotal = buildLB(&c.CertLB)
	num := c.H.Number
	seedNum, certNum := uint64(0), uint64(0)
	if num > 8 {
		seedNum = num - 8
	}
	if num > params.ACoCHTFrequency {
		certNum = num - params.ACoCHTFrequency
	}
	b.seedH = lbHeader(c.SeedH, seedNum)
	b.certH = lbHeader(c.CertH, certNum)
	b.parent = &types.Header{Number: new(big.Int).SetUint64(num - 1), MixDigest: types.UConMixHash, Subsidy: new(big.Int), GasRewards: new(big.Int), Time: 1}
	if c.H.ParentBad == 2 {
		b.parent.Number = new(big.Int).SetUint64(num + 1)
	}
	h := &types.Header{Number: new(big.Int).SetUint64(num), ParentHash: b.parent.Hash(), MixDigest: types.UConMixHash,
		Subsidy: new(big.Int), GasRewards: new(big.Int), Time: 2, CurrVersion: 1}
	if c.H.ParentBad == 3 {
		h.ParentHash = otherHash
	}
	if c.ext != nil {
		h.ParentHash, h.Time = c.ext.parentHash, c.ext.time
		if c.ext.cht {
			h.ChtRoot, h.BltRoot = []byte{1, 2, 3}, []byte{4}
		}
	}
	if !c.H.Cons.Nil {
		cs := c.H.Cons
		cd := &ucon.BlockConsensusData{Round: new(big.Int).SetUint64(cs.Round), RoundIndex: cs.RoundIndex, Seed: seedHash(1000 + int(cs.Round%7)),
			SubUsers: cs.SubUsers, ProposerThreshold: cs.PT, ValidatorThreshold: cs.VT, CertValThreshold: cs.CVT}
		cd.SortitionProof = proofBytes(cs.Proof)
		switch {
		case cs.PrioBad || (cs.Proof.Kind != 0 && forgedVariant(cs.Proof.Kind) == "") || cs.PrioJ < 0 || cs.PrioJ > 200000:
			cd.Priority = crypto.Keccak256Hash([]byte(fmt.Sprintf("junk-priority-%d", cs.PrioJ)))
		case cs.Proof.Kind == 0:
			cd.Priority = ucon.VerifC01ComputePriority(honestProof(cs.Proof).hash, cs.PrioJ)
		default: // owner-forged: the priority of the output a lenient verifier would derive
			cd.Priority = ucon.VerifC01ComputePriority(lenientHash(proofBytes(cs.Proof)), cs.PrioJ)
		}
		b.prio = cd.Priority
		switch {
		case cs.Signer == -1:
			cd.Signature = badBytes("badsig", int(cs.Round), 64)
		case cs.Signer == -2:
			if err := cd.SetSignature(outsiderKey); err != nil {
				panic(err)
			}
		default:
			if err := cd.SetSignature(keys[cs.Signer].sk); err != nil {
				panic(err)
			}
		}
		if pk, err := cd.GetPublicKey(); err == nil {
			b.signerKey = pk
		}
		enc, err := rlp.EncodeToBytes(cd)
		if err != nil {
			panic(err)
		}
		h.Consensus = enc
	}
	b.hash = h.Hash()
	enc := func(u UVS, cert bool) []byte {
		if u.Bad {
			return []byte{0xc1, 0xff, 0xff}
		}
		uv := &ucon.UconValidators{RoundIndex: u.RoundIndex}
		if cert {
			uv.ChamberCerts = buildVotes(u.Votes)
			uv.CCAggrSig = buildAgg(u.Agg, b.hash)
			uv.SCAggrSig, uv.MCAggrSig = []byte{}, []byte{}
		} else {
			uv.ChamberCommitters = buildVotes(u.Votes)
			uv.SCAggrSig = buildAgg(u.Agg, b.hash)
			uv.MCAggrSig, uv.CCAggrSig = []byte{}, []byte{}
		}
		out, err := uv.ValidatorsToByte()
		if err != nil {
			panic(err)
		}
		return out
	}
	// seal: what ucon's Seal does is crypto.Sign(header.Hash().Bytes(), rawSk) with the proposer's key
	seal := SealS{Kind: 0, Key: c.H.Cons.Signer}
	if c.H.Seal != nil {
		seal = *c.H.Seal
	}
	switch seal.Kind {
	case 0:
		sig, err := crypto.Sign(b.hash.Bytes(), skOf(seal.Key))
		if err != nil {
			panic(err)
		}
		h.Signature = sig
	case 1:
		h.Signature = []byte{}
	case 2:
		h.Signature = badBytes("shortseal", seal.Key, 64)
	case 3:
		sig, err := crypto.Sign(otherHash.Bytes(), skOf(seal.Key))
		if err != nil {
			panic(err)
		}
		h.Signature = sig
	default:
		h.Signature = badBytes("junkseal", seal.Key, 65)
		h.Signature[64] = 7 // invalid recovery id
	}
	if pk, err := crypto.SigToPub(b.hash.Bytes(), h.Signature); err == nil && pk != nil {
		b.sealKey = pk
	}
	h.Validator = enc(c.H.Val, false)
	h.Certificate = enc(c.H.Cert, true)
	if h.Hash() != b.hash {
		panic("header hash depends on the vote containers")
	}
	if c.ext != nil && c.ext.mixBad {
		h.MixDigest = common.Hash{}
	}
	b.header = h
	return b
}

// ---- running the implementation ----------------------------------------------

var server *ucon.Server

func classify(err error) (int, string) {
	if err == nil {
		return 0, ""
	}
	m := err.Error()
	switch {
	case m == "can not get look back consensus":
		return 1, m
	case m == "invalid consensus data":
		return 2, m
	case m == "illegal proposer":
		return 3, m
	case strings.HasPrefix(m, "invalid aggregated signatue"):
		return 4, m
	case strings.HasPrefix(m, "verifyBlsVotes can't recover signer info"):
		return 5, m
	case err == bls.ErrSigMismatch:
		return 6, m
	case strings.HasPrefix(m, "YOUChain version of"):
		return 7, m
	case m == "no parents":
		return 8, m
	case m == "unknown block":
		return 9, m
	case m == "unknown ancestor":
		return 10, m
	case m == "invalid consensus data format":
		return 13, m
	case m == "invalid sealer":
		return 14, m
	}
	return 12, m
}

func observe(c *Case) (b *built) {
	installVersions(c)
	b = build(c)
	defer func() {
		if r := recover(); r != nil {
			c.Verdict = 11
			c.Err = fmt.Sprintf("panic: %v\n%s", r, debug.Stack())
		}
	}()
	cp := &params.CaravelParams{ProposerThreshold: c.CP.PT, ValidatorThreshold: c.CP.VT, CertValThreshold: c.CP.CVT, EnableBls: true, StakeLookBack: 16, SeedLookBack: 8}
	var parents []*types.Block
	if c.H.ParentBad != 1 {
		parents = []*types.Block{types.NewBlockWithHeader(b.parent)}
	}
	var certH *types.Header
	var certVld state.ValidatorReader
	if c.H.Number > 0 && c.H.Number%params.ACoCHTFrequency == 0 {
		certH, certVld = b.certH, b.certlb
	}
	err := server.VerifySideChainHeader(cp, b.seedH, b.lb, certH, certVld, types.NewBlockWithHeader(b.header), parents)
	c.Verdict, c.Err = classify(err)
	return b
}

// ---- tables for the model ----------------------------------------------------

type idmap struct {
	m map[string]int
	n int
}

func newIDs(start int) *idmap { return &idmap{m: map[string]int{}, n: start} }
func (d *idmap) id(b []byte) int {
	k := string(b)
	if v, ok := d.m[k]; ok {
		return v
	}
	d.m[k] = d.n
	d.n++
	return d.m[k]
}

func quorumOf(t uint64, pos bool) uint64 {
	// smallest count accepted by the real OverThreshold (monotone in count)
	if ucon.OverThreshold(0, t, pos) {
		return 0
	}
	lo, hi := uint64(0), uint64(1)<<32-1 // OverThreshold(lo)=false
	if !ucon.OverThreshold(uint32(hi), t, pos) {
		return 1 << 32 // never reached by a uint32 count
	}
	for hi-lo > 1 {
		mid := (lo + hi) / 2
		if ucon.OverThreshold(uint32(mid), t, pos) {
			hi = mid
		} else {
			lo = mid
		}
	}
	return hi
}

func seatsOf(hash common.Hash, stake, thr, total uint64) (j int64, panicked bool) {
	defer func() {
		if r := recover(); r != nil {
			j, panicked = 0, true
		}
	}()
	if total == 0 {
		return 0, false
	}
	return ucon.VerifC01Choose(hash, new(big.Int).SetUint64(stake), thr, new(big.Int).SetUint64(total)), false
}

func uniq(xs []uint64) []uint64 {
	sort.Slice(xs, func(i, j int) bool { return xs[i] < xs[j] })
	var out []uint64
	for i, x := range xs {
		if i == 0 || x != xs[i-1] {
			out = append(out, x)
		}
	}
	return out
}

func verCVT(c *Case, v uint64) (uint64, bool) {
	for _, x := range c.Vers {
		if x.V == v {
			return x.CP.CVT, true
		}
	}
	return 0, false
}

func optKey(bad bool, k int) string {
	if bad {
		return "None"
	}
	return fmt.Sprintf("(Some %d)", k)
}

func lbCoq(lb LBS, total uint64) string {
	var xs []string
	for _, v := range lb.Vals {
		xs = append(xs, fmt.Sprintf("mkVal %s %s %d %d %d", optKey(v.MainBad, v.Key), optKey(v.BlsBad, v.Bls), v.Role, v.Status, v.Stake))
	}
	return fmt.Sprintf("(mkLB %s %d)", vf.List(xs), total)
}

const (
	stepProposal    = 1
	stepPrecommit   = 3
	stepCertificate = 5
)

// caseCoq prints one case.  Proof, hash, priority and signature identifiers
// are local to the case.
// coqExt: what a header-path case adds to the projection of a case
type coqExt struct {
	thrs      []uint64 // more thresholds to tabulate
	lbs       []LBS    // more validator sets (stakes and totals to tabulate)
	parentID  int      // identifier of header.ParentHash
	tables    string   // out: the oracle tables
	hdr       string   // out: the header under verification
	signerSet bool
}

func caseCoq(c *Case, b *built) string { return caseCoqExt(c, b, nil) }

func caseCoqExt(c *Case, b *built, ext *coqExt) string {
	proofIDs, hashIDs, prioIDs := newIDs(1), newIDs(1), newIDs(1)
	type pu struct {
		p    ProofS
		id   int
		hash common.Hash // the reference verifier's output for the key and message the proof was made for
	}
	var honest []pu
	seen := map[int]bool{}
	var crashTbl []string
	crashSeen := map[int]bool{}
	pid := func(p ProofS) int {
		pb := proofBytes(p)
		id := proofIDs.id(pb)
		if p.Kind != 0 && !crashSeen[id] {
			crashSeen[id] = true
			if proofCrashes(pb) {
				crashTbl = append(crashTbl, fmt.Sprintf("%d", id))
			}
		}
		if (p.Kind == 0 || forgedVariant(p.Kind) != "") && !seen[id] {
			seen[id] = true
			// the model's VRF table is filled from the independent reference verifier
			if rh, ok := refHash(p.Key, p.Seed, p.Role, p.Index, pb); ok {
				honest = append(honest, pu{p, id, rh})
			} else if p.Kind == 0 {
				panic("the reference verifier rejects a proof made by Evaluate")
			}
		}
		return id
	}
	votesCoq := func(vs []VoteS) string {
		var xs []string
		for _, v := range vs {
			xs = append(xs, fmt.Sprintf("mkVote %d %d %d", v.Idx, v.Votes, pid(v.Proof)))
		}
		return vf.List(xs)
	}
	// signatures: id 1 = header.Validator aggregate, 2 = header.Certificate aggregate
	var sigTbl []string
	aggCoq := func(a AggS, id int) string {
		if a.Kind != 0 {
			return "None"
		}
		var xs []string
		for _, p := range a.Parts {
			h := 0
			if p.OtherHash {
				h = 1
			}
			xs = append(xs, fmt.Sprintf("(%d, (%d, %d, %d))", p.Key, h, p.Round, p.Index))
		}
		sigTbl = append(sigTbl, fmt.Sprintf("(%d, %s)", id, vf.List(xs)))
		return fmt.Sprintf("(Some %d)", id)
	}
	uvCoq := func(u UVS, cert bool) string {
		if u.Bad {
			return "None"
		}
		if cert {
			return fmt.Sprintf("(Some (mkUV %d [] None %s %s))", u.RoundIndex, votesCoq(u.Votes), aggCoq(u.Agg, 2))
		}
		return fmt.Sprintf("(Some (mkUV %d %s %s [] None))", u.RoundIndex, votesCoq(u.Votes), aggCoq(u.Agg, 1))
	}
	// the outsider key gets id 1000, keys recovered from mismatching signatures 1001, 1002, ...
	unknown := map[common.Address]int{}
	keyID := func(pk *ecdsa.PublicKey) int {
		a := crypto.PubkeyToAddress(*pk)
		for i, k := range keys {
			if k.addr == a {
				return i
			}
		}
		if a == crypto.PubkeyToAddress(outsiderKey.PublicKey) {
			return 1000
		}
		if _, ok := unknown[a]; !ok {
			unknown[a] = 1001 + len(unknown)
		}
		return unknown[a]
	}
	signer := "None"
	if b.signerKey != nil {
		signer = fmt.Sprintf("(Some %d)", keyID(b.signerKey))
	}
	var recTbl []string
	if b.sealKey != nil {
		recTbl = append(recTbl, fmt.Sprintf("((0, 1), %d)", keyID(b.sealKey)))
	}
	cons := "None"
	if !c.H.Cons.Nil {
		cs := c.H.Cons
		cons = fmt.Sprintf("(Some (mkCD %d %d %d %d %d %d %s %d %d %d))", cs.Round, cs.RoundIndex, 1000+int(cs.Round%7), pid(cs.Proof),
			prioIDs.id(b.prio.Bytes()), cs.SubUsers, signer, cs.PT, cs.VT, cs.CVT)
	}
	parentHashID := 2
	hdrParent := 2
	if c.H.ParentBad == 3 {
		hdrParent = 1
	}
	if ext != nil {
		hdrParent = ext.parentID
	}
	hdr := fmt.Sprintf("(mkH %d 0 %d 1 %s %s %s 1)", c.H.Number, hdrParent, cons, uvCoq(c.H.Val, false), uvCoq(c.H.Cert, true))
	parent := "None"
	if c.H.ParentBad != 1 {
		pn := c.H.Number - 1
		if c.H.ParentBad == 2 {
			pn = c.H.Number + 1
		}
		parent = fmt.Sprintf("(Some (mkH %d %d 3 1 None None None 0))", pn, parentHashID)
	}
	lbh := func(h LBH) string {
		if h.ConsNil {
			return fmt.Sprintf("(mkH 0 5 5 %d None None None 0)", h.Version)
		}
		return fmt.Sprintf("(mkH 0 5 5 %d (Some (mkCD 0 1 %d 0 0 0 None 0 0 %d)) None None 0)", h.Version, h.Seed, h.CVT)
	}
	// ---- tables
	thrs := []uint64{c.CP.PT, c.CP.VT, c.CP.CVT, c.H.Cons.PT, c.H.Cons.VT, c.H.Cons.CVT, c.CertH.CVT}
	for _, v := range c.Vers {
		thrs = append(thrs, v.CP.CVT)
	}
	tot := []uint64{b.total, b.certTotal}
	if ext != nil {
		thrs = append(thrs, ext.thrs...)
		for _, l := range ext.lbs {
			tot = append(tot, chamberTotal(l))
		}
	}
	thrs = uniq(thrs)
	totals := uniq(tot)
	var vrfTbl, seatTbl, prioTbl, qTbl []string
	for _, h := range honest {
		pv := proofVal{hash: h.hash}
		hid := hashIDs.id(pv.hash.Bytes())
		vrfTbl = append(vrfTbl, fmt.Sprintf("((%d, %d, %d, %d, %d), %d)", h.p.Key, h.p.Seed, h.p.Role, h.p.Index, h.id, hid))
	}
	doneHash := map[int]bool{}
	for _, h := range honest {
		pv := proofVal{hash: h.hash}
		hid := hashIDs.id(pv.hash.Bytes())
		if doneHash[hid] {
			continue
		}
		doneHash[hid] = true
		var stakes []uint64
		for _, v := range c.LB.Vals {
			if !v.MainBad && v.Key == h.p.Key {
				stakes = append(stakes, v.Stake)
			}
		}
		for _, v := range c.CertLB.Vals {
			if !v.MainBad && v.Key == h.p.Key {
				stakes = append(stakes, v.Stake)
			}
		}
		if ext != nil {
			for _, l := range ext.lbs {
				for _, v := range l.Vals {
					if !v.MainBad && v.Key == h.p.Key {
						stakes = append(stakes, v.Stake)
					}
				}
			}
		}
		js := map[int64]bool{}
		for _, st := range uniq(stakes) {
			for _, t := range thrs {
				for _, tot := range totals {
					if tot == 0 {
						continue
					}
					j, pan := seatsOf(pv.hash, st, t, tot)
					if pan {
						seatTbl = append(seatTbl, fmt.Sprintf("((%d, %d, %d, %d), None)", hid, st, t, tot))
						continue
					}
					seatTbl = append(seatTbl, fmt.Sprintf("((%d, %d, %d, %d), Some (%d)%%Z)", hid, st, t, tot, j))
					if h.p.Role == stepProposal {
						js[j] = true
					}
				}
			}
		}
		var jl []int64
		for j := range js {
			jl = append(jl, j)
		}
		sort.Slice(jl, func(a, b int) bool { return jl[a] < jl[b] })
		for _, j := range jl {
			if j < 0 || j > 200000 {
				continue
			}
			p := ucon.VerifC01ComputePriority(pv.hash, j)
			prioTbl = append(prioTbl, fmt.Sprintf("((%d, (%d)%%Z), %d)", hid, j, prioIDs.id(p.Bytes())))
		}
	}
	for _, t := range thrs {
		qTbl = append(qTbl, fmt.Sprintf("((%d, true), %d)", t, quorumOf(t, true)))
		qTbl = append(qTbl, fmt.Sprintf("((%d, false), %d)", t, quorumOf(t, false)))
	}
	tables := fmt.Sprintf("(mkT %s %s %s %s %s %s %s)", vf.List(vrfTbl), vf.List(seatTbl), vf.List(prioTbl), vf.List(qTbl), vf.List(sigTbl), vf.List(recTbl), vf.List(crashTbl))
	var vers []string
	for _, v := range c.Vers {
		vers = append(vers, fmt.Sprintf("(%d, mkCP %d %d %d true)", v.V, v.CP.PT, v.CP.VT, v.CP.CVT))
	}
	variant := "asis"
	if c.Variant == "fixed" {
		variant = "fixed"
	}
	if ext != nil {
		ext.tables, ext.hdr = tables, hdr
	}
	return fmt.Sprintf("mkCase %s\n %s\n (mkCP %d %d %d true) %s\n %s %s\n %s %s\n %s\n %s %d",
		variant, tables, c.CP.PT, c.CP.VT, c.CP.CVT, vf.List(vers),
		lbh(c.SeedH), lbCoq(c.LB, b.total), lbh(c.CertH), lbCoq(c.CertLB, b.certTotal), hdr, parent, c.Verdict)
}

// ---- property oracle ----------------------------------------------------------

// relax: which of the three listed weaknesses the evaluation tolerates
type relax struct{ hdrThr, nonMember, zeroSeat, seal bool }

func isMember(v ValS) bool { return (v.Role == 1 || v.Role == 2) && v.Status == 1 }

// goodWeight: the weight C01 allows to be counted for one vote list
func goodWeight(c *Case, lb LBS, total uint64, seed int, step uint32, index uint32, thr uint64, votes []VoteS, agg AggS, round uint64, rx relax) uint64 {
	signedBy := map[int]bool{}
	if agg.Kind == 0 {
		for _, p := range agg.Parts {
			if !p.OtherHash && p.Round == round && p.Index == index {
				signedBy[p.Key] = true
			}
		}
	}
	seenVal := map[int]bool{}
	sum := uint64(0)
	for _, v := range votes {
		if int(v.Idx) >= len(lb.Vals) {
			continue
		}
		val := lb.Vals[v.Idx]
		if val.MainBad || val.BlsBad || seenVal[val.Key] {
			continue
		}
		if !rx.nonMember && !isMember(val) {
			continue
		}
		// ground truth for "valid sortition proof": the independent reference verifier, under the
		// voter's own key, for exactly (seed, step, index)
		rh, ok := refHash(val.Key, seed, step, index, proofBytes(v.Proof))
		if !ok {
			continue
		}
		if !signedBy[val.Bls] {
			continue
		}
		j, pan := seatsOf(rh, val.Stake, thr, total)
		if pan || j <= 0 || uint32(j) != v.Votes {
			continue
		}
		seenVal[val.Key] = true
		sum += uint64(j)
	}
	return sum
}

// specQuorum is the oracle's own quorum: the protocol's fractions in the
// protocol's arithmetic, independent of the implementation's OverThreshold
func specQuorum(t uint64, pos bool) uint64 {
	if pos {
		return uint64(uint32(float64(t) * 0.685))
	}
	return uint64(uint32(float64(t) * 0.585))
}

// propertyHolds: the necessary conditions C01 puts on an accepted header
func propertyHolds(c *Case, b *built, rx relax) bool {
	cs := c.H.Cons
	if cs.Nil || c.H.Val.Bad || c.SeedH.ConsNil {
		return false
	}
	pt, vt := c.CP.PT, c.CP.VT
	if rx.hdrThr {
		pt, vt = cs.PT, cs.VT
	}
	// proposer credential
	if cs.Signer < 0 {
		return false
	}
	// the header is sealed, over its own hash, by the key that signed the consensus data
	if !rx.seal && c.H.Seal != nil && (c.H.Seal.Kind != 0 || c.H.Seal.Key != cs.Signer) {
		return false
	}
	var prop *ValS
	for i := range c.LB.Vals {
		if !c.LB.Vals[i].MainBad && c.LB.Vals[i].Key == cs.Signer {
			prop = &c.LB.Vals[i]
			break
		}
	}
	if prop == nil {
		return false
	}
	if !rx.nonMember && !isMember(*prop) {
		return false
	}
	ph, pok := refHash(cs.Signer, c.SeedH.Seed, stepProposal, cs.RoundIndex, proofBytes(cs.Proof))
	if !pok {
		return false
	}
	j, pan := seatsOf(ph, prop.Stake, pt, b.total)
	if pan || uint32(j) != cs.SubUsers || j < 0 || j > 200000 || ucon.VerifC01ComputePriority(ph, j) != b.prio {
		return false
	}
	if j <= 0 && !rx.zeroSeat {
		return false
	}
	// precommit quorum
	w := goodWeight(c, c.LB, b.total, c.SeedH.Seed, stepPrecommit, c.H.Val.RoundIndex, vt, c.H.Val.Votes, c.H.Val.Agg, cs.Round, rx)
	if w < specQuorum(vt, true) {
		return false
	}
	if c.H.Number > 0 && c.H.Number%params.ACoCHTFrequency == 0 {
		if c.H.Cert.Bad || c.CertH.ConsNil {
			return false
		}
		cvt, ok := verCVT(c, c.CertH.Version)
		if !ok {
			return false
		}
		if rx.hdrThr {
			cvt = c.CertH.CVT
		}
		w := goodWeight(c, c.CertLB, b.certTotal, c.CertH.Seed, stepCertificate, c.H.Val.RoundIndex, cvt, c.H.Cert.Votes, c.H.Cert.Agg, cs.Round, rx)
		if w < specQuorum(cvt, false) {
			return false
		}
	}
	return true
}

const (
	whatThr     = "C01-thresholds-read-from-header"
	whatMember  = "C01-non-member-or-offline-voter-counted"
	whatZero    = "C01-proposer-with-zero-seats"
	whatUnknown = "C01-accepted-without-protocol-quorum"
	whatSeal    = "C01-header-signature-not-by-the-proposer-key"
)

type hit struct {
	What string `json:"what"`
	Case Case   `json:"case"`
}
type hhit struct {
	What  string `json:"what"`
	HCase HCase  `json:"hcase"`
}

func loadCorpusH(dir string) []HCase {
	var out []HCase
	files, _ := filepath.Glob(filepath.Join(dir, "h*.json"))
	sort.Strings(files)
	for _, f := range files {
		b, err := ioutil.ReadFile(f)
		if err != nil {
			continue
		}
		var c HCase
		if json.Unmarshal(b, &c) == nil && len(c.Chain) > 0 {
			c.Comment = "corpus:" + filepath.Base(f)
			out = append(out, c)
		}
	}
	return out
}

// oracle returns the `what` keys of the violations an accepted case shows.
func oracle(c *Case, b *built) []string {
	ws := oracleAccept(c, b)
	if anyCredentialDiffers(c) {
		ws = append([]string{whatVrfDiffers}, ws...)
	}
	return ws
}

// oracleAccept: the acceptance clause of the property
func oracleAccept(c *Case, b *built) []string {
	if c.Verdict == 11 {
		// a crash of the verifier is an outcome of its own (recorded in the distribution as PANIC
		// and compared with the model's EPanic); it is not an acceptance, so not a C01 violation
		return nil
	}
	if c.Verdict != 0 {
		return nil
	}
	if propertyHolds(c, b, relax{}) {
		return nil
	}
	if propertyHolds(c, b, relax{seal: true}) {
		return []string{whatSeal}
	}
	// smallest sets of listed weaknesses that explain the acceptance
	names := []string{whatThr, whatMember, whatZero}
	for size := 1; size <= 3; size++ {
		for mask := 1; mask < 8; mask++ {
			bits := 0
			for i := uint(0); i < 3; i++ {
				if mask>>i&1 == 1 {
					bits++
				}
			}
			if bits != size {
				continue
			}
			if propertyHolds(c, b, relax{mask&1 != 0, mask&2 != 0, mask&4 != 0, false}) {
				var out []string
				for i := uint(0); i < 3; i++ {
					if mask>>i&1 == 1 {
						out = append(out, names[i])
					}
				}
				return out
			}
		}
	}
	return []string{whatUnknown}
}

// ---- generators ---------------------------------------------------------------

type gen struct {
	hplain    bool // header-path case without any forgery, seal check on
	plainAll  bool
	forceCert bool
	plain     bool // an honest header, one vote short of the quorum, no forgery
	bigNo     int
	r         *vf.Rng
	variant   string
}

func (g *gen) lookback(nKeysUsed int, big bool) LBS {
	r := g.r
	var lb LBS
	n := 3 + r.Intn(6)
	if n > nKeysUsed {
		n = nKeysUsed
	}
	perm := make([]int, nKeys)
	for i := range perm {
		perm[i] = i
	}
	for i := nKeys - 1; i > 0; i-- {
		j := r.Intn(i + 1)
		perm[i], perm[j] = perm[j], perm[i]
	}
	for i := 0; i < n; i++ {
		v := ValS{Key: perm[i], Bls: perm[i], Role: 2, Status: 1}
		switch {
		case big:
			v.Stake = uint64(2000 + r.Intn(30000))
		default:
			v.Stake = uint64(1 + r.Heavy(400))
		}
		if r.Chance(12) {
			v.Role = 1
		}
		if r.Chance(14) {
			v.Role = 3 // house
		}
		if r.Chance(3) {
			v.Role = uint8(r.Pick([]uint64{0, 4, 9}))
		}
		if r.Chance(12) {
			v.Status = 0
		}
		if r.Chance(10) { // a status byte that is neither Offline (0) nor Online (1): not online, hence not entitled
			v.Status = uint8(r.Pick([]uint64{2, 3, 255}))
		}
		if r.Chance(3) {
			v.MainBad = true
			v.BadForm = r.Intn(20)
		}
		if r.Chance(3) {
			v.BlsBad = true
			v.BadForm = r.Intn(20)
		}
		if r.Chance(3) {
			v.Stake = 0
		}
		if r.Chance(3) && i > 0 {
			v.Bls = perm[i-1] // two validators registered the same BLS key
		}
		lb.Vals = append(lb.Vals, v)
	}
	if r.Chance(4) {
		lb.Phantom = uint64(1 + r.Intn(500))
	}
	if r.Chance(2) {
		lb.ZeroTotal = true
	}
	return lb
}

func chamberTotal(lb LBS) uint64 {
	if lb.ZeroTotal {
		return 0
	}
	t := lb.Phantom
	for _, v := range lb.Vals {
		if (v.Role == 1 || v.Role == 2) && v.Status == 1 {
			t += v.Stake
		}
	}
	return t
}

// honestVotes: every member runs the sortition for (seed, step, index) under thr
func honestVotes(lb LBS, total uint64, seed int, step, index uint32, thr uint64, membersOnly bool) []VoteS {
	var out []VoteS
	for i, v := range lb.Vals {
		if v.MainBad || v.BlsBad || (membersOnly && !isMember(v)) {
			continue
		}
		p := ProofS{Kind: 0, Key: v.Key, Seed: seed, Role: step, Index: index}
		j, pan := seatsOf(honestProof(p).hash, v.Stake, thr, total)
		if pan || j <= 0 {
			continue
		}
		out = append(out, VoteS{Idx: uint32(i), Votes: uint32(j), Proof: p})
	}
	return out
}

func aggOf(lb LBS, votes []VoteS, round uint64, index uint32) AggS {
	a := AggS{Kind: 0}
	for _, v := range votes {
		if int(v.Idx) < len(lb.Vals) {
			a.Parts = append(a.Parts, PartS{Key: lb.Vals[v.Idx].Bls, Round: round, Index: index})
		}
	}
	return a
}

func (g *gen) shuffleVotes(vs []VoteS) {
	for i := len(vs) - 1; i > 0; i-- {
		j := g.r.Intn(i + 1)
		vs[i], vs[j] = vs[j], vs[i]
	}
}

// trimToQuorum keeps a prefix of the votes whose weight is mode: 0 all, 1 the
// shortest prefix reaching q, 2 one vote short of q
func trimToQuorum(vs []VoteS, q uint64, mode int) []VoteS {
	if mode == 0 {
		return vs
	}
	sum := uint64(0)
	for i, v := range vs {
		sum += uint64(v.Votes)
		if sum >= q {
			if mode == 1 {
				return vs[:i+1]
			}
			return vs[:i]
		}
	}
	return vs
}

// grindProof: the owner of key k looks for the leading byte of its VRF point's encoding that gives
// the largest seat count (256 encodings of the same point, each with its own sha256)
func grindProof(key int, stake, thr, total uint64, seed int, step, index uint32) (ProofS, int64) {
	base := forgeProof(keys[key].sk, msgOf(seed, step, index), "forge_nonce", 0)
	d := append([]byte{}, base[64:129]...)
	best, bestJ := 6, int64(-1)
	for tag := 0; tag < 256; tag++ {
		if tag == 4 {
			continue
		}
		d[0] = byte(tag)
		j, pan := seatsOf(common.Hash(sha256.Sum256(d)), stake, thr, total)
		if !pan && j > bestJ {
			best, bestJ = tag, j
		}
	}
	return ProofS{Kind: 12, Tag: best, Key: key, Seed: seed, Role: step, Index: index}, bestJ
}

// grindVotes: every entitled member votes with its best-draw encoding and claims that weight
func grindVotes(lb LBS, total uint64, seed int, step, index uint32, thr uint64) []VoteS {
	var out []VoteS
	for i, v := range lb.Vals {
		if v.MainBad || v.BlsBad || !isMember(v) {
			continue
		}
		p, j := grindProof(v.Key, v.Stake, thr, total, seed, step, index)
		if j > 0 {
			out = append(out, VoteS{Idx: uint32(i), Votes: uint32(j), Proof: p})
		}
	}
	return out
}

// exactSubset returns a sub-list of vs (order kept) whose weight is exactly
// want, if one exists (lists are short: brute force over subsets)
func exactSubset(vs []VoteS, want uint64) ([]VoteS, bool) {
	n := len(vs)
	if n > 12 {
		n = 12
	}
	for mask := 0; mask < 1<<uint(n); mask++ {
		sum := uint64(0)
		for i := 0; i < n; i++ {
			if mask>>uint(i)&1 == 1 {
				sum += uint64(vs[i].Votes)
			}
		}
		if sum == want {
			var out []VoteS
			for i := 0; i < n; i++ {
				if mask>>uint(i)&1 == 1 {
					out = append(out, vs[i])
				}
			}
			return out, true
		}
	}
	return nil, false
}

// readd: the base list is one vote short of the quorum; the missing vote (or
// its weight) is brought back in a form that must not count.  Each variant is
// an attack that succeeds only against a verifier lacking one check.
func (g *gen) readd(c *Case, lb LBS, u *UVS, dropped VoteS, q uint64, seed int, res *vf.Result) {
	r := g.r
	round := c.H.Cons.Round
	sum := uint64(0)
	for _, v := range u.Votes {
		sum += uint64(v.Votes)
	}
	gap := uint32(1)
	if q > sum {
		gap = uint32(q - sum)
	}
	sigOf := func(v VoteS) PartS {
		k := 0
		if int(v.Idx) < len(lb.Vals) {
			k = lb.Vals[v.Idx].Bls
		}
		return PartS{Key: k, Round: round, Index: u.RoundIndex}
	}
	tag := ""
	switch r.Intn(14) {
	case 0: // duplicate the heaviest counted vote, signature aggregated twice
		if len(u.Votes) > 0 {
			bi := 0
			for i, v := range u.Votes {
				if v.Votes > u.Votes[bi].Votes {
					bi = i
				}
			}
			times := 1 + int(gap/(u.Votes[bi].Votes+1))
			for t := 0; t < times && t < 6; t++ {
				u.Votes = append(u.Votes, u.Votes[bi])
				u.Agg.Parts = append(u.Agg.Parts, sigOf(u.Votes[bi]))
			}
			tag = "dup_with_signatures"
		}
	case 1: // duplicate, aggregate unchanged
		if len(u.Votes) > 0 {
			i := r.Intn(len(u.Votes))
			u.Votes = append(u.Votes, u.Votes[i])
			tag = "dup_without_signature"
		}
	case 2: // a counted vote claims the missing weight as well
		if len(u.Votes) > 0 {
			i := r.Intn(len(u.Votes))
			u.Votes[i].Votes += gap
			tag = "inflate_to_quorum"
		}
	case 3, 4, 5: // the missing vote with a proof made for another index / step / seed
		d := dropped
		switch r.Intn(3) {
		case 0:
			d.Proof.Index += uint32(1 + r.Intn(2))
		case 1:
			d.Proof.Role = uint32(r.Pick([]uint64{1, 2, 4, 5, 3}))
			if d.Proof.Role == dropped.Proof.Role {
				d.Proof.Role = 2
			}
		default:
			switch r.Intn(3) {
			case 0:
				d.Proof.Seed += 1 + r.Intn(3)
			case 1:
				d.Proof.Seed = c.SeedH.Seed // the precommit seed (a replay if this is the certificate list)
			default:
				d.Proof.Seed = c.CertH.Seed // the certificate seed (a replay if this is the precommit list)
			}
			if d.Proof.Seed == dropped.Proof.Seed {
				d.Proof.Seed += 5
			}
		}
		u.Votes = append(u.Votes, d)
		u.Agg.Parts = append(u.Agg.Parts, sigOf(d))
		tag = "readd_replayed_proof"
	case 6: // the missing vote with somebody else's proof
		d := dropped
		d.Proof.Key = lb.Vals[r.Intn(len(lb.Vals))].Key
		u.Votes = append(u.Votes, d)
		u.Agg.Parts = append(u.Agg.Parts, sigOf(d))
		tag = "readd_foreign_proof"
	case 7: // the missing vote, its signature not in the aggregate
		u.Votes = append(u.Votes, dropped)
		tag = "readd_unsigned"
	case 8: // the missing vote, signed over another block / round / index
		u.Votes = append(u.Votes, dropped)
		pt := sigOf(dropped)
		switch r.Intn(3) {
		case 0:
			pt.OtherHash = true
		case 1:
			pt.Round++
		default:
			pt.Index++
		}
		u.Agg.Parts = append(u.Agg.Parts, pt)
		tag = "readd_signed_other_payload"
	case 9: // the missing vote attributed to another validator
		d := dropped
		d.Idx = uint32(r.Intn(len(lb.Vals)))
		u.Votes = append(u.Votes, d)
		u.Agg.Parts = append(u.Agg.Parts, sigOf(d))
		tag = "readd_other_index"
	case 10: // the missing vote with a changed weight
		d := dropped
		if r.Bool() {
			d.Votes += uint32(1 + r.Intn(3))
		} else if d.Votes > 1 {
			d.Votes--
		}
		u.Votes = append(u.Votes, d)
		u.Agg.Parts = append(u.Agg.Parts, sigOf(d))
		tag = "readd_weight_changed"
	case 11: // control: the missing vote as it is
		u.Votes = append(u.Votes, dropped)
		u.Agg.Parts = append(u.Agg.Parts, sigOf(dropped))
		tag = "readd_honest"
	case 12: // the gap filled by offline / house / invalid-role validators that ran the sortition
		thr := c.H.Cons.VT
		step := uint32(stepPrecommit)
		if dropped.Proof.Role == stepCertificate {
			thr, step = c.CertH.CVT, stepCertificate
		}
		all := honestVotes(lb, chamberTotal(lb), seed, step, u.RoundIndex, thr, false)
		for _, v := range all {
			if !isMember(lb.Vals[v.Idx]) {
				u.Votes = append(u.Votes, v)
				u.Agg.Parts = append(u.Agg.Parts, sigOf(v))
			}
		}
		tag = "gap_filled_by_non_members"
	case 13: // garbage proof
		d := dropped
		d.Proof.Kind = malformedKind(r)
		u.Votes = append(u.Votes, d)
		u.Agg.Parts = append(u.Agg.Parts, sigOf(d))
		tag = "readd_garbage_proof"
	}
	if tag != "" {
		res.Count("attack:" + tag)
	}
}

// forgeVotes applies one forgery to a vote list / aggregate
func (g *gen) forgeVotes(c *Case, lb LBS, u *UVS, seed int, step uint32, res *vf.Result) {
	r := g.r
	round := c.H.Cons.Round
	pick := func() int {
		if len(u.Votes) == 0 {
			return -1
		}
		return r.Intn(len(u.Votes))
	}
	k := r.Intn(17)
	tag := ""
	switch k {
	case 0: // duplicate a vote (the signature is aggregated twice as well, so the aggregate still verifies on a verifier that counts twice)
		if i := pick(); i >= 0 {
			u.Votes = append(u.Votes, u.Votes[i])
			if r.Bool() && int(u.Votes[i].Idx) < len(lb.Vals) {
				u.Agg.Parts = append(u.Agg.Parts, PartS{Key: lb.Vals[u.Votes[i].Idx].Bls, Round: round, Index: u.RoundIndex})
			}
			tag = "dup_vote"
		}
	case 1: // replay from another round index
		if i := pick(); i >= 0 {
			u.Votes[i].Proof.Index = u.Votes[i].Proof.Index + 1
			tag = "proof_other_index"
		}
	case 2: // proof of another step
		if i := pick(); i >= 0 {
			u.Votes[i].Proof.Role = uint32(r.Pick([]uint64{1, 2, 3, 4, 5}))
			tag = "proof_other_step"
		}
	case 3: // proof for another seed (another round)
		if i := pick(); i >= 0 {
			u.Votes[i].Proof.Seed = seed + 1 + r.Intn(2)
			tag = "proof_other_seed"
		}
	case 4: // proof of another validator
		if i := pick(); i >= 0 {
			u.Votes[i].Proof.Key = lb.Vals[r.Intn(len(lb.Vals))].Key
			tag = "proof_other_key"
		}
	case 5: // inflated / deflated weight
		if i := pick(); i >= 0 {
			u.Votes[i].Votes = uint32(int64(u.Votes[i].Votes) + int64(r.Pick([]uint64{1, 2, 50, 1000, 1 << 31})) - int64(r.Intn(2))*2)
			tag = "weight_changed"
		}
	case 6: // index outside the set
		if i := pick(); i >= 0 {
			u.Votes[i].Idx = uint32(len(lb.Vals) + r.Intn(3))
			tag = "idx_out_of_range"
		}
	case 7: // index of another validator (keeps the proof)
		if i := pick(); i >= 0 {
			u.Votes[i].Idx = uint32(r.Intn(len(lb.Vals)))
			tag = "idx_other_validator"
		}
	case 8: // garbage proof
		if i := pick(); i >= 0 {
			u.Votes[i].Proof.Kind = malformedKind(r)
			tag = "proof_garbage"
		}
	case 9: // aggregate misses one signer
		if len(u.Agg.Parts) > 0 {
			i := r.Intn(len(u.Agg.Parts))
			u.Agg.Parts = append(u.Agg.Parts[:i:i], u.Agg.Parts[i+1:]...)
			tag = "agg_missing_signer"
		}
	case 10: // aggregate has an extra signer
		u.Agg.Parts = append(u.Agg.Parts, PartS{Key: r.Intn(nKeys), Round: round, Index: u.RoundIndex})
		tag = "agg_extra_signer"
	case 11: // one signature over another payload
		if len(u.Agg.Parts) > 0 {
			i := r.Intn(len(u.Agg.Parts))
			switch r.Intn(3) {
			case 0:
				u.Agg.Parts[i].OtherHash = true
			case 1:
				u.Agg.Parts[i].Round++
			default:
				u.Agg.Parts[i].Index++
			}
			tag = "agg_other_payload"
		}
	case 12: // undecodable aggregate
		u.Agg.Kind = 1 + r.Intn(3)
		tag = "agg_undecodable"
	case 13: // container index differs from the signed consensus index (votes made for the container index)
		u.RoundIndex = u.RoundIndex + 1
		tag = "container_index_shift"
	case 14: // votes of non-members / offline members added honestly signed
		tag = "nonmember_votes"
		thr := c.H.Cons.VT
		if step == stepCertificate {
			thr = c.CertH.CVT
		}
		all := honestVotes(lb, chamberTotal(lb), seed, step, u.RoundIndex, thr, false)
		for _, v := range all {
			if !isMember(lb.Vals[v.Idx]) {
				u.Votes = append(u.Votes, v)
				u.Agg.Parts = append(u.Agg.Parts, PartS{Key: lb.Vals[v.Idx].Bls, Round: round, Index: u.RoundIndex})
			}
		}
	case 15: // no votes at all, neutral aggregate
		u.Votes = nil
		u.Agg = AggS{Kind: 0}
		tag = "no_votes"
	case 16: // undecodable container
		u.Bad = true
		tag = "container_undecodable"
	}
	if tag != "" {
		res.Count("forge:" + tag)
	}
}

func (g *gen) one(res *vf.Result) Case {
	r := g.r
	c := Case{Variant: g.variant}
	// protocol parameters: the real ones or scaled-down ones
	bigSet := r.Chance(25)
	if bigSet {
		c.CP = CPS{26, 2000, 4000}
	} else {
		vt := uint64(4 + r.Intn(60))
		c.CP = CPS{uint64(1 + r.Intn(8)), vt, vt + uint64(r.Intn(40))}
	}
	c.Vers = []VerS{{1, c.CP}}
	if r.Chance(30) {
		c.Vers = append(c.Vers, VerS{2, CPS{c.CP.PT, c.CP.VT + 3, c.CP.CVT + uint64(1+r.Intn(9))}})
	}
	c.LB = g.lookback(nKeys, bigSet)
	c.CertLB = c.LB
	if r.Chance(50) {
		c.CertLB = g.lookback(nKeys, bigSet)
	}
	c.SeedH = LBH{Seed: 1 + r.Intn(3), Version: 1}
	c.CertH = LBH{Seed: 10 + r.Intn(3), Version: 1, CVT: c.CP.CVT}
	if len(c.Vers) > 1 && r.Bool() {
		c.CertH.Version = 2
		c.CertH.CVT = c.Vers[1].CP.CVT
	}
	certRound := r.Chance(30) || g.forceCert
	if certRound {
		c.H.Number = params.ACoCHTFrequency * uint64(1+r.Intn(3))
	} else {
		c.H.Number = uint64(20 + r.Intn(100000))
		if c.H.Number%params.ACoCHTFrequency == 0 {
			c.H.Number++
		}
	}
	// canonical order first (indexes refer to it)
	buildLB(&c.LB)
	buildLB(&c.CertLB)
	total, certTotal := chamberTotal(c.LB), chamberTotal(c.CertLB)
	index := uint32(1 + r.Intn(3))
	cs := ConsS{Round: c.H.Number, RoundIndex: index, PT: c.CP.PT, VT: c.CP.VT, CVT: c.CP.CVT}
	// proposer: a member that won a seat if there is one
	var cand []int
	for i, v := range c.LB.Vals {
		if isMember(v) && !v.MainBad {
			cand = append(cand, i)
		}
	}
	cs.Signer = r.Intn(nKeys)
	if len(cand) > 0 {
		start := r.Intn(len(cand))
		cs.Signer = c.LB.Vals[cand[start]].Key
		for o := 0; o < len(cand); o++ {
			v := c.LB.Vals[cand[(start+o)%len(cand)]]
			p := ProofS{Key: v.Key, Seed: c.SeedH.Seed, Role: stepProposal, Index: index}
			if j, pan := seatsOf(honestProof(p).hash, v.Stake, c.CP.PT, total); !pan && j > 0 {
				cs.Signer = v.Key
				break
			}
		}
	}
	cs.Proof = ProofS{Key: cs.Signer, Seed: c.SeedH.Seed, Role: stepProposal, Index: index}
	propStake := uint64(0)
	for _, v := range c.LB.Vals {
		if !v.MainBad && v.Key == cs.Signer {
			propStake = v.Stake
		}
	}
	j, _ := seatsOf(honestProof(cs.Proof).hash, propStake, c.CP.PT, total)
	cs.PrioJ, cs.SubUsers = j, uint32(j)
	c.H.Cons = cs
	// honest votes: all / shortest prefix reaching the quorum / one vote short /
	// weight exactly the quorum / exactly one below it
	pickVotes := func(all []VoteS, q uint64) ([]VoteS, *VoteS, string) {
		g.shuffleVotes(all)
		mode := r.Intn(8)
		if g.plain {
			mode = 7 // one vote short of the quorum, nothing else wrong
			if g.plainAll {
				mode = 0 // every entitled member votes
			}
		}
		switch mode {
		case 0, 1:
			return all, nil, "all"
		case 2:
			return trimToQuorum(all, q, 1), nil, "just_enough"
		case 3:
			if ex, ok := exactSubset(all, q); ok && q > 0 {
				return ex, nil, "exactly_quorum"
			}
			return trimToQuorum(all, q, 1), nil, "just_enough"
		case 4:
			if q > 0 {
				if ex, ok := exactSubset(all, q-1); ok {
					return ex, nil, "exactly_quorum_minus_1"
				}
			}
			return trimToQuorum(all, q, 2), nil, "one_short"
		default:
			short := trimToQuorum(all, q, 2)
			if len(short) < len(all) {
				d := all[len(short)]
				return short, &d, "one_short"
			}
			return short, nil, "all_but_insufficient"
		}
	}
	c.H.Val = UVS{RoundIndex: index}
	qv := quorumOf(c.CP.VT, true)
	votes, dropped, mode := pickVotes(honestVotes(c.LB, total, c.SeedH.Seed, stepPrecommit, index, c.CP.VT, true), qv)
	c.H.Val.Votes = votes
	c.H.Val.Agg = aggOf(c.LB, c.H.Val.Votes, cs.Round, index)
	res.Count("base:precommits_" + mode)
	attacked := false
	if !g.plain && r.Chance(9) {
		// a coalition (about half of the entitled validators, each really signing) whose members each
		// present the encoding of their VRF point that gives them the largest draw
		all := grindVotes(c.LB, total, c.SeedH.Seed, stepPrecommit, index, c.CP.VT)
		g.shuffleVotes(all)
		keep := len(all)/2 + r.Intn(len(all)/2+1)
		c.H.Val.Votes = all[:keep]
		c.H.Val.Agg = aggOf(c.LB, c.H.Val.Votes, cs.Round, index)
		res.Count("attack:coalition_grinds_the_point_encoding")
		attacked = true
		dropped = nil
	}
	if !g.plain && dropped != nil && r.Chance(25) {
		// the gap is filled by chamber validators whose status byte is neither Offline (0) nor Online (1):
		// they ran the sortition and signed, but they are not online members
		n0 := len(c.H.Val.Votes)
		for _, v := range honestVotes(c.LB, total, c.SeedH.Seed, stepPrecommit, index, c.CP.VT, false) {
			val := c.LB.Vals[v.Idx]
			if (val.Role == 1 || val.Role == 2) && val.Status > 1 {
				c.H.Val.Votes = append(c.H.Val.Votes, v)
				c.H.Val.Agg.Parts = append(c.H.Val.Agg.Parts, PartS{Key: val.Bls, Round: cs.Round, Index: index})
			}
		}
		if len(c.H.Val.Votes) > n0 {
			res.Count("attack:gap_filled_by_chamber_validators_of_odd_status")
			attacked = true
			dropped = nil
		}
	}
	if !g.plain && dropped != nil && r.Chance(75) {
		g.readd(&c, c.LB, &c.H.Val, *dropped, qv, c.SeedH.Seed, res)
		attacked = true
	}
	c.H.Cert = UVS{RoundIndex: index, Agg: AggS{Kind: 3}}
	if certRound {
		cvt, _ := verCVT(&c, c.CertH.Version)
		qc := quorumOf(cvt, false)
		votes, dropped, mode := pickVotes(honestVotes(c.CertLB, certTotal, c.CertH.Seed, stepCertificate, index, cvt, true), qc)
		c.H.Cert.Votes = votes
		c.H.Cert.Agg = aggOf(c.CertLB, c.H.Cert.Votes, cs.Round, index)
		res.Count("base:certificates_" + mode)
		if !g.plain && dropped != nil && r.Chance(75) {
			g.readd(&c, c.CertLB, &c.H.Cert, *dropped, qc, c.CertH.Seed, res)
			attacked = true
		}
	}
	// forgeries
	nf := 0
	if attacked || g.plain {
		return c
	}
	if certRound && r.Chance(6) { // an otherwise honest certificate-round header whose look-back header is unusable
		if r.Bool() {
			c.CertH.Version = 77
			res.Count("forge:cert_header_unknown_version")
		} else {
			c.CertH.ConsNil = true
			res.Count("forge:cert_header_without_consensus")
		}
		return c
	}
	switch r.Intn(10) {
	case 0, 1, 2:
		nf = 0
	case 3, 4, 5, 6, 7:
		nf = 1
	default:
		nf = 2 + r.Intn(2)
	}
	if nf == 0 {
		res.Count("forge:none")
	}
	for f := 0; f < nf; f++ {
		switch r.Intn(13) {
		case 0, 1, 2:
			g.forgeVotes(&c, c.LB, &c.H.Val, c.SeedH.Seed, stepPrecommit, res)
		case 11, 12:
			g.forgeSeal(&c, res)
		case 10:
			g.forgeProposer(&c, total, res)
		case 3, 4:
			if certRound && r.Chance(45) {
				cvt, _ := verCVT(&c, c.CertH.Version)
				switch r.Intn(3) {
				case 0: // certificate votes cast by the precommit look-back set instead of the certificate look-back set
					c.H.Cert.Votes = honestVotes(c.LB, total, c.CertH.Seed, stepCertificate, c.H.Val.RoundIndex, cvt, true)
					c.H.Cert.Agg = aggOf(c.LB, c.H.Cert.Votes, c.H.Cons.Round, c.H.Val.RoundIndex)
					res.Count("forge:certificates_by_wrong_lookback_set")
				case 1: // whole certificate list drawn with the precommit seed
					c.H.Cert.Votes = honestVotes(c.CertLB, certTotal, c.SeedH.Seed, stepCertificate, c.H.Val.RoundIndex, cvt, true)
					c.H.Cert.Agg = aggOf(c.CertLB, c.H.Cert.Votes, c.H.Cons.Round, c.H.Val.RoundIndex)
					res.Count("forge:certificates_for_precommit_seed")
				default: // whole certificate list drawn with the precommit step
					c.H.Cert.Votes = honestVotes(c.CertLB, certTotal, c.CertH.Seed, stepPrecommit, c.H.Val.RoundIndex, cvt, true)
					c.H.Cert.Agg = aggOf(c.CertLB, c.H.Cert.Votes, c.H.Cons.Round, c.H.Val.RoundIndex)
					res.Count("forge:certificates_with_precommit_step")
				}
			} else if certRound {
				g.forgeVotes(&c, c.CertLB, &c.H.Cert, c.CertH.Seed, stepCertificate, res)
			} else {
				g.forgeVotes(&c, c.LB, &c.H.Val, c.SeedH.Seed, stepPrecommit, res)
			}
		case 5, 6:
			g.forgeThresholds(&c, total, certTotal, res)
		case 7, 8:
			g.forgeProposer(&c, total, res)
		default:
			g.forgeFrame(&c, res)
		}
	}
	return c
}

// forgeThresholds: the author writes thresholds of its own choice into the
// header and builds the votes that fit them
func (g *gen) forgeThresholds(c *Case, total, certTotal uint64, res *vf.Result) {
	r := g.r
	cs := &c.H.Cons
	switch r.Intn(6) {
	case 0: // tiny validator threshold: quorum 0 or 1, no or one vote
		cs.VT = uint64(r.Intn(3))
		c.H.Val.Votes = honestVotes(c.LB, total, c.SeedH.Seed, stepPrecommit, c.H.Val.RoundIndex, cs.VT, true)
		c.H.Val.Votes = trimToQuorum(c.H.Val.Votes, quorumOf(cs.VT, true), 1)
		if quorumOf(cs.VT, true) == 0 {
			c.H.Val.Votes = nil
		}
		c.H.Val.Agg = aggOf(c.LB, c.H.Val.Votes, cs.Round, c.H.Val.RoundIndex)
		res.Count("forge:thr_validator_tiny")
	case 1: // another validator threshold, votes recomputed for it
		cs.VT = uint64(1 + r.Intn(int(c.CP.VT)*2+2))
		c.H.Val.Votes = honestVotes(c.LB, total, c.SeedH.Seed, stepPrecommit, c.H.Val.RoundIndex, cs.VT, true)
		c.H.Val.Votes = trimToQuorum(c.H.Val.Votes, quorumOf(cs.VT, true), r.Intn(3))
		c.H.Val.Agg = aggOf(c.LB, c.H.Val.Votes, cs.Round, c.H.Val.RoundIndex)
		res.Count("forge:thr_validator_other")
	case 2: // proposer threshold chosen by the author (up to probability 1)
		cs.PT = uint64(r.Pick([]uint64{0, 1, total / 2, total, c.CP.PT + 1, c.CP.PT * 3}))
		j := g.reproposer(c, total, cs.PT)
		res.Count(fmt.Sprintf("forge:thr_proposer(j>0=%v)", j > 0))
	case 5: // a threshold above the total stake (probability > 1)
		if r.Bool() {
			cs.VT = total + uint64(1+r.Intn(5))
		} else {
			cs.PT = total + uint64(1+r.Intn(5))
		}
		res.Count("forge:thr_above_total_stake")
	case 3: // header field changed only (votes still made for the protocol's threshold)
		switch r.Intn(3) {
		case 0:
			cs.VT = cs.VT + uint64(r.Pick([]uint64{1, 2, 10}))
		case 1:
			cs.PT = cs.PT + 1
		default:
			cs.CVT = cs.CVT + 1
		}
		res.Count("forge:thr_field_only")
	case 4: // the certificate look-back header carries its author's threshold
		c.CertH.CVT = uint64(r.Intn(3))
		if c.H.Number%params.ACoCHTFrequency == 0 {
			c.H.Cert.Votes = honestVotes(c.CertLB, certTotal, c.CertH.Seed, stepCertificate, c.H.Val.RoundIndex, c.CertH.CVT, true)
			c.H.Cert.Votes = trimToQuorum(c.H.Cert.Votes, quorumOf(c.CertH.CVT, false), 1)
			if quorumOf(c.CertH.CVT, false) == 0 {
				c.H.Cert.Votes = nil
			}
			c.H.Cert.Agg = aggOf(c.CertLB, c.H.Cert.Votes, cs.Round, c.H.Val.RoundIndex)
		}
		res.Count("forge:thr_cert_lookback")
	}
}

// reproposer recomputes the proposer credential of the current signer under pt
func (g *gen) reproposer(c *Case, total, pt uint64) int64 {
	cs := &c.H.Cons
	st := uint64(0)
	for _, v := range c.LB.Vals {
		if !v.MainBad && v.Key == cs.Signer {
			st = v.Stake
		}
	}
	j, _ := seatsOf(honestProof(cs.Proof).hash, st, pt, total)
	cs.PrioJ, cs.SubUsers = j, uint32(j)
	return j
}

func (g *gen) forgeProposer(c *Case, total uint64, res *vf.Result) {
	r := g.r
	cs := &c.H.Cons
	tag := ""
	k := r.Intn(17)
	if k >= 11 && k < 15 {
		k = 2 + (k-11)%2 // priority forgeries carry double weight
	} else if k >= 15 {
		k = 15
	}
	switch k {
	case 0: // a validator that won no seat proposes
		for _, v := range c.LB.Vals {
			if v.MainBad {
				continue
			}
			p := ProofS{Key: v.Key, Seed: c.SeedH.Seed, Role: stepProposal, Index: cs.RoundIndex}
			if j, pan := seatsOf(honestProof(p).hash, v.Stake, cs.PT, total); !pan && j == 0 {
				cs.Signer, cs.Proof = v.Key, p
				cs.PrioJ, cs.SubUsers = 0, 0
				tag = "proposer_zero_seats"
				break
			}
		}
	case 1:
		cs.SubUsers += uint32(1 + r.Intn(3))
		tag = "proposer_subusers_inflated"
	case 2:
		cs.PrioJ += int64(1 + r.Intn(2))
		tag = "proposer_priority_of_more_seats"
	case 3:
		cs.PrioBad = true
		tag = "proposer_priority_junk"
	case 4:
		cs.Proof.Index++
		tag = "proposer_proof_other_index"
	case 5:
		cs.Proof.Role = stepPrecommit
		tag = "proposer_proof_other_step"
	case 6:
		cs.Proof.Seed += 1
		tag = "proposer_proof_other_seed"
	case 7:
		cs.Proof.Kind = malformedKind(r)
		tag = "proposer_proof_garbage"
	case 8:
		cs.Signer = -1 - r.Intn(2)
		tag = "proposer_signature_bad"
	case 9: // signed by another key than the credential's
		cs.Signer = r.Intn(nKeys)
		tag = "proposer_other_signer"
	case 15: // the proposer grinds the encoding of its VRF point until the credential wins seats
		for _, v := range c.LB.Vals {
			if !v.MainBad && v.Key == cs.Signer {
				p, j := grindProof(v.Key, v.Stake, c.CP.PT, total, c.SeedH.Seed, stepProposal, cs.RoundIndex)
				if j > 0 {
					cs.Proof, cs.PrioJ, cs.SubUsers = p, j, uint32(j)
					tag = "proposer_grinds_the_point_encoding"
				}
			}
		}
	case 10: // a house / offline member proposes with a credential computed for it
		for _, v := range c.LB.Vals {
			if v.MainBad || isMember(v) {
				continue
			}
			p := ProofS{Key: v.Key, Seed: c.SeedH.Seed, Role: stepProposal, Index: cs.RoundIndex}
			if j, pan := seatsOf(honestProof(p).hash, v.Stake, cs.PT, total); !pan {
				cs.Signer, cs.Proof = v.Key, p
				cs.PrioJ, cs.SubUsers = j, uint32(j)
				tag = "proposer_non_member"
				break
			}
		}
	}
	if tag != "" {
		res.Count("forge:" + tag)
	}
}

// forgeSeal: the header signature (header.Signature, made by Seal over Hash())
func (g *gen) forgeSeal(c *Case, res *vf.Result) {
	r := g.r
	cs := &c.H.Cons
	other := func() int { // another key of the look-back set (a validator that is not the proposer)
		for try := 0; try < 8; try++ {
			v := c.LB.Vals[r.Intn(len(c.LB.Vals))]
			if v.Key != cs.Signer {
				return v.Key
			}
		}
		return (cs.Signer + 1 + nKeys) % nKeys
	}
	tag := ""
	switch r.Intn(8) {
	case 0:
		c.H.Seal = &SealS{Kind: 1}
		tag = "seal_missing"
	case 1:
		c.H.Seal = &SealS{Kind: 2, Key: cs.Signer}
		tag = "seal_wrong_length"
	case 2:
		c.H.Seal = &SealS{Kind: 4, Key: cs.Signer}
		tag = "seal_junk"
	case 3: // valid signature over this header by another validator
		c.H.Seal = &SealS{Kind: 0, Key: other()}
		tag = "seal_by_other_validator"
	case 4: // valid signature by a key outside every set
		c.H.Seal = &SealS{Kind: 0, Key: -2}
		tag = "seal_by_outsider"
	case 5: // the proposer's signature over another header (replay)
		c.H.Seal = &SealS{Kind: 3, Key: cs.Signer}
		tag = "seal_over_other_header"
	case 6: // consensus data re-signed by another validator, header sealed by the credential's owner
		owner := cs.Signer
		cs.Signer = other()
		c.H.Seal = &SealS{Kind: 0, Key: owner}
		tag = "seal_by_credential_owner_consensus_by_other"
	case 7: // control: explicit honest seal
		c.H.Seal = &SealS{Kind: 0, Key: cs.Signer}
		tag = "seal_explicit_honest"
	}
	res.Count("forge:" + tag)
}

func (g *gen) forgeFrame(c *Case, res *vf.Result) {
	r := g.r
	tag := ""
	k := r.Intn(8)
	certRound := c.H.Number%params.ACoCHTFrequency == 0
	if certRound && r.Bool() {
		k = int(r.Pick([]uint64{2, 3, 7}))
	} else if !certRound && (k == 2 || k == 3 || k == 7) {
		k = int(r.Pick([]uint64{0, 1, 4, 5, 6}))
	}
	switch k {
	case 0:
		c.H.Cons.Nil = true
		tag = "consensus_undecodable"
	case 1:
		c.SeedH.ConsNil = true
		tag = "seed_header_without_consensus"
	case 2:
		c.CertH.ConsNil = true
		tag = "cert_header_without_consensus"
	case 3:
		c.CertH.Version = 77
		tag = "cert_header_unknown_version"
	case 4:
		c.H.ParentBad = 1 + r.Intn(3)
		tag = "parent_bad"
	case 5:
		c.H.Cons.Round += uint64(1 + r.Intn(2)) // consensus round differs from the votes' round
		tag = "consensus_round_shift"
	case 6:
		c.H.Cons.RoundIndex++ // proposer index differs from the container's index
		tag = "consensus_index_shift"
	case 7:
		c.H.Cert.Bad = true
		tag = "certificate_undecodable"
	}
	res.Count("forge:" + tag)
}

// ---- corpus / gen / replay -----------------------------------------------------

func loadCorpus(dir string) []Case {
	var out []Case
	files, _ := filepath.Glob(filepath.Join(dir, "*.json"))
	sort.Strings(files)
	for _, f := range files {
		b, err := ioutil.ReadFile(f)
		if err != nil {
			continue
		}
		var c Case
		if json.Unmarshal(b, &c) == nil && len(c.LB.Vals) > 0 {
			c.Comment = "corpus:" + filepath.Base(f)
			out = append(out, c)
		}
	}
	return out
}

var verdictNames = map[int]string{0: "accept", 1: "reject:lookback_consensus", 2: "reject:invalid_consensus_data", 3: "reject:illegal_proposer",
	4: "reject:aggregate_undecodable", 5: "reject:recover_signer", 6: "reject:bls_mismatch", 7: "reject:unknown_version", 8: "reject:no_parents",
	9: "reject:unknown_block", 10: "reject:unknown_ancestor", 11: "PANIC", 12: "reject:other",
	13: "reject:consensus_data_format", 14: "reject:invalid_sealer"}

func runGen(seed uint64, n int, outDir, corpusDir, variant string) {
	r := vf.NewRng(seed)
	res := vf.NewResult("C01", seed)
	g := &gen{r: r, variant: variant, bigNo: int(seed % 7)}
	var sb strings.Builder
	sb.WriteString("From VF.C01 Require Import Model ModelH.\nLocal Open Scope N_scope.\nDefinition cases : list tcase := [\n")
	distinct := map[string]bool{}
	perKey := map[string]int{}
	count := 0
	emit := func(c Case) {
		c.Variant = variant
		c.Verdict, c.Err = 0, ""
		if strings.HasPrefix(c.Comment, "corpus:") {
			for i := range c.Before { // what the same Server verified earlier
				p := c.Before[i]
				observe(&p)
			}
		}
		t0 := time.Now()
		b := observe(&c)
		if os.Getenv("C01_TIMING") != "" && len(c.LB.Vals) > 1000 {
			fmt.Fprintln(os.Stderr, "observe big", time.Since(t0), "votes", len(c.H.Val.Votes), len(c.H.Cert.Votes))
		}
		// determinism: the verdict is a function of the input, not of what this process verified
		// before - every 9th case (and every history-dependent one) is verified again by a fresh Server
		freshDiffers := ""
		if (count%9 == 4 && len(c.LB.Vals) < 1000) || strings.HasPrefix(c.Comment, "history:") || len(c.Before) > 0 {
			c2 := c
			aged := server
			server, _ = ucon.NewVRFServer(nil)
			observe(&c2)
			server = aged
			res.Count("fresh_server_rerun")
			if c2.Verdict != c.Verdict {
				freshDiffers = fmt.Sprintf("long-lived verifier: %s, fresh verifier: %s", verdictNames[c.Verdict], verdictNames[c2.Verdict])
			}
		}
		if count > 0 {
			sb.WriteString(";\n")
		}
		txt := caseCoq(&c, b)
		sb.WriteString("TSide (" + txt + ")")
		count++
		res.Count(verdictNames[c.Verdict])
		if c.Verdict == 12 {
			res.Count("other:" + c.Err)
		}
		if len(c.H.Val.Votes) > 0 || c.H.Cons.Nil {
			distinct[txt] = true
		}
		if c.Verdict == 0 && c.H.Number%params.ACoCHTFrequency == 0 {
			res.Count("accept:certificate_round")
		}
		ows := oracle(&c, b)
		if freshDiffers != "" {
			ows = append(ows, whatHistory)
			c.Err = freshDiffers
		}
		for _, w := range ows {
			res.Count("oracle:" + w)
			if perKey[w] < 2 {
				perKey[w]++
				res.OracleHits = append(res.OracleHits, hit{w, c})
			}
		}
		res.CaseDescs = append(res.CaseDescs, c)
		if len(res.Samples) < 4 && (count%97 == 1) {
			res.Samples = append(res.Samples, c)
		}
	}
	emitH := func(hc HCase) {
		hc.Verdict, hc.Err = 0, ""
		if strings.HasPrefix(hc.Comment, "corpus:") {
			for i := range hc.Before {
				p := cloneH(hc.Before[i])
				observeH(&p)
			}
		}
		hb := observeH(&hc)
		bw := batchCheck(&hc, hb)
		freshDiffers := ""
		if count%9 == 4 || strings.HasPrefix(hc.Comment, "history:") || len(hc.Before) > 0 {
			h2 := cloneH(hc)
			aged := server
			server, _ = ucon.NewVRFServer(nil)
			observeH(&h2)
			server = aged
			res.Count("fresh_server_rerun")
			if h2.Verdict != hc.Verdict {
				freshDiffers = fmt.Sprintf("long-lived verifier: %s, fresh verifier: %s", hverdictName(hc.Verdict), hverdictName(h2.Verdict))
			}
		}
		if count > 0 {
			sb.WriteString(";\n")
		}
		txt := hc.coq(hb)
		sb.WriteString(txt)
		count++
		res.Count("path:" + hc.Kind)
		res.Count(hc.Kind + ":" + hverdictName(hc.Verdict))
		if len(hb.parents) > 0 && hc.Kind == "header" {
			res.Count("header:with_batch_prefix")
			if uint64(len(hb.parents)) >= roundBack {
				res.Count("header:version_header_inside_batch")
			}
		}
		if hc.SelfCanon > 0 {
			res.Count("header:same_hash_canonical:" + hverdictName(hc.Verdict))
		}
		if hc.Verdict == 0 && hc.Seal && hc.Kind == "header" {
			res.Count("header:accept_with_seal_check")
			if hc.C.H.Number%params.ACoCHTFrequency == 0 {
				res.Count("header:accept_certificate_round")
			}
		}
		distinct[txt] = true
		ws := oracleH(&hc, hb)
		if bw != "" {
			ws = append(ws, whatBatch)
			hc.Err = bw
		}
		if freshDiffers != "" {
			ws = append(ws, whatHistory)
			hc.Err = freshDiffers
		}
		for _, w := range ws {
			res.Count("oracle:" + w)
			if perKey[w] < 2 {
				perKey[w]++
				res.OracleHits = append(res.OracleHits, hhit{w, hc})
			}
		}
		res.CaseDescs = append(res.CaseDescs, hc)
		if len(res.Samples) < 6 && (count%131 == 1) {
			res.Samples = append(res.Samples, hc)
		}
	}
	for _, c := range loadCorpus(corpusDir) {
		emit(c)
		res.Count("corpus")
	}
	for _, hc := range loadCorpusH(corpusDir) {
		emitH(hc)
		res.Count("corpus")
	}
	gen0 := count
	for count < n {
		if variant == "fixed" && (count-gen0)%120 == 30 {
			// process history: one Server verifies a header of a validator set, then a header of the set in
			// which a member has withdrawn and registered again under the same main key with another BLS key
			for _, hc := range g.rekeyed(res) {
				emit(hc)
			}
			continue
		}
		if variant == "fixed" && (count-gen0)%150 == 90 {
			// fork history: the Server verifies a header on chain O, then the chain reader answers for fork N,
			// whose block at the stake look-back height carries another validator set
			for _, hc := range g.forked(res) {
				emitH(hc)
			}
			continue
		}
		if variant == "fixed" && (count-gen0)%170 == 60 {
			emit(g.bigDup(res)) // a handful per run: look-back sets beyond the cache capacities
			continue
		}
		if variant == "fixed" && r.Chance(40) {
			emitH(g.hcase(res))
		} else {
			emit(g.one(res))
		}
	}
	// hits whose input replays on its own (it carries the headers verified before it) come first
	sort.SliceStable(res.OracleHits, func(i, j int) bool {
		self := func(x interface{}) bool {
			switch h := x.(type) {
			case hit:
				return len(h.Case.Before) > 0 || h.What != whatHistory
			case hhit:
				return len(h.HCase.Before) > 0 || h.What != whatHistory
			}
			return true
		}
		return self(res.OracleHits[i]) && !self(res.OracleHits[j])
	})
	sb.WriteString("].\nDefinition M := Eval vm_compute in tmismatches cases.\nPrint M.\n")
	vf.WriteFile(filepath.Join(outDir, "Cases.v"), sb.String())
	res.Cases = count
	res.Distinct = len(distinct)
	res.Rule = "validator sets of 3-8 members with real secp256k1/BLS keys (roles chancellor/senator/house/invalid, on/offline, zero stake, undecodable keys, statistic inconsistent or empty), protocol thresholds real (26/2000/4000) or scaled down; an honest header is assembled (real VRF proposer credential, real precommit sortitions, votes trimmed to all / just-enough / one-short of the quorum, real BLS aggregate; certificate votes in certificate rounds) and then 0-3 forgeries applied out of 17 vote/aggregate forgeries, 6 threshold forgeries, 11 proposer forgeries, 8 header-signature forgeries, 8 framing forgeries, 3 whole-list certificate forgeries, or one of 14 'missing vote re-added in a corrupted form' attacks on a list that is one vote short; headers are sealed the way ucon's Seal does (crypto.Sign over Hash() with the proposer key); about 40% of the cases go through the ordinary entry points instead (VerifyHeader / verifyHeader with a batch prefix of up to 14 headers / VerifyAcHeader) over a real core.HeaderChain on a memory database holding the look-back headers (version header at round-8, seed, stake, certificate seed and stake look-backs, each with decoy neighbours carrying other versions/seeds/validator roots), with 16 forgeries of the selection and of the header frame; VerifyHeaders is run on every batch and compared element by element with sequential verifyHeader; a case = full verifier input + implementation verdict; non-trivial = has votes or an undecodable consensus field; distinct by full projected input"
	res.Extra["variant"] = variant
	res.Write(filepath.Join(outDir, "result.json"))
}

func runReplay(file string) {
	b, err := ioutil.ReadFile(file)
	if err != nil {
		fmt.Println(err)
		os.Exit(2)
	}
	var w struct {
		Case  *Case  `json:"case"`
		HCase *HCase `json:"hcase"`
		Kind  string `json:"kind"`
	}
	var c Case
	if json.Unmarshal(b, &w) == nil && (w.HCase != nil || w.Kind != "") {
		var hc HCase
		if w.HCase != nil {
			hc = *w.HCase
		} else if err := json.Unmarshal(b, &hc); err != nil {
			fmt.Println(err)
			os.Exit(2)
		}
		for i := range hc.Before {
			p := cloneH(hc.Before[i])
			observeH(&p)
			fmt.Printf("earlier header %d: verdict=%d (%s)\n", i+1, p.Verdict, hverdictName(p.Verdict))
		}
		hb := observeH(&hc)
		bw := batchCheck(&hc, hb)
		if len(hc.Before) > 0 {
			h2 := cloneH(hc)
			aged := server
			server, _ = ucon.NewVRFServer(nil)
			observeH(&h2)
			server = aged
			if h2.Verdict != hc.Verdict {
				fmt.Printf("verdict=%d (%s); a fresh verifier gives %d (%s)\n", hc.Verdict, hverdictName(hc.Verdict), h2.Verdict, hverdictName(h2.Verdict))
				fmt.Println("ORACLE VIOLATION:", whatHistory)
				os.Exit(1)
			}
		}
		fmt.Printf("verdict=%d (%s) %s\n", hc.Verdict, hverdictName(hc.Verdict), hc.Err)
		ws := oracleH(&hc, hb)
		if bw != "" {
			ws = append(ws, whatBatch+": "+bw)
		}
		if len(ws) > 0 {
			fmt.Println("ORACLE VIOLATION:", strings.Join(ws, ", "))
			os.Exit(1)
		}
		fmt.Println("oracle: property holds on this input")
		return
	}
	if json.Unmarshal(b, &w) == nil && w.Case != nil {
		c = *w.Case
	} else if err := json.Unmarshal(b, &c); err != nil {
		fmt.Println(err)
		os.Exit(2)
	}
	for i := range c.Before {
		p := c.Before[i]
		observe(&p)
		fmt.Printf("earlier header %d: verdict=%d (%s)\n", i+1, p.Verdict, verdictNames[p.Verdict])
	}
	bl := observe(&c)
	if len(c.Before) > 0 {
		c2 := c
		aged := server
		server, _ = ucon.NewVRFServer(nil)
		observe(&c2)
		server = aged
		if c2.Verdict != c.Verdict {
			fmt.Printf("verdict=%d (%s); a fresh verifier gives %d (%s)\n", c.Verdict, verdictNames[c.Verdict], c2.Verdict, verdictNames[c2.Verdict])
			fmt.Println("ORACLE VIOLATION:", whatHistory)
			os.Exit(1)
		}
	}
	fmt.Printf("verdict=%d (%s) %s\n", c.Verdict, verdictNames[c.Verdict], c.Err)
	fmt.Printf("header hash %s\n", hex.EncodeToString(bl.hash[:]))
	ws := oracle(&c, bl)
	if len(ws) > 0 {
		fmt.Println("ORACLE VIOLATION:", strings.Join(ws, ", "))
		os.Exit(1)
	}
	fmt.Println("oracle: property holds on this input")
}

// runTables writes coq/gen/C01Tables.v: the consensus thresholds of every
// protocol version of the three nets together with the quorum the real
// OverThreshold computes for them.
func runTables(out string) {
	var sb strings.Builder
	sb.WriteString("(* GENERATED by harness/cmd/c01 from params.Versions and ucon.OverThreshold of the working tree. Do not edit. *)\nFrom VF.C01 Require Import Model.\nLocal Open Scope N_scope.\n")
	sb.WriteString("(* (version, CaravelParams, quorum of ValidatorThreshold for precommits, quorum of CertValThreshold for certificates) *)\n")
	nets := []struct {
		name string
		id   uint64
	}{{"mainnet", params.MainNetId}, {"testnet", params.TestNetId}, {"testcase", params.NetworkIdForTestCase}}
	var names []string
	for _, nt := range nets {
		params.InitNetworkId(nt.id)
		var vs []int
		for v := range params.Versions {
			vs = append(vs, int(v))
		}
		sort.Ints(vs)
		var rows []string
		for _, v := range vs {
			yp := params.Versions[params.YouVersion(v)]
			rows = append(rows, fmt.Sprintf("(%d, mkCP %d %d %d %s, %d, %d)", v, yp.ProposerThreshold, yp.ValidatorThreshold, yp.CertValThreshold,
				vf.Bool(yp.EnableBls), quorumOf(yp.ValidatorThreshold, true), quorumOf(yp.CertValThreshold, false)))
		}
		sb.WriteString(fmt.Sprintf("Definition versions_%s : list (N * cparams * N * N) := %s.\n", nt.name, vf.List(rows)))
		names = append(names, "versions_"+nt.name)
	}
	sb.WriteString("Definition all_versions : list (N * cparams * N * N) := " + strings.Join(names, " ++ ") + ".\n")
	// look-back distances of every version (which height each kind of look-back reads)
	var lbs []string
	for _, nt := range nets {
		params.InitNetworkId(nt.id)
		var vs []int
		for v := range params.Versions {
			vs = append(vs, int(v))
		}
		sort.Ints(vs)
		for _, v := range vs {
			yp := params.Versions[params.YouVersion(v)]
			lbs = append(lbs, fmt.Sprintf("(%d, %d, %d)", v, yp.StakeLookBack, yp.SeedLookBack))
		}
	}
	sb.WriteString("(* (version, StakeLookBack, SeedLookBack) of every version of the three nets *)\n")
	sb.WriteString("Definition go_lookbacks : list (N * N * N) := " + vf.List(lbs) + ".\n")
	sb.WriteString(fmt.Sprintf("Definition go_protocol_round_back : N := %d.\n", core.VerifC01ProtocolRoundBack()))
	cs := ucon.VerifC01CacheSizes(nil)
	sb.WriteString("(* capacities of the LRU caches on the vote verification path: BlsVerifier.blsPubKeyCache, blsSigCache, vrfPkCache *)\n")
	sb.WriteString(fmt.Sprintf("Definition go_cache_sizes : list N := [%d; %d; %d].\n", cs[0], cs[1], cs[2]))
	sb.WriteString(fmt.Sprintf("Definition go_cht_frequency : N := %d.\n", params.ACoCHTFrequency))
	sb.WriteString(fmt.Sprintf("Definition go_steps : N * N * N := (%d, %d, %d).\n", ucon.UConStepProposal, uint32(ucon.Precommit), uint32(ucon.Certificate)))
	vf.WriteIfChanged(out, sb.String())
}

func main() {
	mode := ""
	if len(os.Args) > 1 {
		mode = os.Args[1]
		os.Args = append(os.Args[:1], os.Args[2:]...)
	}
	seed := flag.Uint64("seed", 1, "")
	n := flag.Int("n", 300, "")
	out := flag.String("out", ".", "")
	corpus := flag.String("corpus", "/verif/corpus/C01", "")
	file := flag.String("file", "", "")
	variant := flag.String("variant", "asis", "model variant the cases are compared with: asis | fixed")
	flag.Parse()
	logging.Root().SetHandler(logging.DiscardHandler()) // silence the verifier's error logging (hundreds of rejected headers)
	params.InitNetworkId(params.NetworkIdForTestCase)
	initKeys()
	outsiderKey, _ = crypto.ToECDSA(crypto.Keccak256([]byte("verif-c01-outsider")))
	var err error
	server, err = ucon.NewVRFServer(nil)
	if err != nil {
		panic(err)
	}
	switch mode {
	case "gen":
		runGen(*seed, *n, *out, *corpus, *variant)
	case "replay":
		runReplay(*file)
	case "tables":
		runTables(*out)
	default:
		fmt.Println("usage: c01 gen|replay|tables")
		os.Exit(2)
	}
}
