// Header-path cases: the ordinary entry points VerifyHeader / verifyHeader (with a
// batch prefix) / VerifyHeaders and the certificate-only VerifyAcHeader, driven
// over a real core.HeaderChain on a memory database (so that
// VersionForRoundWithParents, GetHeader, GetHeaderByNumber are the real code) with
// stub validator readers.  What is exercised here is the SELECTION: which
// header's protocol version, which seed header, which validator set.
package main

import (
	"errors"
	"fmt"
	"math/big"
	"runtime/debug"
	"sort"
	"strings"
	"time"

	"github.com/youchainhq/go-youchain/common"
	"github.com/youchainhq/go-youchain/consensus"
	"github.com/youchainhq/go-youchain/consensus/ucon"
	"github.com/youchainhq/go-youchain/core"
	"github.com/youchainhq/go-youchain/core/rawdb"
	"github.com/youchainhq/go-youchain/core/state"
	"github.com/youchainhq/go-youchain/core/types"
	"github.com/youchainhq/go-youchain/crypto"
	"github.com/youchainhq/go-youchain/params"
	"github.com/youchainhq/go-youchain/rlp"
	"github.com/youchainhq/go-youchain/youdb"
	"verif/harness/vf"
)

const modelNow = 1000000000 // the model's "now"; header times are printed relative to it

var roundBack = core.VerifC01ProtocolRoundBack() // core.protocolRoundBack

var now0 = time.Now().Unix()
var acMode bool

type ChainHdr struct {
	Num     uint64 `json:"num"`
	Version uint64 `json:"version"`
	ConsNil bool   `json:"cons_nil,omitempty"`
	Seed    int    `json:"seed"`
	CVT     uint64 `json:"cvt"`
	VR      int    `json:"vr"`       // ValRoot identifier
	TimeOff int64  `json:"time_off"` // Time = now + TimeOff
	Where   int    `json:"where"`    // 0 canonical, 1 batch prefix (parents / trusted list) only, 2 stored but not canonical, 3 canonical and batch
	Tag     int    `json:"tag,omitempty"`
}
type YVerS struct {
	V       uint64 `json:"v"`
	CP      CPS    `json:"cp"`
	StakeLB uint64 `json:"stake_lb"`
	SeedLB  uint64 `json:"seed_lb"`
	Future  uint64 `json:"future"` // AllowedFutureBlockTime, seconds
}
type ReaderS struct {
	VR int `json:"vr"`
	LB LBS `json:"lb"`
}
type HCase struct {
	Comment   string     `json:"comment,omitempty"`
	Kind      string     `json:"kind"` // "header" | "ac"
	C         Case       `json:"c"`    // the header under verification (C.H) and what it was built for
	YVers     []YVerS    `json:"yvers"`
	Chain     []ChainHdr `json:"chain"`
	Readers   []ReaderS  `json:"readers"`
	Seal      bool       `json:"seal"`
	TimeOff   int64      `json:"time_off"`
	MixBad    bool       `json:"mix_bad,omitempty"`
	Cht       bool       `json:"cht,omitempty"`
	Before    []HCase    `json:"before,omitempty"`     // what the same Server verified earlier (replay runs them first)
	SelfCanon int        `json:"self_canon,omitempty"` // the chain already holds, as canonical at this height, a header with the SAME hash (stored by an earlier seal=false pass): 1 the header itself, 2 its variant without vote container and certificate
	ParentRef int        `json:"parent_ref"`           // index into Chain of the header whose hash is ParentHash; -1 = some other hash
	Verdict   int        `json:"verdict"`
	Err       string     `json:"err,omitempty"`
	Batch     []int      `json:"batch_verdicts,omitempty"` // VerifyHeaders results for the prefix + header
}

func vrHash(id int) common.Hash {
	return crypto.Keccak256Hash([]byte(fmt.Sprintf("verif-c01-valroot-%d", id)))
}

func (e ChainHdr) header() *types.Header {
	h := lbHeader(LBH{ConsNil: e.ConsNil, Seed: e.Seed, CVT: e.CVT, Version: e.Version}, e.Num)
	h.ValRoot = vrHash(e.VR)
	h.Time = uint64(now0 + e.TimeOff)
	h.Extra = []byte{byte(e.Tag)}
	return h
}

type chainStub struct {
	*core.HeaderChain
	readers map[common.Hash]state.ValidatorReader
}

func (c *chainStub) GetVldReader(root common.Hash) (state.ValidatorReader, error) {
	if r, ok := c.readers[root]; ok {
		return r, nil
	}
	return nil, errors.New("verif: no validator reader for this root")
}
func (c *chainStub) GetAcReader() rawdb.AcReader                 { return nil }
func (c *chainStub) UpdateExistedHeader(header *types.Header)    {}
func (c *chainStub) GetBlock(common.Hash, uint64) *types.Block   { return nil }
func (c *chainStub) GetBlockByNumber(number uint64) *types.Block { return nil }

var _ consensus.ChainReader = (*chainStub)(nil)

func installYVersions(hc *HCase) {
	m := make(params.VersionsMap)
	for _, v := range hc.YVers {
		yp := params.YouParams{Version: params.YouVersion(v.V)}
		yp.ProposerThreshold, yp.ValidatorThreshold, yp.CertValThreshold = v.CP.PT, v.CP.VT, v.CP.CVT
		yp.EnableBls = true
		yp.StakeLookBack, yp.SeedLookBack = v.StakeLB, v.SeedLB
		yp.AllowedFutureBlockTime = time.Duration(v.Future) * time.Second
		m[yp.Version] = yp
	}
	params.Versions = m
}

func classifyH(err error) (int, string) {
	if err == nil {
		return 0, ""
	}
	m := err.Error()
	switch {
	case strings.HasPrefix(m, "YOUChain version of") && strings.Contains(m, "headerNumber") && acMode:
		return 35, m
	case strings.HasPrefix(m, "can't find header for number"):
		return 15, m
	case strings.HasPrefix(m, "protocol version"):
		return 16, m
	case err == consensus.ErrFutureBlock:
		return 17, m
	case m == "invalid mix digest":
		return 18, m
	case err == consensus.ErrOlderBlockTime:
		return 19, m
	case err == consensus.ErrExistCanonical:
		return 20, m
	case err == consensus.ErrUnknownLookBackValidators:
		return 21, m
	case m == "verif: no validator reader for this root":
		return 22, m
	case m == "no chtRoot in the header":
		return 30, m
	case strings.HasSuffix(m, "is not a acHeader"):
		return 31, m
	case strings.HasPrefix(m, "rlp:"):
		return 32, m
	case strings.HasPrefix(m, "can't extract sonsensus data from current header"):
		return 33, m
	case m == "can not find look-back header":
		return 34, m
	case strings.HasPrefix(m, "can't extract sonsensus data from seed header"):
		return 36, m
	case strings.HasPrefix(m, "can not get the look back validators reader"):
		return 37, m
	case strings.HasPrefix(m, "verify cht certificates failed: "):
		inner := strings.TrimPrefix(m, "verify cht certificates failed: ")
		var ie error = errors.New(inner)
		if inner == "signature mismatch" {
			return 106, m
		}
		c, _ := classify(ie)
		return 100 + c, m
	}
	return classify(err)
}

type hbuilt struct {
	b       *built
	hdrs    []*types.Header // per Chain entry
	parents []*types.Header
	chain   *chainStub
}

func observeH(hc *HCase) (hb *hbuilt) {
	installYVersions(hc)
	hb = &hbuilt{}
	for _, e := range hc.Chain {
		hb.hdrs = append(hb.hdrs, e.header())
	}
	ext := &hdrExt{parentHash: otherHash, time: uint64(now0 + hc.TimeOff), mixBad: hc.MixBad, cht: hc.Cht}
	if hc.ParentRef >= 0 && hc.ParentRef < len(hb.hdrs) {
		ext.parentHash = hb.hdrs[hc.ParentRef].Hash()
	}
	hc.C.ext = ext
	hc.C.Variant = "fixed"
	hb.b = build(&hc.C)
	db := youdb.NewMemDatabase()
	haveGenesis := false
	for i, e := range hc.Chain {
		h := hb.hdrs[i]
		if e.Where == 0 || e.Where == 3 || e.Where == 2 {
			rawdb.WriteHeader(db, h)
		}
		if e.Where == 0 || e.Where == 3 {
			rawdb.WriteCanonicalHash(db, h.Hash(), e.Num)
			if e.Num == 0 {
				haveGenesis = true
			}
		}
		if e.Where == 1 || e.Where == 3 {
			hb.parents = append(hb.parents, h)
		}
	}
	if !haveGenesis {
		panic("header-path case without a canonical header 0")
	}
	if hc.SelfCanon > 0 {
		st := types.CopyHeader(hb.b.header)
		if hc.SelfCanon == 2 {
			st.Validator, st.Certificate = []byte{}, []byte{}
		}
		if st.Hash() != hb.b.header.Hash() {
			panic("vote containers are part of the header hash")
		}
		rawdb.WriteHeader(db, st)
		rawdb.WriteCanonicalHash(db, st.Hash(), hc.C.H.Number)
	}
	hch, err := core.NewHeaderChain(db, nil, nil, nil)
	if err != nil {
		panic(err)
	}
	hb.chain = &chainStub{HeaderChain: hch, readers: map[common.Hash]state.ValidatorReader{}}
	for _, r := range hc.Readers {
		switch r.VR {
		case 0:
			hb.chain.readers[vrHash(0)] = hb.b.lb
		case 1:
			hb.chain.readers[vrHash(1)] = hb.b.certlb
		default:
			lb := r.LB
			stub, _ := buildLB(&lb)
			hb.chain.readers[vrHash(r.VR)] = stub
		}
	}
	defer func() {
		if r := recover(); r != nil {
			hc.Verdict = 11
			hc.Err = fmt.Sprintf("panic: %v\n%s", r, debug.Stack())
		}
	}()
	acMode = hc.Kind == "ac"
	switch {
	case hc.Kind == "ac":
		err = server.VerifyAcHeader(hb.chain, hb.b.header, hb.parents)
	case len(hb.parents) == 0:
		err = server.VerifyHeader(hb.chain, hb.b.header, hc.Seal)
	default:
		err = ucon.VerifC01VerifyHeader(server, hb.chain, hb.b.header, hb.parents, hc.Seal)
	}
	hc.Verdict, hc.Err = classifyH(err)
	return hb
}

// batchCheck: VerifyHeaders on prefix+header must give, element by element,
// what the sequential verifyHeader gives.
func batchCheck(hc *HCase, hb *hbuilt) string {
	if hc.Kind == "ac" || len(hb.parents) == 0 {
		return ""
	}
	all := append(append([]*types.Header{}, hb.parents...), hb.b.header)
	seals := make([]bool, len(all))
	seals[len(all)-1] = hc.Seal
	seq := make([]int, len(all))
	for i := range all {
		func() {
			defer func() {
				if r := recover(); r != nil {
					seq[i] = 11
				}
			}()
			seq[i], _ = classifyH(ucon.VerifC01VerifyHeader(server, hb.chain, all[i], all[:i], seals[i]))
		}()
		if seq[i] == 11 {
			return "" // the wrapper's goroutine would take the process down; nothing to compare
		}
	}
	abort, results := server.VerifyHeaders(hb.chain, all, seals)
	defer close(abort)
	hc.Batch = nil
	for i := range all {
		select {
		case err := <-results:
			v, _ := classifyH(err)
			hc.Batch = append(hc.Batch, v)
			if v != seq[i] {
				return fmt.Sprintf("VerifyHeaders result %d is %d, sequential verifyHeader gives %d", i, v, seq[i])
			}
		case <-time.After(20 * time.Second):
			return fmt.Sprintf("VerifyHeaders delivered only %d of %d results", i, len(all))
		}
	}
	if seq[len(all)-1] != hc.Verdict {
		return "last batch element differs from the direct call"
	}
	return ""
}

// ---- projection for the model ---------------------------------------------------

func (hc *HCase) coq(hb *hbuilt) string {
	ids := map[common.Hash]int{}
	for i, h := range hb.hdrs {
		if _, ok := ids[h.Hash()]; !ok {
			ids[h.Hash()] = 100 + i
		}
	}
	ext := &coqExt{parentID: 1}
	if hc.ParentRef >= 0 && hc.ParentRef < len(hb.hdrs) {
		ext.parentID = ids[hb.hdrs[hc.ParentRef].Hash()]
	}
	for _, v := range hc.YVers {
		ext.thrs = append(ext.thrs, v.CP.PT, v.CP.VT, v.CP.CVT)
	}
	for _, r := range hc.Readers {
		if r.VR >= 2 {
			lb := r.LB
			buildLB(&lb)
			ext.lbs = append(ext.lbs, lb)
		}
	}
	caseCoqExt(&hc.C, hb.b, ext)
	xh := func(i int) string {
		e := hc.Chain[i]
		cons := "None"
		if !e.ConsNil {
			cons = fmt.Sprintf("(Some (mkCD %d 1 %d 0 0 0 None 0 0 %d))", e.Num, e.Seed, e.CVT)
		}
		return fmt.Sprintf("mkXH (mkH %d %d 9 %d %s None None 0) %d true %d false", e.Num, ids[hb.hdrs[i].Hash()], e.Version, cons,
			modelNow+e.TimeOff, 500+e.VR)
	}
	var canon, side, parents, readers, yts []string
	for i, e := range hc.Chain {
		if e.Where == 0 || e.Where == 3 {
			canon = append(canon, xh(i))
		}
		if e.Where == 2 {
			side = append(side, xh(i))
		}
		if e.Where == 1 || e.Where == 3 {
			parents = append(parents, xh(i))
		}
	}
	if hc.SelfCanon > 0 {
		canon = append(canon, fmt.Sprintf("mkXH (mkH %d 0 %d 1 None None None 0) %d true 600 false", hc.C.H.Number, ext.parentID, modelNow+hc.TimeOff))
	}
	for _, r := range hc.Readers {
		var l string
		switch r.VR {
		case 0:
			l = lbCoq(hc.C.LB, hb.b.total)
		case 1:
			l = lbCoq(hc.C.CertLB, hb.b.certTotal)
		default:
			lb := r.LB
			_, tot := buildLB(&lb)
			l = lbCoq(lb, tot)
		}
		readers = append(readers, fmt.Sprintf("(%d, %s)", 500+r.VR, l))
	}
	for _, v := range hc.YVers {
		yts = append(yts, fmt.Sprintf("(%d, mkYP (mkCP %d %d %d true) %d %d %d)", v.V, v.CP.PT, v.CP.VT, v.CP.CVT, v.StakeLB, v.SeedLB, v.Future))
	}
	hdr := fmt.Sprintf("(mkXH %s %d %s 600 %s)", ext.hdr, modelNow+hc.TimeOff, vf.Bool(!hc.MixBad), vf.Bool(hc.Cht))
	return fmt.Sprintf("THdr (mkHCase fixed\n %s\n %d %s\n (mkChain %s\n %s\n %s)\n %s\n %s %s %s %d)",
		ext.tables, modelNow, vf.List(yts), vf.List(canon), vf.List(side), vf.List(readers), vf.List(parents),
		hdr, vf.Bool(hc.Seal), vf.Bool(hc.Kind == "ac"), hc.Verdict)
}

// ---- oracle -----------------------------------------------------------------------

func lbnum(n, cfg uint64) uint64 {
	if n > cfg {
		return n - cfg
	}
	return 0
}

func (hc *HCase) yver(v uint64) (YVerS, bool) {
	for _, y := range hc.YVers {
		if y.V == v {
			return y, true
		}
	}
	return YVerS{}, false
}

func (hc *HCase) reader(vr int) (LBS, bool) {
	for _, r := range hc.Readers {
		if r.VR == vr {
			switch vr {
			case 0:
				return hc.C.LB, true
			case 1:
				return hc.C.CertLB, true
			}
			lb := r.LB
			buildLB(&lb)
			return lb, true
		}
	}
	return LBS{}, false
}

// wellFormed: the situation the specification speaks about - one header per
// number among the canonical ones, the batch prefix consecutive and ending
// right below the header, no number present both in the batch and (differently)
// on the canonical chain.
func (hc *HCase) wellFormed() bool {
	n := hc.C.H.Number
	canon := map[uint64]int{}
	var batch []ChainHdr
	for i, e := range hc.Chain {
		if e.Where == 0 || e.Where == 3 {
			if _, dup := canon[e.Num]; dup {
				return false
			}
			canon[e.Num] = i
		}
		if e.Where == 1 || e.Where == 3 {
			batch = append(batch, e)
		}
	}
	if hc.Kind == "ac" {
		seen := map[uint64]bool{}
		for _, e := range batch {
			if seen[e.Num] {
				return false
			}
			seen[e.Num] = true
		}
		return true
	}
	for i, e := range batch {
		if e.Num != n-uint64(len(batch))+uint64(i) {
			return false
		}
	}
	for _, e := range hc.Chain {
		if e.Where == 1 {
			if _, both := canon[e.Num]; both {
				return false
			}
		}
	}
	return true
}

// pick: the header numbered num - from the batch prefix when it lies in it, else canonical
func (hc *HCase) pick(num uint64) (ChainHdr, bool) {
	for _, e := range hc.Chain {
		if (e.Where == 1 || e.Where == 3) && e.Num == num {
			return e, true
		}
	}
	for _, e := range hc.Chain {
		if (e.Where == 0 || e.Where == 3) && e.Num == num {
			return e, true
		}
	}
	return ChainHdr{}, false
}

const (
	whatSelection = "C01-accepted-against-the-look-back-selection"
	whatFrame     = "C01-accepted-with-a-broken-header-frame"
	whatBatch     = "C01-batch-wrapper-differs-from-sequential-verification"
)

// oracleH: what an accepted well-formed header-path case must satisfy
func oracleH(hc *HCase, hb *hbuilt) []string {
	ws := oracleHAccept(hc, hb)
	if anyCredentialDiffers(&hc.C) {
		ws = append([]string{whatVrfDiffers}, ws...)
	}
	return ws
}

func oracleHAccept(hc *HCase, hb *hbuilt) []string {
	if hc.Verdict == 11 {
		return nil // a crash is an outcome of its own, not an acceptance
	}
	if hc.Verdict != 0 || !hc.wellFormed() {
		return nil
	}
	n := hc.C.H.Number
	c := hc.C // copy; look-back objects are re-derived from the chain description below
	b := *hb.b
	if hc.Kind == "ac" {
		if !hc.Cht || n%params.ACoCHTFrequency != 0 || c.H.Cert.Bad || c.H.Cons.Nil {
			return []string{whatFrame}
		}
		seedE, ok1 := hc.pickAC(lbnum(n, params.ACoCHTFrequency))
		stakeE, ok2 := hc.pickAC(lbnum(n, 2*params.ACoCHTFrequency))
		if !ok1 || !ok2 || seedE.ConsNil {
			return []string{whatSelection}
		}
		yp, ok := hc.yver(seedE.Version)
		lb, okr := hc.reader(stakeE.VR)
		if !ok || !okr {
			return []string{whatSelection}
		}
		w := goodWeight(&c, lb, chamberTotal(lb), seedE.Seed, stepCertificate, c.H.Cert.RoundIndex, yp.CP.CVT, c.H.Cert.Votes, c.H.Cert.Agg, c.H.Cons.Round, relax{})
		if w < specQuorum(yp.CP.CVT, false) {
			return []string{whatSelection}
		}
		return nil
	}
	// frame
	if hc.MixBad || c.H.Cons.Nil || c.H.Cons.Signer == -1 {
		return []string{whatFrame}
	}
	if c.H.Seal != nil && (c.H.Seal.Kind != 0 || c.H.Seal.Key != c.H.Cons.Signer) {
		return []string{whatSeal}
	}
	if n == 0 {
		return nil
	}
	verE, ok := hc.pick(lbnum(n, roundBack))
	if !ok {
		return []string{whatSelection}
	}
	yp, ok := hc.yver(verE.Version)
	if !ok {
		return []string{whatSelection}
	}
	if hc.TimeOff > int64(yp.Future)+600 {
		return []string{whatFrame}
	}
	if hc.ParentRef < 0 || hc.Chain[hc.ParentRef].Num != n-1 || hc.TimeOff <= hc.Chain[hc.ParentRef].TimeOff {
		return []string{whatFrame}
	}
	if pe, ok := hc.pick(n - 1); !ok || pe != hc.Chain[hc.ParentRef] {
		if hc.Chain[hc.ParentRef].Where != 2 || len(hb.parents) > 0 {
			return []string{whatFrame}
		}
	}
	for _, e := range hc.Chain {
		if (e.Where == 0 || e.Where == 3) && e.Num == n {
			return []string{whatFrame} // a different canonical header at this height
		}
	}
	if !hc.Seal {
		return nil
	}
	seedE, ok1 := hc.pick(lbnum(n, yp.SeedLB))
	stakeE, ok2 := hc.pick(lbnum(n, yp.StakeLB))
	if !ok1 || !ok2 {
		return []string{whatSelection}
	}
	lb, okr := hc.reader(stakeE.VR)
	if !okr {
		return []string{whatSelection}
	}
	c.CP = yp.CP
	c.Vers = nil
	for _, y := range hc.YVers {
		c.Vers = append(c.Vers, VerS{y.V, y.CP})
	}
	c.SeedH = LBH{ConsNil: seedE.ConsNil, Seed: seedE.Seed, CVT: seedE.CVT, Version: seedE.Version}
	c.LB = lb
	b.total = chamberTotal(lb)
	if n%params.ACoCHTFrequency == 0 {
		certE, ok3 := hc.pick(lbnum(n, params.ACoCHTFrequency))
		cstakeE, ok4 := hc.pick(lbnum(n, 2*params.ACoCHTFrequency))
		if !ok3 || !ok4 {
			return []string{whatSelection}
		}
		clb, okc := hc.reader(cstakeE.VR)
		if !okc {
			return []string{whatSelection}
		}
		c.CertH = LBH{ConsNil: certE.ConsNil, Seed: certE.Seed, CVT: certE.CVT, Version: certE.Version}
		c.CertLB = clb
		b.certTotal = chamberTotal(clb)
	}
	if !propertyHolds(&c, &b, relax{}) {
		return []string{whatSelection}
	}
	return nil
}

// pickAC: VerifyAcHeader's look-back - canonical chain, else the trusted list
func (hc *HCase) pickAC(num uint64) (ChainHdr, bool) {
	for _, e := range hc.Chain {
		if (e.Where == 0 || e.Where == 3) && e.Num == num {
			return e, true
		}
	}
	for _, e := range hc.Chain {
		if e.Where == 1 && e.Num == num {
			return e, true
		}
	}
	return ChainHdr{}, false
}

// ---- generator ----------------------------------------------------------------------

func (g *gen) hcase(res *vf.Result) HCase {
	r := g.r
	ac := r.Chance(14) && !g.hplain
	if g.hplain {
		g.plain, g.plainAll = true, true
	}
	g.forceCert = ac
	c := g.one(res)
	if g.hplain {
		g.plain, g.plainAll = false, false
	}
	g.forceCert = false
	hc := HCase{Kind: "header", C: c, Seal: g.hplain || !r.Chance(12)}
	if ac {
		hc.Kind, hc.Cht = "ac", true
	}
	n := c.H.Number
	certRound := n%params.ACoCHTFrequency == 0
	// versions: those of the case (1 is the one the header was built for) + look-backs, + a decoy version
	for _, v := range c.Vers {
		y := YVerS{V: v.V, CP: v.CP, StakeLB: uint64(3 + r.Intn(18)), SeedLB: r.Pick([]uint64{2, 3, 5, 8, 8, 9, 12}), Future: 30}
		if r.Chance(75) { // as in the real parameters: the stake look-back is the longer one
			y.StakeLB = y.SeedLB + uint64(1+r.Intn(14))
		}
		hc.YVers = append(hc.YVers, y)
	}
	hc.YVers = append(hc.YVers, YVerS{V: 9, CP: CPS{c.CP.PT + 1, c.CP.VT + uint64(2+r.Intn(9)), c.CP.CVT + 3}, StakeLB: uint64(3 + r.Intn(18)), SeedLB: r.Pick([]uint64{2, 4, 8, 11}), Future: 30})
	exp := hc.YVers[0]
	ents := map[uint64]*ChainHdr{}
	decoyVR := 2
	ensure := func(num uint64) *ChainHdr {
		if e, ok := ents[num]; ok {
			return e
		}
		e := &ChainHdr{Num: num, Version: hc.YVers[1+r.Intn(len(hc.YVers)-1)].V, Seed: 4 + r.Intn(5), CVT: uint64(r.Intn(50)), VR: decoyVR, TimeOff: -300000 + int64(num)}
		if r.Chance(35) {
			e.Version = exp.V
		}
		if r.Chance(10) {
			e.VR = 7 // no reader registered
		}
		ents[num] = e
		return e
	}
	roles := []uint64{}
	role := func(num uint64) *ChainHdr { roles = append(roles, num); return ensure(num) }
	role(0)
	if !ac {
		role(lbnum(n, roundBack)).Version = exp.V
		e := role(lbnum(n, exp.SeedLB))
		e.Seed, e.ConsNil = c.SeedH.Seed, c.SeedH.ConsNil
		role(lbnum(n, exp.StakeLB)).VR = 0
		role(n - 1)
	}
	if certRound {
		e := role(lbnum(n, params.ACoCHTFrequency))
		e.Seed, e.ConsNil, e.CVT, e.Version = c.CertH.Seed, c.CertH.ConsNil, c.CertH.CVT, c.CertH.Version
		if !ac && lbnum(n, params.ACoCHTFrequency) == lbnum(n, roundBack) {
			e.Version = exp.V
		}
		role(lbnum(n, 2*params.ACoCHTFrequency)).VR = 1
	}
	for _, num := range append([]uint64{}, roles...) { // decoys right beside every look-back
		if num > 0 && num-1 < n {
			ensure(num - 1)
		}
		if num+1 < n {
			ensure(num + 1)
		}
	}
	// batch prefix / trusted list
	if ac {
		if r.Chance(40) {
			for _, num := range roles {
				if num != 0 && r.Bool() {
					ents[num].Where = 1
				}
			}
		}
	} else if r.Chance(40) {
		k := uint64(1 + r.Intn(14))
		if k > n-1 {
			k = n - 1
		}
		both := r.Chance(20)
		for num := n - k; num < n; num++ {
			e := ensure(num)
			if num == 0 {
				continue
			}
			e.Where = 1
			if both {
				e.Where = 3
			}
		}
	}
	hc.TimeOff = -300000 + int64(n)
	hc.Readers = []ReaderS{{VR: 0}, {VR: 1}, {VR: decoyVR, LB: g.lookback(nKeys, false)}}
	// forgeries of the selection / frame
	tag := "none"
	if !g.hplain && r.Chance(50) {
		k := r.Intn(16)
		if ac {
			k = int(r.Pick([]uint64{3, 4, 5, 9, 12, 13, 14, 15}))
		}
		switch k {
		case 0: // the version in force differs from the one the header was built for
			ents[lbnum(n, roundBack)].Version = hc.YVers[1+r.Intn(len(hc.YVers)-1)].V
			tag = "version_in_force_differs"
		case 1: // the right seed sits on a neighbour of the seed look-back header
			e := ents[lbnum(n, exp.SeedLB)]
			if nb, ok := ents[e.Num+1]; ok && e.Num+1 < n {
				nb.Seed, e.Seed = e.Seed, 4+r.Intn(5)
				tag = "seed_on_neighbour_header"
			}
		case 2: // the right validator set is the one of a neighbour of the stake look-back header
			e := ents[lbnum(n, exp.StakeLB)]
			if nb, ok := ents[e.Num+1]; ok && e.Num+1 < n {
				nb.VR, e.VR = 0, decoyVR
				tag = "validator_set_of_neighbour_header"
			}
		case 3: // a look-back header is missing
			cand := roles[1:]
			if len(cand) > 0 {
				num := cand[r.Intn(len(cand))]
				if num != 0 {
					delete(ents, num)
					tag = "look_back_header_missing"
				}
			}
		case 4: // no reader for a look-back validator root
			if r.Bool() || !certRound {
				hc.Readers = hc.Readers[1:]
			} else {
				hc.Readers = append(hc.Readers[:1], hc.Readers[2:]...)
			}
			tag = "reader_missing"
		case 5:
			if ac {
				hc.Cht = false
				tag = "ac_without_cht_root"
			} else {
				hc.TimeOff = 1000000
				tag = "time_in_the_future"
			}
		case 6:
			if e, ok := ents[n-1]; ok {
				hc.TimeOff = e.TimeOff - int64(r.Intn(2))
				tag = "time_not_after_parent"
			}
		case 7:
			hc.MixBad = true
			tag = "mix_digest_wrong"
		case 8: // another canonical header at this height
			ents[n] = &ChainHdr{Num: n, Version: exp.V, Seed: 5, VR: decoyVR, TimeOff: hc.TimeOff, Tag: 1}
			tag = "other_canonical_header_at_height"
		case 9: // the version recorded on the look-back header is unknown
			if ac {
				ents[lbnum(n, params.ACoCHTFrequency)].Version = 77
			} else {
				ents[lbnum(n, roundBack)].Version = 77
			}
			tag = "version_unknown"
		case 10: // parent reference broken
			hc.ParentRef = -2
			tag = "parent_hash_of_another_header"
		case 11: // the batch prefix lies: one header in the middle is missing
			var nums []uint64
			for num, e := range ents {
				if e.Where == 1 || e.Where == 3 {
					nums = append(nums, num)
				}
			}
			sort.Slice(nums, func(i, j int) bool { return nums[i] < nums[j] })
			if len(nums) > 2 {
				delete(ents, nums[r.Intn(len(nums)-1)])
				tag = "batch_prefix_with_a_gap"
			}
		case 12: // two different headers with the same number: canonical and batch/trusted
			cand := roles[1:]
			if len(cand) > 0 {
				num := cand[r.Intn(len(cand))]
				if e, ok := ents[num]; ok && e.Where == 0 && num != 0 {
					cp := *e
					cp.Where, cp.Tag = 1, 2
					cp.Version, cp.Seed, cp.VR = hc.YVers[len(hc.YVers)-1].V, 4+r.Intn(5), decoyVR
					ents[num+1<<40] = &cp // keyed apart; sorted into place below by Num
					tag = "same_number_on_chain_and_in_batch"
				}
			}
		case 13:
			if ac {
				hc.C.H.Number++ // not a multiple of the CHT frequency (certificates were made for the old number's hash; irrelevant)
				tag = "ac_number_not_multiple"
			}
		case 14: // seed look-back header without consensus data
			if ac || certRound {
				ents[lbnum(n, params.ACoCHTFrequency)].ConsNil = true
			} else {
				ents[lbnum(n, exp.SeedLB)].ConsNil = true
			}
			tag = "look_back_header_without_consensus"
		case 15: // parent stored but not canonical (side chain parent; allowed without a batch)
			if e, ok := ents[n-1]; ok && e.Where == 0 {
				e.Where = 2
				tag = "parent_on_side_chain"
			}
		}
	}
	// the validator set changes along the chain.  VR 0 / 1 are the sets the header's votes were
	// made by; "older" is what the set looked like before a member joined, came online or raised
	// its stake, "newer" what it looks like afterwards.
	if !ac && !g.hplain {
		seedN, stakeN := lbnum(n, exp.SeedLB), lbnum(n, exp.StakeLB)
		es, ek := ents[seedN], ents[stakeN]
		if es != nil && ek != nil && seedN != stakeN && ek.VR == 0 {
			switch r.Intn(5) {
			case 0, 1: // (a) voted by the right set; the set at the seed look-back height is already a newer one
				es.VR = 5
				hc.Readers = append(hc.Readers, ReaderS{VR: 5, LB: g.newerSet(c.LB)})
				res.Count("hforge:set_changed_after_stake_look_back")
			case 2: // (b) voted by the set found at the SEED look-back height; the stake look-back height holds the older set
				es.VR, ek.VR = 0, 3
				hc.Readers = append(hc.Readers, ReaderS{VR: 3, LB: g.olderSet(c.LB, c.H.Val.Votes)})
				res.Count("hforge:voted_by_the_set_at_the_seed_look_back")
			}
		}
		if certRound {
			cs, ck := ents[lbnum(n, params.ACoCHTFrequency)], ents[lbnum(n, 2*params.ACoCHTFrequency)]
			if cs != nil && ck != nil && cs != ck && ck.VR == 1 && cs.VR != 0 && cs.VR != 3 {
				switch r.Intn(5) {
				case 0, 1:
					cs.VR = 6
					hc.Readers = append(hc.Readers, ReaderS{VR: 6, LB: g.newerSet(c.CertLB)})
					res.Count("hforge:certificate_set_changed_after_its_look_back")
				case 2: // certificate votes by the set found one CHT period back instead of two
					cs.VR, ck.VR = 1, 4
					hc.Readers = append(hc.Readers, ReaderS{VR: 4, LB: g.olderSet(c.CertLB, c.H.Cert.Votes)})
					res.Count("hforge:certificates_by_the_set_one_period_back")
				}
			}
		}
	}
	// the same-hash header is already canonical at this height (a header-only pass stored it
	// without looking at its votes); the votes of the one under verification must still count
	if !ac && !g.hplain && r.Chance(18) {
		if _, other := ents[n]; !other && !hc.MixBad {
			hc.SelfCanon = 1 + r.Intn(2)
			res.Count("hforge:same_hash_header_already_canonical")
		}
	}
	res.Count("hforge:" + tag)
	var keys []uint64
	for k := range ents {
		keys = append(keys, k)
	}
	sort.Slice(keys, func(i, j int) bool {
		a, b := ents[keys[i]], ents[keys[j]]
		if a.Num != b.Num {
			return a.Num < b.Num
		}
		return a.Tag < b.Tag
	})
	for _, k := range keys {
		hc.Chain = append(hc.Chain, *ents[k])
	}
	if hc.ParentRef != -2 {
		hc.ParentRef = -1
		for i, e := range hc.Chain {
			if e.Num == n-1 && e.Tag == 0 {
				hc.ParentRef = i
			}
		}
	} else {
		hc.ParentRef = 0
		if r.Bool() {
			hc.ParentRef = -1
		}
	}
	return hc
}

// olderSet: the set before its heaviest voter joined (or came online / raised its stake)
func (g *gen) olderSet(lb LBS, votes []VoteS) LBS {
	r := g.r
	out := LBS{Phantom: lb.Phantom, ZeroTotal: lb.ZeroTotal}
	out.Vals = append(out.Vals, lb.Vals...)
	if len(out.Vals) == 0 {
		return out
	}
	// the member whose vote weighs most in the header
	best, bw := r.Intn(len(out.Vals)), uint32(0)
	for _, v := range votes {
		if int(v.Idx) < len(out.Vals) && v.Votes >= bw {
			best, bw = int(v.Idx), v.Votes
		}
	}
	switch r.Intn(4) {
	case 0: // not yet a validator
		if len(out.Vals) > 1 {
			out.Vals = append(out.Vals[:best:best], out.Vals[best+1:]...)
		} else {
			out.Vals[best].Status = 0
		}
	case 1: // still offline
		out.Vals[best].Status = 0
	case 2: // still a house member
		out.Vals[best].Role = 3
	default: // stake raised later: a fraction of it, and a second member likewise
		out.Vals[best].Stake = out.Vals[best].Stake / uint64(3+r.Intn(6))
		o := r.Intn(len(out.Vals))
		out.Vals[o].Stake = out.Vals[o].Stake/2 + 1
	}
	return out
}

// newerSet: the set after a validator joined, one went offline and stakes moved
func (g *gen) newerSet(lb LBS) LBS {
	r := g.r
	out := LBS{Phantom: lb.Phantom, ZeroTotal: lb.ZeroTotal}
	out.Vals = append(out.Vals, lb.Vals...)
	used := map[int]bool{}
	for _, v := range out.Vals {
		used[v.Key] = true
	}
	for k := 0; k < nKeys; k++ {
		if !used[k] {
			out.Vals = append(out.Vals, ValS{Key: k, Bls: k, Role: 2, Status: 1, Stake: uint64(50 + r.Intn(3000))})
			break
		}
	}
	if len(out.Vals) > 1 {
		i := r.Intn(len(out.Vals) - 1)
		switch r.Intn(3) {
		case 0:
			out.Vals[i].Status = 1 - out.Vals[i].Status&1
		case 1:
			out.Vals[i].Stake = out.Vals[i].Stake*3 + 7
		default:
			out.Vals[i].Stake = out.Vals[i].Stake / 2
		}
	}
	return out
}

var hverdictNames = map[int]string{15: "reject:no_header_for_version", 16: "reject:version_of_look_back_unknown", 17: "reject:future_block",
	18: "reject:mix_digest", 19: "reject:older_than_parent", 20: "reject:exist_canonical", 21: "reject:unknown_look_back_validators",
	22: "reject:certificate_reader_error", 30: "ac:no_cht_root", 31: "ac:not_an_ac_header", 32: "ac:certificate_undecodable",
	33: "ac:consensus_undecodable", 34: "ac:look_back_header_missing", 35: "ac:version_unknown", 36: "ac:seed_header_without_consensus",
	37: "ac:reader_missing"}

func hverdictName(v int) string {
	if s, ok := hverdictNames[v]; ok {
		return s
	}
	if v >= 100 {
		return "ac:votes_" + verdictNames[v-100]
	}
	return verdictNames[v]
}

var _ = big.NewInt
var _ = rlp.EncodeToBytes
