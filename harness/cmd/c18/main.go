// C18 harness: drives the real body-download scheduler (you/downloader.queue)
// of the working tree with scripted multi-peer schedules, writes every
// operation with the implementation's observations as a Coq file for the
// in-Coq comparison with coq/C18/Model.v, and evaluates the property oracle
// (order, exactly once, matching body, nothing lost, completion by one honest
// peer) on the implementation's own observations.
package main

import (
	"encoding/json"
	"flag"
	"fmt"
	"io/ioutil"
	"math/big"
	"os"
	"path/filepath"
	"sort"
	"strings"
	"time"

	"github.com/youchainhq/go-youchain/common"
	"github.com/youchainhq/go-youchain/core/types"
	"github.com/youchainhq/go-youchain/logging"
	"github.com/youchainhq/go-youchain/params"
	dl "github.com/youchainhq/go-youchain/you/downloader"
	"verif/harness/vf"
)

// ---- scenario (self-contained, replayable) ---------------------------------

// HdrSpec describes one header of the universe of a scenario.
// Parent: index of another header (smaller index), -1 = the sync origin's hash,
// <= -2 = some unrelated hash.  Body: transaction ids; the header's TxHash is
// DeriveSha(Body) unless Junk (then no body can ever match).
type HdrSpec struct {
	Num    uint64 `json:"num"`
	Parent int    `json:"parent"`
	Body   []int  `json:"body,omitempty"`
	Junk   bool   `json:"junk,omitempty"`
	Salt   uint64 `json:"salt,omitempty"`
}

type OpSpec struct {
	K      string  `json:"k"` // sched reserve deliver cancel expire revoke results
	Hs     []int   `json:"hs,omitempty"`
	From   uint64  `json:"from,omitempty"`
	Peer   int     `json:"peer,omitempty"`
	Count  int     `json:"count,omitempty"`
	Bodies [][]int `json:"bodies,omitempty"`
	Req    int     `json:"req,omitempty"` // cancel: n-th request handed out by reserve
	Peers  []int   `json:"peers,omitempty"`
}

type Scenario struct {
	CacheLen      int       `json:"cache_len"`
	CacheMem      int       `json:"cache_mem"`
	Start         uint64    `json:"start"`
	Headers       []HdrSpec `json:"headers"`
	Ops           []OpSpec  `json:"ops"`
	FinishAt      int       `json:"finish_at,omitempty"`      // index in Ops where "everything expires, one honest peer answers" starts (0 = no such phase); a replay runs Ops[:FinishAt] and then drives that phase again from the three fields below
	FinishPeer    int       `json:"finish_peer,omitempty"`    // 0 = a fresh peer, k = existing peer k-1
	FinishPartial bool      `json:"finish_partial,omitempty"` // the peer truncates its (truthful) responses
	FinishSeed    uint64    `json:"finish_seed,omitempty"`
	Comment       string    `json:"comment,omitempty"`
}

// ---- runner ----------------------------------------------------------------

type request struct {
	req  *dl.VerifC18Request
	peer int
	hs   []*types.Header // copy of the headers at reservation time
	open bool            // still the pending request of its peer
	old  bool            // handed out in an earlier sync cycle (before the last Reset)
}

type runner struct {
	sc         *Scenario
	q          *dl.VerifC18Queue
	peers      map[int]*dl.VerifC18Peer
	hdrs       []*types.Header
	hdrIdx     map[common.Hash]int
	hashID     map[common.Hash]uint64
	rootID     map[common.Hash]uint64
	txs        map[int]*types.Transaction
	table      map[string]string // coq list of tx ids -> root id
	tableOrd   []string
	reqs       []*request
	cur        map[int]*request // open request per peer
	steps      []string         // coq text of (op, obs, digest)
	dirty      map[int]bool     // peers that answered an open request with anything but a non-empty truthful prefix
	answered   map[int]int      // truthful non-empty answers to open requests, per peer
	finisher   string
	cycleStart uint64 // first block number of the current sync cycle
	foreign    bool   // CancelBodies pushed headers of an earlier cycle into this one: only the order clause is judged
	midAt      int    // number of steps before the finishing phase (-1: none)
	midDump    string
	nops       int

	// oracle state
	scheduled []*types.Header
	released  []*dl.VerifC18Result
	legal     bool
	whyNot    string
	hits      []string
	classes   map[string]int
	lastDump  dl.VerifC18Dump
}

var originParent = common.BytesToHash([]byte("c18-origin-parent"))

func (r *runner) tx(id int) *types.Transaction {
	if t, ok := r.txs[id]; ok {
		return t
	}
	t := types.NewTransaction(uint64(id), common.BytesToAddress([]byte{byte(id), byte(id >> 8), 7}), big.NewInt(int64(id)+1), 21000, big.NewInt(1), nil)
	r.txs[id] = t
	return t
}

func (r *runner) txList(ids []int) types.Transactions {
	out := make(types.Transactions, 0, len(ids))
	for _, id := range ids {
		out = append(out, r.tx(id))
	}
	return out
}

func (r *runner) hid(h common.Hash) uint64 {
	if h == (common.Hash{}) {
		return 0
	}
	if id, ok := r.hashID[h]; ok {
		return id
	}
	id := uint64(len(r.hashID) + 1)
	r.hashID[h] = id
	return id
}

func (r *runner) rid(h common.Hash) uint64 {
	if h == types.EmptyRootHash {
		return 0
	}
	if id, ok := r.rootID[h]; ok {
		return id
	}
	id := uint64(len(r.rootID) + 2)
	r.rootID[h] = id
	return id
}

func idsCoq(ids []int) string {
	xs := make([]string, len(ids))
	for i, v := range ids {
		xs[i] = fmt.Sprint(v)
	}
	return "[" + strings.Join(xs, ";") + "]"
}

var rootMemo = map[string]common.Hash{}

// rootOf is types.DeriveSha of the transaction list (memoised: it builds a trie).
func (r *runner) rootOf(ids []int) common.Hash {
	k := idsCoq(ids)
	if h, ok := rootMemo[k]; ok {
		return h
	}
	h := types.DeriveSha(r.txList(ids))
	rootMemo[k] = h
	return h
}

// noteBody records the root of a transaction list in the case's table.
func (r *runner) noteBody(ids []int) {
	k := idsCoq(ids)
	if _, ok := r.table[k]; ok {
		return
	}
	root := r.rootOf(ids)
	r.table[k] = fmt.Sprint(r.rid(root))
	r.tableOrd = append(r.tableOrd, k)
}

func newRunner(sc *Scenario) *runner {
	r := &runner{sc: sc, peers: map[int]*dl.VerifC18Peer{}, hdrIdx: map[common.Hash]int{}, hashID: map[common.Hash]uint64{},
		rootID: map[common.Hash]uint64{}, txs: map[int]*types.Transaction{}, table: map[string]string{},
		cur: map[int]*request{}, legal: true, classes: map[string]int{}, midAt: -1, dirty: map[int]bool{}, answered: map[int]int{}}
	r.noteBody(nil)
	for i, hs := range sc.Headers {
		h := &types.Header{Number: new(big.Int).SetUint64(hs.Num), Subsidy: big.NewInt(0), GasRewards: big.NewInt(0),
			GasLimit: 8000000, Time: 1000 + hs.Num, Extra: []byte(fmt.Sprintf("s%d", hs.Salt))}
		switch {
		case hs.Parent >= 0 && hs.Parent < i:
			h.ParentHash = r.hdrs[hs.Parent].Hash()
		case hs.Parent == -1:
			h.ParentHash = originParent
		default:
			h.ParentHash = common.BytesToHash([]byte(fmt.Sprintf("junk-parent-%d", hs.Parent)))
		}
		if hs.Junk {
			h.TxHash = common.BytesToHash([]byte(fmt.Sprintf("junk-root-%d", i)))
		} else {
			h.TxHash = r.rootOf(hs.Body)
			r.noteBody(hs.Body)
		}
		r.hdrs = append(r.hdrs, h)
		r.hdrIdx[h.Hash()] = i
	}
	for _, h := range r.hdrs { // stable ids: universe order
		r.hid(h.Hash())
	}
	r.q = dl.VerifC18NewQueue(sc.CacheLen, sc.CacheMem)
	r.q.Prepare(sc.Start, dl.FullSync)
	r.cycleStart = sc.Start
	r.lastDump = r.q.VerifC18Dump()
	return r
}

func (r *runner) peer(i int) *dl.VerifC18Peer {
	if p, ok := r.peers[i]; ok {
		return p
	}
	p := dl.VerifC18NewPeer(fmt.Sprintf("p%03d", i))
	r.peers[i] = p
	return p
}

func (r *runner) hdrCoq(h *types.Header) string {
	return fmt.Sprintf("H %d %d %d %d", h.Number.Uint64(), r.hid(h.Hash()), r.hid(h.ParentHash), r.rid(h.TxHash))
}
func (r *runner) hdrsCoq(hs []*types.Header) string {
	xs := make([]string, len(hs))
	for i, h := range hs {
		xs[i] = r.hdrCoq(h)
	}
	return "[" + strings.Join(xs, "; ") + "]"
}
func (r *runner) hashesCoq(hs []*types.Header) string {
	xs := make([]string, len(hs))
	for i, h := range hs {
		xs[i] = fmt.Sprint(r.hid(h.Hash()))
	}
	return "[" + strings.Join(xs, ";") + "]"
}

// txIDs maps a transaction list handed back by the implementation to ids.
func (r *runner) txIDs(txs types.Transactions) []int {
	out := make([]int, 0, len(txs))
	for _, t := range txs {
		out = append(out, int(t.Nonce()))
	}
	return out
}

// limit is resultSlots' item limit for the current resultSize (queue.go:253-256).
func limitOf(d dl.VerifC18Dump) int {
	limit := d.CacheLen
	if float64(common.StorageSize(d.CacheLen)*common.StorageSize(d.ResultSize)) > float64(common.StorageSize(d.CacheMemory)) {
		rs := common.StorageSize(d.ResultSize)
		limit = int((common.StorageSize(d.CacheMemory) + rs - 1) / rs)
	}
	return limit
}

func errClass(err error) int {
	switch {
	case err == nil:
		return 0
	case err == dl.VerifC18ErrNoFetchesPending:
		return 1
	case err == dl.VerifC18ErrInvalidChain:
		return 2
	case err == dl.VerifC18ErrStaleDelivery:
		return 4
	case strings.HasPrefix(err.Error(), "partial failure"):
		return 3
	}
	return 9
}

func (r *runner) hit(what string) {
	for _, h := range r.hits {
		if h == what {
			return
		}
	}
	r.hits = append(r.hits, what)
}

func (r *runner) illegal(why string) {
	if r.legal {
		r.legal = false
		r.whyNot = why
	}
}

// exec runs one operation on the implementation and records it.
func (r *runner) exec(op OpSpec) {
	var opS, obsS, qop string
	switch op.K {
	case "sched":
		hs := make([]*types.Header, len(op.Hs))
		for i, k := range op.Hs {
			hs[i] = r.hdrs[k]
		}
		if op.From != r.cycleStart+uint64(len(r.scheduled)) {
			r.illegal("Schedule called with a start number other than origin + headers accepted so far")
		}
		ins := r.q.Schedule(hs, op.From)
		r.scheduled = append(r.scheduled, ins...)
		opS = fmt.Sprintf("Schedule %s %d", r.hdrsCoq(hs), op.From)
		obsS = "XSchedule " + r.hashesCoq(ins)
		switch {
		case len(ins) == len(hs):
			r.classes["schedule_all_inserted"]++
		case len(ins) == 0:
			r.classes["schedule_rejected"]++
		default:
			r.classes["schedule_partially_inserted"]++
		}
	case "reserve":
		d := r.lastDump
		limit := limitOf(d)
		if limit < d.CacheLen {
			r.classes["reserve_memory_limit_below_cache_len"]++
		}
		req, progress, err := r.q.ReserveBodies(r.peer(op.Peer), op.Count)
		opS = fmt.Sprintf("Reserve %d %d %d", op.Peer, op.Count, limit)
		reqS := "None"
		if req != nil {
			reqS = "(Some " + r.hashesCoq(req.Headers) + ")"
			rq := &request{req: req, peer: op.Peer, hs: append([]*types.Header{}, req.Headers...), open: true}
			r.reqs = append(r.reqs, rq)
			r.cur[op.Peer] = rq
			r.classes["reserve_request"]++
			if len(r.peer(op.Peer).VerifC18Lacking()) > 0 {
				r.classes["reserve_request_by_peer_with_lacking_entries"]++
			}
		} else {
			switch {
			case err != nil:
				r.classes["reserve_error_invalid_chain"]++
			case len(d.TaskQueue) == 0:
				r.classes["reserve_none_queue_empty"]++
			case r.cur[op.Peer] != nil:
				r.classes["reserve_none_peer_busy"]++
			case progress:
				r.classes["reserve_none_only_empty_blocks"]++
			default:
				r.classes["reserve_none_throttled_or_lacking"]++
			}
		}
		if progress {
			r.classes["reserve_completed_empty_blocks"]++
		}
		if err != nil {
			if r.legal {
				r.hit("reserve returned errInvalidChain in a legal history (result cache index out of range)")
			}
		}
		obsS = fmt.Sprintf("XReserve %s %s %s", reqS, vf.Bool(progress), vf.Bool(err != nil))
	case "deliver":
		lists := make([][]*types.Transaction, len(op.Bodies))
		bs := make([]string, len(op.Bodies))
		for i, b := range op.Bodies {
			lists[i] = r.txList(b)
			r.noteBody(b)
			bs[i] = idsCoq(b)
		}
		if rq := r.cur[op.Peer]; rq != nil { // an answer to an open request: truthful non-empty prefix?
			ok := len(op.Bodies) > 0
			for i := 0; ok && i < len(op.Bodies) && i < len(rq.hs); i++ {
				hs := r.sc.Headers[r.hdrIdx[rq.hs[i].Hash()]]
				if hs.Junk || idsCoq(op.Bodies[i]) != idsCoq(hs.Body) {
					ok = false
				}
			}
			if ok {
				r.answered[op.Peer]++
				if len(op.Bodies) < len(rq.hs) {
					r.classes["deliver_honest_but_partial"]++
				}
			} else {
				r.dirty[op.Peer] = true
			}
		}
		hadRequest := r.cur[op.Peer] != nil
		acc, err := r.q.DeliverBodies(r.peer(op.Peer).VerifC18ID(), lists)
		ec := errClass(err)
		// the error KIND is what fetchParts acts on: everything but errStaleDelivery idles the peer
		if !hadRequest && ec != 1 {
			r.hit(fmt.Sprintf("a delivery from a peer with nothing pending is not reported as 'no fetches pending' (error class %d): the fetch loop would not idle that peer", ec))
		}
		if hadRequest && ec == 1 {
			r.hit("a delivery from a peer with a pending request is reported as 'no fetches pending'")
		}
		if ec == 4 && acc != 0 {
			r.hit("a delivery reported as stale accepted items")
		}
		if ec != 1 {
			if rq := r.cur[op.Peer]; rq != nil {
				rq.open = false
				delete(r.cur, op.Peer)
			}
		}
		if ec == 2 && r.legal {
			r.hit("deliver returned errInvalidChain in a legal history")
		}
		r.classes[[]string{"deliver_ok", "deliver_no_fetches_pending", "deliver_invalid_chain", "deliver_partial_failure", "deliver_stale", "", "", "", "", "deliver_other_error"}[ec]]++
		if ec == 0 && len(lists) == 0 {
			r.classes["deliver_empty_marks_lacking"]++
		}
		opS = fmt.Sprintf("Deliver %d [%s]", op.Peer, strings.Join(bs, "; "))
		obsS = fmt.Sprintf("XDeliver %d %d", acc, ec)
	case "cancel":
		rq := r.reqs[op.Req]
		for _, h := range rq.req.Headers {
			if h == nil { // would dereference nil in cancel(): never generated
				return
			}
		}
		if rq.old {
			r.foreign = true
		}
		if !rq.open {
			r.illegal("CancelBodies called with a request that is no longer pending")
			r.classes["cancel_stale_request"]++
		} else {
			r.classes["cancel_pending_request"]++
		}
		r.q.CancelBodies(rq.req)
		rq.open = false
		if c := r.cur[rq.peer]; c != nil {
			c.open = false
			delete(r.cur, rq.peer)
		}
		opS = fmt.Sprintf("Cancel %d %s", rq.peer, r.hdrsCoq(rq.req.Headers))
		obsS = "XUnit"
	case "expire":
		now := time.Now()
		in := map[int]bool{}
		for _, p := range op.Peers {
			in[p] = true
		}
		for i, p := range r.peers {
			t := now
			if in[i] {
				t = now.Add(-10 * time.Hour)
			}
			r.q.VerifC18SetRequestTime(p.VerifC18ID(), t)
		}
		ex := r.q.ExpireBodies(time.Hour)
		type kv struct{ p, n int }
		var l []kv
		for i, p := range r.peers {
			if n, ok := ex[p.VerifC18ID()]; ok {
				l = append(l, kv{i, n})
				if rq := r.cur[i]; rq != nil {
					rq.open = false
					delete(r.cur, i)
				}
			}
		}
		sort.Slice(l, func(a, b int) bool { return l[a].p < l[b].p })
		xs := make([]string, len(l))
		for i, e := range l {
			xs[i] = fmt.Sprintf("(%d,%d)", e.p, e.n)
		}
		ps := make([]string, len(op.Peers))
		for i, p := range op.Peers {
			ps[i] = fmt.Sprint(p)
		}
		if len(l) > 0 {
			r.classes["expire_some"]++
		} else {
			r.classes["expire_none"]++
		}
		opS = "Expire [" + strings.Join(ps, ";") + "]"
		obsS = "XExpire [" + strings.Join(xs, ";") + "]"
	case "revoke":
		if rq := r.cur[op.Peer]; rq != nil {
			rq.open = false
			delete(r.cur, op.Peer)
			r.classes["revoke_pending"]++
		} else {
			r.classes["revoke_nothing"]++
		}
		r.q.Revoke(r.peer(op.Peer).VerifC18ID())
		opS = fmt.Sprintf("Revoke %d", op.Peer)
		obsS = "XUnit"
	case "results":
		res := r.q.Results(false)
		xs := make([]string, len(res))
		for i, x := range res {
			xs[i] = fmt.Sprintf("(%d, %s)", r.hid(x.Header.Hash()), idsCoq(r.txIDs(x.Transactions)))
		}
		r.released = append(r.released, res...)
		if len(res) == dl.VerifC18MaxResultsProcess {
			r.classes["results_capped_at_max_results_process"]++
		}
		if len(res) > 0 {
			r.classes["results_some"]++
		} else {
			r.classes["results_none"]++
		}
		opS = "Results"
		obsS = "XResults [" + strings.Join(xs, "; ") + "]"
	case "reset": // synchronise(): d.queue.Reset() - a new sync cycle on the same queue object
		if len(r.cur) > 0 {
			r.classes["cycle_cut_with_pending_requests"]++
		}
		if len(r.lastDump.DonePool) > 0 {
			r.classes["cycle_cut_with_unretrieved_results"]++
		}
		r.q.Reset()
		for _, rq := range r.reqs {
			rq.open = false
			rq.old = true
		}
		r.cur = map[int]*request{}
		r.legal, r.whyNot, r.foreign = true, "", false
		qop, obsS = "QReset", "XUnit"
	case "resetpeers": // synchronise(): d.peers.Reset()
		for _, p := range r.peers {
			p.Reset()
		}
		r.dirty = map[int]bool{}
		qop, obsS = "QResetPeers", "XUnit"
	case "prepare": // syncWithPeer(): d.queue.Prepare(origin+1, mode)
		r.q.Prepare(op.From, dl.FullSync)
		r.cycleStart = op.From
		r.scheduled, r.released = nil, nil
		r.classes["sync_cycles_after_the_first"]++
		qop, obsS = fmt.Sprintf("QPrepare %d", op.From), "XUnit"
	default:
		panic("unknown op " + op.K)
	}
	if qop == "" {
		qop = "Op (" + opS + ")"
	}
	d := r.q.VerifC18Dump()
	r.lastDump = d
	dig := fmt.Sprintf("(%d,%d,%d,%d,%d)", r.q.PendingBlocks(), len(d.PendPool), len(d.DonePool), d.Offset, d.Processable)
	r.steps = append(r.steps, fmt.Sprintf("(%s, %s, %s)", qop, obsS, dig))
	r.nops++
	r.checkSafety()
}

// ---- property oracle (implementation observations only) ---------------------

// checkSafety: everything handed to the importer so far is start, start+1, ...
// without gap or repeat, each the header Schedule accepted for that number,
// each with a transaction list hashing to the header's root.
func (r *runner) checkSafety() {
	byNum := map[uint64]common.Hash{}
	for _, h := range r.scheduled {
		byNum[h.Number.Uint64()] = h.Hash()
	}
	for i, x := range r.released {
		want := r.cycleStart + uint64(i)
		if x.Header.Number.Uint64() != want {
			r.hit(fmt.Sprintf("released sequence broken: position %d carries block %d, expected %d", i, x.Header.Number.Uint64(), want))
			return
		}
		if r.foreign {
			continue
		}
		if hh, ok := byNum[want]; !ok || hh != x.Header.Hash() {
			r.hit(fmt.Sprintf("released block %d is not the header accepted by Schedule for that number", want))
			return
		}
		if types.DeriveSha(x.Transactions) != x.Header.TxHash {
			r.hit(fmt.Sprintf("released block %d carries a transaction list that does not match its header's transaction root", want))
			return
		}
	}
}

// checkNothingLost (legal histories): every accepted, not yet released header
// is in exactly one of task queue / one peer's pending request / done pool.
func (r *runner) checkNothingLost() {
	if !r.legal {
		return
	}
	d := r.q.VerifC18Dump()
	cnt := map[common.Hash]int{}
	for _, h := range d.TaskQueue {
		cnt[h.Hash()]++
	}
	for _, hs := range d.PendPool {
		for _, h := range hs {
			if h != nil {
				cnt[h.Hash()]++
			}
		}
	}
	for _, h := range d.DonePool {
		cnt[h]++
	}
	rel := map[common.Hash]bool{}
	for _, x := range r.released {
		rel[x.Header.Hash()] = true
	}
	for _, h := range r.scheduled {
		hh := h.Hash()
		switch {
		case rel[hh] && cnt[hh] != 0:
			r.hit(fmt.Sprintf("released block %d is still tracked by the scheduler", h.Number.Uint64()))
			return
		case !rel[hh] && cnt[hh] == 0:
			r.hit(fmt.Sprintf("accepted block %d is lost: not queued, not pending, not done, not released", h.Number.Uint64()))
			return
		case !rel[hh] && cnt[hh] > 1:
			r.hit(fmt.Sprintf("accepted block %d is tracked %d times (queue/pending/done)", h.Number.Uint64(), cnt[hh]))
			return
		}
	}
}

// honestPeer returns an existing peer that has answered at least once and has
// so far only given truthful non-empty (full or partial) answers; -1 if none.
func (r *runner) honestPeer() int {
	var ks []int
	for k, n := range r.answered {
		if n > 0 && !r.dirty[k] {
			ks = append(ks, k)
		}
	}
	if len(ks) == 0 {
		return -1
	}
	sort.Ints(ks)
	return ks[0]
}

// finish: all requests time out, then ONE peer is asked until nothing moves:
// either a fresh peer (peer < 0) or an existing peer that has so far only given
// truthful non-empty answers; with partial it keeps answering truthfully but
// with a random cap per response (the soft response size limit).  In a legal
// history every accepted block (up to the first header whose root no body can
// match) must then have been released.
func (r *runner) finish(rng *vf.Rng, record func(OpSpec), peer int, partial bool) {
	r.midAt, r.midDump = len(r.steps), r.finalCoq()
	var all []int
	for i := range r.peers {
		all = append(all, i)
	}
	sort.Ints(all)
	run := func(op OpSpec) { record(op); r.exec(op) }
	run(OpSpec{K: "expire", Peers: all})
	run(OpSpec{K: "results"})
	who := "a fresh honest peer"
	if peer < 0 {
		peer = 900
	} else {
		who = fmt.Sprintf("peer %d, which so far only gave truthful non-empty answers,", peer)
		r.classes["finish_with_existing_honest_peer"]++
	}
	if partial {
		who += " (truncating its responses)"
		r.classes["finish_with_partial_answers"]++
	}
	idle := 0
	for round := 0; round < 8*len(r.scheduled)+8 && idle < 2; round++ {
		before := len(r.released)
		qBefore := len(r.lastDump.TaskQueue)
		cnt := 1 + rng.Intn(6)
		run(OpSpec{K: "reserve", Peer: peer, Count: cnt})
		if rq := r.cur[peer]; rq != nil {
			var bodies [][]int
			for _, h := range rq.hs {
				bodies = append(bodies, r.sc.Headers[r.hdrIdx[h.Hash()]].Body)
			}
			if partial && len(bodies) > 1 && rng.Chance(75) {
				bodies = bodies[:1+rng.Intn(len(bodies)-1)]
			}
			run(OpSpec{K: "deliver", Peer: peer, Bodies: bodies})
		}
		run(OpSpec{K: "results"})
		if len(r.released) == before && len(r.lastDump.TaskQueue) == qBefore {
			idle++
		} else {
			idle = 0
		}
	}
	r.finisher = who
	r.checkCompletion()
}

func (r *runner) checkCompletion() {
	if !r.legal {
		return
	}
	want := 0
	for _, h := range r.scheduled {
		if r.sc.Headers[r.hdrIdx[h.Hash()]].Junk {
			break
		}
		want++
	}
	if len(r.released) < want {
		who := r.finisher
		if who == "" {
			who = "an honest peer"
		}
		r.hit(fmt.Sprintf("download does not complete: %d of %d accepted blocks released after every request expired and %s answered every request truthfully", len(r.released), want, who))
	} else {
		r.classes["completed_by_honest_peer"]++
	}
}

// ---- final state dump --------------------------------------------------------

func (r *runner) finalCoq() string {
	d := r.q.VerifC18Dump()
	u64s := func(xs []uint64) string {
		sort.Slice(xs, func(a, b int) bool { return xs[a] < xs[b] })
		ss := make([]string, len(xs))
		for i, x := range xs {
			ss[i] = fmt.Sprint(x)
		}
		return "[" + strings.Join(ss, ";") + "]"
	}
	var tp, dn []uint64
	for _, h := range d.TaskPool {
		tp = append(tp, r.hid(h))
	}
	for _, h := range d.DonePool {
		dn = append(dn, r.hid(h))
	}
	tq := append([]*types.Header{}, d.TaskQueue...)
	sort.Slice(tq, func(a, b int) bool {
		na, nb := tq[a].Number.Uint64(), tq[b].Number.Uint64()
		if na != nb {
			return na < nb
		}
		return r.hid(tq[a].Hash()) < r.hid(tq[b].Hash())
	})
	var pend []string
	var pids []int
	for i, p := range r.peers {
		if _, ok := d.PendPool[p.VerifC18ID()]; ok {
			pids = append(pids, i)
		}
	}
	sort.Ints(pids)
	for _, i := range pids {
		pend = append(pend, fmt.Sprintf("(%d, %s)", i, r.hashesCoq(d.PendPool[r.peers[i].VerifC18ID()])))
	}
	var slots []string
	for _, s := range d.Cache {
		slots = append(slots, fmt.Sprintf("(%d, (%d)%%Z, %d, %s)", s.Index, s.Pending, r.hid(s.Hash), idsCoq(r.txIDs(s.Txs))))
	}
	type pr struct{ p, h uint64 }
	var lk []pr
	for i, p := range r.peers {
		for _, h := range p.VerifC18Lacking() {
			lk = append(lk, pr{uint64(i), r.hid(h)})
		}
	}
	sort.Slice(lk, func(a, b int) bool {
		if lk[a].p != lk[b].p {
			return lk[a].p < lk[b].p
		}
		return lk[a].h < lk[b].h
	})
	lks := make([]string, len(lk))
	for i, e := range lk {
		lks[i] = fmt.Sprintf("(%d,%d)", e.p, e.h)
	}
	return fmt.Sprintf("(D %d %s %s [%s] %s [%s] %d [%s])", r.hid(d.HeaderHead), u64s(tp), r.hashesCoq(tq),
		strings.Join(pend, "; "), u64s(dn), strings.Join(slots, "; "), d.Offset, strings.Join(lks, ";"))
}

func (r *runner) caseCoq() string {
	final := r.finalCoq() // may note nothing new, but keep before the table is printed
	var tb []string
	for _, k := range r.tableOrd {
		tb = append(tb, fmt.Sprintf("(%s, %s)", k, r.table[k]))
	}
	if r.midAt < 0 {
		r.midAt, r.midDump = len(r.steps), final
	}
	return fmt.Sprintf("mkCase %d%%nat %d\n [%s]\n [%s]\n %s\n [%s]\n %s", r.sc.CacheLen, r.sc.Start, strings.Join(tb, "; "),
		strings.Join(r.steps[:r.midAt], ";\n  "), r.midDump, strings.Join(r.steps[r.midAt:], ";\n  "), final)
}

// replayScenario runs a stored scenario; the completion check applies when
// the scenario's comment says it was finished.
func replayScenario(sc *Scenario) *runner {
	r := newRunner(sc)
	ops := sc.Ops
	if sc.FinishAt > 0 && sc.FinishAt <= len(ops) {
		ops = ops[:sc.FinishAt]
	}
	for _, op := range ops {
		if op.K == "cancel" && (op.Req < 0 || op.Req >= len(r.reqs)) {
			continue
		}
		r.exec(op)
	}
	r.checkNothingLost()
	if sc.FinishAt > 0 {
		sc.Ops = append([]OpSpec{}, ops...)
		r.finish(vf.NewRng(sc.FinishSeed), func(op OpSpec) { sc.Ops = append(sc.Ops, op) }, sc.FinishPeer-1, sc.FinishPartial)
	}
	return r
}

// ---- generators --------------------------------------------------------------

func randBody(rng *vf.Rng, ntx int) []int {
	if rng.Chance(45) {
		return nil
	}
	k := 1 + rng.Intn(3)
	b := make([]int, k)
	for i := range b {
		b[i] = rng.Intn(ntx)
	}
	return b
}

// genScenario builds the header universe and then chooses operations while
// running them (deliveries are derived from what the implementation handed out).
func genScenario(rng *vf.Rng, kind int) *runner {
	sc := &Scenario{}
	sc.CacheLen = []int{1, 2, 3, 4, 4, 6, 8, 8, 16, 16, 32, 64}[rng.Intn(12)]
	sc.CacheMem = 64 * 1024 * 1024
	if rng.Chance(25) {
		sc.CacheMem = []int{300, 700, 1500, 3000, 6000}[rng.Intn(5)]
	}
	sc.Start = []uint64{1, 1, 2, 7, 100, 4096, 1 << 32}[rng.Intn(7)]
	n := 1 + rng.Heavy(120)
	if kind == 2 { // long chains
		n = 60 + rng.Intn(240)
		sc.CacheLen = []int{8, 16, 64, 128}[rng.Intn(4)]
	}
	ntx := 12
	emptyBias := rng.Intn(100)
	junkAt := -1
	if rng.Chance(6) {
		junkAt = rng.Intn(n)
	}
	for i := 0; i < n; i++ {
		h := HdrSpec{Num: sc.Start + uint64(i), Parent: i - 1}
		if !rng.Chance(emptyBias) {
			h.Body = randBody(rng, ntx)
		}
		if i == junkAt {
			h.Junk = true
		}
		sc.Headers = append(sc.Headers, h)
	}
	// a few foreign headers used to build bad Schedule calls
	base := len(sc.Headers)
	for k := 0; k < 4; k++ {
		i := rng.Intn(n)
		h := HdrSpec{Num: sc.Start + uint64(i), Parent: -2 - k, Body: randBody(rng, ntx), Salt: uint64(100 + k)}
		if rng.Bool() { // right parent, wrong number (ahead)
			h.Parent = i - 1
			h.Num = sc.Start + uint64(i) + 1 + uint64(rng.Intn(3))
		}
		sc.Headers = append(sc.Headers, h)
	}
	r := newRunner(sc)
	npeers := 1 + rng.Intn(8)
	// peer profiles: 0 honest, 1 stalls, 2 lies, 3 answers empty, 4 partial, 5 mixed
	prof := make([]int, npeers)
	for i := range prof {
		prof[i] = []int{0, 0, 0, 1, 2, 3, 4, 5, 5}[rng.Intn(9)]
	}
	if kind == 3 { // the only answering peers answer truthfully but partially (6); the others stall
		for i := range prof {
			prof[i] = []int{6, 1, 1}[rng.Intn(3)]
		}
		prof[rng.Intn(npeers)] = 6
	}
	allowIllegal := kind == 1
	next := 0 // next chain header to schedule
	run := func(op OpSpec) { sc.Ops = append(sc.Ops, op); r.exec(op) }
	steps := 10 + rng.Heavy(400)
	if kind == 2 {
		steps = 200 + rng.Intn(500)
	}
	body := func(h *types.Header) []int { return sc.Headers[r.hdrIdx[h.Hash()]].Body }
	tail := -1
	ncycles := 1
	if kind != 2 && rng.Chance(35) {
		ncycles = 2 + rng.Intn(3)
	}
	for cyc := 0; cyc < ncycles; cyc++ {
		if cyc > 0 { // cut the running cycle wherever it is and start another one on the same queue
			r.checkNothingLost()
			prev, rel := r.cycleStart, uint64(len(r.released))
			var ns uint64
			switch c := rng.Intn(100); {
			case c < 45 && rel > 0: // the head ended below what was handed out (rollback, rejected fork, cancel before import)
				ns = prev + uint64(rng.Intn(int(rel)))
				if rng.Chance(25) {
					ns = sc.Start + uint64(rng.Intn(int(prev+rel-sc.Start)))
				}
				r.classes["cycle_origin_below_released"]++
			case c < 60:
				ns = prev
				r.classes["cycle_origin_same_as_before"]++
			case c < 85:
				ns = prev + rel
				r.classes["cycle_origin_continues"]++
			default:
				ns = prev + rel + 1 + uint64(rng.Intn(3))
				r.classes["cycle_origin_above"]++
			}
			if ns >= sc.Start+uint64(n) {
				ns = sc.Start + uint64(n) - 1
			}
			run(OpSpec{K: "reset"})
			run(OpSpec{K: "resetpeers"})
			run(OpSpec{K: "prepare", From: ns})
			next, tail = int(ns-sc.Start), -1
			steps = 10 + rng.Heavy(300)
		} else if ncycles > 1 {
			steps = 5 + rng.Heavy(200)
		}
		for s := 0; s < steps; s++ {
			c := rng.Intn(100)
			if next >= n && len(r.released) >= len(r.scheduled) && tail < 0 {
				tail = 3 + rng.Intn(6) // a few more operations on the drained queue, then stop
			}
			if tail == 0 {
				break
			}
			if tail > 0 {
				tail--
			}
			if len(r.lastDump.TaskQueue) == 0 && len(r.cur) == 0 && next < n && rng.Chance(60) {
				c = 0
			}
			switch {
			case c < 12: // schedule
				if next >= n && !rng.Chance(20) {
					continue
				}
				k := 1 + rng.Heavy(40)
				if kind == 2 {
					k = 1 + rng.Intn(64)
				}
				var hs []int
				for i := 0; i < k && next+i < n; i++ {
					hs = append(hs, next+i)
				}
				from := r.cycleStart + uint64(len(r.scheduled))
				bad := rng.Intn(100)
				switch {
				case bad < 4 && len(hs) > 1: // gap inside the batch
					j := 1 + rng.Intn(len(hs)-1)
					hs = append(hs[:j:j], hs[j+1:]...)
				case bad < 8 && len(hs) > 0: // a foreign header inside the batch
					j := rng.Intn(len(hs))
					hs[j] = base + rng.Intn(4)
				case bad < 11: // re-announce old headers
					if next > 0 {
						j := rng.Intn(next)
						hs = []int{j}
						if rng.Bool() {
							from = sc.Headers[j].Num
						}
					}
				case bad < 13 && allowIllegal && len(hs) > 0: // caller skips ahead (outside the downloader's discipline)
					skip := 1 + rng.Intn(3)
					if next+skip < n {
						// a header numbered ahead whose parent is the current head does not exist in the
						// universe; use the foreign "right parent, wrong number" headers instead
						for k := 0; k < 4; k++ {
							f := sc.Headers[base+k]
							if f.Parent == next-1 && f.Parent >= 0 {
								hs = []int{base + k}
								from = f.Num
							}
						}
					}
				case bad < 15: // wrong from
					from += uint64(1 + rng.Intn(3))
					if !allowIllegal {
						continue
					}
				case bad < 17: // empty batch
					hs = nil
				}
				before := len(r.scheduled)
				run(OpSpec{K: "sched", Hs: hs, From: from})
				// advance over the chain headers that were accepted
				for _, h := range r.scheduled[before:] {
					if i := r.hdrIdx[h.Hash()]; i < n && i+1 > next {
						next = i + 1
					}
				}
			case c < 40: // reserve
				p := rng.Intn(npeers)
				cnt := []int{0, 1, 2, 2, 3, 3, 4, 5, 8, 16, 128}[rng.Intn(11)]
				run(OpSpec{K: "reserve", Peer: p, Count: cnt})
			case c < 68: // deliver
				p := rng.Intn(npeers)
				rq := r.cur[p]
				if rq == nil {
					// pick a busy peer most of the time
					for _, k := range sortedKeys(r.cur) {
						if rng.Chance(70) {
							p, rq = k, r.cur[k]
							break
						}
					}
				}
				if rq == nil { // unsolicited
					if rng.Chance(6) && kind != 3 {
						run(OpSpec{K: "deliver", Peer: p, Bodies: [][]int{randBody(rng, ntx)}})
					}
					continue
				}
				mode := prof[p]
				if mode == 5 {
					mode = rng.Intn(5)
				}
				if mode == 1 && !rng.Chance(15) {
					continue // staller
				}
				var bodies [][]int
				for _, h := range rq.hs {
					bodies = append(bodies, body(h))
				}
				switch mode {
				case 2: // lie somewhere
					j := rng.Intn(len(bodies))
					switch rng.Intn(4) {
					case 0:
						bodies[j] = append([]int{rng.Intn(ntx)}, bodies[j]...)
					case 1:
						bodies[j] = nil
						if len(body(rq.hs[j])) == 0 {
							bodies[j] = []int{rng.Intn(ntx)}
						}
					case 2: // shifted answers
						bodies = append([][]int{randBody(rng, ntx)}, bodies...)
					case 3: // swap two
						k := rng.Intn(len(bodies))
						bodies[j], bodies[k] = bodies[k], bodies[j]
					}
				case 3:
					bodies = nil
				case 4:
					bodies = bodies[:rng.Intn(len(bodies)+1)]
				case 6: // truthful, non-empty, capped
					bodies = bodies[:1+rng.Intn(len(bodies))]
					if len(bodies) > 1 && rng.Chance(60) {
						bodies = bodies[:1+rng.Intn(len(bodies)-1)]
					}
				default:
					if rng.Chance(8) { // more than asked
						bodies = append(bodies, randBody(rng, ntx))
					}
				}
				run(OpSpec{K: "deliver", Peer: p, Bodies: bodies})
				if rng.Chance(4) { // duplicate
					run(OpSpec{K: "deliver", Peer: p, Bodies: bodies})
				}
			case c < 74: // cancel
				if len(r.reqs) == 0 {
					continue
				}
				var cand []int
				for i, rq := range r.reqs {
					if rq.open {
						cand = append(cand, i)
					}
				}
				if allowIllegal && rng.Chance(35) { // a request that ended by expiry / revoke / cancel
					i := rng.Intn(len(r.reqs))
					ok := !r.reqs[i].open
					for _, h := range r.reqs[i].req.Headers {
						if h == nil {
							ok = false
						}
					}
					if ok {
						run(OpSpec{K: "cancel", Req: i})
					}
					continue
				}
				if len(cand) > 0 {
					run(OpSpec{K: "cancel", Req: cand[rng.Intn(len(cand))]})
				}
			case c < 82: // expire
				var ps []int
				for i := 0; i < npeers; i++ {
					if rng.Chance(35) {
						ps = append(ps, i)
					}
				}
				run(OpSpec{K: "expire", Peers: ps})
			case c < 87: // revoke
				run(OpSpec{K: "revoke", Peer: rng.Intn(npeers)})
			default:
				run(OpSpec{K: "results"})
			}
		}
	}
	r.checkNothingLost()
	if r.legal {
		r.classes["legal_history"]++
	} else {
		r.classes["history_outside_downloader_discipline"]++
	}
	sc.FinishAt = len(sc.Ops)
	fp, partial := -1, false
	if hp := r.honestPeer(); hp >= 0 && (kind == 3 || rng.Chance(60)) {
		fp, partial = hp, true
	} else if rng.Chance(30) {
		partial = true
	}
	sc.FinishPeer, sc.FinishPartial, sc.FinishSeed = fp+1, partial, rng.U64()
	r.finish(vf.NewRng(sc.FinishSeed), func(op OpSpec) { sc.Ops = append(sc.Ops, op) }, fp, partial)
	return r
}

func sortedKeys(m map[int]*request) []int {
	ks := make([]int, 0, len(m))
	for k := range m {
		ks = append(ks, k)
	}
	sort.Ints(ks)
	return ks
}

// genCapScenario: a cache of 4096 slots and 2200..2700 mostly empty blocks, so
// that more than maxResultsProcess (2048) results are processable at once and
// Results has to cut its batch.
func genCapScenario(rng *vf.Rng) *runner {
	sc := &Scenario{CacheLen: 4096, CacheMem: 64 * 1024 * 1024, Start: 1 + uint64(rng.Intn(50))}
	n := 2200 + rng.Intn(500)
	for i := 0; i < n; i++ {
		h := HdrSpec{Num: sc.Start + uint64(i), Parent: i - 1}
		if i%400 == 399 {
			h.Body = []int{i % 12}
		}
		sc.Headers = append(sc.Headers, h)
	}
	r := newRunner(sc)
	run := func(op OpSpec) { sc.Ops = append(sc.Ops, op); r.exec(op) }
	for i := 0; i < n; i += 700 {
		var hs []int
		for j := i; j < i+700 && j < n; j++ {
			hs = append(hs, j)
		}
		run(OpSpec{K: "sched", Hs: hs, From: sc.Start + uint64(i)})
	}
	run(OpSpec{K: "reserve", Peer: 0, Count: 128})
	if rq := r.cur[0]; rq != nil {
		var bodies [][]int
		for _, h := range rq.hs {
			bodies = append(bodies, sc.Headers[r.hdrIdx[h.Hash()]].Body)
		}
		run(OpSpec{K: "deliver", Peer: 0, Bodies: bodies})
	}
	run(OpSpec{K: "results"})
	r.checkNothingLost()
	r.classes["legal_history"]++
	sc.FinishAt = len(sc.Ops)
	sc.FinishPeer, sc.FinishPartial, sc.FinishSeed = 0, false, rng.U64()
	r.finish(vf.NewRng(sc.FinishSeed), func(op OpSpec) { sc.Ops = append(sc.Ops, op) }, -1, false)
	return r
}

// ---- exhaustive small scope ------------------------------------------------------

// exhaustive runs EVERY sequence of up to depth letters of a 13-letter
// alphabet (2 peers, 4 blocks of which one is empty, cache of 2 slots) on the
// implementation, each followed by the finishing phase, and evaluates the
// oracle.  Returns the number of sequences and the first hits.
func exhaustive(depth int) (int, []hitRec) {
	base := func() *Scenario {
		return &Scenario{CacheLen: 2, CacheMem: 64 * 1024 * 1024, Start: 3, Headers: []HdrSpec{
			{Num: 3, Parent: -1, Body: []int{1}}, {Num: 4, Parent: 0}, {Num: 5, Parent: 1, Body: []int{2, 3}}, {Num: 6, Parent: 2, Body: []int{4}}}}
	}
	const letters = 13
	var hits []hitRec
	count := 0
	seq := make([]int, 0, depth)
	var rec func()
	runSeq := func() {
		sc := base()
		r := newRunner(sc)
		run := func(op OpSpec) { sc.Ops = append(sc.Ops, op); r.exec(op) }
		run(OpSpec{K: "sched", Hs: []int{0, 1, 2, 3}, From: 3})
		honest := func(p int) [][]int {
			var b [][]int
			if rq := r.cur[p]; rq != nil {
				for _, h := range rq.hs {
					b = append(b, sc.Headers[r.hdrIdx[h.Hash()]].Body)
				}
			} else {
				b = [][]int{{1}}
			}
			return b
		}
		for _, l := range seq {
			switch l {
			case 0:
				run(OpSpec{K: "reserve", Peer: 0, Count: 2})
			case 1:
				run(OpSpec{K: "reserve", Peer: 1, Count: 1})
			case 2:
				run(OpSpec{K: "deliver", Peer: 0, Bodies: honest(0)})
			case 3:
				run(OpSpec{K: "deliver", Peer: 0})
			case 4:
				b := honest(0)
				b[0] = []int{9}
				run(OpSpec{K: "deliver", Peer: 0, Bodies: b})
			case 5:
				run(OpSpec{K: "deliver", Peer: 0, Bodies: honest(0)[:1]})
			case 6:
				run(OpSpec{K: "deliver", Peer: 1, Bodies: honest(1)})
			case 7:
				b := honest(1)
				b[0] = []int{9}
				run(OpSpec{K: "deliver", Peer: 1, Bodies: b})
			case 8:
				run(OpSpec{K: "expire", Peers: []int{0}})
			case 9:
				run(OpSpec{K: "expire", Peers: []int{1}})
			case 10:
				run(OpSpec{K: "revoke", Peer: 0})
			case 11:
				if rq := r.cur[0]; rq != nil {
					for i, x := range r.reqs {
						if x == rq {
							run(OpSpec{K: "cancel", Req: i})
						}
					}
				}
			case 12:
				run(OpSpec{K: "results"})
			}
		}
		r.checkNothingLost()
		sc.FinishAt = len(sc.Ops)
		sc.FinishPeer, sc.FinishPartial, sc.FinishSeed = r.honestPeer()+1, true, uint64(count)
		r.finish(vf.NewRng(sc.FinishSeed), func(op OpSpec) { sc.Ops = append(sc.Ops, op) }, sc.FinishPeer-1, true)
		count++
		if len(hits) < 3 {
			for _, w := range r.hits {
				hits = append(hits, hitRec{"exhaustive: " + w, sc})
			}
		}
	}
	rec = func() {
		runSeq()
		if len(seq) == depth {
			return
		}
		for l := 0; l < letters; l++ {
			seq = append(seq, l)
			rec()
			seq = seq[:len(seq)-1]
		}
	}
	rec()
	return count, hits
}

// ---- sub-commands -------------------------------------------------------------

type hitRec struct {
	What     string    `json:"what"`
	Scenario *Scenario `json:"scenario"`
}

func loadCorpus(dir string) []*Scenario {
	var out []*Scenario
	files, _ := filepath.Glob(filepath.Join(dir, "*.json"))
	sort.Strings(files)
	for _, f := range files {
		b, err := ioutil.ReadFile(f)
		if err != nil {
			continue
		}
		if sc := parseScenario(b); sc != nil {
			if !strings.Contains(sc.Comment, "corpus:") {
				sc.Comment += " corpus:" + filepath.Base(f)
			}
			out = append(out, sc)
		}
	}
	return out
}

func gen(seed uint64, n int, outDir, corpusDir string, exhaustiveDepth, e2eRuns int, bigCache bool) {
	rng := vf.NewRng(seed)
	res := vf.NewResult("C18", seed)
	var runs []*runner
	if e2eRuns > 0 {
		e2eCampaign(seed, e2eRuns, 4, res)
	}
	if exhaustiveDepth > 0 {
		cnt, hs := exhaustive(exhaustiveDepth)
		res.Extra["exhaustive_sequences"] = cnt
		res.Extra["exhaustive_depth"] = exhaustiveDepth
		res.Distribution["exhaustive_small_scope_sequences"] = cnt
		for _, h := range hs {
			res.OracleHits = append(res.OracleHits, h)
		}
	}
	for _, sc := range loadCorpus(corpusDir) {
		runs = append(runs, replayScenario(sc))
		res.Count("corpus")
	}
	if bigCache {
		runs = append(runs, genCapScenario(rng))
	}
	for len(runs) < n {
		kind := 0
		switch c := rng.Intn(100); {
		case c < 30:
			kind = 1 // may leave the downloader's discipline (stale cancel, wrong from)
		case c < 34:
			kind = 2 // long chain
		case c < 52:
			kind = 3 // only truthful-but-partial answerers and stallers; finished by one of them
		}
		runs = append(runs, genScenario(rng, kind))
	}
	var sb strings.Builder
	sb.WriteString("From VF.C18 Require Import Model.\nLocal Open Scope N_scope.\nDefinition cases : list case := [\n")
	distinct := map[string]bool{}
	ops := 0
	for i, r := range runs {
		if i > 0 {
			sb.WriteString(";\n")
		}
		cs := r.caseCoq()
		sb.WriteString(cs)
		if len(r.released) > 0 || len(r.reqs) > 0 {
			distinct[cs] = true
		}
		ops += r.nops
		for k, v := range r.classes {
			res.Distribution[k] += v
		}
		for _, w := range r.hits {
			res.OracleHits = append(res.OracleHits, hitRec{w, r.sc})
		}
		desc := map[string]interface{}{"scenario": r.sc, "legal": r.legal, "why_not_legal": r.whyNot,
			"scheduled": len(r.scheduled), "released": len(r.released), "ops": r.nops}
		res.CaseDescs = append(res.CaseDescs, desc)
		if len(res.Samples) < 4 && r.nops < 40 && len(r.released) > 0 {
			res.Samples = append(res.Samples, desc)
		}
	}
	sb.WriteString("].\nDefinition M := Eval vm_compute in mismatches cases.\nPrint M.\n")
	vf.WriteFile(filepath.Join(outDir, "Cases.v"), sb.String())
	res.Cases = len(runs)
	res.Distinct = len(distinct)
	res.Extra["operations"] = ops
	res.Rule = "a case is one scripted history of 1 to 4 sync cycles on one queue object (35% have several: each later cycle starts with Reset, the peers' Reset and Prepare at an origin below / equal to / continuing / above what the previous cycle released, the previous cycle being cut wherever it was - requests outstanding, results unretrieved); the oracle judges every cycle relative to its own origin. Each history starts on a fresh queue (cache 1..128 slots, start number, chain of 1..300 headers with empty and non-empty blocks, 1..8 peers that are honest / stall / lie / answer empty / answer partially) ending with 'all requests expire, then one peer answers every request truthfully' where that peer is a fresh one or (whenever one exists, 60%) an existing peer that so far only gave truthful non-empty answers, possibly truncating its responses; 18% of the histories have only truthful-but-partial answerers and stallers and are finished by one of those answerers; every operation's return value and a state digest, and the full final state, are compared with the Coq model; 30% of the histories may leave the downloader's discipline (stale CancelBodies, Schedule from a wrong number); non-trivial = at least one request handed out or one block released; distinct by full text. In addition (first shard, oracle only): every sequence of up to 3 (quick) / 4 (thorough) letters of a 13-letter alphabet on 2 peers x 4 blocks x 2 cache slots, each followed by the finishing phase; and a separate end-to-end class (40 quick / 600 thorough runs): the real Downloader.fetchBodies/fetchParts + processFullSyncContent around the real queue with 1..6 scripted peers (honest, truncating, stalling, lying, disconnecting mid-request, answering empty), oracle on the blocks reaching InsertChain (ascending gap-free from the origin, each once, matching body, completion whenever the master is an honest or truncating peer that stayed connected; 30% of these runs are the message-fault family: ONE honest peer next to stallers only, whose replies are duplicated / delayed past the request's expiry / reordered while it still answers every request - a 6 s watchdog then reports a range that does not complete); thorough adds one 4096-slot-cache history that makes Results cut its batch at 2048"
	res.Write(filepath.Join(outDir, "result.json"))
}

// parseScenario accepts a bare scenario or an object with a "scenario" field
// (an oracle hit / replay input).
func parseScenario(b []byte) *Scenario {
	var wrap struct {
		Scenario *Scenario `json:"scenario"`
	}
	if json.Unmarshal(b, &wrap) == nil && wrap.Scenario != nil && wrap.Scenario.CacheLen > 0 {
		return wrap.Scenario
	}
	var sc Scenario
	if json.Unmarshal(b, &sc) == nil && sc.CacheLen > 0 {
		return &sc
	}
	return nil
}

func replay(file string) {
	b, err := ioutil.ReadFile(file)
	if err != nil {
		fmt.Println(err)
		os.Exit(2)
	}
	var e2e struct {
		E2E *E2EScenario `json:"e2e"`
	}
	if json.Unmarshal(b, &e2e) == nil && e2e.E2E != nil && len(e2e.E2E.Peers) > 0 {
		dl.VerifC18SetTiming(10*time.Millisecond, 10*time.Millisecond, 150*time.Millisecond)
		dl.VerifC18NewQueue(64, 64*1024*1024)
		r := runE2E(e2e.E2E)
		fmt.Printf("e2e: class=%s imported=%d of %d\n", r.class, r.inserted, len(e2e.E2E.Bodies))
		if len(r.hits) > 0 {
			for _, h := range r.hits {
				fmt.Println("ORACLE VIOLATION:", h)
			}
			os.Exit(1)
		}
		return
	}
	sc := parseScenario(b)
	if sc == nil {
		fmt.Println("no scenario in", file)
		os.Exit(2)
	}
	r := replayScenario(sc)
	fmt.Printf("ops=%d scheduled=%d released=%d legal=%v %s\n", r.nops, len(r.scheduled), len(r.released), r.legal, r.whyNot)
	if len(r.hits) > 0 {
		for _, h := range r.hits {
			fmt.Println("ORACLE VIOLATION:", h)
		}
		os.Exit(1)
	}
}

func main() {
	mode := ""
	if len(os.Args) > 1 {
		mode = os.Args[1]
		os.Args = append(os.Args[:1], os.Args[2:]...)
	}
	seed := flag.Uint64("seed", 1, "")
	n := flag.Int("n", 100, "")
	out := flag.String("out", ".", "")
	corpus := flag.String("corpus", "/verif/corpus/C18", "")
	file := flag.String("file", "", "")
	tier := flag.String("tier", "quick", "")
	flag.Parse()
	params.InitNetworkId(params.NetworkIdForTestCase)
	logging.Root().SetHandler(logging.DiscardHandler())
	// common.Report prints a stack trace to stderr whenever the queue hits its
	// "index allocation went beyond available resultCache space" branch
	if devnull, err := os.OpenFile(os.DevNull, os.O_WRONLY, 0); err == nil && (mode == "gen" || mode == "replay") {
		os.Stderr = devnull
	}
	switch mode {
	case "gen":
		depth, e2e := 0, 0
		if _, err := os.Stat(*corpus); err == nil { // first shard only (later shards get a non-existing corpus dir)
			depth, e2e = 3, 40
			if *tier == "thorough" {
				depth, e2e = 4, 600
			}
		}
		gen(*seed, *n, *out, *corpus, depth, e2e, depth > 0 && *tier == "thorough")
	case "replay":
		replay(*file)
	case "locks":
		locksCmd(*out)
	default:
		fmt.Println("usage: c18 gen|replay|locks")
		os.Exit(2)
	}
}
