// C18 end-to-end campaign: the real Downloader.fetchBodies / fetchParts loop
// and processFullSyncContent run around the real queue with scripted peers
// (honest, truncating, stalling, lying, disconnecting mid-request, answering
// empty); the oracle looks only at what reaches the chain-insertion callback.
// This covers the glue the queue model abstracts: the ticker -> ExpireBodies,
// peer drops (this fork's UnregisterPeer does not Revoke), the idle/throttle/
// errPeersUnavailable decisions.  Goroutine interleaving is not reproducible;
// the oracle's verdict does not depend on it (timing-inconclusive runs, where
// the honest master itself was expired, are counted and not judged).
package main

import (
	"fmt"
	"math/big"
	"os"
	"sort"
	"strings"
	"sync"
	"time"

	"github.com/youchainhq/go-youchain/common"
	"github.com/youchainhq/go-youchain/core/types"
	"github.com/youchainhq/go-youchain/event"
	dl "github.com/youchainhq/go-youchain/you/downloader"
	"github.com/youchainhq/go-youchain/youdb"
	"verif/harness/vf"
)

const (
	pkHonest = iota
	pkTruncating
	pkStalling
	pkLying
	pkDisconnecting
	pkEmpty
)

var pkNames = []string{"honest", "truncating", "stalling", "lying", "disconnecting", "empty"}

type E2EPeer struct {
	Kind  int    `json:"kind"`
	Param int    `json:"param,omitempty"` // truncating: cap; disconnecting: leaves at its n-th request
	Seed  uint64 `json:"seed,omitempty"`
	// message-level faults on this (honest or truncating) peer's replies, in percent of its
	// requests: the reply is duplicated, delayed past the request's expiry, or held back
	// until after the reply to the peer's next request (reordered).  The peer still
	// answers every request it receives, truthfully.
	Faults int `json:"faults,omitempty"`
}

type E2EScenario struct {
	Origin     uint64    `json:"origin"`
	CacheItems int       `json:"cache_items"`
	Bodies     [][]int   `json:"bodies"` // block origin+1+i carries these transaction ids
	Peers      []E2EPeer `json:"peers"`
	Master     int       `json:"master"`
	Chunk      int       `json:"chunk"`    // headers per Schedule call
	PauseMS    int       `json:"pause_ms"` // pause between Schedule calls
	// a second sync cycle on the same Downloader/queue: the first cycle is cancelled
	// after CutMS ms (0 = runs to its end), the second starts SecondBack blocks BELOW
	// what the first one handed to the importer (0 = no second cycle)
	SecondBack int `json:"second_back,omitempty"`
	CutMS      int `json:"cut_ms,omitempty"`
}

// ---- stub chain -----------------------------------------------------------------

type e2eChain struct {
	mu       sync.Mutex
	inserted []*types.Block
}

func (c *e2eChain) CurrentHeader() *types.Header                             { return nil }
func (c *e2eChain) GetHeaderByNumber(uint64) *types.Header                   { return nil }
func (c *e2eChain) GetHeaderByHash(common.Hash) *types.Header                { return nil }
func (c *e2eChain) GetLightStartHeader() *types.Header                       { return nil }
func (c *e2eChain) IsUcon() bool                                             { return false }
func (c *e2eChain) UconLookBackParams() (uint64, uint64)                     { return 0, 0 }
func (c *e2eChain) TrieBackingDb(types.TrieKind) youdb.Database              { return nil }
func (c *e2eChain) VerifyAcHeader(*types.Header, []*types.Header) error      { return nil }
func (c *e2eChain) UpdateTrustedCht(*types.Header) error                     { return nil }
func (c *e2eChain) UpdateTrustedBlt(*types.Header) error                     { return nil }
func (c *e2eChain) GetHashFromCht(uint64) (common.Hash, error)               { return common.Hash{}, nil }
func (c *e2eChain) InsertGuaranteedHeaderChain([]*types.Header) (int, error) { return 0, nil }
func (c *e2eChain) InsertHeaderChain([]*types.Header) (int, error)           { return 0, nil }
func (c *e2eChain) HasBlock(common.Hash, uint64) bool                        { return false }
func (c *e2eChain) CurrentBlock() *types.Block                               { return nil }
func (c *e2eChain) InsertReceiptChain(types.Blocks, []types.Receipts, bool) (int, error) {
	return 0, nil
}
func (c *e2eChain) InsertChain(bs types.Blocks) error {
	c.mu.Lock()
	c.inserted = append(c.inserted, bs...)
	c.mu.Unlock()
	return nil
}

// ---- scripted peers ----------------------------------------------------------------

type e2eEnv struct {
	d       *dl.Downloader
	bodies  map[common.Hash][]*types.Transaction
	mu      sync.Mutex
	dropped map[string]bool // dropPeer callback fired (request expired with <= 2 items)
	left    map[string]bool // the peer disconnected by itself
	reqs    map[string]int
	faults  map[string]int
}

type e2ePeer struct {
	id   string
	spec E2EPeer
	env  *e2eEnv
	mu   sync.Mutex
	rng  *vf.Rng
	n    int
	slow int                    // delayed / held replies so far (bounded: each costs an expiry)
	held [][]*types.Transaction // a reply held back until the next one has been sent
}

func (p *e2ePeer) Head() (common.Hash, *big.Int)                                { return common.Hash{}, new(big.Int) }
func (p *e2ePeer) Origin() *big.Int                                             { return new(big.Int) }
func (p *e2ePeer) RequestHeadersByHash(common.Hash, int, int, bool, bool) error { return nil }
func (p *e2ePeer) RequestHeadersByNumber(uint64, int, int, bool, bool) error    { return nil }
func (p *e2ePeer) RequestReceipts([]common.Hash) error                          { return nil }
func (p *e2ePeer) RequestNodeData(types.TrieKind, []common.Hash) error          { return nil }

func (p *e2ePeer) RequestBodies(hashes []common.Hash) error {
	p.mu.Lock()
	p.n++
	n := p.n
	r1, r2 := p.rng.Intn(1<<20), p.rng.Intn(1<<20)
	p.mu.Unlock()
	p.env.mu.Lock()
	p.env.reqs[p.id]++
	p.env.mu.Unlock()
	var out [][]*types.Transaction
	for _, h := range hashes {
		out = append(out, p.env.bodies[h])
	}
	switch p.spec.Kind {
	case pkHonest:
	case pkTruncating:
		k := 1 + r1%p.spec.Param
		if k < len(out) {
			out = out[:k]
		}
	case pkStalling:
		return nil
	case pkLying:
		j := r1 % len(out)
		out[j] = []*types.Transaction{e2eTx(900 + r2%50)}
	case pkDisconnecting:
		if n >= p.spec.Param {
			p.env.mu.Lock()
			p.env.left[p.id] = true
			p.env.mu.Unlock()
			p.env.d.UnregisterPeer(p.id)
			return nil
		}
	case pkEmpty:
		out = nil
	}
	if p.spec.Faults > 0 && r2%100 < p.spec.Faults {
		p.mu.Lock()
		kind := r1 % 3
		if kind != 0 && (len(hashes) <= 2 || p.slow >= 3 || p.held != nil) {
			kind = 0 // a request of <= 2 items that expires gets its peer dropped: only duplicate those
		}
		if kind != 0 {
			p.slow++
		}
		if kind == 2 {
			p.held = out
		}
		p.mu.Unlock()
		p.env.mu.Lock()
		p.env.faults[[]string{"duplicated", "delayed_past_expiry", "reordered"}[kind]]++
		p.env.mu.Unlock()
		switch kind {
		case 0:
			p.env.d.DeliverBodies(p.id, out)
			time.Sleep(time.Duration(1+r1%4) * time.Millisecond)
			p.env.d.DeliverBodies(p.id, out)
		case 1:
			time.Sleep(400 * time.Millisecond)
			p.env.d.DeliverBodies(p.id, out)
		case 2: // sent after the answer to the next request - or, if no further request comes, late anyway
			go func() {
				time.Sleep(500 * time.Millisecond)
				p.mu.Lock()
				late := p.held
				p.held = nil
				p.mu.Unlock()
				if late != nil {
					p.env.d.DeliverBodies(p.id, late)
				}
			}()
		}
		return nil
	}
	p.env.d.DeliverBodies(p.id, out)
	p.mu.Lock()
	late := p.held
	p.held = nil
	p.mu.Unlock()
	if late != nil {
		p.env.d.DeliverBodies(p.id, late)
	}
	return nil
}

var (
	e2eTxMu    sync.Mutex
	e2eTxMemo  = map[int]*types.Transaction{}
	e2eQueueMu sync.Mutex
)

func e2eTx(id int) *types.Transaction {
	e2eTxMu.Lock()
	defer e2eTxMu.Unlock()
	if t, ok := e2eTxMemo[id]; ok {
		return t
	}
	t := types.NewTransaction(uint64(id), common.BytesToAddress([]byte{byte(id), byte(id >> 8), 9}), big.NewInt(int64(id)+1), 21000, big.NewInt(1), nil)
	e2eTxMemo[id] = t
	return t
}

// ---- one run ----------------------------------------------------------------------------

type e2eResult struct {
	hits        []string
	class       string
	inserted    int
	drops       int
	faults      map[string]int
	expiredReqs int
}

func runE2E(sc *E2EScenario) e2eResult {
	var res e2eResult
	hit := func(s string) { res.hits = append(res.hits, "e2e: "+s) }
	n := len(sc.Bodies)
	// headers
	headers := make([]*types.Header, n)
	env := &e2eEnv{bodies: map[common.Hash][]*types.Transaction{}, dropped: map[string]bool{}, left: map[string]bool{}, reqs: map[string]int{}, faults: map[string]int{}}
	parent := common.BytesToHash([]byte("c18-e2e-origin"))
	for i := 0; i < n; i++ {
		var txs types.Transactions
		for _, id := range sc.Bodies[i] {
			txs = append(txs, e2eTx(id))
		}
		h := &types.Header{Number: new(big.Int).SetUint64(sc.Origin + 1 + uint64(i)), ParentHash: parent, Subsidy: big.NewInt(0),
			GasRewards: big.NewInt(0), GasLimit: 8000000, Time: 2000 + uint64(i), TxHash: types.DeriveSha(txs), Extra: []byte("e2e")}
		headers[i] = h
		parent = h.Hash()
		env.bodies[h.Hash()] = txs
	}
	chain := &e2eChain{}
	env.d = dl.New(chain, nil, youdb.NewMemDatabase(), func(id string) {
		env.mu.Lock()
		env.dropped[id] = true
		env.mu.Unlock()
		env.d.UnregisterPeer(id)
	}, new(event.TypeMux))
	d := env.d
	defer d.Terminate()
	ids := make([]string, len(sc.Peers))
	for i, ps := range sc.Peers {
		ids[i] = fmt.Sprintf("e%02d-%s", i, pkNames[ps.Kind])
		d.RegisterPeer(ids[i], &e2ePeer{id: ids[i], spec: ps, env: env, rng: vf.NewRng(ps.Seed + 1)})
	}
	mk := sc.Peers[sc.Master].Kind
	master := ids[sc.Master]
	// one sync cycle over headers[from:], origin = number of headers[from] - 1
	runCycle := func(from int, cutMS int) (error, bool, []*types.Block) {
		origin := sc.Origin + uint64(from)
		chain.mu.Lock()
		chain.inserted = nil
		chain.mu.Unlock()
		e2eQueueMu.Lock()
		d.VerifC18BeginSync(master, origin, sc.CacheItems)
		e2eQueueMu.Unlock()
		q := d.VerifC18Queue()
		fetchErr := make(chan error, 1)
		procErr := make(chan error, 1)
		feedDone := make(chan struct{})
		go func() { fetchErr <- d.VerifC18FetchBodies() }()
		go func() { procErr <- d.VerifC18ProcessFullSyncContent(origin) }()
		go func() { // what processHeaders does with the header stream
			defer close(feedDone)
			next := origin + 1
			for i := from; i < n; i += sc.Chunk {
				j := i + sc.Chunk
				if j > n {
					j = n
				}
				q.Schedule(headers[i:j], next)
				next += uint64(j - i)
				d.VerifC18WakeBodies(true)
				time.Sleep(time.Duration(sc.PauseMS) * time.Millisecond)
			}
			d.VerifC18WakeBodies(false)
		}()
		var err error
		timedOut := false
		limit := 12 * time.Second
		if mk != pkHonest && mk != pkTruncating {
			limit = 1500 * time.Millisecond // nothing is expected of such a run but safety
		}
		if sc.Peers[sc.Master].Faults > 0 {
			limit = 6 * time.Second // watchdog of the message-fault family
		}
		if cutMS > 0 {
			limit = time.Duration(cutMS) * time.Millisecond
		}
		select {
		case err = <-fetchErr:
		case <-time.After(limit):
			if os.Getenv("C18_E2E_DEBUG") != "" {
				dmp := q.VerifC18Dump()
				busy, reg := d.VerifC18BodyBusy(master)
				env.mu.Lock()
				fmt.Printf("DEBUG stuck: queue=%d pend=%d done=%d offset=%d processable=%d masterBusy=%v registered=%v reqs=%v faults=%v dropped=%v\n",
					len(dmp.TaskQueue), len(dmp.PendPool), len(dmp.DonePool), dmp.Offset, dmp.Processable, busy, reg, env.reqs, env.faults, env.dropped)
				env.mu.Unlock()
			}
			timedOut = true
			d.Cancel()
			err = <-fetchErr
		}
		q.Close()
		select {
		case <-procErr:
		case <-time.After(5 * time.Second):
			hit("processFullSyncContent does not return after the queue was closed")
		}
		d.Cancel()
		<-feedDone
		chain.mu.Lock()
		ins := append([]*types.Block{}, chain.inserted...)
		chain.mu.Unlock()
		// importer-side safety: ascending, gap free from this cycle's origin, the scheduled headers, matching bodies
		for i, b := range ins {
			want := origin + 1 + uint64(i)
			if b.NumberU64() != want {
				hit(fmt.Sprintf("importer received block %d at position %d of the cycle from origin %d, expected %d", b.NumberU64(), i, origin, want))
				break
			}
			if from+i >= n || b.Hash() != headers[from+i].Hash() {
				hit(fmt.Sprintf("importer received a block %d that is not the scheduled header", want))
				break
			}
			if types.DeriveSha(b.Transactions()) != b.Header().TxHash {
				hit(fmt.Sprintf("importer received block %d with a transaction list that does not match its transaction root", want))
				break
			}
		}
		return err, timedOut, ins
	}
	judge := func(what string, from int, err error, timedOut bool, ins []*types.Block) string {
		env.mu.Lock()
		masterGone := env.dropped[master] || env.left[master]
		res.drops = len(env.dropped)
		res.faults = map[string]int{}
		for k, v := range env.faults {
			res.faults[k] = v
		}
		env.mu.Unlock()
		switch {
		case mk != pkHonest && mk != pkTruncating:
			return "e2e_no_honest_master_" + errName(err, timedOut)
		case masterGone:
			return "e2e_inconclusive_honest_master_expired_by_timing"
		case err == nil && !timedOut && len(ins) == n-from:
			return "e2e_completed"
		}
		faulty := ""
		if sc.Peers[sc.Master].Faults > 0 {
			faulty = fmt.Sprintf(" (some of its replies were duplicated / delayed past expiry / reordered: %v)", res.faults)
		}
		hit(fmt.Sprintf("%sdownload does not complete although the honest %s master peer stayed connected and answered every request it received%s: %d of %d blocks imported, fetchBodies returned %s",
			what, pkNames[mk], faulty, len(ins), n-from, errName(err, timedOut)))
		return "e2e_FAILED_" + errName(err, timedOut)
	}
	err, timedOut, ins := runCycle(0, sc.CutMS)
	res.inserted = len(ins)
	if sc.SecondBack == 0 {
		res.class = judge("", 0, err, timedOut, ins)
		return res
	}
	// second cycle on the same queue object, from below what the first one handed out
	if sc.CutMS == 0 {
		if c := judge("first cycle: ", 0, err, timedOut, ins); c != "e2e_completed" && c != "e2e_no_honest_master_"+errName(err, timedOut) {
			res.class = c
			return res
		}
	}
	from2 := len(ins) - sc.SecondBack
	if from2 < 0 {
		from2 = 0
	}
	if from2 >= n {
		from2 = n - 1
	}
	// peers that were dropped or left reconnect
	env.mu.Lock()
	for i, ps := range sc.Peers {
		if env.dropped[ids[i]] || env.left[ids[i]] {
			delete(env.dropped, ids[i])
			delete(env.left, ids[i])
			sp := ps
			if sp.Kind == pkDisconnecting {
				sp.Param += 2
			}
			d.RegisterPeer(ids[i], &e2ePeer{id: ids[i], spec: sp, env: env, rng: vf.NewRng(ps.Seed + 7)})
		}
	}
	env.mu.Unlock()
	time.Sleep(5 * time.Millisecond)
	err2, timedOut2, ins2 := runCycle(from2, 0)
	res.inserted += len(ins2)
	c := judge(fmt.Sprintf("second sync cycle (origin %d, the first cycle had handed out up to block %d): ", sc.Origin+uint64(from2), sc.Origin+uint64(len(ins))), from2, err2, timedOut2, ins2)
	if strings.HasPrefix(c, "e2e_") {
		c = "e2e_two_cycles_" + strings.TrimPrefix(c, "e2e_")
	}
	res.class = c
	return res
}

func errName(err error, timedOut bool) string {
	switch {
	case timedOut:
		return "cancelled_by_harness_deadline"
	case err == nil:
		return "nil"
	case err == dl.VerifC18ErrNoPeers:
		return "errNoPeers"
	case err == dl.VerifC18ErrPeersUnavailable:
		return "errPeersUnavailable"
	case err == dl.VerifC18ErrTimeout:
		return "errTimeout"
	case err == dl.VerifC18ErrCanceled:
		return "errCanceled"
	case err == dl.VerifC18ErrInvalidChain:
		return "errInvalidChain"
	}
	return "other_error"
}

// ---- campaign ---------------------------------------------------------------------------

func genE2E(rng *vf.Rng) *E2EScenario {
	sc := &E2EScenario{Origin: []uint64{0, 9, 1000}[rng.Intn(3)], CacheItems: []int{4, 8, 16, 64}[rng.Intn(4)],
		Chunk: 1 + rng.Intn(40), PauseMS: rng.Intn(3)}
	n := 5 + rng.Heavy(150)
	emptyBias := rng.Intn(100)
	for i := 0; i < n; i++ {
		var b []int
		if !rng.Chance(emptyBias) {
			for k := 1 + rng.Intn(3); k > 0; k-- {
				b = append(b, rng.Intn(20))
			}
		}
		sc.Bodies = append(sc.Bodies, b)
	}
	np := 1 + rng.Intn(6)
	for i := 0; i < np; i++ {
		k := []int{pkHonest, pkTruncating, pkTruncating, pkStalling, pkStalling, pkLying, pkDisconnecting, pkEmpty}[rng.Intn(8)]
		sc.Peers = append(sc.Peers, E2EPeer{Kind: k, Param: 1 + rng.Intn(3), Seed: rng.U64()})
	}
	// the master is an honest or truncating peer in 85% of the runs
	if rng.Chance(85) {
		sc.Master = rng.Intn(np)
		sc.Peers[sc.Master].Kind = []int{pkHonest, pkTruncating, pkTruncating}[rng.Intn(3)]
	} else {
		sc.Master = rng.Intn(np)
		for i := range sc.Peers {
			if sc.Peers[i].Kind == pkHonest || sc.Peers[i].Kind == pkTruncating {
				sc.Peers[i].Kind = pkStalling
			}
		}
	}
	if rng.Chance(30) { // message-fault family: ONE honest peer whose replies get duplicated / delayed / reordered; the others stall or are absent
		sc.Peers = []E2EPeer{{Kind: []int{pkHonest, pkHonest, pkTruncating}[rng.Intn(3)], Param: 2 + rng.Intn(6), Seed: rng.U64(), Faults: 15 + rng.Intn(50)}}
		for k := rng.Intn(3); k > 0; k-- {
			sc.Peers = append(sc.Peers, E2EPeer{Kind: pkStalling, Seed: rng.U64()})
		}
		sc.Master = 0
		if len(sc.Bodies) < 30 {
			for len(sc.Bodies) < 30+rng.Intn(60) {
				sc.Bodies = append(sc.Bodies, []int{rng.Intn(20)})
			}
		}
	}
	if rng.Chance(35) { // two sync cycles, the second from below what the first handed out
		sc.SecondBack = 1 + rng.Intn(6)
		if rng.Chance(50) {
			sc.CutMS = 5 + rng.Intn(60)
		}
	}
	return sc
}

type e2eHit struct {
	What string       `json:"what"`
	E2E  *E2EScenario `json:"e2e"`
}

// e2eCampaign runs count scenarios on `workers` goroutines.
func e2eCampaign(seed uint64, count, workers int, res *vf.Result) {
	dl.VerifC18SetTiming(10*time.Millisecond, 10*time.Millisecond, 150*time.Millisecond)
	dl.VerifC18NewQueue(64, 64*1024*1024) // restores blockCacheMemory
	rng := vf.NewRng(seed ^ 0xE2E)
	scs := make([]*E2EScenario, count)
	for i := range scs {
		scs[i] = genE2E(rng)
	}
	out := make([]e2eResult, count)
	var wg sync.WaitGroup
	next := make(chan int, count)
	for i := range scs {
		next <- i
	}
	close(next)
	for w := 0; w < workers; w++ {
		wg.Add(1)
		go func() {
			defer wg.Done()
			for i := range next {
				out[i] = runE2E(scs[i])
			}
		}()
	}
	wg.Wait()
	kinds := map[string]int{}
	imported := 0
	for i, r := range out {
		res.Distribution[r.class]++
		imported += r.inserted
		for _, p := range scs[i].Peers {
			kinds[pkNames[p.Kind]]++
		}
		res.Distribution["e2e_peers_dropped_after_expiry"] += r.drops
		for k, v := range r.faults {
			res.Distribution["e2e_honest_reply_"+k] += v
		}
		if scs[i].Peers[scs[i].Master].Faults > 0 {
			res.Distribution["e2e_runs_with_message_faults_on_the_single_honest_peer"]++
		}
		for _, w := range r.hits {
			if len(res.OracleHits) < 6 {
				res.OracleHits = append(res.OracleHits, e2eHit{w, scs[i]})
			}
		}
	}
	ks := make([]string, 0, len(kinds))
	for k := range kinds {
		ks = append(ks, k)
	}
	sort.Strings(ks)
	for _, k := range ks {
		res.Distribution["e2e_peer_"+k] += kinds[k]
	}
	res.Distribution["e2e_runs"] += count
	res.Extra["e2e_runs"] = count
	res.Extra["e2e_blocks_imported"] = imported
}
