// C04 harness: drives the sortition code of the working tree
// (consensus/ucon: search, choose, MakeM, computePriority, VrfSortition,
// VrfVerifySortition, VrfVerifyPriority with the real secp256k1 VRF), writes
// the cases (inputs + observed results) as a Coq file for the comparison with
// coq/C04/Model.v, and evaluates the property oracle on the implementation's
// own observations: the seat count must be the least j whose binomial
// distribution function (computed here with 640-bit floats, independently of
// the Coq model) reaches hash/(2^256-1), within the float band; credentials
// must be rejected under every single-field perturbation; a priority is
// accepted only if it is the maximum of the winner's seat hashes.
package main

import (
	"bytes"
	"crypto/ecdsa"
	"crypto/elliptic"
	"crypto/sha256"
	"encoding/hex"
	"encoding/json"
	"flag"
	"fmt"
	"io/ioutil"
	"math/big"
	"os"
	"path/filepath"
	"runtime/debug"
	"sort"
	"strings"
	"time"

	"github.com/youchainhq/go-youchain/common"
	"github.com/youchainhq/go-youchain/consensus"
	"github.com/youchainhq/go-youchain/consensus/ucon"
	"github.com/youchainhq/go-youchain/core/state"
	"github.com/youchainhq/go-youchain/core/types"
	"github.com/youchainhq/go-youchain/crypto"
	"github.com/youchainhq/go-youchain/crypto/vrf"
	secp256k1VRF "github.com/youchainhq/go-youchain/crypto/vrf/secp256k1"
	"github.com/youchainhq/go-youchain/params"
	"github.com/youchainhq/go-youchain/rlp"
	"verif/harness/vf"
)

const prec = 640

// stable key of the finding fixed by commit 839997b (a regression is reported under it)
// stable key of the open finding on the gossip path (fixes/C04_verify_priority_ignores_invalid.md)
const whatServer = "Server.verifyPriority accepts a proposer priority that VrfVerifyPriority reports as invalid (not the largest hash over the seats)"

const whatPanic = "choose panics (cephes: parameter out of bounds) when the committee size exceeds the total stake"

var maxHash = ucon.VerifC04MaxHash()

// what the probe saw: Server.verifyPriority returns an error for a wrong priority
var srvRepaired bool

// Rec is one replayable input (also the JSON stored in corpus / oracle hits).
type Rec struct {
	Kind      string   `json:"kind"` // search choose makem prio sort verify verifyprio
	What      string   `json:"what,omitempty"`
	N         int64    `json:"n,omitempty"`
	Tbl       []bool   `json:"tbl,omitempty"`
	Hash      string   `json:"hash,omitempty"` // hex, 32 bytes
	W         int64    `json:"w,omitempty"`
	A         string   `json:"a,omitempty"` // p = A/B
	B         string   `json:"b,omitempty"`
	Seed      string   `json:"seed,omitempty"`
	Role      uint32   `json:"role,omitempty"`
	Index     uint32   `json:"index,omitempty"`
	J         int64    `json:"j,omitempty"`
	Key       string   `json:"key,omitempty"` // hex private key
	Threshold uint64   `json:"threshold,omitempty"`
	Stake     int64    `json:"stake,omitempty"`
	Total     string   `json:"total,omitempty"`
	Perturb   string   `json:"perturb,omitempty"`
	PArg      int64    `json:"parg,omitempty"`
	Env       []MgrEnv `json:"env,omitempty"`
	Ops       []MgrOp  `json:"ops,omitempty"`
	Got       string   `json:"got,omitempty"`
	Comment   string   `json:"comment,omitempty"`
}

// MgrEnv is what the stub look-back providers return for one round.
type MgrEnv struct {
	Round    uint64 `json:"round"`
	Stake    int64  `json:"stake"`
	Total    int64  `json:"total"`
	PTh      uint64 `json:"pth"`
	VTh      uint64 `json:"vth"`
	CTh      uint64 `json:"cth"`
	Kind     uint8  `json:"kind"`
	Status   uint8  `json:"status"`
	ErrStake bool   `json:"errstake,omitempty"`
	SeedPos  string `json:"seedpos"`
	SeedCert string `json:"seedcert"`
	ErrSeed  bool   `json:"errseed,omitempty"`
}

// MgrOp is one call on the sortition manager: clear, proposer, validator, get.
type MgrOp struct {
	Op    string `json:"op"`
	Round uint64 `json:"round"`
	Index uint32 `json:"index,omitempty"`
	Step  uint32 `json:"step,omitempty"`
}

func bf(x *big.Int) *big.Float      { return new(big.Float).SetPrec(prec).SetInt(x) }
func bfi(x int64) *big.Float        { return new(big.Float).SetPrec(prec).SetInt64(x) }
func bff(x float64) *big.Float      { return new(big.Float).SetPrec(prec).SetFloat64(x) }
func newf() *big.Float              { return new(big.Float).SetPrec(prec) }
func bigOf(s string) *big.Int       { x, _ := new(big.Int).SetString(s, 10); return x }
func hashOf(x *big.Int) common.Hash { return common.BigToHash(x) }

// ---- independent statement of the quantile ---------------------------------

type dist struct {
	n     int64
	p, q  *big.Float
	ratio *big.Float
	j     int64
	pm    *big.Float // pmf(j)
	cdf   *big.Float // cdf(j)
	prev  *big.Float // cdf(j-1)
	tmp   *big.Float
}

func newDist(n int64, a, b *big.Int) *dist {
	d := &dist{n: n}
	d.p = newf().Quo(bf(a), bf(b))
	d.q = newf().Sub(bfi(1), d.p)
	pm := bfi(1)
	base := newf().Set(d.q)
	for e := n; e > 0; e >>= 1 {
		if e&1 == 1 {
			pm.Mul(pm, base)
		}
		base.Mul(base, base)
	}
	d.ratio = newf()
	if d.q.Sign() != 0 {
		d.ratio.Quo(d.p, d.q)
	}
	d.pm = pm
	d.cdf = newf().Set(pm)
	d.prev = newf()
	d.tmp = newf()
	return d
}

// step advances to j+1 (j < n)
func (d *dist) step() {
	d.prev.Set(d.cdf)
	if d.j+1 >= d.n {
		d.j++
		d.cdf.SetInt64(1)
		return
	}
	d.tmp.SetInt64(d.n - d.j)
	d.pm.Mul(d.pm, d.tmp)
	d.tmp.SetInt64(d.j + 1)
	d.pm.Quo(d.pm, d.tmp)
	d.pm.Mul(d.pm, d.ratio)
	d.cdf.Add(d.cdf, d.pm)
	d.j++
}

func targetOf(hb *big.Int) *big.Float { return newf().Quo(bf(hb), bf(maxHash)) }

// quantile: least j in [0,n] with t <= cdf(j), with cdf(j-1), cdf(j).
// ok=false if more than maxSteps steps would be needed.
func quantile(t *big.Float, n int64, a, b *big.Int, maxSteps int64) (int64, *big.Float, *big.Float, bool) {
	if n <= 0 {
		return 0, newf(), bfi(1), true
	}
	if t.Cmp(bfi(1)) >= 0 && a.Sign() > 0 { // only cdf(n) = 1 reaches 1 when p > 0
		return n, cdfAt(n, a, b, min64(n-1, 0)), bfi(1), true
	}
	if a.Cmp(b) == 0 { // p = 1
		if t.Sign() == 0 {
			return 0, newf(), newf(), true
		}
		return n, newf(), bfi(1), true
	}
	// the quantile lies within a few standard deviations of the mean: do not
	// start a walk that cannot finish within maxSteps
	if mean := new(big.Int).Div(new(big.Int).Mul(big.NewInt(n), a), b); mean.Cmp(big.NewInt(maxSteps*9/10)) > 0 {
		return 0, nil, nil, false
	}
	d := newDist(n, a, b)
	for d.j < n {
		if t.Cmp(d.cdf) <= 0 {
			return d.j, d.prev, d.cdf, true
		}
		if d.j > maxSteps {
			return 0, nil, nil, false
		}
		d.step()
	}
	return n, d.prev, bfi(1), true
}

func cdfAt(n int64, a, b *big.Int, j int64) *big.Float {
	if j < 0 {
		return newf()
	}
	if j >= n {
		return bfi(1)
	}
	if a.Cmp(b) == 0 {
		return newf()
	}
	d := newDist(n, a, b)
	for d.j < j {
		d.step()
	}
	return d.cdf
}

func fmin(a, b *big.Float) *big.Float {
	if a.Cmp(b) <= 0 {
		return a
	}
	return b
}

// near: |t-c| <= eps * min(c,1-c), eps = 1e-9 + n*2e-14 + (j+2)/p * 2^-50
func near(t, c *big.Float, n int64, a, b *big.Int, j int64) bool {
	eps := bff(1e-9)
	eps.Add(eps, newf().Mul(bfi(n), bff(2e-14)))
	if a.Sign() > 0 {
		x := newf().Quo(newf().Mul(bfi(j+2), bf(b)), bf(a))
		x.Quo(x, bf(new(big.Int).Lsh(big.NewInt(1), 50)))
		eps.Add(eps, x)
	}
	d := newf().Sub(t, c)
	d.Abs(d)
	m := fmin(c, newf().Sub(bfi(1), c))
	return d.Cmp(newf().Mul(eps, m)) <= 0
}

// callChoose runs the implementation; panicked=true if it panicked.
func callChoose(h common.Hash, w int64, p float64) (j int64, panicked bool, msg string) {
	defer func() {
		if r := recover(); r != nil {
			panicked = true
			msg = fmt.Sprint(r)
		}
	}()
	j = ucon.VerifC04Choose(h, big.NewInt(w), p)
	return
}

func pFloat(a uint64, b *big.Int) float64 {
	f, _ := new(big.Float).Quo(new(big.Float).SetUint64(a), new(big.Float).SetInt(b)).Float64()
	return f
}

const maxOracleSteps = 60000

// oracleChoose: the property on one observation of choose.
func oracleChoose(hb *big.Int, n int64, a, b *big.Int, jg int64, panicked bool) string {
	if panicked {
		if a.Cmp(b) > 0 {
			return whatPanic
		}
		return "choose panics although 0 <= committee/total <= 1"
	}
	if jg < 0 || jg > n {
		return fmt.Sprintf("seat count %d outside [0, stake=%d]", jg, n)
	}
	if a.Cmp(b) > 0 {
		// repaired code: committee/total is clamped at 1, all of the stake is selected
		if (hb.Sign() > 0 && jg != n) || (hb.Sign() == 0 && jg != 0) {
			return fmt.Sprintf("committee exceeds the total stake and the seat count %d is not the whole stake %d", jg, n)
		}
		return ""
	}
	if hb.Cmp(maxHash) == 0 && a.Sign() == 0 {
		return "" // p = 0 and the single hash 2^256-1: documented corner (returns the stake)
	}
	t := targetOf(hb)
	js, cm, c, ok := quantile(t, n, a, b, maxOracleSteps)
	if !ok {
		return ""
	}
	if jg == js {
		return ""
	}
	if jg == js+1 && js < n && near(t, c, n, a, b, js) {
		return ""
	}
	if jg == js-1 && js >= 1 && near(t, cm, n, a, b, js) {
		return ""
	}
	return fmt.Sprintf("seat count %d is not the binomial quantile %d (outside the float band)", jg, js)
}

// ---- Coq printing ----------------------------------------------------------

// Coq Z literal; hexadecimal for big values (much cheaper to parse)
func zb(x *big.Int) string {
	if x.Sign() < 0 {
		return "(" + x.String() + ")"
	}
	if x.BitLen() > 40 {
		return "0x" + x.Text(16)
	}
	return x.String()
}
func zi(x int64) string         { return zb(big.NewInt(x)) }
func qCoq(a, b *big.Int) string { return fmt.Sprintf("(%s # %s)", zb(a), b.String()) }

// a byte string as one number: 1 followed by the bytes, base 256 (Model.bytes_key)
func bytesCoq(b []byte) string {
	return zb(new(big.Int).SetBytes(append([]byte{1}, b...)))
}
func tblCoq(t [][2]interface{}) string {
	var xs []string
	for _, e := range t {
		xs = append(xs, fmt.Sprintf("(%s, %s)", bytesCoq(e[0].([]byte)), zb(e[1].(*big.Int))))
	}
	return vf.List(xs)
}
func optZ(j int64, some bool) string {
	if some {
		return "(Some " + zi(j) + ")"
	}
	return "None"
}

// ---- running one record on the implementation ------------------------------

type outcome struct {
	coq   string // Coq case term ("" = not sent to Coq)
	coq2  string // a second Coq case of the same record
	what  string // oracle violation
	class string
	got   string
}

func keyOf(hexkey string) (vrf.PrivateKey, vrf.PublicKey) {
	d, _ := hex.DecodeString(hexkey)
	k, err := crypto.ToECDSA(d)
	if err != nil {
		return nil, nil
	}
	sk, err := secp256k1VRF.NewVRFSigner(k)
	if err != nil {
		return nil, nil
	}
	pk, err := secp256k1VRF.NewVRFVerifier(&k.PublicKey)
	if err != nil {
		return nil, nil
	}
	return sk, pk
}

// ---- the VRF, stated independently of PublicKey.ProofToHash ------------------

func ecdsaOf(hexkey string) *ecdsa.PrivateKey {
	d, _ := hex.DecodeString(hexkey)
	k, err := crypto.ToECDSA(d)
	if err != nil {
		return nil
	}
	return k
}

func pubOf(pk vrf.PublicKey) *ecdsa.PublicKey {
	if p, ok := pk.(*secp256k1VRF.PublicKey); ok {
		return p.PublicKey
	}
	return nil
}

var errRef = fmt.Errorf("invalid VRF proof")

// challenge: H2(G, H, pk, vrfData, U, V)
func vrfChallenge(pub *ecdsa.PublicKey, hx, hy *big.Int, vrfData []byte, ux, uy, vx, vy *big.Int) *big.Int {
	c := crypto.S256()
	var b bytes.Buffer
	b.Write(elliptic.Marshal(c, c.Params().Gx, c.Params().Gy))
	b.Write(elliptic.Marshal(c, hx, hy))
	b.Write(elliptic.Marshal(c, pub.X, pub.Y))
	b.Write(vrfData)
	b.Write(elliptic.Marshal(c, ux, uy))
	b.Write(elliptic.Marshal(c, vx, vy))
	return secp256k1VRF.H2(b.Bytes())
}

// refDecode: the accepted encodings of the VRF point: 65 bytes, tag 4,
// coordinates below the field prime, on the curve.  raw x, y and IsOnCurve(x,y)
// are reported whatever the tag is.
func refDecode(d []byte) (x, y *big.Int, onCurve, ok bool) {
	c := crypto.S256()
	if len(d) != 65 {
		return nil, nil, false, false
	}
	x, y = new(big.Int).SetBytes(d[1:33]), new(big.Int).SetBytes(d[33:65])
	func() {
		defer func() { recover() }()
		onCurve = c.IsOnCurve(x, y)
	}()
	ok = d[0] == 4 && x.Cmp(c.Params().P) < 0 && y.Cmp(c.Params().P) < 0 && onCurve
	return
}

// refDleq: the group-level check s == H2(G, H, pk, vrfData, [t]G+[s]pk, [t]H+[s](x,y))
func refDleq(pub *ecdsa.PublicKey, m, sB, tB []byte, x, y *big.Int, vrfData []byte) (ok bool) {
	defer func() {
		if recover() != nil {
			ok = false
		}
	}()
	c := crypto.S256()
	tGx, tGy := c.ScalarBaseMult(tB)
	ksGx, ksGy := c.ScalarMult(pub.X, pub.Y, sB)
	ux, uy := c.Add(tGx, tGy, ksGx, ksGy)
	hx, hy := secp256k1VRF.H1(m)
	tHx, tHy := c.ScalarMult(hx, hy, tB)
	sHx, sHy := c.ScalarMult(x, y, sB)
	vx, vy := c.Add(tHx, tHy, sHx, sHy)
	h2 := vrfChallenge(pub, hx, hy, vrfData, ux, uy, vx, vy)
	return new(big.Int).SetBytes(sB).Cmp(h2) == 0
}

// refP2H: ProofToHash as the VRF defines it (independent of the implementation's parsing)
func refP2H(pub *ecdsa.PublicKey, m, proof []byte) (out [32]byte, err error) {
	if pub == nil || len(proof) != 129 {
		return out, errRef
	}
	d := proof[64:129]
	x, y, _, ok := refDecode(d)
	if !ok || !refDleq(pub, m, proof[0:32], proof[32:64], x, y, d) {
		return out, errRef
	}
	return sha256.Sum256(d), nil
}

// libVsRef runs the implementation's ProofToHash and the reference on the same
// input; what != "" if they differ.
func libVsRef(pk vrf.PublicKey, m, proof []byte) (out [32]byte, err error, what string) {
	out, err = refP2H(pubOf(pk), m, proof)
	var lo [32]byte
	var lerr error
	func() {
		defer func() {
			if r := recover(); r != nil {
				lerr = fmt.Errorf("panic: %v", r)
			}
		}()
		lo, lerr = pk.ProofToHash(m, proof)
	}()
	switch {
	case lerr == nil && err != nil:
		what = "ProofToHash accepts a proof that is not a valid VRF proof for this key and message (non-canonical or foreign encoding accepted)"
	case lerr != nil && err == nil:
		what = "ProofToHash rejects a valid VRF proof: " + lerr.Error()
	case lerr == nil && lo != out:
		what = "ProofToHash returns another output than sha256 of the VRF point encoding"
	}
	return
}

// forgeProof: what the OWNER of the key can build: s and t are computed the way
// Evaluate does (fixed nonce from arg), over whatever point encoding the
// variant puts into the proof.
func forgeProof(k *ecdsa.PrivateKey, m []byte, variant string, arg int64) []byte {
	c := crypto.S256()
	P, N := c.Params().P, c.Params().N
	r := new(big.Int).Add(big.NewInt(0x5eed0000), big.NewInt(arg%100000+1))
	hx, hy := secp256k1VRF.H1(m)
	px, py := c.ScalarMult(hx, hy, k.D.Bytes()) // the genuine point [k]H1(m)
	vrfData := elliptic.Marshal(c, px, py)
	switch variant {
	case "forge_tag": // same point, another tag byte
		tags := []byte{0, 1, 2, 3, 5, 6, 7, 0x40, 0x84, 0xff, byte(arg)}
		vrfData[0] = tags[int(arg>>8)%len(tags)]
		if vrfData[0] == 4 {
			vrfData[0] = 6
		}
	case "forge_point": // another curve point: [k+1]H
		k1 := new(big.Int).Add(k.D, big.NewInt(1+arg%5))
		qx, qy := c.ScalarMult(hx, hy, k1.Bytes())
		vrfData = elliptic.Marshal(c, qx, qy)
	case "forge_negy": // the negated point
		vrfData = elliptic.Marshal(c, px, new(big.Int).Sub(P, py))
	case "forge_xgep": // a small point with X written as X + p (non-canonical coordinate)
		for x0 := int64(1); x0 < 200; x0++ {
			x := big.NewInt(x0)
			rhs := new(big.Int).Exp(x, big.NewInt(3), P)
			rhs.Add(rhs, big.NewInt(7)).Mod(rhs, P)
			if y := new(big.Int).ModSqrt(rhs, P); y != nil {
				xb := new(big.Int).Add(x, P).Bytes()
				yb := y.Bytes()
				vrfData = make([]byte, 65)
				vrfData[0] = 4
				copy(vrfData[33-len(xb):33], xb)
				copy(vrfData[65-len(yb):65], yb)
				break
			}
		}
	}
	rGx, rGy := c.ScalarBaseMult(r.Bytes())
	rHx, rHy := c.ScalarMult(hx, hy, r.Bytes())
	sv := vrfChallenge(&k.PublicKey, hx, hy, vrfData, rGx, rGy, rHx, rHy)
	tv := new(big.Int).Sub(r, new(big.Int).Mul(sv, k.D))
	tv.Mod(tv, N)
	out := make([]byte, 129)
	copy(out[32-len(sv.Bytes()):32], sv.Bytes())
	copy(out[64-len(tv.Bytes()):64], tv.Bytes())
	copy(out[64:], vrfData)
	switch variant {
	case "forge_trailing":
		out = append(out, byte(arg))
	case "forge_leadzero":
		out = append([]byte{0}, out...)
	case "forge_tplusn": // t + n has the same effect as t; only possible if it fits 32 bytes
		if tn := new(big.Int).Add(tv, N); tn.BitLen() <= 256 {
			copy(out[32:64], make([]byte, 32))
			copy(out[64-len(tn.Bytes()):64], tn.Bytes())
		}
	case "forge_flip":
		out[int(arg>>4)%129] ^= 1 << uint(arg%8)
	}
	return out
}

var forgeVariants = []string{"forge_nonce", "forge_tag", "forge_tag", "forge_tag", "forge_point", "forge_negy", "forge_xgep",
	"forge_trailing", "forge_leadzero", "forge_tplusn", "forge_flip"}

// runForge: the decoding step of ProofToHash on an owner-built proof.
// Oracle (uniqueness): whatever proof is accepted for (key, message) yields the
// output Evaluate gives; acceptance coincides with the VRF definition.
func runForge(rec *Rec, toCoq bool) outcome {
	var o outcome
	k := ecdsaOf(rec.Key)
	sk, pk := keyOf(rec.Key)
	if k == nil || sk == nil {
		o.class = "bad_key"
		return o
	}
	m := ucon.MakeM(hashHex(rec.Seed), rec.Role, rec.Index)
	honest, _ := sk.Evaluate(m)
	proof := forgeProof(k, m, rec.Perturb, rec.PArg)
	var lo [32]byte
	var lerr error
	func() {
		defer func() {
			if r := recover(); r != nil {
				lerr = fmt.Errorf("panic: %v", r)
			}
		}()
		lo, lerr = pk.ProofToHash(m, proof)
	}()
	_, _, what := libVsRef(pk, m, proof)
	o.what = what
	if lerr == nil && lo != honest {
		o.what = fmt.Sprintf("VRF output is not unique: an owner-built proof (%s) is accepted for the same key and message with output %x, Evaluate gives %x", rec.Perturb, lo[:6], honest[:6])
	}
	if rec.Perturb == "forge_nonce" && (lerr != nil || lo != honest) {
		o.what = "a proof built as Evaluate builds it (own nonce) is rejected"
	}
	acc := "reject"
	if lerr == nil {
		acc = "accept"
	}
	o.class = "vrfdecode_" + rec.Perturb + "_" + acc
	o.got = acc
	if toCoq {
		oc, dl := false, false
		sha := new(big.Int)
		if len(proof) == 129 {
			d := proof[64:129]
			x, y, onc, _ := refDecode(d)
			oc = onc
			if onc && x.Cmp(crypto.S256().Params().P) < 0 && y.Cmp(crypto.S256().Params().P) < 0 {
				dl = refDleq(pubOf(pk), m, proof[0:32], proof[32:64], x, y, d)
			}
			h := sha256.Sum256(d)
			sha = new(big.Int).SetBytes(h[:])
		}
		xs := make([]string, len(proof))
		for i, c := range proof {
			xs[i] = fmt.Sprint(c)
		}
		got := "None"
		if lerr == nil {
			got = "(Some " + zb(new(big.Int).SetBytes(lo[:])) + ")"
		}
		o.coq = fmt.Sprintf("CProof [%s] %s %s %s %s", strings.Join(xs, ";"), vf.Bool(oc), vf.Bool(dl), zb(sha), got)
	}
	return o
}

// ---- Server.verifyPriority (the gossip path) with stub chain state -----------

type stubVld struct {
	stat *state.ValidatorsStat
	val  *state.Validator
}

func (p *stubVld) GetValidatorsStat() (*state.ValidatorsStat, error) { return p.stat, nil }
func (p *stubVld) GetValidatorByMainAddr(a common.Address) *state.Validator {
	if a == p.val.MainAddress() {
		return p.val
	}
	return nil
}
func (p *stubVld) GetValidators() *state.Validators { return nil }

type stubChain struct {
	consensus.ChainReader
	hdr *types.Header
	vld state.ValidatorReader
}

func (c *stubChain) GetHeaderByNumber(n uint64) *types.Header                  { return c.hdr }
func (c *stubChain) GetVldReader(r common.Hash) (state.ValidatorReader, error) { return c.vld, nil }

// serverVerifyPriority: 0 accepted, 1 rejected, 5 panic, -1 not applicable
func serverVerifyPriority(pub *ecdsa.PublicKey, seed common.Hash, index, role uint32, proof []byte, prio common.Hash, sub uint32, th uint64, stake, total *big.Int) (code int64) {
	if pub == nil || total.Sign() <= 0 || stake.Cmp(total) > 0 || !stake.IsInt64() || !total.IsInt64() {
		return -1
	}
	defer func() {
		if r := recover(); r != nil {
			code = 5
		}
	}()
	addr := crypto.PubkeyToAddress(*pub)
	val := state.NewValidator("v", addr, addr, params.RoleChancellor, crypto.CompressPubkey(pub), nil, new(big.Int).Mul(stake, big.NewInt(1000)), stake, 0, 0, 0, params.ValidatorOnline)
	stat := state.NewValidatorsStat()
	stat.GetByKind(params.KindChamber).AddVal(val)
	if rest := new(big.Int).Sub(total, stake); rest.Sign() > 0 {
		stat.GetByKind(params.KindChamber).AddVal(state.NewValidator("w", common.Address{9}, common.Address{9}, params.RoleChancellor, nil, nil, new(big.Int).Mul(rest, big.NewInt(1000)), rest, 0, 0, 0, params.ValidatorOnline))
	}
	cons, _ := rlp.EncodeToBytes(&ucon.BlockConsensusData{Round: big.NewInt(1), Seed: seed})
	hdr := &types.Header{Number: big.NewInt(1), Consensus: cons}
	var yp params.YouParams
	for _, v := range params.Versions {
		yp = v
	}
	yp.ProposerThreshold = th
	data := &ucon.ConsensusCommon{Round: big.NewInt(10), RoundIndex: index, Step: role, Priority: prio, SortitionProof: proof, SubUsers: sub}
	if err := ucon.VerifC04ServerVerifyPriority(&stubChain{hdr: hdr, vld: &stubVld{stat, val}}, &yp, big.NewInt(10), pub, data); err != nil {
		return 1
	}
	return 0
}

// serverRepaired: does the working tree's Server.verifyPriority reject a wrong priority?
func serverRepaired() bool {
	sk, pk := keyOf(fmt.Sprintf("%064x", 3))
	seed := common.HexToHash("0xaa624d806402ab4f06e70b6491ad21d270c86024356b8a1fbcadb5f0945d0984")
	_, proof, j, _ := callSortition(sk, seed, 1, 1, 26, big.NewInt(30), big.NewInt(50))
	return serverVerifyPriority(pubOf(pk), seed, 1, 1, proof, common.Hash{0xff}, j, 26, big.NewInt(30), big.NewInt(50)) != 0
}

func hashHex(s string) common.Hash { return common.HexToHash(s) }
func hInt(h common.Hash) *big.Int  { return new(big.Int).SetBytes(h[:]) }

func minBE(i int64) []byte { return big.NewInt(i).Bytes() }

func keccakInt(b []byte) *big.Int { return new(big.Int).SetBytes(crypto.Keccak256(b)) }

// Independent statement of the priority (the rule of computePriority in the
// unchanged code): the largest, as a 256-bit number, of
// Keccak256(vrfOutput ++ seat) over the seats 0..j, the seat number in its
// minimal big-endian form (big.Int.Bytes: nothing for seat 0), starting from
// the zero hash.  Returns the maximum and the seat that attains it.
func prioSpecArg(h common.Hash, j int64) (*big.Int, int64) {
	mx, arg := new(big.Int), int64(-1)
	for i := int64(0); i <= j; i++ {
		v := keccakInt(append(append([]byte{}, h[:]...), minBE(i)...))
		if v.Cmp(mx) > 0 {
			mx, arg = v, i
		}
	}
	return mx, arg
}
func prioSpec(h common.Hash, j int64) *big.Int   { m, _ := prioSpecArg(h, j); return m }
func refPrio(h common.Hash, j int64) common.Hash { return common.BigToHash(prioSpec(h, j)) }

// libPrioWhat compares VrfComputePriority with the rule above.
func libPrioWhat(h common.Hash, j uint32) string {
	if got := ucon.VrfComputePriority(h, j); hInt(got).Cmp(prioSpec(h, int64(j))) != 0 {
		return fmt.Sprintf("VrfComputePriority(%d seats) is not the largest Keccak256(output ++ minimal big-endian seat) over the seats 0..%d", j, j)
	}
	return ""
}

// Keccak table for inputs h ++ suffix: (suffix, value) pairs.  Up to 80 seats
// the table is complete; beyond, it is sparse: the model reads an unknown input
// as 0, so the table holds the seats that decide the maximum for every bound
// the model may be asked (upto-3 .. upto), the byte-length boundaries of the
// seat number, and a few others.
func ktblFor(h common.Hash, upto int64) [][2]interface{} {
	var t [][2]interface{}
	done := map[string]bool{}
	add := func(suffix []byte) {
		if done[string(suffix)] {
			return
		}
		done[string(suffix)] = true
		k := append(append([]byte{}, h[:]...), suffix...)
		t = append(t, [2]interface{}{suffix, keccakInt(k)})
	}
	if upto <= 80 {
		for i := int64(0); i <= upto; i++ {
			add(minBE(i))
		}
	} else {
		for _, i := range []int64{0, 1, 2, 254, 255, 256, 257, 258, 511, 512, 65535, 65536, 65537, upto - 4, upto - 3, upto - 2, upto - 1, upto, upto / 2, upto / 3} {
			if i >= 0 && i <= upto {
				add(minBE(i))
			}
		}
		for b := upto - 6; b <= upto; b++ { // the seat attaining the maximum for each bound near upto
			if b >= 0 {
				_, arg := prioSpecArg(h, b)
				add(minBE(arg))
			}
		}
		// the little-endian spelling of boundary seats must not be what the model looks up
		add([]byte{0, 1})
		add([]byte{1, 1})
	}
	// decoys: other encodings of i must not be what the model looks up
	add([]byte{0})
	add([]byte{0, 0, 0, 1})
	return t
}

func errCode(ok bool, err error, panicked bool) int64 {
	if panicked {
		return 5
	}
	if err != nil {
		s := err.Error()
		switch {
		case strings.HasPrefix(s, "totalStake is 0"):
			return 1
		case strings.HasPrefix(s, "verify seed failed"):
			return 2
		case strings.HasPrefix(s, "not a validator"):
			return 3
		case strings.HasPrefix(s, "sub-users' number is not correct"):
			return 4
		}
		return 9
	}
	if ok {
		return 0
	}
	return 6
}

func callVerify(pk vrf.PublicKey, seed common.Hash, index, role uint32, proof []byte, sub uint32, th uint64, stake, total *big.Int) (code int64) {
	defer func() {
		if r := recover(); r != nil {
			code = 5
		}
	}()
	ok, err := ucon.VrfVerifySortition(pk, seed, index, role, proof, sub, th, stake, total)
	return errCode(ok, err, false)
}
func callVerifyPrio(pk vrf.PublicKey, seed common.Hash, index, role uint32, proof []byte, prio common.Hash, sub uint32, th uint64, stake, total *big.Int) (code int64) {
	defer func() {
		if r := recover(); r != nil {
			code = 5
		}
	}()
	ok, err := ucon.VrfVerifyPriority(pk, seed, index, role, proof, prio, sub, th, stake, total)
	return errCode(ok, err, false)
}
func callSortition(sk vrf.PrivateKey, seed common.Hash, index, role uint32, th uint64, stake, total *big.Int) (v common.Hash, proof []byte, j uint32, panicked bool) {
	defer func() {
		if r := recover(); r != nil {
			panicked = true
		}
	}()
	v, proof, j = ucon.VrfSortition(sk, seed, index, role, th, stake, total)
	return
}

// can the Coq model evaluate this distribution quickly enough?
func coqAffordable(n int64, b *big.Int) bool {
	return n <= 240 && n*int64(b.BitLen()) <= 2400
}

func run(rec *Rec, toCoq bool) outcome {
	var o outcome
	switch rec.Kind {
	case "search":
		f := func(h int64) bool {
			if h < 0 {
				return false
			}
			if h >= int64(len(rec.Tbl)) {
				return true
			}
			return rec.Tbl[h]
		}
		got := ucon.VerifC04Search(rec.N, f)
		o.got = fmt.Sprint(got)
		mono := true
		for i := 1; i < len(rec.Tbl); i++ {
			if rec.Tbl[i-1] && !rec.Tbl[i] {
				mono = false
			}
		}
		o.class = "search_arbitrary_predicate"
		if mono {
			o.class = "search_monotone_predicate"
		}
		if rec.N <= 0 {
			if got != 0 {
				o.what = "search on an empty range does not return 0"
			}
		} else {
			if got < 0 || got > rec.N {
				o.what = "search result outside [0,n]"
			} else if got < rec.N && !f(got) {
				o.what = "search result does not satisfy the predicate"
			} else if got > 0 && f(got-1) {
				o.what = "search result is not preceded by a failing index"
			} else if mono {
				first := rec.N
				for i := int64(0); i < rec.N; i++ {
					if f(i) {
						first = i
						break
					}
				}
				if got != first {
					o.what = "search does not return the least satisfying index of a monotone predicate"
				}
			}
		}
		var bs []string
		for _, b := range rec.Tbl {
			bs = append(bs, vf.Bool(b))
		}
		o.coq = fmt.Sprintf("CSearch %s %s %s", zi(rec.N), vf.List(bs), zi(got))
	case "choose":
		h := hashHex(rec.Hash)
		hb := hInt(h)
		a, b := bigOf(rec.A), bigOf(rec.B)
		p := pFloat(a.Uint64(), b)
		jg, panicked, _ := callChoose(h, rec.W, p)
		o.got = fmt.Sprintf("j=%d panicked=%v", jg, panicked)
		o.what = oracleChoose(hb, rec.W, a, b, jg, panicked)
		t, _ := targetOf(hb).Float64()
		switch {
		case panicked:
			o.class = "choose_panic_p_gt_1"
		case a.Cmp(b) > 0 && hb.Sign() > 0 && hb.Cmp(maxHash) < 0:
			o.class = "choose_committee_exceeds_total"
		case hb.Sign() == 0:
			o.class = "choose_hash_zero"
		case hb.Cmp(maxHash) == 0:
			o.class = "choose_hash_max"
		case t > 0.99:
			o.class = "choose_upper_tail_mirrored"
		case float64(rec.W)*p < 20:
			o.class = "choose_linear_scan"
		default:
			o.class = "choose_binary_search"
		}
		if toCoq && coqAffordable(rec.W, b) {
			o.coq = fmt.Sprintf("CChoose %s %s %s %s", zb(hb), zi(rec.W), qCoq(a, b), optZ(jg, !panicked))
		} else {
			o.class += "_large"
		}
	case "makem":
		seed := hashHex(rec.Seed)
		m := ucon.MakeM(seed, rec.Role, rec.Index)
		o.got = hex.EncodeToString(m)
		o.class = "makem"
		if len(m) != 40 {
			o.what = "MakeM is not 40 bytes"
		} else {
			// every input must be recoverable from the message (injectivity)
			if common.BytesToHash(m[:32]) != seed ||
				uint32(m[32])<<24|uint32(m[33])<<16|uint32(m[34])<<8|uint32(m[35]) != rec.Role ||
				uint32(m[36])<<24|uint32(m[37])<<16|uint32(m[38])<<8|uint32(m[39]) != rec.Index {
				o.what = "MakeM does not carry seed, step and round index in separate fields"
			}
		}
		o.coq = fmt.Sprintf("CMakeM %s %d %d %s", zb(hInt(seed)), rec.Role, rec.Index, bytesCoq(m))
	case "prio":
		h := hashHex(rec.Hash)
		got := ucon.VerifC04ComputePriority(h, big.NewInt(rec.J))
		o.got = got.Hex()
		o.class = "priority"
		if rec.J >= 0 && rec.J < 1<<32 {
			if g2 := ucon.VrfComputePriority(h, uint32(rec.J)); g2 != got {
				o.what = "VrfComputePriority differs from computePriority"
			}
		}
		o.class = "priority"
		switch {
		case rec.J >= 65536:
			o.class = "priority_seats_ge_65536"
		case rec.J >= 256:
			o.class = "priority_seats_ge_256"
		}
		if hInt(got).Cmp(prioSpec(h, rec.J)) != 0 {
			o.what = "priority is not the largest Keccak(hash ++ i) over i = 0..seats"
		}
		if toCoq && rec.J <= 3000 {
			o.coq = fmt.Sprintf("CPrio %s %s %s %s", zb(hInt(h)), zi(rec.J), tblCoq(ktblFor(h, rec.J+2)), zb(hInt(got)))
		}
	case "sort", "verify", "verifyprio":
		o = runProtocol(rec, toCoq)
	case "mgr":
		o = runManager(rec, toCoq)
	case "forge":
		o = runForge(rec, toCoq)
	}
	return o
}

// runManager drives the prover-side SortitionManager through a history of
// clears and queries with stub look-back providers.  Oracle: every view it
// returns for (round, index, step) verifies against the seed, stake and
// threshold of the round ASKED for.
func runManager(rec *Rec, toCoq bool) outcome {
	var o outcome
	o.class = "manager_history"
	sk, pk := keyOf(rec.Key)
	if sk == nil {
		o.class = "bad_key"
		return o
	}
	env := map[uint64]MgrEnv{}
	for _, e := range rec.Env {
		env[e.Round] = e
	}
	stakeFn := func(round *big.Int, addr common.Address, isProposer bool, lb params.LookBackType) (*big.Int, *big.Int, uint64, params.ValidatorKind, uint8, error) {
		e, ok := env[round.Uint64()]
		if !ok || e.ErrStake {
			return big.NewInt(0), big.NewInt(0), 0, params.KindValidator, params.ValidatorOffline, fmt.Errorf("no stake info")
		}
		th := e.VTh
		if isProposer {
			th = e.PTh
		} else if lb == params.LookBackCert {
			th = e.CTh
		}
		return big.NewInt(e.Stake), big.NewInt(e.Total), th, params.ValidatorKind(e.Kind), e.Status, nil
	}
	seedFn := func(round *big.Int, lb params.LookBackType) (common.Hash, error) {
		e, ok := env[round.Uint64()]
		if !ok || e.ErrSeed {
			return common.Hash{}, fmt.Errorf("no seed")
		}
		if lb == params.LookBackCert {
			return hashHex(e.SeedCert), nil
		}
		return hashHex(e.SeedPos), nil
	}
	lbOf := func(step uint32) params.LookBackType {
		if step == 5 { // Certificate
			return params.LookBackCert
		}
		return params.LookBackPos
	}
	sm := ucon.NewSortitionManager(sk, stakeFn, seedFn, common.Address{1})
	vt := [][2]interface{}{}
	seen := map[string]bool{}
	addMsg := func(m []byte) {
		if seen[string(m)] {
			return
		}
		seen[string(m)] = true
		v, _ := sk.Evaluate(m)
		vt = append(vt, [2]interface{}{append([]byte{}, m...), new(big.Int).SetBytes(v[:])})
	}
	var opsCoq, obsCoq, gotTxt []string
	for n, op := range rec.Ops {
		round := new(big.Int).SetUint64(op.Round)
		var flag bool
		var view *ucon.StepView
		step := op.Step
		isProp := false
		switch op.Op {
		case "clear":
			sm.ClearStepView(round)
			opsCoq = append(opsCoq, fmt.Sprintf("OClear %d", op.Round))
		case "proposer":
			step, isProp = ucon.UConStepProposal, true
			flag, view = sm.VerifC04IsProposer(round, op.Index)
			opsCoq = append(opsCoq, fmt.Sprintf("OProposer %d %d", op.Round, op.Index))
		case "validator":
			flag, view = sm.VerifC04IsValidator(round, op.Index, op.Step, lbOf(op.Step))
			opsCoq = append(opsCoq, fmt.Sprintf("OValidator %d %d %d", op.Round, op.Index, op.Step))
		case "get":
			view = sm.GetStepView(round, op.Index, op.Step)
			isProp = step == ucon.UConStepProposal
			opsCoq = append(opsCoq, fmt.Sprintf("OGet %d %d %d", op.Round, op.Index, op.Step))
		}
		// the message of the round asked for
		var asked []byte
		lb := lbOf(step)
		if isProp {
			lb = params.LookBackPos
		}
		if op.Op != "clear" {
			if sd, err := seedFn(round, lb); err == nil {
				asked = ucon.MakeM(sd, step, op.Index)
				if op.Op != "get" {
					addMsg(asked)
					if isProp {
						cm := append(append(append([]byte{}, sd[:]...), round.Bytes()...), byte(op.Index>>24), byte(op.Index>>16), byte(op.Index>>8), byte(op.Index))
						addMsg(cm)
					}
				}
			}
		}
		fl, hv, sub, thr, kind, pth := int64(0), int64(0), int64(0), int64(0), int64(0), int64(-3)
		seedv := new(big.Int)
		pthS := "(-3)"
		if flag {
			fl = 1
		}
		if view != nil {
			hv, sub, thr, kind = 1, int64(view.SubUsers), int64(view.Threshold), int64(view.ValidatorType)
			seedv = hInt(view.SeedValue)
			pth = -2
			pthS = "(-2)"
			if len(view.SortitionProof) > 0 {
				pth = -1
				pthS = "(-1)"
				where := fmt.Sprintf("op %d: %s(round %d, index %d, step %d)", n, op.Op, op.Round, op.Index, step)
				if asked != nil {
					if h, err, _ := libVsRef(pk, asked, view.SortitionProof); err == nil {
						pth = 0
						pthS = zb(new(big.Int).SetBytes(h[:]))
					}
				}
				if pth == -1 && o.what == "" {
					o.what = "sortition manager returned a credential that does not verify against the seed of the round asked for; " + where
				}
				if stake, total, th, _, _, err := stakeFn(round, common.Address{}, isProp, lb); err == nil && asked != nil && o.what == "" {
					sd, _ := seedFn(round, lb)
					code := callVerify(pk, sd, op.Index, step, view.SortitionProof, view.SubUsers, th, stake, total)
					if (view.SubUsers > 0) != (code == 0) || (view.SubUsers == 0 && code != 3) {
						o.what = fmt.Sprintf("sortition manager returned a credential (seats %d) that VrfVerifySortition does not accept for the round asked for (verdict %d); %s", view.SubUsers, code, where)
					}
					if isProp && o.what == "" {
						if h, herr, _ := libVsRef(pk, asked, view.SortitionProof); herr == nil && hInt(view.Priority).Cmp(prioSpec(common.Hash(h), int64(view.SubUsers))) != 0 {
							o.what = "sortition manager returned a proposer priority that is not the largest seat hash; " + where
						}
					}
					if isProp && o.what == "" {
						if pc := callVerifyPrio(pk, sd, op.Index, step, view.SortitionProof, view.Priority, view.SubUsers, th, stake, total); pc != 0 {
							o.what = fmt.Sprintf("sortition manager returned a proposer priority that VrfVerifyPriority does not accept for the round asked for (verdict %d); %s", pc, where)
						}
						if view.SubUsers > 0 {
							if want, _ := ucon.ComputeSeed(sk, round, op.Index, sd); want != view.SeedValue {
								o.what = "sortition manager returned a proposer view whose next seed is not ComputeSeed of the round asked for; " + where
							}
						}
					}
				}
			}
		}
		_ = pth
		obsCoq = append(obsCoq, fmt.Sprintf("mkObs %d %d %d %d %d %s %s", fl, hv, sub, thr, kind, zb(seedv), pthS))
		gotTxt = append(gotTxt, fmt.Sprintf("%d/%d/%d/%s", fl, hv, sub, pthS))
	}
	o.got = strings.Join(gotTxt, " ")
	if toCoq {
		var es []string
		for _, e := range rec.Env {
			es = append(es, fmt.Sprintf("(%d, mkEnv %d %d %d %d %d %d %d %s %s %s %s)", e.Round, e.Stake, e.Total, e.PTh, e.VTh, e.CTh, e.Kind, e.Status,
				vf.Bool(e.ErrStake), zb(hInt(hashHex(e.SeedPos))), zb(hInt(hashHex(e.SeedCert))), vf.Bool(e.ErrSeed)))
		}
		o.coq = fmt.Sprintf("CMgr %s %s %s %s", vf.List(es), tblCoq(vt), vf.List(opsCoq), vf.List(obsCoq))
	}
	return o
}

func genManager(r *vf.Rng) *Rec {
	rec := &Rec{Kind: "mgr", Key: fmt.Sprintf("%064x", 1+r.Intn(6))}
	base := uint64(1 + r.Intn(1000))
	if r.Chance(10) {
		base = r.U64() >> uint(1+r.Intn(40))
	}
	nr := 2 + r.Intn(2)
	for k := 0; k < nr; k++ {
		tot := int64(8 + r.Intn(50))
		e := MgrEnv{Round: base + uint64(k), Stake: int64(1 + r.Intn(12)), Total: tot, Kind: 1, Status: 1,
			PTh: uint64(1 + r.Intn(int(tot))), VTh: uint64(1 + r.Intn(int(tot))), CTh: uint64(1 + r.Intn(int(tot))),
			SeedPos: hex32(new(big.Int).SetBytes(r.Bytes(32))), SeedCert: hex32(new(big.Int).SetBytes(r.Bytes(32)))}
		if r.Chance(60) { // seats likely
			e.PTh, e.VTh, e.CTh = uint64(tot*2/3+1), uint64(tot*3/4+1), uint64(tot/2+1)
		}
		switch r.Intn(25) {
		case 0:
			e.Kind = 2
		case 1:
			e.Status = 0
		case 2:
			e.ErrStake = true
		case 3:
			e.ErrSeed = true
		case 4:
			e.Total = 0
		}
		rec.Env = append(rec.Env, e)
	}
	steps := []uint32{2, 3, 4, 5}
	q := func(round uint64, idx, step uint32) MgrOp {
		if step == 1 {
			return MgrOp{Op: "proposer", Round: round, Index: idx}
		}
		return MgrOp{Op: "validator", Round: round, Index: idx, Step: step}
	}
	rndRound := func() uint64 { return base + uint64(r.Intn(nr)) }
	rndStep := func() uint32 {
		if r.Chance(35) {
			return 1
		}
		return steps[r.Intn(len(steps))]
	}
	if r.Chance(55) {
		// straggler: the manager is cleared for round R+1, is then asked about
		// the older round R, and afterwards about R+1 with the same index and step
		R := base + uint64(r.Intn(nr-1))
		idx, st := uint32(r.Intn(3)), rndStep()
		if r.Chance(60) {
			rec.Ops = append(rec.Ops, MgrOp{Op: "clear", Round: R}, q(R, idx, st))
		}
		rec.Ops = append(rec.Ops, MgrOp{Op: "clear", Round: R + 1})
		for k := r.Intn(3); k > 0; k-- {
			rec.Ops = append(rec.Ops, q(rndRound(), uint32(r.Intn(3)), rndStep()))
		}
		rec.Ops = append(rec.Ops, q(R, idx, st))
		for k := r.Intn(3); k > 0; k-- {
			rec.Ops = append(rec.Ops, q(rndRound(), uint32(r.Intn(3)), rndStep()))
		}
		rec.Ops = append(rec.Ops, q(R+1, idx, st), MgrOp{Op: "get", Round: R + 1, Index: idx, Step: st}, q(R, idx, st))
	}
	for k := 2 + r.Intn(8); k > 0; k-- {
		switch r.Intn(10) {
		case 0, 1:
			rec.Ops = append(rec.Ops, MgrOp{Op: "clear", Round: rndRound()})
		case 2:
			rec.Ops = append(rec.Ops, MgrOp{Op: "get", Round: rndRound(), Index: uint32(r.Intn(3)), Step: rndStep()})
		default:
			rec.Ops = append(rec.Ops, q(rndRound(), uint32(r.Intn(3)), rndStep()))
		}
	}
	return rec
}

// perturbations of a credential (single field each)
var perturbs = []string{"none", "none", "key", "key", "key_restake", "seed", "index", "role", "seed_index_role", "seats", "proof", "prooflen",
	"threshold", "stake", "total", "totalzero", "swaproleindex",
	"forge_tag", "forge_tag", "forge_tag", "forge_nonce", "forge_point", "forge_negy", "forge_trailing"}
var prioPerturbs = []string{"none", "none", "none", "priority_fewer", "priority_more", "priority_random",
	"priority_single", "seats", "seed", "key", "key_restake", "role", "index", "seed_index_role", "proof", "totalzero",
	"forge_tag", "forge_tag", "forge_tag", "forge_nonce", "forge_point", "forge_negy"}

func runProtocol(rec *Rec, toCoq bool) outcome {
	var o outcome
	sk, pk := keyOf(rec.Key)
	if sk == nil {
		o.class = "bad_key"
		return o
	}
	seed := hashHex(rec.Seed)
	stake := big.NewInt(rec.Stake)
	total := bigOf(rec.Total)
	th := rec.Threshold
	thB := new(big.Int).SetUint64(th)
	val, proof, j, panicked := callSortition(sk, seed, rec.Index, rec.Role, th, stake, total)
	m := ucon.MakeM(seed, rec.Role, rec.Index)
	// committee >= total: everything is selected, the model's distribution table is trivial
	affordable := total.Sign() == 0 || coqAffordable(rec.Stake, total) || (thB.Cmp(total) >= 0 && rec.Stake <= 1500)
	if rec.Kind == "sort" {
		o.class = "sortition"
		o.got = fmt.Sprintf("j=%d panicked=%v", j, panicked)
		gotJ := int64(j)
		if panicked {
			gotJ = -1
			o.class = "sortition_panic_p_gt_1"
			o.what = whatPanic
			if thB.Cmp(total) <= 0 {
				o.what = "VrfSortition panics although committee <= total"
			}
		} else if total.Sign() != 0 {
			if j > 0 {
				o.class = "sortition_selected"
			} else {
				o.class = "sortition_not_selected"
			}
			o.what = oracleChoose(hInt(val), rec.Stake, thB, total, int64(j), false)
			// the credential must verify under the issuer's key, exactly when j > 0
			h2, err, _ := libVsRef(pk, m, proof)
			if err != nil || h2 != [32]byte(val) {
				o.what = "VrfSortition's proof does not verify to its value"
			}
			code := callVerify(pk, seed, rec.Index, rec.Role, proof, j, th, stake, total)
			if (j > 0) != (code == 0) {
				o.what = fmt.Sprintf("verifier disagrees with prover: seats=%d verdict=%d", j, code)
			}
		} else {
			o.class = "sortition_total_zero"
			if j != 0 || proof != nil {
				o.what = "VrfSortition with zero total stake returns seats"
			}
		}
		if toCoq && affordable {
			vt := [][2]interface{}{}
			if total.Sign() != 0 {
				// value the real VRF gives for this message (Evaluate is deterministic in the value)
				v2, _ := sk.Evaluate(m)
				vt = append(vt, [2]interface{}{m, new(big.Int).SetBytes(v2[:])})
			}
			o.coq = fmt.Sprintf("CSort %s %d %d %d %s %s %s %s %s", zb(hInt(seed)), rec.Index, rec.Role, th, zi(rec.Stake), zb(total),
				tblCoq(vt), zb(hInt(val)), zi(gotJ))
		}
		return o
	}
	if panicked || total.Sign() == 0 {
		// VrfSortition issued nothing (panic / zero total): take the VRF output
		// directly so that the verifier is driven into the same class
		v2, p2 := sk.Evaluate(m)
		val, proof, j = common.Hash(v2), p2, 1
	}
	// The credential is first verified genuinely by both verifiers IN THIS
	// PROCESS (a verifier that remembers anything about an accepted proof is
	// warm when the changed credential arrives), then 0..3 unrelated genuine
	// verifications follow (distance), then the same proof bytes are presented
	// with one field changed.
	if !panicked && total.Sign() != 0 {
		c1 := callVerify(pk, seed, rec.Index, rec.Role, proof, j, th, stake, total)
		c2 := callVerifyPrio(pk, seed, rec.Index, rec.Role, proof, refPrio(val, int64(j)), j, th, stake, total)
		if (j > 0) != (c1 == 0) {
			o.what = fmt.Sprintf("genuine credential with %d seats: verdict %d", j, c1)
		} else if c2 != 0 {
			o.what = fmt.Sprintf("the genuine largest seat hash over %d seats is rejected as priority (code %d)", j, c2)
		} else if w := libPrioWhat(val, j); w != "" {
			o.what = w
		}
		for d := int64(0); d < rec.PArg%4; d++ {
			osk, opk := keyOf(fmt.Sprintf("%064x", 100+d+rec.PArg%7))
			oseed := common.BigToHash(keccakInt([]byte(fmt.Sprint(rec.PArg, d))))
			ov, op, oj, opan := callSortition(osk, oseed, rec.Index+uint32(d), rec.Role, th, stake, total)
			if !opan {
				callVerify(opk, oseed, rec.Index+uint32(d), rec.Role, op, oj, th, stake, total)
				callVerifyPrio(opk, oseed, rec.Index+uint32(d), rec.Role, op, ucon.VrfComputePriority(ov, oj), oj, th, stake, total)
			}
		}
	}
	warmWhat := o.what
	// the credential (pk, seed, index, role, proof, j) ; now perturb one field
	vpk, vseed, vindex, vrole, vproof, vsub, vth, vstake, vtotal := pk, seed, rec.Index, rec.Role, append([]byte{}, proof...), j, th, stake, total
	prio := refPrio(val, int64(j)) // the harness' own statement of the priority rule
	vprio := prio
	mustReject := false
	switch rec.Perturb {
	case "key":
		_, vpk = keyOf(fmt.Sprintf("%064x", rec.PArg+2))
		mustReject = true
	case "key_restake":
		// another validator (other key, other stake) presents the proof; the seat
		// count is re-computed from the proof's real output for that stake, so
		// only the proof binding stands between the forgery and acceptance
		_, vpk = keyOf(fmt.Sprintf("%064x", rec.PArg+2))
		vstake = big.NewInt(rec.Stake + 1 + rec.PArg%(rec.Stake+1))
		if thB.Cmp(total) <= 0 && total.Sign() != 0 {
			if js, _, _, ok := quantile(targetOf(hInt(val)), vstake.Int64(), thB, total, maxOracleSteps); ok {
				vsub = uint32(js)
			}
		}
		mustReject = true
	case "forge_nonce", "forge_tag", "forge_point", "forge_negy", "forge_trailing", "forge_tplusn":
		// the OWNER of the key builds the proof himself (s, t as Evaluate computes
		// them) and claims the seat count / priority of the output his encoding
		// hashes to; only the genuine encoding of the genuine point may pass
		if k := ecdsaOf(rec.Key); k != nil {
			for try := int64(0); try < 12; try++ {
				vproof = forgeProof(k, m, rec.Perturb, rec.PArg+try*256)
				if len(vproof) != 129 {
					break
				}
				fo := sha256.Sum256(vproof[64:129])
				vsub = j
				if thB.Cmp(total) <= 0 && total.Sign() != 0 {
					if js, _, _, ok := quantile(targetOf(new(big.Int).SetBytes(fo[:])), rec.Stake, thB, total, maxOracleSteps); ok {
						vsub = uint32(js)
					}
				}
				vprio = refPrio(common.Hash(fo), int64(vsub))
				if rec.Perturb != "forge_tag" || (vsub > 0 && vsub != j) {
					break // a tag whose output wins other seats than the honest one
				}
			}
		}
		mustReject = rec.Perturb != "forge_nonce" && rec.Perturb != "forge_tplusn"
	case "seed_index_role":
		vseed[rec.PArg%32] ^= 1 << uint(rec.PArg%8)
		vindex += uint32(1 + rec.PArg%3)
		vrole += uint32(1 + rec.PArg%5)
		mustReject = true
	case "seed":
		vseed[rec.PArg%32] ^= 1 << uint(rec.PArg%8)
		mustReject = true
	case "index":
		vindex += uint32(1 + rec.PArg%3)
		mustReject = true
	case "role":
		vrole += uint32(1 + rec.PArg%5)
		mustReject = true
	case "swaproleindex":
		vrole, vindex = vindex, vrole
		mustReject = vrole != vindex
	case "seats":
		if rec.PArg%2 == 0 {
			vsub++
		} else {
			vsub--
		}
		mustReject = true
	case "proof":
		if len(vproof) > 0 {
			vproof[int(rec.PArg)%len(vproof)] ^= 1 << uint(rec.PArg%8)
		}
		mustReject = true
	case "prooflen":
		if len(vproof) > 0 {
			vproof = vproof[:len(vproof)-1]
		}
		mustReject = true
	case "threshold":
		vth = th + 1 + uint64(rec.PArg%int64(th+1))
	case "stake":
		vstake = big.NewInt(rec.Stake + 1 + rec.PArg%(rec.Stake+1))
	case "total":
		vtotal = new(big.Int).Add(total, big.NewInt(1+rec.PArg%(total.Int64()+1)))
	case "totalzero":
		vtotal = big.NewInt(0)
		mustReject = true
	case "priority_fewer":
		if j > 0 {
			vprio = refPrio(val, rec.PArg%int64(j))
		}
	case "priority_more":
		vprio = refPrio(val, int64(j)+1+rec.PArg%3)
	case "priority_random":
		vprio = common.BigToHash(keccakInt([]byte(fmt.Sprint(rec.PArg))))
	case "priority_single":
		vprio = common.BigToHash(keccakInt(append(append([]byte{}, val[:]...), minBE(rec.PArg%int64(j+1))...)))
	}
	if rec.Perturb == "key_restake" {
		vprio = refPrio(val, int64(vsub))
	}
	vm := ucon.MakeM(vseed, vrole, vindex)
	// does the proof verify for exactly this key and message?  Answered by the
	// harness' own statement of the VRF; the implementation's ProofToHash is
	// compared with it (libWhat)
	pth, perr, libWhat := libVsRef(vpk, vm, vproof)
	vt := [][2]interface{}{}
	if perr == nil {
		vt = append(vt, [2]interface{}{vm, new(big.Int).SetBytes(pth[:])})
	}
	vthB := new(big.Int).SetUint64(vth)
	affordable = vtotal.Sign() == 0 || coqAffordable(vstake.Int64(), vtotal) || (vthB.Cmp(vtotal) >= 0 && vstake.Int64() <= 1500)
	// what the verifier must recompute (independent of the implementation's choose)
	expectJ := int64(-1) // unknown
	if perr == nil && vtotal.Sign() != 0 && vthB.Cmp(vtotal) <= 0 {
		t := targetOf(new(big.Int).SetBytes(pth[:]))
		if js, _, _, ok := quantile(t, vstake.Int64(), vthB, vtotal, maxOracleSteps); ok {
			expectJ = js
		}
	}
	if rec.Kind == "verify" {
		code := callVerify(vpk, vseed, vindex, vrole, vproof, vsub, vth, vstake, vtotal)
		o.got = fmt.Sprint(code)
		o.class = fmt.Sprintf("verify_%s_code%d", rec.Perturb, code)
		switch {
		case code == 5:
			o.what = whatPanic
			if vthB.Cmp(vtotal) <= 0 {
				o.what = "VrfVerifySortition panics although committee <= total"
			}
		case perr != nil && code != 1 && code != 2:
			o.what = fmt.Sprintf("VrfVerifySortition passed the proof check (verdict %d) although the proof does not verify for this key and MakeM(seed, step, index) (changed: %s)", code, rec.Perturb)
		case code == 0 && mustReject:
			o.what = "credential accepted after changing its " + rec.Perturb
		case code == 0 && vsub == 0:
			o.what = "credential with zero seats accepted"
		case code == 0 && expectJ >= 0 && absDiff(int64(vsub), expectJ) > 1:
			o.what = fmt.Sprintf("credential accepted for %d seats, the quantile is %d", vsub, expectJ)
		case code != 0 && rec.Perturb == "none" && j > 0 && !panicked && total.Sign() != 0:
			o.what = fmt.Sprintf("untouched credential with %d seats rejected (code %d)", j, code)
		}
		if o.what == "" {
			o.what = warmWhat
		}
		if o.what == "" {
			o.what = libWhat
		}
		if toCoq && affordable {
			o.coq = fmt.Sprintf("CVerify %s %d %d %d %d %s %s %s %d", zb(hInt(vseed)), vindex, vrole, vsub, vth, zb(vstake), zb(vtotal), tblCoq(vt), code)
		}
		return o
	}
	// verifyprio
	code := callVerifyPrio(vpk, vseed, vindex, vrole, vproof, vprio, vsub, vth, vstake, vtotal)
	o.got = fmt.Sprint(code)
	o.class = fmt.Sprintf("verifyprio_%s_code%d", rec.Perturb, code)
	switch {
	case code == 5:
		o.what = whatPanic
		if vthB.Cmp(vtotal) <= 0 {
			o.what = "VrfVerifyPriority panics although committee <= total"
		}
	case perr != nil && code != 1 && code != 2:
		o.what = fmt.Sprintf("VrfVerifyPriority passed the proof check (verdict %d) although the proof does not verify for this key and MakeM(seed, step, index) (changed: %s)", code, rec.Perturb)
	case code == 0 && mustReject:
		o.what = "priority accepted after changing the credential's " + rec.Perturb
	case code == 0 && perr == nil && hInt(vprio).Cmp(prioSpec(common.Hash(pth), int64(vsub))) != 0:
		o.what = "priority accepted although it is not the largest hash over the winner's seats"
	case code == 0 && expectJ >= 0 && absDiff(int64(vsub), expectJ) > 1:
		o.what = fmt.Sprintf("priority accepted for %d seats, the quantile is %d", vsub, expectJ)
	case code != 0 && rec.Perturb == "none" && !panicked && total.Sign() != 0:
		o.what = fmt.Sprintf("the genuine largest seat hash over %d seats is rejected as priority (code %d)", vsub, code)
	}
	if o.what == "" {
		o.what = warmWhat
	}
	if o.what == "" {
		o.what = libWhat
	}
	// the gossip path: Server.verifyPriority must accept exactly what VrfVerifyPriority accepts
	srv := serverVerifyPriority(pubOf(vpk), vseed, vindex, vrole, vproof, vprio, vsub, vth, vstake, vtotal)
	if srv >= 0 {
		o.class += fmt.Sprintf("_server%d", srv)
		if o.what == "" && srv == 0 && code != 0 {
			o.what = whatServer
			if code != 6 {
				o.what = fmt.Sprintf("Server.verifyPriority accepts a credential VrfVerifyPriority rejects (verdict %d)", code)
			}
		}
		if o.what == "" && srv != 0 && code == 0 {
			o.what = "Server.verifyPriority rejects a priority VrfVerifyPriority accepts"
		}
	}
	if toCoq && affordable && srv >= 0 && srv != 5 && vstake.Int64() <= 240 {
		// the wrapper's own correspondence case rides on the same record
		o.coq2 = fmt.Sprintf("CServerPrio %s %d %d", vf.Bool(srvRepaired), code, srv)
	}
	if toCoq && affordable {
		var kt [][2]interface{}
		if perr == nil {
			upto := int64(vsub) + 3
			if upto > vstake.Int64()+3 { // seats beyond the stake are never hashed
				upto = vstake.Int64() + 3
			}
			kt = ktblFor(common.Hash(pth), upto)
		}
		o.coq = fmt.Sprintf("CVerifyPrio %s %d %d %s %d %d %s %s %s %s %s %d", zb(hInt(vseed)), vindex, vrole, zb(hInt(vprio)), vsub, vth, zb(vstake), zb(vtotal), tblCoq(vt), zb(new(big.Int).SetBytes(pth[:])), tblCoq(kt), code)
	}
	return o
}

func min64(a, b int64) int64 {
	if a < b {
		return a
	}
	return b
}

func absDiff(a, b int64) int64 {
	if a > b {
		return a - b
	}
	return b - a
}

// ---- generators -------------------------------------------------------------

func realThresholds() []uint64 {
	set := map[uint64]bool{}
	for _, id := range []uint64{params.MainNetId, params.TestNetId, params.NetworkIdForTestCase} {
		params.InitNetworkId(id)
		for _, yp := range params.Versions {
			set[yp.ProposerThreshold] = true
			set[yp.ValidatorThreshold] = true
			set[yp.CertValThreshold] = true
		}
	}
	var out []uint64
	for k := range set {
		if k > 0 {
			out = append(out, k)
		}
	}
	sort.Slice(out, func(i, j int) bool { return out[i] < out[j] })
	return out
}

var thresholds []uint64

func smallStake(r *vf.Rng) int64 {
	switch r.Intn(20) {
	case 0:
		if r.Chance(30) {
			return int64(1 + r.Intn(240))
		}
		return int64(1 + r.Intn(120))
	case 1, 2, 3:
		return int64(1 + r.Intn(70))
	case 4:
		return 1
	case 5:
		return 2
	default:
		return int64(1 + r.Intn(30))
	}
}

func bigStake(r *vf.Rng) int64 {
	switch r.Intn(8) {
	case 0:
		return 10000000
	case 1:
		return int64(1000 * (1 + r.Intn(10000)))
	case 2:
		return int64(1 + r.Intn(10000000))
	case 3:
		return []int64{999, 1000, 1001, 500, 100, 9999999, 1800000, 1500000}[r.Intn(8)]
	default:
		return int64(300 + r.Intn(100000))
	}
}

// (a, b) with p = a/b; small: keep b small for the in-Coq evaluation
func genP(r *vf.Rng, small bool, w int64) (*big.Int, *big.Int) {
	if small {
		switch r.Intn(16) {
		case 0:
			return big.NewInt(0), big.NewInt(int64(1 + r.Intn(50)))
		case 1:
			b := int64(1 + r.Intn(50))
			return big.NewInt(b), big.NewInt(b)
		case 2: // committee larger than the total stake
			b := int64(1 + r.Intn(50))
			return big.NewInt(b + 1 + int64(r.Intn(60))), big.NewInt(b)
		case 3, 4:
			th := int64(thresholds[r.Intn(len(thresholds))])
			return big.NewInt(th), big.NewInt(th*int64(1+r.Intn(40)) + int64(r.Intn(int(th))))
		case 5:
			return big.NewInt(1), big.NewInt(int64(1 + r.Intn(1000000)))
		case 6: // mean around the 20 switch
			b := int64(1 + r.Intn(40))
			a := 20*b/w + int64(r.Intn(3)) - 1
			if a < 0 {
				a = 0
			}
			if a > b {
				a = b
			}
			return big.NewInt(a), big.NewInt(b)
		default:
			b := int64(1 + r.Intn(64))
			return big.NewInt(int64(r.Intn(int(b) + 1))), big.NewInt(b)
		}
	}
	th := int64(thresholds[r.Intn(len(thresholds))])
	switch r.Intn(10) {
	case 0: // random probability
		b := int64(1 + r.Intn(1000000000))
		return big.NewInt(int64(r.Intn(int(b)))), big.NewInt(b)
	case 1: // committee larger than total stake
		return big.NewInt(th), big.NewInt(1 + int64(r.Intn(int(th))))
	case 2:
		return big.NewInt(th), big.NewInt(th)
	default: // realistic: committee over a total that makes the mean moderate
		tot := th + int64(r.Intn(1000000000))
		if r.Chance(50) {
			tot = w * int64(1+r.Intn(200))
			if tot < th {
				tot = th
			}
		}
		return big.NewInt(th), big.NewInt(tot)
	}
}

func genHash(r *vf.Rng, w int64, a, b *big.Int) (*big.Int, string) {
	M := maxHash
	rnd := func() *big.Int { return new(big.Int).SetBytes(r.Bytes(32)) }
	switch r.Intn(16) {
	case 0:
		return big.NewInt(0), "zero"
	case 1:
		return big.NewInt(1), "one"
	case 2:
		return new(big.Int).Set(M), "max"
	case 3:
		return new(big.Int).Sub(M, big.NewInt(int64(1+r.Intn(2)))), "max-1"
	case 4: // around the 0.99 switch-over
		x := new(big.Int).Mul(M, big.NewInt(99))
		x.Div(x, big.NewInt(100))
		d := new(big.Int).Rsh(rnd(), uint(56+r.Intn(200)))
		if r.Bool() {
			return x.Add(x, d), "switch+"
		}
		return x.Sub(x, d), "switch-"
	case 5: // deep upper tail
		d := new(big.Int).Rsh(rnd(), uint(8+r.Intn(240)))
		return new(big.Int).Sub(M, d), "upper_tail"
	case 6: // deep lower tail
		return new(big.Int).Rsh(rnd(), uint(8+r.Intn(240))), "lower_tail"
	case 7, 8, 9, 10, 11: // placed at cdf(j) (1 +- delta min(c,1-c)/c)
		if a.Cmp(b) > 0 || a.Sign() == 0 || w*int64(a.BitLen()) > 4000000 {
			return rnd(), "uniform"
		}
		// j: quantile of a uniform point (typical), or a small j
		var j int64
		if r.Chance(70) {
			js, _, _, ok := quantile(targetOf(rnd()), w, a, b, 50000)
			if !ok {
				return rnd(), "uniform"
			}
			j = js + int64(r.Intn(3)) - 1
		} else {
			j = int64(r.Intn(6))
		}
		if j < 0 {
			j = 0
		}
		if j > w {
			j = w
		}
		if j > 60000 {
			return rnd(), "uniform"
		}
		c := cdfAt(w, a, b, j)
		deltas := []float64{0, 1e-13, 1e-12, 1e-6, 1e-5, 1e-4, 1e-3, 1e-2}
		dl := deltas[r.Intn(len(deltas))]
		m := fmin(c, newf().Sub(bfi(1), c))
		off := newf().Mul(m, bff(dl))
		if r.Bool() {
			off.Neg(off)
		}
		t := newf().Add(c, off)
		t.Mul(t, bf(M))
		hb, _ := t.Int(nil)
		if dl == 0 && r.Bool() {
			hb.Add(hb, big.NewInt(1))
		}
		if hb.Sign() < 0 {
			hb.SetInt64(0)
		}
		if hb.Cmp(M) > 0 {
			hb.Set(M)
		}
		return hb, fmt.Sprintf("boundary_delta_%g", dl)
	default:
		return rnd(), "uniform"
	}
}

func hex32(x *big.Int) string { return hashOf(x).Hex() }

func genRec(r *vf.Rng) *Rec {
	k := r.Intn(100)
	switch {
	case k < 8:
		n := int64(r.Heavy(200))
		if r.Chance(5) {
			n = 0
		}
		tbl := make([]bool, n)
		if r.Chance(70) {
			cut := r.Intn(int(n) + 1)
			if r.Chance(10) {
				cut = int(n)
			}
			for i := range tbl {
				tbl[i] = i >= cut
			}
		} else {
			for i := range tbl {
				tbl[i] = r.Bool()
			}
		}
		return &Rec{Kind: "search", N: n, Tbl: tbl}
	case k < 50:
		small := r.Chance(62)
		var w int64
		if small {
			w = smallStake(r)
		} else {
			w = bigStake(r)
		}
		a, b := genP(r, small, w)
		hb, cls := genHash(r, w, a, b)
		return &Rec{Kind: "choose", Hash: hex32(hb), W: w, A: a.String(), B: b.String(), Comment: cls}
	case k < 53:
		vals := []uint32{0, 1, 2, 3, 4, 255, 256, 65535, 65536, 1 << 24, 0xffffffff, 0xfffffffe, uint32(r.U64())}
		seed := new(big.Int).SetBytes(r.Bytes(32))
		if r.Chance(15) {
			seed = new(big.Int).Rsh(seed, uint(r.Intn(256)))
		}
		return &Rec{Kind: "makem", Seed: hex32(seed), Role: vals[r.Intn(len(vals))], Index: vals[r.Intn(len(vals))]}
	case k < 60:
		return genManager(r)
	case k < 64:
		return &Rec{Kind: "forge", Key: fmt.Sprintf("%064x", 1+r.Intn(6)), Seed: hex32(new(big.Int).SetBytes(r.Bytes(32))),
			Role: uint32(1 + r.Intn(5)), Index: uint32(r.Intn(3)), Perturb: forgeVariants[r.Intn(len(forgeVariants))], PArg: int64(r.Intn(1 << 30))}
	case k < 67:
		j := int64(r.Heavy(64))
		switch r.Intn(10) {
		case 0: // byte-length boundaries of the seat number
			j = []int64{0, 1, 254, 255, 256, 257, 258, 511, 512, 513}[r.Intn(10)]
		case 1, 2: // many seats with a two-byte number
			j = int64(256 + r.Intn(2500))
		case 3:
			if r.Chance(40) { // three-byte seat numbers (implementation and harness oracle only)
				j = []int64{65535, 65536, 65537, 70000, 66000 + int64(r.Intn(5000))}[r.Intn(5)]
			}
		}
		return &Rec{Kind: "prio", Hash: hex32(new(big.Int).SetBytes(r.Bytes(32))), J: j}
	default:
		rec := &Rec{}
		switch {
		case k < 74:
			rec.Kind = "sort"
		case k < 88:
			rec.Kind = "verify"
			rec.Perturb = perturbs[r.Intn(len(perturbs))]
		default:
			rec.Kind = "verifyprio"
			rec.Perturb = prioPerturbs[r.Intn(len(prioPerturbs))]
		}
		rec.PArg = int64(r.Intn(1 << 30))
		rec.Key = fmt.Sprintf("%064x", 1+r.Intn(6)) // a handful of fixed keys
		if r.Chance(30) {
			rec.Key = hex.EncodeToString(r.Bytes(32))
		}
		rec.Seed = hex32(new(big.Int).SetBytes(r.Bytes(32)))
		rec.Index = uint32(r.Intn(4))
		rec.Role = uint32(1 + r.Intn(6))
		if r.Chance(10) {
			rec.Index = uint32(r.U64())
			rec.Role = uint32(r.U64())
		}
		small := r.Chance(80)
		if r.Chance(14) {
			// a winner with hundreds of seats: committee >= total selects the whole
			// stake, so the seat count crosses the byte-length boundaries of the seat number
			rec.Stake = []int64{255, 256, 257, 258, 300, 512, 513, int64(259 + r.Intn(1200))}[r.Intn(8)]
			if r.Chance(12) {
				rec.Stake = []int64{65535, 65536, 65537, 70000}[r.Intn(4)]
			}
			tot := int64(1 + r.Intn(9))
			th := tot
			if r.Chance(20) {
				th = tot + int64(1+r.Intn(3))
			}
			rec.Threshold, rec.Total = uint64(th), fmt.Sprint(tot)
		} else if small {
			rec.Stake = smallStake(r)
			// committee/total so that a seat is likely
			tot := int64(1 + r.Intn(60))
			th := int64(1 + r.Intn(int(tot)))
			if r.Chance(25) {
				th = tot/(rec.Stake+1) + 1
			}
			if r.Chance(4) {
				th = tot + 1 + int64(r.Intn(5)) // committee larger than the total stake
			}
			if r.Chance(3) {
				tot = 0
			}
			rec.Threshold, rec.Total = uint64(th), fmt.Sprint(tot)
		} else {
			rec.Stake = bigStake(r)
			th := int64(thresholds[r.Intn(len(thresholds))])
			tot := rec.Stake * int64(1+r.Intn(30))
			if tot < th {
				tot = th
			}
			rec.Threshold, rec.Total = uint64(th), fmt.Sprint(tot)
		}
		return rec
	}
}

func loadCorpus(dir string) []*Rec {
	var out []*Rec
	files, _ := filepath.Glob(filepath.Join(dir, "*.json"))
	sort.Strings(files)
	for _, f := range files {
		b, err := ioutil.ReadFile(f)
		if err != nil {
			continue
		}
		var c Rec
		if json.Unmarshal(b, &c) == nil && c.Kind != "" {
			c.Comment = "corpus:" + filepath.Base(f)
			out = append(out, &c)
		}
	}
	return out
}

// repaired reports whether the working tree's choose no longer panics when the
// committee exceeds the total stake (and returns the whole stake instead).
func repaired() bool {
	h := hashOf(new(big.Int).Lsh(big.NewInt(1), 255))
	j, panicked, _ := callChoose(h, 10, 1.5)
	return !panicked && j == 10
}

func gen(seed uint64, n int, outDir, corpusDir string) {
	r := vf.NewRng(seed)
	res := vf.NewResult("C04", seed)
	rep := repaired()
	srvRepaired = serverRepaired()
	res.Extra["server_verify_priority_rejects_invalid"] = srvRepaired
	res.Extra["choose_clamps_committee_over_total"] = rep
	var coqCases []string
	distinct := map[string]bool{}
	total := 0
	handle := func(rec *Rec) {
		t0 := time.Now()
		o := run(rec, true)
		if d := time.Since(t0); d > 2*time.Second && os.Getenv("C04_DEBUG") != "" {
			js, _ := json.Marshal(rec)
			fmt.Fprintln(os.Stderr, "slow case", d, string(js))
		}
		total++
		res.Count(o.class)
		if rec.Kind == "choose" && rec.Comment != "" && !strings.HasPrefix(rec.Comment, "corpus:") {
			res.Count("hash_" + rec.Comment)
		}
		rec.Got = o.got
		if o.what != "" {
			hit := *rec
			hit.What = o.what
			res.OracleHits = append(res.OracleHits, hit)
		}
		if o.coq != "" && o.coq2 != "" {
			coqCases = append(coqCases, o.coq2)
			res.CaseDescs = append(res.CaseDescs, *rec)
		}
		if o.coq != "" {
			coqCases = append(coqCases, o.coq)
			res.CaseDescs = append(res.CaseDescs, *rec)
			distinct[o.coq] = true
			if len(res.Samples) < 8 && (len(coqCases)%97 == 1 || len(coqCases) < 3) {
				res.Samples = append(res.Samples, *rec)
			}
		}
	}
	for _, c := range loadCorpus(corpusDir) {
		handle(c)
		res.Count("corpus")
	}
	// cases that go to Coq are bounded by n; the implementation-only (large
	// stake) cases ride along
	for len(coqCases) < n {
		t0 := time.Now()
		rec := genRec(r)
		if d := time.Since(t0); d > 2*time.Second && os.Getenv("C04_DEBUG") != "" {
			js, _ := json.Marshal(rec)
			fmt.Fprintln(os.Stderr, "slow gen", d, string(js))
		}
		handle(rec)
	}
	var sb strings.Builder
	sb.WriteString("From VF.C04 Require Import Model.\nLocal Open Scope Z_scope.\nDefinition cases : list case := [\n")
	sb.WriteString(strings.Join(coqCases, ";\n"))
	mm := "mismatches"
	if !rep { // a tree without the clamp in choose (commit 839997b): compare with the old function
		mm = "mismatches_unrepaired"
	}
	sb.WriteString("].\nDefinition M := Eval vm_compute in " + mm + " cases.\nPrint M.\n")
	vf.WriteFile(filepath.Join(outDir, "Cases.v"), sb.String())
	res.Cases = len(coqCases)
	res.Distinct = len(distinct)
	res.Extra["implementation_only_cases"] = total - len(coqCases)
	res.Rule = "a case is one call of search / choose / MakeM / computePriority / VrfSortition / VrfVerifySortition / VrfVerifyPriority on the real code (real secp256k1 VRF) with the observed result; hashes: uniform, 0, 1, max-1, max, around the 0.99 switch, deep tails, and placed at cdf(j)(1 +- delta) for delta in {0,1e-13,...,1e-2}; stakes 1..300 go to the Coq model (exact binomial), stakes up to 10^7 only to the harness' own 640-bit quantile oracle; committee/total from params.Versions thresholds and random, including 0, 1 and > 1; credentials are verified untouched and under every single-field change; distinct = distinct Coq case terms"
	res.Write(filepath.Join(outDir, "result.json"))
}

func replay(file string) {
	b, err := ioutil.ReadFile(file)
	if err != nil {
		fmt.Println(err)
		os.Exit(2)
	}
	var rec Rec
	if err := json.Unmarshal(b, &rec); err != nil || rec.Kind == "" {
		fmt.Println("not a C04 case:", err)
		os.Exit(2)
	}
	srvRepaired = serverRepaired()
	o := run(&rec, false)
	fmt.Printf("kind=%s class=%s got=%s\n", rec.Kind, o.class, o.got)
	if o.what != "" {
		fmt.Println("ORACLE VIOLATION:", o.what)
		os.Exit(1)
	}
}

func main() {
	mode := ""
	if len(os.Args) > 1 {
		mode = os.Args[1]
		os.Args = append(os.Args[:1], os.Args[2:]...)
	}
	seed := flag.Uint64("seed", 1, "")
	n := flag.Int("n", 500, "")
	out := flag.String("out", ".", "")
	corpus := flag.String("corpus", "/verif/corpus/C04", "")
	file := flag.String("file", "", "")
	flag.Parse()
	debug.SetGCPercent(1000)
	thresholds = realThresholds()
	params.InitNetworkId(params.NetworkIdForTestCase)
	switch mode {
	case "gen":
		gen(*seed, *n, *out, *corpus)
	case "replay":
		replay(*file)
	default:
		fmt.Println("usage: c04 gen|replay")
		os.Exit(2)
	}
}
