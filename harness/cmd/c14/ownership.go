// C14 harness, part 11: a decoded value owns its memory.  After decoding the
// byte string b into x, nothing of x may live inside b: (i) x's encoding and
// hashes are the same after b has been overwritten, (ii) no byte-slice field of
// x overlaps b - neither its elements nor its spare capacity (an append to the
// field would write into b), (iii) a handler leaves the input it was given
// byte-identical, and what it relays decodes and is accepted by a second handler.
package main

import (
	"bytes"
	"encoding/hex"
	"fmt"
	"math/big"
	"reflect"
	"time"
	"unsafe"

	"github.com/youchainhq/go-youchain/consensus/ucon"
	"github.com/youchainhq/go-youchain/crypto"
	"github.com/youchainhq/go-youchain/event"
)

const ownKey = "decoded-value-shares-memory-with-input:"

var bigIntStructT = reflect.TypeOf(big.Int{})

// byte slices reachable from v (through pointers, structs incl. unexported fields, slices, interfaces)
func byteSlices(v reflect.Value, path string, out *[]struct {
	path string
	b    []byte
}, depth int) {
	if depth > 8 || !v.IsValid() {
		return
	}
	switch v.Kind() {
	case reflect.Ptr, reflect.Interface:
		if !v.IsNil() {
			byteSlices(v.Elem(), path, out, depth+1)
		}
	case reflect.Struct:
		if v.Type() == bigIntStructT || !v.CanAddr() {
			return
		}
		for i := 0; i < v.NumField(); i++ {
			f := v.Field(i)
			fv := reflect.NewAt(f.Type(), unsafe.Pointer(f.UnsafeAddr())).Elem()
			byteSlices(fv, path+"."+v.Type().Field(i).Name, out, depth+1)
		}
	case reflect.Slice:
		if v.Type().Elem().Kind() == reflect.Uint8 {
			if v.Cap() > 0 {
				b := v.Slice(0, v.Cap()).Bytes()
				*out = append(*out, struct {
					path string
					b    []byte
				}{path, b})
			}
			return
		}
		for i := 0; i < v.Len() && i < 64; i++ {
			byteSlices(v.Index(i), fmt.Sprintf("%s[%d]", path, i), out, depth+1)
		}
	}
}

func overlaps(a, b []byte) bool {
	if len(a) == 0 || len(b) == 0 {
		return false
	}
	a0, b0 := uintptr(unsafe.Pointer(&a[0])), uintptr(unsafe.Pointer(&b[0]))
	return a0 < b0+uintptr(len(b)) && b0 < a0+uintptr(len(a))
}

// ownershipOracle decodes a private copy of b through dec (nil = rlp.DecodeBytes) and checks (i), (ii)
func (g *genState) ownershipOracle(e *entry, v *viaFn, b []byte) {
	in := append(make([]byte, 0, len(b)+32), b...) // private copy with spare capacity behind it
	var o obs
	vname := ""
	if v != nil {
		o = goDecodeVia(e, v, in)
		vname = v.name
	} else {
		o = goDecode(e, in, false)
	}
	if !o.Accepted || o.Panic != "" {
		return
	}
	g.res.Count("ownership_checked")
	enc1, errs, pan := goEncode(o.obj)
	if pan != "" || errs != "" {
		return
	}
	var fields []struct {
		path string
		b    []byte
	}
	byteSlices(o.obj, e.name, &fields, 0)
	for _, f := range fields {
		if overlaps(f.b, in[:cap(in)]) {
			g.res.Count("ownership_hit")
			g.hit(hit{What: ownKey + e.name, Type: e.name, Bytes: hex.EncodeToString(b), Via: vname,
				Note: fmt.Sprintf("byte field %s (len/cap %d) of the decoded object lies inside the input buffer: overwriting the input changes the object, appending to the field writes into the input", f.path, len(f.b))})
			return
		}
	}
	// (i) the caller reuses its buffer
	for i := range in {
		in[i] = 0xAA
	}
	enc2, _, _ := goEncode(o.obj)
	if !bytes.Equal(enc1, enc2) {
		g.res.Count("ownership_hit")
		g.hit(hit{What: ownKey + e.name, Type: e.name, Bytes: hex.EncodeToString(b), Via: vname,
			Note: fmt.Sprintf("the decoded object changed when the input buffer was overwritten: its encoding had keccak %x before and %x after", crypto.Keccak256(enc1), crypto.Keccak256(enc2))})
	}
}

// ---- handlers -------------------------------------------------------------------------------

// relayed collects the payloads a handler posts for gossip
type relayed struct {
	sub *event.TypeMuxSubscription
}

func watchRelay(mux *event.TypeMux) *relayed {
	return &relayed{sub: mux.Subscribe(ucon.TransferMessageEvent{})}
}

func (r *relayed) next(wait time.Duration) ([]byte, bool) {
	select {
	case ev := <-r.sub.Chan():
		if ev == nil {
			return nil, false
		}
		if t, ok := ev.Data.(ucon.TransferMessageEvent); ok {
			return t.Payload, true
		}
		return nil, false
	case <-time.After(wait):
		return nil, false
	}
}

// handlerOwnership: after HandleMsg(data) returned res, data must be what it was (orig), and what was relayed
// must be the input, decode, and be accepted by a second handler instance
func (g *genState) handlerOwnership(orig, data []byte, res string, rel *relayed, second func([]byte) (string, string)) {
	if !bytes.Equal(orig, data) {
		g.res.Count("handler_wrote_into_input")
		g.hit(hit{What: "handler-wrote-into-its-input:HandleMsg", Type: "handler:HandleMsg", Mode: "vrf-handler", Bytes: hex.EncodeToString(orig), Re: hex.EncodeToString(data),
			Note: "the byte string passed to HandleMsg was modified by the call"})
	}
	if rel == nil || (res != "accept" && res != "nil") {
		return
	}
	p, ok := rel.next(200 * time.Millisecond)
	if !ok {
		g.res.Count("handler_relay:none")
		return
	}
	g.res.Count("handler_relay:seen")
	bad := ""
	if !bytes.Equal(p, orig) {
		bad = "the relayed payload differs from the received message"
	} else if _, err := ucon.Decode(p); err != nil {
		bad = "the relayed payload does not decode: " + err.Error()
	} else if second != nil {
		if r2, pan := second(append([]byte{}, p...)); pan != "" || (r2 != "accept" && r2 != "nil") {
			bad = "the relayed payload is not accepted by a second handler: " + r2 + pan
		}
	}
	if bad != "" {
		g.res.Count("handler_relay_bad")
		g.hit(hit{What: "handler-relays-bytes-that-differ-or-do-not-decode:HandleMsg", Type: "handler:HandleMsg", Mode: "vrf-handler", Bytes: hex.EncodeToString(orig), Re: hex.EncodeToString(p), Note: bad})
	}
}

// ---- capacity of decoded slices -----------------------------------------------------------------
// A decoded slice is grown as elements arrive (x1.5): its capacity stays within a small
// multiple of its length.  A capacity far beyond the length means the decoder allocated by
// a size FIELD (bytes of payload) instead of by what it decoded.
const capKey = "decoded-slice-capacity-far-beyond-length:"

func sliceCaps(v reflect.Value, path string, depth int, bad *string) {
	if depth > 8 || !v.IsValid() || *bad != "" {
		return
	}
	switch v.Kind() {
	case reflect.Ptr, reflect.Interface:
		if !v.IsNil() {
			sliceCaps(v.Elem(), path, depth+1, bad)
		}
	case reflect.Struct:
		if v.Type() == bigIntStructT || !v.CanAddr() {
			return
		}
		for i := 0; i < v.NumField(); i++ {
			f := v.Field(i)
			sliceCaps(reflect.NewAt(f.Type(), unsafe.Pointer(f.UnsafeAddr())).Elem(), path+"."+v.Type().Field(i).Name, depth+1, bad)
		}
	case reflect.Slice:
		if v.Cap() > 4*v.Len()+16 {
			*bad = fmt.Sprintf("%s: len %d, cap %d (element size %d bytes)", path, v.Len(), v.Cap(), v.Type().Elem().Size())
			return
		}
		if v.Type().Elem().Kind() == reflect.Uint8 {
			return
		}
		for i := 0; i < v.Len() && i < 64; i++ {
			sliceCaps(v.Index(i), fmt.Sprintf("%s[%d]", path, i), depth+1, bad)
		}
	}
}

func (g *genState) capOracle(e *entry, obj reflect.Value, b []byte, via string) {
	if !obj.IsValid() {
		return
	}
	bad := ""
	sliceCaps(obj, e.name, 0, &bad)
	g.res.Count("slice_caps_checked")
	if bad != "" {
		g.res.Count("slice_cap_hit")
		if len(b) > 200000 {
			b = b[:200000]
		}
		g.hit(hit{What: capKey + e.name, Type: e.name, Bytes: hex.EncodeToString(b), Via: via,
			Note: "a slice of the decoded object has a capacity far beyond its length: " + bad})
	}
}
