// C14 harness, part 2: a small reference RLP item codec of the harness' own
// (independent of /repo/rlp and of the Coq model).  It is used to take valid
// encodings apart, mutate them structurally and put them together again in
// canonical or deliberately malformed ways, and by the oracle to name the place
// where an accepted input and its re-encoding differ.
package main

import (
	"errors"
	"verif/harness/vf"
)

type Item struct {
	IsList bool
	B      []byte
	L      []*Item
	Mode   int // how to write the header, see enc
	Claim  *uint64 // if set: the size the header declares, whatever the payload is
}

const (
	mCanon     = iota
	mLongForm  // length-of-length form even below 56
	mLeadZero  // length-of-length form with a leading zero byte
	mLenPlus   // declared length one more than the payload
	mLenMinus  // declared length one less than the payload
	mHuge      // 8-byte length 0xFFFFFFFFFFFFFFFF
	mWrapByte  // 0x81 x for a single byte below 0x80
	mKindFlip  // string header on a list payload and vice versa
	mHuge4     // 4-byte length 0xFFFFFFFF
	nModes
)

func minBE(n uint64) []byte {
	var out []byte
	for n > 0 {
		out = append([]byte{byte(n)}, out...)
		n >>= 8
	}
	return out
}

func head(base byte, n uint64, mode int) []byte {
	switch mode {
	case mLongForm:
		lb := minBE(n)
		if len(lb) == 0 {
			lb = []byte{0}
		}
		return append([]byte{base + 55 + byte(len(lb))}, lb...)
	case mLeadZero:
		lb := append([]byte{0}, minBE(n)...)
		return append([]byte{base + 55 + byte(len(lb))}, lb...)
	case mLenPlus:
		n++
	case mLenMinus:
		if n > 0 {
			n--
		}
	case mHuge:
		return []byte{base + 55 + 8, 0xff, 0xff, 0xff, 0xff, 0xff, 0xff, 0xff, 0xff}
	case mHuge4:
		return []byte{base + 55 + 4, 0xff, 0xff, 0xff, 0xff}
	}
	if n < 56 {
		return []byte{base + byte(n)}
	}
	lb := minBE(n)
	return append([]byte{base + 55 + byte(len(lb))}, lb...)
}

// canonical header for a declared size
func claimHead(base byte, n uint64) []byte {
	if n < 56 {
		return []byte{base + byte(n)}
	}
	lb := minBE(n)
	return append([]byte{base + 55 + byte(len(lb))}, lb...)
}

func enc(it *Item) []byte {
	if it.Claim != nil {
		if !it.IsList {
			return append(claimHead(0x80, *it.Claim), it.B...)
		}
		var p []byte
		for _, x := range it.L {
			p = append(p, enc(x)...)
		}
		return append(claimHead(0xC0, *it.Claim), p...)
	}
	sb, lb := byte(0x80), byte(0xC0)
	if it.Mode == mKindFlip {
		sb, lb = lb, sb
	}
	if !it.IsList {
		if len(it.B) == 1 && it.B[0] < 0x80 && it.Mode != mWrapByte && it.Mode != mLongForm && it.Mode != mKindFlip {
			return []byte{it.B[0]}
		}
		return append(head(sb, uint64(len(it.B)), it.Mode), it.B...)
	}
	var p []byte
	for _, x := range it.L {
		p = append(p, enc(x)...)
	}
	return append(head(lb, uint64(len(p)), it.Mode), p...)
}

var errRef = errors.New("reference parser: not canonical RLP")

// strict parser: one value, returns the rest
func parse(b []byte, depth int) (*Item, []byte, error) {
	if len(b) == 0 || depth > 5000 {
		return nil, nil, errRef
	}
	h := b[0]
	readLen := func(ll int) (uint64, []byte, error) {
		if len(b) < 1+ll || b[1] == 0 {
			return 0, nil, errRef
		}
		var n uint64
		for _, c := range b[1 : 1+ll] {
			n = n<<8 | uint64(c)
		}
		if n < 56 || n > uint64(len(b)-1-ll) {
			return 0, nil, errRef
		}
		return n, b[1+ll:], nil
	}
	var isList bool
	var n uint64
	var rest []byte
	switch {
	case h < 0x80:
		return &Item{B: []byte{h}}, b[1:], nil
	case h < 0xB8:
		n, rest = uint64(h-0x80), b[1:]
		if n > uint64(len(rest)) || (n == 1 && rest[0] < 0x80) {
			return nil, nil, errRef
		}
	case h < 0xC0:
		var err error
		if n, rest, err = readLen(int(h - 0xB7)); err != nil {
			return nil, nil, err
		}
	case h < 0xF8:
		isList = true
		n, rest = uint64(h-0xC0), b[1:]
		if n > uint64(len(rest)) {
			return nil, nil, errRef
		}
	default:
		isList = true
		var err error
		if n, rest, err = readLen(int(h - 0xF7)); err != nil {
			return nil, nil, err
		}
	}
	content, rest := rest[:n], rest[n:]
	if !isList {
		return &Item{B: append([]byte{}, content...)}, rest, nil
	}
	it := &Item{IsList: true}
	for len(content) > 0 {
		x, r, err := parse(content, depth+1)
		if err != nil {
			return nil, nil, err
		}
		it.L = append(it.L, x)
		content = r
	}
	return it, rest, nil
}

func parseAll(b []byte) (*Item, error) {
	it, rest, err := parse(b, 0)
	if err != nil {
		return nil, err
	}
	if len(rest) != 0 {
		return nil, errRef
	}
	return it, nil
}

func nodes(it *Item, acc *[]*Item) {
	*acc = append(*acc, it)
	for _, x := range it.L {
		nodes(x, acc)
	}
}

func randItem(r *vf.Rng, d int) *Item {
	if d > 3 || r.Chance(55) {
		return &Item{B: randBytes(r, 70)}
	}
	it := &Item{IsList: true}
	n := r.Heavy(12)
	for i := 0; i < n; i++ {
		it.L = append(it.L, randItem(r, d+1))
	}
	return it
}

// one structural mutation: a name, the nodes it applies to, what it does
type mutation struct {
	name  string
	ok    func(x *Item, root bool) bool
	apply func(r *vf.Rng, x *Item)
}

func isStr(x *Item, root bool) bool  { return !x.IsList }
func isList(x *Item, root bool) bool { return x.IsList }
func anyNode(x *Item, root bool) bool { return true }
func setMode(m int) func(r *vf.Rng, x *Item) {
	return func(r *vf.Rng, x *Item) { x.Mode = m }
}
func payloadLen(x *Item) int {
	if !x.IsList {
		return len(x.B)
	}
	n := 0
	for _, y := range x.L {
		n += len(enc(y))
	}
	return n
}

var mutations = []mutation{
	// header-level attacks on canonical form and on size fields
	{"wrap-single-byte", func(x *Item, root bool) bool { return !x.IsList && len(x.B) == 1 && x.B[0] < 0x80 }, setMode(mWrapByte)},
	{"long-form-below-56", func(x *Item, root bool) bool { return payloadLen(x) < 56 }, setMode(mLongForm)},
	{"size-leading-zero", anyNode, setMode(mLeadZero)},
	{"size-plus-one", anyNode, setMode(mLenPlus)},
	{"size-minus-one", func(x *Item, root bool) bool { return payloadLen(x) > 0 }, setMode(mLenMinus)},
	{"size-huge-8", anyNode, setMode(mHuge)},
	{"size-huge-4", anyNode, setMode(mHuge4)},
	{"kind-flip", anyNode, setMode(mKindFlip)},
	// content of strings (integers, byte strings, arrays)
	{"leading-zero", isStr, func(r *vf.Rng, x *Item) { x.B = append([]byte{0}, x.B...) }},
	{"to-zero-byte", isStr, func(r *vf.Rng, x *Item) { x.B = []byte{0} }},
	{"to-single-byte", isStr, func(r *vf.Rng, x *Item) { x.B = []byte{byte(2 + r.Intn(254))} }},
	{"to-last-byte", func(x *Item, root bool) bool { return !x.IsList && len(x.B) > 1 }, func(r *vf.Rng, x *Item) { x.B = []byte{x.B[len(x.B)-1]} }},
	{"same-len-bytes", func(x *Item, root bool) bool { return !x.IsList && len(x.B) > 0 }, func(r *vf.Rng, x *Item) { x.B = r.Bytes(len(x.B)) }},
	{"longer-bytes", isStr, func(r *vf.Rng, x *Item) { x.B = append(x.B, r.Bytes(1+r.Intn(3))...) }},
	{"nine-bytes", isStr, func(r *vf.Rng, x *Item) { x.B = append([]byte{1}, r.Bytes(8)...) }},
	{"shorter-bytes", func(x *Item, root bool) bool { return !x.IsList && len(x.B) > 0 }, func(r *vf.Rng, x *Item) { x.B = x.B[:len(x.B)-1] }},
	{"bit-flip", func(x *Item, root bool) bool { return !x.IsList && len(x.B) > 0 }, func(r *vf.Rng, x *Item) { x.B[r.Intn(len(x.B))] ^= 1 << uint(r.Intn(8)) }},
	// empty values of either kind (nil pointers), kind changes
	{"to-empty-string", func(x *Item, root bool) bool { return !root }, func(r *vf.Rng, x *Item) { *x = Item{B: []byte{}} }},
	{"to-empty-list", func(x *Item, root bool) bool { return !root }, func(r *vf.Rng, x *Item) { *x = Item{IsList: true} }},
	{"flip-empty-kind", func(x *Item, root bool) bool { return !root && ((x.IsList && len(x.L) == 0) || (!x.IsList && len(x.B) == 0)) },
		func(r *vf.Rng, x *Item) { *x = Item{IsList: !x.IsList, B: []byte{}} }},
	{"wrap-in-list", isStr, func(r *vf.Rng, x *Item) { *x = Item{IsList: true, L: []*Item{{B: x.B}}} }},
	{"unwrap-list", func(x *Item, root bool) bool { return x.IsList && len(x.L) == 1 }, func(r *vf.Rng, x *Item) { *x = *x.L[0] }},
	// list structure
	{"drop-elem", func(x *Item, root bool) bool { return x.IsList && len(x.L) > 0 }, func(r *vf.Rng, x *Item) {
		i := r.Intn(len(x.L))
		x.L = append(append([]*Item{}, x.L[:i]...), x.L[i+1:]...)
	}},
	{"dup-elem", func(x *Item, root bool) bool { return x.IsList && len(x.L) > 0 }, func(r *vf.Rng, x *Item) { x.L = append(x.L, x.L[r.Intn(len(x.L))]) }},
	{"swap-elems", func(x *Item, root bool) bool { return x.IsList && len(x.L) > 1 }, func(r *vf.Rng, x *Item) {
		i := r.Intn(len(x.L))
		j := (i + 1 + r.Intn(len(x.L)-1)) % len(x.L)
		x.L[i], x.L[j] = x.L[j], x.L[i]
	}},
	{"extra-first", isList, func(r *vf.Rng, x *Item) { x.L = append([]*Item{{B: []byte{}}}, x.L...) }},
	{"extra-last", isList, func(r *vf.Rng, x *Item) { x.L = append(x.L, &Item{B: []byte{byte(r.Intn(256))}}) }},
}

// mutateTree changes one place of a parsed valid encoding: a mutation is
// drawn first, then a node it applies to; the result is written by enc, so
// header-level attacks are expressed through Mode.
func mutateTree(r *vf.Rng, root *Item) string {
	var ns []*Item
	nodes(root, &ns)
	for try := 0; try < 6; try++ {
		m := mutations[r.Intn(len(mutations))]
		var cand []*Item
		for i, x := range ns {
			if m.ok(x, i == 0) {
				cand = append(cand, x)
			}
		}
		if len(cand) == 0 {
			continue
		}
		m.apply(r, cand[r.Intn(len(cand))])
		return m.name
	}
	return "none"
}
