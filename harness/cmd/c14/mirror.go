// C14 harness, part 4: mirrors of the wire structs of package you (the
// package itself cannot be linked, see main.go) and the check that the
// mirrors still agree with the source text of /repo/you/protocol.go.
package main

import (
	"bytes"
	"fmt"
	"go/ast"
	"go/parser"
	"go/printer"
	"go/token"
	"math/big"
	"os"
	"path/filepath"
	"reflect"
	"regexp"
	"strings"

	"github.com/youchainhq/go-youchain/common"
	"github.com/youchainhq/go-youchain/core/types"
)

type statusData struct {
	ProtocolVersion uint32
	NetworkId       uint64
	Origin          uint64
	Height          uint64
	CurrentBlock    common.Hash
	GenesisBlock    common.Hash
}

type NewBlockHashesData []struct {
	Hash   common.Hash
	Number uint64
}

type HashOrNumber struct {
	Hash   common.Hash
	Number uint64
}

type BlocksData []struct {
	Block  *types.Block
	Number *big.Int
}

type getBlockHeadersData struct {
	Origin  HashOrNumber
	Amount  uint64
	Skip    uint64
	Reverse bool
	Light   bool
}

type GetNodeDataMsgData struct {
	Kind   types.TrieKind
	Hashes []common.Hash
}

func repoDir() string {
	if d := os.Getenv("VERIF_REPO"); d != "" {
		return d
	}
	return "/repo"
}

var pkgQual = regexp.MustCompile(`\b[a-zA-Z_]+\.`)

// "Name Type; Name Type" of a struct type, package qualifiers dropped
func fieldsOfReflect(t reflect.Type) string {
	for t.Kind() == reflect.Slice {
		t = t.Elem()
	}
	var out []string
	for i := 0; i < t.NumField(); i++ {
		f := t.Field(i)
		out = append(out, f.Name+" "+pkgQual.ReplaceAllString(f.Type.String(), ""))
	}
	return strings.Join(out, "; ")
}

func fieldsOfAst(fset *token.FileSet, e ast.Expr) string {
	for {
		if a, ok := e.(*ast.ArrayType); ok {
			e = a.Elt
			continue
		}
		break
	}
	st, ok := e.(*ast.StructType)
	if !ok {
		return "<not a struct>"
	}
	var out []string
	for _, f := range st.Fields.List {
		var buf bytes.Buffer
		printer.Fprint(&buf, fset, f.Type)
		ty := pkgQual.ReplaceAllString(buf.String(), "")
		for _, n := range f.Names {
			out = append(out, n.Name+" "+ty)
		}
		if f.Tag != nil && strings.Contains(f.Tag.Value, "rlp:") {
			out = append(out, "<rlp tag "+f.Tag.Value+">")
		}
	}
	return strings.Join(out, "; ")
}

// checkMirrors fails loudly if a mirrored struct no longer matches the source.
func checkMirrors() {
	file := filepath.Join(repoDir(), "you", "protocol.go")
	fset := token.NewFileSet()
	f, err := parser.ParseFile(fset, file, nil, 0)
	if err != nil {
		fmt.Println("cannot parse", file, err)
		os.Exit(3)
	}
	want := map[string]reflect.Type{
		"statusData": reflect.TypeOf(statusData{}), "NewBlockHashesData": reflect.TypeOf(NewBlockHashesData{}),
		"HashOrNumber": reflect.TypeOf(HashOrNumber{}), "BlocksData": reflect.TypeOf(BlocksData{}),
		"getBlockHeadersData": reflect.TypeOf(getBlockHeadersData{}), "GetNodeDataMsgData": reflect.TypeOf(GetNodeDataMsgData{}),
	}
	seen := 0
	ast.Inspect(f, func(n ast.Node) bool {
		ts, ok := n.(*ast.TypeSpec)
		if !ok {
			return true
		}
		t, ok := want[ts.Name.Name]
		if !ok {
			return true
		}
		seen++
		a, b := fieldsOfAst(fset, ts.Type), fieldsOfReflect(t)
		if a != b {
			fmt.Printf("you/protocol.go: type %s changed: source has {%s}, the harness mirrors {%s}\n", ts.Name.Name, a, b)
			os.Exit(3)
		}
		return true
	})
	// methods with custom coders on these types would also invalidate the mirror
	ast.Inspect(f, func(n ast.Node) bool {
		fd, ok := n.(*ast.FuncDecl)
		if ok && fd.Recv != nil && (fd.Name.Name == "EncodeRLP" || fd.Name.Name == "DecodeRLP") {
			fmt.Println("you/protocol.go: a custom RLP coder appeared:", fd.Name.Name)
			os.Exit(3)
		}
		return true
	})
	if seen != len(want) {
		fmt.Printf("you/protocol.go: only %d of %d mirrored types found\n", seen, len(want))
		os.Exit(3)
	}
}
