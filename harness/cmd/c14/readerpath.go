// C14 harness, part 7: the encoder's other outputs.  rlp.EncodeToReader is what
// p2p.Send puts on the wire (its reader hands out pieces of a pooled buffer),
// rlp.Encode writes to an io.Writer (hashing, the database).  Both must deliver
// exactly the bytes of rlp.EncodeToBytes, whatever the read sizes are and
// whatever else is encoded - on the same pooled buffers - between two reads.
package main

import (
	"bytes"
	"encoding/hex"
	"fmt"
	"io"
	"reflect"
	"runtime"

	"github.com/youchainhq/go-youchain/rlp"
	"verif/harness/vf"
)

type sinkWriter struct{ n int }

func (s *sinkWriter) Write(b []byte) (int, error) { s.n += len(b); return len(b), nil }

// drain reads the whole reader with the given chunk size; between reads it calls
// other(i) (which encodes something else) every step-th read
func drain(rd io.Reader, chunk, step int, other func(i int)) ([]byte, error) {
	var out []byte
	buf := make([]byte, chunk)
	for i := 0; ; i++ {
		n, err := rd.Read(buf)
		out = append(out, buf[:n]...)
		if err == io.EOF {
			return out, nil
		}
		if err != nil {
			return out, err
		}
		if n == 0 && i > 1<<22 {
			return out, fmt.Errorf("reader makes no progress")
		}
		if other != nil && i%step == 0 {
			other(i)
		}
	}
}

var readerModes = []string{"plain", "interleave:EncodeToBytes", "interleave:Encode-to-writer", "interleave:EncodeToReader", "two-goroutines"}

// readerPath checks EncodeToReader / Encode-to-writer of the object p against b =
// EncodeToBytes(p).  Returns the bytes obtained through the reader.
func (g *genState) readerPath(e *entry, p reflect.Value, b []byte, mv *MV, chunkSel, modeSel int) []byte {
	r := g.r
	// rlp.Encode to a writer
	var wbuf bytes.Buffer
	var werr error
	func() {
		defer func() {
			if x := recover(); x != nil {
				werr = fmt.Errorf("panic: %v", x)
			}
		}()
		werr = rlp.Encode(&wbuf, p.Interface())
	}()
	if werr != nil || !bytes.Equal(wbuf.Bytes(), b) {
		g.res.Count("encode_to_writer_differs")
		g.hit(hit{What: "encoder-writer-path-differs:" + e.name, Type: e.name, Bytes: hex.EncodeToString(b), Re: hex.EncodeToString(wbuf.Bytes()), Note: fmt.Sprint(werr), Value: mv})
	}
	chunks := []int{1, 7, 512, len(b) - 1, 1 + r.Intn(len(b)+8)}
	chunk := chunks[chunkSel%len(chunks)]
	if chunk < 1 {
		chunk = 1
	}
	mode := readerModes[modeSel%len(readerModes)]
	// something else to encode, long enough to overwrite a recycled buffer up to the end of b
	filler := r.Bytes(len(b) + 64)
	var fillerObj interface{} = filler
	if len(g.others) > 0 && r.Bool() {
		fillerObj = []interface{}{filler, g.others[r.Intn(len(g.others))]}
	}
	reads := len(b)/chunk + 1
	step := 1 + reads/48
	var other func(i int)
	switch mode {
	case "interleave:EncodeToBytes":
		other = func(i int) { rlp.EncodeToBytes(fillerObj) }
	case "interleave:Encode-to-writer": // what Header.Hash / rlpHash do
		other = func(i int) { rlp.Encode(&sinkWriter{}, fillerObj) }
	case "interleave:EncodeToReader":
		other = func(i int) {
			if _, rd2, err := rlp.EncodeToReader(fillerObj); err == nil {
				drain(rd2, 4096, 1, nil)
			}
		}
	}
	var got []byte
	var size int
	var rerr error
	func() {
		defer func() {
			if x := recover(); x != nil {
				rerr = fmt.Errorf("panic: %v", x)
			}
		}()
		var rd io.Reader
		size, rd, rerr = rlp.EncodeToReader(p.Interface())
		if rerr != nil {
			return
		}
		if mode == "two-goroutines" {
			// one P: the other goroutine encodes whenever the drainer yields
			old := runtime.GOMAXPROCS(1)
			defer runtime.GOMAXPROCS(old)
			stop, done := make(chan struct{}), make(chan struct{})
			go func() {
				defer close(done)
				for {
					select {
					case <-stop:
						return
					default:
						rlp.EncodeToBytes(fillerObj)
						runtime.Gosched()
					}
				}
			}()
			got, rerr = drain(rd, chunk, 1, func(i int) { runtime.Gosched() })
			close(stop)
			<-done
			return
		}
		got, rerr = drain(rd, chunk, step, other)
	}()
	g.res.Count("reader_path:" + mode)
	if rerr != nil || size != len(b) || !bytes.Equal(got, b) {
		g.res.Count("reader_path_differs")
		g.hit(hit{What: "encoder-reader-path-differs:" + e.name, Type: e.name, Bytes: hex.EncodeToString(b), Re: hex.EncodeToString(got),
			Note: fmt.Sprintf("EncodeToReader: size=%d, %d bytes read with chunk %d, mode %s, err=%v; EncodeToBytes gives %d bytes", size, len(got), chunk, mode, rerr, len(b)), Value: mv})
	}
	return got
}

var _ = vf.NewRng
