package main

func handlerCampaign(g *genState, n int) {}
func replayHandler(g *genState, h hit)  {}
