// C14 harness, part 3: the message handlers built on the decoder, driven with
// hostile payloads under recover: ucon.MessageHandler.HandleMsg (consensus
// gossip entry point) and staking.TxConverter.ApplyMessage (staking
// transaction entry point).  The property clause is "reject rather than crash".
package main

import (
	"crypto/ecdsa"
	"encoding/hex"
	"fmt"
	"math/big"
	"strings"
	"time"

	"github.com/youchainhq/go-youchain/common"
	"github.com/youchainhq/go-youchain/consensus/ucon"
	"github.com/youchainhq/go-youchain/core"
	"github.com/youchainhq/go-youchain/core/state"
	"github.com/youchainhq/go-youchain/core/types"
	"github.com/youchainhq/go-youchain/core/vm"
	"github.com/youchainhq/go-youchain/crypto"
	"github.com/youchainhq/go-youchain/event"
	"github.com/youchainhq/go-youchain/local"
	"github.com/youchainhq/go-youchain/params"
	"github.com/youchainhq/go-youchain/rlp"
	"github.com/youchainhq/go-youchain/staking"
	"github.com/youchainhq/go-youchain/youdb"
	"verif/harness/vf"
)

var (
	hKey *ecdsa.PrivateKey
	hMh  *ucon.MessageHandler
)

func handlerSetup() {
	if hMh != nil {
		return
	}
	hKey, _ = crypto.ToECDSA(common.Hex2Bytes("289c2857d4598e37fb9647507e47a309d6133539bf21a8b9cb6df88fd5232032"))
	val := state.NewValidator("v", common.Address{1}, common.Address{2}, params.RoleChancellor, nil, nil,
		big.NewInt(1000), big.NewInt(10), 0, 0, 0, params.ValidatorOnline)
	getVal := func(round *big.Int, addr common.Address, lb params.LookBackType) (*state.Validator, bool) {
		return val, false
	}
	hMh = ucon.NewMessageHandler(hKey, new(event.TypeMux), getVal,
		func(ev ucon.ReceivedMsgEvent) (error, bool) { return nil, true },
		func(msg *ucon.CachedPriorityMessage, st ucon.MsgReceivedStatus) (error, bool) { return nil, false },
		func(msg *ucon.CachedBlockMessage, st ucon.MsgReceivedStatus) (error, bool) { return nil, false },
		func(ev ucon.VoteMsgEvent, st ucon.MsgReceivedStatus) (error, bool) { return nil, false })
}

var handlerInputModified bool

func runHandleMsg(data []byte) (res string, pan string) {
	handlerSetup()
	orig := append([]byte{}, data...)
	defer func() { handlerInputModified = string(orig) != string(data) }()
	func() {
		defer func() {
			if x := recover(); x != nil {
				pan = fmt.Sprint(x)
			}
		}()
		if err := hMh.HandleMsg(data, time.Now()); err != nil {
			res = "error"
			if strings.Contains(err.Error(), "decode from msg.data") {
				res = "error:outer-decode"
			} else if strings.Contains(err.Error(), "rlp") {
				res = "error:payload-decode"
			} else if strings.Contains(err.Error(), "ignature") || strings.Contains(err.Error(), "recovery") {
				res = "error:signature"
			}
		} else {
			res = "nil"
		}
	}()
	return
}

// a consensus message with a valid signature around an arbitrary payload
func signedMsg(code uint8, payload []byte) []byte {
	sig, err := ucon.Sign(hKey, append(append([]byte{}, payload...), code))
	if err != nil {
		sig = nil
	}
	b, _ := rlp.EncodeToBytes([]interface{}{code, payload, sig})
	return b
}

func runApplyMessage(data []byte, version params.YouVersion) (res string, pan string) {
	func() {
		defer func() {
			if x := recover(); x != nil {
				pan = fmt.Sprint(x)
			}
		}()
		st, err := state.New(common.Hash{}, common.Hash{}, common.Hash{}, state.NewDatabase(youdb.NewMemDatabase()))
		if err != nil {
			res = "setup-error"
			return
		}
		from := common.Address{0xaa}
		st.AddBalance(from, new(big.Int).Lsh(big.NewInt(1), 90))
		to := params.StakingModuleAddress
		msg := types.NewMessage(from, &to, 0, new(big.Int), 10000000, big.NewInt(1), data, false)
		yp := params.Versions[version]
		cfg := &vm.Config{}
		cfg.CurrYouParams = &yp
		header := &types.Header{Number: big.NewInt(100), CurrVersion: version, Time: 1600000000}
		gp := new(core.GasPool).AddGas(100000000)
		ctx := core.NewMsgContext(msg, st, nil, header, common.Address{3}, gp, cfg, local.FakeRecorder())
		ctx.InitialGas, ctx.AvailableGas = 10000000, 10000000
		_, _, failed, err := (&staking.TxConverter{}).ApplyMessage(ctx)
		switch {
		case err != nil:
			res = "error"
		case failed:
			res = "failed"
		default:
			res = "applied"
		}
	}()
	return
}

// is data a staking.Message whose payload decodes as the type of its action?
func stakingDecodable(data []byte) bool {
	var m staking.Message
	if rlp.DecodeBytes(data, &m) != nil {
		return false
	}
	tn := map[staking.ActionType]string{staking.ValidatorCreate: "TxCreateValidator", staking.ValidatorUpdate: "TxUpdateValidator",
		staking.ValidatorDeposit: "TxValidatorDeposit", staking.ValidatorWithDraw: "TxValidatorWithdraw",
		staking.ValidatorChangeStatus: "TxValidatorChangeStatus", staking.ValidatorSettle: "TxValidatorSettle",
		staking.DelegationAdd: "TxDelegation", staking.DelegationSub: "TxDelegation", staking.DelegationSettle: "TxDelegationSettle"}[m.Action]
	if tn == "" {
		return false
	}
	return goDecode(entryByName(tn), m.Payload, false).Accepted
}

func hostilePayload(g *genState, names ...string) []byte {
	r := g.r
	e := entryByName(names[r.Intn(len(names))])
	if len(g.valid[e.name]) == 0 {
		for k := 0; k < 3; k++ {
			g.valueCase(e)
		}
		// the cases added here are ordinary value cases
	}
	if r.Chance(30) && len(g.valid[e.name]) > 0 {
		return g.valid[e.name][r.Intn(len(g.valid[e.name]))]
	}
	b, _ := g.hostile(e)
	return b
}

func handlerCampaign(g *genState, n int) {
	handlerSetup()
	r := g.r
	for i := 0; i < n; i++ {
		switch r.Intn(3) {
		case 0: // raw bytes at the gossip entry point
			var data []byte
			if r.Bool() {
				data, _ = g.hostile(entryByName("UconMessage"))
			} else {
				data = signedMsg(uint8(r.Intn(8)), r.Bytes(r.Heavy(80)))
			}
			res, pan := runHandleMsg(data)
			g.handlerObs("HandleMsg", data, 0, res, pan)
		case 1: // valid signature, hostile payload for the code
			code := uint8(1 + r.Intn(6))
			var p []byte
			switch code {
			case 1:
				p = hostilePayload(g, "ConsensusCommon")
			case 2:
				p = hostilePayload(g, "Block")
			default:
				p = hostilePayload(g, "BlockHashWithVotes")
			}
			if r.Chance(10) { // payload of another message kind
				p = hostilePayload(g, "ConsensusCommon", "Block", "BlockHashWithVotes", "UconValidators")
			}
			data := signedMsg(code, p)
			if r.Chance(35) {
				var m string
				data, m = g.withTail(data)
				g.res.Count("handler_input:" + m)
			}
			res, pan := runHandleMsg(data)
			g.handlerObs("HandleMsg", data, 0, res, pan)
			// reject: a payload that does not decode as the type of its code must give an error
			tn := map[uint8]string{1: "ConsensusCommon", 2: "Block"}[code]
			if tn == "" {
				tn = "BlockHashWithVotes"
			}
			if pan == "" && res == "nil" && !goDecode(entryByName(tn), p, false).Accepted {
				g.hit(hit{What: "handler-accepted-undecodable-payload:HandleMsg", Type: "handler:HandleMsg", Bytes: hex.EncodeToString(data), Note: fmt.Sprintf("code=%d", code)})
			}
		default: // staking transaction data
			var data []byte
			if r.Chance(25) {
				data, _ = g.hostile(entryByName("StakingMessage"))
			} else {
				acts := []uint8{uint8(staking.ValidatorCreate), uint8(staking.ValidatorUpdate), uint8(staking.ValidatorDeposit),
					uint8(staking.ValidatorWithDraw), uint8(staking.ValidatorChangeStatus), uint8(staking.ValidatorSettle),
					uint8(staking.DelegationAdd), uint8(staking.DelegationSub), uint8(staking.DelegationSettle), 0, 7, 0xff}
				a := acts[r.Intn(len(acts))]
				p := hostilePayload(g, "TxCreateValidator", "TxUpdateValidator", "TxValidatorDeposit", "TxValidatorWithdraw",
					"TxValidatorChangeStatus", "TxValidatorSettle", "TxDelegation", "TxDelegationSettle")
				data, _ = rlp.EncodeToBytes([]interface{}{a, p})
			}
			v := params.YouVersion(1 + r.Intn(int(params.YouCurrentVersion)))
			if _, ok := params.Versions[v]; !ok {
				v = params.YouCurrentVersion
			}
			res, pan := runApplyMessage(data, v)
			g.handlerObs("ApplyMessage", data, uint64(v), res, pan)
			if pan == "" && res == "applied" && !stakingDecodable(data) {
				g.hit(hit{What: "handler-accepted-undecodable-payload:ApplyMessage", Type: "handler:ApplyMessage", Bytes: hex.EncodeToString(data), Note: fmt.Sprintf("version=%d", v)})
			}
		}
	}
}

// anything after the envelope: a zero byte, garbage, a second complete envelope
func (g *genState) withTail(data []byte) ([]byte, string) {
	r := g.r
	c := append([]byte{}, data...)
	switch r.Intn(4) {
	case 0:
		return append(c, 0x00), "tail:zero-byte"
	case 1:
		return append(c, r.Bytes(1+r.Heavy(40))...), "tail:garbage"
	case 2:
		return append(c, data...), "tail:second-envelope"
	default:
		return append(c, r.Bytes(4096)...), "tail:4k-junk"
	}
}

func (g *genState) handlerObs(which string, data []byte, version uint64, res, pan string) {
	// an envelope that is not exactly one canonical RLP value (reference parser of the
	// harness) must be rejected: HandleMsg caches and re-gossips its input verbatim
	if which == "HandleMsg" && pan == "" && !strings.HasPrefix(res, "error") {
		if _, err := parseAll(data); err != nil {
			g.res.Count("handler_accepted_noncanonical_envelope")
			g.hit(hit{What: "handler-accepted-noncanonical-envelope:HandleMsg", Type: "handler:HandleMsg", Bytes: hex.EncodeToString(data),
				Note: "HandleMsg returned nil for bytes that are not one canonical value; the raw input is what gets cached and relayed"})
		}
	}
	if which == "HandleMsg" && handlerInputModified {
		handlerInputModified = false
		g.res.Count("handler_wrote_into_input")
		g.hit(hit{What: "handler-wrote-into-its-input:HandleMsg", Type: "handler:HandleMsg", Bytes: hex.EncodeToString(data), Note: "the byte string passed to HandleMsg was modified by the call (bytes shown are after the call)"})
	}
	if pan != "" {
		g.res.Count("handler_panic:" + which)
		g.hit(hit{What: "panic:handler:" + which, Type: "handler:" + which, Bytes: hex.EncodeToString(data), Note: fmt.Sprintf("version=%d panic=%s", version, pan)})
		return
	}
	g.res.Count("handler:" + which + ":" + res)
	g.res.Extra["handler_inputs"] = toInt(g.res.Extra["handler_inputs"]) + 1
}

func toInt(x interface{}) int {
	if v, ok := x.(int); ok {
		return v
	}
	return 0
}

func replayHandler(g *genState, h hit) {
	data, _ := hex.DecodeString(h.Bytes)
	var res, pan string
	if h.Type == "handler:HandleMsg" {
		res, pan = runHandleMsg(data)
	} else {
		var v uint64
		fmt.Sscanf(h.Note, "version=%d", &v)
		if v == 0 {
			v = uint64(params.YouCurrentVersion)
		}
		res, pan = runApplyMessage(data, params.YouVersion(v))
	}
	fmt.Println("result:", res, "panic:", pan)
	g.handlerObs(strings.TrimPrefix(h.Type, "handler:"), data, 0, res, pan)
}

var _ = vf.NewRng
