// C14 harness, part 10: "equal objects have one encoding and ONE HASH".  For
// every accepted byte string b of a type with a Hash() method, with x = decode(b):
// x.Hash() must equal decode(encode(x)).Hash() - the pair (b, encode(x)) are two
// accepted encodings of equal objects - and, where the hash is defined as the
// digest of the encoding (Transaction, SlashData), keccak256(encode(x)); a cached
// Size() must be len(encode(x)).  The same for every transaction and block found
// inside the decoded object (block bodies, transaction lists, block announcements).
// The key of this clause is separate from the accepted-but-not-canonical classes:
// the open rlp:"nil" finding does not mask a hash that depends on the spelling.
package main

import (
	"bytes"
	"encoding/hex"
	"fmt"
	"reflect"

	"github.com/youchainhq/go-youchain/common"
	"github.com/youchainhq/go-youchain/core/types"
	"github.com/youchainhq/go-youchain/crypto"
	"github.com/youchainhq/go-youchain/rlp"
	"github.com/youchainhq/go-youchain/staking"
)

type hasher interface{ Hash() common.Hash }

func safeHash(x interface{}) (h common.Hash, ok bool) {
	defer func() {
		if r := recover(); r != nil {
			ok = false
		}
	}()
	hx, is := x.(hasher)
	if !is {
		return common.Hash{}, false
	}
	return hx.Hash(), true
}

// transactions and blocks reachable from a decoded object
func collectHashed(v reflect.Value, txs *[]*types.Transaction, blocks *[]*types.Block, depth int) {
	if depth > 6 || !v.IsValid() {
		return
	}
	switch v.Kind() {
	case reflect.Ptr:
		if v.IsNil() {
			return
		}
		if v.CanInterface() {
			switch x := v.Interface().(type) {
			case *types.Transaction:
				*txs = append(*txs, x)
				return
			case *types.Block:
				*blocks = append(*blocks, x)
				for _, t := range x.Transactions() {
					*txs = append(*txs, t)
				}
				return
			}
		}
		collectHashed(v.Elem(), txs, blocks, depth+1)
	case reflect.Slice:
		if v.Type().Elem().Kind() == reflect.Uint8 {
			return
		}
		for i := 0; i < v.Len() && i < 64; i++ {
			collectHashed(v.Index(i), txs, blocks, depth+1)
		}
	case reflect.Struct:
		if v.CanAddr() && v.Addr().CanInterface() {
			switch x := v.Addr().Interface().(type) {
			case *types.Transaction:
				*txs = append(*txs, x)
				return
			case *types.Block:
				*blocks = append(*blocks, x)
				for _, t := range x.Transactions() {
					*txs = append(*txs, t)
				}
				return
			}
		}
		for i := 0; i < v.NumField(); i++ {
			if v.Type().Field(i).PkgPath == "" {
				collectHashed(v.Field(i), txs, blocks, depth+1)
			}
		}
	}
}

const hashKey = "hash-not-a-function-of-the-value:"

// hashOracle: obj was decoded from the accepted input b and re-encodes to re.
// Returns the byte string whose keccak the object's Hash() is, for the types whose
// hash is the digest of their encoding (nil otherwise / if neither b nor re).
func (g *genState) hashOracle(e *entry, obj reflect.Value, b, re []byte, via string) (preimage []byte, digestType bool) {
	report := func(what, note string) {
		g.res.Count("hash_oracle_hit")
		g.hit(hit{What: hashKey + what, Type: e.name, Bytes: hex.EncodeToString(b), Re: hex.EncodeToString(re), Via: via, Note: note})
	}
	if !obj.IsValid() || obj.Kind() != reflect.Ptr || obj.IsNil() {
		return nil, false
	}
	x := obj.Interface()
	if h1, ok := safeHash(x); ok {
		g.res.Count("hash_checked:" + e.name)
		// the same object read from its own encoding
		o2 := goDecode(e, re, false)
		if o2.Accepted {
			if h2, ok2 := safeHash(o2.obj.Interface()); ok2 && h1 != h2 {
				report(e.name, fmt.Sprintf("Hash() of the object decoded from the input is %x, Hash() of the object decoded from its own encoding is %x: equal objects, two hashes", h1, h2))
			}
		}
		switch x.(type) {
		case *types.Transaction, *staking.SlashData:
			digestType = true
			switch {
			case h1 == crypto.Keccak256Hash(re):
				preimage = re
			case h1 == crypto.Keccak256Hash(b):
				preimage = b
			}
			if h1 != crypto.Keccak256Hash(re) {
				report(e.name, fmt.Sprintf("Hash() = %x is not keccak256(encode(x)) = %x", h1, crypto.Keccak256Hash(re)))
			}
		}
	}
	var txs []*types.Transaction
	var blocks []*types.Block
	collectHashed(obj, &txs, &blocks, 0)
	for i, tx := range txs {
		enc, err := rlp.EncodeToBytes(tx)
		if err != nil {
			continue
		}
		g.res.Count("hash_checked:tx-inside")
		if h, ok := safeHash(tx); ok && h != crypto.Keccak256Hash(enc) {
			report(e.name, fmt.Sprintf("transaction %d inside: Hash() = %x but keccak256 of its encoding is %x", i, h, crypto.Keccak256Hash(enc)))
		}
		if int(tx.Size()) != len(enc) {
			report(e.name+":size", fmt.Sprintf("transaction %d inside: Size() = %d, its encoding has %d bytes", i, int(tx.Size()), len(enc)))
		}
	}
	for i, bl := range blocks {
		enc, err := rlp.EncodeToBytes(bl)
		if err != nil {
			continue
		}
		var b2 types.Block
		if rlp.DecodeBytes(enc, &b2) == nil {
			h1, ok1 := safeHash(bl)
			h2, ok2 := safeHash(&b2)
			if ok1 && ok2 && h1 != h2 {
				report(e.name, fmt.Sprintf("block %d inside: Hash() %x differs from the hash of the block read from its own encoding %x", i, h1, h2))
			}
			if types.DeriveSha(bl.Transactions()) != types.DeriveSha(b2.Transactions()) {
				report(e.name, fmt.Sprintf("block %d inside: transaction root differs after re-encoding", i))
			}
		}
		if int(bl.Size()) != len(enc) {
			report(e.name+":size", fmt.Sprintf("block %d inside: Size() = %d, its encoding has %d bytes", i, int(bl.Size()), len(enc)))
		}
	}
	return preimage, digestType
}

var _ = bytes.Equal
