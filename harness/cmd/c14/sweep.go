// C14 harness, part 8: the well-formed sweep.  Hostile bytes mostly die in the
// reflection decoder; the code of a hand-written DecodeRLP that runs AFTER the
// fields were read (caches, conversions by length, map inserts) only sees
// well-formed records.  For every type of the inventory, values are built with
// every byte-string field at a boundary length and every small integer field
// (versions, kinds, status, role, codes) at a small value - the product of the
// two, so a version field meets every length of its dependent payload - encoded
// by the implementation and decoded through every registered entry point inside
// recover().  A panic on such an input, or an accepted input that does not
// re-encode to itself, is an oracle hit.
package main

import (
	"bytes"
	"encoding/hex"
	"fmt"
	"reflect"

	"github.com/youchainhq/go-youchain/rlp"
	"github.com/youchainhq/go-youchain/staking"
	"verif/harness/vf"
)

var sweepLens = []int{0, 1, 7, 8, 9, 31, 32, 33, 55, 56, 255, 256, 1000}
var sweepEnums = []uint64{0, 1, 2, 3, 4, 5, 6, 7, 255}

// topics of staking.DecodeLogDataFromBytes by payload type
var logTopics = map[string][]string{
	"Validator":      {staking.LogTopicCreate, staking.LogTopicChangeStatus, staking.LogTopicDeposit, staking.LogTopicUpdate},
	"WithdrawRecord": {staking.LogTopicWithdraw, staking.LogTopicWithdrawResult},
	"SlashData":      {staking.LogTopicSlashing},
}

func (g *genState) sweepHit(e *entry, via string, b []byte, what, note string) {
	g.res.Count("sweep_hit")
	g.hit(hit{What: what, Type: e.name, Bytes: hex.EncodeToString(b), Via: via, Note: note})
}

// one well-formed value of type e under the given mode through all entry points
func (g *genState) sweepCase(e *entry, m sweepMode, emit bool) {
	r := g.r
	p := e.mk()
	sweep = &m
	curInvalid = false
	var fpan string
	func() {
		defer func() {
			if x := recover(); x != nil {
				fpan = fmt.Sprint(x)
			}
			sweep = nil
		}()
		fill(r, p.Elem(), ftag{}, 0)
	}()
	if fpan != "" {
		g.res.Count("sweep_fill_failed")
		return
	}
	desc := fmt.Sprintf("well-formed value: small integers=%d, byte strings of %d bytes, wide=%d, lists=%d", m.enum, m.blen, m.wide, m.list)
	b, errs, pan := goEncode(p)
	if pan != "" || errs != "" || len(b) > 6<<20 {
		g.res.Count("sweep_not_encodable")
		return
	}
	g.res.Count("sweep_values")
	check := func(via string, o obs, read []byte) {
		if o.Panic != "" {
			g.sweepHit(e, via, b, "panic:decode:"+e.name, "decoder panicked on well-formed input of type "+e.name+" ("+desc+"): "+o.Panic)
			return
		}
		if !o.Accepted {
			g.res.Count("sweep_reject")
			return
		}
		re, errs, pan := goEncode(o.obj)
		if pan != "" || errs != "" {
			g.sweepHit(e, via, b, "panic:reencode-accepted:"+e.name, desc+": "+pan+errs)
			return
		}
		g.hashOracle(e, o.obj, read, re, via)
		g.ownershipOracle(e, viaByName(e, via), read)
		g.capOracle(e, o.obj, read, via)
		if !bytes.Equal(re, read) {
			cl := classify(e, read, re)
			what := "noncanonical-accept:" + cl
			if cl == "" {
				what = "noncanonical-accept:unclassified:" + e.name
			}
			g.hit(hit{What: what, Type: e.name, Bytes: hex.EncodeToString(b), Re: hex.EncodeToString(re), Via: via, Note: desc})
			return
		}
		g.res.Count("sweep_accept_canonical")
	}
	check("", goDecode(e, b, false), b)
	so, unread := goDecodeStream(e, b)
	if so.Accepted && unread != 0 {
		g.sweepHit(e, "", b, "noncanonical-accept:unclassified:"+e.name, "stream left bytes of a single value unread")
	}
	so.Alloc = 0
	check("", so, b)
	for i := range e.via {
		v := &e.via[i]
		check(v.name, goDecodeVia(e, v, b), b)
	}
	// the record inside a staking log entry
	for _, topic := range logTopics[e.name] {
		ld, err := rlp.EncodeToBytes(staking.LogData{Topic: topic, Tags: []string{"t"}, Data: b})
		if err != nil {
			continue
		}
		var lpan string
		var payload interface{}
		var lerr error
		func() {
			defer func() {
				if x := recover(); x != nil {
					lpan = fmt.Sprint(x)
				}
			}()
			_, _, payload, lerr = staking.DecodeLogDataFromBytes(ld)
		}()
		g.res.Count("via:staking.DecodeLogDataFromBytes")
		if lpan != "" {
			g.hit(hit{What: "panic:decode:LogData", Type: "LogData", Bytes: hex.EncodeToString(ld), Via: "staking.DecodeLogDataFromBytes",
				Note: "decoder panicked on a well-formed log entry (topic " + topic + ") holding a " + e.name + " (" + desc + "): " + lpan})
			continue
		}
		if lerr == nil && payload != nil {
			if re, err := rlp.EncodeToBytes(payload); err != nil || !bytes.Equal(re, b) {
				g.hit(hit{What: "noncanonical-accept:unclassified:LogData", Type: "LogData", Bytes: hex.EncodeToString(ld), Re: hex.EncodeToString(re), Via: "staking.DecodeLogDataFromBytes", Note: desc})
			}
		}
	}
	if emit {
		mv, pp := projObj(p)
		if pp != "" {
			return
		}
		o := goDecode(e, b, false)
		rt := false
		if o.Accepted {
			mv2, _ := projObj(o.obj)
			rt = mvEq(mv, mv2)
		}
		c := Case{Kind: "enc", Type: e.name, ty: e.id, Bytes: hex.EncodeToString(b), Value: &mv, RT: rt, Mut: "sweep"}
		c.coq = fmt.Sprintf("PEnc %d (%s) %s %s", e.id, mv.Coq(), vf.Bool(rt), byteList(b))
		g.add(c)
		if rt && len(g.valid[e.name]) < 40 {
			g.valid[e.name] = append(g.valid[e.name], b)
		}
	}
}

// sweepCampaign: the full product enum x length for every type; wide integers and list
// shapes cycle.  boosted types (their coder changed, see changedCoders) get the product
// for every list shape and every wide value.
func (g *genState) sweepCampaign(boost map[string]bool) {
	k := 0
	for _, e := range entries {
		reps := 1
		if boost[e.t.Name()] || boost[e.name] {
			reps = 12
		}
		for rep := 0; rep < reps; rep++ {
			for _, en := range sweepEnums {
				for _, bl := range sweepLens {
					k++
					m := sweepMode{enum: en, blen: bl, wide: (k + rep) % 4, list: (k/4 + rep) % 4}
					if bl >= 255 && m.list >= 2 {
						m.list = 1 // keep the big ones small in number
					}
					g.sweepCase(e, m, k%32 == 0)
				}
			}
		}
	}
}

// byte fields around every size threshold in sight (a page, 64 KiB, 1 MiB where cheap)
func (g *genState) bigBytesCampaign() {
	k := 0
	for _, e := range entries {
		for _, bl := range []int{4095, 4096, 4097, 65535, 65536} {
			k++
			g.sweepCase(e, sweepMode{enum: 1, blen: bl, wide: 3, list: 1}, false)
		}
	}
	for _, tn := range []string{"UconMessage", "Transaction", "StakingMessage", "Evidences"} {
		g.sweepCase(entryByName(tn), sweepMode{enum: 1, blen: 1 << 20, wide: 1, list: 1}, false)
	}
}

var _ = reflect.TypeOf
