// C14 harness, part 5: inventory of the places where the node turns bytes into
// objects (translator "callsites" -> coq/gen/C14CallSites.v).  rlp.DecodeBytes
// insists on exactly one value; rlp.Decode / rlp.NewStream / p2p Msg.Decode read
// one value and tolerate whatever follows.  Bridge.v pins the list of the
// tolerant sites, so a call site that becomes tolerant (or a new one) breaks a
// proof obligation even before an input is found.
package main

import (
	"bytes"
	"fmt"
	"go/ast"
	"go/parser"
	"go/printer"
	"go/token"
	"io/ioutil"
	"os"
	"path/filepath"
	"sort"
	"strings"

	"verif/harness/vf"
)

var callSiteDirs = []string{"consensus/ucon", "staking", "core/state", "core/types", "core/rawdb", "core", "you", "p2p"}

type callSite struct {
	file, fn, callee string
	kind             int // 0 strict (DecodeBytes), 1 stream (rlp.Decode / NewStream), 2 p2p message stream (msg.Decode)
}

func recvName(fd *ast.FuncDecl) string {
	if fd.Recv == nil || len(fd.Recv.List) == 0 {
		return fd.Name.Name
	}
	t := fd.Recv.List[0].Type
	if s, ok := t.(*ast.StarExpr); ok {
		t = s.X
	}
	if id, ok := t.(*ast.Ident); ok {
		return id.Name + "." + fd.Name.Name
	}
	return fd.Name.Name
}

func collectCallSites() []callSite {
	var out []callSite
	root := repoDir()
	for _, d := range callSiteDirs {
		files, _ := ioutil.ReadDir(filepath.Join(root, d))
		for _, fi := range files {
			n := fi.Name()
			if fi.IsDir() || !strings.HasSuffix(n, ".go") || strings.HasSuffix(n, "_test.go") || strings.HasPrefix(n, "zz_verif") {
				continue
			}
			if d == "p2p" && n != "message.go" {
				continue
			}
			fset := token.NewFileSet()
			f, err := parser.ParseFile(fset, filepath.Join(root, d, n), nil, 0)
			if err != nil {
				fmt.Println("cannot parse", d, n, err)
				os.Exit(3)
			}
			for _, decl := range f.Decls {
				fd, ok := decl.(*ast.FuncDecl)
				if !ok || fd.Body == nil {
					continue
				}
				// inside a custom coder the stream belongs to the caller: not an entry point
				if fd.Name.Name == "DecodeRLP" || fd.Name.Name == "EncodeRLP" {
					continue
				}
				fn := recvName(fd)
				ast.Inspect(fd.Body, func(x ast.Node) bool {
					ce, ok := x.(*ast.CallExpr)
					if !ok {
						return true
					}
					se, ok := ce.Fun.(*ast.SelectorExpr)
					if !ok {
						return true
					}
					id, ok := se.X.(*ast.Ident)
					if !ok {
						return true
					}
					switch {
					case id.Name == "rlp" && se.Sel.Name == "DecodeBytes":
						out = append(out, callSite{d + "/" + n, fn, "rlp.DecodeBytes", 0})
					case id.Name == "rlp" && (se.Sel.Name == "Decode" || se.Sel.Name == "NewStream" || se.Sel.Name == "NewListStream"):
						out = append(out, callSite{d + "/" + n, fn, "rlp." + se.Sel.Name, 1})
					case id.Name == "msg" && se.Sel.Name == "Decode":
						out = append(out, callSite{d + "/" + n, fn, "msg.Decode", 2})
					}
					return true
				})
			}
		}
	}
	sort.SliceStable(out, func(i, j int) bool {
		if out[i].file != out[j].file {
			return out[i].file < out[j].file
		}
		return out[i].fn < out[j].fn
	})
	return out
}

// DecodeRLP methods that look at Stream.Kind() themselves (a peek whose error they
// may ignore) before handing the same value to a decoder: they rely on the
// size-bound error of Kind being sticky.
func collectPeekers() [][2]string {
	var out [][2]string
	root := repoDir()
	for _, d := range append([]string{"local", "p2p/enr", "p2p/enode", "trie"}, callSiteDirs...) {
		files, _ := ioutil.ReadDir(filepath.Join(root, d))
		for _, fi := range files {
			n := fi.Name()
			if fi.IsDir() || !strings.HasSuffix(n, ".go") || strings.HasSuffix(n, "_test.go") || strings.HasPrefix(n, "zz_verif") {
				continue
			}
			fset := token.NewFileSet()
			f, err := parser.ParseFile(fset, filepath.Join(root, d, n), nil, 0)
			if err != nil {
				continue
			}
			for _, decl := range f.Decls {
				fd, ok := decl.(*ast.FuncDecl)
				if !ok || fd.Body == nil || fd.Name.Name != "DecodeRLP" {
					continue
				}
				peeks := false
				ast.Inspect(fd.Body, func(x ast.Node) bool {
					if ce, ok := x.(*ast.CallExpr); ok {
						if se, ok := ce.Fun.(*ast.SelectorExpr); ok && se.Sel.Name == "Kind" {
							peeks = true
						}
					}
					return true
				})
				if peeks {
					out = append(out, [2]string{d + "/" + n, recvName(fd)})
				}
			}
		}
	}
	sort.Slice(out, func(i, j int) bool { return out[i][0]+out[i][1] < out[j][0]+out[j][1] })
	return out
}

// ---- what the hand-written coders do with the bytes they decoded ------------------------
// For every DecodeRLP / EncodeRLP method of the packages that own wire types: the
// calls it makes (and index / slice expressions), and the same for the helpers of its
// own package it calls (one level).  A helper that indexes, slices or converts by
// length (hexutil.CompactBytesToUint64, common.BytesToHash ...) appearing inside a
// decoder is a new place where attacker-controlled field data is interpreted.
var coderDirs = []string{"core/types", "core/state", "consensus/ucon", "staking", "local"}

func exprString(fset *token.FileSet, e ast.Expr) string {
	var buf bytes.Buffer
	printer.Fprint(&buf, fset, e)
	return strings.Join(strings.Fields(buf.String()), "")
}

func callsOf(fset *token.FileSet, body *ast.BlockStmt) (out []string, bare []string) {
	seen := map[string]bool{}
	add := func(s string) {
		if !seen[s] {
			seen[s] = true
			out = append(out, s)
		}
	}
	ast.Inspect(body, func(x ast.Node) bool {
		switch n := x.(type) {
		case *ast.CallExpr:
			switch f := n.Fun.(type) {
			case *ast.Ident:
				add(f.Name)
				bare = append(bare, f.Name)
			case *ast.SelectorExpr:
				add(exprString(fset, f))
				bare = append(bare, f.Sel.Name)
			case *ast.ArrayType, *ast.ParenExpr, *ast.StarExpr, *ast.MapType:
				add("<conversion>")
			default:
				add("<call>")
			}
		case *ast.IndexExpr:
			add("<index>")
		case *ast.SliceExpr:
			add("<slice>")
		}
		return true
	})
	sort.Strings(out)
	return
}

func collectCoderCalls() [][2]string {
	var out [][2]string
	root := repoDir()
	for _, d := range coderDirs {
		files, _ := ioutil.ReadDir(filepath.Join(root, d))
		fset := token.NewFileSet()
		funcs := map[string]*ast.FuncDecl{} // helpers of the package by bare name
		var coders []*ast.FuncDecl
		for _, fi := range files {
			n := fi.Name()
			if fi.IsDir() || !strings.HasSuffix(n, ".go") || strings.HasSuffix(n, "_test.go") || strings.HasPrefix(n, "zz_verif") {
				continue
			}
			f, err := parser.ParseFile(fset, filepath.Join(root, d, n), nil, 0)
			if err != nil {
				fmt.Println("cannot parse", d, n, err)
				os.Exit(3)
			}
			for _, decl := range f.Decls {
				fd, ok := decl.(*ast.FuncDecl)
				if !ok || fd.Body == nil {
					continue
				}
				if fd.Name.Name == "DecodeRLP" || fd.Name.Name == "EncodeRLP" {
					coders = append(coders, fd)
				} else {
					funcs[fd.Name.Name] = fd
				}
			}
		}
		for _, fd := range coders {
			name := d + ":" + recvName(fd)
			calls, bare := callsOf(fset, fd.Body)
			for _, c := range calls {
				out = append(out, [2]string{name, c})
			}
			done := map[string]bool{}
			for _, b := range bare {
				if h, ok := funcs[b]; ok && !done[b] {
					done[b] = true
					hc, _ := callsOf(fset, h.Body)
					for _, c := range hc {
						out = append(out, [2]string{name + ">" + recvName(h), c})
					}
				}
			}
		}
	}
	sort.Slice(out, func(i, j int) bool {
		if out[i][0] != out[j][0] {
			return out[i][0] < out[j][0]
		}
		return out[i][1] < out[j][1]
	})
	return out
}

// coders whose inventory differs from the pinned one (coder_calls_golden.go): the
// types they belong to get a tenfold budget in gen
func changedCoders() map[string]bool {
	cur := map[string]bool{}
	for _, p := range collectCoderCalls() {
		cur[p[0]+"\t"+p[1]] = true
	}
	gold := map[string]bool{}
	for _, l := range strings.Split(strings.TrimSpace(coderCallsGolden), "\n") {
		gold[l] = true
	}
	out := map[string]bool{}
	mark := func(k string) {
		m := strings.SplitN(k, "\t", 2)[0]       // dir:Type.Method>helper
		m = strings.SplitN(m, ">", 2)[0]
		m = m[strings.Index(m, ":")+1:]
		out[strings.SplitN(m, ".", 2)[0]] = true // the Go type name
	}
	for k := range cur {
		if !gold[k] {
			mark(k)
		}
	}
	for k := range gold {
		if !cur[k] {
			mark(k)
		}
	}
	return out
}

func callSitesCmd(out string) {
	sites := collectCallSites()
	var sb strings.Builder
	sb.WriteString("(* GENERATED by harness/cmd/c14 (callsites) from the source text of the working tree. Do not edit.\n")
	sb.WriteString("   (file, function, kind): 0 = rlp.DecodeBytes (exactly one value), 1 = rlp.Decode / rlp.NewStream on a reader\n")
	sb.WriteString("   (one value, trailing bytes tolerated), 2 = p2p Msg.Decode (the same, on the message payload). *)\n")
	sb.WriteString("From Coq Require Import List String NArith.\nImport ListNotations.\nLocal Open Scope string_scope.\nLocal Open Scope N_scope.\n")
	sb.WriteString("Definition call_sites : list (string * string * N) := [\n")
	for i, s := range sites {
		if i > 0 {
			sb.WriteString(";\n")
		}
		sb.WriteString(fmt.Sprintf("  (%q, %q, %d)", s.file, s.fn, s.kind))
	}
	sb.WriteString("].\n")
	sb.WriteString("(* DecodeRLP methods that call Stream.Kind() themselves before decoding the same value *)\n")
	sb.WriteString("Definition peeking_decoders : list (string * string) := [")
	for i, p := range collectPeekers() {
		if i > 0 {
			sb.WriteString("; ")
		}
		sb.WriteString(fmt.Sprintf("(%q, %q)", p[0], p[1]))
	}
	sb.WriteString("].\n")
	sb.WriteString("(* (hand-written coder [> helper of its package], what it calls): see callsites.go *)\n")
	sb.WriteString("Definition coder_calls : list (string * string) := [\n")
	for i, p := range collectCoderCalls() {
		if i > 0 {
			sb.WriteString(";\n")
		}
		sb.WriteString(fmt.Sprintf("  (%q, %q)", p[0], p[1]))
	}
	sb.WriteString("].\n")
	vf.WriteIfChanged(out, sb.String())
}
