// C14 harness, part 1: the inventory of wire/disk types, the schema
// translator (T4: reflect -> Coq schema, same case order as
// rlp.makeDecoder/makeWriter), random filling of Go values and the projection
// of Go values to the model's value type.
package main

import (
	"fmt"
	"math/big"
	"reflect"
	"sort"
	"strings"
	"unsafe"

	"github.com/youchainhq/go-youchain/common"
	"github.com/youchainhq/go-youchain/consensus/ucon"
	"github.com/youchainhq/go-youchain/core/state"
	"github.com/youchainhq/go-youchain/core/types"
	"github.com/youchainhq/go-youchain/params"
	"github.com/youchainhq/go-youchain/rlp"
	"github.com/youchainhq/go-youchain/staking"
	"verif/harness/vf"
)

// ---- model values -----------------------------------------------------------

// MV mirrors Coq's [value]: K = n(um) b(ool) s(tring of bytes) l(ist) z (nil).
type MV struct {
	K string   `json:"k"`
	N *big.Int `json:"n,omitempty"`
	T bool     `json:"t,omitempty"`
	B []byte   `json:"b,omitempty"`
	L []MV     `json:"l,omitempty"`
}

func mvNum(x *big.Int) MV    { return MV{K: "n", N: new(big.Int).Set(x)} }
func mvU(x uint64) MV        { return MV{K: "n", N: new(big.Int).SetUint64(x)} }
func mvBool(b bool) MV       { return MV{K: "b", T: b} }
func mvBytes(b []byte) MV    { return MV{K: "s", B: append([]byte{}, b...)} }
func mvList(l ...MV) MV      { return MV{K: "l", L: l} }
func mvNil() MV              { return MV{K: "z"} }

func (m MV) Coq() string {
	switch m.K {
	case "n":
		return "PNum " + byteList(m.N.Bytes())
	case "b":
		return "PBool " + vf.Bool(m.T)
	case "s":
		return "PBytes " + byteList(m.B)
	case "l":
		xs := make([]string, len(m.L))
		for i, x := range m.L {
			xs[i] = "(" + x.Coq() + ")"
		}
		return "PList [" + strings.Join(xs, ";") + "]"
	}
	return "PNil"
}

func mvEq(a, b MV) bool {
	if a.K != b.K {
		return false
	}
	switch a.K {
	case "n":
		return a.N.Cmp(b.N) == 0
	case "b":
		return a.T == b.T
	case "s":
		return string(a.B) == string(b.B)
	case "l":
		if len(a.L) != len(b.L) {
			return false
		}
		for i := range a.L {
			if !mvEq(a.L[i], b.L[i]) {
				return false
			}
		}
	}
	return true
}

// byteList prints a byte string in the packed form of coq/C14/Pack.v:
// (length, [words]) with 7 bytes per primitive integer, big endian.
func byteList(b []byte) string {
	var sb strings.Builder
	sb.WriteString(fmt.Sprintf("(%d,[", len(b)))
	for i := 0; i < len(b); i += 7 {
		j := i + 7
		if j > len(b) {
			j = len(b)
		}
		var w uint64
		for _, c := range b[i:j] {
			w = w<<8 | uint64(c)
		}
		if i > 0 {
			sb.WriteByte(';')
		}
		sb.WriteString(fmt.Sprint(w))
	}
	sb.WriteString("])")
	return sb.String()
}

// ---- reflection helpers -------------------------------------------------------

var (
	bigIntT    = reflect.TypeOf(big.Int{})
	bigPtrT    = reflect.TypeOf((*big.Int)(nil))
	decoderT   = reflect.TypeOf(new(rlp.Decoder)).Elem()
	encoderT   = reflect.TypeOf(new(rlp.Encoder)).Elem()
	rawValueT  = reflect.TypeOf(rlp.RawValue{})
)

// settable view of a (possibly unexported) struct field of an addressable struct
func field(v reflect.Value, name string) reflect.Value {
	f := v.FieldByName(name)
	if !f.IsValid() {
		panic("no field " + name + " in " + v.Type().String())
	}
	return reflect.NewAt(f.Type(), unsafe.Pointer(f.UnsafeAddr())).Elem()
}

func addressable(v reflect.Value) reflect.Value {
	if v.CanAddr() {
		return v
	}
	c := reflect.New(v.Type()).Elem()
	c.Set(v)
	return c
}

type ftag struct{ ignored, nilOK, tail bool }

func parseTag(f reflect.StructField) ftag {
	var t ftag
	for _, s := range strings.Split(f.Tag.Get("rlp"), ",") {
		switch strings.TrimSpace(s) {
		case "-":
			t.ignored = true
		case "nil":
			t.nilOK = true
		case "tail":
			t.tail = true
		}
	}
	return t
}

// the fields rlp sees (typecache.go structFields)
func rlpFields(t reflect.Type) []reflect.StructField {
	var out []reflect.StructField
	for i := 0; i < t.NumField(); i++ {
		f := t.Field(i)
		if f.PkgPath != "" || parseTag(f).ignored {
			continue
		}
		out = append(out, f)
	}
	return out
}

func isUintKind(k reflect.Kind) bool { return k >= reflect.Uint && k <= reflect.Uintptr }

func isByteElem(e reflect.Type) bool {
	return e.Kind() == reflect.Uint8 && !reflect.PtrTo(e).Implements(decoderT)
}

// ---- custom coders --------------------------------------------------------------

type custom struct {
	coq  string         // constructor in coq/C14/Model.v
	args []reflect.Type // nested types whose schema is passed to it
	fill func(r *vf.Rng, v reflect.Value, d int) // v: addressable value of the type
	proj func(v reflect.Value) MV                // v: addressable value of the type
}

var customs = map[reflect.Type]*custom{}

var pendingRelT reflect.Type // set from the hook (unexported type)

func typeOfField(v interface{}, name string) reflect.Type {
	f, ok := reflect.TypeOf(v).FieldByName(name)
	if !ok {
		panic("no field " + name)
	}
	return f.Type
}

func projFieldsByName(v reflect.Value, names ...string) []MV {
	var out []MV
	for _, n := range names {
		out = append(out, proj(field(v, n), ftag{}))
	}
	return out
}

func initCustoms() {
	txT := reflect.TypeOf(types.Transaction{})
	txdataT := typeOfField(types.Transaction{}, "data")
	hdrT := reflect.TypeOf(types.Header{})
	customs[txT] = &custom{coq: "custom_Transaction", args: []reflect.Type{txdataT},
		fill: func(r *vf.Rng, v reflect.Value, d int) { fill(r, field(v, "data"), ftag{}, d) },
		proj: func(v reflect.Value) MV { return proj(field(v, "data"), ftag{}) }}
	customs[reflect.TypeOf(types.Block{})] = &custom{coq: "custom_Block", args: []reflect.Type{hdrT, txT},
		fill: func(r *vf.Rng, v reflect.Value, d int) {
			fill(r, field(v, "header"), ftag{}, d)
			fill(r, field(v, "transactions"), ftag{}, d)
		},
		proj: func(v reflect.Value) MV { return mvList(projFieldsByName(v, "header", "transactions")...) }}
	logT := reflect.TypeOf(types.Log{})
	customs[logT] = &custom{coq: "custom_Log",
		fill: func(r *vf.Rng, v reflect.Value, d int) {
			for _, n := range []string{"Address", "Topics", "Data"} {
				fill(r, field(v, n), ftag{}, d)
			}
		},
		proj: func(v reflect.Value) MV { return mvList(projFieldsByName(v, "Address", "Topics", "Data")...) }}
	lfsNames := []string{"Address", "Topics", "Data", "BlockNumber", "TxHash", "TxIndex", "BlockHash", "Index"}
	customs[reflect.TypeOf(types.LogForStorage{})] = &custom{coq: "custom_LogForStorage",
		fill: func(r *vf.Rng, v reflect.Value, d int) {
			for _, n := range lfsNames {
				fill(r, field(v, n), ftag{}, d)
			}
		},
		proj: func(v reflect.Value) MV { return mvList(projFieldsByName(v, lfsNames...)...) }}
	fillReceipt := func(names []string, storage bool) func(r *vf.Rng, v reflect.Value, d int) {
		return func(r *vf.Rng, v reflect.Value, d int) {
			for _, n := range names {
				fill(r, field(v, n), ftag{}, d)
			}
			rc := v.Addr().Convert(reflect.TypeOf(&types.Receipt{})).Interface().(*types.Receipt)
			if storage {
				for _, l := range rc.Logs {
					if l != nil {
						customs[reflect.TypeOf(types.LogForStorage{})].fill(r, reflect.ValueOf((*types.LogForStorage)(l)).Elem(), d)
					}
				}
			}
			pick := r.Intn(10)
			if sweep != nil && sweep.listN > 0 && (pick == 3 || pick == 4) {
				pick = 5 // large containers hold values of the round-trip domain only
			}
			switch pick {
			case 0, 1, 2:
				rc.PostState, rc.Status = r.Bytes(32), 0
			case 3, 4: // not a value the decoder gives back: post state of another length, status > 1
				rc.PostState, rc.Status = r.Bytes(int(r.Pick([]uint64{1, 2, 31, 33, 34, 64, uint64(r.Intn(40))}))), uint64(r.Intn(3))
				if r.Chance(25) {
					rc.PostState, rc.Status = nil, 2+uint64(r.Intn(5))
				}
				curInvalid = true
			default:
				rc.PostState, rc.Status = nil, uint64(r.Intn(2))
			}
		}
	}
	customs[reflect.TypeOf(types.Receipt{})] = &custom{coq: "custom_Receipt",
		fill: fillReceipt([]string{"CumulativeGasUsed", "Bloom", "Logs"}, false),
		proj: func(v reflect.Value) MV {
			return mvList(projFieldsByName(v, "PostState", "Status", "CumulativeGasUsed", "Bloom", "Logs")...)
		}}
	customs[reflect.TypeOf(types.ReceiptForStorage{})] = &custom{coq: "custom_ReceiptForStorage",
		fill: fillReceipt([]string{"CumulativeGasUsed", "Bloom", "Logs", "TxHash", "ContractAddress", "GasUsed"}, true),
		proj: func(v reflect.Value) MV {
			out := projFieldsByName(v, "PostState", "Status", "CumulativeGasUsed", "Bloom", "TxHash", "ContractAddress")
			logs := field(v, "Logs")
			var ls []MV
			for i := 0; i < logs.Len(); i++ {
				l := logs.Index(i)
				if l.IsNil() {
					ls = append(ls, mvNil())
					continue
				}
				ls = append(ls, customs[reflect.TypeOf(types.LogForStorage{})].proj(l.Convert(reflect.TypeOf(&types.LogForStorage{})).Elem()))
			}
			out = append(out, mvList(ls...))
			out = append(out, projFieldsByName(v, "GasUsed")...)
			return mvList(out...)
		}}
	aliasT := reflect.TypeOf(state.AliasValidator{})
	valT := reflect.TypeOf(state.Validator{})
	customs[valT] = &custom{coq: "custom_Validator", args: []reflect.Type{aliasT},
		fill: func(r *vf.Rng, v reflect.Value, d int) {
			a := v.Addr().Convert(reflect.PtrTo(aliasT)).Elem()
			fillStruct(r, a, d)
			field(v, "Expelled").SetBool(r.Bool())
		},
		proj: func(v reflect.Value) MV {
			a := v.Addr().Convert(reflect.PtrTo(aliasT)).Elem()
			// EncodeRLP replaces nil big.Int pointers by zero: same model value
			return mvList(projStruct(a), mvBool(v.FieldByName("Expelled").Bool()))
		}}
	vksNames := []string{"onlineStake", "onlineToken", "onlineCount", "offlineStake", "offlineToken", "offlineCount", "rewardsResidue", "rewardsDistributable"}
	vksT := reflect.TypeOf(state.ValKindStat{})
	customs[vksT] = &custom{coq: "custom_ValKindStat",
		fill: func(r *vf.Rng, v reflect.Value, d int) {
			for _, n := range vksNames {
				fill(r, field(v, n), ftag{}, d)
			}
		},
		proj: func(v reflect.Value) MV { return mvList(projFieldsByName(v, vksNames...)...) }}
	customs[reflect.TypeOf(state.ValidatorsStat{})] = &custom{coq: "custom_ValidatorsStat",
		fill: func(r *vf.Rng, v reflect.Value, d int) {
			st := v.Addr().Interface().(*state.ValidatorsStat)
			*st = *state.NewValidatorsStat()
			for _, k := range []params.ValidatorKind{params.KindValidator, params.KindChamber, params.KindHouse} {
				customs[vksT].fill(r, reflect.ValueOf(st.Kinds[k]).Elem(), d)
			}
			for _, k := range []params.ValidatorRole{params.RoleChancellor, params.RoleSenator, params.RoleHouse} {
				customs[vksT].fill(r, reflect.ValueOf(st.Roles[k]).Elem(), d)
			}
		},
		proj: func(v reflect.Value) MV {
			st := v.Addr().Interface().(*state.ValidatorsStat)
			var out []MV
			for _, k := range []params.ValidatorKind{params.KindValidator, params.KindChamber, params.KindHouse} {
				out = append(out, customs[vksT].proj(reflect.ValueOf(st.Kinds[k]).Elem()))
			}
			for _, k := range []params.ValidatorRole{params.RoleChancellor, params.RoleSenator, params.RoleHouse} {
				out = append(out, customs[vksT].proj(reflect.ValueOf(st.Roles[k]).Elem()))
			}
			return mvList(out...)
		}}
	customs[reflect.TypeOf(state.Validators{})] = &custom{coq: "custom_Validators", args: []reflect.Type{valT},
		fill: func(r *vf.Rng, v reflect.Value, d int) { fill(r, field(v, "validators"), ftag{}, d) },
		proj: func(v reflect.Value) MV { return mvList(projFieldsByName(v, "validators")...) }}
	customs[reflect.TypeOf(state.ValidatorIndex{})] = &custom{coq: "custom_ValidatorIndex",
		fill: func(r *vf.Rng, v reflect.Value, d int) {
			ix := v.Addr().Interface().(*state.ValidatorIndex)
			n := r.Heavy(40)
			for i := 0; i < n; i++ {
				var a common.Address
				copy(a[:], r.Bytes(20))
				if r.Chance(30) { // shared prefixes
					a = common.Address{}
					a[19] = byte(r.Intn(4))
					a[r.Intn(20)] = byte(r.Intn(3))
				}
				ix.Add(a)
			}
		},
		proj: func(v reflect.Value) MV {
			ix := v.Addr().Interface().(*state.ValidatorIndex)
			var out []MV
			for _, a := range ix.List() {
				out = append(out, mvBytes(a[:]))
			}
			return mvList(out...)
		}}
	if pendingRelT != nil {
		customs[pendingRelT] = &custom{coq: "custom_pendingRelationship",
			fill: func(r *vf.Rng, v reflect.Value, d int) { fill(r, field(v, "r"), ftag{}, d) },
			proj: func(v reflect.Value) MV { return proj(field(v, "r"), ftag{}) }}
	}
	customs[reflect.TypeOf(ucon.Message{})] = &custom{coq: "custom_Message",
		fill: func(r *vf.Rng, v reflect.Value, d int) { fillStruct(r, v, d) },
		proj: func(v reflect.Value) MV { return projStruct(v) }}
	customs[reflect.TypeOf(staking.EvidenceDoubleSign{})] = &custom{coq: "custom_EvidenceDoubleSign",
		fill: func(r *vf.Rng, v reflect.Value, d int) {
			e := v.Addr().Interface().(*staking.EvidenceDoubleSign)
			e.Round = randBig(r)
			e.RoundIndex = uint32(randUint(r, 32))
			e.Signs = map[common.Hash][]byte{}
			n := r.Intn(5)
			for i := 0; i < n; i++ {
				var h common.Hash
				copy(h[:], r.Bytes(32))
				if r.Chance(30) {
					h = common.Hash{}
					h[31] = byte(r.Intn(4))
				}
				e.Signs[h] = randBytes(r, 70)
			}
		},
		proj: func(v reflect.Value) MV {
			e := v.Addr().Interface().(*staking.EvidenceDoubleSign)
			var ks []string
			for h := range e.Signs {
				ks = append(ks, string(h[:]))
			}
			sort.Strings(ks)
			var out []MV
			for _, k := range ks {
				out = append(out, mvList(mvBytes([]byte(k)), mvBytes(e.Signs[common.BytesToHash([]byte(k))])))
			}
			rd := e.Round
			if rd == nil {
				rd = new(big.Int)
			}
			return mvList(mvNum(rd), mvU(uint64(e.RoundIndex)), mvList(out...))
		}}
	customs[reflect.TypeOf(staking.LogData{})] = &custom{coq: "custom_LogData",
		fill: func(r *vf.Rng, v reflect.Value, d int) { fillStruct(r, v, d) },
		proj: func(v reflect.Value) MV { return projStruct(v) }}
	swrT := reflect.TypeOf(staking.SlashWithdrawRecord{})
	evT := reflect.TypeOf(staking.Evidence{})
	customs[reflect.TypeOf(staking.SlashData{})] = &custom{coq: "custom_SlashData", args: []reflect.Type{swrT, evT},
		fill: func(r *vf.Rng, v reflect.Value, d int) {
			for _, n := range []string{"Type", "MainAddress", "Total", "Records"} {
				fill(r, field(v, n), ftag{}, d)
			}
			ev := &staking.Evidence{}
			fillStruct(r, reflect.ValueOf(ev).Elem(), d)
			v.Addr().Interface().(*staking.SlashData).Evidence = ev
		},
		proj: func(v reflect.Value) MV {
			out := projFieldsByName(v, "Type", "MainAddress", "Total", "Records")
			ev := v.Addr().Interface().(*staking.SlashData).Evidence
			switch e := ev.(type) {
			case *staking.Evidence:
				if e == nil {
					out = append(out, mvNil())
				} else {
					out = append(out, projStruct(reflect.ValueOf(e).Elem()))
				}
			default:
				out = append(out, mvNil())
			}
			return mvList(out...)
		}}
}

// ---- schema translator (T4) -------------------------------------------------------

type translator struct {
	defs  []string
	names map[reflect.Type]string
}

func coqName(t reflect.Type) string {
	s := t.String()
	s = strings.NewReplacer(".", "_", "*", "P", "[", "_", "]", "_", " ", "", "{", "", "}", "", ";", "_").Replace(s)
	return "S_" + s
}

// schema of a value of type t in a context with the given tags; same case order
// as rlp.makeDecoder.  Panics (fails loudly) on anything the model lacks.
func (tr *translator) schema(t reflect.Type, tg ftag) string {
	k := t.Kind()
	switch {
	case t == rawValueT:
		panic("unsupported: rlp.RawValue in a decoded type")
	case t.Implements(decoderT) || (k != reflect.Ptr && reflect.PtrTo(t).Implements(decoderT)):
		base := t
		if k == reflect.Ptr {
			base = t.Elem()
		}
		c, ok := customs[base]
		if !ok {
			panic("type with custom DecodeRLP is not modelled: " + t.String())
		}
		if !(base.Implements(encoderT) || reflect.PtrTo(base).Implements(encoderT)) {
			panic("custom decoder without encoder: " + t.String())
		}
		return tr.named(base, func() string {
			s := c.coq
			for _, a := range c.args {
				s += " " + tr.schema(a, ftag{})
			}
			return s
		})
	case t.Implements(encoderT) || (k != reflect.Ptr && reflect.PtrTo(t).Implements(encoderT)):
		panic("custom encoder without decoder: " + t.String())
	case t.AssignableTo(bigPtrT), t.AssignableTo(bigIntT):
		return "SBig"
	case isUintKind(k):
		return fmt.Sprintf("(SUint %d)", t.Bits())
	case k == reflect.Bool:
		return "SBool"
	case k == reflect.String:
		return "SBytes"
	case k == reflect.Slice || k == reflect.Array:
		if isByteElem(t.Elem()) {
			if k == reflect.Array {
				if t.Len() == 1 {
					panic("unsupported: [1]byte (decodeByteArray ignores the error of s.Uint())")
				}
				return fmt.Sprintf("(SArr %d)", t.Len())
			}
			return "SBytes"
		}
		if k == reflect.Array {
			panic("unsupported: non-byte array " + t.String())
		}
		if tg.tail {
			panic("unsupported: rlp:\"tail\" " + t.String())
		}
		return "(SList " + tr.schema(t.Elem(), ftag{}) + ")"
	case k == reflect.Struct:
		return tr.named(t, func() string {
			var fs []string
			for _, f := range rlpFields(t) {
				fs = append(fs, tr.schema(f.Type, parseTag(f)))
			}
			return "SStruct [" + strings.Join(fs, "; ") + "]"
		})
	case k == reflect.Ptr:
		if tg.nilOK {
			return "(SOpt " + tr.schema(t.Elem(), ftag{}) + ")"
		}
		return "(SPtr " + tr.schema(t.Elem(), ftag{}) + ")"
	default:
		panic("unsupported kind " + k.String() + " in " + t.String())
	}
}

func (tr *translator) named(t reflect.Type, body func() string) string {
	if n, ok := tr.names[t]; ok {
		return n
	}
	if t.Name() == "" { // anonymous struct: inline
		return "(" + body() + ")"
	}
	n := coqName(t)
	tr.names[t] = n
	tr.defs = append(tr.defs, fmt.Sprintf("Definition %s : schema := %s.", n, body()))
	return n
}

// ---- random values -------------------------------------------------------------------

var bigBoundaries = []string{"0", "1", "127", "128", "255", "256", "65535", "65536",
	"18446744073709551615", "18446744073709551616",
	"57896044618658097711785492504343953926634992332820282019728792003956564819968",
	"115792089237316195423570985008687907853269984665640564039457584007913129639935"}

func randBig(r *vf.Rng) *big.Int {
	switch r.Intn(4) {
	case 0:
		b, _ := new(big.Int).SetString(bigBoundaries[r.Intn(len(bigBoundaries))], 10)
		return b
	case 1:
		return new(big.Int).SetUint64(uint64(r.Intn(300)))
	default:
		return new(big.Int).SetBytes(r.Bytes(r.Intn(34)))
	}
}

func randUint(r *vf.Rng, bits int) uint64 {
	max := ^uint64(0)
	if bits < 64 {
		max = (uint64(1) << uint(bits)) - 1
	}
	switch r.Intn(5) {
	case 0:
		return r.Pick([]uint64{0, 1, 127, 128, 255, 256, 65535, 65536, 1<<32 - 1, 1 << 32, max, max - 1}) & max
	case 1:
		return uint64(r.Intn(300)) & max
	default:
		return (r.U64() >> uint(r.Intn(64))) & max
	}
}

func randBytes(r *vf.Rng, max int) []byte {
	switch r.Intn(8) {
	case 0:
		return []byte{}
	case 1: // the single-byte boundary
		return []byte{byte(r.Pick([]uint64{0, 1, 127, 128, 129, 255}))}
	case 2: // around the 55/56 boundary
		return r.Bytes(54 + r.Intn(4))
	case 3:
		if max >= 300 {
			return r.Bytes(250 + r.Intn(20))
		}
	}
	return r.Bytes(r.Heavy(max))
}

func fillStruct(r *vf.Rng, v reflect.Value, d int) {
	for _, f := range rlpFields(v.Type()) {
		fill(r, field(v, f.Name), parseTag(f), d)
	}
}

// fill puts a random value into the settable v.
// sweepMode, when set, makes fill produce WELL-FORMED values at chosen boundaries:
// every small integer field (enum-like: versions, kinds, status, role, codes) takes
// the value enum, every byte-string field the length blen, wider integers and big
// integers one of 0 / 1 / max, lists are empty / single / several.
type sweepMode struct {
	enum uint64
	blen int
	wide int // 0: zero, 1: one, 2: max, 3: random
	list int // 0: empty, 1: one element, 2: three, 3: random
	// listN > 0: the outermost lists (depth 0) get exactly listN elements, nested lists are empty
	listN int
}

var sweep *sweepMode

func fill(r *vf.Rng, v reflect.Value, tg ftag, d int) {
	t := v.Type()
	k := t.Kind()
	if c, ok := customs[t]; ok {
		c.fill(r, v, d)
		return
	}
	if sw := sweep; sw != nil {
		switch {
		case t.AssignableTo(bigPtrT) || t.AssignableTo(bigIntT):
			x := new(big.Int)
			switch sw.wide {
			case 1:
				x.SetUint64(1)
			case 2:
				x.Sub(new(big.Int).Lsh(big.NewInt(1), 256), big.NewInt(1))
			case 3:
				x = randBig(r)
			}
			if t.AssignableTo(bigPtrT) {
				v.Set(reflect.ValueOf(x).Convert(t))
			} else {
				v.Set(reflect.ValueOf(*x).Convert(t))
			}
			return
		case isUintKind(k):
			max := ^uint64(0)
			if t.Bits() < 64 {
				max = (uint64(1) << uint(t.Bits())) - 1
			}
			if t.Bits() <= 16 {
				v.SetUint(sw.enum & max)
			} else {
				v.SetUint([]uint64{0, 1, max, randUint(r, t.Bits())}[sw.wide])
			}
			return
		case k == reflect.String:
			v.SetString(string(r.Bytes(sw.blen)))
			return
		case k == reflect.Slice && isByteElem(t.Elem()):
			v.Set(reflect.ValueOf(r.Bytes(sw.blen)).Convert(t))
			return
		case k == reflect.Slice:
			n := []int{0, 1, 3, r.Intn(4)}[sw.list]
			if d > 2 && n > 1 {
				n = 1
			}
			if sw.listN > 0 {
				n = 0
				if d == 0 {
					n = sw.listN
				}
			}
			sl := reflect.MakeSlice(t, n, n)
			for i := 0; i < n; i++ {
				fill(r, sl.Index(i), ftag{}, d+1)
			}
			v.Set(sl)
			return
		case k == reflect.Ptr:
			if tg.nilOK && r.Chance(30) {
				v.Set(reflect.Zero(t))
				return
			}
			p := reflect.New(t.Elem())
			fill(r, p.Elem(), ftag{}, d)
			v.Set(p)
			return
		}
	}
	switch {
	case t.AssignableTo(bigPtrT):
		if r.Chance(3) {
			v.Set(reflect.Zero(t))
		} else {
			v.Set(reflect.ValueOf(randBig(r)).Convert(t))
		}
	case t.AssignableTo(bigIntT):
		v.Set(reflect.ValueOf(*randBig(r)).Convert(t))
	case isUintKind(k):
		v.SetUint(randUint(r, t.Bits()))
	case k == reflect.Bool:
		v.SetBool(r.Bool())
	case k == reflect.String:
		v.SetString(string(randBytes(r, 40)))
	case k == reflect.Slice && isByteElem(t.Elem()):
		b := randBytes(r, 300)
		if len(b) == 0 && r.Bool() {
			v.Set(reflect.Zero(t))
		} else {
			v.Set(reflect.ValueOf(b).Convert(t))
		}
	case k == reflect.Array && isByteElem(t.Elem()):
		b := r.Bytes(t.Len())
		if r.Chance(15) {
			for i := range b {
				b[i] = 0
			}
			if r.Bool() && len(b) > 0 {
				b[len(b)-1] = byte(r.Intn(200))
			}
		}
		reflect.Copy(v, reflect.ValueOf(b))
	case k == reflect.Slice:
		n := r.Heavy(24)
		if d > 2 {
			n = r.Intn(3)
		}
		if n == 0 && r.Bool() {
			v.Set(reflect.Zero(t))
			return
		}
		s := reflect.MakeSlice(t, n, n)
		for i := 0; i < n; i++ {
			fill(r, s.Index(i), ftag{}, d+1)
		}
		v.Set(s)
	case k == reflect.Struct:
		fillStruct(r, v, d)
	case k == reflect.Ptr:
		if tg.nilOK && r.Chance(40) {
			v.Set(reflect.Zero(t))
			return
		}
		if !tg.nilOK && r.Chance(2) {
			v.Set(reflect.Zero(t)) // a nil pointer: written as the empty value
			curInvalid = true
			return
		}
		p := reflect.New(t.Elem())
		fill(r, p.Elem(), ftag{}, d)
		v.Set(p)
	default:
		panic("fill: unsupported " + t.String())
	}
}

// ---- projection Go value -> model value (what the writer sees) ----------------------------

func projStruct(v reflect.Value) MV {
	v = addressable(v)
	var out []MV
	for _, f := range rlpFields(v.Type()) {
		out = append(out, proj(field(v, f.Name), parseTag(f)))
	}
	return mvList(out...)
}

func proj(v reflect.Value, tg ftag) MV {
	t := v.Type()
	k := t.Kind()
	if c, ok := customs[t]; ok {
		return c.proj(addressable(v))
	}
	switch {
	case t.AssignableTo(bigPtrT):
		if v.IsNil() {
			return mvU(0)
		}
		return mvNum(v.Convert(bigPtrT).Interface().(*big.Int))
	case t.AssignableTo(bigIntT):
		b := v.Convert(bigIntT).Interface().(big.Int)
		return mvNum(&b)
	case isUintKind(k):
		return mvU(v.Uint())
	case k == reflect.Bool:
		return mvBool(v.Bool())
	case k == reflect.String:
		return mvBytes([]byte(v.String()))
	case k == reflect.Slice && isByteElem(t.Elem()):
		return mvBytes(v.Bytes())
	case k == reflect.Array && isByteElem(t.Elem()):
		b := make([]byte, v.Len())
		reflect.Copy(reflect.ValueOf(b), v)
		return mvBytes(b)
	case k == reflect.Slice:
		out := make([]MV, v.Len())
		for i := range out {
			out[i] = proj(v.Index(i), ftag{})
		}
		return mvList(out...)
	case k == reflect.Struct:
		return projStruct(v)
	case k == reflect.Ptr:
		if v.IsNil() {
			return mvNil()
		}
		return proj(v.Elem(), ftag{})
	}
	panic("proj: unsupported " + t.String())
}

func hasNil(m MV) bool {
	if m.K == "z" {
		return true
	}
	for _, x := range m.L {
		if hasNil(x) {
			return true
		}
	}
	return false
}
